import VelaVerif.Model.PassPacking
import VelaVerif.Spec.PassPacking
import VelaVerif.Lemmas.PassPackingShape2
import VelaVerif.Lemmas.PassSem
import VelaVerif.Lemmas.PassPackingFinal
import VelaVerif.Lemmas.PassPackingSpec
import VelaVerif.Lemmas.PassPackingReorder
import VelaVerif.Lemmas.PassPackingFuel
import VelaVerif.Lemmas.PassPackingFuelDfs
/-!
# C01 / C16 / C11 — pass packing (`pass_packing.pack_into_passes`)

Theorems about the model `Model/PassPacking.lean` (tied to the real function by the correspondence streams of
`harness/c01_packing.py`) and the regenerated flag tables `Gen/PassPacking.lean`.
-/
namespace VelaVerif.Props.C01Packing
open VelaVerif.PassPacking VelaVerif.PassPackingSpec VelaVerif.Gen.PassPacking VelaVerif.Lemmas.PassPackingWalk
open VelaVerif.Lemmas.PassPackingDfs VelaVerif.Lemmas.PassPackingSpec
open VelaVerif.PassSem VelaVerif.Lemmas.PassSem VelaVerif.Rewrites VelaVerif.RewriteSem VelaVerif.Lemmas.Rewrites

/-! ## (e) facts about the regenerated tables (re-checked against the live module on every run) -/

/-- `PassFlags` members are distinct single bits -/
theorem flags_are_distinct_bits :
    (passFlags.map (·.2)).Nodup ∧ ∀ f ∈ passFlags.map (·.2), ∃ k, k < 16 ∧ f = 2 ^ k := by decide

/-- the module's own sanity check (`assert not flags_to_clear & flags_to_set`), and in fact no row clears anything -/
theorem rows_set_and_clear_disjoint : ∀ r ∈ rows, r.toSet &&& r.toClear = 0 ∧ r.toClear = 0 := by decide

def placementMask : Nat := flagNpu ||| flagCpu ||| flagMemoryOnly ||| flagStartupInit

/-- every row sets exactly one placement flag and at least one of Main / Post / PostFusingLimited; once a row has been
    accepted, a row of ANOTHER placement is refused (its incompatible flags meet what the first row set, directly or through
    `Main`) - with one exception the table leaves open: after the start-up row (StartupInit | Main) the memory-only row
    (incompatible with Npu | Cpu only) would still be accepted. Harmless: the start-up operators have no inputs, nothing is
    ever reached from them (`WF.startupNoInputs`); the placement assertions of `build_pass` would fire otherwise. -/
theorem rows_consistent : ∀ r ∈ rows,
    (r.toSet &&& placementMask ∈ [flagNpu, flagCpu, flagMemoryOnly, flagStartupInit]) ∧
    (r.toSet &&& (flagMain ||| flagPost ||| flagPostFusingLimited) ≠ 0) ∧
    (∀ r' ∈ rows, r'.toSet &&& placementMask ≠ r.toSet &&& placementMask →
      r.toSet &&& r'.incompat ≠ 0 ∨ (r.set = some startupInitOps ∧ r'.set = some memoryOnlyOps)) := by decide

/-- the sets of the rows are pairwise disjoint (the order of `test_sequence` does not decide anything but the fall-back) -/
theorem row_sets_disjoint : ∀ i ∈ List.range rows.length, ∀ j ∈ List.range rows.length, i ≠ j →
    ∀ x ∈ ((rows.getD i ⟨none, 0, 0, 0⟩).set.getD []), x ∉ ((rows.getD j ⟨none, 0, 0, 0⟩).set.getD []) := by decide

/-- the last row, and only the last, is the fall-back -/
theorem fallback_is_last : (rows.map fun r => r.set.isNone) = List.replicate (rows.length - 1) false ++ [true] := by decide

/-- the rows of `test_sequence` are the rows of these sets, in this order -/
theorem row_sets_named : testSequenceSets =
    ["npu_post_ops", "npu_post_fuse_limited_ops", "mac_main_ops", "elem_wise_main_ops", "startup_init_ops", "memory_only_ops",
     "memcpy_ops", "cpu_ops", "none"] ∧
    rows.map (·.set) = [some npuPostOps, some npuPostFuseLimitedOps, some macMainOps, some elemWiseMainOps, some startupInitOps,
      some memoryOnlyOps, some memcpyOps, some cpuOps, none] := by decide

/-- post operations are exactly the RELU family (they are clamps), the limited ones are TANH / SIGMOID / QUANTIZE -/
theorem post_ops_are_clamps : npuPostOps = reluOps ∧ activationOps = reluOps ∧
    (∀ t ∈ npuPostFuseLimitedOps, t = opSigmoid ∨ t = opTanh ∨ t = opQuantize) := by decide

/-- the derived sets are what their names say -/
theorem derived_sets :
    (∀ x ∈ elemWiseMainOps, x ∈ binaryElemWiseMainOps ∨ x ∈ unaryElemWiseMainOps) ∧
    (∀ x ∈ binaryElemWiseMainOps ++ unaryElemWiseMainOps, x ∈ elemWiseMainOps) ∧
    (∀ x ∈ binaryElemWiseMainOps, x ∉ unaryElemWiseMainOps) ∧
    (∀ x ∈ elemWiseOps, x ∈ elemWiseMainOps ∨ x ∈ activationOps ∨ x = opSigmoid ∨ x = opTanh) ∧
    (∀ x ∈ elemWiseMainOps ++ activationOps ++ [opSigmoid, opTanh], x ∈ elemWiseOps) ∧
    (∀ x ∈ quantizationOps, x ∈ cpuOps) := by decide

/-- block types: the operators a pass can hold besides its main operator have none (so the "one major block type per pass"
    assertion is about main operators); every main / Memcpy operator type has one, with ONE exception: `MatMul` is listed in
    `mac_main_ops` but has `NpuBlockType.Default` (a pass led by it would get no primary operator; the TFLite reader never
    produces it) -/
theorem block_types :
    (∀ t ∈ npuPostOps ++ npuPostFuseLimitedOps ++ startupInitOps ++ memoryOnlyOps ++ cpuOps, blockTypeOf t = 0) ∧
    (((macMainOps ++ elemWiseMainOps ++ memcpyOps).filter fun t => blockTypeOf t == 0).map (fun t => (opInfo t).1) = ["MatMul"]) := by
  decide

/-- main operator types are not activation-like (the Spec's classes, defined from `Op.is_relu_op` and the three named types,
    agree with the module's sets) -/
theorem spec_classes_agree :
    (∀ t ∈ npuPostOps ++ npuPostFuseLimitedOps, isPostType t = true) ∧
    (∀ t ∈ npuPostFuseLimitedOps, isLimitedType t = true) ∧ (∀ t ∈ npuPostOps, isLimitedType t = false) ∧
    (∀ t ∈ macMainOps ++ elemWiseMainOps ++ memcpyOps ++ startupInitOps ++ memoryOnlyOps ++ cpuOps, isPostType t = false) := by decide


/-! ## (a), (b) the passes are a partition of the operators in an order that respects the dependencies

For EVERY graph description that is well-formed (`Spec.WF`: the relations `tens.ops` / `op.outputs` and `consumers()` /
`op.inputs` agree as `update_consumers` leaves them, acyclic, nothing dead, start-up operators without inputs, no operator
reading two outputs of one producer) on which the traversal does not raise: the proofs go through the invariants of the
traversal's reference counts (`Lemmas/PassPackingDfs … PassPackingFinal`). `packDfs` is the list before the CPU passes are
regrouped; the regrouped list is a permutation of it that `build_pass_links` re-checks (`final_*` below). -/

/-- **packing_partitions_ops.** Every operator of the subgraph is in exactly one pass, and the passes hold nothing else. -/
theorem packing_partitions_ops (G : Graph) (ps : List Pass) (hwf : WF G) (h : packDfs Rules.current G = .ok ps) :
    Partition G (ps.map toSpec) := by
  obtain ⟨rk, hW⟩ := wf_wfu hwf
  exact packDfs_partition hW h

/-- **packing_respects_dependencies.** In the concatenation of the passes every producer of an input of an operator comes before
    that operator: the pass list is a topological order of the quotient graph and inside a pass the operators are in
    dataflow order. -/
theorem packing_respects_dependencies (G : Graph) (ps : List Pass) (hwf : WF G) (h : packDfs Rules.current G = .ok ps) :
    TopoOrder G (ps.map toSpec) := by
  obtain ⟨rk, hW⟩ := wf_wfu hwf
  exact packDfs_topo hW h

/-- the same with the executable well-formedness check and the executable clauses the check applies to REAL pass lists -/
theorem packing_clauses_checked (G : Graph) (ps : List Pass) (hwf : wfB G = true) (h : packDfs Rules.current G = .ok ps) :
    partitionB G (ps.map toSpec) = true ∧ topoB G (ps.map toSpec) = true :=
  ⟨(partitionB_iff G _).mpr (packing_partitions_ops G ps (wfB_sound G hwf) h),
   (topoB_iff G _).mpr (packing_respects_dependencies G ps (wfB_sound G hwf) h)⟩

/-- inside a pass: every operator but the last has exactly one reader, a LATER operator of the same pass (a chain when the
    readers are unary, in general a tree towards the last operator): consequence of (c) `pass_shape` below, stated here for
    the whole list -/
theorem pass_shape_all (G : Graph) (ps : List Pass) (hwf : WF G) (hbt : MainHasBlock G) (h : packDfs Rules.current G = .ok ps) :
    ∀ p ∈ ps, (p.isStartup = false → passShapeB G (toSpec p) = true) ∧
      (p.isStartup = true → ∀ o ∈ p.ops, startupInitOps.contains (G.op o).type = true) := by
  obtain ⟨rk, hW⟩ := wf_wfu hwf
  exact packDfs_shape hW hbt h

/-- the model's own failure mode does not occur (1): the walk of `build_pass` ends within its fuel, for ANY graph and start list -/
theorem walk_never_out_of_fuel (R : Rules) (G : Graph) (start : List Nat) :
    (walkRun R G (walkFuel G start.length) (walkStart start)).fuelOut = false := walk_fuel_ok R G start

/-- (2) the traversal from the graph outputs ends within its fuel, for every well-formed graph: (a) and (b) are therefore
    statements about everything but the cases in which the code itself raises (assertions, IndexError) -/
theorem traversal_never_out_of_fuel (G : Graph) (hwf : WF G) : (dfsMain Rules.current G).fuelOut = false := by
  obtain ⟨rk, hW⟩ := wf_wfu hwf
  exact dfsMain_fuel_ok hW

/-! ### the final list (`sg.passes` after the CPU passes are regrouped) -/

/-- **final_partition.** The regrouping is a permutation: the final pass list is a partition of the operators as well. -/
theorem final_partition (G : Graph) (final : List Pass) (hwf : WF G) (h : packIntoPasses Rules.current G = .ok final) :
    Partition G (final.map toSpec) := by
  obtain ⟨ps, order, hps, hord, _, rfl⟩ := packIntoPasses_ok h
  exact partition_of_perm G ps _ (final_flat_perm ps order (reorder_perm G ps order hord)) (packing_partitions_ops G ps hwf hps)

/-- **final_links** (by construction: the model makes the two assertions of `build_pass_links`): in the final order, the pass that
    holds the producer of an input tensor of a pass comes earlier and lists the tensor among its outputs. Not proved: that the
    regrouping never trips these assertions (it can: see design.d/PassPacking.md, dynamic weights). -/
theorem final_links (G : Graph) (final : List Pass) (h : packIntoPasses Rules.current G = .ok final) :
    ∃ (ps : List Pass) (order : List Nat), packDfs Rules.current G = .ok ps ∧ final = order.map (fun i => ps.getD i default) ∧
      order.Perm (List.range ps.length) ∧
      ∀ pi ∈ order, ∀ t ∈ (ps.getD pi default).inputs, ∀ o ∈ (G.tensor t).ops,
        ∃ pj, ps.findIdx? (fun p => p.ops.contains o) = some pj ∧ order.idxOf pj < order.idxOf pi ∧
          (ps.getD pj default).outputs.contains t = true := by
  obtain ⟨ps, order, hps, hord, hl, rfl⟩ := packIntoPasses_ok h
  exact ⟨ps, order, hps, rfl, reorder_perm G ps order hord, linkProblems_nil G ps order hl⟩

/-! ## (c) the shape of a pass -/

/-- **pass_shape.** Whatever operator `build_pass` is started from, in whatever graph (no well-formedness needed, only that
    no operator is a `MatMul`, the one main type without a block type): the pass it returns satisfies the Spec's shape clause -
    an NPU pass has at most one main operator (MAC / elementwise main / Memcpy), which comes first and is the only one when it
    is a Memcpy; every other operator is RELU-type or TANH / SIGMOID / QUANTIZE (at most one of these, none behind a main
    operator); all run on the NPU; a created primary operator only when there is no main operator; and every operator but the
    last is fused into a LATER operator of the pass over a tensor for which `SafeFuse` holds (below). A CPU pass is one
    operator, a memory-only pass a chain of memory-only operators. -/
theorem pass_shape (G : Graph) (s : Nat) (p : Pass) (h : buildPass Rules.current G s = .ok p) (hbt : MainHasBlock G) :
    passShapeB G (toSpec p) = true := buildPass_shape G h hbt

/-- what `SafeFuse` says, conjunct by conjunct: the `can_pack` conditions stated exactly -/
theorem safe_fuse_means (G : Graph) (t o c : Nat) (h : SafeFuse G t o c) :
    (G.tensor t).ops = [o] ∧ some t ∈ (G.op c).inputs ∧
    (∀ u ∈ (G.op o).outputs, (G.tensor u).consumers = [] ∨ (G.tensor u).consumers = [some c]) ∧
    (G.op o).origType ≠ opTranspose ∧
    ((G.op c).type ∈ reluOps → (G.op o).act = none ∨ ∃ a, (G.op o).act = some a ∧ a ∈ reluOps) ∧
    (some t = (G.op c).ifm → (G.op c).ro0 = false ∧
      ((G.op c).ifmShapes = [] ∨ (G.op o).ofmShapes = [] ∨ (G.op o).ofmShapes[0]? = (G.op c).ifmShapes[0]?)) ∧
    ((G.op c).ifm2.isSome = true → some t = (G.op c).ifm2 → (G.op c).ro1 = false) := by
  unfold SafeFuse safeFuseB at h
  simp only [Bool.and_eq_true, beq_iff_eq, List.contains_iff_mem, List.all_eq_true, bne_iff_ne, ne_eq, Bool.or_eq_true,
    Bool.not_eq_true', List.length_eq_zero_iff] at h
  obtain ⟨⟨⟨⟨⟨⟨h1, h2⟩, h3⟩, h4⟩, h5⟩, h6⟩, h7⟩ := h
  refine ⟨h1, h2, ?_, h4, ?_, ?_, ?_⟩
  · intro u hu
    have := h3 u hu
    simpa [onlyConsumer] using this
  · intro hc
    rcases h5 with h5 | h5
    · rw [List.contains_iff_mem.mpr hc] at h5; exact Bool.noConfusion h5
    · unfold isReluAct at h5
      cases ha : (G.op o).act with
      | none => exact Or.inl rfl
      | some a => rw [ha] at h5; exact Or.inr ⟨a, rfl, List.contains_iff_mem.mp h5⟩
  · intro ht
    rcases h6 with h6 | h6
    · simp [ht] at h6
    · exact ⟨h6.1, by rcases h6.2 with (h | h) | h <;> simp [h]⟩
  · intro hi ht
    rcases h7 with h7 | h7
    · simp [hi, ht] at h7
    · exact h7.1

/-- a fused tensor is not observable: no output of the producer is a graph output, nobody but the consumer reads it -/
theorem fused_tensors_unobservable (G : Graph) (t o c : Nat) (h : SafeFuse G t o c) :
    ∀ u ∈ (G.op o).outputs, none ∉ (G.tensor u).consumers ∧ ∀ c', some c' ∈ (G.tensor u).consumers → c' = c := by
  intro u hu
  rcases (safe_fuse_means G t o c h).2.2.1 u hu with h0 | h0 <;> rw [h0] <;> simp

/-! ## (d) a packed pass computes what its operators compute one after the other -/

/-- **packed_pass_semantics.** Under the packing condition `oneAct` (nothing packed; or clamps only - the fused activation of the
    primary operator and every packed activation are RELU-type; or a single TANH / SIGMOID on a primary operator without
    activation) the ONE hardware operation - main operator, then the activation `generate_high_level_commands_for_sched_op`
    computes - equals the operators of the pass executed one after the other, on every value of the main operator, whenever
    the final clamp range is non-empty (`pass_activation_eq_sequential` is the clamp case). -/
theorem packed_pass_semantics (F : Nat → Int → Int) (fused : Option Act) (posts : List Act) (x : Int)
    (hc : oneAct fused posts = true) (hne : finalNonempty ((hwActivation fused posts).bind Act.range?)) :
    hwApply F fused posts x = seqApply F fused posts x := oneAct_sem F fused posts x hc hne

/-- **the packing conditions the model enforces give `oneAct`**, for every pass entry that satisfies the Spec's shape clause (c) and
    the one-activation clause (no RELU-type operator next to a TANH / SIGMOID operator): whatever ranges the clamps have. -/
theorem shaped_pass_one_activation (G : Graph) (rng frng : Nat → ActRange Int) (sp : SPass) (prim : Option Nat)
    (hshape : passShapeB G sp = true) (hnpu : sp.placement = Placement.npu.code) (hone : oneActivationB G sp = true)
    (hnd : sp.ops.Nodup) (hprim : ∀ m, prim = some m → m ∈ sp.ops ∧ isMainType (G.op m).type = true) :
    oneAct (passActs G rng frng prim sp.ops).1 (passActs G rng frng prim sp.ops).2 = true :=
  shape_one_activation G rng frng sp prim hshape hnpu hone hnd hprim

/-- the model's NPU passes: the primary operator, when it is an operator of the graph, is a main operator of the pass, and
    no operator occurs twice - the remaining premises of `shaped_pass_one_activation` -/
theorem model_pass_primary (G : Graph) (s : Nat) (p : Pass) (h : buildPass Rules.current G s = .ok p) :
    p.ops.Nodup ∧ ∀ m, p.primary = .real m → m ∈ p.ops ∧ isMainType (G.op m).type = true := by
  obtain ⟨ofm, ofs, hfin, _⟩ := buildPass_ok Rules.current G h
  obtain ⟨_, hp⟩ := finishPass_ok G hfin
  have inv := walkRun_inv Rules.current G [s] (walkFuel G 1) _ (walkStart_inv Rules.current G [s])
  have inv2 := walkRun_inv2 Rules.current G (walkFuel G 1) _ (walkStart_inv2 Rules.current G [s])
  generalize walkRun Rules.current G (walkFuel G 1) (walkStart [s]) = w at *
  subst hp
  refine ⟨accOk_nodup G Rules.current [s] w.acc inv.acc, ?_⟩
  intro m hm
  have hw : w.primary = some m := by
    simp only [finishPure, finPrimary] at hm
    split at hm
    · rename_i o ho; simp at hm; rw [ho, hm]
    · split at hm <;> simp at hm
  obtain ⟨hmem, hbt⟩ := inv2.primSome m hw
  refine ⟨hmem, ?_⟩
  cases hx : isPostType (G.op m).type with
  | true => exact absurd (isPostType_block hx) hbt
  | false => simp [isMainType, hx]

/-- **the repaired rule is needed, and one more is missing** (`_witness`): the command generator's activation differs from the
    sequential meaning as soon as a non-clamp meets a clamp.
    (1) a LUT / TANH fused activation followed by a RELU-type operator (finding C01-2: the clamp replaced the lookup);
    (2) a TANH / SIGMOID operator followed by a RELU-type operator; (3) the other way round. (2) and (3) are what the
    UNCHANGED `pack_into_passes` still builds for int16 TANH / LOGISTIC (`relu_tanh_in_one_pass_witness` below). -/
theorem packed_pass_semantics_witness :
    (hwApply (fun _ v => v + 100) (some (.fn 0)) [.clamp ReluKind.reluN1To1.range] 0 ≠
      seqApply (fun _ v => v + 100) (some (.fn 0)) [.clamp ReluKind.reluN1To1.range] 0) ∧
    (hwApply (fun _ v => v + 100) none [.fn 0, .clamp ReluKind.relu6.range] 0 ≠
      seqApply (fun _ v => v + 100) none [.fn 0, .clamp ReluKind.relu6.range] 0) ∧
    (hwApply (fun _ v => v) none [.clamp ReluKind.relu.range, .fn 0] (-5) ≠
      seqApply (fun _ v => v) none [.clamp ReluKind.relu.range, .fn 0] (-5)) := by decide

/-! ## `_witness` graphs: what the rules did before the repairs, and what they still do -/

namespace Witness

def fmT (ops : List Nat) (cons : List (Option Nat)) : PTensor := { ops := ops, consumers := cons, purpose := purposeFeatureMap }
def sh : Shape := [1, 6, 6, 8]
def npuOp (ty : Nat) : POp := { type := ty, origType := ty, runOnNpu := true }

/-- graph input -> `producer` -> `consumer` -> graph output (operators 0, 1, 2; tensors 0, 1, 2), equal operator shapes -/
def chain (producer consumer : POp) : Graph :=
  { ops := [{ type := opPlaceholder, origType := opPlaceholder, outputs := [0] },
            { producer with inputs := [some 0], outputs := [1], ifmShapes := [sh], ofmShapes := [sh] },
            { consumer with inputs := [some 1], outputs := [2], ifmShapes := [sh], ofmShapes := [sh] }],
    tensors := [fmT [0] [some 1], fmT [1] [some 2], fmT [2] [none]],
    outputs := [2], inputs := [0] }

/-- the operators of the passes `pack_into_passes` returns, the Spec's shape clause (c) and one-activation clause on them -/
def verdict (R : Rules) (G : Graph) : Option (List (List Nat) × Bool × Bool) :=
  (packIntoPasses R G).toOption.map fun ps =>
    (ps.map (·.ops), shapeB G (ps.map toSpec), (ps.map toSpec).all (oneActivationB G))

/-- C01-1: MAX_POOL -> (slice read moved onto) RELU6 -/
def gSlice : Graph := chain (npuOp opMaxPool) { npuOp opRelu6 with ro0 := true }
/-- C01-2: CONV_2D with a LUT activation -> RELU_N1_TO_1 -/
def gLut : Graph := chain { npuOp opConv2DBias with act := some opLUT } (npuOp opReluN1To1)
/-- C01-22: TRANSPOSE (a 1x1 average pool whose original type is Transpose) -> RELU6 -/
def gTranspose : Graph := chain { npuOp opAvgPool with origType := opTranspose } (npuOp opRelu6)
/-- C01-5: Memcpy (a RESHAPE kept as a copy) -> RELU6 -/
def gMemcpy : Graph := chain (npuOp opMemcpy) (npuOp opRelu6)
/-- `test_sequence` before C01-5: the Memcpy row was compatible with `PassFlags.Post` -/
def rowsBeforeC01_5 : List Row :=
  rows.map fun r => if r.set == some memcpyOps then { r with incompat := r.incompat - flagPost } else r
/-- still open: int16 LOGISTIC -> RELU6 -/
def gSigmoidRelu : Graph := chain (npuOp opSigmoid) (npuOp opRelu6)
def gReluTanh : Graph := chain (npuOp opRelu) (npuOp opTanh)

end Witness

open Witness in
/-- **C01-1** an activation that reads its input through a slice: the old rule fused it into the producer (the fused edge reads
    through a read offset: clause (c) fails), the repaired rule gives it its own pass -/
theorem slice_read_witness :
    verdict { Rules.current with readOffsetCheck := false } gSlice = some ([[0], [1, 2]], false, true) ∧
    verdict Rules.current gSlice = some ([[0], [1], [2]], true, true) := by decide +kernel

open Witness in
/-- **C01-2** a RELU-type operator behind a LUT activation -/
theorem lut_activation_witness :
    verdict { Rules.current with actCheck := false } gLut = some ([[0], [1, 2]], false, true) ∧
    verdict Rules.current gLut = some ([[0], [1], [2]], true, true) := by decide +kernel

open Witness in
/-- **C01-22** an activation behind a TRANSPOSE -/
theorem transpose_witness :
    verdict { Rules.current with transposeCheck := false } gTranspose = some ([[0], [1, 2]], false, true) ∧
    verdict Rules.current gTranspose = some ([[0], [1], [2]], true, true) := by decide +kernel

open Witness in
/-- **C01-5** `PassFlags.Post` with a Memcpy: the old table packed the activation into the DMA's pass -/
theorem memcpy_post_witness :
    verdict { Rules.current with rows := rowsBeforeC01_5 } gMemcpy = some ([[0], [1, 2]], false, true) ∧
    verdict Rules.current gMemcpy = some ([[0], [1], [2]], true, true) := by decide +kernel

open Witness in
/-- **still open** (finding `relu-and-tanh-sigmoid-operators-in-one-pass-keep-only-the-last-activation`): without the rule of the
    proposed repair C01-31 (`mixCheck`; `Gen.PassPacking.reluTanhSigmoidRule` says whether the module under verification has it) a
    TANH / SIGMOID operator and a RELU-type operator end up in one pass (with a created average pool); the shape clause holds,
    the one-activation clause fails, and by `packed_pass_semantics_witness` (2) / (3) the hardware operation then differs from
    the sequence. With the rule each gets its own pass. -/
theorem relu_tanh_in_one_pass_witness :
    verdict { Rules.current with mixCheck := false } gSigmoidRelu = some ([[0], [1, 2]], true, false) ∧
    verdict { Rules.current with mixCheck := false } gReluTanh = some ([[0], [1, 2]], true, false) ∧
    verdict { Rules.current with mixCheck := true } gSigmoidRelu = some ([[0], [1], [2]], true, true) ∧
    verdict { Rules.current with mixCheck := true } gReluTanh = some ([[0], [1], [2]], true, true) := by decide +kernel


/-! ## non-vacuity: the witness graphs are well-formed and the traversal succeeds on them -/

open Witness in
example : wfB gSlice = true ∧ wfB gLut = true ∧ wfB gMemcpy = true ∧ wfB gSigmoidRelu = true := by decide +kernel

open Witness in
example : (packDfs Rules.current gSlice).toOption.map (fun ps => ps.map (·.ops)) = some [[0], [1], [2]] := by decide +kernel

open Witness in
example : MainHasBlock gSlice := mainHasBlock_of_check gSlice (by decide +kernel)

end VelaVerif.Props.C01Packing
