import VelaVerif.Model.PassPacking
import VelaVerif.Spec.PassPacking
/-!
# C01 / C16 / C11 — pass packing (`pass_packing.pack_into_passes`)

Theorems about the model `Model/PassPacking.lean` (tied to the real function by the correspondence streams of
`harness/c01_packing.py`) and the regenerated flag tables `Gen/PassPacking.lean`.
-/
namespace VelaVerif.Props.C01Packing
open VelaVerif.PassPacking VelaVerif.PassPackingSpec VelaVerif.Gen.PassPacking

/-! ## (e) facts about the regenerated tables (re-checked against the live module on every run) -/

/-- `PassFlags` members are distinct single bits -/
theorem flags_are_distinct_bits :
    (passFlags.map (·.2)).Nodup ∧ ∀ f ∈ passFlags.map (·.2), ∃ k, k < 16 ∧ f = 2 ^ k := by decide

/-- the module's own sanity check (`assert not flags_to_clear & flags_to_set`), and in fact no row clears anything -/
theorem rows_set_and_clear_disjoint : ∀ r ∈ rows, r.toSet &&& r.toClear = 0 ∧ r.toClear = 0 := by decide

def placementMask : Nat := flagNpu ||| flagCpu ||| flagMemoryOnly ||| flagStartupInit

/-- every row sets exactly one placement flag and at least one of Main / Post / PostFusingLimited; once a row has been
    accepted, a row of ANOTHER placement is refused (its incompatible flags meet what the first row set, directly or through
    `Main`) - with one exception the table leaves open: after the start-up row (StartupInit | Main) the memory-only row
    (incompatible with Npu | Cpu only) would still be accepted. Harmless: the start-up operators have no inputs, nothing is
    ever reached from them (`WF.startupNoInputs`); the placement assertions of `build_pass` would fire otherwise. -/
theorem rows_consistent : ∀ r ∈ rows,
    (r.toSet &&& placementMask ∈ [flagNpu, flagCpu, flagMemoryOnly, flagStartupInit]) ∧
    (r.toSet &&& (flagMain ||| flagPost ||| flagPostFusingLimited) ≠ 0) ∧
    (∀ r' ∈ rows, r'.toSet &&& placementMask ≠ r.toSet &&& placementMask →
      r.toSet &&& r'.incompat ≠ 0 ∨ (r.set = some startupInitOps ∧ r'.set = some memoryOnlyOps)) := by decide

/-- the sets of the rows are pairwise disjoint (the order of `test_sequence` does not decide anything but the fall-back) -/
theorem row_sets_disjoint : ∀ i ∈ List.range rows.length, ∀ j ∈ List.range rows.length, i ≠ j →
    ∀ x ∈ ((rows.getD i ⟨none, 0, 0, 0⟩).set.getD []), x ∉ ((rows.getD j ⟨none, 0, 0, 0⟩).set.getD []) := by decide

/-- the last row, and only the last, is the fall-back -/
theorem fallback_is_last : (rows.map fun r => r.set.isNone) = List.replicate (rows.length - 1) false ++ [true] := by decide

/-- the rows of `test_sequence` are the rows of these sets, in this order -/
theorem row_sets_named : testSequenceSets =
    ["npu_post_ops", "npu_post_fuse_limited_ops", "mac_main_ops", "elem_wise_main_ops", "startup_init_ops", "memory_only_ops",
     "memcpy_ops", "cpu_ops", "none"] ∧
    rows.map (·.set) = [some npuPostOps, some npuPostFuseLimitedOps, some macMainOps, some elemWiseMainOps, some startupInitOps,
      some memoryOnlyOps, some memcpyOps, some cpuOps, none] := by decide

/-- post operations are exactly the RELU family (they are clamps), the limited ones are TANH / SIGMOID / QUANTIZE -/
theorem post_ops_are_clamps : npuPostOps = reluOps ∧ activationOps = reluOps ∧
    (∀ t ∈ npuPostFuseLimitedOps, t = opSigmoid ∨ t = opTanh ∨ t = opQuantize) := by decide

/-- the derived sets are what their names say -/
theorem derived_sets :
    (∀ x ∈ elemWiseMainOps, x ∈ binaryElemWiseMainOps ∨ x ∈ unaryElemWiseMainOps) ∧
    (∀ x ∈ binaryElemWiseMainOps ++ unaryElemWiseMainOps, x ∈ elemWiseMainOps) ∧
    (∀ x ∈ binaryElemWiseMainOps, x ∉ unaryElemWiseMainOps) ∧
    (∀ x ∈ elemWiseOps, x ∈ elemWiseMainOps ∨ x ∈ activationOps ∨ x = opSigmoid ∨ x = opTanh) ∧
    (∀ x ∈ elemWiseMainOps ++ activationOps ++ [opSigmoid, opTanh], x ∈ elemWiseOps) ∧
    (∀ x ∈ quantizationOps, x ∈ cpuOps) := by decide

/-- block types: the operators a pass can hold besides its main operator have none (so the "one major block type per pass"
    assertion is about main operators); every main / Memcpy operator type has one, with ONE exception: `MatMul` is listed in
    `mac_main_ops` but has `NpuBlockType.Default` (a pass led by it would get no primary operator; the TFLite reader never
    produces it) -/
theorem block_types :
    (∀ t ∈ npuPostOps ++ npuPostFuseLimitedOps ++ startupInitOps ++ memoryOnlyOps ++ cpuOps, blockTypeOf t = 0) ∧
    (((macMainOps ++ elemWiseMainOps ++ memcpyOps).filter fun t => blockTypeOf t == 0).map (fun t => (opInfo t).1) = ["MatMul"]) := by
  decide

/-- main operator types are not activation-like (the Spec's classes, defined from `Op.is_relu_op` and the three named types,
    agree with the module's sets) -/
theorem spec_classes_agree :
    (∀ t ∈ npuPostOps ++ npuPostFuseLimitedOps, isPostType t = true) ∧
    (∀ t ∈ npuPostFuseLimitedOps, isLimitedType t = true) ∧ (∀ t ∈ npuPostOps, isLimitedType t = false) ∧
    (∀ t ∈ macMainOps ++ elemWiseMainOps ++ memcpyOps ++ startupInitOps ++ memoryOnlyOps ++ cpuOps, isPostType t = false) := by decide

end VelaVerif.Props.C01Packing
