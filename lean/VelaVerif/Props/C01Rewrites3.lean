import VelaVerif.Spec.RewriteSem3
import VelaVerif.Model.Rewrites3
import VelaVerif.Props.C01Rewrites2
import VelaVerif.Lemmas.Rewrites3
/-!
# C01 — the rewrites of `Model/Rewrites3.lean` preserve what the operator computes

Third part (stream `harness/c01_rewrites3.py`): RESIZE of a 1x1 input as a broadcast ADD, AVERAGE_POOL with a wide stride as
a convolution, SHAPE as a constant, UNPACK as a reshaped split.
-/
namespace VelaVerif.Props.C01Rewrites3
open VelaVerif.Requant VelaVerif.TfliteRef VelaVerif.RewriteSem VelaVerif.RewriteSem2 VelaVerif.RewriteSem3 VelaVerif.Rewrites VelaVerif.Rewrites2
  VelaVerif.Rewrites3 VelaVerif.Lemmas.Rewrites VelaVerif.Lemmas.Rewrites2 VelaVerif.Lemmas.Rewrites3 VelaVerif.Lemmas.Sem

/-! ## 15. RESIZE of a 1x1 input = broadcast ADD with a zero constant -/

/-- every output row / column of a nearest-neighbour resize of a dimension of size one reads index 0 -/
theorem resize1x1_nearest_src (y num den : Nat) (align half : Bool) : nearestSrc y num den align half 1 = 0 := by
  unfold nearestSrc
  simp only []
  omega

/-- **RESIZE_NEAREST_NEIGHBOR of a 1x1 input**: every output element is the input element of its channel (any scale,
    any align_corners / half_pixel_centers) -/
theorem resize1x1_nearest_eq (ifm : Nat → Nat → Nat → Int) (numY denY numX denX : Nat) (align half : Bool) (oy ox c : Nat) :
    resizeNearestAt 1 1 ifm numY denY numX denX align half oy ox c = ifm 0 0 c := by
  unfold resizeNearestAt
  rw [resize1x1_nearest_src, resize1x1_nearest_src]

/-- **RESIZE_BILINEAR (integer kernel) of a 1x1 input**: every output element is the input element of its channel, for
    every source position and weight the kernel may compute -/
theorem resize1x1_bilinear_eq (ifm : Nat → Nat → Nat → Int) (y0 y1 x0 x1 : Nat) (dy dx : Int) (c : Nat) :
    resizeBilinearIntAt 1 1 ifm y0 y1 x0 x1 dy dx c = ifm 0 0 c := by
  unfold resizeBilinearIntAt clampedAt
  have e : ∀ k : Nat, min k (1 - 1) = 0 := by intro k; omega
  simp only [e]
  exact bilinearInt_const _ _ _

/-- **The ADD the rewrite creates**: at every output element `(h, w, c)` the reference ADD of the all-zero constant (zero
    point 0, ANY multiplier) and the broadcast 1x1 input is `requantViaAdd` of the input element of that channel — it depends on
    neither `h` nor `w`, and the constant contributes nothing. -/
theorem resize1x1_add_value (ifm : Nat → Nat → Nat → Int) (zpIn : Int) (ls : Nat) (m1 s1 m2 s2 mo so : Int) (zpOut lo hi : Int) (h w c : Nat) :
    addBroadcastAt (fun _ _ _ => 0) 1 1 ifm 0 (-zpIn) ls m1 s1 m2 s2 mo so zpOut lo hi h w c =
    requantViaAdd (ifm 0 0 c) zpIn ls m2 s2 mo so zpOut lo hi := by
  unfold addBroadcastAt addElem requantViaAdd bcast
  simp only [if_true, Int.add_zero, Int.zero_mul, mbqm_zero, Int.zero_add]
  rfl

/-- **`convert_resize_1x1_to_add` preserves the operator** (nearest-neighbour): when the ADD's scaling is the identity on the
    element type's range (`hid`; input and output quantisation equal — the stream evaluates `hid` on the whole range for the
    multipliers of every generated operator), the broadcast ADD equals the RESIZE at every output element, for every input. -/
theorem resize1x1_to_add_nearest_eq (ifm : Nat → Nat → Nat → Int) (zpIn : Int) (ls : Nat) (m1 s1 m2 s2 mo so : Int) (zpOut lo hi : Int)
    (hrange : ∀ c, lo ≤ ifm 0 0 c ∧ ifm 0 0 c ≤ hi)
    (hid : ∀ v, lo ≤ v → v ≤ hi → requantViaAdd v zpIn ls m2 s2 mo so zpOut lo hi = v)
    (numY denY numX denX : Nat) (align half : Bool) (h w c : Nat) :
    addBroadcastAt (fun _ _ _ => 0) 1 1 ifm 0 (-zpIn) ls m1 s1 m2 s2 mo so zpOut lo hi h w c =
    resizeNearestAt 1 1 ifm numY denY numX denX align half h w c := by
  rw [resize1x1_add_value, resize1x1_nearest_eq]
  exact hid _ (hrange c).1 (hrange c).2

/-- the same for the integer bilinear kernel -/
theorem resize1x1_to_add_bilinear_eq (ifm : Nat → Nat → Nat → Int) (zpIn : Int) (ls : Nat) (m1 s1 m2 s2 mo so : Int) (zpOut lo hi : Int)
    (hrange : ∀ c, lo ≤ ifm 0 0 c ∧ ifm 0 0 c ≤ hi)
    (hid : ∀ v, lo ≤ v → v ≤ hi → requantViaAdd v zpIn ls m2 s2 mo so zpOut lo hi = v)
    (y0 y1 x0 x1 : Nat) (dy dx : Int) (h w c : Nat) :
    addBroadcastAt (fun _ _ _ => 0) 1 1 ifm 0 (-zpIn) ls m1 s1 m2 s2 mo so zpOut lo hi h w c =
    resizeBilinearIntAt 1 1 ifm y0 y1 x0 x1 dy dx c := by
  rw [resize1x1_add_value, resize1x1_bilinear_eq]
  exact hid _ (hrange c).1 (hrange c).2

/-- `hid` is not vacuous: the multipliers of scale 0.5 in and out (`qmAdd` of 1.0, 0.5, 0.5, left shift 20) are the identity on
    int8 -/
example : (List.range 256).all (fun k => requantViaAdd ((k : Int) - 128) 3 20 1073741824 (-1) 1073741824 (-17) 3 (-128) 127 == (k : Int) - 128) = true := by
  decide +kernel

/-- without `hid` the statement is false: an ADD rescales, a RESIZE does not — with an output scale twice the input scale the
    ADD halves the value -/
theorem resize1x1_requantises_witness :
    requantViaAdd 100 0 20 1073741824 (-1) 1073741824 (-18) 0 (-128) 127 = 50 := by decide +kernel

/-- the model's dispatch: a 1x1 input that is not already the output shape takes the ADD route, whatever the kind -/
theorem resizeRoute_1x1 (bil half : Bool) (n c oh ow : Nat) (h : ¬ (oh = 1 ∧ ow = 1)) :
    resizeRoute bil half [n, 1, 1, c] [n, oh, ow, c] = .add1x1 := by
  unfold resizeRoute
  have : ¬ ([n, 1, 1, c] = [n, oh, ow, c]) := by
    intro e; simp at e; omega
  simp [this]

/-! ## 16. AVERAGE_POOL with a wide stride = convolution with a diagonal all-ones kernel, scale 1/(kh·kw), rounding away from zero -/

/-- **The accumulator of the created convolution.** For a window inside the IFM (VALID padding, which the supported-operator
    check requires of a width stride above 3), output channel `oc < C`, any input offset (minus the IFM zero point; the
    command generator forces it to 0 for this operator): the convolution with the kernel `w[ky, kx, ic, oc] = [ic = oc]` sums
    input channel `oc` only — it is the reference pooling sum plus `offset · kh · kw` — and the reference divides by
    `kh · kw`. With a `[kh, kw, 1, depth]` kernel (repaired finding 24) the left-hand side is another function. -/
theorem avgpool_conv_acc_eq (H W C : Nat) (ifm : Nat → Nat → Nat → Int) (kh kw sh sw oy ox oc : Nat) (inOff : Int) (hoc : oc < C)
    (hy : oy * sh + kh ≤ H) (hx : ox * sw + kw ≤ W) :
    convAcc H W C ifm kh kw (diagWeight oc) sh sw 1 1 0 0 inOff oy ox =
      (poolSumCount H W (fun y x => ifm y x oc) kh kw sh sw 0 0 oy ox).1 + inOff * (kw : Int) * (kh : Int) ∧
    (poolSumCount H W (fun y x => ifm y x oc) kh kw sh sw 0 0 oy ox).2 = kh * kw := by
  rw [poolSumCount_eq]
  constructor
  · unfold convAcc
    simp only []
    have e : ∀ ky, ky < kh → (sumRange kw fun kx =>
          if 0 ≤ ((oy * sh + ky * 1 : Nat) : Int) - ((0 : Nat) : Int) ∧ ((oy * sh + ky * 1 : Nat) : Int) - ((0 : Nat) : Int) < (H : Int) ∧
             0 ≤ ((ox * sw + kx * 1 : Nat) : Int) - ((0 : Nat) : Int) ∧ ((ox * sw + kx * 1 : Nat) : Int) - ((0 : Nat) : Int) < (W : Int)
          then sumRange C fun ic => (ifm (((oy * sh + ky * 1 : Nat) : Int) - ((0 : Nat) : Int)).toNat (((ox * sw + kx * 1 : Nat) : Int) - ((0 : Nat) : Int)).toNat ic + inOff) *
              diagWeight oc ky kx ic
          else 0) =
        (sumRange kw fun kx =>
          if 0 ≤ ((oy * sh + ky : Nat) : Int) - ((0 : Nat) : Int) ∧ ((oy * sh + ky : Nat) : Int) - ((0 : Nat) : Int) < (H : Int) ∧
             0 ≤ ((ox * sw + kx : Nat) : Int) - ((0 : Nat) : Int) ∧ ((ox * sw + kx : Nat) : Int) - ((0 : Nat) : Int) < (W : Int)
          then ifm (((oy * sh + ky : Nat) : Int) - ((0 : Nat) : Int)).toNat (((ox * sw + kx : Nat) : Int) - ((0 : Nat) : Int)).toNat oc else 0) + inOff * (kw : Int) := by
      intro ky hky
      rw [← sumRange_const kw inOff, ← sumRange_add]
      apply sumRange_congr
      intro kx hkx
      simp only [Nat.mul_one]
      have c1 : 0 ≤ ((oy * sh + ky : Nat) : Int) - ((0 : Nat) : Int) ∧ ((oy * sh + ky : Nat) : Int) - ((0 : Nat) : Int) < (H : Int) ∧
             0 ≤ ((ox * sw + kx : Nat) : Int) - ((0 : Nat) : Int) ∧ ((ox * sw + kx : Nat) : Int) - ((0 : Nat) : Int) < (W : Int) := by omega
      rw [if_pos c1, if_pos c1]
      unfold diagWeight
      rw [sumRange_diag, if_pos hoc]
    rw [sumRange_congr _ _ _ e, sumRange_add, sumRange_const]
  · have hrow : ∀ ky, ky < kh → (countRange kw fun kx =>
        decide (0 ≤ ((oy * sh + ky : Nat) : Int) - ((0 : Nat) : Int) ∧ ((oy * sh + ky : Nat) : Int) - ((0 : Nat) : Int) < (H : Int) ∧
             0 ≤ ((ox * sw + kx : Nat) : Int) - ((0 : Nat) : Int) ∧ ((ox * sw + kx : Nat) : Int) - ((0 : Nat) : Int) < (W : Int))) = kw := by
      intro ky hky
      apply countRange_true
      intro kx hkx
      have c1 : 0 ≤ ((oy * sh + ky : Nat) : Int) - ((0 : Nat) : Int) ∧ ((oy * sh + ky : Nat) : Int) - ((0 : Nat) : Int) < (H : Int) ∧
             0 ≤ ((ox * sw + kx : Nat) : Int) - ((0 : Nat) : Int) ∧ ((ox * sw + kx : Nat) : Int) - ((0 : Nat) : Int) < (W : Int) := by omega
      exact decide_eq_true c1
    exact foldl_add_const kh kw _ hrow

/-- **The rounding.** Rounding `acc / n` to the nearest integer, halves away from zero — the `AwayZero` rounding the rewrite asks
    for, applied to the EXACT scale `1 / n` the rewrite stores — is the reference kernel's average for signed types, for
    every accumulator. -/
theorem avgpool_round_away_eq_ref_signed (acc : Int) (n : Nat) (hn : 0 < n) : roundAway acc n = avgRound true acc n := by
  unfold roundAway avgRound
  have hn0 : ¬ (n = 0) := by omega
  simp only [if_neg hn0, if_true]
  by_cases hp : acc > 0
  · have h0 : acc ≥ 0 := by omega
    rw [if_pos h0, if_pos hp, Int.tdiv_eq_ediv_of_nonneg (by omega)]
    exact half_up_div acc n (by omega) hn
  · rw [if_neg hp]
    have e : acc - ((n / 2 : Nat) : Int) = -((-acc) + ((n / 2 : Nat) : Int)) := by omega
    rw [e, Int.neg_tdiv, Int.tdiv_eq_ediv_of_nonneg (by omega), ← half_up_div (-acc) n (by omega) hn]
    by_cases hz : acc ≥ 0
    · have : acc = 0 := by omega
      subst this
      rw [if_pos (by omega)]
      have : (2 * (0 : Int) + (n : Int)) / (2 * (n : Int)) = 0 := Int.ediv_eq_zero_of_lt (by omega) (by omega)
      simp only [Int.neg_zero, this]
    · rw [if_neg hz]

/-- the same for uint8 (the kernel adds `n / 2` and truncates; its sums are non-negative) -/
theorem avgpool_round_away_eq_ref_unsigned (acc : Int) (n : Nat) (hn : 0 < n) (hacc : 0 ≤ acc) : roundAway acc n = avgRound false acc n := by
  unfold roundAway avgRound
  have hn0 : ¬ (n = 0) := by omega
  simp only [if_neg hn0]
  rw [if_pos hacc]
  have : (false = true) = False := by simp
  simp only [this, if_false]
  rw [Int.tdiv_eq_ediv_of_nonneg (by omega)]
  exact half_up_div acc n hacc hn

/-- **`convert_avg_pool_to_conv2d` preserves the operator** (signed types, input and output quantisation equal, both zero
    points forced to 0 as `use_zero_point_0` does for this operator): at every output element of every window inside the IFM the
    created convolution — accumulator of the diagonal kernel, exact scale `1 / (kh · kw)`, rounding away from zero, clamp — is the
    reference AVERAGE_POOL_2D, for every input. -/
theorem avgpool_lowering_eq_ref (H W C : Nat) (ifm : Nat → Nat → Nat → Int) (kh kw sh sw oy ox oc : Nat) (lo hi : Int) (hoc : oc < C)
    (hk : 0 < kh * kw) (hy : oy * sh + kh ≤ H) (hx : ox * sw + kw ≤ W) :
    avgPoolLoweredExact (convAcc H W C ifm kh kw (diagWeight oc) sh sw 1 1 0 0 0 oy ox) (kh * kw) 0 lo hi =
    avgPoolRef true H W (fun y x => ifm y x oc) kh kw sh sw 0 0 oy ox lo hi := by
  obtain ⟨h1, h2⟩ := avgpool_conv_acc_eq H W C ifm kh kw sh sw oy ox oc 0 hoc hy hx
  unfold avgPoolLoweredExact avgPoolRef
  simp only [h1, h2, Int.zero_mul, Int.add_zero]
  rw [avgpool_round_away_eq_ref_signed _ _ hk]

/-- **The integer relation the hardware computes.** `AwayZero` is not a hardware rounding mode: `weight_compressor` takes the
    quantised multiplier of the scale `ifm_scale · (1 / (kh·kw)) / ofm_scale`, adds ONE to it, and the operator runs with NATURAL
    rounding (add half, floor). For every multiplier `M` and shift `sh ≥ 1` whose value `M / 2^sh` lies above `1 / n` by
    `D / (n · 2^sh)`, `D > 0`, and every accumulator with `2 · |acc| · D < 2^sh` (for int8 / uint8 windows of up to 65536 elements
    and a 31-bit multiplier: always), NATURAL rounding of `acc · M / 2^sh` IS `acc / n` rounded half away from zero — hence, by
    `avgpool_round_away_eq_ref_signed`, the reference average. -/
theorem avgpool_natural_scale_eq_round_away (acc M : Int) (n sh : Nat) (D : Int) (hn : 0 < n) (hsh : 0 < sh)
    (hD : (n : Int) * M = (2 : Int) ^ sh + D) (hD0 : 0 < D) (hs1 : 2 * acc * D < (2 : Int) ^ sh) (hs2 : 2 * (-acc) * D < (2 : Int) ^ sh) :
    npuScaleNatural acc M sh = roundAway acc n := by
  obtain ⟨k, rfl⟩ : ∃ k, sh = k + 1 := ⟨sh - 1, by omega⟩
  unfold npuScaleNatural roundAway
  have hk : ¬ (k + 1 = 0) := by omega
  rw [if_neg hk]
  have e1 : k + 1 - 1 = k := by omega
  have e2 : (2 : Int) ^ (k + 1) = 2 * (2 : Int) ^ k := by rw [Int.pow_succ]; omega
  rw [e1, e2]
  rw [e2] at hD hs1 hs2
  have hH := two_pow_pos k
  generalize (2 : Int) ^ k = H at *
  have hn' : (0 : Int) < (n : Int) := by omega
  by_cases hacc : acc ≥ 0
  · rw [if_pos hacc]
    have hq := Int.mul_ediv_add_emod (2 * acc + (n : Int)) (2 * (n : Int))
    have ht0 := Int.emod_nonneg (2 * acc + (n : Int)) (by omega : 2 * (n : Int) ≠ 0)
    have ht1 := Int.emod_lt_of_pos (2 * acc + (n : Int)) (by omega : (0 : Int) < 2 * (n : Int))
    generalize (2 * acc + (n : Int)) / (2 * (n : Int)) = r at *
    generalize (2 * acc + (n : Int)) % (2 * (n : Int)) = t at *
    obtain ⟨b1, b2⟩ := natural_bounds_nonneg acc M n H D r t hn' hH hD hD0 hacc hs1 (by omega) ht0 ht1
    have key : (acc * M + H) / (2 * H) = r ∧ (acc * M + H) % (2 * H) = acc * M + H - 2 * H * r := by
      rw [Int.ediv_emod_unique (by omega : (0 : Int) < 2 * H)]
      refine ⟨by omega, by omega, by omega⟩
    exact key.1
  · rw [if_neg hacc]
    have hq := Int.mul_ediv_add_emod (2 * (-acc) + (n : Int)) (2 * (n : Int))
    have ht0 := Int.emod_nonneg (2 * (-acc) + (n : Int)) (by omega : 2 * (n : Int) ≠ 0)
    have ht1 := Int.emod_lt_of_pos (2 * (-acc) + (n : Int)) (by omega : (0 : Int) < 2 * (n : Int))
    generalize (2 * (-acc) + (n : Int)) / (2 * (n : Int)) = r at *
    generalize (2 * (-acc) + (n : Int)) % (2 * (n : Int)) = t at *
    obtain ⟨b1, b2⟩ := natural_bounds_neg (-acc) M n H D r t hn' hH hD hD0 (by omega) hs2 (by omega) ht0 ht1
    have ea : - -acc = acc := by omega
    rw [ea] at b1 b2
    have key : (acc * M + H) / (2 * H) = -r ∧ (acc * M + H) % (2 * H) = acc * M + H - 2 * H * (-r) := by
      rw [Int.ediv_emod_unique (by omega : (0 : Int) < 2 * H)]
      refine ⟨by omega, by omega, by omega⟩
    exact key.1

/-- the hypotheses are met by the multiplier the compiler uses for a 2x3 window and equal scales: `quantise_scale(1/6)` is
    `(1431655765, 33)` (below 1/6: a tie would round DOWN with it), plus one: `6 · 1431655766 = 2^33 + 4` -/
example : (6 : Int) * 1431655766 = (2 : Int) ^ 33 + 4 ∧ npuScaleNatural 3 1431655766 33 = 1 ∧ npuScaleNatural 3 1431655765 33 = 0 ∧
    npuScaleNatural (-3) 1431655766 33 = -1 ∧ roundAway (-3) 6 = -1 := by decide

/-- why the zero points must be forced to 0: with the IFM zero point subtracted from the accumulator and added back after the
    rounding, a tie whose raw sum and corrected sum have different signs rounds the other way (elements 1, 2, zero point 5:
    the reference gives 2, the lowered operator 1) — rounding half away from zero is not translation invariant -/
theorem avgpool_zero_point_kept_witness : roundAway (3 - 5 * 2) 2 + 5 = 1 ∧ avgRound true 3 2 = 2 := by decide

example : convertAvgPoolToConv2d true 2 3 1 4 8 = some ⟨2, 3, 8, 6, 1, 4⟩ ∧ convertAvgPoolToConv2d true 2 3 4 3 8 = none := by decide

/-! ## 17. SHAPE of a statically shaped tensor = constant -/

/-- **When the SHAPE operator is replaced**: exactly when it is a SHAPE operator placed on the NPU whose OFM vector has one
    entry per IFM dimension -/
theorem shape_converted_iff (isShape npu : Bool) (idx : Nat) (shape : List Nat) (olen : Nat) (cons : List (Option Nat)) :
    (convertShapeOp isShape npu idx shape olen cons).isSome = true ↔ (isShape = true ∧ npu = true ∧ shape.length = olen) := by
  unfold convertShapeOp
  cases isShape <;> cases npu <;> simp
  all_goals (by_cases h : shape.length = olen <;> simp [h])

/-- **The constant is the reference's output and the bookkeeping is right**: the values are the IFM shape (what SHAPE computes,
    one entry per dimension, as many as the OFM holds); the operator's own entries leave the IFM's consumer list, every other
    entry (other readers, the `None` of a subgraph output) stays, in order. Consumers are told apart by `op_index`: an
    operator that carried the same `op_index` as the SHAPE operator would be dropped too (hypothesis-free statement: membership
    is about indices). -/
theorem shape_const_eq_ref (isShape npu : Bool) (idx : Nat) (shape : List Nat) (olen : Nat) (cons : List (Option Nat)) (s : ShapeConst)
    (h : convertShapeOp isShape npu idx shape olen cons = some s) :
    s.values = shape ∧ s.values.length = olen ∧ some idx ∉ s.consumers ∧ (∀ c, c ≠ some idx → (c ∈ s.consumers ↔ c ∈ cons)) ∧
    s.consumers.Sublist cons := by
  unfold convertShapeOp at h
  split at h
  · exact absurd h (by simp)
  · split at h
    · exact absurd h (by simp)
    · rename_i _ hlen
      have hs := Option.some.inj h
      subst hs
      refine ⟨rfl, by simpa using hlen, ?_, ?_, List.filter_sublist⟩
      · intro hm
        rw [List.mem_filter] at hm
        simpa using hm.2
      · intro c hc
        rw [List.mem_filter]
        constructor
        · exact fun hm => hm.1
        · intro hm
          refine ⟨hm, ?_⟩
          cases c with
          | none => rfl
          | some i =>
            have : i ≠ idx := fun e => hc (by rw [e])
            simpa using this

example : convertShapeOp true true 7 [1, 8, 8, 3] 4 [some 3, some 7, none, some 9] = some ⟨[some 3, none, some 9], [1, 8, 8, 3]⟩ := by decide

/-! ## 18. UNPACK = split of the input along the axis, outputs reshaped with a unit dimension -/

/-- **The reshape moves nothing**: the element of an output at coordinates `pre ++ post` (shape `a ++ b`) sits at the same flat
    index when the output is given the operator shape `a ++ [1] ++ b` and read at `pre ++ [0] ++ post` -/
theorem unpack_reshape_flat_eq (b post : List Nat) : ∀ (a pre : List Nat), pre.length = a.length →
    flatIdx (a ++ [1] ++ b) (pre ++ [0] ++ post) = flatIdx (a ++ b) (pre ++ post) := by
  intro a
  induction a with
  | nil =>
    intro pre hp
    have : pre = [] := List.length_eq_zero_iff.mp hp
    subst this
    simp [flatIdx]
  | cons d a' ih =>
    intro pre hp
    cases pre with
    | nil => simp at hp
    | cons c pre' =>
      have hp' : pre'.length = a'.length := by simpa using hp
      have e1 : (d :: a') ++ [1] ++ b = d :: (a' ++ [1] ++ b) := by simp
      have e2 : (c :: pre') ++ [0] ++ post = c :: (pre' ++ [0] ++ post) := by simp
      have e3 : (d :: a') ++ b = d :: (a' ++ b) := by simp
      have e4 : (c :: pre') ++ post = c :: (pre' ++ post) := by simp
      rw [e1, e2, e3, e4]
      simp only [flatIdx]
      rw [ih pre' hp', prod_insert_one]

/-- **What the rewrite stores** for an UNPACK on the NPU along `axis` (negative = counted from the end of the INPUT, whose rank
    is one more than the outputs'): the desired shape has the unit dimension at the normalised axis, and the 4-D split axis is
    that axis shifted by the number of leading dimensions the 4-D shape adds; it lies inside the 4-D shape -/
theorem unpack_axis_spec (axis : Int) (outShape : List Nat) (hr : outShape.length + 1 ≤ 4)
    (h1 : -((outShape.length : Int) + 1) ≤ axis) (h2 : axis < (outShape.length : Int) + 1) :
    ∃ pos : Nat, (pos : Int) = (if axis < 0 then (outShape.length : Int) + 1 + axis else axis) ∧ pos ≤ outShape.length ∧
      rewriteUnpackOutput true true axis (outShape.length + 1) outShape =
        some ⟨(pos : Int) + (3 - (outShape.length : Int)), outShape.take pos ++ [1] ++ outShape.drop pos,
              List.replicate (3 - outShape.length) 1 ++ (outShape.take pos ++ [1] ++ outShape.drop pos)⟩ ∧
      0 ≤ (pos : Int) + (3 - (outShape.length : Int)) ∧ (pos : Int) + (3 - (outShape.length : Int)) < 4 := by
  refine ⟨(if axis < 0 then (outShape.length : Int) + 1 + axis else axis).toNat, ?_, ?_, ?_, ?_, ?_⟩
  · split <;> omega
  · split <;> omega
  · unfold rewriteUnpackOutput
    simp only [Bool.and_self, Bool.not_true, Bool.false_eq_true, if_false]
    have hcast : ((outShape.length + 1 : Nat) : Int) = (outShape.length : Int) + 1 := by omega
    rw [hcast]
    generalize hax : (if axis < 0 then (outShape.length : Int) + 1 + axis else axis) = ax
    have hax0 : 0 ≤ ax := by rw [← hax]; split <;> omega
    have hax1 : ax ≤ (outShape.length : Int) := by rw [← hax]; split <;> omega
    have hneg : ¬ (ax < 0) := by omega
    simp only [if_neg hneg]
    have hmin : min ax.toNat outShape.length = ax.toNat := by omega
    rw [hmin]
    have hlen : (outShape.take ax.toNat ++ [1] ++ outShape.drop ax.toNat).length = outShape.length + 1 := by
      simp only [List.length_append, List.length_take, List.length_drop, List.length_cons, List.length_nil]; omega
    congr 1
    rw [hlen]
    have e4 : (4 : Int) - ((outShape.length + 1 : Nat) : Int) = 3 - (outShape.length : Int) := by omega
    have et : ((ax.toNat : Nat) : Int) = ax := by omega
    rw [e4, et]
    congr 1
    unfold full4
    rw [hlen]
    have e5 : 4 - (outShape.length + 1) = 3 - outShape.length := by omega
    rw [e5]
    apply List.take_of_length_le
    simp only [List.length_append, List.length_replicate, hlen]; omega
  · split <;> omega
  · split <;> omega

example : rewriteUnpackOutput true true (-1) 3 [2, 3] = some ⟨3, [2, 3, 1], [1, 2, 3, 1]⟩ ∧
    rewriteUnpackOutput true true 0 3 [2, 3] = some ⟨1, [1, 2, 3], [1, 1, 2, 3]⟩ ∧ rewriteUnpackOutput true false 0 3 [2, 3] = none := by decide

/-! ## 19. PACK = concatenation of the inputs reshaped with a unit dimension (`unpack_reshape_flat_eq` is the reshape) -/

/-- **Every input is written exactly at its index**: when the rewrite goes through (the assertion holds), input `k` is written at
    offset `k` of the 4-D axis, the offsets are pairwise distinct and fill `[0, count)` = the OFM dimension at the axis -/
theorem pack_offsets_spec (axis : Int) (inShape : List Nat) (count : Nat) (ofmShape : List Nat) (u : PackOut)
    (h : rewritePack axis inShape count ofmShape = some u) :
    u.offsets = List.range count ∧ (∀ k, k < count → u.offsets[k]? = some k) ∧ u.offsets.Nodup := by
  unfold rewritePack at h
  simp only [] at h
  by_cases hd : pyIndex ofmShape axis ≠ some count
  · rw [if_pos hd] at h
    exact absurd h (by simp)
  · rw [if_neg hd] at h
    have hu := Option.some.inj h
    subst hu
    refine ⟨rfl, ?_, List.nodup_range⟩
    intro k hk
    simp [hk]

example : rewritePack (-1) [2, 3] 4 [2, 3, 4] = some ⟨3, [1, 2, 3, 1], [0, 1, 2, 3]⟩ ∧ rewritePack 1 [2, 3] 5 [2, 4, 3] = none := by decide

end VelaVerif.Props.C01Rewrites3
