import VelaVerif.Spec.RewriteSem3
import VelaVerif.Model.Rewrites3
import VelaVerif.Props.C01Rewrites2
/-!
# C01 — the rewrites of `Model/Rewrites3.lean` preserve what the operator computes

Third part (stream `harness/c01_rewrites3.py`): RESIZE of a 1x1 input as a broadcast ADD, AVERAGE_POOL with a wide stride as
a convolution, SHAPE as a constant, UNPACK as a reshaped split.
-/
namespace VelaVerif.Props.C01Rewrites3
open VelaVerif.Requant VelaVerif.TfliteRef VelaVerif.RewriteSem VelaVerif.RewriteSem2 VelaVerif.RewriteSem3 VelaVerif.Rewrites VelaVerif.Rewrites2
  VelaVerif.Rewrites3 VelaVerif.Lemmas.Rewrites VelaVerif.Lemmas.Rewrites2 VelaVerif.Lemmas.Sem

/-! ## 15. RESIZE of a 1x1 input = broadcast ADD with a zero constant -/

/-- every output row / column of a nearest-neighbour resize of a dimension of size one reads index 0 -/
theorem resize1x1_nearest_src (y num den : Nat) (align half : Bool) : nearestSrc y num den align half 1 = 0 := by
  unfold nearestSrc
  simp only []
  omega

/-- **RESIZE_NEAREST_NEIGHBOR of a 1x1 input**: every output element is the input element of its channel (any scale,
    any align_corners / half_pixel_centers) -/
theorem resize1x1_nearest_eq (ifm : Nat → Nat → Nat → Int) (numY denY numX denX : Nat) (align half : Bool) (oy ox c : Nat) :
    resizeNearestAt 1 1 ifm numY denY numX denX align half oy ox c = ifm 0 0 c := by
  unfold resizeNearestAt
  rw [resize1x1_nearest_src, resize1x1_nearest_src]

/-- the integer bilinear kernel on four equal neighbours returns that value, whatever the interpolation weights -/
theorem bilinearInt_const (v dy dx : Int) : bilinearInt v v v v dy dx = v := by
  unfold bilinearInt
  have e : v * (1024 - dy) * (1024 - dx) + v * dy * (1024 - dx) + v * (1024 - dy) * dx + v * dy * dx = v * 1048576 := by
    have h1 : v * (1024 - dy) * (1024 - dx) + v * dy * (1024 - dx) = v * 1024 * (1024 - dx) := by
      rw [← Int.add_mul, ← Int.mul_add]; congr 2; omega
    have h2 : v * (1024 - dy) * dx + v * dy * dx = v * 1024 * dx := by
      rw [← Int.add_mul, ← Int.mul_add]; congr 2; omega
    rw [h1, Int.add_assoc, h2, ← Int.mul_add, Int.mul_assoc]
    congr 1
    have : (1024 - dx + dx) = 1024 := by omega
    rw [this]; rfl
  simp only [e]
  by_cases hv : v * 1048576 > 0
  · rw [if_pos hv]
    rw [Int.tdiv_eq_ediv_of_nonneg (by omega)]
    omega
  · rw [if_neg hv]
    have hn : v * 1048576 + -524288 = -((-v) * 1048576 + 524288) := by omega
    rw [hn, Int.neg_tdiv, Int.tdiv_eq_ediv_of_nonneg (by omega)]
    omega

/-- **RESIZE_BILINEAR (integer kernel) of a 1x1 input**: every output element is the input element of its channel, for
    every source position and weight the kernel may compute -/
theorem resize1x1_bilinear_eq (ifm : Nat → Nat → Nat → Int) (y0 y1 x0 x1 : Nat) (dy dx : Int) (c : Nat) :
    resizeBilinearIntAt 1 1 ifm y0 y1 x0 x1 dy dx c = ifm 0 0 c := by
  unfold resizeBilinearIntAt clampedAt
  have e : ∀ k : Nat, min k (1 - 1) = 0 := by intro k; omega
  simp only [e]
  exact bilinearInt_const _ _ _

theorem mbqm_zero (m s : Int) : mbqm 0 m s = 0 := by
  unfold mbqm
  have hns : ¬ ((0 : Int) * (2 : Int) ^ (if s > 0 then s.toNat else 0) = INT32_MIN ∧ m = INT32_MIN) := by
    intro h; have := h.1; simp [INT32_MIN] at this
  simp only []
  rw [srdhm_floor _ _ hns, rdivpot_cases]
  simp only [Int.zero_mul]
  have hp := two_pow_pos (if s > 0 then 0 else (-s).toNat)
  generalize (2 : Int) ^ (if s > 0 then 0 else (-s).toNat) = P at *
  have h0 : ((0 : Int) + 1073741824) / 2147483648 = 0 := by decide
  simp only [h0]
  have h1 : (0 : Int) / P = 0 := Int.zero_ediv P
  have h2 : (0 : Int) % P = 0 := Int.zero_emod P
  simp only [h1, h2]
  split <;> omega

/-- **The ADD the rewrite creates**: at every output element `(h, w, c)` the reference ADD of the all-zero constant (zero
    point 0, ANY multiplier) and the broadcast 1x1 input is `requantViaAdd` of the input element of that channel — it depends on
    neither `h` nor `w`, and the constant contributes nothing. -/
theorem resize1x1_add_value (ifm : Nat → Nat → Nat → Int) (zpIn : Int) (ls : Nat) (m1 s1 m2 s2 mo so : Int) (zpOut lo hi : Int) (h w c : Nat) :
    addBroadcastAt (fun _ _ _ => 0) 1 1 ifm 0 (-zpIn) ls m1 s1 m2 s2 mo so zpOut lo hi h w c =
    requantViaAdd (ifm 0 0 c) zpIn ls m2 s2 mo so zpOut lo hi := by
  unfold addBroadcastAt addElem requantViaAdd bcast
  simp only [if_true, Int.add_zero, Int.zero_mul, mbqm_zero, Int.zero_add]
  rfl

/-- **`convert_resize_1x1_to_add` preserves the operator** (nearest-neighbour): when the ADD's scaling is the identity on the
    element type's range (`hid`; input and output quantisation equal — the stream evaluates `hid` on the whole range for the
    multipliers of every generated operator), the broadcast ADD equals the RESIZE at every output element, for every input. -/
theorem resize1x1_to_add_nearest_eq (ifm : Nat → Nat → Nat → Int) (zpIn : Int) (ls : Nat) (m1 s1 m2 s2 mo so : Int) (zpOut lo hi : Int)
    (hrange : ∀ c, lo ≤ ifm 0 0 c ∧ ifm 0 0 c ≤ hi)
    (hid : ∀ v, lo ≤ v → v ≤ hi → requantViaAdd v zpIn ls m2 s2 mo so zpOut lo hi = v)
    (numY denY numX denX : Nat) (align half : Bool) (h w c : Nat) :
    addBroadcastAt (fun _ _ _ => 0) 1 1 ifm 0 (-zpIn) ls m1 s1 m2 s2 mo so zpOut lo hi h w c =
    resizeNearestAt 1 1 ifm numY denY numX denX align half h w c := by
  rw [resize1x1_add_value, resize1x1_nearest_eq]
  exact hid _ (hrange c).1 (hrange c).2

/-- the same for the integer bilinear kernel -/
theorem resize1x1_to_add_bilinear_eq (ifm : Nat → Nat → Nat → Int) (zpIn : Int) (ls : Nat) (m1 s1 m2 s2 mo so : Int) (zpOut lo hi : Int)
    (hrange : ∀ c, lo ≤ ifm 0 0 c ∧ ifm 0 0 c ≤ hi)
    (hid : ∀ v, lo ≤ v → v ≤ hi → requantViaAdd v zpIn ls m2 s2 mo so zpOut lo hi = v)
    (y0 y1 x0 x1 : Nat) (dy dx : Int) (h w c : Nat) :
    addBroadcastAt (fun _ _ _ => 0) 1 1 ifm 0 (-zpIn) ls m1 s1 m2 s2 mo so zpOut lo hi h w c =
    resizeBilinearIntAt 1 1 ifm y0 y1 x0 x1 dy dx c := by
  rw [resize1x1_add_value, resize1x1_bilinear_eq]
  exact hid _ (hrange c).1 (hrange c).2

/-- `hid` is not vacuous: the multipliers of scale 0.5 in and out (`qmAdd` of 1.0, 0.5, 0.5, left shift 20) are the identity on
    int8 -/
example : (List.range 256).all (fun k => requantViaAdd ((k : Int) - 128) 3 20 1073741824 (-1) 1073741824 (-17) 3 (-128) 127 == (k : Int) - 128) = true := by
  decide +kernel

/-- without `hid` the statement is false: an ADD rescales, a RESIZE does not — with an output scale twice the input scale the
    ADD halves the value -/
theorem resize1x1_requantises_witness :
    requantViaAdd 100 0 20 1073741824 (-1) 1073741824 (-18) 0 (-128) 127 = 50 := by decide +kernel

/-- the model's dispatch: a 1x1 input that is not already the output shape takes the ADD route, whatever the kind -/
theorem resizeRoute_1x1 (bil half : Bool) (n c oh ow : Nat) (h : ¬ (oh = 1 ∧ ow = 1)) :
    resizeRoute bil half [n, 1, 1, c] [n, oh, ow, c] = .add1x1 := by
  unfold resizeRoute
  have : ¬ ([n, 1, 1, c] = [n, oh, ow, c]) := by
    intro e; simp at e; omega
  simp [this]

end VelaVerif.Props.C01Rewrites3
