import VelaVerif.Model.LiveRange
import VelaVerif.Spec.LiveRange
namespace VelaVerif.Props.C12
end VelaVerif.Props.C12
