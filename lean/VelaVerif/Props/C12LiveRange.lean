import VelaVerif.Lemmas.LiveRange
import VelaVerif.Model.Alloc
/-!
# C12 / C03 — the extracted live ranges cover every time at which the schedule touches a tensor

Closes the gap between C05 ("the allocators never overlap two ranges that are alive at a common time",
proved for every range set) and C03/C12 ("no bytes are reused while an operation still needs them",
validated per compilation): the ranges handed to the allocators are those of `Model/LiveRange.lean`
(`extractNpu` = `extract_live_ranges_from_schedule`, `extractCpu` = `extract_live_ranges_from_cascaded_passes`,
equal to the real `LiveRangeGraph` on every compiled network, `harness/liverange_lib.py`), and for **every**
schedule — any number of operations, cascades, buffers, any initial graph — they contain every tick at which
the walk says an operation touches the tensor.

**Granularity of time.**  One index per scheduled operation outside a cascade, one per cascade, one per CPU pass,
two ticks each: `t` (body) and `t + 1` (tail, during which the next operation's pre-buffered weights arrive).
`Graph.Covers x lo hi` = the range `get_or_create_range(x)` returns contains the ticks `lo … hi`, ends inclusive,
which is how `verify_allocation`, the three allocators and `Alloc.timeOverlap` (C05) read a range.
All operations of ONE cascade share one index (`cascade_shares_time_index`), so these theorems say nothing about
the order of accesses *inside* a cascade — whether a rolling buffer holds the rows its consumer still needs is the
subject of C10 (`rolling_sufficient`) and of the tagged-memory execution of C03 — nor about the order of
accesses inside one operation (in-place elementwise: C03).
-/
namespace VelaVerif.Props.C12
open VelaVerif.LiveRange

/-! ## NPU subgraph: `extract_live_ranges_from_schedule` -/

/-- **mark_usage_covers.** For every scheduled operation and every tensor of its pass (inputs, outputs,
    intermediates) that the tensor loop does not skip (rolling buffer of a cascade, or not weights / FSBias /
    outside the target memory), the range of the tensor contains both ticks of the operation's time index.
    Any schedule, any well-formed initial graph (`Graph.empty` is one). -/
theorem mark_usage_covers (s : Schedule) (g : Graph) (ct : Nat) (res : NpuResult) (hw : g.WF)
    (h : extractNpu s g ct = .ok res) (k : Nat) (op : SchedOp) (hk : s.ops[k]? = some op) :
    ∃ tk : Nat, res.times[k]? = some tk ∧
      ∀ x ∈ op.inputs ++ op.outputs ++ op.intermediates,
        (isRolling s.sram op x = true ∨ isSkipped x = false) → res.graph.Covers x tk (tk + 1) := by
  obtain ⟨g', hr, rfl⟩ := extractNpu_ok h
  obtain ⟨tk, ht, hsub⟩ := npuWalk_op s ct k op hk
  exact ⟨tk, ht, fun x hx hx2 => opEvents_cover_tensors hw hr s.sram op tk hsub x hx hx2⟩

/-- **buffered_weights_cover_prefetch.** A buffered weight tensor of an operation at index `tk` is live from the
    tick at which its DMA is accounted — `tk - 1`, the tail of the preceding operation, if the scheduler set
    `pre_buffer`, else `tk` — through the body tick `tk`; the buffer read by the last depth slice
    (`len(ofm_depth_slices) % len(buffered_weight_tensors)`, and a single buffer always) also through the tail
    tick `tk + 1`.  (`max _ 0`: `mark_usage` clamps the start at 0.) -/
theorem buffered_weights_cover_prefetch (s : Schedule) (g : Graph) (ct : Nat) (res : NpuResult) (hw : g.WF)
    (h : extractNpu s g ct = .ok res) (k : Nat) (op : SchedOp) (hk : s.ops[k]? = some op)
    (idx : Nat) (w : Tensor) (hidx : op.buffered[idx]? = some w) (ht : w.inTarget = true) :
    ∃ tk : Nat, res.times[k]? = some tk ∧
      res.graph.Covers w (max (dmaTick w tk) 0) tk ∧
      (usedLast op idx → res.graph.Covers w (max (dmaTick w tk) 0) (tk + 1)) := by
  obtain ⟨g', hr, rfl⟩ := extractNpu_ok h
  obtain ⟨tk, htk, hsub⟩ := npuWalk_op s ct k op hk
  exact ⟨tk, htk, opEvents_cover_buffered hw hr s.sram op tk hsub idx w hidx ht⟩

/-- **outputs_live_to_end.** Every output of the subgraph (in the target memory) is live during the two ticks
    after the last operation, and every operation's index lies at least two ticks before that. -/
theorem outputs_live_to_end (s : Schedule) (g : Graph) (ct : Nat) (res : NpuResult) (hw : g.WF)
    (h : extractNpu s g ct = .ok res) :
    (∀ x ∈ s.outputs, x.inTarget = true → res.graph.Covers x res.current (res.current + 1)) ∧
    (∀ (k tk : Nat), res.times[k]? = some tk → ct ≤ tk ∧ tk + 2 ≤ res.current) := by
  obtain ⟨g', hr, rfl⟩ := extractNpu_ok h
  refine ⟨?_, fun k tk hk => ⟨npuWalk_times_ge s ct k tk hk, npuWalk_times_lt s ct k tk hk⟩⟩
  intro x hx hxt
  have := run_mark_covers hw hr x (npuWalk s ct).current 1 (npuWalk_output s ct x hx hxt) (by omega)
  rw [natCast_max_zero] at this
  exact this

/-- **Granularity of time (1).** Two operations of the same cascade carry the same time index. -/
theorem cascade_shares_time_index (s : Schedule) (ct : Nat) (i j : Nat) (a b : SchedOp) (ti tj : Nat)
    (hij : i < j) (hi : s.ops[i]? = some a) (hj : s.ops[j]? = some b) (hc : a.cascade = b.cascade) (hne : a.cascade ≠ 0)
    (hti : (npuWalk s ct).times[i]? = some ti) (htj : (npuWalk s ct).times[j]? = some tj) : ti = tj := by
  simp only [npuWalk, List.getElem?_map] at hti htj
  cases hx : (npuLoop s.sram s.ops { current := ct, cascades := [] }).1[i]? with
  | none => simp [hx] at hti
  | some x =>
    cases hy : (npuLoop s.sram s.ops { current := ct, cascades := [] }).1[j]? with
    | none => simp [hy] at htj
    | some y =>
      simp only [hx, hy, Option.map_some, Option.some.injEq] at hti htj
      subst hti; subst htj
      exact npuLoop_cascade s.sram s.ops _ i j a b x y hij hi hj hc hne hx hy

/-- **Granularity of time (2).** An operation outside every cascade gets an index at least two ticks after that
    of every earlier operation: its pre-buffer tick `tj - 1` is never a body tick of an earlier operation. -/
theorem noncascade_time_index_fresh (s : Schedule) (ct : Nat) (i j : Nat) (b : SchedOp) (ti tj : Nat)
    (hij : i < j) (hj : s.ops[j]? = some b) (hc : b.cascade = 0)
    (hti : (npuWalk s ct).times[i]? = some ti) (htj : (npuWalk s ct).times[j]? = some tj) : ti + 2 ≤ tj := by
  simp only [npuWalk, List.getElem?_map] at hti htj
  cases hx : (npuLoop s.sram s.ops { current := ct, cascades := [] }).1[i]? with
  | none => simp [hx] at hti
  | some x =>
    cases hy : (npuLoop s.sram s.ops { current := ct, cascades := [] }).1[j]? with
    | none => simp [hy] at htj
    | some y =>
      simp only [hx, hy, Option.map_some, Option.some.injEq] at hti htj
      subst hti; subst htj
      exact (npuLoop_fresh s.sram s.ops _ (by intro p hp; simp at hp) i j b x y hij hj hc hx hy).1

/-! ## The fuse rule -/

/-- When `_get_ifm_to_fuse` selects an input, the walk performs `fuse_ranges(ifm, ofm)`, and from then on the
    dict entry of the OFM *is* the range `get_or_create_range(ifm)` returns: the two tensors get one address. -/
theorem fused_shares_ifm_range (s : Schedule) (g : Graph) (ct : Nat) (res : NpuResult) (hw : g.WF)
    (h : extractNpu s g ct = .ok res) (k : Nat) (op : SchedOp) (hk : s.ops[k]? = some op)
    (hnc : op.inCascade = false) (x : Tensor) (hf : ifmToFuse op.fuse = some (some x)) :
    ∃ i : Nat, res.graph.lookup x = some i ∧ (op.fuse.ofm, i) ∈ res.graph.ranges := by
  obtain ⟨g', hr, rfl⟩ := extractNpu_ok h
  obtain ⟨tk, _, hsub⟩ := npuWalk_op s ct k op hk
  have he : Ev.fuse x op.fuse.ofm ∈ opEvents s.sram op tk := by
    simp [opEvents, hnc, fuseEvents, hf]
  exact run_fuse_shares hw hr x op.fuse.ofm (hsub _ he)

/-- **fused_ranges_safe.** If the consumer lists are truthful (`consumersTruthful`, checked by the Lean driver on
    every real schedule) then the input `_get_ifm_to_fuse` selects for operation `k` has at most one consumer, is not
    handed out of the subgraph, is not write-protected (elementwise case), and NO other scheduled operation reads
    it: after operation `k` has overwritten it in place nobody needs its value. -/
theorem fused_ranges_safe (s : Schedule) (hwf : consumersTruthful s = true) (k : Nat) (op : SchedOp)
    (hk : s.ops[k]? = some op) (x : Tensor) (hf : ifmToFuse op.fuse = some (some x)) :
    x.consumers ≤ 1 ∧ isOutput s x.id = false ∧ (op.fuse.memcpy = false → x.writeProtected = false) ∧
    ∀ (j : Nat) (op' : SchedOp), s.ops[j]? = some op' → op'.readsId x.id = true → j = k := by
  -- the selected input is one of the operation's inputs and has at most one consumer
  have hsel : x.consumers ≤ 1 ∧ x ∈ op.readTensors ∧ (op.fuse.memcpy = false → x.writeProtected = false) := by
    unfold ifmToFuse ifmToFuseP at hf
    split at hf
    · split at hf
      · simp only [Option.some.injEq, Option.map_eq_some_iff] at hf
        obtain ⟨p, hp, hpx⟩ := hf
        have hcand := List.find?_some hp
        have hmem := List.mem_of_find?_eq_some hp
        subst hpx
        simp only [candidateOkP, Bool.and_eq_true, beq_iff_eq, Bool.not_eq_true'] at hcand
        refine ⟨by omega, ?_, fun _ => hcand.1.1.1.1.1.1.2⟩
        simp only [FuseInfo.inps, List.mem_append] at hmem
        simp only [SchedOp.readTensors, List.mem_append]
        rcases hmem with hmem | hmem
        · cases hifm : op.fuse.ifm with
          | none => simp [hifm] at hmem
          | some t =>
            simp only [hifm, List.mem_singleton] at hmem
            subst hmem
            exact Or.inl (Or.inr (by simp))
        · cases hifm : op.fuse.ifm2 with
          | none => simp [hifm] at hmem
          | some t =>
            simp only [hifm, List.mem_singleton] at hmem
            subst hmem
            exact Or.inr (by simp)
      · simp at hf
    · split at hf
      · rename_i hmc
        split at hf
        · simp at hf
        · rename_i ifm hifm
          split at hf
          · rename_i hcond
            simp only [Option.some.injEq] at hf
            subst hf
            simp only [Bool.not_eq_true', Bool.or_eq_false_iff, decide_eq_false_iff_not] at hcond
            refine ⟨by omega, ?_, fun h => by simp [hmc] at h⟩
            simp only [SchedOp.readTensors, List.mem_append, hifm]
            exact Or.inl (Or.inr (by simp))
          · simp at hf
      · simp at hf
  obtain ⟨hc1, hmem, hwp⟩ := hsel
  -- truthfulness at (op, x)
  have hop : op ∈ s.ops := List.mem_of_getElem? hk
  have htr : readerCount s x.id + (if isOutput s x.id then 1 else 0) ≤ x.consumers := by
    have := hwf
    simp only [consumersTruthful, List.all_eq_true, decide_eq_true_eq] at this
    exact this op hop x hmem
  have hreads : op.readsId x.id = true := by
    simp only [SchedOp.readsId, List.any_eq_true, beq_iff_eq]
    exact ⟨x, hmem, rfl⟩
  have hone : 1 ≤ readerCount s x.id := by
    unfold readerCount
    exact List.length_filter_pos_iff.mpr ⟨op, hop, hreads⟩
  refine ⟨hc1, ?_, hwp, ?_⟩
  · cases ho : isOutput s x.id with
    | false => rfl
    | true => simp only [ho, if_true] at htr; omega
  · intro j op' hj hr'
    by_cases hjk : j = k
    · exact hjk
    · have := filter_two (fun o : SchedOp => o.readsId x.id) s.ops j k op' op hjk hj hk hr' hreads
      unfold readerCount at htr
      omega

/-! ## Time overlap: why C05's disjointness applies -/

/-- **ranges_time_overlap_iff.** `timeOverlap` (inclusive ends, the reading of `verify_allocation` and of C05's
    `Alloc.timeOverlap`) holds exactly when the two ranges are alive at a common tick. -/
theorem ranges_time_overlap_iff (a b : LR) :
    timeOverlap a b = true ↔ ∃ t : Int, a.start ≤ t ∧ t ≤ a.end_ ∧ b.start ≤ t ∧ t ≤ b.end_ := by
  simp only [timeOverlap, decide_eq_true_eq]
  constructor
  · intro h
    exact ⟨max a.start b.start, by omega, by omega, by omega, by omega⟩
  · rintro ⟨t, h1, h2, h3, h4⟩
    omega

/-- Two tensors whose accesses interleave — `x` is touched at ticks `a` and `c`, `y` at a tick `b` in between —
    get time-overlapping ranges, for any graph. -/
theorem interleaved_accesses_overlap (g : Graph) (x y : Tensor) (rx ry : LR) (a b c : Int)
    (hx : g.rangeOf x = some rx) (hy : g.rangeOf y = some ry)
    (hxa : g.Covers x a a) (hxc : g.Covers x c c) (hyb : g.Covers y b b) (hab : a ≤ b) (hbc : b ≤ c) :
    timeOverlap rx ry = true := by
  obtain ⟨r1, h1, h1a, h1b⟩ := hxa
  obtain ⟨r2, h2, h2a, h2b⟩ := hxc
  obtain ⟨r3, h3, h3a, h3b⟩ := hyb
  rw [hx] at h1 h2
  rw [hy] at h3
  cases h1; cases h2; cases h3
  exact (ranges_time_overlap_iff rx ry).mpr ⟨b, by omega, by omega, by omega, by omega⟩

/-- **Schedule-level corollary.** If operations `i`, `j`, `l` have indices `ti ≤ tj ≤ tl`, `x` is a tracked tensor of
    operations `i` and `l` and `y` one of operation `j`, then the ranges of `x` and `y` overlap in time — so by C05
    (`greedy_disjoint`, `hc_result_disjoint`, `linear_disjoint`) their address intervals are disjoint unless they are
    the same range. -/
theorem ranges_time_overlap (s : Schedule) (g : Graph) (ct : Nat) (res : NpuResult) (hw : g.WF)
    (h : extractNpu s g ct = .ok res) (i j l : Nat) (oi oj ol : SchedOp) (ti tj tl : Nat)
    (hi : s.ops[i]? = some oi) (hj : s.ops[j]? = some oj) (hl : s.ops[l]? = some ol)
    (hti : res.times[i]? = some ti) (htj : res.times[j]? = some tj) (htl : res.times[l]? = some tl)
    (h1 : ti ≤ tj) (h2 : tj ≤ tl) (x y : Tensor)
    (hxi : x ∈ oi.inputs ++ oi.outputs ++ oi.intermediates) (hxl : x ∈ ol.inputs ++ ol.outputs ++ ol.intermediates)
    (hyj : y ∈ oj.inputs ++ oj.outputs ++ oj.intermediates)
    (hxt : isSkipped x = false) (hyt : isSkipped y = false) :
    ∃ rx ry : LR, res.graph.rangeOf x = some rx ∧ res.graph.rangeOf y = some ry ∧ timeOverlap rx ry = true := by
  obtain ⟨ti', hti', hci⟩ := mark_usage_covers s g ct res hw h i oi hi
  obtain ⟨tj', htj', hcj⟩ := mark_usage_covers s g ct res hw h j oj hj
  obtain ⟨tl', htl', hcl⟩ := mark_usage_covers s g ct res hw h l ol hl
  rw [hti] at hti'; rw [htj] at htj'; rw [htl] at htl'
  cases hti'; cases htj'; cases htl'
  have cx1 := hci x hxi (Or.inr hxt)
  have cx2 := hcl x hxl (Or.inr hxt)
  have cy := hcj y hyj (Or.inr hyt)
  obtain ⟨rx, hrx, _, _⟩ := cx1
  obtain ⟨ry, hry, _, _⟩ := cy
  refine ⟨rx, ry, hrx, hry, ?_⟩
  exact interleaved_accesses_overlap res.graph x y rx ry ti tj tl hrx hry
    (covers_weaken (hci x hxi (Or.inr hxt)) (Int.le_refl _) (by omega))
    (covers_weaken cx2 (Int.le_refl _) (by omega))
    (covers_weaken (hcj y hyj (Or.inr hyt)) (Int.le_refl _) (by omega))
    (by omega) (by omega)

/-- **ranges_tight** (the converse of `mark_usage_covers`). Starting from the empty graph, start and end of every
    extracted range are the sentinels of `LiveRange.__init__` (a range that was created but never marked) or are
    attained by one `mark_usage` of the walk *on that very range* (`Ev.Hits`: the event's tensor resolves to range `i`
    in the final graph).  `npuWalk_event_origin` (Lemmas) adds that every graph operation of the walk belongs to one
    scheduled operation at its time index or is the final mark of a subgraph output.  Together with
    `mark_usage_covers`: a range is exactly the hull of the windows marked on it, so two ranges overlap in time
    **iff** the hulls of their marked windows do. -/
theorem ranges_tight (s : Schedule) (ct : Nat) (res : NpuResult) (h : extractNpu s Graph.empty ct = .ok res)
    (i : Nat) (r : LR) (hr : res.graph.lrs[i]? = some r) :
    (r.start = startInit ∨ ∃ e ∈ (npuWalk s ct).events, ∃ lo hi, e.Hits res.graph i lo hi ∧ lo = r.start) ∧
    (r.end_ = endInit ∨ ∃ e ∈ (npuWalk s ct).events, ∃ lo hi, e.Hits res.graph i lo hi ∧ hi = r.end_) := by
  obtain ⟨g', hrun, rfl⟩ := extractNpu_ok h
  have ht := run_tight Graph.WF_empty hrun i r hr
  refine ⟨?_, ?_⟩
  · rcases ht.1 with ⟨r0, hr0, _⟩ | ⟨_, hs⟩ | ⟨lo, hi, ⟨e, he, hh⟩, hs⟩
    · simp [Graph.empty] at hr0
    · exact Or.inl hs
    · exact Or.inr ⟨e, he, lo, hi, hh, hs⟩
  · rcases ht.2 with ⟨r0, hr0, _⟩ | ⟨_, hs⟩ | ⟨lo, hi, ⟨e, he, hh⟩, hs⟩
    · simp [Graph.empty] at hr0
    · exact Or.inl hs
    · exact Or.inr ⟨e, he, lo, hi, hh, hs⟩

/-- the same for the walk over the CPU passes (what tensor allocation uses) -/
theorem cpu_ranges_tight (c : CpuGraph) (ct : Nat) (res : CpuResult) (h : extractCpu c Graph.empty ct = .ok res)
    (i : Nat) (r : LR) (hr : res.graph.lrs[i]? = some r) :
    (r.start = startInit ∨ ∃ e ∈ (cpuWalk c ct).events, ∃ lo hi, e.Hits res.graph i lo hi ∧ lo = r.start) ∧
    (r.end_ = endInit ∨ ∃ e ∈ (cpuWalk c ct).events, ∃ lo hi, e.Hits res.graph i lo hi ∧ hi = r.end_) := by
  obtain ⟨g', hrun, rfl⟩ := extractCpu_ok h
  have ht := run_tight Graph.WF_empty hrun i r hr
  refine ⟨?_, ?_⟩
  · rcases ht.1 with ⟨r0, hr0, _⟩ | ⟨_, hs⟩ | ⟨lo, hi, ⟨e, he, hh⟩, hs⟩
    · simp [Graph.empty] at hr0
    · exact Or.inl hs
    · exact Or.inr ⟨e, he, lo, hi, hh, hs⟩
  · rcases ht.2 with ⟨r0, hr0, _⟩ | ⟨_, hs⟩ | ⟨lo, hi, ⟨e, he, hh⟩, hs⟩
    · simp [Graph.empty] at hr0
    · exact Or.inl hs
    · exact Or.inr ⟨e, he, lo, hi, hh, hs⟩

/-- The time-overlap test of this model is the one C05's theorems are stated for (`Alloc.timeOverlap` over `Nat`),
    on ranges that have been marked (start and end non-negative). -/
theorem timeOverlap_is_allocators (a b : LR) (ha : 0 ≤ a.start ∧ 0 ≤ a.end_) (hb : 0 ≤ b.start ∧ 0 ≤ b.end_)
    (sa sb : Nat) (al bl : Nat) (na nb ia ib : Nat) :
    VelaVerif.Alloc.timeOverlap
      { start := a.start.toNat, end_ := a.end_.toNat, size := sa, align := al, name := na, id := ia }
      { start := b.start.toNat, end_ := b.end_.toNat, size := sb, align := bl, name := nb, id := ib }
    = timeOverlap a b := by
  simp only [VelaVerif.Alloc.timeOverlap, timeOverlap]
  congr 1
  apply propext
  constructor <;> intro h <;> omega

/-! ## CPU subgraph: `extract_live_ranges_from_cascaded_passes` (what tensor allocation calls) -/

/-- **cpu_liveness_covered.** For every cascaded pass of the CPU subgraph: its time on entry and on exit are ordered
    and at most the final `current_time`; its inputs are live during the two ticks at entry, its intermediates and
    outputs during the two ticks at exit (for a plain pass entry = exit; for an NPU call-out entry is the index of the
    first NPU operation and exit the tick after the last). -/
theorem cpu_liveness_covered (c : CpuGraph) (g : Graph) (ct : Nat) (res : CpuResult) (hw : g.WF)
    (h : extractCpu c g ct = .ok res) (k : Nat) (p : CpuPass) (hk : c.passes[k]? = some p) :
    ∃ pw : PassWalk, res.passes[k]? = some pw ∧ ct ≤ pw.entry ∧ pw.entry ≤ pw.time ∧ pw.time ≤ res.current ∧
      (∀ x ∈ p.inputs, shouldIgnore x = false → res.graph.Covers x pw.entry (pw.entry + 1)) ∧
      (∀ x ∈ p.intermediates ++ p.outputs, shouldIgnore x = false → res.graph.Covers x pw.time (pw.time + 1)) := by
  obtain ⟨g', hr, rfl⟩ := extractCpu_ok h
  obtain ⟨ck, h1, h2, h3, hsub⟩ := cpuWalk_pass c ct k p hk
  have hs := passWalk_spec c.descend p ck
  refine ⟨(passWalk c.descend p ck).1, h2, by rw [hs.1]; exact h1, by rw [hs.1]; exact hs.2.1,
    Nat.le_trans hs.2.2 h3, ?_, ?_⟩
  · intro x hx hi
    have he : Ev.mark x ck 1 ∈ (passWalk c.descend p ck).1.events := by
      unfold passWalk
      split <;> simp only [List.mem_append] <;> exact Or.inl (by
        first
          | exact Or.inl (cpuMarks_mem p.inputs ck x hx hi)
          | exact cpuMarks_mem p.inputs ck x hx hi)
    have := run_mark_covers hw hr x ck 1 (hsub _ he) (by omega)
    rw [natCast_max_zero] at this
    rw [hs.1]
    exact this
  · intro x hx hi
    have he : Ev.mark x (passWalk c.descend p ck).1.time 1 ∈ (passWalk c.descend p ck).1.events := by
      unfold passWalk
      split <;> simp only [List.mem_append] <;> exact Or.inr (cpuMarks_mem _ _ x hx hi)
    have := run_mark_covers hw hr x _ 1 (hsub _ he) (by omega)
    rw [natCast_max_zero] at this
    exact this

/-- **NPU call-outs inside the CPU walk.** With descent enabled (`Permanent_CPU` not in the target set), every
    scheduled operation of a called NPU subgraph keeps, in the graph the allocator receives, everything
    `mark_usage_covers` and `buffered_weights_cover_prefetch` state, at a time index between entry and exit of the
    call-out pass. -/
theorem npu_callout_covered (c : CpuGraph) (g : Graph) (ct : Nat) (res : CpuResult) (hw : g.WF)
    (h : extractCpu c g ct = .ok res) (hd : c.descend = true) (k : Nat) (p : CpuPass) (hk : c.passes[k]? = some p)
    (s : Schedule) (hs : p.npu = some s) (j : Nat) (op : SchedOp) (hj : s.ops[j]? = some op) :
    ∃ (pw : PassWalk) (tj : Nat), res.passes[k]? = some pw ∧ pw.npuTimes[j]? = some tj ∧
      pw.entry ≤ tj ∧ tj + 2 ≤ pw.time ∧
      (∀ x ∈ op.inputs ++ op.outputs ++ op.intermediates,
        (isRolling s.sram op x = true ∨ isSkipped x = false) → res.graph.Covers x tj (tj + 1)) ∧
      (∀ (idx : Nat) (w : Tensor), op.buffered[idx]? = some w → w.inTarget = true →
        res.graph.Covers w (max (dmaTick w tj) 0) tj ∧
        (usedLast op idx → res.graph.Covers w (max (dmaTick w tj) 0) (tj + 1))) ∧
      (∀ x ∈ s.outputs, x.inTarget = true → res.graph.Covers x pw.time (pw.time + 1)) := by
  obtain ⟨g', hr, rfl⟩ := extractCpu_ok h
  obtain ⟨ck, h1, h2, h3, hsub⟩ := cpuWalk_pass c ct k p hk
  obtain ⟨tj, htj, hsubop⟩ := npuWalk_op s ck j op hj
  have hpw : (passWalk c.descend p ck).1 =
      { entry := ck, time := (npuWalk s ck).current, npuTimes := (npuWalk s ck).times,
        events := cpuMarks p.inputs ck ++ (npuWalk s ck).events ++
          cpuMarks (p.intermediates ++ p.outputs) (npuWalk s ck).current } := by
    simp [passWalk, hd, hs]
  have hsub2 : ∀ e ∈ (npuWalk s ck).events, e ∈ (cpuWalk c ct).events := by
    intro e he
    apply hsub
    rw [hpw]
    simp only [List.mem_append]
    exact Or.inl (Or.inr he)
  have hsub3 : ∀ e ∈ opEvents s.sram op tj, e ∈ (cpuWalk c ct).events := fun e he => hsub2 e (hsubop e he)
  refine ⟨(passWalk c.descend p ck).1, tj, h2, by rw [hpw]; exact htj, by rw [hpw]; exact npuWalk_times_ge s ck j tj htj,
    by rw [hpw]; exact npuWalk_times_lt s ck j tj htj, ?_, ?_, ?_⟩
  · exact fun x hx hx2 => opEvents_cover_tensors hw hr s.sram op tj hsub3 x hx hx2
  · exact fun idx w hidx ht => opEvents_cover_buffered hw hr s.sram op tj hsub3 idx w hidx ht
  · intro x hx hxt
    have := run_mark_covers hw hr x (npuWalk s ck).current 1 (hsub2 _ (npuWalk_output s ck x hx hxt)) (by omega)
    rw [natCast_max_zero] at this
    rw [hpw]
    exact this

/-- **outputs_live_to_end (whole network).** Every output of the CPU subgraph is live during the two ticks after the
    last pass. -/
theorem cpu_outputs_live_to_end (c : CpuGraph) (g : Graph) (ct : Nat) (res : CpuResult) (hw : g.WF)
    (h : extractCpu c g ct = .ok res) :
    ∀ x ∈ c.outputs, shouldIgnore x = false → res.graph.Covers x res.current (res.current + 1) := by
  obtain ⟨g', hr, rfl⟩ := extractCpu_ok h
  intro x hx hi
  have he : Ev.mark x (cpuWalk c ct).current 1 ∈ (cpuWalk c ct).events := by
    simp only [cpuWalk, List.mem_append]
    exact Or.inl (Or.inr (cpuMarks_mem c.outputs _ x hx hi))
  have := run_mark_covers hw hr x _ 1 he (by omega)
  rw [natCast_max_zero] at this
  exact this

/-- **inputs_live_from_start.** On a fresh walk (`current_time = 0`) everything the first pass produces — in Vela the
    start-up pass, whose outputs are the network inputs (Placeholder operations) — is live from tick 0. -/
theorem inputs_live_from_start (c : CpuGraph) (g : Graph) (res : CpuResult) (hw : g.WF)
    (h : extractCpu c g 0 = .ok res) (p : CpuPass) (h0 : c.passes[0]? = some p) (hplain : p.npu = none) :
    ∀ x ∈ p.outputs, shouldIgnore x = false → res.graph.Covers x 0 1 := by
  intro x hx hi
  obtain ⟨pw, hpw, _, _, _, _, hout⟩ := cpu_liveness_covered c g 0 res hw h 0 p h0
  have hc := hout x (by simp [hx]) hi
  -- the first pass is entered at time 0 and, being plain, keeps it
  obtain ⟨g', hr, rfl⟩ := extractCpu_ok h
  cases hps : c.passes with
  | nil => simp [hps] at h0
  | cons q qs =>
    simp only [hps, List.getElem?_cons_zero, Option.some.injEq] at h0
    subst h0
    have : pw.time = 0 := by
      simp only [cpuWalk, hps, cpuLoop, List.getElem?_cons_zero, Option.some.injEq] at hpw
      subst hpw
      simp [passWalk, hplain]
    rw [this] at hc
    simpa using hc

/-- **Variable tensors live for the whole inference.** Every dict entry of a variable tensor points to a range that
    spans tick 0 through the tick after the final `current_time`. -/
theorem variables_live_whole_inference (c : CpuGraph) (g : Graph) (ct : Nat) (res : CpuResult) (hw : g.WF)
    (h : extractCpu c g ct = .ok res) :
    ∀ p ∈ res.graph.ranges, p.1.isVariable = true →
      ∃ r : LR, res.graph.lrs[p.2]? = some r ∧ r.start ≤ 0 ∧ (res.current : Int) + 1 ≤ r.end_ := by
  obtain ⟨g', hr, rfl⟩ := extractCpu_ok h
  have hsplit : (cpuWalk c ct).events =
      ((cpuLoop c.descend c.passes ct).1.flatMap (·.events) ++ cpuMarks c.outputs (cpuLoop c.descend c.passes ct).2) ++
        [Ev.markVars (((cpuLoop c.descend c.passes ct).2 : Int) + 1)] := by
    simp [cpuWalk]
  rw [hsplit, run_append] at hr
  split at hr
  · rename_i g1 hr1
    have hw1 := (run_spec hw hr1).1
    simp only [Graph.run] at hr
    split at hr
    · rename_i g2 hr2
      simp only [Except.ok.injEq] at hr
      subst hr
      have := (apply_markVars_covers hw1 _ (by omega) hr2).2
      simpa [cpuWalk] using this
    · cases hr
  · cases hr

/-! ## Non-vacuity: concrete schedules through the model -/

private def fm (id eq size : Nat) (cons : Nat := 1) : Tensor :=
  { id := id, eqId := eq, purpose := .other, inTarget := true, size := size, shapeEmpty := false, writeProtected := false,
    format := 0, dtype := 0, consumers := cons, producers := 1, isVariable := false, preBuffer := false }

private def wbuf (id eq size : Nat) (pre : Bool) : Tensor :=
  { fm id eq size with purpose := .weights, preBuffer := pre }

private def plainOp (ins outs : List Tensor) (ofm : Tensor) (ifm : Option Tensor) (casc : Nat := 0) (inC : Bool := false)
    (buf : List Tensor := []) (nsl : Nat := 2) (ew : Bool := false) (roll : Option Nat := none) : SchedOp :=
  { cascade := casc, inCascade := inC,
    fuse := { elementwise := ew, varWrite := false, memcpy := false, ofm := ofm, ofmShape := [1, 8, 8, 16],
              ifm := ifm, ifmShape := [1, 8, 8, 16], ifm2 := none, ifm2Shape := [] },
    inputs := ins, outputs := outs, intermediates := [], psIfm := ifm.map (·.id), rolling := roll,
    buffered := buf, nDepthSlices := nsl }

/-- conv (double-buffered, second buffer pre-buffered is not possible for op 0; first buffer of op 1 pre-buffered) →
    conv → elementwise add fused onto its input; a two-operation cascade at the end -/
private def demo : Schedule :=
  let x := fm 0 0 1024; let a := fm 1 1 2048; let b := fm 2 2 2048; let cT := fm 3 3 2048; let d := fm 4 4 512; let e := fm 5 5 512
  { sram := true,
    ops := [ plainOp [x] [a] a (some x) (buf := [wbuf 10 10 256 false, wbuf 11 11 256 false]) (nsl := 4),
             plainOp [a] [b] b (some a) (buf := [wbuf 12 12 512 true]),
             plainOp [b] [cT] cT (some b) (ew := true),
             plainOp [cT] [d] d (some cT) (casc := 1) (inC := true),
             plainOp [d] [e] e (some d) (casc := 1) (inC := true) (roll := some 128) ],
    outputs := [e] }

/-- time indices 0 2 4 6 6; `b` and the fused `cT` share range 2 = [2,5]; the double buffers of op 0 are [0,0]
    (buffer 1: not used last, 4 % 2 = 0) and [0,1] (buffer 0); the pre-buffered weights of op 1 start at tick 1; the
    rolling buffer `d` has the buffer size 128; the output lives until tick 9 -/
private def npuSummary : Except Err NpuResult → List Nat × Nat × List (Int × Int × Nat × List Nat)
  | .ok r => (r.times, r.current, r.graph.lrs.map fun l => (l.start, l.end_, l.size, l.tensors))
  | .error _ => ([], 0, [])

example : npuSummary (extractNpu demo Graph.empty 0) =
  ([0, 2, 4, 6, 6], 8,
    [(0, 1, 1024, [0]), (0, 3, 2048, [1]), (0, 1, 256, [10]), (0, 0, 256, [11]), (2, 7, 2048, [2, 3]), (1, 3, 512, [12]),
     (6, 7, 128, [4]), (6, 9, 512, [5])]) := by decide

example : consumersTruthful demo = true := by decide

/-- the hypotheses of `fused_ranges_safe` / `fused_shares_ifm_range` are met by operation 2 of `demo` -/
example : ∃ op x, demo.ops[2]? = some op ∧ op.inCascade = false ∧ ifmToFuse op.fuse = some (some x) ∧ x.id = 2 :=
  ⟨_, _, rfl, rfl, rfl, rfl⟩

/-- a second consumer forbids the fuse (the condition the C12 finding d35508a is about) -/
example : ifmToFuse (plainOp [fm 2 2 2048 (cons := 2)] [fm 3 3 2048] (fm 3 3 2048) (some (fm 2 2 2048 (cons := 2))) (ew := true)).fuse
    = some none := by decide

/-- CPU walk: start-up pass, NPU call-out of `demo`, a CPU pass, with a variable tensor -/
private def demoCpu : CpuGraph :=
  let x := fm 20 0 1024; let e := fm 21 5 512; let f := fm 22 22 64; let v := { fm 23 23 32 with isVariable := true }
  { descend := true,
    passes := [ { inputs := [], intermediates := [], outputs := [x, v], npu := none },
                { inputs := [x], intermediates := [], outputs := [e], npu := some demo },
                { inputs := [e, v], intermediates := [], outputs := [f], npu := none } ],
    outputs := [f] }

/-- entry/exit times 0/0, 2/10, 10/10; the input `x` (clone of NPU tensor 0: same equivalence id) lives [0,3];
    the NPU output `e` [8,11] through the CPU pass that reads it; the variable tensor for the whole inference [0,13] -/
private def cpuSummary : Except Err CpuResult → List (Nat × Nat × List Nat) × Nat × List (Nat × Int × Int)
  | .ok r => (r.passes.map (fun p => (p.entry, p.time, p.npuTimes)), r.current,
              r.graph.ranges.filterMap fun p =>
                if p.1.id ≥ 20 then (r.graph.lrs[p.2]?).map (fun l => (p.1.id, l.start, l.end_)) else none)
  | .error _ => ([], 0, [])

example : cpuSummary (extractCpu demoCpu Graph.empty 0) =
  ([(0, 0, []), (2, 10, [2, 4, 6, 8, 8]), (10, 10, [])], 12,
        [(20, 0, 3), (23, 0, 13), (22, 10, 13)]) := by decide

end VelaVerif.Props.C12
