import VelaVerif.Lemmas.Scaling
import VelaVerif.Lemmas.ScalingRat
import VelaVerif.Lemmas.ScalingEqual
/-!
# C09 — quantised multipliers reproduce the real scale to reference precision

Property theorems only (model: `Model/Scaling.lean`, spec: `Spec/Scaling.lean`, helpers:
`Lemmas/Scaling.lean`).  A positive double is `m · 2^e`; `math.frexp` brings it to
`2^52 ≤ m < 2^53` (`quantise_frexp`), and the theorems are stated for that normal form.
All statements are over exact integers: a pair `(q, s)` denotes `q · 2^-s`, and dyadic values
are compared after scaling to the common exponent (`Spec.Scaling.RelErr`, `DyEq`, …).
-/
namespace VelaVerif.Props.C09
open VelaVerif.Scaling VelaVerif.Spec.Scaling

/-! ## `quantise_scale` -/

/-- The only floating-point operation of `quantise_scale` that can round — the `+ 0.5` inside
    `round_away_zero` — never changes the truncated result: for every significand
    `int(np.trunc(significand·2^31 + 0.5)) = ⌊(m + 2^21) / 2^22⌋`. -/
theorem round_add_half_exact (m : Nat) (h : m < 2 ^ 53) : sigQ31 m = (m + 2 ^ 21) / 2 ^ 22 :=
  sigQ31_eq m h

/-- Every float32 / double, normal or subnormal (`0 < m < 2^53`, any exponent), is handled through
    its `frexp` form, which is normalised and denotes the same real number. -/
theorem quantise_frexp (m : Nat) (e : Int) (h0 : 0 < m) (h2 : m < 2 ^ 53) :
    quantiseScale (.fin false m e) = .ok (quantiseNorm (frexpNorm m e).1 (frexpNorm m e).2) ∧
    quantiseScale (.fin false m e) = quantiseScale (.fin false (frexpNorm m e).1 (frexpNorm m e).2) ∧
    2 ^ 52 ≤ (frexpNorm m e).1 ∧ (frexpNorm m e).1 < 2 ^ 53 ∧
    DyEq m e (frexpNorm m e).1 (frexpNorm m e).2 := by
  have hn := frexpNorm_norm m e h0 h2
  refine ⟨quantiseScale_pos m e h0 h2, ?_, hn.1, hn.2, frexpNorm_value m e⟩
  rw [quantiseScale_pos m e h0 h2, quantiseScale_norm _ _ hn.1 hn.2]

/-- The result is the degenerate `(0, 16)` or a normalised 32-bit multiplier with a 6-bit shift. -/
theorem quantise_range (m : Nat) (e : Int) (h1 : 2 ^ 52 ≤ m) (h2 : m < 2 ^ 53) :
    ∃ q s, quantiseScale (.fin false m e) = .ok (q, s) ∧ ((q = 0 ∧ s = 16) ∨ InRange q s) := by
  rw [quantiseScale_norm m e h1 h2]
  by_cases h : -85 ≤ e ∧ e ≤ -22
  · refine ⟨_, _, by rw [quantiseNorm_in m e h.1 h.2], Or.inr ?_⟩
    have := sigQ31_range m h1 h2
    unfold InRange
    omega
  · exact ⟨_, _, by rw [quantiseNorm_out m e h], Or.inl ⟨rfl, rfl⟩⟩

/-- Scales outside the hardware range `2^-33 ≤ x < 2^31` degrade to a zero multiplier; nothing wraps. -/
theorem quantise_out_of_range_zero (m : Nat) (e : Int) (h1 : 2 ^ 52 ≤ m) (h2 : m < 2 ^ 53)
    (hout : ¬ HwRange m e) : quantiseScale (.fin false m e) = .ok (0, 16) := by
  rw [quantiseScale_norm m e h1 h2, quantiseNorm_out m e]
  rwa [hwRange_iff m e h1 h2] at hout

/-- … and no scale inside the hardware range is flushed. -/
theorem quantise_in_range (m : Nat) (e : Int) (h1 : 2 ^ 52 ≤ m) (h2 : m < 2 ^ 53)
    (hin : HwRange m e) :
    quantiseScale (.fin false m e) = .ok (((m + 2 ^ 21) / 2 ^ 22 : Nat), -e - 22) ∧
    InRange (((m + 2 ^ 21) / 2 ^ 22 : Nat) : Int) (-e - 22) := by
  rw [hwRange_iff m e h1 h2] at hin
  rw [quantiseScale_norm m e h1 h2, quantiseNorm_in m e hin.1 hin.2, sigQ31_eq m h2]
  refine ⟨rfl, ?_⟩
  unfold InRange
  omega

/-- Relative error at most `2^-31`:  `|q·2^-s − m·2^e| · 2^31 ≤ m·2^e`. -/
theorem quantise_rel_err (m : Nat) (e : Int) (h1 : 2 ^ 52 ≤ m) (h2 : m < 2 ^ 53)
    (hin : HwRange m e) (q s : Int) (h : quantiseScale (.fin false m e) = .ok (q, s)) :
    RelErr q (-s) m e 1 (2 ^ 31) := by
  rw [hwRange_iff m e h1 h2] at hin
  rw [quantiseScale_norm m e h1 h2, quantiseNorm_in m e hin.1 hin.2] at h
  injection h with h; injection h with hq hs
  subst hq; subst hs
  exact relErr_quantise m e h1 h2

/-- The pair denotes the same value as the TFLite reference `QuantizeMultiplier` derivation
    (`q_fixed · 2^(shift−31)`; the reference renormalises `2^31` to `2^30`, Vela keeps `2^31` with
    the smaller shift — same value). -/
theorem quantise_denotes_tflite (m : Nat) (e : Int) (h1 : 2 ^ 52 ≤ m) (h2 : m < 2 ^ 53)
    (hin : HwRange m e) (q s : Int) (h : quantiseScale (.fin false m e) = .ok (q, s)) :
    DyEq q (-s) (tfliteQuantizeMultiplierNoFlush m e).1 ((tfliteQuantizeMultiplierNoFlush m e).2 - 31) := by
  rw [hwRange_iff m e h1 h2] at hin
  rw [quantiseScale_norm m e h1 h2, quantiseNorm_in m e hin.1 hin.2] at h
  injection h with h; injection h with hq hs
  subst hq; subst hs
  exact dyEq_tflite m e h2

/-- The reference's final flush (`shift < −31 → 0`) is inactive for `x ≥ 2^-32`, so there the
    equality is with the complete reference function. -/
theorem tflite_flush_inactive (m : Nat) (e : Int) (he : -84 ≤ e) :
    tfliteQuantizeMultiplier m e = tfliteQuantizeMultiplierNoFlush m e := by
  unfold tfliteQuantizeMultiplier
  simp only []
  rw [if_neg]
  unfold tfliteQuantizeMultiplierNoFlush
  simp only []
  split <;> simp only [] <;> omega

/-- In `[2^-33, 2^-32)` the reference flushes to zero (its kernels cannot shift right by more than
    31) while Vela still emits the exact pair with shift 63: recorded difference, witness `2^-33`. -/
theorem tflite_flush_differs_witness :
    tfliteQuantizeMultiplier (2 ^ 52) (-85) = (0, 0) ∧
    quantiseScale (.fin false (2 ^ 52) (-85)) = .ok (2 ^ 30, 63) := by decide

/-- All clauses of the property at once, for every positive double. -/
theorem quantise_meets_spec (m : Nat) (e : Int) (h1 : 2 ^ 52 ≤ m) (h2 : m < 2 ^ 53) :
    ∃ q s, quantiseScale (.fin false m e) = .ok (q, s) ∧ QuantOk m e q s := by
  by_cases hin : HwRange m e
  · obtain ⟨hq, hr⟩ := quantise_in_range m e h1 h2 hin
    refine ⟨_, _, hq, ?_⟩
    unfold QuantOk
    rw [if_pos hin]
    exact ⟨hr, quantise_rel_err m e h1 h2 hin _ _ hq, quantise_denotes_tflite m e h1 h2 hin _ _ hq⟩
  · refine ⟨_, _, quantise_out_of_range_zero m e h1 h2 hin, ?_⟩
    unfold QuantOk
    rw [if_neg hin]
    decide

/-- The same clauses read over the rationals (no scaling conventions left): for every positive
    double `x = m·2^e` with `2^-33 ≤ x < 2^31`, `quantise_scale` returns `(q, s)` with
    `|q·2^-s − x| ≤ 2^-31·x`, `q·2^-s` equal to the TFLite reference value `q_T·2^(s_T−31)`, and
    fields in range; for every other positive double it returns the zero multiplier. -/
theorem quantise_meets_spec_rat (m : Nat) (e : Int) (h1 : 2 ^ 52 ≤ m) (h2 : m < 2 ^ 53) :
    ∃ q s : Int, quantiseScale (.fin false m e) = .ok (q, s) ∧
      (((2:ℚ) ^ (-33 : Int) ≤ (m:ℚ) * (2:ℚ) ^ e ∧ (m:ℚ) * (2:ℚ) ^ e < (2:ℚ) ^ (31 : Int)) →
        InRange q s ∧
        |(q:ℚ) * (2:ℚ) ^ (-s) - (m:ℚ) * (2:ℚ) ^ e| * 2 ^ 31 ≤ (m:ℚ) * (2:ℚ) ^ e ∧
        (q:ℚ) * (2:ℚ) ^ (-s) = ((tfliteQuantizeMultiplierNoFlush m e).1 : ℚ) *
            (2:ℚ) ^ ((tfliteQuantizeMultiplierNoFlush m e).2 - 31)) ∧
      (¬ ((2:ℚ) ^ (-33 : Int) ≤ (m:ℚ) * (2:ℚ) ^ e ∧ (m:ℚ) * (2:ℚ) ^ e < (2:ℚ) ^ (31 : Int)) → q = 0) := by
  obtain ⟨q, s, hq, hok⟩ := quantise_meets_spec m e h1 h2
  refine ⟨q, s, hq, ?_, ?_⟩
  all_goals
    have hr : HwRange m e ↔
        ((2:ℚ) ^ (-33 : Int) ≤ (m:ℚ) * (2:ℚ) ^ e ∧ (m:ℚ) * (2:ℚ) ^ e < (2:ℚ) ^ (31 : Int)) := by
      unfold HwRange
      rw [dyLe_iff_rat, dyLt_iff_rat]
      simp
  · intro hin
    unfold QuantOk at hok
    rw [if_pos (hr.2 hin)] at hok
    obtain ⟨a, b, c⟩ := hok
    refine ⟨a, ?_, ?_⟩
    · have := (relErr_iff_rat q (-s) m e 1 (2 ^ 31)).1 b
      norm_num at this ⊢
      exact this
    · have := (dyEq_iff_rat q (-s) _ _).1 c
      simpa using this
  · intro hout
    unfold QuantOk at hok
    rw [if_neg (fun h => hout (hr.1 h))] at hok
    exact hok.1

/-- The multiplier is the non-renormalised `2^31` (which does not fit a signed 32-bit integer, cf.
    `fp_math.saturating_rounding_mul32`) exactly for significands within `2^-32` of 1; the reference
    derivation returns `(2^30, shift + 1)` there. -/
theorem quantise_multiplier_is_two_pow_31_iff (m : Nat) (e : Int) (h1 : 2 ^ 52 ≤ m) (h2 : m < 2 ^ 53)
    (hin : HwRange m e) (q s : Int) (h : quantiseScale (.fin false m e) = .ok (q, s)) :
    q = 2 ^ 31 ↔ 2 ^ 53 - 2 ^ 21 ≤ m := by
  have := (quantise_in_range m e h1 h2 hin).1
  rw [this] at h
  injection h with h; injection h with hq hs
  subst hq
  omega

/-- Negative scales give the mirrored multiplier with the same shift (`round_away_zero` is odd). -/
theorem quantise_negative_mirror (m : Nat) (e : Int) (h0 : 0 < m) (h2 : m < 2 ^ 53) :
    ∃ q s, quantiseScale (.fin false m e) = .ok (q, s) ∧ quantiseScale (.fin true m e) = .ok (-q, s) := by
  have hg : ¬ (m = 0 ∨ m ≥ 2 ^ 53) := by omega
  refine ⟨_, _, quantiseScale_pos m e h0 h2, ?_⟩
  simp only [quantiseScale, hg, if_false]
  rfl

/-- Whatever float reaches `quantise_scale` (zero, negative, subnormal, the result of a rounding
    float operation …): if it returns at all, the shift fits the 6-bit field and the multiplier is
    zero or has magnitude in `[2^30, 2^31]`. -/
theorem quantise_fields_always (x : Dbl) (q s : Int) (h : quantiseScale x = .ok (q, s)) :
    0 ≤ s ∧ s ≤ 63 ∧ (q = 0 ∨ (2 ^ 30 ≤ q.natAbs ∧ q.natAbs ≤ 2 ^ 31)) := by
  cases x with
  | nan => simp [quantiseScale] at h
  | inf n => simp [quantiseScale] at h
  | zero n =>
    simp only [quantiseScale] at h
    injection h with h; injection h with hq hs
    omega
  | fin neg m e =>
    by_cases hg : m = 0 ∨ m ≥ 2 ^ 53
    · simp only [quantiseScale, if_pos hg] at h
      cases h
    · simp only [quantiseScale, hg, if_false] at h
      injection h with h; injection h with hq hs
      have hn := frexpNorm_norm m e (by omega) (by omega)
      generalize (frexpNorm m e).1 = m' at *
      generalize (frexpNorm m e).2 = e' at *
      by_cases hr : -85 ≤ e' ∧ e' ≤ -22
      · rw [quantiseNorm_in m' e' hr.1 hr.2] at hq hs
        have := sigQ31_range m' hn.1 hn.2
        simp only [] at hq hs
        cases neg <;> simp at hq <;> omega
      · rw [quantiseNorm_out m' e' hr] at hq hs
        simp only [] at hq hs
        cases neg <;> simp at hq <;> omega

/-! ## `reduced_quantise_scale` (int16 with 64-bit bias) -/

/-- Under exactly the guard the code applies (`0 ≤ reduced_shift < 64` on top of the guard of
    `quantise_scale`, i.e. `2^-33 ≤ x < 2^15`) the reduced pair has a 15-bit multiplier, the shift
    `shift − 16 ∈ [0, 47]`, and relative error at most `2^-14`. -/
theorem reduced_rel_err (m : Nat) (e : Int) (h1 : 2 ^ 52 ≤ m) (h2 : m < 2 ^ 53)
    (hin : HwRange16 m e) :
    ∃ q16 : Int, reducedQuantiseScale (.fin false m e) = .ok (q16, (-e - 22) - 16) ∧
      2 ^ 14 ≤ q16 ∧ q16 ≤ 32767 ∧ 0 ≤ (-e - 22) - 16 ∧ (-e - 22) - 16 ≤ 47 ∧
      RelErr q16 (-((-e - 22) - 16)) m e 1 (2 ^ 14) := by
  rw [hwRange16_iff m e h1 h2] at hin
  have hs : (-e - 22) - 16 = -e - 38 := by omega
  rw [hs]
  refine ⟨_, reduced_in m e h1 h2 hin.1 hin.2, ?_, ?_, by omega, by omega, relErr_reduced m e h1 h2⟩
  · have := sigQ31_range m h1 h2
    split <;> omega
  · have := sigQ31_range m h1 h2
    split <;> omega

/-- Reduced form over the rationals: `|q16·2^-s16 − x| ≤ 2^-14·x` for `2^-33 ≤ x < 2^15`. -/
theorem reduced_rel_err_rat (m : Nat) (e : Int) (h1 : 2 ^ 52 ≤ m) (h2 : m < 2 ^ 53)
    (hin : HwRange16 m e) :
    ∃ q16 s16 : Int, reducedQuantiseScale (.fin false m e) = .ok (q16, s16) ∧ q16 ≤ 32767 ∧
      |(q16:ℚ) * (2:ℚ) ^ (-s16) - (m:ℚ) * (2:ℚ) ^ e| * 2 ^ 14 ≤ (m:ℚ) * (2:ℚ) ^ e := by
  obtain ⟨q16, hq, _, hhi, _, _, hrel⟩ := reduced_rel_err m e h1 h2 hin
  refine ⟨q16, _, hq, hhi, ?_⟩
  have := (relErr_iff_rat q16 _ m e 1 (2 ^ 14)).1 hrel
  norm_num at this ⊢
  exact this

/-- Outside `2^-33 ≤ x < 2^15` the reduced form degrades to a zero multiplier (with shift 16 when
    only the reduced shift would be negative, shift 0 when `quantise_scale` already degraded);
    nothing wraps. -/
theorem reduced_out_of_range_zero (m : Nat) (e : Int) (h1 : 2 ^ 52 ≤ m) (h2 : m < 2 ^ 53)
    (hout : ¬ HwRange16 m e) :
    reducedQuantiseScale (.fin false m e) = .ok (0, 16) ∨
    reducedQuantiseScale (.fin false m e) = .ok (0, 0) := by
  rw [hwRange16_iff m e h1 h2] at hout
  by_cases hmid : -37 ≤ e ∧ e ≤ -22
  · exact Or.inl (reduced_mid m e h1 h2 hmid.1 hmid.2)
  · exact Or.inr (reduced_out m e h1 h2 (by omega))

/-- All clauses of the reduced form, for every positive double.
    (Historical note: before /repo de981c1 the guard re-tested the unreduced `shift`; the statement was
    then false — `reduced_quantise_scale(65536.0) = (16384, −2)`, formerly proved here as
    `reduced_meets_spec_witness` next to a `reduced_meets_spec_partial` that excluded `[2^15, 2^31)`.) -/
theorem reduced_meets_spec (m : Nat) (e : Int) (h1 : 2 ^ 52 ≤ m) (h2 : m < 2 ^ 53) :
    ∃ q s, reducedQuantiseScale (.fin false m e) = .ok (q, s) ∧ ReducedOk m e q s := by
  by_cases h16 : HwRange16 m e
  · obtain ⟨q16, hq, hlo, hhi, hs0, hs1, hrel⟩ := reduced_rel_err m e h1 h2 h16
    refine ⟨_, _, hq, ?_⟩
    unfold ReducedOk
    rw [if_pos h16]
    exact ⟨by omega, hhi, hs0, by omega, hrel⟩
  · rcases reduced_out_of_range_zero m e h1 h2 h16 with h | h
    · refine ⟨_, _, h, ?_⟩
      unfold ReducedOk
      rw [if_neg h16]
      decide
    · refine ⟨_, _, h, ?_⟩
      unfold ReducedOk
      rw [if_neg h16]
      decide

/-- The reduced multiplier is the reference kernels' own reduction of the reference 32-bit
    multiplier, except when the 32-bit multiplier rounds up to `2^31` (significand within `2^-32` of
    1): the reference renormalises to `2^30` first and obtains `2^14` with a shift one smaller, Vela
    saturates to `32767` — a `2^-15` relative difference (witness `1 − 2^-53` below). -/
theorem reduced_matches_tflite_reduction (m : Nat) (e : Int) (h1 : 2 ^ 52 ≤ m) (h2 : m < 2 ^ 53)
    (hin : HwRange16 m e) (hnr : sigQ31 m < 2 ^ 31) :
    reducedQuantiseScale (.fin false m e) =
      .ok (tfliteReducedMultiplier (tfliteQuantizeMultiplierNoFlush m e).1,
           15 - (tfliteQuantizeMultiplierNoFlush m e).2) := by
  rw [hwRange16_iff m e h1 h2] at hin
  rw [reduced_in m e h1 h2 hin.1 hin.2]
  have hT : tfliteQuantizeMultiplierNoFlush m e = (((sigQ31 m : Nat) : Int), e + 53) := by
    unfold tfliteQuantizeMultiplierNoFlush
    simp only [roundHalfAway_22, ← sigQ31_eq m h2]
    rw [if_neg (by omega)]
  rw [hT]
  unfold tfliteReducedMultiplier
  simp only []
  congr 2
  omega

theorem reduced_tflite_corner_witness :
    reducedQuantiseScale (.fin false (2 ^ 53 - 1) (-53)) = .ok (32767, 15) ∧
    (tfliteReducedMultiplier (tfliteQuantizeMultiplierNoFlush (2 ^ 53 - 1) (-53)).1,
      15 - (tfliteQuantizeMultiplierNoFlush (2 ^ 53 - 1) (-53)).2) = (16384, 14) := by decide

/-! ## `quantise_pooling_scale` -/

/-- The pooling pair is defined for every window size `1 … 65536` (the assertion never fires) and
    fits the 32-bit scale / 6-bit shift fields. -/
theorem pooling_fields (n : Int) (hn : 1 ≤ n) (hn16 : n ≤ 65536) :
    ∃ S sh, quantisePoolingScale n 0 = .ok (S, sh) ∧ PoolFields S sh ∧ 31 ≤ sh ∧ sh ≤ 47 := by
  have hk : bitLength (n - 1).natAbs ≤ 16 := bitLength_le _ 16 (by omega)
  have hq := quantisePoolingScale_ok n 31 hn (by omega) (by omega)
  have h0 : (31 : Int) - ((31 : Nat) : Int) = 0 := by omega
  rw [h0] at hq
  refine ⟨_, _, hq, ?_, by omega, by omega⟩
  have hx := lt_two_pow_bitLength (n - 1).natAbs
  have hlow : n ≠ 1 → 2 ^ (bitLength (n - 1).natAbs - 1) ≤ (n - 1).natAbs :=
    fun h => two_pow_bitLength_le _ (by omega)
  have hk0 : n = 1 → bitLength (n - 1).natAbs = 0 := by
    intro h; subst h; decide
  generalize bitLength (n - 1).natAbs = k at *
  unfold PoolFields
  have hnk : n ≤ 2 ^ k := by
    have : ((n - 1).natAbs : Int) < ((2 ^ k : Nat) : Int) := by exact_mod_cast hx
    have h2 : ((2 ^ k : Nat) : Int) = (2 : Int) ^ k := by norm_cast
    omega
  have hPpos : (0 : Int) < 2 ^ k := Int.pow_pos (by decide)
  have hTpos : (0 : Int) < 2 ^ (31 + k) := Int.pow_pos (by decide)
  refine ⟨Int.ediv_nonneg (by omega) (by omega), ?_, by omega, by omega⟩
  -- S < 2^32 ⇐ 2^(31+k) + 2^k < 2^32 · n, from 2^(k-1) < n (or n = 1, k = 0)
  apply (Int.ediv_lt_iff_lt_mul (by omega)).2
  by_cases h1 : n = 1
  · rw [hk0 h1, h1]; decide
  · have hl := hlow h1
    have hk1 : 1 ≤ k := by
      rcases Nat.eq_zero_or_pos k with h | h
      · subst h; simp at hnk; omega
      · exact h
    have hl' : ((2 : Int) ^ (k - 1)) ≤ n - 1 := by
      have : ((2 ^ (k - 1) : Nat) : Int) ≤ ((n - 1).natAbs : Int) := by exact_mod_cast hl
      have h2 : ((2 ^ (k - 1) : Nat) : Int) = (2 : Int) ^ (k - 1) := by norm_cast
      omega
    have e1 : (2 : Int) ^ (31 + k) = 2 ^ 32 * 2 ^ (k - 1) := by
      rw [← Int.pow_add]; congr 1; omega
    have e2 : (2 : Int) ^ k = 2 * 2 ^ (k - 1) := by
      have : k = (k - 1) + 1 := by omega
      conv => lhs; rw [this, Int.pow_succ]
      rw [Int.mul_comm]
    have hle : (2 : Int) ^ (k - 1) ≤ 2 ^ 15 := by
      have : (2 : Nat) ^ (k - 1) ≤ 2 ^ 15 := Nat.pow_le_pow_right (by decide) (by omega)
      exact_mod_cast this
    rw [e1, e2]
    generalize (2 : Int) ^ (k - 1) = P' at *
    omega

/-- Main pooling theorem.  For every window size `1 … 65536` and every accumulator a 16-bit window
    can produce (`|a| ≤ n·2^15`), provided `n < 2^15` or the accumulator is one an 8-bit window can
    produce (`|a| ≤ n·2^8`): scaling by the pair and rounding in hardware equals the TFLite reference
    average (`refAvg`: round half away from zero; round-half-up for `a ≥ 0`). -/
theorem pooling_divides (n a : Int) (hn : 1 ≤ n) (hn16 : n ≤ 65536)
    (hacc : a.natAbs ≤ n.natAbs * 2 ^ 15) (hcorner : n < 2 ^ 15 ∨ a.natAbs ≤ n.natAbs * 2 ^ 8) :
    ∃ S sh, quantisePoolingScale n 0 = .ok (S, sh) ∧ PoolOk S sh.toNat n a := by
  have hk : bitLength (n - 1).natAbs ≤ 16 := bitLength_le _ 16 (by omega)
  have hq := quantisePoolingScale_ok n 31 hn (by omega) (by omega)
  have h0 : (31 : Int) - ((31 : Nat) : Int) = 0 := by omega
  rw [h0] at hq
  refine ⟨_, _, hq, ?_⟩
  have hx := lt_two_pow_bitLength (n - 1).natAbs
  generalize bitLength (n - 1).natAbs = k at *
  have hnk : n ≤ 2 ^ k := by
    have : ((n - 1).natAbs : Int) < ((2 ^ k : Nat) : Int) := by exact_mod_cast hx
    have h2 : ((2 ^ k : Nat) : Int) = (2 : Int) ^ k := by norm_cast
    omega
  have ha : a.natAbs < 2 ^ (31 - 1) := by omega
  have := poolOk_general n k 31 a hn hnk (by omega) ha
  rw [Int.toNat_natCast]
  exact this

/-- The same for a call with `rescale_bits = 31 − N` (`N ≥ 1` fractional bits, as
    `generate_ofm_scaling_for_pooling` passes when a rescale is folded in): exact for every
    accumulator of magnitude below `2^(N−1)`. -/
theorem pooling_divides_rescaled (n a : Int) (N : Nat) (hn : 1 ≤ n) (hn53 : n ≤ 2 ^ 53) (hN : 1 ≤ N)
    (hsh : N + bitLength (n - 1).natAbs < 64) (ha : a.natAbs < 2 ^ (N - 1)) :
    ∃ S sh, quantisePoolingScale n (31 - (N : Int)) = .ok (S, sh) ∧ PoolOk S sh.toNat n a := by
  refine ⟨_, _, quantisePoolingScale_ok n N hn hn53 hsh, ?_⟩
  have hx := lt_two_pow_bitLength (n - 1).natAbs
  generalize bitLength (n - 1).natAbs = k at *
  have hnk : n ≤ 2 ^ k := by
    have : ((n - 1).natAbs : Int) < ((2 ^ k : Nat) : Int) := by exact_mod_cast hx
    have h2 : ((2 ^ k : Nat) : Int) = (2 : Int) ^ k := by norm_cast
    omega
  have := poolOk_general n k N a hn hnk hN ha
  rw [Int.toNat_natCast]
  exact this

/-- The hypothesis of `pooling_divides` cannot be dropped: for the odd window size `n = 32993`
    (e.g. 181 × 183 … any `h·w = 32993`) and the reachable 16-bit accumulator `a = 1081098127`
    (`a/n = 32767.49998…`) the pair rounds up to 32768, the reference down to 32767; mirrored for `−a`. -/
theorem pooling_divides_counterexample :
    quantisePoolingScale 32993 0 = .ok (4265677217, 47) ∧
    (1081098127 : Int).natAbs ≤ (32993 : Int).natAbs * 2 ^ 15 ∧
    ¬ PoolOk 4265677217 47 32993 1081098127 ∧ ¬ PoolOk 4265677217 47 32993 (-1081098127) ∧
    hwRound (1081098127 * 4265677217) 47 = 32768 ∧ refAvg 1081098127 32993 = 32767 := by decide

/-- For non-negative accumulators the reference average is round-half-up division `⌊a/n + ½⌋`. -/
theorem pooling_round_half_up (n a : Int) (hn : 1 ≤ n) (ha : 0 ≤ a) :
    refAvg a n = (2 * a + n) / (2 * n) := by
  have key : (a + n / 2) / n = (2 * a + n) / (2 * n) := by
    symm
    apply ediv_eq_of_bounds _ _ _ (by omega)
    · have := Int.mul_ediv_add_emod (a + n / 2) n
      have := Int.emod_nonneg (a + n / 2) (by omega : n ≠ 0)
      have := Int.emod_lt_of_pos (a + n / 2) (by omega : 0 < n)
      nlinarith [Int.mul_ediv_add_emod n 2, Int.emod_nonneg n (by decide : (2:Int) ≠ 0),
        Int.emod_lt_of_pos n (by decide : (0:Int) < 2)]
    · have := Int.mul_ediv_add_emod (a + n / 2) n
      have := Int.emod_nonneg (a + n / 2) (by omega : n ≠ 0)
      have := Int.emod_lt_of_pos (a + n / 2) (by omega : 0 < n)
      nlinarith [Int.mul_ediv_add_emod n 2, Int.emod_nonneg n (by decide : (2:Int) ≠ 0),
        Int.emod_lt_of_pos n (by decide : (0:Int) < 2)]
  unfold refAvg
  by_cases hp : a > 0
  · rw [if_pos hp, Int.tdiv_eq_ediv_of_nonneg (by omega), key]
  · have h0 : a = 0 := by omega
    subst h0
    rw [if_neg (by omega)]
    have : (0 : Int) - n / 2 = -(n / 2) := by omega
    rw [this, Int.neg_tdiv, Int.tdiv_eq_ediv_of_nonneg (by omega),
      Int.ediv_eq_zero_of_lt (by omega) (by omega)]
    symm
    apply Int.ediv_eq_zero_of_lt <;> omega

/-- "Round half up" is meant as the reference kernel's sign-symmetric rounding: for `a = −1, n = 2`
    the reference (and the pair) give −1, rounding half toward +∞ would give 0. -/
example : refAvg (-1) 2 = -1 ∧ hwRound (-1 * 2147483649) 32 = -1 ∧ (2 * (-1) + 2) / (2 * 2 : Int) = 0 := by
  decide

/-! ## elementwise Mul / Add / Sub scale helpers

The float multiplications and divisions enter through the oracle `A : Arith`; every statement
holds for *every* oracle (in particular for IEEE double and for the float32 arithmetic NumPy ≥ 2
performs on `np.float32` scalars). -/

/-- `elementwise_mul_scale`: whatever the float arithmetic produced, the OFM pair fits the register
    fields and is zero or normalised. -/
theorem mul_scale_fields (A : Arith) (s1 s2 so : FVal) (q s : Int)
    (h : elementwiseMulScale A s1 s2 so = .ok (q, s)) :
    0 ≤ s ∧ s ≤ 63 ∧ (q = 0 ∨ (2 ^ 30 ≤ q.natAbs ∧ q.natAbs ≤ 2 ^ 31)) := by
  unfold elementwiseMulScale at h
  split at h
  · cases h
  · exact quantise_fields_always _ _ _ h

/-- … and is the quantisation of exactly `(s1 · s2) / so` as rounded by the arithmetic in force. -/
theorem mul_scale_is_quantised_quotient (A : Arith) (s1 s2 so : FVal) (r : Int × Int)
    (h : elementwiseMulScale A s1 s2 so = .ok r) :
    ∃ x, fdiv A (fmul A s1 s2) so = .ok x ∧ quantiseScale x.val = .ok r := by
  unfold elementwiseMulScale at h
  split at h
  · cases h
  · rename_i x hx
    exact ⟨x, hx, h⟩

/-- `simplified_elementwise_add_sub_scale`: OFM pair fits the fields; equal input scales give
    equal operand rescales. -/
theorem simplified_fields (A : Arith) (s1 s2 so : FVal) (sh : Nat) (r : SimplifiedResult)
    (h : simplifiedAddSub A s1 s2 so sh = .ok r) :
    (0 ≤ r.outShift ∧ r.outShift ≤ 63 ∧
      (r.outScale = 0 ∨ (2 ^ 30 ≤ r.outScale.natAbs ∧ r.outScale.natAbs ≤ 2 ^ 31))) ∧
    (s1 = s2 → r.input1Rescale = r.input2Rescale) := by
  unfold simplifiedAddSub at h
  simp only [] at h
  split at h
  · cases h
  · rename_i in1 h1
    split at h
    · cases h
    · rename_i in2 h2
      split at h
      · cases h
      · split at h
        · cases h
        · rename_i q s hq
          injection h with h
          subst h
          refine ⟨quantise_fields_always _ _ _ hq, ?_⟩
          intro heq
          subst heq
          rw [h1] at h2
          injection h2

/-- `advanced_elementwise_add_sub_scale` always rescales the operand with the smaller scale:
    `OPa` is chosen exactly when `input1_scale < input2_scale` (as Python evaluates it), in which
    case the scale fed to the operand rescale is `input1_scale` and the reference scale is
    `input2_scale`; otherwise `OPb`, where `input2_scale` is the smaller one or neither is less. -/
theorem advanced_scales_smaller (A : Arith) (s1 s2 so : FVal) (bd : Int) (r : AdvancedResult)
    (h : advancedAddSub A s1 s2 so bd = .ok r) :
    (r.opToScale = .opa ↔ cmpLt A s1 s2 = true) ∧
    (r.opToScale = .opa → pyMin A s1 s2 = s1 ∧ pyMax A s1 s2 = s2) ∧
    (r.opToScale = .opb → (pyMin A s1 s2 = s2 ∧ pyMax A s1 s2 = s1) ∨
        (cmpLt A s1 s2 = false ∧ cmpLt A s2 s1 = false ∧ pyMin A s1 s2 = s1 ∧ pyMax A s1 s2 = s1)) := by
  unfold advancedAddSub at h
  simp only [] at h
  split at h
  · cases h
  · split at h
    · cases h
    · injection h with h
      subst h
      simp only []
      by_cases hlt : cmpLt A s1 s2 = true
      · have hnot : cmpLt A s2 s1 = false := by
          unfold cmpLt at hlt ⊢
          simp only [] at hlt ⊢
          rw [promote_comm s2.kind s1.kind]
          exact Dbl.lt_asymm _ _ hlt
        simp [hlt, hnot, pyMin, pyMax]
      · have hf : cmpLt A s1 s2 = false := by simpa using hlt
        by_cases h21 : cmpLt A s2 s1 = true
        · simp [hf, h21, pyMin, pyMax]
        · have hf2 : cmpLt A s2 s1 = false := by simpa using h21
          simp [hf, hf2, pyMin, pyMax]

/-- With scalars of one kind (all `np.float32` as read from a model, or all Python floats as passed
    through the API) and an oracle whose `cast` to the own kind is the identity, "less" is the exact
    order of the real values. -/
theorem advanced_scales_smaller_exact (A : Arith) (s1 s2 so : FVal) (bd : Int) (r : AdvancedResult)
    (h : advancedAddSub A s1 s2 so bd = .ok r) (hk : s1.kind = s2.kind)
    (hc1 : A.cast s1.kind s1.val = s1.val) (hc2 : A.cast s2.kind s2.val = s2.val) :
    (r.opToScale = .opa ↔ Dbl.lt s1.val s2.val = true) := by
  have := (advanced_scales_smaller A s1 s2 so bd r h).1
  rw [this]
  unfold cmpLt
  simp only []
  rw [hk, promote_self, hc2, ← hk, hc1]

/-- Both pairs of the advanced variant fit the register fields. -/
theorem advanced_fields (A : Arith) (s1 s2 so : FVal) (bd : Int) (r : AdvancedResult)
    (h : advancedAddSub A s1 s2 so bd = .ok r) :
    (0 ≤ r.inShift ∧ r.inShift ≤ 63 ∧
      (r.inScale = 0 ∨ (2 ^ 30 ≤ r.inScale.natAbs ∧ r.inScale.natAbs ≤ 2 ^ 31))) ∧
    (0 ≤ r.outShift ∧ r.outShift ≤ 63 ∧
      (r.outScale = 0 ∨ (2 ^ 30 ≤ r.outScale.natAbs ∧ r.outScale.natAbs ≤ 2 ^ 31))) := by
  unfold advancedAddSub at h
  simp only [] at h
  split at h
  · cases h
  · rename_i sr hs
    split at h
    · cases h
    · rename_i iq ish hq
      injection h with h
      subst h
      exact ⟨quantise_fields_always _ _ _ hq, (simplified_fields A _ _ so _ sr hs).1⟩

/-! ## What reaches the registers (`register_command_stream_generator.py`) -/

/-- Average pool with equal IFM/OFM scales of any scalar type (the rescale factor is computed in
    double, where the conversion of the integer scale is exact and `x · 1.0 = x`):
    `NPU_SET_OFM_SCALE` carries exactly the pair of `quantise_pooling_scale`, nothing is masked away;
    `pooling_divides` applies to the register.
    (Historical note: before /repo 5f5d642 an `np.float32` rescale made the product float32 under
    NumPy ≥ 2; the 2 × 2 window then got `2^31` instead of `2^31 + 1`, see the `example` below.) -/
theorem pool_register_exact (A : Arith) (n : Int) (hn : 1 ≤ n) (hn16 : n ≤ 65536)
    (hcast : ∀ x, A.cast .f64 x = x) (hmul : ∀ x, A.mul .f64 x (.fin false 1 0) = x) :
    ∃ S sh, poolRegistersEqualScales A n = .ok (S, sh) ∧ quantisePoolingScale n 0 = .ok (S, sh) := by
  obtain ⟨S, sh, hq, hf, hlo, hhi⟩ := pooling_fields n hn hn16
  refine ⟨S, sh, ?_, hq⟩
  unfold PoolFields at hf
  unfold poolRegistersEqualScales
  rw [hq]
  simp only []
  rw [if_neg (by omega), hcast, hmul]
  have hS : ((S.toNat : Nat) : Int) = S := by omega
  simp only [Dbl.truncInt, regOffset, regParam]
  simp only [ge_iff_le, Int.le_refl, if_true, Int.toNat_zero, Nat.pow_zero, Nat.mul_one,
    Bool.false_eq_true, if_false, hS]
  have h1 : S % 2 ^ 32 = S := Int.emod_eq_of_lt hf.1 hf.2.1
  have h2 : sh % 2 ^ 16 = sh := Int.emod_eq_of_lt (by omega) (by omega)
  rw [h1, h2]

/-- why the exact scale matters: the 24-bit rounding `2^31` of the 2 × 2 pair `2^31 + 1` misses the
    reference at the tie `acc = −2` (0 instead of −1) -/
example : quantisePoolingScale 4 0 = .ok (2 ^ 31 + 1, 33) ∧ PoolOk (2 ^ 31 + 1) 33 4 (-2) ∧
    ¬ PoolOk (2 ^ 31) 33 4 (-2) ∧ hwRound (-2 * 2 ^ 31) 33 = 0 ∧ refAvg (-2) 4 = -1 := by decide

/-- Elementwise MUL: `NPU_SET_OFM_SCALE` carries the pair of `elementwise_mul_scale` unmasked
    (for a non-negative multiplier, i.e. a non-negative rounded quotient). -/
theorem mul_registers_no_wrap (A : Arith) (s1 s2 so : FVal) (r : EwRegs)
    (h : ewRegistersMul A s1 s2 so = .ok r) :
    ∃ q s, elementwiseMulScale A s1 s2 so = .ok (q, s) ∧ r.ofmShift = s ∧ (0 ≤ q → r.ofmScale = q) := by
  unfold ewRegistersMul at h
  split at h
  · cases h
  · rename_i q s hq
    injection h with h
    subst h
    have hf := mul_scale_fields A s1 s2 so q s hq
    refine ⟨q, s, hq, ?_, ?_⟩
    · simp only [regParam]
      exact Int.emod_eq_of_lt (by omega) (by omega)
    · intro hq0
      simp only [regOffset]
      exact Int.emod_eq_of_lt hq0 (by omega)

/-! ## Non-vacuity: concrete instances meet the hypotheses -/

-- 0.1 = 7205759403792794 · 2^-56 is normalised, in the hardware range, and gives the pair of test_scaling
example : 2 ^ 52 ≤ 7205759403792794 ∧ 7205759403792794 < 2 ^ 53 ∧ HwRange 7205759403792794 (-56) ∧
    quantiseScale (.fin false 7205759403792794 (-56)) = .ok (1717986918, 34) ∧
    QuantOk 7205759403792794 (-56) 1717986918 34 := by decide
-- both sides of the range boundary exist: 2^-34 and 2^31 are outside, 2^-33 and 2^31(1 − 2^-53) inside
example : ¬ HwRange (2 ^ 52) (-86) ∧ ¬ HwRange (2 ^ 52) (-21) ∧ HwRange (2 ^ 52) (-85) ∧
    HwRange (2 ^ 53 - 1) (-22) ∧ quantiseScale (.fin false (2 ^ 53 - 1) (-22)) = .ok (2 ^ 31, 0) := by decide
-- the smallest subnormal double 1 · 2^-1074 goes through `frexp` and degrades to the zero multiplier
example : quantiseScale (.fin false 1 (-1074)) = .ok (0, 16) ∧ frexpNorm 1 (-1074) = (2 ^ 52, -1126) := by decide
-- reduced form: 0.1 again (HwRange16 holds); 65536.0 is outside and now degrades to the zero multiplier
example : HwRange16 7205759403792794 (-56) ∧
    reducedQuantiseScale (.fin false 7205759403792794 (-56)) = .ok (26214, 18) ∧
    ReducedOk 7205759403792794 (-56) 26214 18 ∧ ¬ HwRange16 (2 ^ 52) (-36) ∧
    reducedQuantiseScale (.fin false (2 ^ 52) (-36)) = .ok (0, 16) := by decide
-- pooling: 3×3 window, the most negative int8 accumulator, and a half-way case
example : (1 : Int) ≤ 9 ∧ (9 : Int) ≤ 65536 ∧ (-1152 : Int).natAbs ≤ (9 : Int).natAbs * 2 ^ 8 ∧
    quantisePoolingScale 9 0 = .ok (3817748709, 35) ∧ PoolOk 3817748709 35 9 (-1152) ∧
    PoolOk 3817748709 35 9 (-1148) ∧ refAvg (-1148) 9 = -128 ∧ refAvg 14 4 = 4 ∧ refAvg (-14) 4 = -4 := by decide

-- elementwise helpers: with the (exact) oracle "return the first operand" the hypotheses of
-- `advanced_fields` / `advanced_scales_smaller` / `mul_scale_fields` are met by 0.1, 0.2, 0.3
example :
    advancedAddSub ⟨fun _ a _ => a, fun _ a _ => a, fun _ a => a⟩
      ⟨.f32, .fin false 13421773 (-27)⟩ ⟨.f32, .fin false 13421773 (-26)⟩ ⟨.f32, .fin false 10066330 (-25)⟩ 8 =
      .ok ⟨1717986944, 34, 1717986944, 33, .opa⟩ ∧
    elementwiseMulScale ⟨fun _ a _ => a, fun _ a _ => a, fun _ a => a⟩
      ⟨.py, .fin false 13421773 (-27)⟩ ⟨.py, .fin false 1 0⟩ ⟨.py, .fin false 1 0⟩ = .ok (1717986944, 34) := by decide
-- the float32 all-ones significand is *not* in the 2^31 corner, the double below 1.0 is
example : sigQ31 ((2 ^ 24 - 1) * 2 ^ 29) = 2 ^ 31 - 128 ∧ sigQ31 (2 ^ 53 - 1) = 2 ^ 31 := by decide

/-! ## the "same quantisation" predicate (`tensor.py`: `is_scaling_equal`, `check_quantized_tens_scaling_equal`)

When the predicate answers "equal" the compiler emits **no** multiplier for `s_in / s_out` (a RELU is packed
into the producer's pass, a LeakyRelu / MEAN / PAD keeps or drops its rescale, …), so the answer is only
admissible for scales that denote the same number.  Model: `Model/ScalingEqual.lean`, Spec:
`Spec/ScalingEqual.lean` (independent), reading of the model's values by the Spec: `Spec/ScalingEqualView.lean`. -/
section ScalingEqual
open VelaVerif.ScalingEqual VelaVerif.Spec.ScalingEqual

/-- `is_scaling_equal` answers `True` **iff** `other` is a quantisation and, for the scale and for the zero
    point, both are absent or both hold the same numbers (exactly: as real numbers, NaN never) in the same
    shape — or in two one-element arrays of any rank.  For every well-formed input: any rank, any number of
    elements, any float32 / float64 / integer value including ±0, ±inf, NaN, any exponent. -/
theorem scaling_equal_iff (a b : VelaVerif.ScalingEqual.Quant) (ha : Quant.Ok a) (hb : Quant.Ok b) :
    (isScalingEqual a (some b) = true ↔
      SameUpToUnitShape (ofQVal a.scale) (ofQVal b.scale) ∧
      SameUpToUnitShape (ofQVal a.zeroPoint) (ofQVal b.zeroPoint)) ∧
    isScalingEqual a none = false := by
  refine ⟨?_, rfl⟩
  simp only [isScalingEqual, Bool.and_eq_true]
  rw [equalVal_iff _ _ ha.1 hb.1, equalVal_iff _ _ ha.2 hb.2]

/-- … hence the model's verdict meets the Spec applied to the implementation's verdicts: "equal" only for
    quantisations that denote the same numbers, and always for the same numbers in the same shape. -/
theorem scaling_equal_meets_spec (a b : VelaVerif.ScalingEqual.Quant) (ha : Quant.Ok a) (hb : Quant.Ok b) :
    EqualOk (ofQuant a) (ofQuant b) (isScalingEqual a (some b)) := by
  have h := (scaling_equal_iff a b ha hb).1
  have flat : ∀ x y : Option Attr, SameUpToUnitShape x y → SameFlat x y := by
    intro x y; cases x <;> cases y <;> simp only [SameUpToUnitShape, SameFlat] <;> intro hh
    · trivial
    · exact hh
    · exact hh
    · exact hh.2
  have shaped : ∀ x y : Option Attr, SameShaped x y → SameUpToUnitShape x y := by
    intro x y; cases x <;> cases y <;> simp only [SameUpToUnitShape, SameShaped] <;> intro hh
    · trivial
    · exact hh
    · exact hh
    · exact ⟨Or.inr hh.1, hh.2⟩
  constructor
  · intro hv
    have := h.1 hv
    exact ⟨flat _ _ this.1, flat _ _ this.2⟩
  · intro hs
    exact h.2 ⟨shaped _ _ hs.1, shaped _ _ hs.2⟩

/-- Scalar scales as the harness and `math.frexp` present them (`2^52 ≤ m < 2^53`): the verdict is "equal"
    iff sign, significand and exponent are identical — one unit in the last place of a float32 or of a double
    apart is "different" — and the zero points are equal. -/
theorem scaling_equal_scalar_bit_identical (n1 n2 : Bool) (m1 m2 : Nat) (e1 e2 : Int) (z1 z2 : VelaVerif.ScalingEqual.QVal)
    (h1 : 2 ^ 52 ≤ m1 ∧ m1 < 2 ^ 53) (h2 : 2 ^ 52 ≤ m2 ∧ m2 < 2 ^ 53) :
    isScalingEqual ⟨.arr ⟨[], [.fin n1 m1 e1]⟩, z1⟩ (some ⟨.arr ⟨[], [.fin n2 m2 e2]⟩, z2⟩) = true ↔
      (n1 = n2 ∧ m1 = m2 ∧ e1 = e2) ∧ equalVal z1 z2 = true := by
  simp only [isScalingEqual, Bool.and_eq_true]
  have : equalVal (.arr ⟨[], [.fin n1 m1 e1]⟩) (.arr ⟨[], [.fin n2 m2 e2]⟩) = dblEq (.fin n1 m1 e1) (.fin n2 m2 e2) := by
    simp [equalVal, NArr.size]
  rw [this, dblEq_norm_iff n1 n2 m1 m2 e1 e2 h1 h2]

/-- Over the rationals: positive scalar scales judged "equal" have quotient exactly 1, so leaving out the
    requantisation `s_in / s_out` is exact. -/
theorem scaling_equal_quotient_one (m1 m2 : Nat) (e1 e2 : Int) (z1 z2 : VelaVerif.ScalingEqual.QVal)
    (h1 : 0 < m1) (h2 : 0 < m2)
    (h : isScalingEqual ⟨.arr ⟨[], [.fin false m1 e1]⟩, z1⟩ (some ⟨.arr ⟨[], [.fin false m2 e2]⟩, z2⟩) = true) :
    ((m1 : ℚ) * (2 : ℚ) ^ e1) / ((m2 : ℚ) * (2 : ℚ) ^ e2) = 1 := by
  simp only [isScalingEqual, Bool.and_eq_true] at h
  have hv : equalVal (.arr ⟨[], [.fin false m1 e1]⟩) (.arr ⟨[], [.fin false m2 e2]⟩) = dblEq (.fin false m1 e1) (.fin false m2 e2) := by
    simp [equalVal, NArr.size]
  rw [hv] at h
  have hd := (dblEq_iff _ _ (show DblOk (.fin false m1 e1) from h1) (show DblOk (.fin false m2 e2) from h2)).1 h.1
  simp only [ofDbl, Val.Same, Bool.false_eq_true, if_false] at hd
  have hq := (dyEq_iff_rat _ _ _ _).1 hd
  push_cast at hq
  have hpos : (0 : ℚ) < (m2 : ℚ) * (2 : ℚ) ^ e2 := by
    have : (0 : ℚ) < (m2 : ℚ) := by exact_mod_cast h2
    positivity
  rw [hq]
  exact div_self (ne_of_gt hpos)

/-- `check_quantized_tens_scaling_equal`: both tensors carry a quantisation with scale and zero point, and
    `is_scaling_equal` holds.  (The data-type test of `is_quantized` holds for every type, see
    `ScalingEqual.intTypeTest`; the tensor-level verdict is therefore never "equal" for quantisations that
    `is_scaling_equal` separates.) -/
theorem check_tens_scaling_equal_iff (a b : Tens) :
    checkQuantizedTensScalingEqual a b = true ↔
      ∃ qa qb, a.quant = some qa ∧ b.quant = some qb ∧
        qa.isValid = true ∧ qb.isValid = true ∧ isScalingEqual qa (some qb) = true := by
  unfold checkQuantizedTensScalingEqual Tens.isQuantized intTypeTest
  cases ha : a.quant <;> cases hb : b.quant <;> simp [Bool.and_eq_true]
  tauto

-- non-vacuity: the two scales of the recorded seeded change (float32, 51 units in the last place = 4·10^-6
-- apart) are different, also one float32 step and one double step apart; bit-identical ones are equal
example :
    isScalingEqual ⟨.arr ⟨[], [.fin false 6781891336208384 (-57)]⟩, .arr ⟨[], [.fin true (2 ^ 59) (-52)]⟩⟩
      (some ⟨.arr ⟨[], [.fin false 6781918716624896 (-57)]⟩, .arr ⟨[], [.fin true (2 ^ 59) (-52)]⟩⟩) = false ∧
    isScalingEqual ⟨.arr ⟨[], [.fin false 6781891336208384 (-57)]⟩, .arr ⟨[], [.zero false]⟩⟩
      (some ⟨.arr ⟨[], [.fin false 6781891873079296 (-57)]⟩, .arr ⟨[], [.zero false]⟩⟩) = false ∧
    isScalingEqual ⟨.arr ⟨[], [.fin false 6781891336208384 (-57)]⟩, .arr ⟨[], [.zero false]⟩⟩
      (some ⟨.arr ⟨[], [.fin false 6781891336208385 (-57)]⟩, .arr ⟨[], [.zero false]⟩⟩) = false ∧
    isScalingEqual ⟨.arr ⟨[], [.fin false 6781891336208384 (-57)]⟩, .arr ⟨[], [.zero false]⟩⟩
      (some ⟨.arr ⟨[], [.fin false 6781891336208384 (-57)]⟩, .arr ⟨[], [.zero true]⟩⟩) = true := by decide
-- per-axis arrays: same shape and numbers → equal; a scalar against a one-element array → equal; one element
-- one step apart, another shape, or a different zero point → different; an unnormalised significand denotes
-- the same number (3·2^-5 = 6·2^-6)
example :
    isScalingEqual ⟨.arr ⟨[2], [.fin false 3 (-5), .fin false 5 (-7)]⟩, .arr ⟨[], [.zero false]⟩⟩
      (some ⟨.arr ⟨[2], [.fin false 6 (-6), .fin false 5 (-7)]⟩, .arr ⟨[], [.zero false]⟩⟩) = true ∧
    isScalingEqual ⟨.arr ⟨[], [.fin false 3 (-5)]⟩, .arr ⟨[], [.zero false]⟩⟩
      (some ⟨.arr ⟨[1, 1], [.fin false 3 (-5)]⟩, .arr ⟨[1], [.zero false]⟩⟩) = true ∧
    isScalingEqual ⟨.arr ⟨[2], [.fin false 3 (-5), .fin false 5 (-7)]⟩, .arr ⟨[], [.zero false]⟩⟩
      (some ⟨.arr ⟨[2], [.fin false 3 (-5), .fin false (5 * 2 ^ 50 + 1) (-57)]⟩, .arr ⟨[], [.zero false]⟩⟩) = false ∧
    isScalingEqual ⟨.arr ⟨[2], [.fin false 3 (-5), .fin false 5 (-7)]⟩, .arr ⟨[], [.zero false]⟩⟩
      (some ⟨.arr ⟨[1, 2], [.fin false 3 (-5), .fin false 5 (-7)]⟩, .arr ⟨[], [.zero false]⟩⟩) = false ∧
    isScalingEqual ⟨.arr ⟨[], [.fin false 3 (-5)]⟩, .arr ⟨[], [.zero false]⟩⟩
      (some ⟨.arr ⟨[], [.fin false 3 (-5)]⟩, .arr ⟨[], [.fin false 1 0]⟩⟩) = false ∧
    isScalingEqual ⟨.none, .none⟩ (some ⟨.none, .none⟩) = true ∧
    Quant.Ok ⟨.arr ⟨[2], [.fin false 3 (-5), .fin false 5 (-7)]⟩, .arr ⟨[], [.zero false]⟩⟩ := by
  refine ⟨by decide, by decide, by decide, by decide, by decide, by decide, ?_⟩
  refine ⟨⟨by decide, ?_⟩, ⟨by decide, ?_⟩⟩ <;> intro x hx <;> simp at hx <;> rcases hx with rfl | rfl <;> simp [DblOk]

end ScalingEqual

end VelaVerif.Props.C09
