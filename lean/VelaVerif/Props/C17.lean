import VelaVerif.Lemmas.Payload
/-!
# C17 — the driver payload frames the command stream correctly

Property theorems only (helpers: `Lemmas/Payload.lean`, model: `Model/Payload.lean`).
The accelerator rows, `config_r`/`id_r` layouts, `DACommands` and `ARCH_VER` come from the
regenerated `Gen/Core.lean`, so every `decide` below is re-checked against the live source.
-/
namespace VelaVerif.Props.C17
open VelaVerif.Gen VelaVerif.Payload

/-- The configuration action matches every accelerator (product, MACs/cc, SHRAM size) and every
    field fits its bit width (nothing truncated). -/
theorem config_word_matches :
    (accelerators.map fun a => (a.name, buildConfigWord a)) =
      specTable.map fun (n, p, m, s) => (n, specConfigWord p m s) := by decide

/-- `ARCH_VER` 1.0.6 in bits [31:28].[27:20].[19:16] -/
theorem id_word_matches : buildIdWord = specIdWord := by decide

/-- what the model encodes is what the acceptance predicate expects, for every accelerator row -/
theorem model_config_accepted : ∀ a ∈ accelerators, some (buildConfigWord a) = specConfigWordFor a.name := by decide

theorem config_tag : makeDaTag daConfig 0 ((1 <<< daConfigPatchShift) ||| 0) = 0x00100001 := by decide

/-- For *any* number of words already emitted, the NOP padding makes the first command word start
    on a 16-byte boundary (`have_` words + NOPs + the CmdStream tag is a multiple of 4 words). -/
theorem payload_aligned (have_ len : Nat) :
    (4 * (have_ + (cmdStreamHeader have_ len).length)) % 16 = 0 := by
  simp [cmdStreamHeader, numNops]; omega

/-- between 1 and 4 NOPs, never 0 (the formula pads a full 4 when already aligned-minus-one) -/
theorem nops_range (have_ : Nat) : 1 ≤ numNops have_ ∧ numNops have_ ≤ 4 := by
  unfold numNops; omega

/-- The 16-bit low field plus the 8-bit high field in the reserved byte is injective below 2^24:
    the declared count is exactly the number of command words. -/
theorem header_len_roundtrip (len : Nat) (h : len < 2 ^ 24) :
    declaredLength (cmdStreamTag len) = len := by
  rw [cmdStreamTag_eq]
  have key : ∀ hi lo : Nat, hi < 256 → lo < 65536 →
      declaredLength (2 + hi * 256 + lo * 65536) = hi * 65536 + lo := by
    intro hi lo hhi hlo
    unfold declaredLength
    have e1 : (2 + hi * 256 + lo * 65536) / 256 = hi + lo * 256 := by omega
    have e2 : (2 + hi * 256 + lo * 65536) / 65536 = lo := by omega
    rw [e1, e2]; omega
  rw [key _ _ (Nat.mod_lt _ (by decide)) (Nat.mod_lt _ (by decide))]
  omega

/-- Without the size guard the header would silently wrap: witness. -/
theorem header_wraps_at_limit : declaredLength (cmdStreamTag (2 ^ 24)) = 0 := by decide

/-- Streams at or beyond the limit are rejected, never truncated. -/
theorem payload_rejects_big (a : AccRow) (ws : List Nat) (h : ws.length ≥ 2 ^ 24) :
    createDriverPayload a ws = .error .vela := by
  simp [createDriverPayload, payloadWords, h]

/-- Exact layout of an accepted payload. -/
theorem payload_layout (a : AccRow) (ws : List Nat) (h : ws.length < 2 ^ 24) :
    payloadWords a ws = .ok ([cop1, 0x00100001, buildConfigWord a, buildIdWord] ++
        List.replicate 3 (makeDaTag daNOP 0 0) ++ [cmdStreamTag ws.length] ++ ws) := by
  have h' : ¬ ws.length ≥ 2 ^ 24 := by omega
  simp only [payloadWords, configWords, h', if_false, cmdStreamHeader, List.length_cons,
    List.length_nil, numNops]
  rfl

/-- Main theorem (word level): parsing what `create_driver_payload` assembles gives back the
    matching configuration, an aligned start, the exact declared count and the words unmodified. -/
theorem payload_parses (a : AccRow) (ws : List Nat) (h : ws.length < 2 ^ 24) :
    ∃ out p, payloadWords a ws = .ok out ∧ parseWords out = some p ∧
      p.configWord = buildConfigWord a ∧ p.idWord = buildIdWord ∧
      p.cmdOffsetBytes % 16 = 0 ∧ p.declared = ws.length ∧ p.cmds = ws := by
  refine ⟨_, Parsed.mk 0x00100001 (buildConfigWord a) buildIdWord 3
      (declaredLength (cmdStreamTag ws.length)) (4 * (4 + 3 + 1)) ws, payload_layout a ws h, ?_, ?_⟩
  · show parseWords (cop1 :: 0x00100001 :: buildConfigWord a :: buildIdWord ::
        (List.replicate 3 (makeDaTag daNOP 0 0) ++ cmdStreamTag ws.length :: ws)) = _
    unfold parseWords
    have hskip := skipNops_replicate 3 (cmdStreamTag ws.length) ws
      (by rw [tagId_cmdStreamTag]; decide)
    have h1 : ¬ (cop1 ≠ cop1 ∨ tagId 0x00100001 ≠ daConfig) := by decide
    simp only [h1, if_false, hskip, tagId_cmdStreamTag]
    rfl
  · exact ⟨rfl, rfl, by simp, header_len_roundtrip _ h, rfl⟩

theorem config_word_fits : ∀ a ∈ accelerators, buildConfigWord a < 2 ^ 32 := by decide

/-- Byte level: little-endian packing is lossless for 32-bit words, so the byte payload parses
    to the same result; the payload length is 4·(8 + n) bytes. -/
theorem payload_bytes_roundtrip (a : AccRow) (ws : List Nat) (h : ws.length < 2 ^ 24)
    (hw : ∀ w ∈ ws, w < 2 ^ 32) (ha : a ∈ accelerators) :
    ∃ bytes out, createDriverPayload a ws = .ok bytes ∧ payloadWords a ws = .ok out ∧
      bytes.length = 4 * (8 + ws.length) ∧ fromLE32 bytes = out := by
  have hlay := payload_layout a ws h
  have hcw : buildConfigWord a < 2 ^ 32 := config_word_fits a ha
  have hall : ∀ w ∈ ([cop1, 0x00100001, buildConfigWord a, buildIdWord] ++
        List.replicate 3 (makeDaTag daNOP 0 0) ++ [cmdStreamTag ws.length] ++ ws), w < 2 ^ 32 := by
    intro w hwm
    simp only [List.mem_append, List.mem_cons, List.mem_replicate, List.not_mem_nil, or_false] at hwm
    rcases hwm with ((h1 | h1) | h1) | h1
    · rcases h1 with h1 | h1 | h1 | h1 <;> subst h1
      · decide
      · decide
      · exact hcw
      · decide
    · rw [h1.2]; decide
    · subst h1; rw [cmdStreamTag_eq]; omega
    · exact hw w h1
  refine ⟨_, _, ?_, hlay, ?_, fromLE32_flatMap _ hall⟩
  · simp only [createDriverPayload, hlay, packLE]
    rw [if_pos]
    simpa using hall
  · rw [flatMap_le32_length]; simp; omega

/-- a word that does not fit 32 bits is an error (`struct.error`), never truncated -/
theorem payload_rejects_wide_word (a : AccRow) (ws : List Nat) (h : ws.length < 2 ^ 24)
    (w : Nat) (hw : w ∈ ws) (hbig : ¬ w < 2 ^ 32) : createDriverPayload a ws = .error .pack := by
  simp only [createDriverPayload, payload_layout a ws h, packLE]
  rw [if_neg]
  simp only [List.all_eq_true, decide_eq_true_eq]
  intro hall
  exact hbig (hall w (by simp [hw]))

/-! Non-vacuity: concrete instances meet the hypotheses. -/
example : payloadWords (accelerators.getD 2 default) [1, 2, 3] =
    .ok [0x31504F43, 0x00100001, 0x1807, 0x10060000, 5, 5, 5, 0x00030002, 1, 2, 3] := by rfl
example : ([1, 2, 3] : List Nat).length < 2 ^ 24 ∧ ∀ w ∈ ([1, 2, 3] : List Nat), w < 2 ^ 32 := by decide
example : declaredLength (cmdStreamTag 70000) = 70000 := by decide

end VelaVerif.Props.C17
