import VelaVerif.Spec.Determinism
import VelaVerif.Model.Caches
import VelaVerif.Gen.Caches
namespace VelaVerif.Props.C14
open VelaVerif.Determinism

theorem agree_nil : agree [] = true := rfl

end VelaVerif.Props.C14
