import VelaVerif.Spec.Determinism
import VelaVerif.Model.Caches
import VelaVerif.Gen.Caches
import VelaVerif.Lemmas.Caches
import VelaVerif.Lemmas.EmitOrder
import VelaVerif.Lemmas.KeyRename
import VelaVerif.Model.CacheWitnesses
/-!
# C14 — compilation is deterministic and independent of process history

Level "other" (partial). What is proved is about the abstract model of the process state in
`Model/Caches.lean`: when can a compilation not see what ran before it (`history_independent…`), where the
unchanged code does not meet that hypothesis (`…_witness`, each one reproduced on the real compiler by
`harness/check_C14.py` unless its docstring says otherwise), when sorting before emitting removes the
dependence on set iteration order (`permutation_invariant…`), and table facts re-checked against the source on
every run (which process-wide stores exist, what the entry points reset, where `hash()` and `random` are used).
That the real compiler *is* such a program — and the determinism of CPython, NumPy and the C extension — is
observed by the harness and judged by `Determinism.agree`, not proved.
-/
namespace VelaVerif.Props.C14
open VelaVerif.Determinism VelaVerif.Caches

/-! ## The judge -/

/-- the executable judge decides the specification -/
theorem agree_iff (l : List Obs) : agree l = true ↔ Deterministic l := by
  cases l with
  | nil => simp [agree, Deterministic]
  | cons a t =>
    simp only [agree, Deterministic, List.all_eq_true, beq_iff_eq, List.mem_cons]
    constructor
    · intro h x hx y hy
      have hx' : x = a := by rcases hx with rfl | hx; rfl; exact h x hx
      have hy' : y = a := by rcases hy with rfl | hy; rfl; exact h y hy
      rw [hx', hy']
    · intro h b hb
      exact h b (Or.inr hb) a (Or.inl rfl)

/-- one differing observation anywhere in the class is enough to reject it -/
theorem agree_false_of_ne (l : List Obs) (a b : Obs) (ha : a ∈ l) (hb : b ∈ l) (hab : a ≠ b) : agree l = false := by
  cases h : agree l with
  | false => rfl
  | true => exact absurd ((agree_iff l).mp h a ha b hb) hab

example : agree [⟨"ok", 2096, "a36c", ["sram=1.3"]⟩, ⟨"ok", 2096, "a36c", ["sram=1.3"]⟩] = true := by decide
example : agree [⟨"ok", 2096, "a36c", []⟩, ⟨"ok", 2000, "2afb", []⟩] = false := by decide
example : agree [⟨"ok", 2096, "a36c", []⟩, ⟨"exception:AssertionError@tensor.set_address_for_tens", 0, "-", []⟩] = false := by decide

/-! ## History independence of the process-state model -/

/-- **history_independent.** Let every request's compilation satisfy `cache_key_sufficient` (`Suff F true`): a
memo look-up whose key an earlier compilation could have built stores a value that is a function `F` of the key
alone; addresses are only given to, and read from, identities created by the compilation itself; the debug
database is not dumped. Then after ANY history — any requests, through any entry points, failed ones included —
the output (and whether the compilation fails) is the one obtained in a fresh process. -/
theorem history_independent {ρ ω : Type} (F : Store → PKey → Val) (prog : ρ → Prog ω)
    (hs : ∀ r, Suff F true (prog r)) (h : List (Entry × ρ)) (e : Entry) (rq : ρ) :
    (compile prog e (after prog h init) rq).1 = (compile prog e init rq).1 := by
  rw [compile_fst, compile_fst]
  have hinv := after_inv (F := F) prog hs h init inv_init
  exact run_sim (hs rq) _ _ (sim_init_of_inv hinv)

/-- **history_independent_after_convert_bytes.** Without the two restrictions on addresses and on the debug
database (`Suff F false`: memoised identities may receive addresses, the database may be dumped) the same holds
right after a *successful* `convert_bytes`, the only entry point that clears both stores. -/
theorem history_independent_after_convert_bytes {ρ ω : Type} (F : Store → PKey → Val) (prog : ρ → Prog ω)
    (hs : ∀ r, Suff F false (prog r)) (h : List (Entry × ρ)) (r0 : ρ)
    (hok : (compile prog .convertBytes (after prog h init) r0).1 ≠ none) (e : Entry) (rq : ρ) :
    (compile prog e (compile prog .convertBytes (after prog h init) r0).2 rq).1 = (compile prog e init rq).1 := by
  rw [compile_fst, compile_fst]
  have hinv := after_inv (F := F) prog hs h init inv_init
  have hinv' := compile_inv prog hs .convertBytes _ r0 hinv
  refine run_sim (hs rq) _ _ (sim_init_of_inv_clean hinv' ?_ ?_)
  all_goals
    unfold compile at hok ⊢
    rcases hr : run (prog r0) (after prog h init) with ⟨o, st'⟩
    rw [hr] at hok
    cases o with
    | none => exact absurd rfl hok
    | some o => rfl

/-- the invariant behind both theorems: whatever ran before, every entry of a memo table under a key that a later
compilation can rebuild holds the value `F` prescribes, and every other entry is tagged with a past compilation -/
theorem history_keeps_tables_consistent {ρ ω : Type} (F : Store → PKey → Val) (strict : Bool) (prog : ρ → Prog ω)
    (hs : ∀ r, Suff F strict (prog r)) (h : List (Entry × ρ)) :
    Inv F (after prog h init).gen (after prog h init) :=
  after_inv prog hs h init inv_init

/-! ### non-vacuity: a compilation shaped like the real one meets the hypothesis -/

theorem convProg_sufficient (rq : Nat × Nat) : Suff convF true (convProg rq) := by
  refine .memo _ _ _ _ (fun _ => rfl) fun arch => ?_
  refine .memo _ _ _ _ (fun h => by simp [isLocal, Atom.isLoc] at h) fun enc => ?_
  refine .memo _ _ _ _ (fun h => by simp [isLocal, Atom.isLoc] at h) fun enc2 => ?_
  refine .assign _ _ _ (fun _ => by simp [isLocal, Atom.isLoc]) ?_
  exact .log _ _ (.ret _)

/-- … so its output after a mixed history is the fresh-process output (the second look-up hits the entry the first
one made: a cache hit *inside* a compilation is part of the function) -/
example : (compile convProg .main (after convProg [(.main, (0, 5)), (.convert, (1, 5)), (.convertBytes, (0, 6))] init) (1, 5)).1
    = some [501, 1005, 1005] := by decide
example : (compile convProg .main init (1, 5)).1 = some [501, 1005, 1005] := by decide
example (h : List (Entry × (Nat × Nat))) (e : Entry) (rq : Nat × Nat) :
    (compile convProg e (after convProg h init) rq).1 = (compile convProg e init rq).1 :=
  history_independent convF convProg convProg_sufficient h e rq

/-! ### where the unchanged code does not meet the hypothesis -/

/-- the same model under another accelerator, second in the process, is given the first accelerator's weight stream —
even through `convert_bytes`, which resets everything vela ever resets.
Replayed: `./check C14`, known finding `stale-CompressedWeightCache-hit:value_id-from-create_equivalence_id`. -/
theorem weight_cache_key_insufficient_witness :
    (compile meanProg .convertBytes (after meanProg [(.convertBytes, 0)] init) 1).1 = some 1000 ∧
    (compile meanProg .convertBytes init 1).1 = some 1001 := by decide

/-- … and no value function of the key can repair it: the hypothesis of `history_independent` is not met -/
theorem weight_cache_key_no_value_function_witness : ¬ ∃ F, ∀ r, Suff F false (meanProg r) := by
  rintro ⟨F, h⟩
  have h0 := h 0
  have h1 := h 1
  cases h0 with
  | memo _ _ _ _ hv0 _ =>
    cases h1 with
    | memo _ _ _ _ hv1 _ =>
      have e0 := hv0 (by decide)
      have e1 := hv1 (by decide)
      rw [← e0] at e1
      cases e1

/-- `main(A); main(B)`: the second compilation dies on "Two different addresses cannot be assigned to the same
tensor" although it succeeds in a fresh process. Replayed: known finding
`AssertionError@tensor.set_address_for_tens:stale-address-of-memoised-equivalence-id`. -/
theorem main_history_dependent_witness :
    (compile lutProg .main (after lutProg [(.main, 1)] init) 2).1 = none ∧
    (compile lutProg .main init 2).1 = some 2 := by decide

/-- `convert` cleans the debug database but keeps the address map: same failure -/
theorem convert_keeps_addresses_witness :
    (compile lutProg .convert (after lutProg [(.convert, 1)] init) 2).1 = none := by decide

/-- `convert_bytes` clears the map: the same pair of requests goes through (an instance of
`history_independent_after_convert_bytes`) -/
example : (compile lutProg .convertBytes (after lutProg [(.convertBytes, 1)] init) 2).1 = some 2 := by decide

/-- `main` never cleans the database: the second `_debug.xml` also holds the first compilation's rows.
Replayed: known finding `DebugDatabase-not-cleared-by-main`. -/
theorem debug_db_leaks_through_main_witness :
    (compile dbgProg .main (after dbgProg [(.main, 1)] init) 2).1 = some [1, 2] ∧
    (compile dbgProg .main init 2).1 = some [2] := by decide

/-- the clean-up of `convert_bytes` sits after the compilation, not in a `finally`: an escaping exception skips it and
the next `convert_bytes` inherits the address map. Model-level witness only: the harness runs crashing compilations
first (`crash_first` scenarios) but the crashes of the unchanged tree happen before tensor allocation, so this one
was not reproduced on the real compiler. -/
theorem failed_compilation_skips_cleanup_witness :
    (compile crashProg .convertBytes (after crashProg [(.convertBytes, (true, 1))] init) (false, 5)).1 = none ∧
    (compile crashProg .convertBytes init (false, 5)).1 = some 5 := by decide

/-! ## Sorting before emitting -/

/-- **permutation_invariant.** If the sort key separates the elements, the emitted order does not depend on the order
in which the set was iterated. -/
theorem permutation_invariant {α : Type} (key : α → Nat) (l₁ l₂ : List α) (hp : l₁.Perm l₂)
    (hinj : ∀ a ∈ l₁, ∀ b ∈ l₁, key a = key b → a = b) : emitOrder key l₁ = emitOrder key l₂ := by
  apply eq_of_perm_sorted key
  · exact ((emitOrder_perm key l₁).trans hp).trans (emitOrder_perm key l₂).symm
  · exact emitOrder_sorted key l₁
  · exact emitOrder_sorted key l₂
  · intro a ha b hb
    exact hinj a ((emitOrder_perm key l₁).subset ha) b ((emitOrder_perm key l₁).subset hb)

/-- **permutation_invariant_iff.** For a set (a duplicate-free list) the emitted order is the same for every iteration
order *iff* the sort key is injective on the elements. -/
theorem permutation_invariant_iff {α : Type} (key : α → Nat) (l : List α) (hn : l.Nodup) :
    (∀ l', l'.Perm l → emitOrder key l' = emitOrder key l) ↔ (∀ a ∈ l, ∀ b ∈ l, key a = key b → a = b) := by
  constructor
  · intro h a ha b hb hk
    apply Classical.byContradiction
    intro hab
    have hrev := h l.reverse (List.reverse_perm l)
    have hf := congrArg (List.filter (fun x => key x == key a)) hrev
    rw [filter_emitOrder, filter_emitOrder, List.filter_reverse] at hf
    refine reverse_ne_of_two (l.filter (fun x => key x == key a)) (hn.filter _) a b ?_ ?_ hab hf
    · exact List.mem_filter.mpr ⟨ha, by simp⟩
    · exact List.mem_filter.mpr ⟨hb, by simp [hk]⟩
  · intro hinj l' hp
    exact permutation_invariant key l' l hp (fun a ha b hb => hinj a (hp.subset ha) b (hp.subset hb))

/-- operator codes: `sorted(set((op.type, custom_code, version) …))` sorts the elements themselves (here: an injective
numbering of the triples), so the emitted order never depends on the iteration order -/
theorem operator_codes_order_invariant (l₁ l₂ : List Nat) (hp : l₁.Perm l₂) : emitOrder id l₁ = emitOrder id l₂ :=
  permutation_invariant id l₁ l₂ hp (fun _ _ _ _ h => h)

/-- tensors: `sorted((tens.name, idx, tens) …)`: invariant when the names are unique -/
theorem tensor_order_invariant_of_unique_names {τ : Type} (name : τ → Nat) (l₁ l₂ : List τ) (hp : l₁.Perm l₂)
    (huniq : ∀ a ∈ l₁, ∀ b ∈ l₁, name a = name b → a = b) : emitOrder name l₁ = emitOrder name l₂ :=
  permutation_invariant name l₁ l₂ hp huniq

/-- … and not otherwise: two tensors (name, depth) both called `7`. Replayed: known finding
`writer-tensor-order:duplicate-tensor-names-tie-broken-by-set-iteration`. -/
theorem tensor_order_duplicate_names_witness :
    emitOrder Prod.fst [((7 : Nat), (16 : Nat)), (7, 8), (3, 1)] ≠ emitOrder Prod.fst [(7, 8), (7, 16), (3, 1)] ∧
    [((7 : Nat), (16 : Nat)), (7, 8), (3, 1)].Perm [(7, 8), (7, 16), (3, 1)] := by
  constructor
  · decide
  · exact List.Perm.swap ..

example : emitOrder Prod.fst [((7 : Nat), (16 : Nat)), (5, 8), (3, 1)] = [(3, 1), (5, 8), (7, 16)] := by decide

/-! ## Facts about the source, re-checked on every run against the regenerated table `Gen/Caches.lean` -/

/-- every process-wide store found in `ethosu/vela/*.py` (containers created empty at module or class level, functions
under `lru_cache`) is one the model accounts for — a new cache breaks this obligation -/
theorem stores_all_modelled : Gen.Caches.processStores.all (fun s => modelledStores.contains s) = true := by decide

/-- … and the model does not talk about stores that are gone -/
theorem modelled_stores_exist : modelledStores.all (fun s => Gen.Caches.processStores.contains s) = true := by decide

/-- the key of the compressed-weight cache has exactly the fields the model's key has: no accelerator, no IFM bit
depth, no weight shape, no operator type -/
theorem weight_key_fields_as_modelled : Gen.Caches.wccFields = weightKeyFields := by decide

/-- what `main` / `convert` / `convert_bytes` reset is what `cleanup` resets -/
theorem entry_cleanup_as_modelled :
    Gen.Caches.cleanupMain = cleanupNames .main ∧ Gen.Caches.cleanupConvert = cleanupNames .convert ∧
    Gen.Caches.cleanupConvertBytes = cleanupNames .convertBytes := by decide

/-- the options `convert` and `convert_bytes` hard-code are `main`'s defaults: the three entry points are comparable -/
theorem entry_points_comparable :
    Gen.Caches.convertHardcoded = Gen.Caches.mainDefaults ∧ Gen.Caches.convertBytesHardcoded = Gen.Caches.mainDefaults ∧
    Gen.Caches.mainDefaults.length = 4 := by decide

/-- **hash_only_as_key.** The builtin `hash()` is called in two places: `DataType.__hash__` (a tuple of ints: not
affected by `PYTHONHASHSEED`) and `encode_weight_and_scale_tensor`, where `hash(str(depth_offsets))` becomes the
`ofm_depth_step` field of the cache key — an atom that programs of the model can only compare (`Prog` has no way to
inspect a key), so a different seed renames it consistently within a process. -/
theorem hash_only_as_key :
    Gen.Caches.hashSites = [("data_type", "DataType.__hash__"), ("weight_compressor", "encode_weight_and_scale_tensor")] ∧
    "ofm_depth_step" ∈ Gen.Caches.wccFields := by decide

/-- **hash_only_as_key, in the model.** Renumbering the literal atoms of every key (the `hash(str(depth_offsets))` field
among them) with any injective function changes no output, after any history and through any entry point: a
compilation only compares keys. Another `PYTHONHASHSEED` is such a renumbering, up to hash collisions (2⁻⁶⁴ per pair,
outside the model). -/
theorem key_literals_only_compared {ρ ω : Type} (f : Nat → Nat) (hf : ∀ a b, f a = f b → a = b) (prog : ρ → Prog ω)
    (h : List (Entry × ρ)) (e : Entry) (rq : ρ) :
    (compile (fun r => (prog r).mapLit f) e (after (fun r => (prog r).mapLit f) h init) rq).1 =
      (compile prog e (after prog h init) rq).1 := by
  have h1 := after_mapLit hf prog h init
  have hinit : mapState f init = init := rfl
  rw [hinit] at h1
  rw [h1, compile_mapLit hf]

example : (compile (fun r => (convProg r).mapLit (fun n => 2 * n + 3)) .main init (1, 5)).1 = some [501, 1005, 1005] := by decide

/-- the only user of `random` is the hill-climb allocator, and `allocate` re-seeds it with a constant at every call -/
theorem hillclimb_random_is_seeded :
    Gen.Caches.randomSites = [("hillclimb_allocation", "HillClimbAllocator.attempt_bottleneck_fix")] ∧
    Gen.Caches.seedSites = [("hillclimb_allocation", "HillClimbAllocator.allocate", "1")] := by decide

/-- the writer sorts exactly twice, with the keys `emitOrder` is instantiated with above -/
theorem writer_sorts_as_modelled :
    Gen.Caches.writerSorts =
      [ "sorted(set((op.type, op.attrs.get(\"custom_code\", \"\"), op.version) for op in all_ops))"
      , "sorted((tens.name, idx, tens) for idx, tens in enumerate(tensor_set))" ] := by decide

end VelaVerif.Props.C14
