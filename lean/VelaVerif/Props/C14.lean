import VelaVerif.Spec.Determinism
import VelaVerif.Model.Caches
import VelaVerif.Gen.Caches
import VelaVerif.Lemmas.Caches
import VelaVerif.Lemmas.EmitOrder
import VelaVerif.Lemmas.KeyRename
import VelaVerif.Model.CacheWitnesses
/-!
# C14 — compilation is deterministic and independent of process history

Level "other" (partial). What is proved is about the abstract model of the process state in
`Model/Caches.lean`: when can a compilation not see what ran before it (`history_independent…`), where the
unchanged code does not meet that hypothesis (`…_witness`, each one reproduced on the real compiler by
`harness/check_C14.py` unless its docstring says otherwise; the five found in the first round are repaired in /repo and have
become instances of the theorem), when sorting before emitting removes the
dependence on set iteration order (`permutation_invariant…`), and table facts re-checked against the source on
every run (which process-wide stores exist, what the entry points reset, where `hash()` and `random` are used).
That the real compiler *is* such a program — and the determinism of CPython, NumPy and the C extension — is
observed by the harness and judged by `Determinism.agree`, not proved.
-/
namespace VelaVerif.Props.C14
open VelaVerif.Determinism VelaVerif.Caches

/-! ## The judge -/

/-- the executable judge decides the specification -/
theorem agree_iff (l : List Obs) : agree l = true ↔ Deterministic l := by
  cases l with
  | nil => simp [agree, Deterministic]
  | cons a t =>
    simp only [agree, Deterministic, List.all_eq_true, beq_iff_eq, List.mem_cons]
    constructor
    · intro h x hx y hy
      have hx' : x = a := by rcases hx with rfl | hx; rfl; exact h x hx
      have hy' : y = a := by rcases hy with rfl | hy; rfl; exact h y hy
      rw [hx', hy']
    · intro h b hb
      exact h b (Or.inr hb) a (Or.inl rfl)

/-- one differing observation anywhere in the class is enough to reject it -/
theorem agree_false_of_ne (l : List Obs) (a b : Obs) (ha : a ∈ l) (hb : b ∈ l) (hab : a ≠ b) : agree l = false := by
  cases h : agree l with
  | false => rfl
  | true => exact absurd ((agree_iff l).mp h a ha b hb) hab

example : agree [⟨"ok", 2096, "a36c", ["sram=1.3"]⟩, ⟨"ok", 2096, "a36c", ["sram=1.3"]⟩] = true := by decide
example : agree [⟨"ok", 2096, "a36c", []⟩, ⟨"ok", 2000, "2afb", []⟩] = false := by decide
example : agree [⟨"ok", 2096, "a36c", []⟩, ⟨"exception:AssertionError@tensor.set_address_for_tens", 0, "-", []⟩] = false := by decide

/-! ## History independence of the process-state model -/

/-- **history_independent.** Let every request's compilation satisfy `cache_key_sufficient` (`Suff F false`): a look-up in
a memo table that *persists* (`default_arch_cache`, the conflict memo) under a key an earlier compilation could have built
stores a value that is a function `F` of the key alone. Nothing is asked of the compressed-weight cache and of the tensor
address map (both emptied at the start of `compiler_driver`). Then after ANY history — any requests, through any entry
points, failed ones included — the output (and whether the compilation fails) is the one obtained in a fresh process,
provided the debug database is dumped only through `main`, the entry point that cleans it first (and the only one that
ever writes it). -/
theorem history_independent {ρ ω : Type} (F : Store → PKey → Val) (prog : ρ → Prog ω)
    (hs : ∀ r, Suff F false (prog r)) (h : List (Entry × ρ)) (e : Entry) (rq : ρ)
    (hq : e ≠ .main → Suff F true (prog rq)) :
    (compile prog e (after prog h init) rq).1 = (compile prog e init rq).1 := by
  rw [compile_fst, compile_fst, prepare_init]
  have hinv := after_inv (F := F) prog hs h init inv_init
  by_cases he : e = .main
  · exact run_sim (hs rq) _ _ (sim_prepare_of_inv hinv e (fun _ => he))
  · exact run_sim (hq he) _ _ (sim_prepare_of_inv hinv e (fun hf => by cases hf))

/-- the same for compilations that never dump the debug database: every entry point -/
theorem history_independent_no_dump {ρ ω : Type} (F : Store → PKey → Val) (prog : ρ → Prog ω)
    (hs : ∀ r, Suff F true (prog r)) (h : List (Entry × ρ)) (e : Entry) (rq : ρ) :
    (compile prog e (after prog h init) rq).1 = (compile prog e init rq).1 :=
  history_independent F prog (fun r => (hs r).weaken) h e rq (fun _ => hs rq)

/-- the invariant behind the theorem: whatever ran before, every entry of a persisting memo table under a key that a later
compilation can rebuild holds the value `F` prescribes, and every other entry is tagged with a past compilation -/
theorem history_keeps_tables_consistent {ρ ω : Type} (F : Store → PKey → Val) (strict : Bool) (prog : ρ → Prog ω)
    (hs : ∀ r, Suff F strict (prog r)) (h : List (Entry × ρ)) :
    Inv F (after prog h init).gen (after prog h init) :=
  after_inv prog hs h init inv_init

/-! ### non-vacuity: a compilation shaped like the real one meets the hypothesis -/

theorem convProg_sufficient (rq : Nat × Nat) : Suff convF true (convProg rq) := by
  refine .memo _ _ _ _ (fun _ _ => rfl) fun arch => ?_
  refine .memo _ _ _ _ (fun h => by cases h) fun enc => ?_
  refine .memo _ _ _ _ (fun h => by cases h) fun enc2 => ?_
  exact .assign _ _ _ (.log _ _ (.ret _))

/-- … so its output after a mixed history is the fresh-process output (the second look-up hits the entry the first
one made: a cache hit *inside* a compilation is part of the function) -/
example : (compile convProg .main (after convProg [(.main, (0, 5)), (.convert, (1, 5)), (.convertBytes, (0, 6))] init) (1, 5)).1
    = some [501, 1005, 1005] := by decide
example : (compile convProg .main init (1, 5)).1 = some [501, 1005, 1005] := by decide
example (h : List (Entry × (Nat × Nat))) (e : Entry) (rq : Nat × Nat) :
    (compile convProg e (after convProg h init) rq).1 = (compile convProg e init rq).1 :=
  history_independent_no_dump convF convProg convProg_sufficient h e rq

/-! ### the former witnesses, now instances of the theorem

Before 97e1538 / PENDING-1 / PENDING-2 each of these programs had a two-step history that changed its output
(`weight_cache_key_insufficient_witness`: `convert_bytes(mean, U55); convert_bytes(mean, U65)` returned the U55 stream;
`main_history_dependent_witness` / `convert_keeps_addresses_witness`: `main(A); main(B)` = `none`;
`debug_db_leaks_through_main_witness`: second `_debug.xml` = `[1, 2]`; `failed_compilation_skips_cleanup_witness`).
With the weight cache and the address map emptied before every compilation and the debug database cleaned by `main`,
they are history independent for every history. -/

/-- MEAN on the NPU (memoised `value_id`, stream depends on the accelerator): was finding
`stale-CompressedWeightCache-hit:value_id-from-create_equivalence_id`, fixed by 97e1538 -/
theorem mean_weights_history_independent (h : List (Entry × Nat)) (e : Entry) (acc : Nat) :
    (compile meanProg e (after meanProg h init) acc).1 = (compile meanProg e init acc).1 :=
  history_independent_no_dump (fun _ _ => 0) meanProg
    (fun _ => .memo _ _ _ _ (fun hp => by cases hp) (fun _ => .ret _)) h e acc

example : (compile meanProg .convertBytes (after meanProg [(.convertBytes, 0)] init) 1).1 = some 1001 := by decide

/-- constants with memoised identities may be placed at different addresses by successive compilations: was finding
`AssertionError@tensor.set_address_for_tens:stale-address-of-memoised-equivalence-id` (PENDING-1) -/
theorem memoised_identity_addresses_history_independent (h : List (Entry × Nat)) (e : Entry) (rq : Nat) :
    (compile lutProg e (after lutProg h init) rq).1 = (compile lutProg e init rq).1 :=
  history_independent_no_dump (fun _ _ => 0) lutProg (fun _ => .assign _ _ _ (.ret _)) h e rq

example : (compile lutProg .main (after lutProg [(.main, 1)] init) 2).1 = some 2 := by decide
example : (compile lutProg .convert (after lutProg [(.convert, 1)] init) 2).1 = some 2 := by decide

/-- … also after a compilation that died half way (the reset is at the start of the next one, not at the end of this one) -/
theorem crashed_predecessor_history_independent (h : List (Entry × (Bool × Nat))) (e : Entry) (rq : Bool × Nat) :
    (compile crashProg e (after crashProg h init) rq).1 = (compile crashProg e init rq).1 :=
  history_independent_no_dump (fun _ _ => 0) crashProg
    (fun r => by
      obtain ⟨b, n⟩ := r
      cases b
      · exact .assign _ _ _ (.ret _)
      · exact .assign _ _ _ (.assign _ _ _ (.ret _))) h e rq

example : (compile crashProg .convertBytes (after crashProg [(.convertBytes, (true, 1))] init) (false, 5)).1 = some 5 := by decide

/-- `--enable-debug-db` through `main`: was finding `DebugDatabase-not-cleared-by-main` (PENDING-2) -/
theorem debug_db_through_main_history_independent (h : List (Entry × Nat)) (rq : Nat) :
    (compile dbgProg .main (after dbgProg h init) rq).1 = (compile dbgProg .main init rq).1 :=
  history_independent (fun _ _ => 0) dbgProg
    (fun _ => .log _ _ (.dump _ rfl (fun _ => .ret _))) h .main rq (fun hne => absurd rfl hne)

example : (compile dbgProg .main (after dbgProg [(.main, 1)] init) 2).1 = some [2] := by decide

/-! ### the remaining hypotheses are needed -/

/-- dumping the database through an entry point that does not clean it first would still see the rows a `main` left
(model-level: `convert` and `convert_bytes` never call `DebugDatabase.write`; this is why the theorem admits the dump for
`main` only) -/
theorem dump_outside_main_witness :
    (compile dbgProg .convert (after dbgProg [(.main, 1)] init) 2).1 = some [1, 2] ∧
    (compile dbgProg .convert init 2).1 = some [2] := by decide

/-- a persisting memo table whose stored value depends on more than its key — `default_arch_cache` filled with an
architecture object configured from the command line (mutation M4 of design.d/C14.md) — is history dependent -/
theorem persisting_store_needs_value_function_witness :
    (compile archLeakProg .main (after archLeakProg [(.main, 1)] init) 2).1 = some 1 ∧
    (compile archLeakProg .main init 2).1 = some 2 ∧ ¬ ∃ F, ∀ r, Suff F false (archLeakProg r) := by
  refine ⟨by decide, by decide, ?_⟩
  rintro ⟨F, h⟩
  have h0 := h 0
  have h1 := h 1
  cases h0 with
  | memo _ _ _ _ hv0 _ =>
    cases h1 with
    | memo _ _ _ _ hv1 _ =>
      have e0 := hv0 rfl (by decide)
      have e1 := hv1 rfl (by decide)
      rw [← e0] at e1
      cases e1

/-! ## Sorting before emitting -/

/-- **permutation_invariant.** If the sort key separates the elements, the emitted order does not depend on the order
in which the set was iterated. -/
theorem permutation_invariant {α : Type} (key : α → Nat) (l₁ l₂ : List α) (hp : l₁.Perm l₂)
    (hinj : ∀ a ∈ l₁, ∀ b ∈ l₁, key a = key b → a = b) : emitOrder key l₁ = emitOrder key l₂ := by
  apply eq_of_perm_sorted key
  · exact ((emitOrder_perm key l₁).trans hp).trans (emitOrder_perm key l₂).symm
  · exact emitOrder_sorted key l₁
  · exact emitOrder_sorted key l₂
  · intro a ha b hb
    exact hinj a ((emitOrder_perm key l₁).subset ha) b ((emitOrder_perm key l₁).subset hb)

/-- **permutation_invariant_iff.** For a set (a duplicate-free list) the emitted order is the same for every iteration
order *iff* the sort key is injective on the elements. -/
theorem permutation_invariant_iff {α : Type} (key : α → Nat) (l : List α) (hn : l.Nodup) :
    (∀ l', l'.Perm l → emitOrder key l' = emitOrder key l) ↔ (∀ a ∈ l, ∀ b ∈ l, key a = key b → a = b) := by
  constructor
  · intro h a ha b hb hk
    apply Classical.byContradiction
    intro hab
    have hrev := h l.reverse (List.reverse_perm l)
    have hf := congrArg (List.filter (fun x => key x == key a)) hrev
    rw [filter_emitOrder, filter_emitOrder, List.filter_reverse] at hf
    refine reverse_ne_of_two (l.filter (fun x => key x == key a)) (hn.filter _) a b ?_ ?_ hab hf
    · exact List.mem_filter.mpr ⟨ha, by simp⟩
    · exact List.mem_filter.mpr ⟨hb, by simp [hk]⟩
  · intro hinj l' hp
    exact permutation_invariant key l' l hp (fun a ha b hb => hinj a (hp.subset ha) b (hp.subset hb))

/-- operator codes: `sorted(set((op.type, custom_code, version) …))` sorts the elements themselves (here: an injective
numbering of the triples), so the emitted order never depends on the iteration order -/
theorem operator_codes_order_invariant (l₁ l₂ : List Nat) (hp : l₁.Perm l₂) : emitOrder id l₁ = emitOrder id l₂ :=
  permutation_invariant id l₁ l₂ hp (fun _ _ _ _ h => h)

/-- tensors: `sorted((tens.name, idx, tens) …)`: whatever the iteration order, invariant when the names are unique -/
theorem tensor_order_invariant_of_unique_names {τ : Type} (name : τ → Nat) (l₁ l₂ : List τ) (hp : l₁.Perm l₂)
    (huniq : ∀ a ∈ l₁, ∀ b ∈ l₁, name a = name b → a = b) : emitOrder name l₁ = emitOrder name l₂ :=
  permutation_invariant name l₁ l₂ hp huniq

/-- … and not otherwise: two tensors (name, depth) both called `7` come out in the order in which the collection was
iterated. This is why the collection must not be a `set` of `id()`-hashed objects (was finding
`writer-tensor-order:duplicate-tensor-names-tie-broken-by-set-iteration`, PENDING-4: the writer now fills an insertion-ordered
`dict` in graph order, see `writer_tensors_in_graph_order`, so the iterated order `l` is a function of the model). -/
theorem tensor_order_duplicate_names_witness :
    emitOrder Prod.fst [((7 : Nat), (16 : Nat)), (7, 8), (3, 1)] ≠ emitOrder Prod.fst [(7, 8), (7, 16), (3, 1)] ∧
    [((7 : Nat), (16 : Nat)), (7, 8), (3, 1)].Perm [(7, 8), (7, 16), (3, 1)] := by
  constructor
  · decide
  · exact List.Perm.swap ..

example : emitOrder Prod.fst [((7 : Nat), (16 : Nat)), (5, 8), (3, 1)] = [(3, 1), (5, 8), (7, 16)] := by decide

/-! ## Facts about the source, re-checked on every run against the regenerated table `Gen/Caches.lean` -/

/-- every process-wide store found in `ethosu/vela/*.py` (containers created empty at module or class level, functions
under `lru_cache`) is one the model accounts for — a new cache breaks this obligation -/
theorem stores_all_modelled : Gen.Caches.processStores.all (fun s => modelledStores.contains s) = true := by decide

/-- … and the model does not talk about stores that are gone -/
theorem modelled_stores_exist : modelledStores.all (fun s => Gen.Caches.processStores.contains s) = true := by decide

/-- the key of the compressed-weight cache has exactly the fields the model's key has (no accelerator, no weight shape,
no operator type: harmless across compilations now that the cache is emptied before each one) -/
theorem weight_key_fields_as_modelled : Gen.Caches.wccFields = weightKeyFields := by decide

/-- what is reset before a compilation (`process` for `main`, the top of `compiler_driver` for every entry point) and what
`convert` / `convert_bytes` reset afterwards is what `prepare` / `cleanup` reset -/
theorem entry_cleanup_as_modelled :
    Gen.Caches.prepareMain = prepareNames .main ∧ Gen.Caches.prepareConvert = prepareNames .convert ∧
    Gen.Caches.prepareConvertBytes = prepareNames .convertBytes ∧ Gen.Caches.driverPrepare = driverPrepareNames ∧
    Gen.Caches.cleanupMain = cleanupNames .main ∧ Gen.Caches.cleanupConvert = cleanupNames .convert ∧
    Gen.Caches.cleanupConvertBytes = cleanupNames .convertBytes := by decide

/-- the writer collects the tensors of a subgraph in an insertion-ordered `dict` (graph order), not in a `set` -/
theorem writer_tensors_in_graph_order : Gen.Caches.writerTensorCollection = ["dict.fromkeys(sg.original_inputs)"] := by decide

/-- the greedy allocator builds no `set`: it sorts the list of live ranges with their creation index as tie-break
(was finding `greedy-allocation-order:equal-live-ranges-tie-broken-by-set-iteration`, PENDING-3) -/
theorem greedy_sorts_a_sequence : Gen.Caches.greedySetUses = [] := by decide

/-- the options `convert` and `convert_bytes` hard-code are `main`'s defaults: the three entry points are comparable -/
theorem entry_points_comparable :
    Gen.Caches.convertHardcoded = Gen.Caches.mainDefaults ∧ Gen.Caches.convertBytesHardcoded = Gen.Caches.mainDefaults ∧
    Gen.Caches.mainDefaults.length = 4 := by decide

/-- **hash_only_as_key.** The builtin `hash()` is called in two places: `DataType.__hash__` (a tuple of ints: not
affected by `PYTHONHASHSEED`) and `encode_weight_and_scale_tensor`, where `hash(str(depth_offsets))` becomes the
`ofm_depth_step` field of the cache key — an atom that programs of the model can only compare (`Prog` has no way to
inspect a key), so a different seed renames it consistently within a process. -/
theorem hash_only_as_key :
    Gen.Caches.hashSites = [("data_type", "DataType.__hash__"), ("weight_compressor", "encode_weight_and_scale_tensor")] ∧
    "ofm_depth_step" ∈ Gen.Caches.wccFields := by decide

/-- **hash_only_as_key, in the model.** Renumbering the literal atoms of every key (the `hash(str(depth_offsets))` field
among them) with any injective function changes no output, after any history and through any entry point: a
compilation only compares keys. Another `PYTHONHASHSEED` is such a renumbering, up to hash collisions (2⁻⁶⁴ per pair,
outside the model). -/
theorem key_literals_only_compared {ρ ω : Type} (f : Nat → Nat) (hf : ∀ a b, f a = f b → a = b) (prog : ρ → Prog ω)
    (h : List (Entry × ρ)) (e : Entry) (rq : ρ) :
    (compile (fun r => (prog r).mapLit f) e (after (fun r => (prog r).mapLit f) h init) rq).1 =
      (compile prog e (after prog h init) rq).1 := by
  have h1 := after_mapLit hf prog h init
  have hinit : mapState f init = init := rfl
  rw [hinit] at h1
  rw [h1, compile_mapLit hf]

example : (compile (fun r => (convProg r).mapLit (fun n => 2 * n + 3)) .main init (1, 5)).1 = some [501, 1005, 1005] := by decide

/-- the only user of `random` is the hill-climb allocator, and `allocate` re-seeds it with a constant at every call -/
theorem hillclimb_random_is_seeded :
    Gen.Caches.randomSites = [("hillclimb_allocation", "HillClimbAllocator.attempt_bottleneck_fix")] ∧
    Gen.Caches.seedSites = [("hillclimb_allocation", "HillClimbAllocator.allocate", "1")] := by decide

/-- the writer sorts exactly twice, with the keys `emitOrder` is instantiated with above -/
theorem writer_sorts_as_modelled :
    Gen.Caches.writerSorts =
      [ "sorted(set((op.type, op.attrs.get(\"custom_code\", \"\"), op.version) for op in all_ops))"
      , "sorted((tens.name, idx, tens) for idx, tens in enumerate(tensor_set))" ] := by decide

/-! ## The caller's buffer is not modified (round 6) -/

/-- the executable judge of the buffer clause decides it -/
theorem inputKept_iff (l : List BufObs) : inputKept l = true ↔ InputKept l := by
  unfold inputKept InputKept BufObs.kept
  simp only [List.all_eq_true, Bool.and_eq_true, beq_iff_eq]

/-- one modified buffer anywhere is enough to reject -/
theorem inputKept_false_of_modified (l : List BufObs) (o : BufObs) (ho : o ∈ l) (hm : ¬ o.kept) : inputKept l = false := by
  cases h : inputKept l with
  | false => rfl
  | true => exact absurd ((inputKept_iff l).mp h o ho) hm

/-- a rejected list names a call that did modify its buffer -/
theorem firstModified_spec (l : List BufObs) (k : Nat) (h : firstModified l = some k) :
    ∃ o, l[k]? = some o ∧ ¬ o.kept := by
  unfold firstModified at h
  rw [List.findIdx?_eq_some_iff_getElem] at h
  obtain ⟨hk, hp, _⟩ := h
  refine ⟨l[k], List.getElem?_eq_getElem hk, ?_⟩
  unfold BufObs.kept
  intro hc
  simp [hc.1, hc.2] at hp

/-- compile the buffer the previous call left behind, `n` more times -/
def again {β ω : Type} (run : β → ω × β) : Nat → ω × β → ω × β
  | 0, s => s
  | n + 1, s => again run n (run s.2)

/-- **compiling a caller-owned buffer again.**  An entry point that works on the caller's buffer is a function
`run : buffer → (output, buffer afterwards)`.  If it keeps every buffer (the new clause), then compiling the *same buffer
object* `n` more times gives the output of the first compilation every time and the buffer still holds the original
model: the history "A; A; …; A on one caller-owned buffer" is the same request each time, so the determinism Spec
(`Deterministic`) asks for one observation.  For every `run` (no assumption on the compiler beyond the clause) and unbounded `n`. -/
theorem recompile_kept_buffer {β ω : Type} (run : β → ω × β) (hkeep : ∀ b, (run b).2 = b) (b : β) (n : Nat) :
    again run n (run b) = run b := by
  induction n with
  | zero => rfl
  | succ n ih =>
    unfold again
    rw [hkeep, ih]

/-- … and the clause is needed: a compiler that zeroes one field of the model it is handed and whose output depends on that
field (the PAD channel padding of seeded change C14-r6m2: first output pads 8 channels, the buffer then says 0) gives a
different output the second time although each compilation, taken alone, is a function of its request. -/
theorem modified_buffer_breaks_recompile_witness :
    ∃ (run : Nat → Nat × Nat), (∀ b, (run b).1 = b) ∧ (run (run 8).2).1 ≠ (run 8).1 :=
  ⟨fun b => (b, 0), fun _ => rfl, by decide⟩

example : inputKept [⟨1360, "9f2c", 1360, "9f2c"⟩, ⟨1360, "9f2c", 1360, "9f2c"⟩] = true := by decide
example : inputKept [⟨1360, "9f2c", 1360, "9f2c"⟩, ⟨1360, "9f2c", 1360, "51aa"⟩] = false ∧
    firstModified [⟨1360, "9f2c", 1360, "9f2c"⟩, ⟨1360, "9f2c", 1360, "51aa"⟩] = some 1 := by decide
example : again (fun b : Nat => (b * 2, b)) 3 ((fun b : Nat => (b * 2, b)) 21) = (42, 21) :=
  recompile_kept_buffer (fun b => (b * 2, b)) (fun _ => rfl) 21 3

end VelaVerif.Props.C14
