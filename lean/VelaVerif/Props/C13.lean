import VelaVerif.Spec.Outcome
/-!
# C13 — any structurally valid model either compiles or is rejected with a diagnosis

The substance of this property (no pass of a 27 k line Python compiler raises anything but VelaError)
cannot be carried by a model; it is *observed* on every generated (network, option) point and judged
by `Outcome.acceptable`. The theorems pin down that judge.
-/
namespace VelaVerif.Props.C13
open VelaVerif.Outcome

/-- an escaping internal exception or a bare exit is never acceptable, whatever else happened -/
theorem exception_never_acceptable (w p : Bool) : acceptable ⟨.exception, w, p⟩ = false := rfl
theorem sysexit_never_acceptable (c : Int) (w p : Bool) : acceptable ⟨.sysExit c, w, p⟩ = false := rfl

/-- acceptable returns are exactly: status 0 with an output and no error, or non-zero status with a
    printed error and no output -/
theorem acceptable_returned_iff (s : Int) (w p : Bool) :
    acceptable ⟨.returned s, w, p⟩ = true ↔ (s = 0 ∧ w = true ∧ p = false) ∨ (s ≠ 0 ∧ p = true ∧ w = false) := by
  simp [acceptable]
  cases w <;> cases p <;> simp

/-- success status is never reported without an output model -/
theorem zero_status_needs_output (p : Bool) : acceptable ⟨.returned 0, false, p⟩ = false := by
  cases p <;> rfl

example : acceptable ⟨.returned 0, true, false⟩ = true := rfl
example : acceptable ⟨.returned 1, false, true⟩ = true := rfl

end VelaVerif.Props.C13
