import VelaVerif.Lemmas.EmitProg
import VelaVerif.Spec.OpCheck
import VelaVerif.Lemmas.EmitExample
import VelaVerif.Model.Shram
import VelaVerif.Model.Scaling
/-!
# C06 — the register command stream encodes exactly the operations it was given

Property theorems only.  Model: `Model/Emit.lean` (+ `Model/EmitRegs.lean`, `Model/NpuOp.lean`);
specification decoder: `Spec/Decode.lean` (hand-written opcodes `Spec/Isa.lean`); helpers:
`Lemmas/Emit.lean`, `Lemmas/EmitProg.lean`, `Lemmas/EmitIsa.lean`.  The opcode tables, the register
machine selection, the bank counts and the api → register value maps come from the regenerated
`Gen/Regs.lean` / `Gen/EmitTbl.lean`, so every `decide` below is re-checked against the live source.
-/
namespace VelaVerif.Props.C06
open VelaVerif VelaVerif.Emit VelaVerif.EmitLemmas VelaVerif.NpuOp
open VelaVerif.Decode (splitCmds events s16 precBytes Cmd Event RegFile)

/-! ## 1. opcode numbers -/

/-- The live `cmd0` / `cmd1` enums of `ethos_u55_regs.py` are exactly the hand-written ISA tables
    (same names, same numbers, same order): a changed opcode number breaks this proof. -/
theorem opcode_tables_match_spec :
    Gen.Regs.tblCmd0 = Isa.specCmd0 ∧ Gen.Regs.tblCmd1 = Isa.specCmd1 := by decide +kernel

/-- Every register / operation the emitter model names exists in the live tables, its number is the
    ISA constant the decoder listens on, `NPU_SET_*` (cmd0) numbers lie in [0x100, 0x400), cmd1 numbers
    below 0x400, `NPU_OP_*` numbers below 0x100 (so the decoder classifies each command correctly). -/
theorem codes_match_isa :
    (∀ r : Reg0, 256 ≤ r.code ∧ r.code < 1024 ∧ r.code = r.isa ∧ (lookupName Gen.Regs.tblCmd0 r.name).isSome) ∧
    (∀ r : Reg1, r.code < 1024 ∧ r.code = r.isa ∧ (lookupName Gen.Regs.tblCmd1 r.name).isSome) ∧
    (∀ o : OpCode, o.code < 256 ∧ o.code = o.isa ∧ (lookupName Gen.Regs.tblCmd0 o.name).isSome) :=
  ⟨fun r => reg0_table r (reg0_mem_all r), fun r => reg1_table r (reg1_mem_all r), fun o => op_table o (op_mem_all o)⟩

/-- the command-word layout constants of `CmdMode` -/
theorem cmd_mode_matches_spec :
    Gen.Regs.cmdModePayload32 = 2 ^ 14 ∧ Gen.Regs.cmdModeMask = 2 ^ 15 + 2 ^ 14 ∧ Gen.Regs.cmdOpMask = 2 ^ 10 - 1 ∧
    Gen.EmitTbl.cmdModeNoPayload = 0 ∧ Gen.EmitTbl.wordSize = 4 := by decide

/-! ## 2. elision refines "write every register" -/

/-- **Central refinement.**  For every assignment `sel` of commands to the two register machines, and
    every sequence of emitter calls (register writes of either form, waits, operations) with opcodes in
    their proper ranges, starting from fresh single-bank register machines:

    * the emitted words split into commands `kept` without error;
    * the same calls without elision split into exactly one command per call;
    * `kept` is a sub-sequence of those commands (elision only drops, never reorders or alters);
    * the specification decoder produces the **same events** — hence the same register file at every
      operation — from `kept` as from the full stream.

    Induction over the call list with the invariant `EmitLemmas.Inv` (register machines ⊆ decoder register file). -/
theorem elision_refines (sel : Bool → Nat → Bool) (items : List Item) (hv : ∀ it ∈ items, Valid it) :
    ∃ kept, splitCmds (runWords sel (Machines.new 1 1) items) = .ok kept ∧
      splitCmds (fullWords items) = .ok (items.map itemCmd) ∧
      kept.Sublist (items.map itemCmd) ∧
      events kept = events (items.map itemCmd) :=
  ⟨runCmds sel (Machines.new 1 1) items, runWords_split sel items hv _, fullWords_split items hv,
   runCmds_sublist sel items _, go_elide sel items hv _ _ [] (inv_init sel)⟩

example : ∀ it ∈ [Item.set0 0x10F 1, .set1 0 4096 0, .set0 0x10F 1, .doOp 2 0, .set0 0x10F 1, .wait 0x12 0 1, .doOp 0 0xFFFF], Valid it := by
  decide

/-- The DMA / non-DMA split is a function of the command alone, so it partitions the key space: a key
    is looked up and stored in one machine only, and a write through one machine never changes what the
    other remembers. -/
theorem split_partitions_keys (sel : Bool → Nat → Bool) (ms : Machines) (k k' : Key) (v : Val) :
    lookup sel (ms.setReg (sel k.c1 k.code) k v).2 k' = if k = k' then some v else lookup sel ms k' :=
  lookup_setReg sel ms k k' v

/-- `switch_bank` with one bank is the identity. -/
theorem switch_bank_one_identity (m : RegMap) : (RegMachine.mk m []).switchBank = RegMachine.mk m [] := rfl

/-- The live emitter uses one bank per register machine (`n_banks = 1`), i.e. the model's generator
    starts from the state `elision_refines` speaks about. -/
theorem machines_single_bank : machinesGen = Machines.new 1 1 := rfl

/-- register file values at each operation of a decoded command list (a projection of the events) -/
def seenAt (reg0 : Nat) (cs : List Cmd) : List (Option Nat) :=
  match events cs with
  | .ok evs => evs.filterMap fun e => match e with | Event.op _ _ regs => some (regs.r0.getD reg0 none) | _ => none
  | .error _ => []

/-- With **two** banks the refinement is false: `switch_bank` after every operation makes the third
    write of IFM_REGION := 1 compare against the bank of the *first* operation and elide it, although the
    hardware register holds 2.  (The decoder sees region 2 at the third operation, the full stream says 1.) -/
theorem elision_two_banks_witness :
    let prog := [Item.set0 0x10F 1, .doOp 2 0, .set0 0x10F 2, .doOp 2 0, .set0 0x10F 1, .doOp 2 0]
    seenAt 0x10F (runCmds (fun _ _ => false) (Machines.new 2 2) prog) = [some 1, some 2, some 2] ∧
    seenAt 0x10F (prog.map itemCmd) = [some 1, some 2, some 1] ∧
    seenAt 0x10F (runCmds (fun _ _ => false) (Machines.new 1 1) prog) = [some 1, some 2, some 1] := by
  decide +kernel

/-- Every call the model's generator makes has a valid opcode — `elision_refines` applies to it. -/
theorem program_items_valid (arch : Arch) (ops : List Op) (items : List Item) (h : program arch ops = .ok items) :
    ∀ it ∈ items, Valid it := program_valid arch ops items h

/-- Refinement for the model of `generate_command_stream`: for every architecture and every operation
    list the generator accepts, decoding the emitted words gives the events of the un-elided program. -/
theorem generate_refines (arch : Arch) (ops : List Op) (ws : List Nat) (h : generate arch ops = .ok ws) :
    ∃ items, program arch ops = .ok items ∧
      (splitCmds ws >>= events) = events (items.map itemCmd) ∧
      splitCmds (fullWords items) = .ok (items.map itemCmd) := by
  unfold generate at h
  cases hp : program arch ops with
  | error e => simp [hp, bind, Except.bind] at h
  | ok items =>
    simp only [hp, bind, Except.bind] at h
    split at h
    · cases h
    · injection h with h
      subst h
      have hv := program_valid arch ops items hp
      obtain ⟨kept, h1, h2, _, h4⟩ := elision_refines selGen items hv
      refine ⟨items, rfl, ?_, h2⟩
      rw [machines_single_bank, h1]
      exact h4

/-- Non-vacuity, end to end (kernel-evaluated): for the concrete three-operation list of `Lemmas/EmitExample.lean`
    the model generator succeeds and returns exactly the words the real generator returned, some register writes
    are elided, and the specification decoder + comparator (`OpCheck.judge`) accepts the stream: every field equal,
    every field fits, aligned, one final stop. -/
theorem example_stream_encodes :
    EmitExample.genIs (generate EmitExample.exArch EmitExample.exOps) EmitExample.exWords = true ∧
    EmitExample.elidedCount ≥ 20 ∧
    EmitExample.okVerdict (OpCheck.judge EmitExample.exRow EmitExample.exArch true EmitExample.exOps EmitExample.exWords) = true := by
  decide +kernel

/-! ## 3. fields fit their registers exactly on the stated ranges -/

/-- 16-bit parameter, unsigned reading: exact iff the value is in [0, 2^16). -/
theorem field_roundtrip_param16 (v : Int) : ((mask16 v : Nat) : Int) = v ↔ 0 ≤ v ∧ v < 65536 := by
  unfold mask16; omega

/-- 16-bit parameter, two's complement reading (zero points, activation min / max, signed scalars):
    exact iff the value is in [-2^15, 2^15). -/
theorem field_roundtrip_signed16 (v : Int) : s16 (mask16 v) = v ↔ -32768 ≤ v ∧ v < 32768 := by
  unfold s16 mask16
  split <;> omega

/-- 32-bit payload: exact iff the value is in [0, 2^32). -/
theorem field_roundtrip_payload32 (v : Int) : ((mask32 v : Nat) : Int) = v ↔ 0 ≤ v ∧ v < 4294967296 := by
  unfold mask32; omega

/-- **What the emitter does with a payload outside the field** (every integer): the register holds the residue modulo 2^32 —
    the value `OpCheck.legaliseScale` assigns to an unrepresentable scale, so "the stream encodes the legalised operation" is
    exactly what masking produces. -/
theorem scale_mask_is_residue (v : Int) : ((mask32 v : Nat) : Int) = v % 4294967296 := by
  unfold mask32; omega

/-- a negative scale never reads back (corollary of `field_roundtrip_payload32`) -/
theorem negative_scale_never_roundtrips (v : Int) (h : v < 0) : ((mask32 v : Nat) : Int) ≠ v := by
  intro e
  have := (field_roundtrip_payload32 v).mp e
  omega

/-- Witness (compiled network `lut` 0/186: int16 LEAKY_RELU alpha -2.0, ethos-u55-128): the OFM scale -1177933312 that
    `high_level_command_to_npu_op` derives from the alpha constant's scale -2.0 is written as 3117033984; `legaliseScale` names
    that value, and the operation `fits` check rejects the given one. -/
theorem negative_ofm_scale_witness :
    mask32 (-1177933312) = 3117033984 ∧
    OpCheck.legaliseScale (some (-1177933312, 30)) = some (3117033984, 30) ∧
    OpCheck.scaleOutside "ofmScale" (some (-1177933312, 30)) = ["ofmScale=-1177933312"] ∧
    OpCheck.scaleOutside "ofmScale" (OpCheck.legaliseScale (some (-1177933312, 30))) = [] := by decide

/-- **Why repair C06-20 changes nothing but the multiplier** (model of `scaling.quantise_scale`, `Model/Scaling.lean`, every
    finite value): the pair computed for a negated scale is the pair of its magnitude with the multiplier negated — in particular the
    *shift* is the same.  The repair gives the alpha constant of the int32 MUL the scale |alpha| instead of alpha: the OFM_SCALE shift
    (the only part an int32 MUL uses) is unchanged, the multiplier becomes one the register can hold. -/
theorem quantise_scale_negated (m : Nat) (e : Int) :
    Scaling.quantiseScale (.fin true m e) =
      (match Scaling.quantiseScale (.fin false m e) with
       | .ok (s, sh) => .ok (-s, sh)
       | .error err => .error err) := by
  unfold Scaling.quantiseScale
  by_cases h : m = 0 ∨ m ≥ 2 ^ 53 <;> simp [h]

/-- non-vacuity: alpha = -2.0 (`m = 1, e = 1`) gives (-2^30, 29), |alpha| gives (2^30, 29) -/
example : Scaling.quantiseScale (.fin true 1 1) = .ok (-1073741824, 29) ∧
    Scaling.quantiseScale (.fin false 1 1) = .ok (1073741824, 29) := by decide

/-- legalising is the identity on exactly the legal scales, and its result is always legal -/
theorem legaliseScale_legal (s sh : Int) :
    OpCheck.scaleOutside "x" (OpCheck.legaliseScale (some (s, sh))) = [] ∧
    (OpCheck.legaliseScale (some (s, sh)) = some (s, sh) ↔ 0 ≤ s ∧ s < 4294967296) := by
  constructor
  · simp only [OpCheck.legaliseScale, OpCheck.scaleOutside]
    have h1 : 0 ≤ s % 4294967296 := by omega
    have h2 : s % 4294967296 < 4294967296 := by omega
    simp [h1, h2]
  · simp only [OpCheck.legaliseScale, Option.some.injEq, Prod.mk.injEq, and_true]
    omega

/-- what the decoder stores for `cmd1_with_address(cmd, a)`: payload + 2^32 · parameter -/
def decodedAddress (a : Int) : Nat := mask32 a + 2 ^ 32 * mask16 (a / 4294967296)

/-- Addresses (payload + high bits in the parameter): exact iff the address is in [0, 2^48) — this covers
    the 40-bit address space of Ethos-U65 and the 32-bit space of Ethos-U55. -/
theorem field_roundtrip_address (a : Int) : ((decodedAddress a : Nat) : Int) = a ↔ 0 ≤ a ∧ a < 2 ^ 48 := by
  unfold decodedAddress mask32 mask16; omega

/-- `RegWrite.addr` is that encoding -/
theorem address_write_decodes (r : Reg1) (a : Int) :
    itemCmd (RegWrite.addr r a).toItem = .c1 r.code (mask16 (a / 4294967296)) (mask32 a) := rfl

/-- `_M1` registers: a dimension d is written as d − 1 and read back as register + 1: exact iff 1 ≤ d ≤ 65536. -/
theorem field_roundtrip_dim_m1 (d : Int) : ((mask16 (d - 1) + 1 : Nat) : Int) = d ↔ 1 ≤ d ∧ d ≤ 65536 := by
  unfold mask16; omega

/-- Values outside the ranges are silently truncated by `& 0xFFFF` / `& 0xFFFFFFFF` (no error is raised):
    a height of 65537 is emitted as height 1, a zero point of 40000 reads back as −25536, a weight length of
    2^32 + 16 as 16, and a 49-bit address loses its top bit. -/
theorem truncation_witness :
    mask16 (65537 - 1) + 1 = 1 ∧ s16 (mask16 40000) = -25536 ∧ mask32 (2 ^ 32 + 16) = 16 ∧
    decodedAddress (2 ^ 48 + 4096) = 4096 := by decide

/-- the decoder's reading of `NPU_SET_KERNEL_STRIDE` (formulas of `Decode.decodeBlock`) -/
def decStrideX (ks : Nat) : Nat := 1 + ks % 2 + 2 * (ks / 64 % 8)
def decStrideY (ks : Nat) : Nat := 1 + ks / 2 % 2 + 2 * (ks / 512 % 8)
def decDilationX (ks : Nat) : Nat := 1 + ks / 8 % 2
def decDilationY (ks : Nat) : Nat := 1 + ks / 16 % 2
def decPartKernel (ks : Nat) : Bool := ks / 4 % 2 = 1

/-- Kernel-stride bit scatter: every stride 1…16 in each direction (the hardware-legal 1…3 included),
    dilation 1…2 and both traversal orders round-trip, and the word fits 16 bits. -/
theorem field_roundtrip_kernel_stride :
    ∀ sx ∈ List.range' 1 16, ∀ sy ∈ List.range' 1 16, ∀ dx ∈ [1, 2], ∀ dy ∈ [1, 2], ∀ pk ∈ [false, true],
      let ks := kernelStrideWord sx sy dx dy pk
      ks < 65536 ∧ decStrideX ks = sx ∧ decStrideY ks = sy ∧ decDilationX ks = dx ∧ decDilationY ks = dy ∧
        decPartKernel ks = pk := by decide +kernel

/-- Outside that range the scatter is *not* masked: an x-stride of 17 spills into the y-stride extension
    bits (decoded as stride 1 × 3), and a dilation of 3 sets the bit of the other direction. -/
theorem kernel_stride_witness :
    (decStrideX (kernelStrideWord 17 1 1 1 false), decStrideY (kernelStrideWord 17 1 1 1 false)) = (1, 3) ∧
    (decDilationX (kernelStrideWord 1 1 3 1 false), decDilationY (kernelStrideWord 1 1 3 1 false)) = (1, 2) := by decide

/-- a feature map that only carries what the precision word depends on -/
def fmOf (bits : Nat) (signed nhcwb16 : Bool) : NpuOp.FM :=
  { dtype := ⟨bits, signed⟩, region := 0, shape := ⟨1, 1, 1⟩, height0 := 1, height1 := 1, width0 := 1,
    addresses := [0, 0, 0, 0], hasQuant := false, zeroPoint := 0, nhcwb16 := nhcwb16, strides := none, scaled := false }

/-- the single 16-bit word of a one-register program (`none` if the program fails or the value does not fit) -/
def wordOf : Except Err (List RegWrite) → Option Nat
  | .ok [.w0 _ p] => if 0 ≤ p ∧ p < 65536 then some p.toNat else none
  | _ => none

/-- the decoder's element size (`Decode.precBytes`) of a 2-bit precision field equals `bytes` -/
def bytesAre (field bytes : Nat) : Bool :=
  match precBytes field with
  | .ok b => b == bytes
  | .error _ => false

/-- IFM / IFM2 precision word: for every api data type, both layouts and every operand-to-scale value the
    word fits 16 bits and the decoder reads back signedness, element size, layout and the scale selector. -/
theorem field_roundtrip_ifm_precision :
    ∀ dt ∈ Gen.EmitTbl.apiDataTypes, ∀ lay ∈ [false, true], ∀ ots ∈ [0, 1, 2],
      (wordOf (genIfmPrecision (fmOf dt.2.1 dt.2.2 lay) ots .ifmPrecision)).any (fun p =>
        decide (p % 2 = 1) == dt.2.2 && bytesAre (p / 4 % 4) (dt.2.1 / 8) && decide (p / 64 % 2 = 1) == lay &&
        p / 256 % 4 == ots) = true := by decide +kernel

/-- the OFM precision word of a block operation with the given OFM type / layout / rounding -/
def ofmPrecWord (bits : Nat) (signed nhcwb16 glob : Bool) (rounding : Nat) : Except Err (List RegWrite) :=
  genOfmPrecision { (default : NpuOp.BlockOp) with ofm := fmOf bits signed nhcwb16, rounding := rounding } glob

/-- OFM precision word: signedness, element size, layout, global-scale flag and rounding mode read back. -/
theorem field_roundtrip_ofm_precision :
    ∀ dt ∈ Gen.EmitTbl.apiDataTypes, ∀ lay ∈ [false, true], ∀ g ∈ [false, true], ∀ rm ∈ [0, 1, 2],
      (wordOf (ofmPrecWord dt.2.1 dt.2.2 lay g rm)).any (fun p =>
        decide (p % 2 = 1) == dt.2.2 && bytesAre (p / 2 % 4) (dt.2.1 / 8) && decide (p / 64 % 2 = 1) == lay &&
        decide (p / 256 % 2 = 1) == g && p / 16384 % 4 == rm) = true := by decide +kernel

/-- Activation clamp: `generate_activation` clamps the maximum from above (int16 max, OFM type max) and the
    minimum from below (int16 min, OFM type min); the written values read back exactly whenever the request is
    not beyond the *other* end of the int16 range (a maximum ≥ −32768, a minimum ≤ 32767). -/
theorem field_roundtrip_activation_clamp (q dmin dmax : Int) (hd : dmin ≤ 0) (hmax : 0 ≤ dmax) :
    (-32768 ≤ q → s16 (mask16 (min (min q 32767) dmax)) = min (min q 32767) dmax) ∧
    (q ≤ 32767 → s16 (mask16 (max (max q (-32768)) dmin)) = max (max q (-32768)) dmin) := by
  constructor
  · intro h; rw [field_roundtrip_signed16]; omega
  · intro h; rw [field_roundtrip_signed16]; omega

/-- The lower clamp has no upper guard (and vice versa): a requested minimum above 32767 (possible for a 32-bit OFM) is truncated. -/
theorem activation_min_witness :
    genActivation (some ⟨0, some 40000, none, 0⟩) (fmOf 32 true false) =
      .ok [.w0 .activation 0, .w0 .activationMin 40000, .w0 .activationMax 32767] ∧
    s16 (mask16 40000) = -25536 := ⟨rfl, by decide⟩

/-! ## 3b. a whole operation: DMA -/

/-- **Operation-level round trip for DMA.**  For every architecture and every DMA operation the generator
    accepts whose fields fit (regions 16 bit, addresses and length 48 bit), and for *any* prior register file:
    after the decoder has applied the register program of the operation (`go_writes`: that is what
    `Decode.events` does with the un-elided commands; `elision_refines` transfers it to the elided stream), the
    decoded DMA operation is exactly the one that was given. -/
theorem op_roundtrip_dma (arch : NpuOp.Arch) (d : NpuOp.DmaOp) (ws : List RegWrite) (h : dmaProgram arch d = .ok ws)
    (regs : RegFile) (hs : Sized regs) (param : Nat)
    (hsr : 0 ≤ d.src.region ∧ d.src.region < 65536) (hdr : 0 ≤ d.dst.region ∧ d.dst.region < 65536)
    (hsa : 0 ≤ d.src.address ∧ d.src.address < 2 ^ 48) (hda : 0 ≤ d.dst.address ∧ d.dst.address < 2 ^ 48)
    (hl : 0 ≤ d.src.length ∧ d.src.length < 2 ^ 48) :
    Decode.decodeDma param (applyWrites regs ws) =
      .ok ⟨⟨d.src.region.toNat, d.src.address.toNat, d.src.length.toNat⟩,
           ⟨d.dst.region.toNat, d.dst.address.toNat, d.src.length.toNat⟩, param⟩ := by
  unfold dmaProgram at h
  cases hc : checkDmaOp arch d with
  | error e => simp [hc, bind, Except.bind] at h
  | ok u =>
    simp only [hc, bind, Except.bind, Except.ok.injEq] at h
    subst h
    obtain ⟨c1, c2, c3, c4, c5⟩ := dma_codes
    simp only [applyWrites, RegWrite.addr, c1, c2, c3, c4, c5]
    have m1 : mask16 d.src.region = d.src.region.toNat := by unfold mask16; omega
    have m2 : mask16 d.dst.region = d.dst.region.toNat := by unfold mask16; omega
    rw [addr_fits _ hsa.1 hsa.2, addr_fits _ hda.1 hda.2, addr_fits _ hl.1 hl.2, m1, m2]
    have k1 : (Isa.DMA0_SRC_REGION) < 1024 := by decide
    have k2 : (Isa.DMA0_DST_REGION) < 1024 := by decide
    have k3 : (Isa.DMA0_SRC) < 1024 := by decide
    have k4 : (Isa.DMA0_DST) < 1024 := by decide
    have k5 : (Isa.DMA0_LEN) < 1024 := by decide
    have s1 := sized_regSet regs ⟨false, Isa.DMA0_SRC_REGION⟩ d.src.region.toNat hs
    have s2 := sized_regSet _ ⟨true, Isa.DMA0_SRC⟩ d.src.address.toNat s1
    have s3 := sized_regSet _ ⟨false, Isa.DMA0_DST_REGION⟩ d.dst.region.toNat s2
    have s4 := sized_regSet _ ⟨true, Isa.DMA0_DST⟩ d.dst.address.toNat s3
    have ne12 : Isa.DMA0_SRC_REGION ≠ Isa.DMA0_DST_REGION := by decide
    have ne34 : Isa.DMA0_SRC ≠ Isa.DMA0_DST := by decide
    have ne35 : Isa.DMA0_SRC ≠ Isa.DMA0_LEN := by decide
    have ne45 : Isa.DMA0_DST ≠ Isa.DMA0_LEN := by decide
    unfold Decode.decodeDma
    rw [get1_of_regVal _ _ d.src.length.toNat _ (by rw [regVal_regSet' _ _ _ _ s4 k5]; simp)]
    rw [get0_of_regVal _ _ d.src.region.toNat _ (by
      rw [regVal_regSet' _ _ _ _ s4 k5, regVal_regSet' _ _ _ _ s3 k4, regVal_regSet' _ _ _ _ s2 k2,
        regVal_regSet' _ _ _ _ s1 k3, regVal_regSet' _ _ _ _ hs k1]; simp [Ne.symm ne12])]
    rw [get1_of_regVal _ _ d.src.address.toNat _ (by
      rw [regVal_regSet' _ _ _ _ s4 k5, regVal_regSet' _ _ _ _ s3 k4, regVal_regSet' _ _ _ _ s2 k2,
        regVal_regSet' _ _ _ _ s1 k3]; simp [Ne.symm ne34, Ne.symm ne35])]
    rw [get0_of_regVal _ _ d.dst.region.toNat _ (by
      rw [regVal_regSet' _ _ _ _ s4 k5, regVal_regSet' _ _ _ _ s3 k4, regVal_regSet' _ _ _ _ s2 k2]; simp)]
    rw [get1_of_regVal _ _ d.dst.address.toNat _ (by
      rw [regVal_regSet' _ _ _ _ s4 k5, regVal_regSet' _ _ _ _ s3 k4]; simp [Ne.symm ne45])]
    rfl


/-! ## 3c. accumulator format the operation requires -/

/-- the register encoding the comparator expects (`OpCheck.specAccFormat`) is the live `acc_format` enum -/
theorem acc_format_encoding_matches_spec :
    lookupName Gen.Regs.tblAccFormat "INT_32BIT" = some (OpCheck.specAccFormat 32).toNat ∧
    lookupName Gen.Regs.tblAccFormat "INT_40BIT" = some (OpCheck.specAccFormat 40).toNat := by decide

/-- The hand-written requirement of the comparator ("16-bit inputs that are rescaled need 40-bit accumulators, except
    maximum / average pooling") and the allocator model of C15 (`Shram.accType`, tied to `_acc_type` by C15's
    correspondence) select the same accumulator width for every block type, IFM width and scaling flag — so a change of
    `_acc_type` is visible both as a C15 correspondence break and as an `accFormat.required` mismatch on real streams. -/
theorem required_acc_matches_allocator_model (bt : Shram.BlockType) (ifmBits : Nat) (scaled : Bool) :
    Shram.accBitsOf (Shram.accType bt ifmBits scaled) = OpCheck.requiredAccBitsCore (decide (bt = .pooling)) ifmBits scaled := by
  unfold Shram.accType OpCheck.requiredAccBitsCore
  by_cases h1 : ifmBits = 16 <;> by_cases h2 : bt = .pooling <;> cases scaled <;> simp [h1, h2, Shram.accBitsOf] <;> decide

/-! ## 4. alignment: what passes the generator's checks is aligned -/

theorem checkAllAligned_ok (req : Int) (l : List Int) (h : checkAllAligned req l = .ok ()) : ∀ a ∈ l, a % req = 0 := by
  induction l with
  | nil => simp
  | cons a rest ih =>
    unfold checkAllAligned checkAlignment at h
    by_cases ha : a % req ≠ 0
    · simp [ha] at h
    · simp only [ha, if_false] at h
      intro x hx
      rcases List.mem_cons.mp hx with rfl | hx
      · simpa using ha
      · exact ih h x hx

/-- Feature-map base addresses: accepted ⇒ all four tile bases are multiples of the NHCWB16 quantum
    (16 on every accelerator, `nhcwb16_quantum_is_16`) resp. of the element size for NHWC. -/
theorem alignment_checked_addresses (arch : Arch) (regs : List Reg1) (fm : NpuOp.FM) (ws : List RegWrite)
    (h : genAddresses arch regs fm = .ok ws) :
    ∀ a ∈ fm.addresses, a % (if fm.nhcwb16 then arch.nhcwb16Align else fm.dtype.bytes) = 0 := by
  unfold genAddresses at h
  cases hc : checkAllAligned (if fm.nhcwb16 then arch.nhcwb16Align else fm.dtype.bytes) fm.addresses with
  | error e => simp [hc, bind, Except.bind] at h
  | ok u => exact checkAllAligned_ok _ _ hc

theorem nhcwb16_quantum_is_16 : Gen.EmitTbl.nhcwb16Quantum = [16, 16, 16, 16, 16, 16] := by decide

/-- Strides: accepted ⇒ NHCWB16 has 16-byte multiples for STRIDE_C and STRIDE_Y, NHWC has element-size
    multiples for STRIDE_Y and STRIDE_X. -/
theorem alignment_checked_strides (fm : NpuOp.FM) (c y x : Reg1) (ws : List RegWrite) (h : genStrides fm c y x = .ok ws) :
    let s := getStrides fm
    if fm.nhcwb16 then s.depth % 16 = 0 ∧ s.height % 16 = 0 else s.height % fm.dtype.bytes = 0 ∧ s.width % fm.dtype.bytes = 0 := by
  unfold genStrides checkStrides checkSize at h
  simp only
  cases hl : fm.nhcwb16
  · simp only [hl, Bool.false_eq_true, if_false, bind, Except.bind] at h ⊢
    by_cases h1 : (getStrides fm).height % fm.dtype.bytes ≠ 0
    · simp [h1] at h
    · by_cases h2 : (getStrides fm).width % fm.dtype.bytes ≠ 0
      · simp [h1, h2] at h
      · exact ⟨by simpa using h1, by simpa using h2⟩
  · simp only [hl, if_true, bind, Except.bind] at h ⊢
    by_cases h1 : (getStrides fm).depth % 16 ≠ 0
    · simp [h1] at h
    · by_cases h2 : (getStrides fm).height % 16 ≠ 0
      · simp [h1, h2] at h
      · exact ⟨by simpa using h1, by simpa using h2⟩

/-- DMA: accepted ⇒ Ethos-U55: source, destination and length are 16-byte multiples; Ethos-U65: the
    on-chip side is (and the length when the destination is on chip). -/
theorem alignment_checked_dma (arch : Arch) (d : NpuOp.DmaOp) (ws : List RegWrite) (h : dmaProgram arch d = .ok ws) :
    if arch.isU65 then
      (d.src.region = Gen.Regs.basePtrIndexMem2Mem → d.src.address % 16 = 0) ∧
      (d.dst.region = Gen.Regs.basePtrIndexMem2Mem → d.dst.address % 16 = 0 ∧ d.src.length % 16 = 0)
    else d.src.address % 16 = 0 ∧ d.dst.address % 16 = 0 ∧ d.src.length % 16 = 0 := by
  unfold dmaProgram at h
  cases hc : checkDmaOp arch d with
  | error e => simp [hc, bind, Except.bind] at h
  | ok u =>
    unfold checkDmaOp checkAlignment checkSize at hc
    cases hu : arch.isU65
    · simp only [hu, Bool.false_eq_true, if_false, bind, Except.bind] at hc ⊢
      by_cases h1 : d.src.address % 16 ≠ 0
      · simp [h1] at hc
      · by_cases h2 : d.dst.address % 16 ≠ 0
        · simp [h1, h2] at hc
        · by_cases h3 : d.src.length % 16 ≠ 0
          · simp [h1, h2, h3] at hc
          · exact ⟨by simpa using h1, by simpa using h2, by simpa using h3⟩
    · simp only [hu, if_true, bind, Except.bind] at hc ⊢
      constructor
      · intro hr
        by_cases h1 : d.src.address % 16 ≠ 0
        · simp [hr, h1] at hc
        · simpa using h1
      · intro hr
        by_cases h0 : d.src.region = Gen.Regs.basePtrIndexMem2Mem
        · by_cases h1 : d.src.address % 16 ≠ 0
          · simp [h0, h1] at hc
          · by_cases h2 : d.dst.address % 16 ≠ 0
            · simp [h0, hr, h1, h2] at hc
            · by_cases h3 : d.src.length % 16 ≠ 0
              · simp [h0, hr, h1, h2, h3] at hc
              · exact ⟨by simpa using h2, by simpa using h3⟩
        · by_cases h2 : d.dst.address % 16 ≠ 0
          · simp [h0, hr, h2] at hc
          · by_cases h3 : d.src.length % 16 ≠ 0
            · simp [h0, hr, h2, h3] at hc
            · exact ⟨by simpa using h2, by simpa using h3⟩

/-- Weights (first core): accepted ⇒ base and length are 16-byte multiples. -/
theorem alignment_checked_weights (arch : Arch) (w : NpuOp.AddrRange) (rest : List NpuOp.AddrRange) (ws : List RegWrite)
    (h : genWeights arch (w :: rest) = .ok ws) : w.address % 16 = 0 ∧ w.length % 16 = 0 := by
  unfold genWeights checkAlignment checkSize at h
  simp only [List.getElem?_cons_zero, bind, Except.bind] at h
  by_cases h1 : w.address % 16 ≠ 0
  · simp [h1] at h
  · by_cases h2 : w.length % 16 ≠ 0
    · simp [h1, h2] at h
    · exact ⟨by simpa using h1, by simpa using h2⟩

/-- Full statement wanted: accepted ⇒ scale (bias) base *and* length are 16-byte multiples.
    Only the length is checked by `generate_biases`; the base is not (`alignment_scale_base_witness`). -/
theorem alignment_checked_biases_partial (arch : Arch) (b : NpuOp.AddrRange) (rest : List NpuOp.AddrRange) (ws : List RegWrite)
    (h : genBiases arch (b :: rest) = .ok ws) : b.length % 16 = 0 := by
  unfold genBiases checkSize at h
  simp only [List.getElem?_cons_zero, bind, Except.bind] at h
  by_cases h2 : b.length % 16 ≠ 0
  · simp [h2] at h
  · simpa using h2

/-- An unaligned scale base address is accepted and written as it is. -/
theorem alignment_scale_base_witness :
    genBiases ⟨false, 1, 16⟩ [⟨0, 8, 16⟩] =
      .ok [.w0 .scaleRegion 0, .w1 .scaleBase 8 0, .w1 .scaleLength 16 0] := rfl

/-- Pooling OFM scale: accepted ⇒ the scale lies in [0, 2^32), is written unchanged and reads back exactly; a wider
    scale is rejected, never truncated.  (Before the repair of `generate_ofm_scaling_for_pooling` the 36-bit scale
    45992645995 of a 3×8 average pool was emitted as `mask32 45992645995 = 3042973035`.) -/
theorem pooling_scale_fits (v : Option (Int × Int)) (ws : List RegWrite) (h : poolScaleWrite v = .ok ws) :
    ∃ s sh, v = some (s, sh) ∧ ws = [.w1 .ofmScale s sh] ∧ ((mask32 s : Nat) : Int) = s := by
  unfold poolScaleWrite at h
  cases v with
  | none => simp at h
  | some p =>
    obtain ⟨s, sh⟩ := p
    simp only at h
    by_cases hr : 0 ≤ s ∧ s < 4294967296
    · simp only [hr, and_self, if_true, Except.ok.injEq] at h
      exact ⟨s, sh, rfl, h.symm, (field_roundtrip_payload32 s).mpr hr⟩
    · simp [hr] at h

theorem pooling_scale_rejected : poolScaleWrite (some (45992645995, 36)) = .error .vela ∧ mask32 45992645995 = 3042973035 :=
  ⟨rfl, by decide⟩

/-! ## 5. one stop, waits before the operation they guard -/

/-- **Skeleton of every generated stream.**  For every architecture and accepted operation list, the
    decoder never fails on the emitted words, and what it sees besides register writes is exactly: for
    each operation in order its `KERNEL_WAIT` / `DMA_WAIT` (when required) immediately followed by its
    start command, and finally one `NPU_OP_STOP` with parameter 0xFFFF. -/
theorem stream_skeleton (arch : Arch) (ops : List Op) (ws : List Nat) (h : generate arch ops = .ok ws) :
    ∃ evs sk, (splitCmds ws >>= events) = .ok evs ∧ BodySkel ops sk ∧
      evs.map evSkel = sk ++ [(OpCode.stop.code, 0xFFFF)] := by
  unfold generate at h
  cases hp : program arch ops with
  | error e => simp [hp, bind, Except.bind] at h
  | ok items =>
    simp only [hp, bind, Except.bind] at h
    split at h
    · cases h
    · injection h with h
      subst h
      have hv := program_valid arch ops items hp
      rw [runWords_split selGen items hv]
      obtain ⟨evs, h1, h2⟩ := events_skeleton (runCmds selGen machinesGen items)
      rw [runCmds_skeleton selGen items hv] at h2
      unfold program at hp
      cases hb : bodyItems arch ops with
      | error e => simp [hb] at hp
      | ok body =>
        simp only [hb, Except.ok.injEq] at hp
        subst hp
        refine ⟨evs, body.filterMap itemSkel, h1, bodyItems_skeleton arch ops body hb, ?_⟩
        rw [h2]
        have hpre : (preItems arch).filterMap itemSkel = [] := by
          unfold preItems; split <;> rfl
        simp only [List.filterMap_append, hpre, List.nil_append]
        rfl

/-- the five start commands and the two waits are not STOP -/
theorem start_codes_not_stop :
    OpCode.stop.code = 0 ∧ OpCode.conv.code ≠ 0 ∧ OpCode.depthwise.code ≠ 0 ∧ OpCode.pool.code ≠ 0 ∧
    OpCode.elementwise.code ≠ 0 ∧ OpCode.dmaStart.code ≠ 0 ∧ OpCode.kernelWait.code ≠ 0 ∧ OpCode.dmaWait.code ≠ 0 := by
  decide

theorem bodySkel_no_stop (ops : List Op) (sk : List (Nat × Nat)) (h : BodySkel ops sk) : ∀ e ∈ sk, e.1 ≠ 0 := by
  induction h with
  | nil => simp
  | cons op oc rest sk ho _ ih =>
    intro e he
    rcases List.mem_append.mp he with he | he
    · unfold opSkel at he
      simp only [List.filterMap_append, List.mem_append, List.mem_filterMap] at he
      obtain ⟨c1, c2, c3, c4, c5, c6, c7, c8⟩ := start_codes_not_stop
      rcases he with ⟨it, hit, hs⟩ | ⟨it, hit, hs⟩
      · unfold waitItems at hit
        simp only [List.mem_append] at hit
        rcases hit with hit | hit <;> (split at hit <;> simp at hit; subst hit; simp [itemSkel] at hs; subst hs; assumption)
      · simp only [List.mem_singleton] at hit
        subst hit
        obtain ⟨p, hp | hp | hp | hp | hp⟩ := opCodeItem_start op it ho <;> (subst hp; simp [itemSkel] at hs; subst hs; assumption)
    · exact ih e he

/-- **Exactly one stop, at the end.** -/
theorem one_stop (arch : Arch) (ops : List Op) (ws : List Nat) (h : generate arch ops = .ok ws) :
    ∃ evs, (splitCmds ws >>= events) = .ok evs ∧
      (evs.map evSkel).getLast? = some (Isa.OP_STOP, 0xFFFF) ∧
      ((evs.map evSkel).filter fun e => e.1 == Isa.OP_STOP).length = 1 := by
  obtain ⟨evs, sk, h1, h2, h3⟩ := stream_skeleton arch ops ws h
  have hs : OpCode.stop.code = Isa.OP_STOP := by decide
  refine ⟨evs, h1, ?_, ?_⟩
  · rw [h3, hs]; simp
  · rw [h3, hs]
    have hno := bodySkel_no_stop ops sk h2
    have : sk.filter (fun e => e.1 == Isa.OP_STOP) = [] := by
      apply List.filter_eq_nil_iff.mpr
      intro e he
      have := hno e he
      simpa [Isa.OP_STOP] using this
    rw [List.filter_append, this]
    rfl

/-- **Waits precede the operation they guard**: the non-register commands of one operation are its waits
    (kernel wait first, then DMA wait, each only when the watermark is ≥ 0, channel 0) followed directly by the
    start command — `BodySkel` in `stream_skeleton` is built from exactly these blocks. -/
theorem waits_precede (op : Op) (oc : Item) :
    opSkel op oc =
      (if (opWaits op).1 ≥ 0 then [(OpCode.kernelWait.code, mask16 (16 * 0 + (opWaits op).1))] else []) ++
      (if (opWaits op).2 ≥ 0 then [(OpCode.dmaWait.code, mask16 (16 * 0 + (opWaits op).2))] else []) ++
      [oc].filterMap itemSkel := by
  unfold opSkel waitItems
  by_cases h1 : (opWaits op).1 ≥ 0 <;> by_cases h2 : (opWaits op).2 ≥ 0 <;> simp [h1, h2, itemSkel]

end VelaVerif.Props.C06
