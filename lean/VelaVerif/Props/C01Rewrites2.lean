import VelaVerif.Lemmas.Rewrites2
import VelaVerif.Props.C01
/-!
# C01 — the lowerings of `Model/Rewrites2.lean` preserve what the operator computes

For each lowering modelled in `Model/Rewrites2.lean` (the correspondence stream `harness/c01_rewrites2.py` compares the model
with the real function): the operator(s) left behind compute, under the reference semantics of `Spec/TfliteRef.lean` /
`Spec/RewriteSem2.lean`, what the original operator computes — bit-exact where the reference is integer-exact (transposed
convolution, grouped convolution, slices, PRELU forms, the sums of MEAN, nearest-neighbour RESIZE), and for the approximated
lowerings (the MEAN multiplier, bilinear RESIZE) the exact integer formula that is computed plus a bound.
-/
namespace VelaVerif.Props.C01Rewrites2
open VelaVerif.Requant VelaVerif.TfliteRef VelaVerif.RewriteSem VelaVerif.RewriteSem2 VelaVerif.Rewrites VelaVerif.Rewrites2 VelaVerif.Lemmas.Rewrites VelaVerif.Lemmas.Rewrites2 VelaVerif.Lemmas.Sem VelaVerif.Lemmas.StridedConv

/-! ## 8. Transposed convolution = stride-1 convolution of the zero-inserted IFM with the reversed kernel -/

/-- **TRANSPOSE_CONV as a convolution.** The reference transposed convolution (`TfliteRef.transposeConvAcc`: strides
    `(sh, sw)`, reference padding `(pt, pl)`) equals, at every output position and for all tensors, the *stride-1* convolution
    with the kernel reversed in height and width (`flipped`), padding `(kh - 1 - pt, kw - 1 - pl)`, over the IFM with
    `sh - 1` / `sw - 1` neutral elements inserted between the rows / columns (`zeroInserted`; neutral = the zero point), for every
    extent `UH × UW` of the upscaled image with `(H - 1) * sh < UH ≤ H * sh` (the last real row is inside, no row beyond the
    inserted ones is). Stride 1 of the lowered operator is part of the statement: with the TFLite strides left on the kernel
    (seeded defect C01-r5m1) the right-hand side is another function. -/
theorem tconv_as_conv_eq (H W C : Nat) (ifm : Nat → Nat → Nat → Int) (kh kw : Nat) (wgt : Nat → Nat → Nat → Int)
    (sh sw pt pl UH UW : Nat) (zp inOff : Int) (hz : zp + inOff = 0)
    (hsh : 0 < sh) (hsw : 0 < sw) (hH : 0 < H) (hW : 0 < W) (hpt : pt < kh) (hpl : pl < kw)
    (hUH1 : (H - 1) * sh < UH) (hUH2 : UH ≤ H * sh) (hUW1 : (W - 1) * sw < UW) (hUW2 : UW ≤ W * sw) (oy ox : Nat) :
    transposeConvAcc H W C ifm kh kw wgt sh sw pt pl inOff oy ox =
    convAcc UH UW C (zeroInserted sh sw ifm zp) kh kw (flipped kh kw wgt) 1 1 1 1 (kh - 1 - pt) (kw - 1 - pl) inOff oy ox := by
  unfold transposeConvAcc convAcc
  rw [sumRange_reverse kh]
  apply sumRange_congr
  intro ky hky
  rw [sumRange_reverse kw]
  apply sumRange_congr
  intro kx hkx
  simp only [Nat.mul_one]
  by_cases hge : oy + pt ≥ kh - 1 - ky ∧ ox + pl ≥ kw - 1 - kx
  · have c0 : oy + pt ≥ kh - 1 - ky ∧ ox + pl ≥ kw - 1 - kx ∧ sh > 0 ∧ sw > 0 := ⟨hge.1, hge.2, hsh, hsw⟩
    rw [if_pos c0]
    have ey : (((oy + ky : Nat) : Int) - ((kh - 1 - pt : Nat) : Int)) = ((oy + pt - (kh - 1 - ky) : Nat) : Int) := by omega
    have ex : (((ox + kx : Nat) : Int) - ((kw - 1 - pl : Nat) : Int)) = ((ox + pl - (kw - 1 - kx) : Nat) : Int) := by omega
    rw [ey, ex]
    generalize oy + pt - (kh - 1 - ky) = ny
    generalize ox + pl - (kw - 1 - kx) = nx
    simp only [Int.toNat_natCast]
    by_cases hd : ny % sh = 0 ∧ nx % sw = 0
    · have iy := up_extent_iff sh H UH ny hsh hH hUH1 hUH2 hd.1
      have ix := up_extent_iff sw W UW nx hsw hW hUW1 hUW2 hd.2
      by_cases hin : ny / sh < H ∧ nx / sw < W
      · rw [if_pos ⟨hd.1, hd.2, hin.1, hin.2⟩]
        have c1 : 0 ≤ (ny : Int) ∧ (ny : Int) < (UH : Int) ∧ 0 ≤ (nx : Int) ∧ (nx : Int) < (UW : Int) := by
          have := iy.mpr hin.1; have := ix.mpr hin.2; omega
        rw [if_pos c1]
        apply sumRange_congr
        intro ic _
        simp only [zeroInserted, flipped, hd, and_self, if_true]
      · have : ¬ (ny % sh = 0 ∧ nx % sw = 0 ∧ ny / sh < H ∧ nx / sw < W) := by
          intro c; exact hin ⟨c.2.2.1, c.2.2.2⟩
        rw [if_neg this]
        have c1 : ¬ (0 ≤ (ny : Int) ∧ (ny : Int) < (UH : Int) ∧ 0 ≤ (nx : Int) ∧ (nx : Int) < (UW : Int)) := by
          intro c
          apply hin
          exact ⟨iy.mp (by omega), ix.mp (by omega)⟩
        rw [if_neg c1]
    · have : ¬ (ny % sh = 0 ∧ nx % sw = 0 ∧ ny / sh < H ∧ nx / sw < W) := by
        intro c; exact hd ⟨c.1, c.2.1⟩
      rw [if_neg this]
      split
      · symm
        apply sumRange_zero_of
        intro ic _
        simp only [zeroInserted, hd, if_false, hz, Int.zero_mul]
      · rfl
  · have c0 : ¬ (oy + pt ≥ kh - 1 - ky ∧ ox + pl ≥ kw - 1 - kx ∧ sh > 0 ∧ sw > 0) := by
      intro c; exact hge ⟨c.1, c.2.1⟩
    rw [if_neg c0]
    have c1 : ¬ (0 ≤ (((oy + ky : Nat) : Int) - ((kh - 1 - pt : Nat) : Int)) ∧ (((oy + ky : Nat) : Int) - ((kh - 1 - pt : Nat) : Int)) < (UH : Int) ∧
        0 ≤ (((ox + kx : Nat) : Int) - ((kw - 1 - pl : Nat) : Int)) ∧ (((ox + kx : Nat) : Int) - ((kw - 1 - pl : Nat) : Int)) < (UW : Int)) := by
      intro c; apply hge; omega
    rw [if_neg c1]

/-- **The padding `calc_upscaled_padding_and_skirt` computes is the one the theorem needs — SAME, stride 2** (the strides
    attribute already reset to 1, factor `ofm // ifm = 2`): the pad before is `k - 1 -` the reference padding, and the extent of
    the upscaled image that the pads imply lies in `((H - 1) * 2, H * 2]`. -/
theorem tconv_pad_axis_same (H k : Nat) (hH : 0 < H) (hk : 0 < k) :
    ∃ t b, upscaledPadAxis true k 1 H 2 = some (t, b) ∧ tconvRefPad true (H * 2) 2 k < k ∧ t = k - 1 - tconvRefPad true (H * 2) 2 k ∧
      (H - 1) * 2 < upExtent (H * 2) k t b ∧ upExtent (H * 2) k t b ≤ H * 2 := by
  unfold upscaledPadAxis neededTotalPadding tconvRefPad upExtent outSize
  simp only [if_true, Nat.mod_one]
  refine ⟨_, _, rfl, ?_, ?_, ?_, ?_⟩ <;> (repeat' split) <;> omega

/-- **… VALID, stride 2** (OFM size `2 * H + max (k - 2) 0`, the shape the supported-operator check demands): pads
    `(k - 1, k - 2)`, reference padding 0, upscaled extent exactly `2 * H`. -/
theorem tconv_pad_axis_valid (H k f : Nat) (hH : 0 < H) (hk : 0 < k) :
    upscaledPadAxis false k 1 H f = some (k - 1, k - 2) ∧ tconvRefPad false (H * 2 + (k - 2)) 2 k = 0 ∧
      upExtent (H * 2 + (k - 2)) k (k - 1) (k - 2) = H * 2 := by
  refine ⟨by simp [upscaledPadAxis], ?_, ?_⟩
  · have h1 : outSize false (H * 2 + (k - 2)) 2 k = H := by
      simp only [outSize, Bool.false_eq_true, if_false]
      repeat' split
      all_goals omega
    simp only [tconvRefPad, h1]
    split <;> omega
  · simp only [upExtent]; omega

/-- **The lowering of a stride-2x2 TRANSPOSE_CONV with SAME padding is exact**: with the padding of the model
    (`calcUpscaledPadding`), kernel stride 1 (`fixupConv2dBackprop`), the reversed kernel and the zero-inserted IFM, every
    accumulator is the reference's — all tensors, all sizes, all kernels. -/
theorem tconv_lowering_same (H W C : Nat) (ifm : Nat → Nat → Nat → Int) (kh kw : Nat) (wgt : Nat → Nat → Nat → Int) (zp : Int)
    (hH : 0 < H) (hW : 0 < W) (hkh : 0 < kh) (hkw : 0 < kw) (oy ox : Nat) :
    ∃ t l b r, calcUpscaledPadding true kh kw (fixupConv2dBackprop 2 2).strideY (fixupConv2dBackprop 2 2).strideX H W 2 2 = some (t, l, b, r) ∧
      transposeConvAcc H W C ifm kh kw wgt 2 2 (tconvRefPad true (H * 2) 2 kh) (tconvRefPad true (W * 2) 2 kw) (-zp) oy ox =
      convAcc (upExtent (H * 2) kh t b) (upExtent (W * 2) kw l r) C (zeroInserted 2 2 ifm zp) kh kw (flipped kh kw wgt) 1 1 1 1 t l (-zp) oy ox := by
  obtain ⟨t, b, e1, p1, et, lo1, hi1⟩ := tconv_pad_axis_same H kh hH hkh
  obtain ⟨l, r, e2, p2, el, lo2, hi2⟩ := tconv_pad_axis_same W kw hW hkw
  refine ⟨t, l, b, r, ?_, ?_⟩
  · simp only [calcUpscaledPadding, fixupConv2dBackprop, e1, e2]
  · rw [et, el]
    exact tconv_as_conv_eq H W C ifm kh kw wgt 2 2 _ _ _ _ zp (-zp) (by omega) (by omega) (by omega) hH hW p1 p2
      (by rw [← et]; exact lo1) (by rw [← et]; exact hi1) (by rw [← el]; exact lo2) (by rw [← el]; exact hi2) oy ox

/-- **… and with VALID padding** (OFM `2 * H + max (kh - 2) 0` by `2 * W + max (kw - 2) 0`) -/
theorem tconv_lowering_valid (H W C : Nat) (ifm : Nat → Nat → Nat → Int) (kh kw : Nat) (wgt : Nat → Nat → Nat → Int) (zp : Int)
    (hH : 0 < H) (hW : 0 < W) (hkh : 0 < kh) (hkw : 0 < kw) (fy fx oy ox : Nat) :
    calcUpscaledPadding false kh kw 1 1 H W fy fx = some (kh - 1, kw - 1, kh - 2, kw - 2) ∧
      transposeConvAcc H W C ifm kh kw wgt 2 2 (tconvRefPad false (H * 2 + (kh - 2)) 2 kh) (tconvRefPad false (W * 2 + (kw - 2)) 2 kw) (-zp) oy ox =
      convAcc (upExtent (H * 2 + (kh - 2)) kh (kh - 1) (kh - 2)) (upExtent (W * 2 + (kw - 2)) kw (kw - 1) (kw - 2)) C
        (zeroInserted 2 2 ifm zp) kh kw (flipped kh kw wgt) 1 1 1 1 (kh - 1) (kw - 1) (-zp) oy ox := by
  obtain ⟨e1, p1, x1⟩ := tconv_pad_axis_valid H kh fy hH hkh
  obtain ⟨e2, p2, x2⟩ := tconv_pad_axis_valid W kw fx hW hkw
  refine ⟨by simp only [calcUpscaledPadding, e1, e2], ?_⟩
  rw [p1, p2, x1, x2]
  have h := tconv_as_conv_eq H W C ifm kh kw wgt 2 2 0 0 (H * 2) (W * 2) zp (-zp) (by omega) (by omega) (by omega) hH hW hkh hkw
    (by omega) (by omega) (by omega) (by omega) oy ox
  simpa using h

/-- **Stride 1x1** (no upscaling, `zeroInserted 1 1` is the IFM itself): with the mirrored padding of the model
    (`transposedPadAxis`, repair C01-50) the convolution with the reversed kernel is the reference TRANSPOSE_CONV — SAME
    (`OH = H`) and VALID (`OH = H + k - 1`), all kernel sizes. -/
theorem tconv_lowering_stride1 (same : Bool) (H W C : Nat) (ifm : Nat → Nat → Nat → Int) (kh kw : Nat) (wgt : Nat → Nat → Nat → Int) (zp : Int)
    (hH : 0 < H) (hW : 0 < W) (hkh : 0 < kh) (hkw : 0 < kw) (oy ox : Nat) :
    transposeConvAcc H W C ifm kh kw wgt 1 1 (tconvRefPad same (if same then H else H + kh - 1) 1 kh)
        (tconvRefPad same (if same then W else W + kw - 1) 1 kw) (-zp) oy ox =
      convAcc H W C ifm kh kw (flipped kh kw wgt) 1 1 1 1 (transposedPadAxis same kh).1 (transposedPadAxis same kw).1 (-zp) oy ox := by
  have key : ∀ (X k : Nat), 0 < X → 0 < k → tconvRefPad same (if same then X else X + k - 1) 1 k < k ∧
      (transposedPadAxis same k).1 = k - 1 - tconvRefPad same (if same then X else X + k - 1) 1 k := by
    intro X k hX hk
    cases same
    · have h1 : outSize false (X + k - 1) 1 k = X := by
        simp only [outSize, Bool.false_eq_true, if_false]
        repeat' split
        all_goals omega
      simp only [tconvRefPad, transposedPadAxis, Bool.false_eq_true, if_false, h1]
      split <;> omega
    · have h1 : outSize true X 1 k = X := by
        simp only [outSize, if_true]
        repeat' split
        all_goals omega
      simp only [tconvRefPad, transposedPadAxis, if_true, h1]
      split <;> omega
  obtain ⟨p1, e1⟩ := key H kh hH hkh
  obtain ⟨p2, e2⟩ := key W kw hW hkw
  have h := tconv_as_conv_eq H W C ifm kh kw wgt 1 1 _ _ H W zp (-zp) (by omega) (by omega) (by omega) hH hW p1 p2
    (by omega) (by omega) (by omega) (by omega) oy ox
  rw [h, e1, e2]
  have ez : zeroInserted 1 1 ifm zp = ifm := by
    funext y x c; simp [zeroInserted, Nat.mod_one]
  rw [ez]

/-- **the unrepaired stride-1 path is wrong** (finding `transpose-conv-stride1:forward-padding-not-mirrored`): with the padding of
    the forward convolution (`forwardPadAxis`: SAME 2x2 → top/left 0) the value at (1, 1) of a 2x2 IFM is another one; odd kernels are
    symmetric and agree. Reproduced on the compiled model (x[1,4,4,3], 2x2, SAME: 47 of 96 elements differ). -/
theorem tconv_stride1_forward_padding_witness :
    let ifm : Nat → Nat → Nat → Int := fun y x _ => (y * 2 + x + 1 : Nat)
    let wgt : Nat → Nat → Nat → Int := fun ky kx _ => (ky * 2 + kx + 1 : Nat)
    transposeConvAcc 2 2 1 ifm 2 2 wgt 1 1 (tconvRefPad true 2 1 2) (tconvRefPad true 2 1 2) 0 1 1 ≠
      convAcc 2 2 1 ifm 2 2 (flipped 2 2 wgt) 1 1 1 1 (forwardPadAxis true 2).1 (forwardPadAxis true 2).1 0 1 1 ∧
    (forwardPadAxis true 3, forwardPadAxis true 5) = (transposedPadAxis true 3, transposedPadAxis true 5) := by decide

/-- the kernel stride matters: the same operator with the TFLite strides (2, 2) left on the kernel (seeded defect C01-r5m1)
    computes another value already on a 2x2 IFM with a 3x3 kernel -/
theorem tconv_stride_kept_witness :
    let ifm : Nat → Nat → Nat → Int := fun y x _ => (y * 2 + x + 1 : Nat)
    let wgt : Nat → Nat → Nat → Int := fun ky kx _ => (ky * 3 + kx + 1 : Nat)
    transposeConvAcc 2 2 1 ifm 3 3 wgt 2 2 0 0 0 1 1 ≠
    convAcc 4 4 1 (zeroInserted 2 2 ifm 0) 3 3 (flipped 3 3 wgt) 2 2 1 1 1 1 0 1 1 := by decide

/-- non-vacuity: 3x3 kernel, 2x3 IFM with 2 channels, SAME, every position of the 4x6 output -/
example :
    let ifm : Nat → Nat → Nat → Int := fun y x c => (y * 7 + x * 3 + c : Nat) - 5
    let wgt : Nat → Nat → Nat → Int := fun ky kx c => (ky : Int) * 4 - kx + c
    (List.range 4).flatMap (fun oy => (List.range 6).map fun ox => transposeConvAcc 2 3 2 ifm 3 3 wgt 2 2 0 0 (-3) oy ox) =
    (List.range 4).flatMap (fun oy => (List.range 6).map fun ox =>
      convAcc 4 6 2 (zeroInserted 2 2 ifm 3) 3 3 (flipped 3 3 wgt) 1 1 1 1 2 2 (-3) oy ox) := by decide
example : calcUpscaledPadding true 3 3 1 1 2 3 2 2 = some (2, 2, 0, 0) ∧ tconvRefPad true 4 2 3 = 0 ∧
    calcUpscaledPadding true 4 5 1 1 2 3 2 2 = some (2, 3, 1, 1) ∧ tconvRefPad true 4 2 4 = 1 ∧
    lowerTconv false 3 3 2 2 4 4 9 9 = some ⟨⟨true, 1, 1⟩, (2, 2, 1, 1)⟩ ∧
    lowerTconv true 2 4 1 1 4 4 4 4 = some ⟨⟨false, 1, 1⟩, (1, 2, 0, 1)⟩ := by decide

/-! ## 9. Grouped convolution = split, convolutions, concatenation -/

/-- **CONV_2D with groups.** For `G > 1` groups of `Cg` input channels and `Og` filters each, and every output channel
    `oc < G * Og`: the model of `convert_conv_groups` gives group `g = oc / Og` the IFM read offset `g * Cg` and the filters
    `[g * Og, (g + 1) * Og)`; the concatenation of the `G` partial outputs (each `Og` deep) holds at channel `oc` the
    channel `oc % Og` of part `g` (`locate`, the reference concatenation); and that channel's accumulator — convolution of the
    IFM slice with filter `g * Og + oc % Og` of the original weights — is the accumulator of the reference grouped convolution,
    at every position, for all tensors, kernels, strides, dilations and paddings. (Bias and per-channel scales are sliced
    with the same indices.) -/
theorem conv_groups_eq (G Cg Og : Nat) (hG : 1 < G) (hOg : 0 < Og) (H W : Nat) (ifm : Nat → Nat → Nat → Int) (kh kw : Nat)
    (wgt : Nat → Nat → Nat → Nat → Int) (sh sw dh dw pt pl : Nat) (inOff : Int) (oy ox oc : Nat) (hoc : oc < G * Og) :
    ∃ cg, convertConvGroups G (G * Cg) (G * Og) = some cg ∧ cg.ifmDepthCg = Cg ∧ cg.filtersCg = Og ∧
      cg.groups[oc / Og]? = some (oc / Og * Cg, oc / Og * Og, (oc / Og + 1) * Og) ∧
      locate (List.replicate G Og) oc = some (oc / Og, oc % Og) ∧
      groupPartAcc H W Cg ifm kh kw wgt sh sw dh dw pt pl inOff (oc / Og * Cg) (oc / Og * Og) oy ox (oc % Og) =
        groupConvAcc H W Cg Og ifm kh kw wgt sh sw dh dw pt pl inOff oy ox oc := by
  have hG0 : 0 < G := by omega
  have e1 : G * Cg / G = Cg := Nat.mul_div_cancel_left Cg hG0
  have e2 : G * Og / G = Og := Nat.mul_div_cancel_left Og hG0
  have hg : oc / Og < G := (Nat.div_lt_iff_lt_mul hOg).mpr hoc
  have hc : convertConvGroups G (G * Cg) (G * Og) =
      some ⟨Cg, Og, (List.range G).map fun i => (i * Cg, i * Og, (i + 1) * Og)⟩ := by
    simp only [convertConvGroups, if_neg (by omega : ¬ G ≤ 1), e1, e2]
  refine ⟨_, hc, ?_, ?_, ?_, locate_replicate G Og oc hOg hoc, ?_⟩
  · rfl
  · rfl
  · simp [hg]
  · unfold groupPartAcc groupConvAcc
    have : oc / Og * Og + oc % Og = oc := by
      rw [Nat.mul_comm]; exact Nat.div_add_mod oc Og
    rw [this]

example : convertConvGroups 3 12 6 = some ⟨4, 2, [(0, 0, 2), (4, 2, 4), (8, 4, 6)]⟩ ∧ convertConvGroups 1 12 6 = none := by decide
example :
    let ifm : Nat → Nat → Nat → Int := fun y x c => (y * 11 + x * 5 + c : Nat) - 20
    let wgt : Nat → Nat → Nat → Nat → Int := fun oc ky kx ic => (oc : Int) * 3 - ky + kx * 2 - ic
    (List.range 6).map (fun oc => groupPartAcc 3 3 4 ifm 2 2 wgt 1 1 1 1 0 0 2 (oc / 2 * 4) (oc / 2 * 2) 1 1 (oc % 2)) =
    (List.range 6).map (fun oc => groupConvAcc 3 3 4 2 ifm 2 2 wgt 1 1 1 1 0 0 2 1 1 oc) := by decide

/-! ## 10. MEAN = all-ones depthwise convolution(s), int32 sums, one `Mul` -/

/-- **MEAN, splitting into several convolutions**: the partial sums of the all-ones depthwise convolutions the lowering creates
    (`meanChunks`: kernel heights `height_per_conv`, the last one the remainder, read offsets `i * height_per_conv`), added up
    by the chain of `Add`s, are the sum over the whole `h × w` window — for every tensor, every `h`, `w`, `height_per_conv > 0`.
    (The limits 4096 / 64 that choose `height_per_conv` are hardware limits, not needed for the equality.) -/
theorem mean_split_sum_eq (ifm : Nat → Nat → Int) (zp : Int) (h w hpc : Nat) (hh : 0 < h) (hp : 0 < hpc) :
    splitSum ifm zp w (meanChunks h hpc) = windowSum ifm zp 0 h w := by
  rw [meanChunks_eq h hpc hh hp, splitSum_append, splitSum_full]
  simp only [splitSum, Int.add_zero]
  generalize hk : (h + hpc - 1) / hpc - 1 = k
  have hk1 : k * hpc ≤ h := by
    have : ((h + hpc - 1) / hpc) * hpc ≤ h + hpc - 1 := Nat.div_mul_le_self _ _
    have hnum : 0 < (h + hpc - 1) / hpc := Nat.div_pos (by omega) hp
    obtain ⟨j, hj⟩ : ∃ j, (h + hpc - 1) / hpc = j + 1 := ⟨(h + hpc - 1) / hpc - 1, by omega⟩
    rw [hj, Nat.succ_mul] at this
    have : j = k := by omega
    subst this; omega
  have := windowSum_split ifm zp 0 (k * hpc) (h - k * hpc) w
  rw [Nat.zero_add, show k * hpc + (h - k * hpc) = h by omega] at this
  omega

/-- **MEAN, `H × W` read as `1 × (H·W)`** (taken when `H > 64` and `H·W ≤ 4096`): the same memory, the same sum -/
theorem mean_flat_sum_eq (ifm : Nat → Nat → Int) (zp : Int) (h w : Nat) (hw : 0 < w) :
    windowSum ifm zp 0 h w = windowSum (fun _ i => ifm (i / w) (i % w)) zp 0 1 (h * w) := by
  unfold windowSum
  simp only [sumRange, Int.zero_add, Nat.zero_add]
  rw [sumRange_mul h w]
  apply sumRange_congr; intro r _
  apply sumRange_congr; intro c hc
  have e1 : (r * w + c) / w = r := by
    rw [Nat.add_comm, Nat.add_mul_div_right _ _ hw, Nat.div_eq_of_lt hc, Nat.zero_add]
  have e2 : (r * w + c) % w = c := by
    rw [Nat.add_comm, Nat.add_mul_mod_self_right, Nat.mod_eq_of_lt hc]
  rw [e1, e2]

/-- **MEAN, the multiplier** `mult = (m << s) // n` (the arithmetic of `reference_integer_ops::Mean`): it is the floor of
    `m · 2^s / n`, so `n · mult ≤ m · 2^s < n · mult + n` — the scaled sum `sum · mult / 2^s` differs from `sum · m / n` by less
    than `|sum| / 2^s`. (This, and the two roundings of `MultiplyByQuantizedMultiplier`, is the whole approximation of the
    lowering against the real-valued mean; the integer kernel itself is reproduced exactly, `mean_lowered_eq_ref`.) -/
theorem mean_multiplier_bound (m : Int) (n s : Nat) (hn : 0 < n) :
    (n : Int) * (m * (2 : Int) ^ s / (n : Int)) ≤ m * (2 : Int) ^ s ∧ m * (2 : Int) ^ s < (n : Int) * (m * (2 : Int) ^ s / (n : Int)) + n := by
  generalize m * (2 : Int) ^ s = x
  have hn' : (0 : Int) < n := by omega
  have h1 := Int.mul_ediv_add_emod x n
  have h2 := Int.emod_nonneg x (by omega : (n : Int) ≠ 0)
  have h3 := Int.emod_lt_of_pos x hn'
  constructor <;> omega

/-- **MEAN, the final `Mul`**: the int32 product scaled by the NPU with TFLite rounding and the explicit shift `sv ≥ 31`
    (`npuScaleTfl (sum · mult) 1 sv`, the form `Props/C01Wide.mul32_tfl_eq_srdhm` shows for an int32 `Mul`) is bit-exactly
    `MultiplyByQuantizedMultiplier(sum, mult, 31 - sv)` of the TFLite integer MEAN kernel, outside the one saturating case. -/
theorem mean_lowered_eq_ref (s mult : Int) (sv : Nat) (zpOut lo hi : Int) (hsv : 31 ≤ sv)
    (hsat : ¬ (s = INT32_MIN ∧ mult = INT32_MIN)) :
    meanLowered s mult sv zpOut lo hi = meanRefInt s mult (31 - (sv : Int)) zpOut lo hi := by
  unfold meanLowered meanRefInt
  rw [VelaVerif.Props.C01.npuScaleTfl_eq_mbqm _ 1 sv (by omega)]
  congr 2
  unfold mbqm
  have hns : ¬ ((31 : Int) - (sv : Int) > 0) := by omega
  simp only [hns, if_false, Int.pow_zero, Int.mul_one]
  rw [srdhm_floor _ _ hsat, srdhm_floor _ _ (by intro c; have := c.2; simp [INT32_MIN] at this)]
  simp only [Int.mul_one]

/-- what `meanScale` returns: the floor multiplier for the shift `min (⌊log2 n⌋, 32, 31 + output_shift)` and the explicit shift
    enlarged by it -/
theorem meanScale_spec (m sv : Int) (n : Nat) (hn : 0 < n) (hs : 0 ≤ min (min ((log2Floor n : Nat) : Int) 32) (31 + (31 - sv))) :
    meanScale m sv n = some (m * (2 : Int) ^ (min (min ((log2Floor n : Nat) : Int) 32) (31 + (31 - sv))).toNat / (n : Int),
      sv + min (min ((log2Floor n : Nat) : Int) 32) (31 + (31 - sv))) := by
  unfold meanScale
  rw [if_neg (by omega)]
  simp only []
  rw [if_neg (by omega)]
  congr 2
  omega

example : meanChunks 190 64 = [(0, 64), (64, 64), (128, 62)] ∧ meanChunks 128 64 = [(0, 64), (64, 64)] ∧ meanChunks 5 64 = [(0, 5)] := by decide
example : (meanPlan [1, 190, 64, 1] [false, true, true, false]).map (·.convs) = some [(0, 64, 64, 64), (64, 64, 64, 64), (128, 62, 62, 64)] := by decide
example : (meanPlan [1, 70, 8, 3] [false, true, true, false]).map (fun p => (p.ifmShape, p.convs)) = some ([1, 1, 560, 3], [(0, 1, 1, 560)]) := by decide
example : (meanPlan [1, 7, 1, 16] [false, false, false, true]).map (fun p => (p.ifmShape, p.convs)) = some ([1, 7, 16, 1], [(0, 1, 7, 16)]) := by decide
example : meanScale 1073741824 31 49 = some (1073741824 * 32 / 49, 36) := by decide
example :
    let ifm : Nat → Nat → Int := fun y x => ((y * 13 + x * 7) % 50 : Nat) - 20
    splitSum ifm 3 4 (meanChunks 11 4) = windowSum ifm 3 0 11 4 := by decide
example : meanLowered 12345 701172535 36 (-3) (-128) 127 = meanRefInt 12345 701172535 (-5) (-3) (-128) 127 := by decide

/-! ## 11. STRIDED_SLICE masks -/

/-- **`_get_slice_offsets` computes, per input dimension, the value of the specification position that addresses it.**
    The index-mutating loop (positions `spec`, dimensions `idx`, `new_axis_mask` positions consume no dimension, masked
    positions keep the default 0 / dim, dimensions beyond the specification are taken in full) equals the recursion over the
    dimensions `specOffsets` — in which a negative value is counted from the end of the ADDRESSED dimension (seeded defect
    C01-r5m2 adds `input_shape[spec]` instead) — for every shape, every specification, all masks, both variants. -/
theorem slice_offsets_eq_spec (clampV : Bool) (shape : List Nat) (vals : List Int) (mask newAxis : Nat) (isBegin : Bool) :
    getSliceOffsets clampV shape vals mask isBegin newAxis = specOffsets clampV mask newAxis isBegin shape vals 0 := by
  unfold getSliceOffsets
  have := sliceOffsetsGo_eq clampV mask newAxis isBegin vals [] [] shape 0 rfl
  simp only [List.nil_append, List.length_nil] at this
  cases isBegin <;> simpa using this

/-- **with the clamp (repair C01-51) the offsets are the reference's** `StartForAxis` / `StopForAxis` (stride 1) for every
    value, in range or not -/
theorem spec_clamped_eq_ref (mask newAxis : Nat) (isBegin : Bool) :
    ∀ (vals : List Int) (dims : List Nat) (spec : Nat),
      specOffsets true mask newAxis isBegin dims vals spec = refOffsets mask newAxis isBegin dims vals spec := by
  intro vals
  induction vals with
  | nil => intro dims spec; simp [specOffsets, refOffsets]
  | cons v vs ih =>
    intro dims spec
    cases dims with
    | nil => simp [specOffsets, refOffsets]
    | cons d ds =>
      simp only [specOffsets, refOffsets]
      split
      · exact ih (d :: ds) (spec + 1)
      · rw [ih ds (spec + 1)]
        congr 1
        cases isBegin <;> cases bit mask spec <;> simp [refStart, refStop, sliceVal]

/-- **without the clamp (the unrepaired code) they are the reference's whenever the value addresses the dimension**
    (`0 ≤ value ≤ dim` after the negative-index conversion) — `_partial`: the statement for all values is false,
    `slice_unclamped_witness` -/
theorem sliceVal_in_range_partial (d : Nat) (v : Int) (h : 0 ≤ sliceVal false d v ∧ sliceVal false d v ≤ d) :
    sliceVal false d v = sliceVal true d v := by
  simp only [sliceVal, Bool.false_eq_true, if_false, if_true] at h ⊢
  split <;> (repeat' split) <;> omega

/-- the hypothesis is needed: `x[2:100]` on a dimension of 8 (legal, the reference reads `[2, 8)`) gives the end offset 100, and
    `x[-20:6]` the begin offset -12 (the compiler then fails an assertion in `address_for_coordinate`) -/
theorem slice_unclamped_witness :
    getSliceOffsets false [8] [100] 0 false 0 = [100] ∧ refOffsets 0 0 false [8] [100] 0 = [8] ∧
    getSliceOffsets false [8] [-20] 0 true 0 = [-12] ∧ refOffsets 0 0 true [8] [-20] 0 = [0] := by decide

/-- non-vacuity, the seeded defect's witness: `x[8,6,4]`, begin `[0,0,-3,0]`, end `[0,8,-1,4]`, `new_axis_mask = 1`: the third
    position addresses dimension 1 (extent 6): columns 3..4 -/
example : sliceRanges false [8, 6, 4] [0, 0, -3, 0] [0, 8, -1, 4] 0 0 0 1 = ([0, 3, 0], [8, 5, 4], true) := by decide
example : sliceRanges false [1, 8, 8, 4] [0, 2, 0, 0] [1, 6, 8, 4] 0 4 2 0 = ([0, 2, 0, 0], [1, 3, 8, 4], true) := by decide

/-! ## 12. RESIZE as 2x nearest-neighbour upscalings (+ one average pool)

Proved: the nearest-neighbour chain. NOT proved (compared by evaluation in the stream, `rwsem2_resize`: pooling sum and count
of the final `k × k` average pool over the upscaled image against `k²` times the reference bilinear value `bilinearNum`, every
position): the bilinear identity `sum · k² = bilinearNum · count`, and the align-corners depthwise selection. -/

/-- `n` nearest-neighbour 2x upscalings (the 1x1 average pools with `IFM_UPSCALE = NEAREST` that
    `convert_resize_to_upscale_and_average_pool` chains) read element `(y / 2^n, x / 2^n)` -/
theorem upN_eq (n : Nat) (f : Nat → Nat → Int) (y x : Nat) : upN n f y x = f (y / 2 ^ n) (x / 2 ^ n) := by
  induction n generalizing y x with
  | zero => simp [upN]
  | succ k ih =>
    simp only [upN, up2]
    rw [ih, Nat.div_div_eq_div_mul, Nat.div_div_eq_div_mul, Nat.pow_succ, Nat.mul_comm (2 ^ k) 2]

/-- the source coordinate of the reference RESIZE_NEAREST_NEIGHBOR for an output of `H · 2^n` (no `align_corners`; with or
    without `half_pixel_centers`) is `y / 2^n` -/
theorem nearest_src_pow2 (H n y : Nat) (half : Bool) (hH : 0 < H) (hy : y < H * 2 ^ n) :
    nearestSrc y H (H * 2 ^ n) false half H = y / 2 ^ n := by
  unfold nearestSrc
  simp only [Bool.false_eq_true, if_false]
  have hP : 0 < 2 ^ n := Nat.pow_pos (by omega)
  have e1 : (2 * y + (if half = true then 1 else 0)) * H / (2 * (H * 2 ^ n)) = (2 * y + (if half = true then 1 else 0)) / (2 * 2 ^ n) := by
    have : 2 * (H * 2 ^ n) = (2 * 2 ^ n) * H := by
      rw [Nat.mul_comm H, Nat.mul_assoc]
    rw [this, Nat.mul_div_mul_right _ _ hH]
  rw [e1]
  have e2 : (2 * y + (if half = true then 1 else 0)) / (2 * 2 ^ n) = y / 2 ^ n := by
    rw [← Nat.div_div_eq_div_mul]
    congr 1
    split <;> omega
  rw [e2]
  have : y / 2 ^ n < H := (Nat.div_lt_iff_lt_mul hP).mpr hy
  omega

/-- **RESIZE_NEAREST_NEIGHBOR by 2^n (no align_corners) = the chain of `n` 2x upscalings, bit-exact**, every output
    element, with and without half-pixel centres (the code's comment "calculations are the same in the reference") -/
theorem resize_nearest_chain_eq (H W n : Nat) (f : Nat → Nat → Int) (half : Bool) (hH : 0 < H) (hW : 0 < W) (y x : Nat)
    (hy : y < H * 2 ^ n) (hx : x < W * 2 ^ n) :
    upN n f y x = f (nearestSrc y H (H * 2 ^ n) false half H) (nearestSrc x W (W * 2 ^ n) false half W) := by
  rw [upN_eq, nearest_src_pow2 H n y half hH hy, nearest_src_pow2 W n x half hW hx]

example : resizePlan true false 3 4 3 = some ⟨3, [(6, 8), (12, 16)], .avgPoolPadded 8⟩ ∧
    resizePlan false true 3 4 2 = some ⟨2, [(6, 8)], .depthwiseSelect 4 10⟩ ∧ resizePlan false false 3 4 1 = some ⟨1, [], .copy⟩ := by decide
example :
    let f : Nat → Nat → Int := fun y x => (y * 5 + x : Nat)
    (List.range 12).map (fun y => upN 2 f y 7) = (List.range 12).map (fun y => f (nearestSrc y 3 12 false true 3) (nearestSrc 7 4 16 false true 4)) := by decide

/-! ## 13. PRELU -/

/-- **PRELU, the catch-all form `Add(Mul(Minimum(x, 0), alpha), Relu(x))`** (no scaling on the `Add`, the `Relu` rescales to the
    output quantisation, the `Mul` carries the alpha multiplier) is bit-exactly the reference PRELU — for every element, every
    alpha element (any sign, any size, per-channel tensors included), all zero points, any identity multiplier `(idm, ids)`
    and alpha multiplier `(am, as)` with non-negative mantissas, output zero point inside the type range. -/
theorem prelu_min_mul_relu_add_eq (v y zpIn zpA zpOut idm ids am as lo hi : Int) (hz1 : lo ≤ zpOut) (hz2 : zpOut ≤ hi)
    (hi0 : 0 ≤ idm) (hi1 : idm < 2147483648) (ha0 : 0 ≤ am) (ha1 : am < 2147483648) :
    preluMinMulReluAdd v y zpIn zpA zpOut idm ids am as lo hi = preluRef v y zpIn zpA zpOut idm ids am as lo hi := by
  unfold preluMinMulReluAdd preluRef addNoScale mulElem reluScaled minZero
  by_cases hx : v - zpIn ≥ 0
  · have e0 : ((if v - zpIn ≤ 0 then v - zpIn else 0) + zpIn + -zpIn) * (y + -zpA) = 0 := by
      have : (if v - zpIn ≤ 0 then v - zpIn else 0) + zpIn + -zpIn = 0 := by split <;> omega
      rw [this, Int.zero_mul]
    have z1 := mbqm_sign_nonneg 0 am as (by omega) ha0 ha1
    have z2 := mbqm_sign_nonpos 0 am as (by omega) ha0 ha1
    have p := mbqm_sign_nonneg (v - zpIn) idm ids hx hi0 hi1
    simp only [e0, hx, if_true]
    generalize mbqm (v - zpIn) idm ids = P at *
    generalize mbqm 0 am as = Z at *
    unfold clamp
    repeat' split
    all_goals omega
  · have e0 : ((if v - zpIn ≤ 0 then v - zpIn else 0) + zpIn + -zpIn) * (y + -zpA) = (v - zpIn) * (y - zpA) := by
      have : (if v - zpIn ≤ 0 then v - zpIn else 0) + zpIn + -zpIn = v - zpIn := by split <;> omega
      rw [this]; rfl
    have p := mbqm_sign_nonpos (v - zpIn) idm ids (by omega) hi0 hi1
    simp only [e0, hx, if_false]
    generalize mbqm (v - zpIn) idm ids = P at *
    generalize mbqm ((v - zpIn) * (y - zpA)) am as = Q at *
    unfold clamp
    repeat' split
    all_goals omega

/-- **PRELU, the form `Maximum(Mul(x, alpha), x)`** (taken for `alpha_max < 1` when IFM and OFM are quantised alike): equals the
    reference PRELU (identity multiplier of equal scales) for every element of the type range and every alpha element whose
    real multiplier `(y - zp_alpha) · am · 2^(as - 31)` is at most one — negative alpha elements included. -/
theorem prelu_mulmax_direct_eq (v y zp zpA am as lo hi : Int) (hlo : lo ≤ v) (hhi : v ≤ hi)
    (hm0 : 0 ≤ am) (hm1 : am < 2147483648) (hs : as ≤ 0)
    (hreal : (y - zpA) * am ≤ 2147483648 * (2 : Int) ^ (-as).toNat) :
    preluMulMaxDirect v y zp zpA am as lo hi = preluRef v y zp zpA zp 1073741824 1 am as lo hi := by
  unfold preluMulMaxDirect preluRef mulElem
  have e1 : (v + -zp) * (y + -zpA) = (y - zpA) * (v - zp) := by rw [Int.mul_comm]; rfl
  have e1' : (v - zp) * (y - zpA) = (y - zpA) * (v - zp) := Int.mul_comm _ _
  rw [e1]
  simp only []
  rw [e1', mbqm_identity]
  have hlh : lo ≤ hi := by omega
  have e2 : v - zp + zp = v := by omega
  by_cases hx : v - zp ≥ 0
  · simp only [hx, if_true]
    rw [e2, clamp_id v lo hi hlo hhi]
    have c : mbqm ((y - zpA) * (v - zp)) am as ≤ v - zp := by
      by_cases ha : 0 ≤ y - zpA
      · exact (mbqm_scaled_nonneg (y - zpA) (v - zp) am as ha hx hm0 hs hreal).2
      · have : (y - zpA) * (v - zp) ≤ 0 := Int.mul_nonpos_of_nonpos_of_nonneg (by omega) hx
        have := mbqm_sign_nonpos _ am as this hm0 hm1
        omega
    have := clamp_mono (mbqm ((y - zpA) * (v - zp)) am as + zp) v lo hi hlh (by omega)
    rw [clamp_id v lo hi hlo hhi] at this
    omega
  · simp only [hx, if_false]
    have c : v - zp ≤ mbqm ((y - zpA) * (v - zp)) am as := by
      by_cases ha : 0 ≤ y - zpA
      · exact (mbqm_scaled_neg (y - zpA) (v - zp) am as ha (by omega) hm0 hs hreal).1
      · have : 0 ≤ (y - zpA) * (v - zp) := Int.mul_nonneg_of_nonpos_of_nonpos (by omega) (by omega)
        have := mbqm_sign_nonneg _ am as this hm0 hm1
        omega
    have := clamp_mono v (mbqm ((y - zpA) * (v - zp)) am as + zp) lo hi hlh (by omega)
    rw [clamp_id v lo hi hlo hhi] at this
    omega

example : convertPrelu true 40 40 (-24) 1006632960 false = some (.lrelu 64) ∧ convertPrelu true 5 5 5 1006632960 true = some .relu ∧
    convertPrelu true (-100) 100 0 1006632960 true = some (.mulMax false) ∧ convertPrelu true (-100) 127 (-128) 1006632960 false = some .minMulReluAdd ∧
    convertPrelu false 0 0 0 0 true = some .minMulReluAdd := by decide
example : (List.range 40).map (fun (i : Nat) => preluMinMulReluAdd ((i : Int) - 20) 90 3 (-5) (-7) 1518500250 0 1717986918 (-3) (-128) 127) =
    (List.range 40).map (fun (i : Nat) => preluRef ((i : Int) - 20) 90 3 (-5) (-7) 1518500250 0 1717986918 (-3) (-128) 127) := by decide
example : (List.range 40).map (fun (i : Nat) => preluMulMaxDirect ((i : Int) - 20) (-60) 3 (-5) 1717986918 (-6) (-128) 127) =
    (List.range 40).map (fun (i : Nat) => preluRef ((i : Int) - 20) (-60) 3 (-5) 3 1073741824 1 1717986918 (-6) (-128) 127) := by decide

end VelaVerif.Props.C01Rewrites2
