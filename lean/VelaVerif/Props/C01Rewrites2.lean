import VelaVerif.Lemmas.Rewrites2
/-!
# C01 — the lowerings of `Model/Rewrites2.lean` preserve what the operator computes

For each lowering modelled in `Model/Rewrites2.lean` (the correspondence stream `harness/c01_rewrites2.py` compares the model
with the real function): the operator(s) left behind compute, under the reference semantics of `Spec/TfliteRef.lean` /
`Spec/RewriteSem2.lean`, what the original operator computes — bit-exact where the reference is integer-exact (transposed
convolution, grouped convolution, slices, PRELU forms, the sums of MEAN, nearest-neighbour RESIZE), and for the approximated
lowerings (the MEAN multiplier, bilinear RESIZE) the exact integer formula that is computed plus a bound.
-/
namespace VelaVerif.Props.C01Rewrites2
open VelaVerif.Requant VelaVerif.TfliteRef VelaVerif.RewriteSem VelaVerif.RewriteSem2 VelaVerif.Rewrites VelaVerif.Rewrites2 VelaVerif.Lemmas.Rewrites VelaVerif.Lemmas.Rewrites2 VelaVerif.Lemmas.Sem VelaVerif.Lemmas.StridedConv

/-! ## 8. Transposed convolution = stride-1 convolution of the zero-inserted IFM with the reversed kernel -/

/-- **TRANSPOSE_CONV as a convolution.** The reference transposed convolution (`TfliteRef.transposeConvAcc`: strides
    `(sh, sw)`, reference padding `(pt, pl)`) equals, at every output position and for all tensors, the *stride-1* convolution
    with the kernel reversed in height and width (`flipped`), padding `(kh - 1 - pt, kw - 1 - pl)`, over the IFM with
    `sh - 1` / `sw - 1` neutral elements inserted between the rows / columns (`zeroInserted`; neutral = the zero point), for every
    extent `UH × UW` of the upscaled image with `(H - 1) * sh < UH ≤ H * sh` (the last real row is inside, no row beyond the
    inserted ones is). Stride 1 of the lowered operator is part of the statement: with the TFLite strides left on the kernel
    (seeded defect C01-r5m1) the right-hand side is another function. -/
theorem tconv_as_conv_eq (H W C : Nat) (ifm : Nat → Nat → Nat → Int) (kh kw : Nat) (wgt : Nat → Nat → Nat → Int)
    (sh sw pt pl UH UW : Nat) (zp inOff : Int) (hz : zp + inOff = 0)
    (hsh : 0 < sh) (hsw : 0 < sw) (hH : 0 < H) (hW : 0 < W) (hpt : pt < kh) (hpl : pl < kw)
    (hUH1 : (H - 1) * sh < UH) (hUH2 : UH ≤ H * sh) (hUW1 : (W - 1) * sw < UW) (hUW2 : UW ≤ W * sw) (oy ox : Nat) :
    transposeConvAcc H W C ifm kh kw wgt sh sw pt pl inOff oy ox =
    convAcc UH UW C (zeroInserted sh sw ifm zp) kh kw (flipped kh kw wgt) 1 1 1 1 (kh - 1 - pt) (kw - 1 - pl) inOff oy ox := by
  unfold transposeConvAcc convAcc
  rw [sumRange_reverse kh]
  apply sumRange_congr
  intro ky hky
  rw [sumRange_reverse kw]
  apply sumRange_congr
  intro kx hkx
  simp only [Nat.mul_one]
  by_cases hge : oy + pt ≥ kh - 1 - ky ∧ ox + pl ≥ kw - 1 - kx
  · have c0 : oy + pt ≥ kh - 1 - ky ∧ ox + pl ≥ kw - 1 - kx ∧ sh > 0 ∧ sw > 0 := ⟨hge.1, hge.2, hsh, hsw⟩
    rw [if_pos c0]
    have ey : (((oy + ky : Nat) : Int) - ((kh - 1 - pt : Nat) : Int)) = ((oy + pt - (kh - 1 - ky) : Nat) : Int) := by omega
    have ex : (((ox + kx : Nat) : Int) - ((kw - 1 - pl : Nat) : Int)) = ((ox + pl - (kw - 1 - kx) : Nat) : Int) := by omega
    rw [ey, ex]
    generalize oy + pt - (kh - 1 - ky) = ny
    generalize ox + pl - (kw - 1 - kx) = nx
    simp only [Int.toNat_natCast]
    by_cases hd : ny % sh = 0 ∧ nx % sw = 0
    · have iy := up_extent_iff sh H UH ny hsh hH hUH1 hUH2 hd.1
      have ix := up_extent_iff sw W UW nx hsw hW hUW1 hUW2 hd.2
      by_cases hin : ny / sh < H ∧ nx / sw < W
      · rw [if_pos ⟨hd.1, hd.2, hin.1, hin.2⟩]
        have c1 : 0 ≤ (ny : Int) ∧ (ny : Int) < (UH : Int) ∧ 0 ≤ (nx : Int) ∧ (nx : Int) < (UW : Int) := by
          have := iy.mpr hin.1; have := ix.mpr hin.2; omega
        rw [if_pos c1]
        apply sumRange_congr
        intro ic _
        simp only [zeroInserted, flipped, hd, and_self, if_true]
      · have : ¬ (ny % sh = 0 ∧ nx % sw = 0 ∧ ny / sh < H ∧ nx / sw < W) := by
          intro c; exact hin ⟨c.2.2.1, c.2.2.2⟩
        rw [if_neg this]
        have c1 : ¬ (0 ≤ (ny : Int) ∧ (ny : Int) < (UH : Int) ∧ 0 ≤ (nx : Int) ∧ (nx : Int) < (UW : Int)) := by
          intro c
          apply hin
          exact ⟨iy.mp (by omega), ix.mp (by omega)⟩
        rw [if_neg c1]
    · have : ¬ (ny % sh = 0 ∧ nx % sw = 0 ∧ ny / sh < H ∧ nx / sw < W) := by
        intro c; exact hd ⟨c.1, c.2.1⟩
      rw [if_neg this]
      split
      · symm
        apply sumRange_zero_of
        intro ic _
        simp only [zeroInserted, hd, if_false, hz, Int.zero_mul]
      · rfl
  · have c0 : ¬ (oy + pt ≥ kh - 1 - ky ∧ ox + pl ≥ kw - 1 - kx ∧ sh > 0 ∧ sw > 0) := by
      intro c; exact hge ⟨c.1, c.2.1⟩
    rw [if_neg c0]
    have c1 : ¬ (0 ≤ (((oy + ky : Nat) : Int) - ((kh - 1 - pt : Nat) : Int)) ∧ (((oy + ky : Nat) : Int) - ((kh - 1 - pt : Nat) : Int)) < (UH : Int) ∧
        0 ≤ (((ox + kx : Nat) : Int) - ((kw - 1 - pl : Nat) : Int)) ∧ (((ox + kx : Nat) : Int) - ((kw - 1 - pl : Nat) : Int)) < (UW : Int)) := by
      intro c; apply hge; omega
    rw [if_neg c1]

/-- **The padding `calc_upscaled_padding_and_skirt` computes is the one the theorem needs — SAME, stride 2** (the strides
    attribute already reset to 1, factor `ofm // ifm = 2`): the pad before is `k - 1 -` the reference padding, and the extent of
    the upscaled image that the pads imply lies in `((H - 1) * 2, H * 2]`. -/
theorem tconv_pad_axis_same (H k : Nat) (hH : 0 < H) (hk : 0 < k) :
    ∃ t b, upscaledPadAxis true k 1 H 2 = some (t, b) ∧ tconvRefPad true (H * 2) 2 k < k ∧ t = k - 1 - tconvRefPad true (H * 2) 2 k ∧
      (H - 1) * 2 < upExtent (H * 2) k t b ∧ upExtent (H * 2) k t b ≤ H * 2 := by
  unfold upscaledPadAxis neededTotalPadding tconvRefPad upExtent outSize
  simp only [if_true, Nat.mod_one]
  refine ⟨_, _, rfl, ?_, ?_, ?_, ?_⟩ <;> (repeat' split) <;> omega

/-- **… VALID, stride 2** (OFM size `2 * H + max (k - 2) 0`, the shape the supported-operator check demands): pads
    `(k - 1, k - 2)`, reference padding 0, upscaled extent exactly `2 * H`. -/
theorem tconv_pad_axis_valid (H k f : Nat) (hH : 0 < H) (hk : 0 < k) :
    upscaledPadAxis false k 1 H f = some (k - 1, k - 2) ∧ tconvRefPad false (H * 2 + (k - 2)) 2 k = 0 ∧
      upExtent (H * 2 + (k - 2)) k (k - 1) (k - 2) = H * 2 := by
  refine ⟨by simp [upscaledPadAxis], ?_, ?_⟩
  · have h1 : outSize false (H * 2 + (k - 2)) 2 k = H := by
      simp only [outSize, Bool.false_eq_true, if_false]
      repeat' split
      all_goals omega
    simp only [tconvRefPad, h1]
    split <;> omega
  · simp only [upExtent]; omega

/-- **The lowering of a stride-2x2 TRANSPOSE_CONV with SAME padding is exact**: with the padding of the model
    (`calcUpscaledPadding`), kernel stride 1 (`fixupConv2dBackprop`), the reversed kernel and the zero-inserted IFM, every
    accumulator is the reference's — all tensors, all sizes, all kernels. -/
theorem tconv_lowering_same (H W C : Nat) (ifm : Nat → Nat → Nat → Int) (kh kw : Nat) (wgt : Nat → Nat → Nat → Int) (zp : Int)
    (hH : 0 < H) (hW : 0 < W) (hkh : 0 < kh) (hkw : 0 < kw) (oy ox : Nat) :
    ∃ t l b r, calcUpscaledPadding true kh kw (fixupConv2dBackprop 2 2).strideY (fixupConv2dBackprop 2 2).strideX H W 2 2 = some (t, l, b, r) ∧
      transposeConvAcc H W C ifm kh kw wgt 2 2 (tconvRefPad true (H * 2) 2 kh) (tconvRefPad true (W * 2) 2 kw) (-zp) oy ox =
      convAcc (upExtent (H * 2) kh t b) (upExtent (W * 2) kw l r) C (zeroInserted 2 2 ifm zp) kh kw (flipped kh kw wgt) 1 1 1 1 t l (-zp) oy ox := by
  obtain ⟨t, b, e1, p1, et, lo1, hi1⟩ := tconv_pad_axis_same H kh hH hkh
  obtain ⟨l, r, e2, p2, el, lo2, hi2⟩ := tconv_pad_axis_same W kw hW hkw
  refine ⟨t, l, b, r, ?_, ?_⟩
  · simp only [calcUpscaledPadding, fixupConv2dBackprop, e1, e2]
  · rw [et, el]
    exact tconv_as_conv_eq H W C ifm kh kw wgt 2 2 _ _ _ _ zp (-zp) (by omega) (by omega) (by omega) hH hW p1 p2
      (by rw [← et]; exact lo1) (by rw [← et]; exact hi1) (by rw [← el]; exact lo2) (by rw [← el]; exact hi2) oy ox

/-- **… and with VALID padding** (OFM `2 * H + max (kh - 2) 0` by `2 * W + max (kw - 2) 0`) -/
theorem tconv_lowering_valid (H W C : Nat) (ifm : Nat → Nat → Nat → Int) (kh kw : Nat) (wgt : Nat → Nat → Nat → Int) (zp : Int)
    (hH : 0 < H) (hW : 0 < W) (hkh : 0 < kh) (hkw : 0 < kw) (fy fx oy ox : Nat) :
    calcUpscaledPadding false kh kw 1 1 H W fy fx = some (kh - 1, kw - 1, kh - 2, kw - 2) ∧
      transposeConvAcc H W C ifm kh kw wgt 2 2 (tconvRefPad false (H * 2 + (kh - 2)) 2 kh) (tconvRefPad false (W * 2 + (kw - 2)) 2 kw) (-zp) oy ox =
      convAcc (upExtent (H * 2 + (kh - 2)) kh (kh - 1) (kh - 2)) (upExtent (W * 2 + (kw - 2)) kw (kw - 1) (kw - 2)) C
        (zeroInserted 2 2 ifm zp) kh kw (flipped kh kw wgt) 1 1 1 1 (kh - 1) (kw - 1) (-zp) oy ox := by
  obtain ⟨e1, p1, x1⟩ := tconv_pad_axis_valid H kh fy hH hkh
  obtain ⟨e2, p2, x2⟩ := tconv_pad_axis_valid W kw fx hW hkw
  refine ⟨by simp only [calcUpscaledPadding, e1, e2], ?_⟩
  rw [p1, p2, x1, x2]
  have h := tconv_as_conv_eq H W C ifm kh kw wgt 2 2 0 0 (H * 2) (W * 2) zp (-zp) (by omega) (by omega) (by omega) hH hW hkh hkw
    (by omega) (by omega) (by omega) (by omega) oy ox
  simpa using h

/-- the kernel stride matters: the same operator with the TFLite strides (2, 2) left on the kernel (seeded defect C01-r5m1)
    computes another value already on a 2x2 IFM with a 3x3 kernel -/
theorem tconv_stride_kept_witness :
    let ifm : Nat → Nat → Nat → Int := fun y x _ => (y * 2 + x + 1 : Nat)
    let wgt : Nat → Nat → Nat → Int := fun ky kx _ => (ky * 3 + kx + 1 : Nat)
    transposeConvAcc 2 2 1 ifm 3 3 wgt 2 2 0 0 0 1 1 ≠
    convAcc 4 4 1 (zeroInserted 2 2 ifm 0) 3 3 (flipped 3 3 wgt) 2 2 1 1 1 1 0 1 1 := by decide

/-- non-vacuity: 3x3 kernel, 2x3 IFM with 2 channels, SAME, every position of the 4x6 output -/
example :
    let ifm : Nat → Nat → Nat → Int := fun y x c => (y * 7 + x * 3 + c : Nat) - 5
    let wgt : Nat → Nat → Nat → Int := fun ky kx c => (ky : Int) * 4 - kx + c
    (List.range 4).flatMap (fun oy => (List.range 6).map fun ox => transposeConvAcc 2 3 2 ifm 3 3 wgt 2 2 0 0 (-3) oy ox) =
    (List.range 4).flatMap (fun oy => (List.range 6).map fun ox =>
      convAcc 4 6 2 (zeroInserted 2 2 ifm 3) 3 3 (flipped 3 3 wgt) 1 1 1 1 2 2 (-3) oy ox) := by decide
example : calcUpscaledPadding true 3 3 1 1 2 3 2 2 = some (2, 2, 0, 0) ∧ tconvRefPad true 4 2 3 = 0 ∧
    calcUpscaledPadding true 4 5 1 1 2 3 2 2 = some (2, 3, 1, 1) ∧ tconvRefPad true 4 2 4 = 1 ∧
    lowerTconv false 3 3 2 2 4 4 9 9 = some ⟨⟨true, 1, 1⟩, (2, 2, 1, 1)⟩ := by decide

end VelaVerif.Props.C01Rewrites2
