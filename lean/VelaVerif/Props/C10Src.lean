import VelaVerif.Lemmas.SrcNumericUtil
import VelaVerif.Model.Cascade
import VelaVerif.Gen.SrcCascadeBuilder
/-!
# C10 (source tie) — translated `cascade_builder.rolling_buffer_shape` equals `Model/Cascade.lean`

`Gen/SrcCascadeBuilder.lean` is regenerated from the source text of `ethosu/vela/cascade_builder.py` on
every run.  `producer_stripe` / `consumer_stripe_input` are records (`Shape4D`): the attributes read are
parameters; the `Shape4D([n, h, w, c])` result is the list passed to the constructor.
-/
namespace VelaVerif.Props.C10Src
open VelaVerif VelaVerif.PyRt VelaVerif.Cascade
open VelaVerif.Gen.SrcCascadeBuilder

/-- `rolling_buffer_shape(producer_stripe, consumer_stripe_input, consumer_overread)` for all natural
    sizes: `ZeroDivisionError` for a consumer stripe of height 0 (the model's `Err.value`), the model's
    `(height, width, depth)` as `Shape4D([1, height, width, depth])` otherwise -/
theorem src_rolling_buffer_shape_eq_model (pH pW pD cH cW over : Nat) :
    match rollingBufferShape pH pW pD cH cW over with
    | .error _ => rolling_buffer_shape (.py over) (.py cH) (.py cW) (.py pD) (.py pH) (.py pW) = .error .zerodiv
    | .ok (h, w, d) =>
      rolling_buffer_shape (.py over) (.py cH) (.py cW) (.py pD) (.py pH) (.py pW) =
        .ok [.py 1, .py (h : Nat), .py (w : Nat), .py (d : Nat)] := by
  unfold rollingBufferShape
  by_cases hc : cH = 0
  · subst hc
    py_exec [rolling_buffer_shape, SrcNumericUtil.round_up_zero, if_pos, if_neg, (show ((0 : Nat) : Int) = 0 from rfl)]
  · have hpos : 0 < cH := Nat.pos_of_ne_zero hc
    have hover : max ((over : Int) - 1) 0 = ((over - 1 : Nat) : Int) := by omega
    have hsum : (pH : Int) + cH + ((over - 1 : Nat) : Int) = ((pH + cH + (over - 1) : Nat) : Int) := by omega
    have hw : max (pW : Int) (cW : Int) = ((max pW cW : Nat) : Int) := by omega
    have h1 := SrcNumericUtil.round_up_nat (pH + cH + (over - 1)) cH hpos
    have h2 := SrcNumericUtil.round_up_nat pD 16 (by decide)
    simp only [hc, if_false]
    py_exec [rolling_buffer_shape, hover, hsum, hw, h1]
    rw [show (16 : Int) = ((16 : Nat) : Int) from rfl, h2]
    rfl

end VelaVerif.Props.C10Src
