import VelaVerif.Lemmas.SrcNumericUtil
import VelaVerif.Model.Cascade
import VelaVerif.Gen.SrcCascadeBuilder
import VelaVerif.Model.Box
import VelaVerif.Gen.SrcGraphOptimiserUtil
import VelaVerif.Lemmas.SrcShape4d
/-!
# C10 (source tie) — translated `cascade_builder.rolling_buffer_shape` equals `Model/Cascade.lean`

`Gen/SrcCascadeBuilder.lean` is regenerated from the source text of `ethosu/vela/cascade_builder.py` on
every run.  `producer_stripe` / `consumer_stripe_input` are records (`Shape4D`): the attributes read are
parameters; the `Shape4D([n, h, w, c])` result is the list passed to the constructor.

`Gen/SrcGraphOptimiserUtil.lean` (source text of `ethosu/vela/graph_optimiser_util.py`): `needed_total_padding` and
`calc_explicit_padding` against `Model/Box.lean`.  Python's `//` / `%` floor; the model uses Lean's `Int` `/` / `%`,
which agree for a positive stride (hypothesis); stride 0 raises in Python (`_zero_stride_witness`).

`Gen/SrcShape4d.lean` (source text of `ethosu/vela/shape4d.py`): the `Shape4D` methods `clip` (+ static `_clip_len`),
`round_up` (class method), `div_round_up`, `__add__`, `__sub__`, `__floordiv__`, `__mod__`, `elements` against the
component-wise helpers at the end of `Model/Box.lean`.  A `Shape4D` value is the 4-tuple of its fields
(`SrcShape4d.nums`); `Shape4D(n, h, w, c)` with four numbers is taken as the plain named-tuple constructor
(its `__new__` only special-cases a list argument).
-/
namespace VelaVerif.Props.C10Src
open VelaVerif VelaVerif.PyRt VelaVerif.Cascade
open VelaVerif.Gen.SrcCascadeBuilder
open VelaVerif.Gen.SrcGraphOptimiserUtil
open VelaVerif.Gen.SrcShape4d VelaVerif.SrcShape4d VelaVerif.Box

/-- `rolling_buffer_shape(producer_stripe, consumer_stripe_input, consumer_overread)` for all natural
    sizes: `ZeroDivisionError` for a consumer stripe of height 0 (the model's `Err.value`), the model's
    `(height, width, depth)` as `Shape4D([1, height, width, depth])` otherwise -/
theorem src_rolling_buffer_shape_eq_model (pH pW pD cH cW over : Nat) :
    match rollingBufferShape pH pW pD cH cW over with
    | .error _ => rolling_buffer_shape (.py over) (.py cH) (.py cW) (.py pD) (.py pH) (.py pW) = .error .zerodiv
    | .ok (h, w, d) =>
      rolling_buffer_shape (.py over) (.py cH) (.py cW) (.py pD) (.py pH) (.py pW) =
        .ok [.py 1, .py (h : Nat), .py (w : Nat), .py (d : Nat)] := by
  unfold rollingBufferShape
  by_cases hc : cH = 0
  · subst hc
    py_exec [rolling_buffer_shape, SrcNumericUtil.round_up_zero, if_pos, if_neg, (show ((0 : Nat) : Int) = 0 from rfl)]
  · have hpos : 0 < cH := Nat.pos_of_ne_zero hc
    have hover : max ((over : Int) - 1) 0 = ((over - 1 : Nat) : Int) := by omega
    have hsum : (pH : Int) + cH + ((over - 1 : Nat) : Int) = ((pH + cH + (over - 1) : Nat) : Int) := by omega
    have hw : max (pW : Int) (cW : Int) = ((max pW cW : Nat) : Int) := by omega
    have h1 := SrcNumericUtil.round_up_nat (pH + cH + (over - 1)) cH hpos
    have h2 := SrcNumericUtil.round_up_nat pD 16 (by decide)
    simp only [hc, if_false]
    py_exec [rolling_buffer_shape, hover, hsum, hw, h1]
    rw [show (16 : Int) = ((16 : Nat) : Int) from rfl, h2]
    rfl

/-- `needed_total_padding(input_size, stride, filter_size)` = `Box.neededTotalPadding`, all integers, `stride > 0` -/
theorem src_needed_total_padding_eq_model (i s f : Int) (hs : 0 < s) :
    needed_total_padding (.py i) (.py s) (.py f) = .ok (.py (Box.neededTotalPadding i s f)) := by
  unfold Box.neededTotalPadding
  py_exec [needed_total_padding]
  py_finish

/-- stride 0: Python raises `ZeroDivisionError`, the (totalised) model returns a number: outside the model's domain -/
theorem src_needed_total_padding_zero_stride_witness :
    needed_total_padding (.py 5) (.py 0) (.py 3) = .error .zerodiv ∧ Box.neededTotalPadding 5 0 3 = 0 := by
  constructor
  · py_exec [needed_total_padding]
  · decide

/-- `calc_explicit_padding(input_size, stride, filter_size, pad_before, pad_after)` = `Box.calcExplicitPadding`: all
    integer sizes / paddings before, every natural padding after (the model's type), `stride > 0` -/
theorem src_calc_explicit_padding_eq_model (i s f b : Int) (a : Nat) (hs : 0 < s) :
    calc_explicit_padding (.py i) (.py s) (.py f) (.py b) (.py a) =
      .ok (.py (Box.calcExplicitPadding i s f b a).1, .py (Box.calcExplicitPadding i s f b a).2) := by
  unfold Box.calcExplicitPadding
  py_exec [calc_explicit_padding]
  py_finish

/-! ## `Shape4D` arithmetic -/
/-- `Shape4D.clip(self, offset, sub_shape)` (through the static `_clip_len`) = `Box.shapeClip`, all integers -/
theorem src_shape4d_clip_eq_model (s o b : Coord) :
    Shape4D__clip (nums s) (nums o) (nums b) = .ok (nums (shapeClip s o b)) := by
  simp only [Shape4D__clip, nums, clip_len_py, shapeClip]
  rfl
/-- `Shape4D.round_up(lhs, rhs)` = `Box.shapeRoundUp`, all integers, positive quanta -/
theorem src_shape4d_round_up_eq_model (a b : Coord) (hb : 0 < b.n ∧ 0 < b.h ∧ 0 < b.w ∧ 0 < b.c) :
    Shape4D__round_up (nums a) (nums b) = .ok (nums (shapeRoundUp a b)) := by
  simp only [Shape4D__round_up, nums, SrcNumericUtil.round_up_py _ _ hb.1, SrcNumericUtil.round_up_py _ _ hb.2.1,
    SrcNumericUtil.round_up_py _ _ hb.2.2.1, SrcNumericUtil.round_up_py _ _ hb.2.2.2]
  rfl
/-- `Shape4D.div_round_up(self, rhs)` = `Box.shapeDivRoundUp`, all integers, positive divisors -/
theorem src_shape4d_div_round_up_eq_model (a b : Coord) (hb : 0 < b.n ∧ 0 < b.h ∧ 0 < b.w ∧ 0 < b.c) :
    Shape4D__div_round_up (nums a) (nums b) = .ok (nums (shapeDivRoundUp a b)) := by
  simp only [Shape4D__div_round_up, nums, SrcNumericUtil.round_up_divide_py _ _ hb.1, SrcNumericUtil.round_up_divide_py _ _ hb.2.1,
    SrcNumericUtil.round_up_divide_py _ _ hb.2.2.1, SrcNumericUtil.round_up_divide_py _ _ hb.2.2.2]
  rfl
/-- `Shape4D.__add__` = `Box.shapeAdd`, all integers -/
theorem src_shape4d_add_eq_model (a b : Coord) :
    Shape4D____add__ (nums a) (nums b) = .ok (nums (shapeAdd a b)) := by
  unfold nums shapeAdd Coord.map2
  py_exec [Shape4D____add__]
/-- `Shape4D.__sub__` = `Box.shapeSub`, all integers -/
theorem src_shape4d_sub_eq_model (a b : Coord) :
    Shape4D____sub__ (nums a) (nums b) = .ok (nums (shapeSub a b)) := by
  unfold nums shapeSub Coord.map2
  py_exec [Shape4D____sub__]
/-- `Shape4D.__floordiv__` = `Box.shapeFloordiv`, all integers, positive divisors -/
theorem src_shape4d_floordiv_eq_model (a b : Coord) (hb : 0 < b.n ∧ 0 < b.h ∧ 0 < b.w ∧ 0 < b.c) :
    Shape4D____floordiv__ (nums a) (nums b) = .ok (nums (shapeFloordiv a b)) := by
  obtain ⟨h1, h2, h3, h4⟩ := hb
  unfold nums shapeFloordiv Coord.map2
  py_exec [Shape4D____floordiv__]
  try py_finish
/-- `Shape4D.__mod__` = `Box.shapeMod`, all integers, positive divisors -/
theorem src_shape4d_mod_eq_model (a b : Coord) (hb : 0 < b.n ∧ 0 < b.h ∧ 0 < b.w ∧ 0 < b.c) :
    Shape4D____mod__ (nums a) (nums b) = .ok (nums (shapeMod a b)) := by
  obtain ⟨h1, h2, h3, h4⟩ := hb
  unfold nums shapeMod Coord.map2
  py_exec [Shape4D____mod__]
  try py_finish
/-- `Shape4D.elements()` = `Box.shapeElements`, all integers -/
theorem src_shape4d_elements_eq_model (a : Coord) :
    Shape4D__elements (nums a) = .ok (.py (shapeElements a)) := by
  unfold nums shapeElements
  py_exec [Shape4D__elements]

end VelaVerif.Props.C10Src
