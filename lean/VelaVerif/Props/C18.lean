import VelaVerif.Model.Config
import VelaVerif.Spec.Config
namespace VelaVerif.Props.C18
open VelaVerif.Config

theorem placeholder : (1 : Nat) = 1 := rfl

end VelaVerif.Props.C18
