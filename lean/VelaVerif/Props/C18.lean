import VelaVerif.Lemmas.ConfigMain
/-!
# C18 — system configuration and memory mode resolve as documented

Property theorems only.  Model: `Model/Config.lean` (transcription of `_read_config`,
`_get_vela_config`, `ArchitectureFeatures.__init__`, the argument handling of `vela.main`);
documented rules: `Spec/Config.lean`; helpers: `Lemmas/Config.lean`.
The enum names, parser defaults, live default architectures, probed legal areas, the bundled
`Arm/vela.ini` and the section names OPTIONS.md gives for `internal-default` are regenerated
(`Gen/Config.lean`), so every `decide` below is re-checked against the live source and documents.
-/
namespace VelaVerif.Props.C18
open VelaVerif VelaVerif.Config
open VelaVerif.Spec.Config (chain nearest specArch specArchFeatures specMain specCheck Verdict)

/-! ## 1. Inheritance: a section overrides what it inherits, transitively -/

/-- **inherit_child_overrides.**  For every acyclic inheritance chain `s = s₀ → s₁ → … → sₙ` of any
    depth (each `sᵢ` exists and names `sᵢ₊₁ ≠ sᵢ` in `inherit`, `sₙ` has no `inherit`) and any fuel that
    covers the chain, the lookup of `key` returns the value of the *nearest* section defining it
    (`nearestIn` scans child first), or "not defined" if none does — although the code reads the
    parent first and overwrites. -/
theorem inherit_child_overrides {ini : Ini} {s : String} {ch : List (String × Section)} (key : String)
    (h : IsChain ini s ch) (fuel : Nat) (hf : ch.length ≤ fuel) :
    readConfig ini fuel s key = .ok (nearestIn key ch) :=
  readConfig_of_chain key h fuel hf

/-- what "nearest" means: the first section of the chain that defines the key wins, whatever the
    sections behind it say -/
theorem nearest_is_first_definer (key v : String) (pre post : List (String × Section)) (t : String) (o : Section)
    (hpre : ∀ p ∈ pre, p.2.lookup key = none) (ho : o.lookup key = some v) :
    nearestIn key (pre ++ (t, o) :: post) = some v := by
  induction pre with
  | nil => simp [nearestIn, ho]
  | cons p ps ih =>
    have hp : p.2.lookup key = none := hpre p (by simp)
    have := ih (fun q hq => hpre q (by simp [hq]))
    simp only [nearestIn, List.cons_append, List.findSome?, hp] at this ⊢
    exact this

theorem nearest_none_iff_undefined (key : String) (ch : List (String × Section)) :
    nearestIn key ch = none ↔ ∀ p ∈ ch, p.2.lookup key = none := by
  simp [nearestIn, List.findSome?_eq_none_iff]

/-- **readConfig_terminates.**  On an acyclic chain the fuel the model uses (`number of sections + 1`)
    is sufficient: the fuel never changes a result. -/
theorem readConfig_terminates {ini : Ini} {s : String} {ch : List (String × Section)} (key : String)
    (h : IsChain ini s ch) : readConfig ini (fuelFor ini) s key = .ok (nearestIn key ch) :=
  readConfig_of_chain key h _ (by have := h.length_le; unfold fuelFor; omega)

/-- a chain that ends is acyclic -/
theorem chain_is_acyclic {ini : Ini} {s : String} {ch : List (String × Section)} (h : IsChain ini s ch) :
    (ch.map Prod.fst).Nodup := h.names_nodup

/-- The code's lookup and the documented rule (`Spec.chain` + `Spec.nearest`) agree for *every* file,
    section, key and fuel — also on when to reject (unknown section, self reference, cycle). -/
theorem readConfig_is_documented_lookup (ini : Ini) (key : String) (fuel : Nat) (s : String) :
    (readConfig ini fuel s key).toOption = (chain ini fuel s).map (nearest key) :=
  readConfig_eq_chain ini key fuel s

/-- non-vacuity: a chain of depth 3 in which child, parent and grandparent all define `k` -/
def exIni : Ini :=
  [ ("Memory_Mode.A", [("inherit", "Memory_Mode.B"), ("k", "child")]),
    ("Memory_Mode.B", [("k", "parent"), ("inherit", "Memory_Mode.C"), ("j", "parent-j")]),
    ("Memory_Mode.C", [("k", "grandparent"), ("j", "grandparent-j"), ("i", "grandparent-i")]) ]

example : IsChain exIni "Memory_Mode.A"
    [ ("Memory_Mode.A", [("inherit", "Memory_Mode.B"), ("k", "child")]),
      ("Memory_Mode.B", [("k", "parent"), ("inherit", "Memory_Mode.C"), ("j", "parent-j")]),
      ("Memory_Mode.C", [("k", "grandparent"), ("j", "grandparent-j"), ("i", "grandparent-i")]) ] :=
  .step (by decide) (by decide) (by decide) (.step (by decide) (by decide) (by decide) (.last (by decide) (by decide)))

example : readConfig exIni (fuelFor exIni) "Memory_Mode.A" "k" = .ok (some "child") := by decide
example : readConfig exIni (fuelFor exIni) "Memory_Mode.A" "j" = .ok (some "parent-j") := by decide
example : readConfig exIni (fuelFor exIni) "Memory_Mode.A" "i" = .ok (some "grandparent-i") := by decide
example : readConfig exIni (fuelFor exIni) "Memory_Mode.A" "h" = .ok none := by decide

/-! ### cycles (observation; the property only lists self-inheritance) -/

/-- **readConfig_cycle_partial.**  Full statement: "for an `inherit` cycle of length ≥ 2 the Python
    recursion does not terminate".  Proved about the model: from any section of a set closed under
    `inherit` (every member's parent is another member) the lookup exhausts *every* amount of fuel, so no
    fuel bound exists; what is missing for the full statement is Python's own semantics (the real run ends
    in `RecursionError`, observed by the correspondence run as `err:recursion`). -/
theorem readConfig_cycle_partial (ini : Ini) (key : String) (S : String → Prop)
    (hS : ∀ s, S s → ∃ o p, ini.lookup s = some o ∧ o.lookup "inherit" = some p ∧ p ≠ s ∧ S p)
    (s : String) (hs : S s) : ¬ ∃ fuel r, readConfig ini fuel s key = .ok r := by
  rintro ⟨fuel, r, h⟩
  rw [readConfig_closed_set ini key S hS fuel s hs] at h
  cases h

def exCycle : Ini :=
  [ ("System_Config.A", [("inherit", "System_Config.B"), ("core_clock", "1e9")]),
    ("System_Config.B", [("inherit", "System_Config.A")]) ]

/-- a two-section cycle: even a key the child defines itself is never delivered -/
theorem two_cycle_never_resolves (fuel : Nat) :
    readConfig exCycle fuel "System_Config.A" "core_clock" = .error .recursion := by
  apply readConfig_closed_set exCycle "core_clock" (fun s => s = "System_Config.A" ∨ s = "System_Config.B")
  · intro s hs
    rcases hs with rfl | rfl
    · exact ⟨[("inherit", "System_Config.B"), ("core_clock", "1e9")], "System_Config.B", by decide, by decide,
        by decide, Or.inr rfl⟩
    · exact ⟨[("inherit", "System_Config.A")], "System_Config.A", by decide, by decide, by decide, Or.inl rfl⟩
  · exact Or.inl rfl

/-! ## 2. Unspecified options take the documented defaults -/

/-- **defaults_when_absent** (system configuration section): an option that no section of the chain
    defines gets "1 or the equivalent": clock 1, `MemArea(1)` = Sram for both ports. -/
theorem defaults_when_absent_sys {rd : Reader} {s : SysCfg} (h : sysFromFile rd = .ok s) :
    (rd "core_clock" = .ok none → s.coreClock = Dy.one) ∧
    (rd "axi0_port" = .ok none → s.axi0 = .sram) ∧
    (rd "axi1_port" = .ok none → s.axi1 = .sram) := by
  obtain ⟨rcc, ra0, ra1, t0, h1, h2, h3, h4, h5, h6, _, _⟩ := sysFromFile_ok h
  refine ⟨fun hn => ?_, fun hn => ?_, fun hn => ?_⟩
  · rw [hn] at h1; cases h1; simp [fieldOr] at h2; exact h2.symm
  · rw [hn] at h3; cases h3; simp [fieldOr] at h4; exact h4.symm
  · rw [hn] at h5; cases h5; simp [fieldOr] at h6; exact h6.symm

/-- per-area options of an area selected by a port: scale 1, burst 1, latencies 0 when absent
    (the arrays start as `np.ones`, `np.ones(int)`, `np.zeros`) -/
theorem defaults_when_absent_area {rd : Reader} {t : Tab} {a : MemArea}
    (h : readArea rd Tab.init a = .ok t)
    (h1 : rd (a.key ++ "_clock_scale") = .ok none) (h2 : rd (a.key ++ "_burst_length") = .ok none)
    (h3 : rd (a.key ++ "_read_latency") = .ok none) (h4 : rd (a.key ++ "_write_latency") = .ok none) :
    t = Tab.init := by
  obtain ⟨row, r1, r2, r3, r4, sc, bl, rl, wl, hg, e1, f1, e2, f2, e3, f3, e4, f4, ht⟩ := readArea_ok h
  rw [h1] at e1; cases e1
  rw [h2] at e2; cases e2
  rw [h3] at e3; cases e3
  rw [h4] at e4; cases e4
  have hrow : row = Row.init := by cases a <;> simp_all [Tab.get?, Tab.init]
  subst hrow
  rw [intField_none _ (by decide)] at f2 f3 f4
  simp only [fieldOr] at f1
  cases f1; cases f2; cases f3; cases f4
  subst ht
  cases a <;> rfl

/-- memory mode section: areas default to `MemPort(1)` = Axi0, the size to the maximum address -/
theorem defaults_when_absent_mem {rd : Reader} {maxAddr : Nat} {m : MemCfg} (h : memFromFile rd maxAddr = .ok m) :
    (rd "const_mem_area" = .ok none → m.constPort = .axi0) ∧
    (rd "arena_mem_area" = .ok none → m.arenaPort = .axi0) ∧
    (rd "cache_mem_area" = .ok none → m.cachePort = .axi0) ∧
    (rd "arena_cache_size" = .ok none → m.size = maxAddr) := by
  obtain ⟨rc, ra, rk, rs, h1, h2, h3, h4, h5, h6, h7, h8⟩ := memFromFile_ok h
  refine ⟨fun hn => ?_, fun hn => ?_, fun hn => ?_, fun hn => ?_⟩
  · rw [hn] at h1; cases h1; simp [fieldOr] at h2; exact h2.symm
  · rw [hn] at h3; cases h3; simp [fieldOr] at h4; exact h4.symm
  · rw [hn] at h5; cases h5; simp [fieldOr] at h6; exact h6.symm
  · rw [hn] at h7; cases h7; simp [fieldOr] at h8; exact h8.symm

/-- **defaults_when_absent** at the level of the resolved architecture: with a file that has both selected
    sections, an accepted configuration has clock 1 when `core_clock` is nowhere in the chain, and —
    without a command-line size — the maximum address when `arena_cache_size` is nowhere in the chain. -/
theorem defaults_when_absent {inp : Input} {ini : Ini} {a : Arch} (h : getVelaConfig inp = .ok a)
    (hini : inp.ini = some ini)
    (hsys : ini.hasSection ("System_Config." ++ inp.systemConfig) = true)
    (hmem : ini.hasSection ("Memory_Mode." ++ inp.memoryMode) = true) :
    (readConfig ini (fuelFor ini) ("System_Config." ++ inp.systemConfig) "core_clock" = .ok none →
      a.coreClock = Dy.one) ∧
    (inp.cli = none →
      readConfig ini (fuelFor ini) ("Memory_Mode." ++ inp.memoryMode) "arena_cache_size" = .ok none →
      a.arenaCacheSize = inp.maxAddr) ∧
    (readConfig ini (fuelFor ini) ("Memory_Mode." ++ inp.memoryMode) "arena_mem_area" = .ok none →
      a.arenaPort = .axi0) ∧
    (readConfig ini (fuelFor ini) ("Memory_Mode." ++ inp.memoryMode) "cache_mem_area" = .ok none →
      a.cachePort = .axi0) := by
  obtain ⟨s, m, hs, hm, hf⟩ := getVelaConfig_ok h
  obtain ⟨_, _, _, _, _, hsz, _, _, _, hcc, hap, hkp⟩ := finalize_ok hf
  simp only [sysStage, hini, hsys, if_true] at hs
  simp only [memStage, hini, hmem, if_true] at hm
  have ds := defaults_when_absent_sys hs
  have dm := defaults_when_absent_mem hm
  refine ⟨fun hn => ?_, fun hc hn => ?_, fun hn => ?_, fun hn => ?_⟩
  · rw [hcc]; exact ds.1 hn
  · rw [hsz, hc]; exact dm.2.2.2 hn
  · rw [hap]; exact dm.2.1 hn
  · rw [hkp]; exact dm.2.2.1 hn

/-- the `internal-default` values (no file, nothing on the command line), Ethos-U65:
    Client-Server system (1 GHz, Sram 1.0/32/32/32, Dram 0.75/128/500/250), Dedicated SRAM, 384 KiB -/
theorem internal_default_u65 (maxAddr : Nat) (h : 393216 ≤ maxAddr) :
    getVelaConfig { ini := none, isU65 := true, maxAddr := maxAddr, systemConfig := defaultName,
                    memoryMode := defaultName, cli := none } =
      .ok { coreClock := ⟨false, 1953125, 9⟩, axi0 := .sram, axi1 := .dram,
            tab := { Tab.init with sram := ⟨Dy.one, 32, 32, 32⟩, dram := ⟨⟨false, 3, -2⟩, 128, 500, 250⟩ },
            constPort := .axi1, arenaPort := .axi1, cachePort := .axi0, arenaCacheSize := 393216,
            permanent := .dram, featureMap := .dram, fast := .sram } := by
  rw [getVelaConfig_of_stages _ _ _ (sysStage_no_file _ rfl rfl) (memStage_no_file _ rfl rfl)]
  exact finalize_default_u65 maxAddr h

/-- Ethos-U55: High-End Embedded (500 MHz, Sram 1.0/32/32/32, OffChipFlash 0.125/128/64/64), Shared SRAM,
    size = maximum address -/
theorem internal_default_u55 (maxAddr : Nat) :
    getVelaConfig { ini := none, isU65 := false, maxAddr := maxAddr, systemConfig := defaultName,
                    memoryMode := defaultName, cli := none } =
      .ok { coreClock := ⟨false, 1953125, 8⟩, axi0 := .sram, axi1 := .offChipFlash,
            tab := { Tab.init with sram := ⟨Dy.one, 32, 32, 32⟩, offChipFlash := ⟨⟨false, 1, -3⟩, 128, 64, 64⟩ },
            constPort := .axi1, arenaPort := .axi0, cachePort := .axi0, arenaCacheSize := maxAddr,
            permanent := .offChipFlash, featureMap := .sram, fast := .sram } := by
  rw [getVelaConfig_of_stages _ _ _ (sysStage_no_file _ rfl rfl) (memStage_no_file _ rfl rfl)]
  exact finalize_default_u55 maxAddr

/-! ## 3. A command-line arena cache size overrides the file -/

/-- **cli_overrides_file.**  Whatever the files, the selections and the accelerator: if a size is given on
    the command line and the configuration is accepted, the size used is the command line's. -/
theorem cli_overrides_file (inp : Input) (v : Int) (a : Arch)
    (h : getVelaConfig { inp with cli := some v } = .ok a) : a.arenaCacheSize = v := by
  obtain ⟨s, m, _, _, hf⟩ := getVelaConfig_ok h
  exact (finalize_ok hf).2.2.2.2.2.1

/-- … and without one, it is the memory mode's (file value, section default or internal default) -/
theorem file_size_without_cli (inp : Input) (a : Arch)
    (h : getVelaConfig { inp with cli := none } = .ok a) :
    ∃ m, memStage inp = .ok m ∧ a.arenaCacheSize = m.size := by
  obtain ⟨s, m, _, hm, hf⟩ := getVelaConfig_ok h
  exact ⟨m, hm, (finalize_ok hf).2.2.2.2.2.1⟩

/-- the command-line size influences nothing but the size -/
theorem cli_changes_only_size (inp : Input) (c1 c2 : Option Int) (a1 a2 : Arch)
    (h1 : getVelaConfig { inp with cli := c1 } = .ok a1) (h2 : getVelaConfig { inp with cli := c2 } = .ok a2) :
    { a1 with arenaCacheSize := 0 } = { a2 with arenaCacheSize := 0 } := by
  obtain ⟨s1, m1, hs1, hm1, hf1⟩ := getVelaConfig_ok h1
  obtain ⟨s2, m2, hs2, hm2, hf2⟩ := getVelaConfig_ok h2
  have es : s1 = s2 := by
    have : sysStage { inp with cli := c1 } = sysStage { inp with cli := c2 } := rfl
    rw [this, hs2] at hs1; cases hs1; rfl
  have em : m1 = m2 := by
    have : memStage { inp with cli := c1 } = memStage { inp with cli := c2 } := rfl
    rw [this, hm2] at hm1; cases hm1; rfl
  subst es em
  simp only [finalize] at hf1 hf2
  obtain ⟨_, _, _, _, _, e1⟩ := checkArch_ok hf1
  obtain ⟨_, _, _, _, _, e2⟩ := checkArch_ok hf2
  rw [e1, e2]

/-! ## 4. Rejections: an error, never a silent default -/

/-- **rejects (unknown system configuration).**  A name other than `internal-default` that no given file
    defines — or no file at all — is an error. -/
theorem rejects_unknown_system_config (inp : Input) (hname : (inp.systemConfig == defaultName) = false)
    (hno : ∀ ini, inp.ini = some ini → ini.hasSection ("System_Config." ++ inp.systemConfig) = false) :
    getVelaConfig inp = .error .cliConfig ∨ getVelaConfig inp = .error .cliSystemConfig := by
  cases hini : inp.ini with
  | none =>
    left
    apply getVelaConfig_sys_error
    simp [sysStage, hini, hname]
  | some ini =>
    right
    apply getVelaConfig_sys_error
    simp [sysStage, hini, hno ini hini, hname]

/-- **rejects (unknown memory mode).** -/
theorem rejects_unknown_memory_mode (inp : Input) (hname : (inp.memoryMode == defaultName) = false)
    (hno : ∀ ini, inp.ini = some ini → ini.hasSection ("Memory_Mode." ++ inp.memoryMode) = false) :
    ∃ e, getVelaConfig inp = .error e := by
  cases hs : sysStage inp with
  | error e => exact ⟨e, getVelaConfig_sys_error hs⟩
  | ok s =>
    cases hini : inp.ini with
    | none => exact ⟨.cliConfig, getVelaConfig_mem_error hs (by simp [memStage, hini, hname])⟩
    | some ini => exact ⟨.cliMemoryMode, getVelaConfig_mem_error hs (by simp [memStage, hini, hno ini hini, hname])⟩

/-- **rejects (bad inheritance).**  Whenever the documented chain rule rejects the selected system
    configuration section — a parent that is not in the files, a section naming itself (at any depth), a
    cycle — resolution ends in an error, whatever else the sections define. -/
theorem rejects_bad_system_chain (inp : Input) (ini : Ini) (hini : inp.ini = some ini)
    (hsec : ini.hasSection ("System_Config." ++ inp.systemConfig) = true)
    (hbad : chain ini (fuelFor ini) ("System_Config." ++ inp.systemConfig) = none) :
    ∃ e, getVelaConfig inp = .error e := by
  have h := readConfig_eq_chain ini "core_clock" (fuelFor ini) ("System_Config." ++ inp.systemConfig)
  rw [hbad] at h
  cases hr : readConfig ini (fuelFor ini) ("System_Config." ++ inp.systemConfig) "core_clock" with
  | ok r => rw [hr] at h; simp [Except.toOption] at h
  | error e =>
    refine ⟨e, getVelaConfig_sys_error ?_⟩
    simp [sysStage, hini, hsec, sysFromFile, hr, bind, Except.bind]

theorem rejects_bad_memory_chain (inp : Input) (ini : Ini) (hini : inp.ini = some ini)
    (hsec : ini.hasSection ("Memory_Mode." ++ inp.memoryMode) = true)
    (hbad : chain ini (fuelFor ini) ("Memory_Mode." ++ inp.memoryMode) = none) :
    ∃ e, getVelaConfig inp = .error e := by
  cases hs : sysStage inp with
  | error e => exact ⟨e, getVelaConfig_sys_error hs⟩
  | ok s =>
    have h := readConfig_eq_chain ini "const_mem_area" (fuelFor ini) ("Memory_Mode." ++ inp.memoryMode)
    rw [hbad] at h
    cases hr : readConfig ini (fuelFor ini) ("Memory_Mode." ++ inp.memoryMode) "const_mem_area" with
    | ok r => rw [hr] at h; simp [Except.toOption] at h
    | error e =>
      refine ⟨e, getVelaConfig_mem_error hs ?_⟩
      simp [memStage, hini, hsec, memFromFile, hr, bind, Except.bind]

/-- **rejects (self-inheritance)**, the documented special case: the selected section names itself -/
theorem rejects_self_inherit (inp : Input) (ini : Ini) (o : Section) (hini : inp.ini = some ini)
    (hsec : ini.lookup ("System_Config." ++ inp.systemConfig) = some o)
    (hself : o.lookup "inherit" = some ("System_Config." ++ inp.systemConfig)) :
    getVelaConfig inp = .error .selfInherit := by
  apply getVelaConfig_sys_error
  have hr := readConfig_self_inherit ini ini.length _ "core_clock" o hsec hself
  have hs : ini.hasSection ("System_Config." ++ inp.systemConfig) = true := by simp [Ini.hasSection, hsec]
  simp only [sysStage, hini, hs, if_true, sysFromFile, fuelFor, hr, bind, Except.bind]

/-- **rejects (illegal memory-area mapping, out-of-range size)** as soundness of acceptance: whatever is
    accepted has its constants in Dram/OnChipFlash/OffChipFlash, its arena in Sram/Dram, its cache in Sram,
    each being the area of the port the memory mode assigns, and `0 ≤ size ≤ max_address_offset`. -/
theorem accepted_is_legal (inp : Input) (a : Arch) (h : getVelaConfig inp = .ok a) :
    (a.permanent = .dram ∨ a.permanent = .onChipFlash ∨ a.permanent = .offChipFlash) ∧
    (a.featureMap = .sram ∨ a.featureMap = .dram) ∧ a.fast = .sram ∧
    a.permanent = portArea a.axi0 a.axi1 a.constPort ∧
    a.featureMap = portArea a.axi0 a.axi1 a.arenaPort ∧
    a.fast = portArea a.axi0 a.axi1 a.cachePort ∧
    0 ≤ a.arenaCacheSize ∧ a.arenaCacheSize ≤ (inp.maxAddr : Int) := by
  obtain ⟨s, m, _, _, hf⟩ := getVelaConfig_ok h
  obtain ⟨h1, h2, h3, h4, h5, _, h7, h8, h9, _⟩ := finalize_ok hf
  refine ⟨?_, ?_, ?_, h7, h8, h9, h4, h5⟩
  · revert h1; cases a.permanent <;> simp [legalConstArea]
  · revert h2; cases a.featureMap <;> simp [legalArenaArea]
  · revert h3; cases a.fast <;> simp [legalCacheArea]

/-- consequence: an accepted configuration has one AXI port on Sram and the other on one of the three
    documented non-Sram memories — none of `Unknown`, `Shram`, `Size` survives -/
theorem accepted_ports_documented (inp : Input) (a : Arch) (h : getVelaConfig inp = .ok a) :
    (a.axi0 = .sram ∧ (a.axi1 = .dram ∨ a.axi1 = .onChipFlash ∨ a.axi1 = .offChipFlash)) ∨
    (a.axi1 = .sram ∧ (a.axi0 = .dram ∨ a.axi0 = .onChipFlash ∨ a.axi0 = .offChipFlash)) := by
  obtain ⟨h1, _, h3, h4, _, h6, _, _⟩ := accepted_is_legal inp a h
  rw [h4] at h1
  rw [h6] at h3
  revert h1 h3
  cases a.constPort <;> cases a.cachePort <;> simp only [portArea] <;> intro h1 h3 <;> simp_all

/-- the individual diagnostics, in the order the code raises them -/
theorem rejects_illegal_const (maxAddr : Nat) (s : SysCfg) (m : MemCfg) (size : Int)
    (h : legalConstArea (portArea s.axi0 s.axi1 m.constPort) = false) :
    checkArch maxAddr s m size = .error .cfgConst := by
  simp [checkArch, h]

theorem rejects_illegal_arena (maxAddr : Nat) (s : SysCfg) (m : MemCfg) (size : Int)
    (hc : legalConstArea (portArea s.axi0 s.axi1 m.constPort) = true)
    (h : legalArenaArea (portArea s.axi0 s.axi1 m.arenaPort) = false) :
    checkArch maxAddr s m size = .error .cfgArena := by
  simp [checkArch, hc, h]

theorem rejects_illegal_cache (maxAddr : Nat) (s : SysCfg) (m : MemCfg) (size : Int)
    (hc : legalConstArea (portArea s.axi0 s.axi1 m.constPort) = true)
    (ha : legalArenaArea (portArea s.axi0 s.axi1 m.arenaPort) = true)
    (h : legalCacheArea (portArea s.axi0 s.axi1 m.cachePort) = false) :
    checkArch maxAddr s m size = .error .cfgCache := by
  simp [checkArch, hc, ha, h]

/-- **rejects (out-of-range size)**: with legal areas, a negative size and a size above the maximum
    address offset are errors — from the file and from the command line alike (`size` is whichever was chosen) -/
theorem rejects_out_of_range_size (maxAddr : Nat) (s : SysCfg) (m : MemCfg) (size : Int)
    (hc : legalConstArea (portArea s.axi0 s.axi1 m.constPort) = true)
    (ha : legalArenaArea (portArea s.axi0 s.axi1 m.arenaPort) = true)
    (hk : legalCacheArea (portArea s.axi0 s.axi1 m.cachePort) = true) :
    (size < 0 → checkArch maxAddr s m size = .error .cfgSizeNeg) ∧
    (size > (maxAddr : Int) → checkArch maxAddr s m size = .error .cfgSizeBig) := by
  constructor
  · intro h; simp [checkArch, hc, ha, hk, h]
  · intro h
    have h0 : ¬ size < 0 := by omega
    simp [checkArch, hc, ha, hk, h, h0]

/-- malformed values are errors too: a number that does not parse, a port/area name that is not a member -/
theorem rejects_malformed_value {α : Type} (v : String) (d : α) (p : String → Option α) (e : Err) (h : p v = none) :
    fieldOr (some v) d p e = .error e := by
  simp [fieldOr, h]

/-! ### non-vacuity of sections 2–4 on concrete files -/

def exFile : Ini :=
  [ ("System_Config.Empty", []),
    ("System_Config.Flash", [("axi0_port", "Sram"), ("axi1_port", "OffChipFlash"), ("offchipflash_burst_length", "128")]),
    ("System_Config.Self", [("inherit", "System_Config.Self"), ("core_clock", "1e9")]),
    ("System_Config.Orphan", [("inherit", "System_Config.Nowhere"), ("core_clock", "1e9")]),
    ("Memory_Mode.Empty", []),
    ("Memory_Mode.Shared", [("const_mem_area", "Axi1"), ("arena_mem_area", "Axi0"), ("cache_mem_area", "Axi0")]),
    ("Memory_Mode.Small", [("inherit", "Memory_Mode.Shared"), ("arena_cache_size", "65536")]),
    ("Memory_Mode.Negative", [("inherit", "Memory_Mode.Shared"), ("arena_cache_size", "-1")]),
    ("Memory_Mode.Huge", [("inherit", "Memory_Mode.Shared"), ("arena_cache_size", "4294967297")]),
    ("Memory_Mode.ConstInSram", [("const_mem_area", "Axi0"), ("arena_mem_area", "Axi1"), ("cache_mem_area", "Axi0")]),
    ("Memory_Mode.ArenaInFlash", [("const_mem_area", "Axi1"), ("arena_mem_area", "Axi1"), ("cache_mem_area", "Axi0")]),
    ("Memory_Mode.CacheInFlash", [("const_mem_area", "Axi1"), ("arena_mem_area", "Axi0"), ("cache_mem_area", "Axi1")]) ]

def exInput (sys mem : String) (cli : Option Int) : Input :=
  { ini := some exFile, isU65 := false, maxAddr := 2 ^ 32, systemConfig := sys, memoryMode := mem, cli := cli }

/-- empty sections: every option takes its default (clock 1, both ports Sram, areas Axi0, size 2^32); the
    resulting all-in-one-Sram arrangement puts the constants on the other port as OnChipFlash -/
example : (getVelaConfig (exInput "Empty" "Empty" none)).toOption.map
    (fun a => (a.coreClock, a.axi0, a.axi1, a.arenaCacheSize, a.tab)) =
    some (Dy.one, .sram, .onChipFlash, 4294967296, Tab.init) := by decide
example : (getVelaConfig (exInput "Empty" "Empty" none)).toOption.map
    (fun a => (a.constPort, a.arenaPort, a.cachePort, a.permanent, a.featureMap)) =
    some (.axi1, .axi0, .axi0, .onChipFlash, .sram) := by decide
/-- child size over the parent's mapping; the command line over the child -/
example : (getVelaConfig (exInput "Flash" "Small" none)).toOption.map (·.arenaCacheSize) = some 65536 := by decide
example : (getVelaConfig (exInput "Flash" "Small" (some 1024))).toOption.map (·.arenaCacheSize) = some 1024 := by decide
example : (getVelaConfig (exInput "Flash" "Shared" none)).toOption.map (·.arenaCacheSize) = some 4294967296 := by decide
/-- each rejection of the property's list -/
example : getVelaConfig (exInput "Missing" "Shared" none) = .error .cliSystemConfig := by decide
example : getVelaConfig (exInput "Flash" "Missing" none) = .error .cliMemoryMode := by decide
example : getVelaConfig { exInput "Missing" "Shared" none with ini := none } = .error .cliConfig := by decide
example : getVelaConfig (exInput "Self" "Shared" none) = .error .selfInherit := by decide
example : getVelaConfig (exInput "Orphan" "Shared" none) = .error .sectionNotFound := by decide
example : getVelaConfig (exInput "Flash" "ConstInSram" none) = .error .cfgConst := by decide
example : getVelaConfig (exInput "Flash" "ArenaInFlash" none) = .error .cfgArena := by decide
example : getVelaConfig (exInput "Flash" "CacheInFlash" none) = .error .cfgCache := by decide
example : getVelaConfig (exInput "Flash" "Negative" none) = .error .cfgSizeNeg := by decide
example : getVelaConfig (exInput "Flash" "Huge" none) = .error .cfgSizeBig := by decide
example : getVelaConfig (exInput "Flash" "Shared" (some (-5))) = .error .cfgSizeNeg := by decide
example : getVelaConfig (exInput "Flash" "Shared" (some (2 ^ 32 + 1))) = .error .cfgSizeBig := by decide
example : (getVelaConfig (exInput "Flash" "Shared" (some (2 ^ 32)))).toOption.map (·.arenaCacheSize) = some (2 ^ 32) := by decide

/-! ## 5. The resolution as a whole follows the documented rules -/

/-- **model_meets_documented_rules.**  For *every* input of `ArchitectureFeatures` (any parsed files, any
    selection, any accelerator family and address width, any command-line size) the model's outcome is one
    the rules of OPTIONS.md (`Spec.specArch`, written independently: nearest-definition lookup over the
    chain, the documented defaults, the example-file sections for `internal-default`, the Sram-only
    arrangement, CLI override, legality and range) allow: the same values when the rules accept, some error
    when they reject.  (`imx93 = false`: the i.MX93 default system configuration of vela.py is not documented.) -/
theorem model_meets_documented_rules (inp : Input) (h : inp.imx93 = false) :
    specCheck (specArch inp.ini inp.isU65 inp.maxAddr inp.systemConfig inp.memoryMode inp.cli)
      (getVelaConfig inp).toOption = true :=
  specCheck_of_refines (getVelaConfig_refines inp h)

/-- spelled out: accepted by the rules ⇒ the model returns exactly the documented parameters -/
theorem documented_accept_is_exact (inp : Input) (h : inp.imx93 = false) (b : Arch)
    (hs : specArch inp.ini inp.isU65 inp.maxAddr inp.systemConfig inp.memoryMode inp.cli = .accept b) :
    getVelaConfig inp = .ok b := by
  have := getVelaConfig_refines inp h
  rw [hs] at this
  obtain ⟨a, ha, hr⟩ := this
  rw [ha, hr]

/-- rejected by the rules ⇒ the model raises an error (never a silent default) -/
theorem documented_reject_is_error (inp : Input) (h : inp.imx93 = false)
    (hs : specArch inp.ini inp.isU65 inp.maxAddr inp.systemConfig inp.memoryMode inp.cli = .reject) :
    ∃ e, getVelaConfig inp = .error e := by
  have := getVelaConfig_refines inp h
  rw [hs] at this
  exact this

/-- non-vacuity on the bundled example file: the documented `Dedicated_Sram_512KB` child overrides its
    parent's 393216 bytes, the rest is inherited -/
def exBundled : Input :=
  { ini := some Gen.Cfg.bundledArmIni, isU65 := true, maxAddr := 2 ^ 40,
    systemConfig := "Ethos_U65_High_End", memoryMode := "Dedicated_Sram_512KB", cli := none }

example : (getVelaConfig exBundled).toOption.map
      (fun a => (a.arenaCacheSize, a.constPort, a.arenaPort, a.cachePort)) = some (524288, .axi1, .axi1, .axi0) := by
  decide

/-- the same for the constructor call `ArchitectureFeatures(files, accelerator, system_config, memory_mode, …,
    arena_cache_size)` with files on disk: unknown accelerator, unreadable/unparsable files, merge of several
    files, then the rules above -/
theorem direct_construction_meets_documented_rules (env : Env) (files : Option (List String))
    (acc sys mem : String) (cli : Option Int) :
    specCheck (specArchFeatures env files acc sys mem cli) (archFeatures env files 0 acc sys mem cli).toOption = true :=
  specCheck_of_refines (archFeatures_refines env files acc sys mem cli)

/-! ## 6. `vela.main`: the command line -/

/-- **main_fixed_meets_documented_rules.**  The argument handling of `main()` *with the repairs proposed in
    design.d/C18.md* (`Variant.documented`: the resolved `config_files` are handed to `ArchitectureFeatures`,
    `--arena-cache-size` has no parser default, no undocumented i.MX93 default configuration, the documented
    accelerator default) follows the documented rules for every file system, working directory and command line:
    `.ini` extension, `Dir/file.ini` under the bundled directory, other paths as given, unreadable files rejected,
    several `--config` merged, selections, CLI size. -/
theorem main_fixed_meets_documented_rules (env : Env) (a : MainArgs) :
    specCheck (specMain env a) (mainArch Variant.documented env a).toOption = true :=
  specCheck_of_refines (mainArch_refines env a)

/-- **bundled_lookup.**  When `main()` hands on the paths it resolved (`passResolved`), the bundled directory
    is absolute and every `--config` has the shape `Dir/file.ini`, the outcome does not depend on the working
    directory the tool is started from — whatever the other switches of the variant are. -/
theorem bundled_lookup (v : Variant) (hv : v.passResolved = true) (env : Env)
    (hb : env.bundled.toList.head? = some '/') (cwd1 cwd2 : String) (a : MainArgs)
    (hall : ∀ c ∈ a.configs, twoComponents (normpath c).toList = true) :
    mainArch v { env with cwd := cwd1 } a = mainArch v { env with cwd := cwd2 } a :=
  mainArch_cwd_independent v hv env hb cwd1 cwd2 a hall

/-- and such a name is looked up under the bundled directory -/
theorem bundled_lookup_target (env : Env) (c : String) (h : twoComponents (normpath c).toList = true) :
    configTarget env c = pathJoin env.bundled (normpath c) := by
  simp [configTarget, h]

example : twoComponents (normpath "Arm/vela.ini").toList = true := by decide
example : twoComponents (normpath "./Arm//vela.ini").toList = true := by decide
example : twoComponents (normpath "/abs/vela.ini").toList = false := by decide
example : twoComponents (normpath "vela.ini").toList = false := by decide
example : twoComponents (normpath "../Arm/vela.ini").toList = false := by decide
example : twoComponents (normpath "a/b/vela.ini").toList = false := by decide

/-! ### the code as written: witnesses (reproduced on the real `vela.main` by the correspondence run) -/

def wIni : Ini :=
  [ ("System_Config.Sys", [("core_clock", "1e9"), ("axi0_port", "Sram"), ("axi1_port", "Dram")]),
    ("Memory_Mode.Parent", [("const_mem_area", "Axi1"), ("arena_mem_area", "Axi1"), ("cache_mem_area", "Axi0"),
      ("arena_cache_size", "393216")]),
    ("Memory_Mode.Child", [("inherit", "Memory_Mode.Parent"), ("arena_cache_size", "524288")]) ]

def wEnv (cwd : String) : Env := ⟨"/pkg/config_files", cwd, [("/pkg/config_files/Vendor/soc.ini", some wIni)]⟩

def wArgs : MainArgs := ⟨["Vendor/soc.ini"], some "ethos-u65-256", some "Sys", some "Child", none⟩

/-- **bundled_lookup_witness** (statement "`Dir/file.ini` is looked up in the bundled directory" is false of
    the unchanged `main()`, which passes `args.config` on): the documented command line fails with "Section not
    found" from a working directory other than the bundled one, and works from the bundled one. -/
theorem bundled_lookup_witness :
    mainArch ⟨false, none, 0, "ethos-u65-256"⟩ (wEnv "/home/user") wArgs = .error .cliSystemConfig ∧
    (mainArch ⟨false, none, 0, "ethos-u65-256"⟩ (wEnv "/pkg/config_files") wArgs).toOption.map (·.arenaCacheSize)
      = some 524288 ∧
    (mainArch ⟨true, none, 0, "ethos-u65-256"⟩ (wEnv "/home/user") wArgs).toOption.map (·.arenaCacheSize)
      = some 524288 ∧
    specCheck (specMain (wEnv "/home/user") wArgs)
      (mainArch ⟨false, none, 0, "ethos-u65-256"⟩ (wEnv "/home/user") wArgs).toOption = false := by decide

/-- **parser_default_shadows_file.**  With a parser default `d` for `--arena-cache-size`, every accepted
    invocation that does not give the option uses `d`: no memory mode's `arena_cache_size` and not the
    documented fallback can take effect. -/
theorem parser_default_shadows_file (v : Variant) (d : Int) (hv : v.cliDefault = some d) (env : Env) (a : MainArgs)
    (ha : a.arenaCacheSize = none) (r : Arch) (h : mainArch v env a = .ok r) : r.arenaCacheSize = d := by
  simp only [mainArch, ha, hv] at h
  split at h
  · cases h
  · split at h
    · cases h
    · split at h
      · exact archFeatures_ok_cli h
      · exact archFeatures_ok_cli h

/-- … witness: the file says 524288 (child overriding 393216), the documented rules expect 524288, the
    parser default 393216 wins -/
theorem parser_default_witness :
    (mainArch ⟨true, some 393216, 0, "ethos-u65-256"⟩ (wEnv "/home/user") wArgs).toOption.map (·.arenaCacheSize)
      = some 393216 ∧
    specCheck (specMain (wEnv "/home/user") wArgs)
      (mainArch ⟨true, some 393216, 0, "ethos-u65-256"⟩ (wEnv "/home/user") wArgs).toOption = false := by decide

/-- **imx93_default_witness**: without any configuration option `main()` uses `Imx93ArchitectureFeatures`;
    its default system configuration (Dram at 0.234375, no Ethos-U55 branch) is not the documented one -/
theorem imx93_default_witness :
    specCheck (specMain (wEnv "/") ⟨[], some "ethos-u55-128", none, none, none⟩)
      (mainArch ⟨true, none, 1, "ethos-u65-256"⟩ (wEnv "/") ⟨[], some "ethos-u55-128", none, none, none⟩).toOption = false ∧
    specCheck (specMain (wEnv "/") ⟨[], some "ethos-u65-256", none, none, none⟩)
      (mainArch ⟨true, none, 1, "ethos-u65-256"⟩ (wEnv "/") ⟨[], some "ethos-u65-256", none, none, none⟩).toOption = false ∧
    specCheck (specMain (wEnv "/") ⟨[], some "ethos-u65-256", none, none, none⟩)
      (mainArch ⟨true, none, 0, "ethos-u65-256"⟩ (wEnv "/") ⟨[], some "ethos-u65-256", none, none, none⟩).toOption = true := by
  decide

/-! ## 7. Regenerated tables: enums, live defaults, probed legal areas, documents -/

/-- the enum members the model knows are exactly the live ones (names and values), and the option keys are
    the lower-cased names -/
theorem enum_names_match :
    MemArea.all.map (fun a => (a.name, a.toNat)) = Gen.Cfg.memAreaNames ∧
    MemPort.all.map (fun p => (p.name, p.toNat)) = Gen.Cfg.memPortNames ∧
    MemArea.all.all (fun a => a.key == lowerStr a.name) = true := by decide

/-- the memory areas the live `ArchitectureFeatures` accepts for constants / arena / cache (probed every run)
    are the ones of the model, of the documented rules and of the property text -/
theorem legal_sets_match_live :
    Gen.Cfg.legalConst = (MemArea.all.filter legalConstArea).map MemArea.name ∧
    Gen.Cfg.legalArena = (MemArea.all.filter legalArenaArea).map MemArea.name ∧
    Gen.Cfg.legalCache = (MemArea.all.filter legalCacheArea).map MemArea.name ∧
    Gen.Cfg.legalConst = ["Dram", "OnChipFlash", "OffChipFlash"] ∧
    Gen.Cfg.legalArena = ["Sram", "Dram"] ∧ Gen.Cfg.legalCache = ["Sram"] := by decide

/-- accelerator names, family and address width (32-bit U55, 40-bit U65) -/
theorem accelerators_match_documented :
    Gen.accelerators.map (fun r => (r.name, r.isU65, r.maxAddressOffset)) =
      Spec.Config.docAccelerators.map (fun p => (p.1, p.2, Spec.Config.docMaxAddr p.2)) := by decide

def toRawDy (d : Dy) : Gen.Cfg.RawDy := ⟨d.neg, d.m, d.e⟩
def toRawRow (r : Row) : Gen.Cfg.RawRow := ⟨toRawDy r.scale, r.burst, r.rlat, r.wlat⟩
def toRaw (a : Arch) : Gen.Cfg.RawArch :=
  { coreClock := toRawDy a.coreClock, axi0 := a.axi0.toNat, axi1 := a.axi1.toNat,
    tab := ⟨toRawRow a.tab.unknown, toRawRow a.tab.sram, toRawRow a.tab.dram, toRawRow a.tab.onChipFlash,
            toRawRow a.tab.offChipFlash, toRawRow a.tab.shram⟩,
    constPort := a.constPort.toNat, arenaPort := a.arenaPort.toNat, cachePort := a.cachePort.toNat,
    arenaCacheSize := a.arenaCacheSize, permanent := a.permanent.toNat, featureMap := a.featureMap.toNat,
    fast := a.fast.toNat }

/-- what the live `create_default_arch` resolves for each accelerator is what the model computes … -/
theorem live_defaults_match_model :
    Gen.Cfg.defaultArch.map (fun p =>
        (archFeatures ⟨"/", "/", []⟩ none 0 p.1 defaultName defaultName none).toOption.map toRaw) =
      Gen.Cfg.defaultArch.map (fun p => some p.2) ∧
    Gen.Cfg.defaultArch.map (·.1) = Gen.accelerators.map (·.name) := by decide

/-- … and the hard-coded `internal-default` values are the sections of the bundled example file that OPTIONS.md
    names (live document, live `vela.ini`) -/
theorem internal_defaults_are_documented_sections (b : Bool) (maxAddr : Nat) :
    Spec.Config.docInternalSys b = .accept (sysTuple (defaultSys b)) ∧
    Spec.Config.docInternalMem b maxAddr = .accept (memTuple (defaultMem b maxAddr)) :=
  ⟨docInternalSys_eq b, docInternalMem_eq b maxAddr⟩

/-- parser defaults that select the internal defaults; no `--config` by default -/
theorem cli_defaults_select_internal_default :
    Gen.Cfg.cliSystemConfig = Spec.Config.internalDefault ∧ Gen.Cfg.cliMemoryMode = Spec.Config.internalDefault ∧
    Gen.Cfg.cliConfigDefaultIsNone = true ∧ defaultName = Spec.Config.internalDefault := by decide

end VelaVerif.Props.C18
