import VelaVerif.Lemmas.SrcDriverActions
/-!
# C17 (source tie) — the translated `driver_actions.py` helpers equal the hand model `Model/Payload.lean`

`Gen/SrcDriverActions.lean` is regenerated from the source text of `ethosu/vela/driver_actions.py` on
every run.  Words are natural numbers in the model and Python ints in the source; `pyNat` embeds one
into the other.
-/
namespace VelaVerif.Props.C17Src
open VelaVerif VelaVerif.PyRt VelaVerif.Payload VelaVerif.SrcDriverActions
open VelaVerif.Gen.SrcDriverActions

/-- `make_da_tag(id, reserved, param)` for all natural-number fields -/
theorem src_make_da_tag_eq_model (id reserved param : Nat) :
    make_da_tag (pyNat id) (pyNat reserved) (pyNat param) = .ok (pyNat (makeDaTag id reserved param)) :=
  make_da_tag_nat id reserved param

/-- `emit_cmd_stream_header(data, length)`: whatever `data` holds, the words appended are the model's
    `cmdStreamHeader (len data) length` — the NOP padding loop and the length split included -/
theorem src_emit_cmd_stream_header_eq_model (data : List Num) (length : Nat) :
    emit_cmd_stream_header data (pyNat length) =
      .ok (data ++ (cmdStreamHeader data.length length).map pyNat) :=
  emit_cmd_stream_header_nat data length

/-- non-vacuity: 5 words present, stream of 70 000 words: three NOPs… no, `4 - (5+1) % 4 = 2` NOPs, then the tag -/
example : cmdStreamHeader 5 70000 = [5, 5, 2 + 1 * 256 + 4464 * 65536] := by decide

end VelaVerif.Props.C17Src
