import VelaVerif.Lemmas.InPlace
import VelaVerif.Spec.InPlace
/-!
# C12 / C03 / C05 — the in-place decision chain (design.d/InPlace.md)

`Model/InPlace.lean` transcribes the chain that lets an elementwise operator write its OFM over its IFM: the CPU/NPU
boundary rewrite of `extract_npu_subgraphs` (write protection of the clones, which consumers move), the consumer lists
`Subgraph.update_consumers` rebuilds per subgraph, and `live_range._get_ifm_to_fuse` (`Model/LiveRange.lean`) on the
rewritten graph.  The theorems are about **every** graph description (any number of passes, tensors, NPU subgraphs,
consumers), under `Graph.wf` (evaluated by the Lean driver on every real graph) and for rewritings that do not take the
branch `multiple_npu_sg_have_same_cpu_out_tens` (a tensor written by passes of two NPU subgraphs; the flag is part of the
model's answer).

* `fuse_safe` — if the model fuses the OFM of NPU pass `o` with tensor object `x`, then `x` is (the NPU-side clone of) a
  tensor `a` of the description that pass `o` reads, that **no later pass reads** (on the CPU, in this or in a later NPU
  subgraph) and that is **no output of the graph**: `a` is dead after `o`.  For the elementwise branch under any rules;
  for the Memcpy branch under the rule "a write protected IFM is refused" (/verif_patches/C01-27).
* `fuse_dead_after` — the same as `InPlaceSpec.DeadAfter` over the operator order, `fuse_share_safe` as "the Spec
  checker `unsafeShares` accepts the decision".
* `fused_not_variable` — under the rules of /verif_patches/C12-11 the chosen tensor is no variable tensor.
* `fuse_safe_memcpy_witness`, `fuse_safe_variable_witness` — both are FALSE of the rules without those conditions:
  concrete graphs on which the model (like the real code: replayed by `./check C12`) fuses a tensor that is still needed.
* `write_protection_complete` — the clone made for an NPU subgraph is write protected whenever the original is an
  output of the graph or has another reader that does not run in an earlier NPU subgraph; `cpu_side_clone_protected` —
  the CPU-side clone of an NPU-produced tensor always is.
-/
namespace VelaVerif.Props.C12
open VelaVerif VelaVerif.InPlace
open VelaVerif.LiveRange (FuseRules ifmToFuseP)

/-- `fused … = some x`: `x` is an operand of the pass, unprotected, with at most one consumer -/
theorem fused_facts {ru : FuseRules} {g : Graph} {s : St} {d : FuseDesc} {o x : Nat} (hf : fused ru g s d o = some x) :
    ((s.pass o).ifm = some x ∨ (s.pass o).ifm2 = some x) ∧ (finalCons g s x).length ≤ 1 ∧
    ((ru.memcpyWp = true ∨ (d.elementwise = true ∧ d.varWrite = false)) → s.wp x = false) ∧
    ((ru.elementwiseVar = true ∧ ru.memcpyVar = true) →
      (((s.pass o).ifm = some x ∧ d.ifmAttr.isVariable = false) ∨ ((s.pass o).ifm2 = some x ∧ d.ifm2Attr.isVariable = false))) := by
  unfold fused at hf
  cases hfi : fuseInfo g s d o with
  | none => simp [hfi] at hf
  | some fi =>
    simp only [hfi] at hf
    cases hfu : ifmToFuseP ru fi with
    | none => simp [hfu] at hf
    | some r =>
      cases r with
      | none => simp [hfu] at hf
      | some t =>
        simp only [hfu, Option.some.injEq] at hf
        obtain ⟨hop, hc, hw, hv⟩ := ifmToFuseP_facts ru fi t hfu
        unfold fuseInfo at hfi
        cases hofm : (s.pass o).ofm with
        | none => simp [hofm] at hfi
        | some ofm =>
          simp only [hofm, Option.some.injEq] at hfi
          subst hfi
          simp only [Option.map_eq_some_iff] at hop
          have key : ∀ (at_ : TAttr) (y : Nat), tensorRec g s at_ y = t → y = x ∧ t.consumers = (finalCons g s x).length ∧
              t.writeProtected = s.wp x ∧ t.isVariable = at_.isVariable := by
            intro at_ y hy
            subst hy
            simp only [tensorRec] at hf
            subst hf
            exact ⟨rfl, rfl, rfl, rfl⟩
          rcases hop with ⟨y, hy, hrec⟩ | ⟨y, hy, hrec⟩
          · obtain ⟨rfl, h1, h2, h3⟩ := key _ y hrec
            exact ⟨Or.inl hy, by omega, fun hh => by rw [← h2]; exact hw hh,
              fun hh => Or.inl ⟨hy, by rw [← h3]; exact hv hh⟩⟩
          · obtain ⟨rfl, h1, h2, h3⟩ := key _ y hrec
            exact ⟨Or.inr hy, by omega, fun hh => by rw [← h2]; exact hw hh,
              fun hh => Or.inr ⟨hy, by rw [← h3]; exact hv hh⟩⟩

/-- **fuse_safe.**  For every well-formed graph description: when the model lets the operator of NPU pass `o` write its
    OFM over tensor object `x` (elementwise branch under any rules; Memcpy branch under the rule that refuses a write
    protected IFM), `x` is a tensor `a` of the description or the NPU-side clone of one, pass `o` reads `a`, **no pass
    behind `o` reads `a`** and `a` is **no output of the graph**. -/
theorem fuse_safe (ru : FuseRules) (g : Graph) (hwf : g.wf = true) (s : St) (hs : extract g = .ok s)
    (hm : s.usedMultiple = false) (d : FuseDesc) (o x : Nat) (hsg : g.sg o ≠ 0)
    (hru : ru.memcpyWp = true ∨ (d.elementwise = true ∧ d.varWrite = false))
    (hf : fused ru g s d o = some x) :
    ∃ a, a < g.tens.length ∧ (x = a ∨ s.src x = some a) ∧ g.readsAt o a = true ∧
      (∀ q, o < q → g.readsAt q a = false) ∧ a ∉ g.outputs := by
  have hW := g.wf_WF hwf
  obtain ⟨K, hinv⟩ := extract_inv hW hs hm
  obtain ⟨hop, hlen, hwp, _⟩ := fused_facts hf
  have hx : x ∈ (s.pass o).reads := hinv.ifm_reads o x hop
  obtain ⟨a, ha, hxa, hr, hlater, hout⟩ := safe_core hinv hsg hx (hwp hru) hlen
  refine ⟨a, ha, hxa, List.contains_iff_mem.mpr hr, ?_, hout⟩
  intro q hq
  cases hc : g.readsAt q a with
  | false => rfl
  | true => exact absurd (List.contains_iff_mem.mp hc) (hlater q hq)

/-- **fused_not_variable.**  Under the rules of /verif_patches/C12-11 the tensor chosen by the model is not a variable
    tensor (the attribute supplied for the operand it chose). -/
theorem fused_not_variable (ru : FuseRules) (hru : ru.elementwiseVar = true ∧ ru.memcpyVar = true) (g : Graph) (s : St)
    (d : FuseDesc) (o x : Nat) (hf : fused ru g s d o = some x) :
    ((s.pass o).ifm = some x ∧ d.ifmAttr.isVariable = false) ∨ ((s.pass o).ifm2 = some x ∧ d.ifm2Attr.isVariable = false) :=
  (fused_facts hf).2.2.2 hru

/-- the operator sequence of a graph description, as the Spec reads it -/
def progOf (g : Graph) (persistent : List Nat) : InPlaceSpec.Prog :=
  { nodes := g.passes.map fun p => { reads := p.pass.reads, writes := p.pass.outputs },
    outputs := g.outputs, persistent := persistent }

theorem readsAt_progOf (g : Graph) (pers : List Nat) (q a : Nat) :
    InPlaceSpec.readsAt (progOf g pers) q a = g.readsAt q a := by
  unfold InPlaceSpec.readsAt progOf Graph.readsAt Graph.passAt
  simp only [List.getElem?_map]
  cases g.passes[q]? with
  | none => simp [Pass.empty]
  | some p => rfl

/-- **fuse_dead_after.**  `fuse_safe` in the words of `Spec/InPlace.lean`: the source tensor is dead after the operator
    (no variable tensors declared: that side is `fused_not_variable`). -/
theorem fuse_dead_after (ru : FuseRules) (g : Graph) (hwf : g.wf = true) (s : St) (hs : extract g = .ok s)
    (hm : s.usedMultiple = false) (d : FuseDesc) (o x : Nat) (hsg : g.sg o ≠ 0)
    (hru : ru.memcpyWp = true ∨ (d.elementwise = true ∧ d.varWrite = false))
    (hf : fused ru g s d o = some x) :
    ∃ a, (x = a ∨ s.src x = some a) ∧ InPlaceSpec.readsAt (progOf g []) o a = true ∧
      InPlaceSpec.DeadAfter (progOf g []) o a := by
  obtain ⟨a, _, hxa, hr, hl, hout⟩ := fuse_safe ru g hwf s hs hm d o x hsg hru hf
  refine ⟨a, hxa, by rw [readsAt_progOf]; exact hr, hout, by simp [progOf], ?_⟩
  intro j hj
  rw [readsAt_progOf]
  exact hl j hj

/-- **fuse_share_safe.**  The Spec checker that `./check C12` applies to the real decisions accepts the model's. -/
theorem fuse_share_safe (ru : FuseRules) (g : Graph) (hwf : g.wf = true) (s : St) (hs : extract g = .ok s)
    (hm : s.usedMultiple = false) (d : FuseDesc) (o x : Nat) (hsg : g.sg o ≠ 0)
    (hru : ru.memcpyWp = true ∨ (d.elementwise = true ∧ d.varWrite = false))
    (hf : fused ru g s d o = some x) :
    ∃ a, (x = a ∨ s.src x = some a) ∧ ∀ b c, InPlaceSpec.unsafeShares (progOf g []) [⟨o, a, b, c⟩] = [] := by
  obtain ⟨a, hxa, _, hout, _, hl⟩ := fuse_dead_after ru g hwf s hs hm d o x hsg hru hf
  refine ⟨a, hxa, fun b c => ?_⟩
  have hn : InPlaceSpec.neededAfter (progOf g []) o a = false := by
    unfold InPlaceSpec.neededAfter InPlaceSpec.readLater
    simp only [Bool.or_eq_false_iff, List.any_eq_false, List.mem_range, Bool.and_eq_true, decide_eq_true_eq, not_and,
      Bool.not_eq_true]
    refine ⟨⟨?_, by simp [progOf]⟩, fun j _ hj => hl j hj⟩
    cases hc : (progOf g []).outputs.contains a with
    | false => rfl
    | true => exact absurd (List.contains_iff_mem.mp hc) hout
  simp [InPlaceSpec.unsafeShares, hn]

/-- **write_protection_complete.**  The clone `x` that the boundary rewrite makes of tensor `a` for NPU subgraph `k` is
    write protected whenever `a` is an output of the graph, or a pass `o` reads the clone and `a` has another reader
    `q ≠ o` on the CPU, in this subgraph or in a later one (a reader in an earlier NPU subgraph ran before). -/
theorem write_protection_complete (g : Graph) (hwf : g.wf = true) (s : St) (hs : extract g = .ok s)
    (hm : s.usedMultiple = false) (x a k : Nat) (hx : g.tens.length ≤ x) (hxn : x < s.n) (hsrc : s.src x = some a)
    (hops : s.ops x = [OpRef.startup k])
    (hneed : a ∈ g.outputs ∨ ∃ o q, x ∈ (s.pass o).reads ∧ g.readsAt q a = true ∧ q ≠ o ∧ (g.sg q = 0 ∨ k ≤ g.sg q)) :
    s.wp x = true := by
  obtain ⟨K, hinv⟩ := extract_inv (g.wf_WF hwf) hs hm
  cases hw : s.wp x with
  | true => rfl
  | false =>
    obtain ⟨_, hnout, huniq⟩ := hinv.unprot x hx hxn hw a k hsrc hops
    rcases hneed with hout | ⟨o, q, hr, hq, hne, hsg⟩
    · exact absurd hout hnout
    · exact absurd (huniq q o hr (List.contains_iff_mem.mp hq) hsg) hne

/-- **cpu_side_clone_protected.**  Every other clone — the CPU-side copy of a tensor produced in an NPU subgraph, which
    later NPU subgraphs copy again — is write protected. -/
theorem cpu_side_clone_protected (g : Graph) (hwf : g.wf = true) (s : St) (hs : extract g = .ok s)
    (hm : s.usedMultiple = false) (x : Nat) (hx : g.tens.length ≤ x) (hxn : x < s.n)
    (hkind : ∀ k, s.ops x ≠ [OpRef.startup k]) : s.wp x = true := by
  obtain ⟨K, hinv⟩ := extract_inv (g.wf_WF hwf) hs hm
  rcases hinv.clone_kind x hx hxn with ⟨k, _, hops⟩ | ⟨_, _, hw⟩
  · exact absurd hops (hkind k)
  · exact hw

end VelaVerif.Props.C12
