import VelaVerif.Lemmas.InPlace
import VelaVerif.Lemmas.InPlaceSpec
import VelaVerif.Spec.InPlace
/-!
# C12 / C03 / C05 — the in-place decision chain (design.d/InPlace.md)

`Model/InPlace.lean` transcribes the chain that lets an elementwise operator write its OFM over its IFM: the CPU/NPU
boundary rewrite of `extract_npu_subgraphs` (write protection of the clones, which consumers move), the consumer lists
`Subgraph.update_consumers` rebuilds per subgraph, and `live_range._get_ifm_to_fuse` (`Model/LiveRange.lean`) on the
rewritten graph.  The theorems are about **every** graph description (any number of passes, tensors, NPU subgraphs,
consumers), under `Graph.wf` (evaluated by the Lean driver on every real graph) and for rewritings that do not take the
branch `multiple_npu_sg_have_same_cpu_out_tens` (a tensor written by passes of two NPU subgraphs; the flag is part of the
model's answer).

* `fuse_safe` — if the model fuses the OFM of NPU pass `o` with tensor object `x`, then `x` is (the NPU-side clone of) a
  tensor `a` of the description that pass `o` reads, that **no later pass reads** (on the CPU, in this or in a later NPU
  subgraph) and that is **no output of the graph**: `a` is dead after `o`.  For the elementwise branch under any rules;
  for the Memcpy branch under the rule "a write protected IFM is refused" (/verif_patches/C01-27).
* `fuse_dead_after` — the same as `InPlaceSpec.DeadAfter` over the operator order, `fuse_share_safe` as "the Spec
  checker `unsafeShares` accepts the decision", `fuse_arena_dies` over the order of `Spec/Arena.lean`:
  `Arena.dies (planOf g) a = o + 1`.
* `fused_buffers_safe` — over whole shared buffers (chains through a Memcpy): for any list of the model's decisions, one
  per operator, whose results are outputs of the deciding pass only, the Spec judgement `clobbers` finds nothing
  (`Lemmas/InPlaceSpec.lean: clobbers_nil`: harmless links make harmless buffers).
* `fused_not_variable` — under the rules of /verif_patches/C12-11 the chosen tensor is no variable tensor.
* `fuse_safe_memcpy_witness`, `fuse_safe_variable_witness` — both are FALSE of the rules without those conditions:
  concrete graphs on which the model (like the real code: replayed by `./check C12`) fuses a tensor that is still needed.
* `write_protection_complete` — the clone made for an NPU subgraph is write protected whenever the original is an
  output of the graph or has another reader that does not run in an earlier NPU subgraph; `cpu_side_clone_protected` —
  the CPU-side clone of an NPU-produced tensor always is.
-/
namespace VelaVerif.Props.C12
open VelaVerif VelaVerif.InPlace
open VelaVerif.LiveRange (FuseRules ifmToFuseP)

/-- **fuse_safe.**  For every well-formed graph description: when the model lets the operator of NPU pass `o` write its
    OFM over tensor object `x` (elementwise branch under any rules; Memcpy branch under the rule that refuses a write
    protected IFM), `x` is a tensor `a` of the description or the NPU-side clone of one, pass `o` reads `a`, **no pass
    behind `o` reads `a`** and `a` is **no output of the graph**. -/
theorem fuse_safe (ru : FuseRules) (g : Graph) (hwf : g.wf = true) (s : St) (hs : extract g = .ok s)
    (hm : s.usedMultiple = false) (d : FuseDesc) (o x : Nat) (hsg : g.sg o ≠ 0)
    (hru : ru.memcpyWp = true ∨ (d.elementwise = true ∧ d.varWrite = false))
    (hf : fused ru g s d o = some x) :
    ∃ a, a < g.tens.length ∧ (x = a ∨ s.src x = some a) ∧ g.readsAt o a = true ∧
      (∀ q, o < q → g.readsAt q a = false) ∧ a ∉ g.outputs := by
  have hW := g.wf_WF hwf
  obtain ⟨K, hinv⟩ := extract_inv hW hs hm
  obtain ⟨hop, hlen, hwp, _⟩ := fused_facts hf
  have hx : x ∈ (s.pass o).reads := hinv.ifm_reads o x hop
  obtain ⟨a, ha, hxa, hr, hlater, hout⟩ := safe_core hinv hsg hx (hwp hru) hlen
  refine ⟨a, ha, hxa, List.contains_iff_mem.mpr hr, ?_, hout⟩
  intro q hq
  cases hc : g.readsAt q a with
  | false => rfl
  | true => exact absurd (List.contains_iff_mem.mp hc) (hlater q hq)

/-- **fused_not_variable.**  Under the rules of /verif_patches/C12-11 the tensor chosen by the model is not a variable
    tensor (the attribute supplied for the operand it chose). -/
theorem fused_not_variable (ru : FuseRules) (hru : ru.elementwiseVar = true ∧ ru.memcpyVar = true) (g : Graph) (s : St)
    (d : FuseDesc) (o x : Nat) (hf : fused ru g s d o = some x) :
    ((s.pass o).ifm = some x ∧ d.ifmAttr.isVariable = false) ∨ ((s.pass o).ifm2 = some x ∧ d.ifm2Attr.isVariable = false) :=
  (fused_facts hf).2.2.2 hru

/-- **fuse_dead_after.**  `fuse_safe` in the words of `Spec/InPlace.lean`: the source tensor is dead after the operator
    (no variable tensors declared: that side is `fused_not_variable`). -/
theorem fuse_dead_after (ru : FuseRules) (g : Graph) (hwf : g.wf = true) (s : St) (hs : extract g = .ok s)
    (hm : s.usedMultiple = false) (d : FuseDesc) (o x : Nat) (hsg : g.sg o ≠ 0)
    (hru : ru.memcpyWp = true ∨ (d.elementwise = true ∧ d.varWrite = false))
    (hf : fused ru g s d o = some x) :
    ∃ a, (x = a ∨ s.src x = some a) ∧ InPlaceSpec.readsAt (progOf g []) o a = true ∧
      InPlaceSpec.DeadAfter (progOf g []) o a := by
  obtain ⟨a, _, hxa, hr, hl, hout⟩ := fuse_safe ru g hwf s hs hm d o x hsg hru hf
  refine ⟨a, hxa, by rw [readsAt_progOf]; exact hr, hout, by simp [progOf], ?_⟩
  intro j hj
  rw [readsAt_progOf]
  exact hl j hj

/-- **fuse_share_safe.**  The Spec checker that `./check C12` applies to the real decisions accepts the model's. -/
theorem fuse_share_safe (ru : FuseRules) (g : Graph) (hwf : g.wf = true) (s : St) (hs : extract g = .ok s)
    (hm : s.usedMultiple = false) (d : FuseDesc) (o x : Nat) (hsg : g.sg o ≠ 0)
    (hru : ru.memcpyWp = true ∨ (d.elementwise = true ∧ d.varWrite = false))
    (hf : fused ru g s d o = some x) :
    ∃ a, (x = a ∨ s.src x = some a) ∧ ∀ b c, InPlaceSpec.unsafeShares (progOf g []) [⟨o, a, b, c⟩] = [] := by
  obtain ⟨a, hxa, _, hout, _, hl⟩ := fuse_dead_after ru g hwf s hs hm d o x hsg hru hf
  refine ⟨a, hxa, fun b c => ?_⟩
  have hn : InPlaceSpec.neededAfter (progOf g []) o a = false := by
    unfold InPlaceSpec.neededAfter InPlaceSpec.readLater
    simp only [Bool.or_eq_false_iff, List.any_eq_false, List.mem_range, Bool.and_eq_true, decide_eq_true_eq, not_and,
      Bool.not_eq_true]
    refine ⟨⟨?_, by simp [progOf]⟩, fun j _ hj => hl j hj⟩
    cases hc : (progOf g []).outputs.contains a with
    | false => rfl
    | true => exact absurd (List.contains_iff_mem.mp hc) hout
  simp [InPlaceSpec.unsafeShares, hn]

/-- **fuse_arena_dies.**  The same over the operator order of `Spec/Arena.lean` (the judgement `./check C12` applies to the
    arena plan of every output model): in the plan of the graph (`planOf`: one operator per pass, in pass order)
    `Arena.dies` of the source tensor is `o + 1`, "during operator `o`" — exactly the moment at which
    `Arena.handoverAllowed` lets the output of operator `o` take its bytes. -/
theorem fuse_arena_dies (ru : FuseRules) (g : Graph) (hwf : g.wf = true) (s : St) (hs : extract g = .ok s)
    (hm : s.usedMultiple = false) (d : FuseDesc) (o x : Nat) (hsg : g.sg o ≠ 0)
    (hru : ru.memcpyWp = true ∨ (d.elementwise = true ∧ d.varWrite = false))
    (hf : fused ru g s d o = some x) :
    ∃ a, (x = a ∨ s.src x = some a) ∧ Arena.dies (planOf g) a = o + 1 := by
  have hW := g.wf_WF hwf
  obtain ⟨a, _, hxa, hr, hl, hout⟩ := fuse_safe ru g hwf s hs hm d o x hsg hru hf
  have hr' : a ∈ g.R0 o := List.contains_iff_mem.mp hr
  refine ⟨a, hxa, dies_planOf hout hr' ?_ ?_⟩
  · intro q hq hmem
    have := hl q hq
    rw [Graph.readsAt, List.contains_iff_mem.mpr hmem] at this
    exact Bool.noConfusion this
  · intro k hk
    obtain ⟨_, hmem⟩ := hW.outputs_prod k a hk
    obtain ⟨_, hall⟩ := hW.reads_prod o a hr'
    obtain ⟨i, hi, hlt, _⟩ := hall _ hmem
    cases hi
    exact hlt

/-- **fused_buffers_safe.**  Over whole shared buffers (chains through a Memcpy, the shape of /verif_patches/C01-27):
    take any list of decisions of the model on a well-formed graph — one per operator, each `fused ru g s d op = some x`
    with `x` the description tensor `ifm` or its clone, under the rule that a Memcpy refuses a write protected IFM — whose results
    `ofm` are outputs of the deciding pass and of no other pass (what `len(outp.tens.ops) == 1` asks for the elementwise
    branch). Then the Spec judgement `clobbers`, which `./check C12` applies to the real decisions, finds nothing: no
    operator writes into a buffer that holds a value still to be read. -/
theorem fused_buffers_safe (ru : FuseRules) (hru : ru.memcpyWp = true) (g : Graph) (hwf : g.wf = true) (s : St)
    (hs : extract g = .ok s) (hm : s.usedMultiple = false) (shares : List InPlaceSpec.Share)
    (hdec : ∀ sh ∈ shares, g.sg sh.op ≠ 0 ∧ sh.ifm < g.tens.length ∧
      ∃ d x, fused ru g s d sh.op = some x ∧ (x = sh.ifm ∨ s.src x = some sh.ifm))
    (hofm : ∀ sh ∈ shares, sh.ofm ∈ g.O0 sh.op ∧ ∀ j, sh.ofm ∈ g.O0 j → j = sh.op)
    (hinj : ∀ sh ∈ shares, ∀ sh' ∈ shares, sh.op = sh'.op → sh = sh') :
    InPlaceSpec.clobbers (progOf g []) shares = [] := by
  have hW := g.wf_WF hwf
  apply InPlaceSpec.clobbers_nil
  have hlink : ∀ sh ∈ shares, InPlaceSpec.readsAt (progOf g []) sh.op sh.ifm = true ∧
      InPlaceSpec.DeadAfter (progOf g []) sh.op sh.ifm := by
    intro sh hsh
    obtain ⟨hsg, hil, d, x, hf, hx⟩ := hdec sh hsh
    obtain ⟨a, hal, hxa, hr, hl, hout⟩ := fuse_safe ru g hwf s hs hm d sh.op x hsg (Or.inl hru) hf
    obtain ⟨K, hinv⟩ := extract_inv hW hs hm
    have : a = sh.ifm := by
      rcases hx with h1 | h1 <;> rcases hxa with h2 | h2
      · omega
      · rw [h1, hinv.src_orig sh.ifm hil] at h2
        cases h2
      · rw [h2, hinv.src_orig a hal] at h1
        cases h1
      · rw [h1] at h2
        exact (Option.some.inj h2).symm
    subst this
    refine ⟨by rw [readsAt_progOf]; exact hr, hout, by simp [progOf], ?_⟩
    intro j hj
    rw [readsAt_progOf]
    exact hl j hj
  refine ⟨fun sh hsh => (hlink sh hsh).1, ?_, fun sh hsh => (hlink sh hsh).2, ?_, ?_, hinj⟩
  · intro sh hsh
    rw [writesAt_progOf]
    exact List.contains_iff_mem.mpr (hofm sh hsh).1
  · intro sh hsh j hj
    rw [writesAt_progOf] at hj
    exact (hofm sh hsh).2 j (List.contains_iff_mem.mp hj)
  · intro i j v hw hr
    rw [writesAt_progOf] at hw
    rw [readsAt_progOf] at hr
    obtain ⟨_, hmem⟩ := hW.outputs_prod i v (List.contains_iff_mem.mp hw)
    obtain ⟨_, hall⟩ := hW.reads_prod j v (List.contains_iff_mem.mp hr)
    obtain ⟨i', hi', hlt, _⟩ := hall _ hmem
    cases hi'
    exact hlt

/-- **write_protection_complete.**  The clone `x` that the boundary rewrite makes of tensor `a` for NPU subgraph `k` is
    write protected whenever `a` is an output of the graph, or a pass `o` reads the clone and `a` has another reader
    `q ≠ o` on the CPU, in this subgraph or in a later one (a reader in an earlier NPU subgraph ran before). -/
theorem write_protection_complete (g : Graph) (hwf : g.wf = true) (s : St) (hs : extract g = .ok s)
    (hm : s.usedMultiple = false) (x a k : Nat) (hx : g.tens.length ≤ x) (hxn : x < s.n) (hsrc : s.src x = some a)
    (hops : s.ops x = [OpRef.startup k])
    (hneed : a ∈ g.outputs ∨ ∃ o q, x ∈ (s.pass o).reads ∧ g.readsAt q a = true ∧ q ≠ o ∧ (g.sg q = 0 ∨ k ≤ g.sg q)) :
    s.wp x = true := by
  obtain ⟨K, hinv⟩ := extract_inv (g.wf_WF hwf) hs hm
  cases hw : s.wp x with
  | true => rfl
  | false =>
    obtain ⟨_, hnout, huniq⟩ := hinv.unprot x hx hxn hw a k hsrc hops
    rcases hneed with hout | ⟨o, q, hr, hq, hne, hsg⟩
    · exact absurd hout hnout
    · exact absurd (huniq q o hr (List.contains_iff_mem.mp hq) hsg) hne

/-- **cpu_side_clone_protected.**  Every other clone — the CPU-side copy of a tensor produced in an NPU subgraph, which
    later NPU subgraphs copy again — is write protected. -/
theorem cpu_side_clone_protected (g : Graph) (hwf : g.wf = true) (s : St) (hs : extract g = .ok s)
    (hm : s.usedMultiple = false) (x : Nat) (hx : g.tens.length ≤ x) (hxn : x < s.n)
    (hkind : ∀ k, s.ops x ≠ [OpRef.startup k]) : s.wp x = true := by
  obtain ⟨K, hinv⟩ := extract_inv (g.wf_WF hwf) hs hm
  rcases hinv.clone_kind x hx hxn with ⟨k, _, hops⟩ | ⟨_, _, hw⟩
  · exact absurd hops (hkind k)
  · exact hw

/-- **boundary_reshape_stays_memcpy.**  A memory-only operator on the NPU whose IFM is produced on the CPU is never
    bypassed, whatever its consumers: the boundary tensor behind a RESHAPE is the IFM of a Memcpy, so its write protection
    reaches `_get_ifm_to_fuse` only through the Memcpy branch (the branch /verif_patches/C01-27 repairs); an NPU-produced
    IFM with one consumer is bypassed (no copy, nothing to share). -/
theorem boundary_reshape_stays_memcpy (n : Nat) : memOnlyFate n true = .memcpy ∧ memOnlyFate 1 false = .bypass ∧
    (2 ≤ n → memOnlyFate n false = .memcpy) := by
  refine ⟨by simp [memOnlyFate], by decide, fun h => ?_⟩
  simp only [memOnlyFate, Bool.or_false, decide_eq_true_eq]
  rw [if_pos (by omega)]

/-! ## The statement is false of the rules without the two repairs; non-vacuity -/

private def fmAttr (var : Bool := false) : TAttr :=
  { purpose := .other, inTarget := true, size := 128, shapeEmpty := false, format := 2, dtype := 0, isVariable := var }

private def ewDesc (ifmVar : Bool := false) : FuseDesc :=
  { elementwise := true, varWrite := false, memcpy := false, ofmShape := [1, 4, 4, 8], ifmShape := [1, 4, 4, 8],
    ifm2Shape := [1, 4, 4, 8], ofmAttr := fmAttr, ifmAttr := fmAttr ifmVar, ifm2Attr := fmAttr }

private def mcDesc : FuseDesc :=
  { elementwise := false, varWrite := false, memcpy := true, ofmShape := [], ifmShape := [], ifm2Shape := [],
    ofmAttr := fmAttr, ifmAttr := fmAttr, ifm2Attr := fmAttr }

private def unary (pl : Place) (i o : Nat) : PDesc :=
  { place := pl, pass := { reads := [i], inputs := [i], outputs := [o], ifm := some i, ifm2 := none, ofm := some o } }

private def startupPass (outs : List Nat) : PDesc :=
  { place := .startup, pass := { reads := [], inputs := [], outputs := outs, ifm := none, ifm2 := none, ofm := none } }

/-- `y = CUSTOM(x)` on the CPU, `r = RESHAPE(y)` kept as a Memcpy and `z = ABS(r)` on the NPU, outputs `[y, z]`
    (the network of /verif_patches/C01-27; tensors 0 = x, 1 = y, 2 = r, 3 = z) -/
private def reshapeNet : Graph :=
  { tens := [⟨0, [0], false⟩, ⟨1, [1], false⟩, ⟨2, [2], false⟩, ⟨3, [3], false⟩],
    passes := [startupPass [0], unary .cpu 0 1, unary .npu 1 2, unary .npu 2 3],
    outputs := [1, 3] }

/-- `y = ADD(v, x)` with `v` a variable tensor, output `[y]` (tensors 0 = v, 1 = x, 2 = y) -/
private def variableNet : Graph :=
  { tens := [⟨0, [0], false⟩, ⟨1, [0], false⟩, ⟨2, [1], false⟩],
    passes := [startupPass [0, 1],
               { place := .npu, pass := { reads := [0, 1], inputs := [0, 1], outputs := [2], ifm := some 0, ifm2 := some 1,
                                          ofm := some 2 } }],
    outputs := [2] }

/-- the rules of the unrepaired `_get_ifm_to_fuse` -/
def unrepairedRules : FuseRules := { memcpyWp := false, elementwiseVar := false, memcpyVar := false }
/-- the rules with /verif_patches/C01-27 and /verif_patches/C12-11 -/
def repairedRules : FuseRules := { memcpyWp := true, elementwiseVar := true, memcpyVar := true }

private def onResult (g : Graph) (f : St → Bool) : Bool :=
  match extract g with
  | .ok s => f s
  | .error _ => false

private theorem onResult_elim {g : Graph} {f : St → Bool} (h : onResult g f = true) : ∃ s, extract g = .ok s ∧ f s = true := by
  unfold onResult at h
  cases he : extract g with
  | error e => simp [he] at h
  | ok s => exact ⟨s, rfl, by simpa [he] using h⟩

/-- **fuse_safe_memcpy_witness.**  Without "a Memcpy refuses a write protected IFM" `fuse_safe` is false: on the
    well-formed `reshapeNet` the model (as the real code, replayed by `./check C12`: known finding
    `write-protected-tensor-shares-memory-with-reshape-copy`) lets the Memcpy of pass 2 share the clone of `y`, which is an
    output of the graph, and the ABS of pass 3 joins the same buffer: the Spec finds `y` destroyed by pass 3. -/
theorem fuse_safe_memcpy_witness :
    ∃ (g : Graph) (s : St), g.wf = true ∧ extract g = .ok s ∧ s.usedMultiple = false ∧
      ∃ (d d' : FuseDesc) (o x a b : Nat), g.sg o ≠ 0 ∧ fused unrepairedRules g s d o = some x ∧ s.src x = some a ∧
        a ∈ g.outputs ∧ fused unrepairedRules g s d' (o + 1) = some b ∧
        InPlaceSpec.clobbers (progOf g []) [⟨o, a, b, true⟩, ⟨o + 1, b, b + 1, false⟩] = [(o + 1, b + 1, a)] := by
  obtain ⟨s, hs, hf⟩ := onResult_elim (g := reshapeNet)
    (f := fun s => !s.usedMultiple && fused unrepairedRules reshapeNet s mcDesc 2 == some 4 && s.src 4 == some 1 &&
      fused unrepairedRules reshapeNet s ewDesc 3 == some 2) (by decide)
  simp only [Bool.and_eq_true, Bool.not_eq_true', beq_iff_eq] at hf
  exact ⟨reshapeNet, s, by decide, hs, hf.1.1.1, mcDesc, ewDesc, 2, 4, 1, 2, by decide, hf.1.1.2, hf.1.2, by decide, hf.2,
    by decide⟩

/-- with the repaired rules the same network is decided safely: the copy keeps its own memory, only the copy is
    overwritten (this also shows the hypotheses of `fuse_safe` are satisfiable) -/
example : onResult reshapeNet (fun s => reshapeNet.wf && !s.usedMultiple &&
    fused repairedRules reshapeNet s mcDesc 2 == none && fused repairedRules reshapeNet s ewDesc 3 == some 2) = true := by decide

/-- **fuse_safe_variable_witness.**  Without "a variable tensor is refused" the model (as the real code: known finding
    `variable-tensor-overwritten-in-place-by-elementwise-operator`) chooses the clone of the variable tensor `v` of
    `variableNet` as the input that the ADD overwrites. -/
theorem fuse_safe_variable_witness :
    ∃ (g : Graph) (s : St), g.wf = true ∧ extract g = .ok s ∧ s.usedMultiple = false ∧
      ∃ (d : FuseDesc) (o x : Nat), g.sg o ≠ 0 ∧ fused unrepairedRules g s d o = some x ∧ (s.pass o).ifm = some x ∧
        d.ifmAttr.isVariable = true := by
  obtain ⟨s, hs, hf⟩ := onResult_elim (g := variableNet)
    (f := fun s => !s.usedMultiple && fused unrepairedRules variableNet s (ewDesc true) 1 == some 3 &&
      (s.pass 1).ifm == some 3) (by decide)
  simp only [Bool.and_eq_true, Bool.not_eq_true', beq_iff_eq] at hf
  exact ⟨variableNet, s, by decide, hs, hf.1.1, ewDesc true, 1, 3, by decide, hf.1.2, hf.2, rfl⟩

/-- under the repaired rules the ADD overwrites its other operand instead (`x`, a graph input that nobody reads later) -/
example : onResult variableNet (fun s => fused repairedRules variableNet s (ewDesc true) 1 == some 4 && s.src 4 == some 1) = true := by
  decide

/-- write protection on a boundary with two readers: `x` read by an NPU ABS (pass 1) and by a CPU operator (pass 2):
    the clone (object 3) is protected and nothing is fused; with the CPU reader removed it is not, and the ABS works in
    place (hypotheses of `write_protection_complete` / `fuse_safe` met) -/
example : onResult { tens := [⟨0, [0], false⟩, ⟨1, [1], false⟩, ⟨2, [2], false⟩],
                     passes := [startupPass [0], unary .npu 0 1, unary .cpu 0 2], outputs := [1, 2] }
    (fun s => s.wp 3 && s.src 3 == some 0 && (s.pass 1).reads == [3]) = true := by decide

example : onResult { tens := [⟨0, [0], false⟩, ⟨1, [1], false⟩], passes := [startupPass [0], unary .npu 0 1], outputs := [1] }
    (fun s => !s.wp 2 && s.src 2 == some 0 &&
      fused repairedRules { tens := [⟨0, [0], false⟩, ⟨1, [1], false⟩], passes := [startupPass [0], unary .npu 0 1],
                            outputs := [1] } s ewDesc 1 == some 2) = true := by decide

/-- a whole buffer under the repaired rules: graph input `x` (one reader, no output) → RESHAPE kept as Memcpy → ABS: the
    Memcpy shares the clone of `x`, the ABS overwrites the copy — three values in one buffer; the hypotheses of
    `fused_buffers_safe` hold for the two decisions and the Spec finds nothing -/
private def chainNet : Graph :=
  { tens := [⟨0, [0], false⟩, ⟨1, [1], false⟩, ⟨2, [2], false⟩],
    passes := [startupPass [0], unary .npu 0 1, unary .npu 1 2], outputs := [2] }

example : onResult chainNet (fun s => chainNet.wf && !s.usedMultiple &&
    fused repairedRules chainNet s mcDesc 1 == some 3 && s.src 3 == some 0 &&
    fused repairedRules chainNet s ewDesc 2 == some 1 &&
    InPlaceSpec.clobbers (progOf chainNet []) [⟨1, 0, 1, true⟩, ⟨2, 1, 2, false⟩] == []) = true := by decide

end VelaVerif.Props.C12
