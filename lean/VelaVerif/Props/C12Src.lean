import VelaVerif.Lemmas.PyRt
import VelaVerif.Model.LiveRange
import VelaVerif.Gen.SrcLiveRange
/-!
# C12 (source tie) — `LiveRange.mark_usage`, translated from the source text, equals `LiveRange.LR.markUsage`

`Gen/SrcLiveRange.lean` is regenerated from /repo's source text on every run.  `mark_usage` assigns
`self.start_time` / `self.end_time` (`attr_stores` of the plug-in): the translated function takes their initial values
as parameters and returns the pair of their final values; on the early `return` the pair is the unchanged one.
`Model/LiveRange.lean` `LR.markUsage` (every event of `Graph.apply` goes through it; `Props/C12LiveRange.lean`) updates
`start` / `end_` of the record and leaves the other fields alone by construction.
-/
namespace VelaVerif.Props.C12Src
open VelaVerif VelaVerif.PyRt VelaVerif.LiveRange
open VelaVerif.Gen.SrcLiveRange

/-- for every live range and **all** integers `op_time`, `op_length` (negative times and lengths included):
    the translated `mark_usage` returns `(start, end_)` of `LR.markUsage` -/
theorem src_mark_usage_eq_model (r : LR) (opTime opLength : Int) :
    LiveRange__mark_usage (.py opTime) (.py opLength) (.py r.end_) (.py r.start) =
      .ok (.py (r.markUsage opTime opLength).start, .py (r.markUsage opTime opLength).end_) := by
  py_exec [LiveRange__mark_usage, LR.markUsage]
  py_finish

/-- … and `markUsage` touches nothing else -/
theorem markUsage_other_fields (r : LR) (opTime opLength : Int) :
    (r.markUsage opTime opLength).size = r.size ∧ (r.markUsage opTime opLength).tensors = r.tensors := by
  simp only [LR.markUsage]
  split <;> exact ⟨rfl, rfl⟩

/-- `LiveRange.overlaps_ranges` in closed form (strict: `end_time` is read as exclusive by the scheduler's
    evicted-feature-map test; no hand model uses it, hence no `_eq_model`) -/
theorem src_overlaps_ranges_closed_form (s1 e1 s2 e2 : Int) :
    LiveRange__overlaps_ranges (.py e2) (.py s2) (.py e1) (.py s1) = .ok (decide (max s1 s2 < min e1 e2)) := by
  py_exec [LiveRange__overlaps_ranges]
  py_finish

/-- non-vacuity: the default `op_length = 1` at tick 5 on a fresh range (`start = 99999999999`, `end = -1`) -/
example : LiveRange__mark_usage (.py 5) (.py 1) (.py endInit) (.py startInit) = .ok (.py 5, .py 6) := by
  py_exec [LiveRange__mark_usage, endInit, startInit]
  rfl

end VelaVerif.Props.C12Src
