import VelaVerif.Props.C12Sched
/-!
# C02, Dedicated-SRAM clause — "the fast-scratch extent never exceeds the configured arena cache size", at the level of the
scheduler's bookkeeping

Everything the scheduler itself places into the SRAM cache of a Dedicated_Sram configuration is one of: the rolling buffers and
weight buffers of a cascade (`CascadeBuilder.build_cascades`, hard limit), the weight buffers of an operation outside a
cascade (`propose_weight_buffering`, sized against `staging_limit - memory_snapshot[t]`), or a feature map
`use_fast_storage_for_feature_maps` moved there.  The theorems of `Props/C12Sched.lean` that bound each of the three against
the limit the scheduler works with (`arena_cache_size` in this memory mode, see finding C02-20 for `--optimise Size`) are
restated here for the audit of `./check C02`.  They are about bytes *in use* per tick; that an allocation of these ranges
fits as well is the allocators' business (C05; HillClimb is given the limit, LinearAlloc and Greedy are not), and the emitted
addresses are judged by this check's footprint validation.
-/
namespace VelaVerif.Props.C02Sched
open VelaVerif VelaVerif.SchedMem

/-- the buffers of every cascade the builder accepts in Dedicated-SRAM mode fit the limit it was given -/
theorem dedicated_sram_cascade_buffers_within_limit (b : Builder) (ref fb : CostMap) (limit : Int) (st : BState)
    (hu : UniqueIdx b.ops) (hs : b.spilling = true) (h : buildCascades b ref fb limit = .ok st) :
    ∀ ci ∈ st.cascades, ci.memUsage + b.nl ci.start ≤ limit :=
  C12Sched.dedicated_sram_cascade_within_limit b ref fb limit st hu hs h

/-- the weight buffers of an operation fit the slack it had under the staging limit -/
theorem weight_buffers_within_staging_limit (snapshot : List Int) (t : Nat) (stagingLimit : Int) (evicted bufLen db0 db1 nSlices cascade : Nat)
    (prevSlack : Int) (w : WeightBuffers)
    (h : weightBufferDecision (operatorBuffering snapshot t stagingLimit evicted).2 bufLen db0 db1 nSlices cascade prevSlack = .ok (some w)) :
    snapshot.getD t 0 + (sumNat w.buffers : Int) ≤ stagingLimit := by
  have h1 := (C12Sched.weight_buffers_within_limit _ bufLen db0 db1 nSlices cascade prevSlack w h).1
  have h2 := C12Sched.operator_buffering_fits snapshot t stagingLimit evicted
  omega

/-- what stays in fast storage after `use_fast_storage_for_feature_maps` fits `max(limit, immovable part)` at every tick -/
theorem fast_storage_within_arena_cache (lrs : List FLR) (ct : Nat) (limit : Int) (r : FSResult)
    (hids : (lrs.map (·.id)).Nodup) (harea : ∀ lr ∈ lrs, lr.scratched = true → lr.inArea = true)
    (hb : ∀ t, Spec.SchedMem.usageAt ((lrs.map (·.tlr)).filterMap TLR.toRng) t < 2147483648)
    (h : useFastStorage lrs ct limit = .ok r) :
    Spec.SchedMem.FastStorageFits (frngs lrs r.st.evicted) limit (ct + 2) :=
  C12Sched.fast_storage_within_limit lrs ct limit r hids harea hb h

end VelaVerif.Props.C02Sched
