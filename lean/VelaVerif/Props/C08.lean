import VelaVerif.Lemmas.WeightLayout
/-!
# C08 — encoded weight and scale tensors cover each output channel exactly once

Property theorems only.  Model: `Model/WeightLayout.lean` (transcription of `weight_compressor.py`'s
`encode_bias`, `encode_weight_and_scale_tensor`, the cache look-up, and of `create_weights` /
`create_dma_op`), Spec: `Spec/WeightLayout.lean`, helpers: `Lemmas/WeightLayout.lean`.
The MLW encoder is the arbitrary function `c.enc`; every theorem holds for all encoders.
-/
namespace VelaVerif.Props.C08
open VelaVerif.WeightLayout VelaVerif.WeightSpec

/-! ## 1. the 80-bit record -/

/-- For every bias in the signed 40-bit range, multiplier below 2^32 and shift below 64 the model of
    `encode_bias` returns 10 bytes which the Spec decoder reads back as exactly these three fields. -/
theorem bias_record_roundtrip (bias scale shift : Int)
    (hb : -(2:Int)^39 ≤ bias ∧ bias < (2:Int)^39) (hs : 0 ≤ scale ∧ scale < (2:Int)^32) (hh : 0 ≤ shift ∧ shift < 64) :
    ∃ bytes, encodeBias bias scale shift = .ok bytes ∧ bytes.length = 10 ∧ (∀ b ∈ bytes, b < 256) ∧
      decodeRecord bytes = some ⟨bias, scale.toNat, shift.toNat⟩ := by
  refine ⟨recordBytes bias scale shift, encodeBias_ok _ _ _ ⟨hb, hs, hh⟩, rfl, ?_, decode_recordBytes _ _ _ ⟨hb, hs, hh⟩⟩
  intro b hb'
  simp only [recordBytes, List.mem_cons, List.not_mem_nil, or_false] at hb'
  rcases hb' with h | h | h | h | h | h | h | h | h | h <;> subst h <;> first | exact byteOf_lt _ _ | omega

/-- Anything outside those ranges is rejected (the three `assert`s), never truncated. -/
theorem bias_record_rejects (bias scale shift : Int)
    (h : ¬ ((-(2:Int)^39 ≤ bias ∧ bias < (2:Int)^39) ∧ (0 ≤ scale ∧ scale < (2:Int)^32) ∧ (0 ≤ shift ∧ shift < 64))) :
    encodeBias bias scale shift = .error .assert :=
  encodeBias_err _ _ _ h

/-- Without the asserts the packing would alias: 2^39 and -2^39 have the same five bias bytes. -/
theorem bias_alias_witness : (List.range 5).map (byteOf ((2:Int)^39)) = (List.range 5).map (byteOf (-(2:Int)^39)) := by
  decide

/-! ## 2. ranges -/

/-- For **every** configuration (any core count, block depth, encoder, bias/scale lists) and **every**
    depth-offset list on which the model does not fail: each created range starts 16-byte aligned, its
    weight section starts and ends 16-byte aligned, the ranges are pairwise disjoint and in stream
    order, lie inside the buffer, and the scale section ends before the weight section starts.
    When the offsets are strictly increasing the `OrderedDict` holds exactly these ranges. -/
theorem ranges_disjoint_ordered_aligned (c : Cfg) (offsets : List Nat) (out : Out)
    (h : encodeTensor c offsets = .ok out) :
    AlignedOk (rawArtefactOf c out) ∧ OrderedOk (rawArtefactOf c out) ∧
    (offsets.Pairwise (· < ·) → artefactOf c out = rawArtefactOf c out) := by
  have hf := encodeTensor_facts c offsets out h
  obtain ⟨h1, h2⟩ := raw_aligned_ordered c offsets out hf
  refine ⟨h1, h2, fun hs => ?_⟩
  unfold artefactOf rawArtefactOf
  rw [ranges_eq_raw c offsets out hs hf]

/-- Under the Spec's quantifier (`ValidReq`: ≥ 1 core, block depth ≥ core count, offsets strictly
    increasing from 0 to the OFM depth) the table holds exactly one range per expected (core, slice),
    in stream order: none missing, none extra, none duplicated. -/
theorem keys_exactly_expected (c : Cfg) (offsets : List Nat) (out : Out)
    (hv : ValidReq (reqOf c offsets)) (h : encodeTensor c offsets = .ok out) :
    KeysOk (reqOf c offsets) (artefactOf c out) := by
  have hf := encodeTensor_facts c offsets out h
  obtain ⟨_, hb, _, _, _, hs⟩ := hv
  have : artefactOf c out = rawArtefactOf c out := by
    unfold artefactOf rawArtefactOf; rw [ranges_eq_raw c offsets out hs hf]
  rw [this]
  exact keys_ok c offsets out hb hf

/-! ## 3. scale records -/

/- History: before the repair `fixed: property=C08 PENDING-1` the code sliced
   `biases[off+core : off+core+len : ncores]`, which ends one channel beyond the slice for `core ≥ 1`
   unless `ncores ∣ len`; the statement below was then provable only for "regular" slicings
   (`scale_count_partial`) and `scale_count_witness` proved by `decide` that for 2 cores, 8 channels,
   offsets [0, 3, 8] the range (core 1, slice 0) held records for channels 1 and 3 (weights: channel 1
   only) and channel 3 had two records.  The repaired code slices the depth slice first
   (`biases[off : off+len][core :: ncores]`); the same configuration is now `scale_count_former_witness`. -/

/-- The scale section of every (core, slice) holds exactly one 10-byte record per channel of the slice
    whose in-slice index is `≡ core (mod ncores)`, in ascending order, and the Spec decoder reads
    back that channel's `(bias, multiplier, shift)` — for every request in the Spec's quantifier. -/
theorem scale_count (c : Cfg) (offsets : List Nat) (out : Out)
    (hv : ValidReq (reqOf c offsets)) (hbl : c.biases.length = c.fullDepth) (hsl : c.scales.length = c.fullDepth)
    (h : encodeTensor c offsets = .ok out) :
    ScaleCountOk (reqOf c offsets) (artefactOf c out) ∧
    ∀ p ∈ (expected (reqOf c offsets)).zip (artefactOf c out).ranges,
      ScaleRecordsAt (reqOf c offsets) out.stream (expOf c) p.1 p.2 := by
  have hf := encodeTensor_facts c offsets out h
  have hv' := hv
  obtain ⟨hn, hb, _, _, _, hs⟩ := hv
  have hart : artefactOf c out = rawArtefactOf c out := by
    unfold artefactOf rawArtefactOf; rw [ranges_eq_raw c offsets out hs hf]
  rw [hart]
  have key : ∀ p ∈ (expected (reqOf c offsets)).zip (rawArtefactOf c out).ranges,
      ScaleCountAt (reqOf c offsets) p.1 p.2 ∧ ScaleRecordsAt (reqOf c offsets) out.stream (expOf c) p.1 p.2 := by
    intro p hp
    obtain ⟨p', hp', rfl⟩ := zip_map_right_mem _ _ toARange p hp
    have hm := (made_expected c offsets out hb hf).zip p' hp'
    have he := (List.of_mem_zip hp').1
    have hr := (List.of_mem_zip hp').2
    obtain ⟨hsl', hcore⟩ := mem_expected _ _ he
    obtain ⟨hpos, hle⟩ := slice_facts _ hv' _ hsl'
    have hcore' : p'.1.core < c.ncores := by
      have : activeCores (reqOf c offsets) ≤ c.ncores := Nat.min_le_left _ _
      omega
    have hg := hf.good.rng p'.2 hr
    obtain ⟨_, h2, h3, h4⟩ := made_scale c _ _ _ _ p'.2 out.stream hm hg (by rw [hbl, hsl]) hn hcore'
      (by rw [hbl]; exact hle)
    exact ⟨h2, h3, h4⟩
  exact ⟨fun p hp => (key p hp).1, fun p hp => (key p hp).2⟩

/-- The configuration of the former finding (DESIGN.md section 8 #11: two cores, 8 channels, block depth
    8, depth offsets [0, 3, 8]): every range now records exactly the channels whose weights it holds, the
    whole executable layout Spec accepts the tensor, and channel 3 has one record. -/
theorem scale_count_former_witness :
    ValidReq (reqOf witnessCfg [0, 3, 8]) ∧
    (encodeTensor witnessCfg [0, 3, 8]).toOption.map
        (fun out => out.ranges.map fun r => (r.core, r.depth, r.scaleCh, r.weightCh))
      = some [(0, 0, [0, 2], [0, 2]), (1, 0, [1], [1]), (0, 3, [3, 5, 7], [3, 5, 7]), (1, 3, [4, 6], [4, 6])] ∧
    (encodeTensor witnessCfg [0, 3, 8]).toOption.map
        (fun out => decide (LayoutOk (reqOf witnessCfg [0, 3, 8]) (artefactOf witnessCfg out))) = some true ∧
    (encodeTensor witnessCfg [0, 3, 8]).toOption.map (fun out => (out.ranges.flatMap Range.scaleCh).count 3) = some 1 := by
  decide +kernel

/-- What a stripe is handed: for every depth slice `[off, off+len)` of the request and every active core,
    the table holds a range keyed `(core, off)` whose scale section has one record per channel of the
    slice the core owns — the clause the harness applies to every NPU operation of a compiled network
    (`StripeCoverOk`, with the stripe's own channel range). -/
theorem stripe_cover (c : Cfg) (offsets : List Nat) (out : Out)
    (hv : ValidReq (reqOf c offsets)) (hbl : c.biases.length = c.fullDepth) (hsl : c.scales.length = c.fullDepth)
    (h : encodeTensor c offsets = .ok out) :
    ∀ s ∈ slices offsets, StripeCoverOk c.ncores c.fullDepth (artefactOf c out).ranges (artefactOf c out).ranges
      s.2.1 (s.2.1 + s.2.2) := by
  have hf := encodeTensor_facts c offsets out h
  have hv' := hv
  obtain ⟨hn, hb, _, _, _, hs⟩ := hv
  have hart : artefactOf c out = rawArtefactOf c out := by
    unfold artefactOf rawArtefactOf; rw [ranges_eq_raw c offsets out hs hf]
  rw [hart]
  intro s hs' core hcore
  simp only [List.mem_range] at hcore
  have he : (⟨s.1, core, s.2.1, s.2.2⟩ : Expect) ∈ expected (reqOf c offsets) :=
    (mem_expected_iff _ _).2 ⟨hs', hcore⟩
  obtain ⟨r, hr, hm⟩ := (made_expected c offsets out hb hf).exists_right _ he
  obtain ⟨_, hle⟩ := slice_facts _ hv' _ hs'
  have hcore' : core < c.ncores := by omega
  have hg := hf.good.rng r hr
  obtain ⟨_, h2, _, _⟩ := made_scale c _ _ _ _ r out.stream hm hg (by rw [hbl, hsl]) hn hcore' (by rw [hbl]; exact hle)
  have hmem : toARange r ∈ (rawArtefactOf c out).ranges := List.mem_map_of_mem hr
  refine ⟨⟨toARange r, hmem, hm.hcore, hm.hdepth⟩, ⟨toARange r, hmem, hm.hcore, hm.hdepth, ?_⟩⟩
  rw [Nat.add_sub_cancel_left]
  exact h2

/-! ## 4. weight sections and the partition of the channels -/

/-- The weight section of every (core, slice) is the encoder's answer for exactly the channels of the
    slice with in-slice index `≡ core (mod ncores)` (ascending) and the core's share of the block depth —
    no regularity hypothesis: `core_deinterleave` slices the brick, not the whole tensor. -/
theorem weight_sections (c : Cfg) (offsets : List Nat) (out : Out)
    (hv : ValidReq (reqOf c offsets)) (hw : c.doWeights = true) (h : encodeTensor c offsets = .ok out) :
    ∀ p ∈ (expected (reqOf c offsets)).zip out.ranges,
      p.2.weightCh = p.1.chans (reqOf c offsets) ∧ (p.2.offset + p.2.weightOffset) % 16 = 0 ∧
      bytesAt out.stream (p.2.offset + p.2.weightOffset) p.2.weightBytes
        = c.enc (p.1.chans (reqOf c offsets)) (coreBlockDepth c.ncores c.blockDepth p.1.core) := by
  have hf := encodeTensor_facts c offsets out h
  have hv' := hv
  obtain ⟨hn, hb, _, _, _, hs⟩ := hv
  rw [ranges_eq_raw c offsets out hs hf]
  intro p hp
  have hm := (made_expected c offsets out hb hf).zip p hp
  obtain ⟨hsl', hcore⟩ := mem_expected _ _ (List.of_mem_zip hp).1
  obtain ⟨_, hle⟩ := slice_facts _ hv' _ hsl'
  have hcore' : p.1.core < c.ncores := by
    have : activeCores (reqOf c offsets) ≤ c.ncores := Nat.min_le_left _ _
    omega
  have hg := hf.good.rng p.2 (List.of_mem_zip hp).2
  obtain ⟨h1, h2⟩ := made_weights c _ _ _ _ p.2 out.stream hm hg hw hn hcore' hle
  refine ⟨h1, ?_, ?_⟩
  · have := hg.offAligned; have := hg.woAligned; omega
  · rw [h2, cbdOf_eq_coreBlockDepth c _ hn hcore']; rfl

/-- Spec side: the channel sets of the expected (core, slice) pairs partition `[0, depth)`. -/
theorem expected_channels_partition (q : SReq) (hv : ValidReq q) :
    (∀ ch, ch < q.fullDepth → ∃ e ∈ expected q, ch ∈ e.chans q) ∧
    (∀ e ∈ expected q, ∀ ch ∈ e.chans q, ch < q.fullDepth) ∧
    (∀ e1 ∈ expected q, ∀ e2 ∈ expected q, ∀ ch, ch ∈ e1.chans q → ch ∈ e2.chans q → e1 = e2) ∧
    (∀ e ∈ expected q, (e.chans q).Nodup) :=
  chans_partition q hv

/-- Model side: every output channel below the OFM depth has its record in the scale section of exactly
    one range and its weights in the weight section of the same range, and no range mentions a channel
    twice or a channel outside `[0, depth)`. -/
theorem channels_once (c : Cfg) (offsets : List Nat) (out : Out)
    (hv : ValidReq (reqOf c offsets)) (hbl : c.biases.length = c.fullDepth) (hsl : c.scales.length = c.fullDepth)
    (hw : c.doWeights = true) (h : encodeTensor c offsets = .ok out) :
    (∀ ch, ch < c.fullDepth → ∃ r ∈ out.ranges, ch ∈ r.scaleCh ∧ ch ∈ r.weightCh ∧
        ∀ r' ∈ out.ranges, (ch ∈ r'.scaleCh ∨ ch ∈ r'.weightCh) → r' = r) ∧
    (∀ r ∈ out.ranges, r.scaleCh.Nodup ∧ r.weightCh = r.scaleCh ∧ ∀ ch ∈ r.scaleCh, ch < c.fullDepth) := by
  have hf := encodeTensor_facts c offsets out h
  have hv' := hv
  obtain ⟨hn, hb, _, _, _, hs⟩ := hv
  rw [ranges_eq_raw c offsets out hs hf]
  have hall := made_expected c offsets out hb hf
  obtain ⟨hcover, hbound, huniq, hnodup⟩ := chans_partition (reqOf c offsets) hv'
  -- channel lists of a range paired with its expected entry
  have hch : ∀ (e : Expect) (r : Range), e ∈ expected (reqOf c offsets) → r ∈ out.rawRanges →
      Made c e.slice e.off e.len e.core r → r.scaleCh = e.chans (reqOf c offsets) ∧ r.weightCh = e.chans (reqOf c offsets) := by
    intro e r he hr hm
    obtain ⟨hsl', hcore⟩ := mem_expected _ _ he
    obtain ⟨_, hle⟩ := slice_facts _ hv' _ hsl'
    have hcore' : e.core < c.ncores := by
      have : activeCores (reqOf c offsets) ≤ c.ncores := Nat.min_le_left _ _
      omega
    have hg := hf.good.rng r hr
    exact ⟨(made_scale c _ _ _ _ r out.stream hm hg (by rw [hbl, hsl]) hn hcore' (by rw [hbl]; exact hle)).1,
           (made_weights c _ _ _ _ r out.stream hm hg hw hn hcore' hle).1⟩
  refine ⟨?_, ?_⟩
  · intro ch hlt
    obtain ⟨e, he, hin⟩ := hcover ch hlt
    obtain ⟨r, hr, hm⟩ := hall.exists_right e he
    obtain ⟨h1, h2⟩ := hch e r he hr hm
    refine ⟨r, hr, by rw [h1]; exact hin, by rw [h2]; exact hin, ?_⟩
    intro r' hr' hin'
    obtain ⟨e', he', hm'⟩ := hall.exists_left r' hr'
    obtain ⟨h1', h2'⟩ := hch e' r' he' hr' hm'
    have hin'' : ch ∈ e'.chans (reqOf c offsets) := by
      rcases hin' with hx | hx
      · rw [h1'] at hx; exact hx
      · rw [h2'] at hx; exact hx
    have hee : e' = e := huniq e' he' e he ch hin'' hin
    subst hee
    rcases pairwise_mem_cases (rawRanges_distinct c offsets out hs hf) r' r hr' hr with hx | hx | hx
    · exact hx
    · exact absurd ⟨by rw [hm'.hcore, hm.hcore], by rw [hm'.hdepth, hm.hdepth]⟩ hx
    · exact absurd ⟨by rw [hm'.hcore, hm.hcore], by rw [hm'.hdepth, hm.hdepth]⟩ hx
  · intro r hr
    obtain ⟨e, he, hm⟩ := hall.exists_left r hr
    obtain ⟨h1, h2⟩ := hch e r he hr hm
    refine ⟨by rw [h1]; exact hnodup e he, by rw [h1, h2], ?_⟩
    intro ch hc
    rw [h1] at hc
    exact hbound e he ch hc

/-! ## 5. double-buffer sizes -/

/-- For every configuration and offset list: the bytes of depth slice `i` (the sum over its ranges of
    the 16-byte rounded `total_bytes`, which is what `create_dma_op` copies and equals the growth of the
    stream during that slice) fit into `double_buffer_sizes[i mod 2]`. -/
theorem double_buffer_bound (c : Cfg) (offsets : List Nat) (out : Out) (h : encodeTensor c offsets = .ok out) :
    ∀ i, dmaSum (out.rawRanges.filter (fun r => r.slice = i)) ≤ getDbs out.dbs i :=
  (encodeTensor_facts c offsets out h).dbs

/-- The same in the Spec's terms (ranges selected by their key's depth offset): `DbsOk`. -/
theorem double_buffer_spec (c : Cfg) (offsets : List Nat) (out : Out) (hv : ValidReq (reqOf c offsets))
    (h : encodeTensor c offsets = .ok out) : DbsOk (reqOf c offsets) (artefactOf c out) := by
  have hf := encodeTensor_facts c offsets out h
  have : artefactOf c out = rawArtefactOf c out := by
    unfold artefactOf rawArtefactOf; rw [ranges_eq_raw c offsets out hv.2.2.2.2.2 hf]
  rw [this]; exact dbs_ok c offsets out hv hf

/-- Two buffers of the recorded sizes hold every slice (slice `i` goes to buffer `i mod 2`) … -/
theorem double_buffer_holds (c : Cfg) (offsets : List Nat) (out : Out) (h : encodeTensor c offsets = .ok out) (i : Nat) :
    dmaSum (out.rawRanges.filter (fun r => r.slice = i)) ≤ [out.dbs.1, out.dbs.2].getD (i % 2) 0 := by
  have hb := double_buffer_bound c offsets out h i
  unfold getDbs at hb
  by_cases hpar : i % 2 = 0
  · rw [if_pos hpar] at hb; rw [hpar]; exact hb
  · rw [if_neg hpar] at hb
    have : i % 2 = 1 := by omega
    rw [this]; exact hb

/-- … and **one** buffer of `max(double_buffer_sizes)` bytes — what the repaired
    `propose_weight_buffering` allocates when it keeps several slices but only one buffer — holds every slice. -/
theorem single_buffer_holds (c : Cfg) (offsets : List Nat) (out : Out) (h : encodeTensor c offsets = .ok out) (i : Nat) :
    dmaSum (out.rawRanges.filter (fun r => r.slice = i)) ≤ [max out.dbs.1 out.dbs.2].getD (i % 1) 0 := by
  have hb := double_buffer_bound c offsets out h i
  unfold getDbs at hb
  rw [Nat.mod_one]
  show _ ≤ max out.dbs.1 out.dbs.2
  split at hb <;> omega

/-- One buffer of `double_buffer_sizes[0]` bytes (what the code allocated before
    `fixed: property=C08 PENDING-5`) would not: slices `[0,1,3]`, sizes (32, 64). -/
theorem single_buffer_witness :
    (encodeTensor unevenCfg [0, 1, 3]).toOption.map (fun out => out.dbs) = some (32, 64) ∧
    ¬ BuffersOk [32] [32, 64] ∧ BuffersOk [32, 64] [32, 64] := by
  decide +kernel

/-- **Layout part of C08, assembled**: for every request in the Spec's quantifier with one bias / scale
    entry per channel, every encoder, the tensor the model assembles satisfies
    the whole executable layout Spec (`LayoutOk` = keys ∧ alignment ∧ order/disjointness ∧ record count ∧
    double-buffer bound) — the same checker the harness applies to the implementation's tensors. -/
theorem layout_ok (c : Cfg) (offsets : List Nat) (out : Out)
    (hv : ValidReq (reqOf c offsets)) (hbl : c.biases.length = c.fullDepth) (hsl : c.scales.length = c.fullDepth)
    (h : encodeTensor c offsets = .ok out) :
    LayoutOk (reqOf c offsets) (artefactOf c out) := by
  obtain ⟨h1, h2, h3⟩ := ranges_disjoint_ordered_aligned c offsets out h
  have hart := h3 hv.2.2.2.2.2
  refine ⟨keys_exactly_expected c offsets out hv h, ?_, ?_, (scale_count c offsets out hv hbl hsl h).1,
    double_buffer_spec c offsets out hv h⟩
  · rw [hart]; exact h1
  · rw [hart]; exact h2

/-! ## 6. address ranges handed to the command stream generator -/

/-- `create_weights` on the tensor itself and `create_dma_op` reading from it: every weight and scale
    address range is 16-byte aligned, inside `[address, address + len(buffer))` and equals the recorded
    section of a range with the requested key; the DMA source starts at core 0's range. -/
theorem address_ranges_inside (c : Cfg) (offsets : List Nat) (out : Out) (h : encodeTensor c offsets = .ok out)
    (n srcAddr depth : Nat) (hsrc : srcAddr % 16 = 0) (ws bs : List AddrRange)
    (hw : createWeights n out.rawRanges srcAddr none none depth = some (ws, bs)) :
    (∀ a ∈ ws, a.address % 16 = 0 ∧ srcAddr ≤ a.address ∧ a.address + a.length ≤ srcAddr + out.stream.length ∧
        ∃ r ∈ out.rawRanges, r.depth = depth ∧ a = ⟨srcAddr + r.offset + r.weightOffset, r.weightBytes⟩) ∧
    (∀ a ∈ bs, a.address % 16 = 0 ∧ srcAddr ≤ a.address ∧ a.address + a.length ≤ srcAddr + out.stream.length ∧
        ∃ r ∈ out.rawRanges, r.depth = depth ∧ a = ⟨srcAddr + r.offset, WeightLayout.roundUp16 r.scaleBytes⟩) := by
  have hf := encodeTensor_facts c offsets out h
  exact createWeightsLoop_direct out.rawRanges out.stream.length srcAddr depth
    (fun r hr => (hf.good.rng r hr).num) hsrc hf.good.aligned _ 0 ws bs hw

/- Full statement for the buffered path: the ranges `create_weights` derives for a buffered copy lie inside
   the buffer tensor of `double_buffer_sizes[i mod 2]` bytes.  Proved below: they lie inside the bytes
   `create_dma_op` writes for the same slice (`address_ranges_buffered_partial`), and the ranges *created* for
   slice `i` sum to at most `double_buffer_sizes[i mod 2]` (`double_buffer_bound`).  Missing link: that the
   ranges `findRange` returns for `(core, depth_offset)` are exactly the ranges created for that slice —
   true for strictly increasing offsets, checked on the implementation by the harness (`wl_addrspec`). -/

/-- Buffered path: addresses are relative to the buffer, `core_offset` advancing by the rounded range
    size; every range lies inside the `sz` bytes the DMA of `create_dma_op` writes at the buffer address. -/
theorem address_ranges_buffered_partial (c : Cfg) (offsets : List Nat) (out : Out) (h : encodeTensor c offsets = .ok out)
    (n srcAddr buf depth : Nat) (hbuf : buf % 16 = 0) (ws bs : List AddrRange) (s d : AddrRange)
    (hw : createWeights n out.rawRanges srcAddr (some buf) none depth = some (ws, bs))
    (hd : createDmaOp n out.rawRanges srcAddr buf depth = some (s, d)) :
    d.address = buf ∧ d.length = s.length ∧
    ∀ a ∈ ws ++ bs, a.address % 16 = 0 ∧ d.address ≤ a.address ∧ a.address + a.length ≤ d.address + d.length := by
  have hf := encodeTensor_facts c offsets out h
  obtain ⟨hlen, rfl, _⟩ := createDmaOp_spec n out.rawRanges srcAddr buf depth s d hd
  refine ⟨rfl, rfl, ?_⟩
  intro a ha
  have := createWeightsLoop_buffered out.rawRanges out.stream.length srcAddr depth buf
    (fun r hr => (hf.good.rng r hr).num) hbuf _ 0 ws bs rfl hw a ha
  simp only [hlen]; omega

/-! ## 7. the compression cache -/

/-- Answering from a table keyed by `key` is correct for **every** sequence of admissible requests
    iff the fresh result is a function of the key on admissible requests. -/
theorem cache_key_function {ρ κ β : Type} [DecidableEq κ] (key : ρ → κ) (fresh : ρ → β) (S : ρ → Prop) :
    (∀ reqs : List ρ, (∀ r ∈ reqs, S r) → ∀ p ∈ cachedRun key fresh [] reqs, p.2 = fresh p.1) ↔
    (∀ a b, S a → S b → key a = key b → fresh a = fresh b) := by
  constructor
  · intro hall a b ha hb hk
    have := hall [a, b] (by intro r hr; simp at hr; rcases hr with rfl | rfl <;> assumption) (b, fresh a)
      (by rw [cachedRun_two key fresh a b hk]; simp)
    exact this
  · intro hfun reqs hS
    exact cachedRun_sound key fresh S hfun reqs [] (by intro e he; simp at he) hS

/-- What `WeightCompressionConfig` (with the IFM bit depth, `fixed: property=C08 PENDING-2`) still leaves
    out: the accelerator — constant while a cache lives, since `compiler_driver` now empties the cache
    (`PENDING-4`) —, the depth offsets beyond their `hash(str(..))`, the
    block depth beyond its clamp (harmless: every core's share still covers its channels), and the data
    behind the two value ids (the ids are per tensor; the one value-derived id now includes the kernel
    shape, `PENDING-3`; graph rewrites that re-lay a filter in place must refresh the id themselves:
    `fixup_strided_conv` does, `fixup_dilation_gt2` does not — finding `dilated-kernel-keeps-value-id`). -/
theorem cache_key_omits (r : Req) (acc : Nat) (offs : List Nat) (bd wdata sdata : Nat) :
    wccKey { r with accelerator := acc, depthOffsets := offs, blockDepth := bd,
                    weightData := wdata, scaleData := sdata } = wccKey r := rfl

/-- The transpose-convolution flip (the kernel is encoded reversed in H and W): whether the key of the tree
    under test has a field for it is read from the generated field list (`keyHasFlip`).  With the field, equal
    keys imply equal flips; without it (the unchanged tree: finding `cache-key-omits-transpose-conv-flip`,
    repair `/verif_patches/C08-21`) the key is blind to it. -/
theorem cache_key_flip :
    (keyHasFlip = true → ∀ a b : Req, wccKey a = wccKey b → a.opFlip = b.opFlip) ∧
    (keyHasFlip = false → ∀ (r : Req) (f : Bool), wccKey { r with opFlip := f } = wccKey r) := by
  constructor
  · intro h a b hk
    have := congrArg WccKey.flip hk
    simpa [wccKey, h] using this
  · intro h r f
    simp [wccKey, h]

/-- The key now separates requests that differ in the IFM bit depth: for every pair of requests,
    equal weight keys imply equal bit depths … -/
theorem cache_key_has_ifm_bits (a b : Req) (h : wccKey a = wccKey b) : a.ifmBits = b.ifmBits :=
  congrArg WccKey.ifmBits h

/-- … so the former witness (int8 request, then int16 request on the same weight tensor; before the
    repair the second was a weights-only hit answered with the first one's stream) is two misses, and a
    memo table over this key answers an encoder that reads the bit depth correctly. -/
theorem cache_former_witness :
    wccKey reqInt8 ≠ wccKey reqInt16 ∧
    cachedRun wccKey (fun r => r.ifmBits) [] [reqInt8, reqInt16] = [(reqInt8, 8), (reqInt16, 16)] ∧
    cacheOutcomes [] [reqInt8, reqInt16] = [.miss, .miss] := by
  decide

/-! ## 8. cache transparency: what holds of a fresh encoding holds of every tensor handed out -/

/-- Diagnosis of a transparency failure: in a run against an initially empty memo table, an answer that is not
    the fresh encoding of its request exhibits two requests of the run with **equal keys and different fresh
    encodings** (contrapositive of the `←` direction of `cache_key_function`, with the witness). -/
theorem cache_stale_means_key_collision {ρ κ β : Type} [DecidableEq κ] (key : ρ → κ) (fresh : ρ → β)
    (reqs : List ρ) (p : ρ × β) (hp : p ∈ cachedRun key fresh [] reqs) (hne : p.2 ≠ fresh p.1) :
    ∃ a ∈ reqs, key a = key p.1 ∧ fresh a ≠ fresh p.1 := by
  obtain ⟨a, ha, h⟩ := cachedRun_stale key fresh reqs [] [] (by simp) p hp hne
  exact ⟨a, by simpa using ha, h⟩

/-- `CacheTransparent` (the Spec the harness applies to **every** answer of
    `encode_weight_and_scale_tensor` during a compilation, against the answer of the same request with the
    cache bypassed) transfers every property of the observable part of an encoding. -/
theorem transparent_transfers (P : Observation → Prop) (w : ETensor) (s : Option ETensor) (fresh : ETensor)
    (ht : CacheTransparent w s fresh) (h : P (observe fresh none)) : P (observe w s) := by
  unfold CacheTransparent at ht
  rw [ht]; exact h

/-- Transparency + the function-level theorems: if the answer `(w, s)` to a request in the Spec's quantifier is
    transparent with respect to the fresh encoding the model computes, then the handed-out weights tensor has
    exactly one range per expected (core, slice), the weight section of every (core, slice) is the encoder's
    answer for exactly the channels with in-slice index `≡ core`, and the scale section *of the tensor that
    carries the scales* (the stand-alone scale tensor of a weights-only hit, otherwise the weights tensor)
    decodes to exactly these channels' records — whatever the cache did. -/
theorem handed_out_tensor_correct (c : Cfg) (offsets : List Nat) (out : Out)
    (hv : ValidReq (reqOf c offsets)) (hbl : c.biases.length = c.fullDepth) (hsl : c.scales.length = c.fullDepth)
    (hw : c.doWeights = true) (h : encodeTensor c offsets = .ok out)
    (pk : Bool) (w : ETensor) (s : Option ETensor) (ht : CacheTransparent w s (tensorOf c out pk)) :
    w.ranges.map ARange.key = (expected (reqOf c offsets)).map (fun e => (e.core, e.off)) ∧
    (∀ p ∈ (expected (reqOf c offsets)).zip (observe w s).weights,
        p.2 = ((p.1.core, p.1.off),
               c.enc (p.1.chans (reqOf c offsets)) (coreBlockDepth c.ncores c.blockDepth p.1.core))) ∧
    (∀ p ∈ (expected (reqOf c offsets)).zip (observe w s).scales,
        p.2.1 = (p.1.core, p.1.off) ∧
        (decodeRecords p.2.2).map (fun l => l.map some) = some ((p.1.chans (reqOf c offsets)).map ((expOf c)[·]?))) ∧
    (observe w s).dbs = out.dbs := by
  unfold CacheTransparent at ht
  have hkeys := keys_exactly_expected c offsets out hv h
  unfold KeysOk at hkeys
  have hkey : ∀ p ∈ (expected (reqOf c offsets)).zip (out.ranges.map toARange),
      p.2.key = (p.1.core, p.1.off) :=
    zip_of_map_eq (fun e : Expect => (e.core, e.off)) ARange.key _ _ hkeys
  refine ⟨?_, ?_, ?_, ?_⟩
  · have : w.ranges = (tensorOf c out pk).ranges := congrArg Observation.ranges ht
    rw [this]; exact hkeys
  · intro p hp
    rw [ht] at hp
    obtain ⟨p', hp', rfl⟩ := zip_map_right_mem _ _ _ p hp
    have hk := hkey p' hp'
    obtain ⟨p'', hp'', rfl⟩ := zip_map_right_mem _ _ toARange p' hp'
    obtain ⟨_, _, h3⟩ := weight_sections c offsets out hv hw h p'' hp''
    simp only [Prod.mk.injEq]
    exact ⟨hk, h3⟩
  · intro p hp
    rw [ht] at hp
    obtain ⟨p', hp', rfl⟩ := zip_map_right_mem _ _ _ p hp
    have hk := hkey p' hp'
    have hrec := ((scale_count c offsets out hv hbl hsl h).2 p' hp').1
    exact ⟨hk, hrec⟩
  · rw [ht]; rfl

/-- The weights-only-hit path of the model is transparent (request B after request A on the same weights with
    other biases: A's tensor + a stand-alone scale tensor is indistinguishable from B's fresh encoding), and the
    Spec is not vacuous: without the stand-alone scale tensor the same answer is rejected. -/
theorem cache_transparent_witness :
    transparencyWitness.map (fun (w, s, f) => (decide (CacheTransparent w s f), decide (CacheTransparent w none f),
      transparencyFailures w none f)) = some (true, false, ["scale-sections"]) := by
  decide +kernel

/-! ## 9. what the registers of an emitted operation designate in the output file -/

/-- If the constants tensor of the output file contains the encoded stream at `base = |pre|`, then reading — the way
    the register-level Spec reads (`ConstMem.read`, used by `ScaleRegsOk`) — `10·|channels|` bytes at
    `base + offset` of the range of any (core, slice) yields exactly the records of the channels that core owns. -/
theorem emitted_scale_section_in_file (c : Cfg) (offsets : List Nat) (out : Out)
    (hv : ValidReq (reqOf c offsets)) (hbl : c.biases.length = c.fullDepth) (hsl : c.scales.length = c.fullDepth)
    (h : encodeTensor c offsets = .ok out)
    (m : ConstMem) (pre post : List Nat) (himg : m.image.toList = pre ++ out.stream ++ post) :
    ∀ p ∈ (expected (reqOf c offsets)).zip (artefactOf c out).ranges,
      ((m.read ⟨m.constRegion, pre.length + p.2.offset, 10 * (p.1.chans (reqOf c offsets)).length⟩).bind decodeRecords).map
          (fun l => l.map some) = some ((p.1.chans (reqOf c offsets)).map ((expOf c)[·]?)) := by
  intro p hp
  obtain ⟨hcnt, hrec⟩ := scale_count c offsets out hv hbl hsl h
  have hc := hcnt p hp
  obtain ⟨hr1, hr2⟩ := hrec p hp
  unfold ScaleCountAt at hc
  have hsize : m.image.size = pre.length + out.stream.length + post.length := by
    rw [← Array.length_toList, himg]; simp; omega
  unfold ConstMem.read
  simp only [if_true]
  rw [if_pos (by rw [hsize, ← hc]; omega)]
  simp only [Option.bind_some]
  rw [extract_toList, himg, bytesAt_mid _ _ _ _ _ (by rw [← hc]; exact hr2), ← hc]
  exact hr1

/-- The same for the weight section: the bytes at `base + offset + weight_offset` are the encoder's answer for the
    channels the core owns (`WeightRegsOk` compares them with the operation's own section). -/
theorem emitted_weight_section_in_file (c : Cfg) (offsets : List Nat) (out : Out)
    (hv : ValidReq (reqOf c offsets)) (hw : c.doWeights = true) (h : encodeTensor c offsets = .ok out)
    (m : ConstMem) (pre post : List Nat) (himg : m.image.toList = pre ++ out.stream ++ post) :
    ∀ p ∈ (expected (reqOf c offsets)).zip (artefactOf c out).ranges,
      m.read ⟨m.constRegion, pre.length + (p.2.offset + p.2.weightOffset), p.2.weightBytes⟩
        = some (c.enc (p.1.chans (reqOf c offsets)) (coreBlockDepth c.ncores c.blockDepth p.1.core)) := by
  intro p hp
  obtain ⟨_, hord, hart⟩ := ranges_disjoint_ordered_aligned c offsets out h
  have hmem : p.2 ∈ (artefactOf c out).ranges := (List.of_mem_zip hp).2
  have hin : p.2.stop ≤ out.stream.length := by
    have := hord.2 p.2 (by rw [← hart hv.2.2.2.2.2]; exact hmem)
    exact this.1
  unfold ARange.stop at hin
  obtain ⟨p', hp', rfl⟩ := zip_map_right_mem _ _ toARange p hp
  obtain ⟨_, _, h3⟩ := weight_sections c offsets out hv hw h p' hp'
  have hsize : m.image.size = pre.length + out.stream.length + post.length := by
    rw [← Array.length_toList, himg]; simp; omega
  simp only [toARange] at hin ⊢
  unfold ConstMem.read
  simp only [if_true]
  rw [if_pos (by rw [hsize]; omega)]
  rw [extract_toList, himg, bytesAt_mid _ _ _ _ _ (by omega), h3]


/-- A weight DMA replayed by the register-level Spec: after `dma src dst`, a non-empty range inside the
    destination reads the corresponding bytes of what the source designated. -/
theorem dma_then_read (m : ConstMem) (src dst r : Rng) (bs : List Nat) (hsrc : m.read src = some bs)
    (hreg : r.region = dst.region) (hnc : r.region ≠ m.constRegion) (hpos : 0 < r.len)
    (hin : dst.addr ≤ r.addr ∧ r.addr + r.len ≤ dst.addr + dst.len) :
    (m.dma src dst).read r = some (bytesAt bs (r.addr - dst.addr) r.len) := by
  have hw : (m.dma src dst).writes = ⟨dst.region, dst.addr, dst.len, some bs⟩ :: m.writes := by
    unfold ConstMem.dma; rw [hsrc]
  have hc : (m.dma src dst).constRegion = m.constRegion := rfl
  have hd : (decide (dst.region = r.region ∧ dst.addr < r.addr + r.len ∧ r.addr < dst.addr + dst.len)) = true := by
    simp only [decide_eq_true_eq]; exact ⟨hreg.symm, by omega, by omega⟩
  unfold ConstMem.read
  rw [hc, if_neg hnc, hw, List.find?_cons, hd]
  simp only [if_pos hin, Option.map_some]

/- Full statement (composition of the model with the register-level Spec): for every request in the Spec's quantifier,
   every depth slice and each of the three shapes of `create_weights` (in place, through the DMA'd buffer, stand-alone
   scale tensor), the ranges the model of `create_weights` derives — with the zero-length ranges of cores that own no
   channel dropped, as the register decoder does — satisfy `ScaleRegsOk ∧ WeightRegsOk` on a memory that holds the
   model's stream at the tensor's address (after the DMA of `create_dma_op` for the buffered shape).
   Proved below (`_partial`): the **in-place** shape for slices in which **every core owns a channel**
   (`ncores ≤ slice length`; always so on one core).  Missing: slices shorter than the core count (the decoder's
   dropping of the empty SCALE1/WEIGHT1 range has to be aligned with `OpConsts.cores`), the buffered shape (needs the
   link "ranges of one slice are contiguous in the stream", the same link `address_ranges_buffered_partial` lacks;
   `dma_then_read` is the memory half) and the stand-alone scale tensor; `emitted_consts_witness` is a concrete
   instance of the in-place and the buffered shape. -/

/-- In place, every core owning a channel: the scale ranges of the model of `create_weights` satisfy `ScaleRegsOk`
    on any constants image that holds the model's stream at a 16-byte aligned `base = |pre|`. -/
theorem emitted_scale_regs_partial (c : Cfg) (offsets : List Nat) (out : Out)
    (hv : ValidReq (reqOf c offsets)) (hbl : c.biases.length = c.fullDepth) (hsl : c.scales.length = c.fullDepth)
    (h : encodeTensor c offsets = .ok out)
    (m : ConstMem) (pre post : List Nat) (himg : m.image.toList = pre ++ out.stream ++ post) (hbase : pre.length % 16 = 0)
    (s : Nat × Nat × Nat) (hs : s ∈ slices offsets) (hfull : c.ncores ≤ s.2.2)
    (ws bs : List AddrRange) (hcw : createWeights c.ncores out.rawRanges pre.length none none s.2.1 = some (ws, bs)) :
    ScaleRegsOk m (expOf c)
      ⟨c.ncores, s.2.1, s.2.1 + s.2.2, bs.map (toRng m.constRegion), ws.map (toRng m.constRegion)⟩ := by
  have hf := encodeTensor_facts c offsets out h
  have hn : 0 < c.ncores := hv.1
  obtain ⟨hpos, hle⟩ := slice_facts _ hv s hs
  have hact : activeCores (reqOf c offsets) = c.ncores := by
    unfold activeCores reqOf; simp only; have : s.2.1 + s.2.2 ≤ c.fullDepth := hle; omega
  have hfind : ∀ k, k < c.ncores → ∃ r, findRange out.rawRanges k s.2.1 = some r ∧ r ∈ out.rawRanges ∧ Made c s.1 s.2.1 s.2.2 k r :=
    fun k hk => find_made c offsets out hv h s hs k (by rw [hact]; exact hk)
  have hmap := createWeightsLoop_direct_map out.rawRanges pre.length s.2.1 (List.range c.ncores) 0 (by
    intro k hk
    obtain ⟨r, hr, _⟩ := hfind k (List.mem_range.1 hk)
    rw [hr]; rfl)
  unfold createWeights at hcw
  rw [hmap] at hcw
  injection hcw with hcw
  injection hcw with hws hbs
  subst hws; subst hbs
  have hcores : (⟨c.ncores, s.2.1, s.2.1 + s.2.2, ((List.range c.ncores).map (directScale out.rawRanges pre.length s.2.1)).map (toRng m.constRegion),
      ((List.range c.ncores).map (directWeight out.rawRanges pre.length s.2.1)).map (toRng m.constRegion)⟩ : OpConsts).cores
      = List.range c.ncores := by
    unfold OpConsts.cores
    simp only [Nat.add_sub_cancel_left]
    apply List.filter_eq_self.2
    intro k hk
    have hk' := List.mem_range.1 hk
    simp only [decide_eq_true_eq]
    exact chanOf_nonempty _ _ _ _ hk' (by omega)
  unfold ScaleRegsOk
  rw [hcores]
  refine ⟨by simp, ?_⟩
  intro p hp
  simp only [List.map_map, Nat.add_sub_cancel_left] at hp ⊢
  have hp2 := mem_zip_map_self _ _ p hp
  have hp1 : p.1 < c.ncores := List.mem_range.1 (List.of_mem_zip hp).1
  obtain ⟨r, hr, hrm, hm⟩ := hfind p.1 hp1
  have hg := hf.good.rng r hrm
  obtain ⟨_, hcnt, hdec, hin⟩ := made_scale c _ _ _ _ r out.stream hm hg (by rw [hbl, hsl]) hn hp1 (by rw [hbl]; exact hle)
  have hoff := hg.offAligned
  rw [hp2]
  simp only [Function.comp, toRng, directScale, hr]
  refine ⟨by omega, ?_, ?_⟩
  · rw [hcnt]; rfl
  · rw [read_in_image m pre out.stream post himg r.offset _ (by rw [← hcnt]; exact hin), ← hcnt]
    exact hdec


/-- The same for the weight ranges: `WeightRegsOk` with `own[k]` = the encoder's answer for exactly the channels of the
    slice with in-slice index `≡ k`, and core `k`'s share of the block depth. -/
theorem emitted_weight_regs_partial (c : Cfg) (offsets : List Nat) (out : Out)
    (hv : ValidReq (reqOf c offsets)) (hw : c.doWeights = true) (h : encodeTensor c offsets = .ok out)
    (m : ConstMem) (pre post : List Nat) (himg : m.image.toList = pre ++ out.stream ++ post) (hbase : pre.length % 16 = 0)
    (s : Nat × Nat × Nat) (hs : s ∈ slices offsets) (hfull : c.ncores ≤ s.2.2)
    (ws bs : List AddrRange) (hcw : createWeights c.ncores out.rawRanges pre.length none none s.2.1 = some (ws, bs)) :
    WeightRegsOk m
      ⟨c.ncores, s.2.1, s.2.1 + s.2.2, bs.map (toRng m.constRegion), ws.map (toRng m.constRegion)⟩
      ((List.range c.ncores).map fun k => c.enc (chanOf c.ncores k s.2.1 s.2.2) (coreBlockDepth c.ncores c.blockDepth k)) := by
  have hf := encodeTensor_facts c offsets out h
  have hn : 0 < c.ncores := hv.1
  obtain ⟨hpos, hle⟩ := slice_facts _ hv s hs
  have hact : activeCores (reqOf c offsets) = c.ncores := by
    unfold activeCores reqOf; simp only; have : s.2.1 + s.2.2 ≤ c.fullDepth := hle; omega
  have hfind : ∀ k, k < c.ncores → ∃ r, findRange out.rawRanges k s.2.1 = some r ∧ r ∈ out.rawRanges ∧ Made c s.1 s.2.1 s.2.2 k r :=
    fun k hk => find_made c offsets out hv h s hs k (by rw [hact]; exact hk)
  have hmap := createWeightsLoop_direct_map out.rawRanges pre.length s.2.1 (List.range c.ncores) 0 (by
    intro k hk
    obtain ⟨r, hr, _⟩ := hfind k (List.mem_range.1 hk)
    rw [hr]; rfl)
  unfold createWeights at hcw
  rw [hmap] at hcw
  injection hcw with hcw
  injection hcw with hws hbs
  subst hws; subst hbs
  have hcores : (⟨c.ncores, s.2.1, s.2.1 + s.2.2, ((List.range c.ncores).map (directScale out.rawRanges pre.length s.2.1)).map (toRng m.constRegion),
      ((List.range c.ncores).map (directWeight out.rawRanges pre.length s.2.1)).map (toRng m.constRegion)⟩ : OpConsts).cores
      = List.range c.ncores := by
    unfold OpConsts.cores
    simp only [Nat.add_sub_cancel_left]
    apply List.filter_eq_self.2
    intro k hk
    have hk' := List.mem_range.1 hk
    simp only [decide_eq_true_eq]
    exact chanOf_nonempty _ _ _ _ hk' (by omega)
  unfold WeightRegsOk
  rw [hcores]
  refine ⟨by simp, by simp, ?_⟩
  intro p hp
  simp only [List.map_map] at hp
  obtain ⟨k, hk, rfl⟩ := mem_zip_map_map _ _ _ p hp
  have hk' : k < c.ncores := List.mem_range.1 hk
  obtain ⟨r, hr, hrm, hm⟩ := hfind k hk'
  have hg := hf.good.rng r hrm
  obtain ⟨_, hbytes⟩ := made_weights c _ _ _ _ r out.stream hm hg hw hn hk' hle
  rw [cbdOf_eq_coreBlockDepth c k hn hk'] at hbytes
  have hoff := hg.offAligned
  have hwo := hg.woAligned
  have hwb := hg.wbAligned
  have hstop : r.stop ≤ out.stream.length := hg.inside
  unfold Range.stop at hstop
  have hlen : (c.enc (chanOf c.ncores k s.2.1 s.2.2) (coreBlockDepth c.ncores c.blockDepth k)).length = r.weightBytes := by
    rw [← hbytes]; unfold bytesAt; simp; omega
  simp only [Function.comp, toRng, directWeight, hr, roundUp16_of_mod _ hwb]
  refine ⟨by omega, hlen.symm, ?_⟩
  rw [Nat.add_assoc, read_in_image m pre out.stream post himg (r.offset + r.weightOffset) _ (by omega), hbytes]


/-- `emitted_consts_witness` (`_witness`: a concrete instance, not the general composition theorem): the model's
    tensor, placed in a constants image and addressed by the model of `create_weights` / `create_dma_op`, satisfies
    `ScaleRegsOk ∧ WeightRegsOk` read in place and through the DMA'd buffer; a scale base 16 bytes off (the shape of
    seeded change seed4/C08/m2) and a buffer no DMA has filled are rejected. -/
theorem emitted_consts_witness : emittedWitness = some (true, true, false, false) := by
  decide +kernel

/-! ## Non-vacuity -/

example : ValidReq (reqOf witnessCfg [0, 4, 8]) ∧ ValidReq (reqOf witnessCfg [0, 1, 2, 5, 8]) := by decide
example : (encodeTensor witnessCfg [0, 4, 8]).toOption.map (fun out => out.ranges.map fun r => (r.core, r.depth, r.scaleCh, r.weightCh))
    = some [(0, 0, [0, 2], [0, 2]), (1, 0, [1, 3], [1, 3]), (0, 4, [4, 6], [4, 6]), (1, 4, [5, 7], [5, 7])] := by
  decide +kernel
example : (encodeTensor witnessCfg [0, 4, 8]).toOption.map
    (fun out => decide (LayoutOk (reqOf witnessCfg [0, 4, 8]) (artefactOf witnessCfg out))) = some true := by
  decide +kernel
example : (encodeBias (-684) 1167018453 39).toOption = some [0x54, 0xfd, 0xff, 0xff, 0xff, 0xd5, 0x49, 0x8f, 0x45, 0x27] := by decide
example : decodeRecord [0x54, 0xfd, 0xff, 0xff, 0xff, 0xd5, 0x49, 0x8f, 0x45, 0x27] = some ⟨-684, 1167018453, 39⟩ := by decide
example : (encodeTensor unevenCfg [0, 1, 3]).toOption.map
    (fun out => (createWeights 1 out.rawRanges 4096 none none 1, createDmaOp 1 out.rawRanges 4096 64 1))
    = some (some ([⟨4160, 32⟩], [⟨4128, 32⟩]), some (⟨4128, 64⟩, ⟨64, 64⟩)) := by
  decide +kernel

end VelaVerif.Props.C08
