import VelaVerif.Model.WeightLayout
import VelaVerif.Spec.WeightLayout
namespace VelaVerif.Props.C08
open VelaVerif.WeightLayout

theorem placeholder : roundUp16 16 = 16 := by decide

end VelaVerif.Props.C08
