import VelaVerif.Lemmas.LutState
import VelaVerif.Spec.Conflicts
import VelaVerif.Gen.Core
/-!
# C03 at the lookup-table window: the residency pass of `ethosu/vela/lut.py`

`Model/LutState.lean` transcribes `LUTState` and `optimize_high_level_cmd_stream`; `Spec/LutWindow.lean` is the window
byte by byte; `Spec/LutRefine.lean` reads a command stream and the pass's decisions as window events. Everything below is
for EVERY command list (any interleaving of table DMAs, kernels with and without table, other commands; the same tensor
object / pass any number of times), every assignment of values to tables and, where sizes matter, every assignment of
sizes from {256, 512, 1024, 2048} in the 2 KiB window (`Sizes`).

What is proved, and what is NOT true of the unchanged code:

* (a) `resident_tables_disjoint`, `resident_values_distinct`, `resident_tables_in_window` — full.
* (b) `refines_original_at_decision` — full for the values the pass gives *when it processes a command*, under
  `EqualValuesEqualBytes` (tables whose values compare equal are the same bytes). `dropped_dma_sound_partial` — the same for
  the values the later stages read (after the pass), with the extra hypothesis `stable` (no address / index the pass
  assigned was overwritten by a later assignment). The full statement
      `OrigOk c r none cmds → optimize c cmds = .ok (acts, sf) → StreamOk (geomOf c) Window.empty (eventsFinal c r sf.env cmds acts)`
  is FALSE of the unchanged code in two ways, each proved on a concrete stream and replayed on the real code
  (design.d/LutState.md): `dropped_dma_sound_witness_sizes` (`get_equivalent` compares values, not bytes: a 256-entry
  uint8 table and a 256-entry int32 table with the same numbers) and `dropped_dma_sound_witness_reassigned` (a tensor
  object placed a second time at another address: the kept first DMA and the first kernels are re-pointed).
* (c) `index_is_offset_div_256` — full; `get_lut_index_agrees_iff` — what the unused `get_lut_index` would give.
* (d) `reset_rule_exact`, `reset_rule_sound`, `no_reset_with_reserved_banks`, `kernel_clobbers_every_table`.
-/
namespace VelaVerif.Props.C03.LutState
open VelaVerif.Model.LutState VelaVerif.Spec.LutWindow VelaVerif.Spec.LutRefine VelaVerif.Lemmas.LutState

/-! ## (a) the tracked state -/

/-- **resident_tables_disjoint.** Whatever the commands, sizes and values: no two tables of the tracked state share a byte. -/
theorem resident_tables_disjoint (c : Ctx) (cmds : List Cmd) (acts : List Act) (s : PS) (h : optimize c cmds = .ok (acts, s)) :
    s.st.Pairwise fun u v => ∀ b, ¬ ((u.addr ≤ b ∧ b < u.addr + u.size) ∧ (v.addr ≤ b ∧ b < v.addr + v.size)) :=
  (reach_stInv (run_reach cmds {} s acts Reach.init h)).disjoint

/-- (code without C03-11) no two tracked tables are equivalent for the pass (equal values; with C03-10: and equal size), and
    every entry carries the values / size of its tensor object -/
theorem resident_values_distinct (c : Ctx) (cmds : List Cmd) (acts : List Act) (s : PS) (h : optimize c cmds = .ok (acts, s)) :
    (c.sticky = false → s.st.Pairwise fun u v => ¬ (u.vals = v.vals ∧ (c.widthAware = true → u.size = v.size))) ∧
      ∀ u ∈ s.st, u.vals = c.vals u.tid ∧ u.size = c.size u.tid :=
  let i := reach_stInv (run_reach cmds {} s acts Reach.init h)
  ⟨i.distinct, i.fromCtx⟩

/-- with the sizes of the property every tracked table lies inside the window on a multiple of its own size (for the code
    with C03-11 but without C03-10 only if equal values imply equal sizes: a table "found" in another width keeps its place) -/
theorem resident_tables_in_window (c : Ctx) (hsz : Sizes c) (hgeo : c.sticky = true → SameSizeIfEquiv c) (cmds : List Cmd)
    (acts : List Act) (s : PS) (h : optimize c cmds = .ok (acts, s)) :
    ∀ u ∈ s.st, c.lutStart ≤ u.addr ∧ u.addr + u.size ≤ c.lutStart + c.lutSize ∧ (u.addr - c.lutStart) % u.size = 0 :=
  fun u hu => let ⟨a, b, d, _⟩ := (reach_geo hsz hgeo (run_reach cmds {} s acts Reach.init h)).inWin u hu; ⟨a, b, d⟩

/-- the pass never raises on these sizes -/
theorem optimize_total (c : Ctx) (hsz : Sizes c) (cmds : List Cmd) : ∃ r, optimize c cmds = .ok r := run_total hsz cmds {}

/-- (code without C03-11) the copy of the address in the model's list is the address of the object: a tensor object that is
    in the list is never placed again, and "assigning" it the found address changes nothing (see `Model/LutState.lean`,
    second item) -/
theorem state_entries_never_reassigned (c : Ctx) (hst : c.sticky = false) (pre : List Cmd) (acts : List Act) (s : PS)
    (h : optimize c pre = .ok (acts, s)) (u : Tab) (hu : u ∈ s.st) (p : Nat) :
    ∃ s', step c s (.lutDma p u.tid) = .ok (s', .dropped u u.addr ((u.addr - c.lutStart) / slotSize)) ∧ s'.st = s.st ∧
      lookup s'.env.addr u.tid = some u.addr :=
  assign_keeps_state hst (run_reach pre {} s acts Reach.init h) hu p

/-- (code with C03-11) a tensor object has one address for the whole stream, the tracked entries carry it, and every
    pass one index — whatever the stream, as long as every table DMA loads its own pass's table -/
theorem sticky_addresses_never_change (c : Ctx) (r : Refine) (hst : c.sticky = true) (cmds : List Cmd) (hown : DmaOwn r cmds)
    (acts : List Act) (s : PS) (h : optimize c cmds = .ok (acts, s)) :
    (∀ t a a', (t, a) ∈ s.env.addr → (t, a') ∈ s.env.addr → a = a') ∧ (∀ u ∈ s.st, (u.tid, u.addr) ∈ s.env.addr) ∧
      stable s.env = true :=
  let k := run_sticky hst cmds {} s acts (sticky_init c r) hown h
  ⟨k.one, k.entries, sticky_stable hst hown h⟩

/-- **find_best_address_minimal.** `find_best_address` returns an address of `range(start, stop, step)` that overlaps the
    fewest tracked tables (the list being shorter than `stop`, the value the loop starts from — always so: at most 8 tables
    fit the window and `stop` is an SHRAM address beyond 2048) -/
theorem find_best_address_minimal (st : State) (start stop step a : Nat) (h : findBestAddress st start stop step = .ok a)
    (hlen : st.length < stop) (hne : start < stop) :
    a ∈ pyRange start stop step ∧ ∀ a' ∈ pyRange start stop step, nrOverlaps st a step ≤ nrOverlaps st a' step :=
  findBestAddress_minimal h hlen hne

/-- **free_slot_no_eviction.** If some place of the right size and alignment is free, the table goes to a free place and
    `put` keeps every tracked table -/
theorem free_slot_no_eviction (c : Ctx) (st : State) (t a a' : Nat)
    (h : findBestAddress st c.lutStart (c.lutStart + c.lutSize) (c.size t) = .ok a) (hlen : st.length < c.lutStart + c.lutSize)
    (hne : 0 < c.lutSize) (hfree : a' ∈ pyRange c.lutStart (c.lutStart + c.lutSize) (c.size t)) (h0 : nrOverlaps st a' (c.size t) = 0) :
    put st (mkTab c t a) = mkTab c t a :: st := by
  obtain ⟨_, hmin⟩ := findBestAddress_minimal h hlen (by omega)
  have := hmin a' hfree
  exact put_of_no_overlap st (mkTab c t a) (by simp only [mkTab]; omega)

/-! ## (b) the optimised stream against the byte-level window -/

/-- **refines_original_at_decision.** If the unoptimised stream makes sense (`OrigOk`) then in the stream
    without the dropped DMAs, with the address / index each command was given when the pass processed it, every kernel
    with a table lookup finds at every byte it reads the byte of its own table, every load lies in the window and every
    index fits its field. -/
theorem refines_original_at_decision (c : Ctx) (r : Refine) (hsz : Sizes c) (hcb : EqualValuesEqualBytes c r)
    (hpa : PassesAgree c r) (cmds : List Cmd) (horig : OrigOk c r none cmds) :
    StreamOk (geomOf c) Window.empty (eventsAt c r {} cmds) :=
  eventsAt_ok hsz hcb hpa cmds {} Window.empty none (inv_nil c r {} _ (fun _ h => absurd h List.not_mem_nil)) horig

/-- **dropped_dma_sound_partial.** The same for what the later stages program (`eventsFinal`: the address each tensor
    object and the index each operation hold after the pass), when no assignment of the pass was overwritten (`stable`).
    Missing for the full statement: `EqualValuesEqualBytes` and `stable` — both can fail (witnesses below). -/
theorem dropped_dma_sound_partial (c : Ctx) (r : Refine) (hsz : Sizes c) (hcb : EqualValuesEqualBytes c r) (hpa : PassesAgree c r)
    (cmds : List Cmd) (acts : List Act) (sf : PS) (horig : OrigOk c r none cmds) (hrun : optimize c cmds = .ok (acts, sf))
    (hst : stable sf.env = true) :
    StreamOk (geomOf c) Window.empty (eventsFinal c r sf.env cmds acts) := by
  rw [eventsFinal_eq_eventsAt hpa hst cmds {} sf acts none hrun (fun _ h => h) (fun _ h => h) (fun _ _ h => nomatch h) horig]
  exact refines_original_at_decision c r hsz hcb hpa cmds horig

/-- **dropped_dma_sound_repaired.** The full statement holds of the code with repair C03-11 (`sticky`): for every stream
    whose table DMAs load their own pass's table, what the later stages program is fine. With C03-10 as well
    (`widthAware`) the hypothesis `EqualValuesEqualBytes` is only what is assumed of real tensors (equal numbers in equal
    element width are equal bytes). -/
theorem dropped_dma_sound_repaired (c : Ctx) (r : Refine) (hst : c.sticky = true) (hsz : Sizes c) (hcb : EqualValuesEqualBytes c r)
    (hpa : PassesAgree c r) (cmds : List Cmd) (horig : OrigOk c r none cmds) (hown : DmaOwn r cmds) :
    ∃ acts sf, optimize c cmds = .ok (acts, sf) ∧ StreamOk (geomOf c) Window.empty (eventsFinal c r sf.env cmds acts) := by
  obtain ⟨⟨acts, sf⟩, hrun⟩ := optimize_total c hsz cmds
  exact ⟨acts, sf, hrun, dropped_dma_sound_partial c r hsz hcb hpa cmds acts sf horig hrun (sticky_stable hst hown hrun)⟩

/-- **dropped_dma_sound_single_dma.** A syntactic case in which nothing can be reassigned: no tensor object and no pass
    occurs in two table DMAs of the stream (one horizontal stripe per operation with a table, one clone of the table per
    operation). Then the stream the later stages see is fine — no hypothesis on the run left. -/
theorem dropped_dma_sound_single_dma (c : Ctx) (r : Refine) (hsz : Sizes c) (hcb : EqualValuesEqualBytes c r) (hpa : PassesAgree c r)
    (cmds : List Cmd) (horig : OrigOk c r none cmds) (ht : (dmaTids cmds).Nodup) (hp : (dmaPids cmds).Nodup) :
    ∃ acts sf, optimize c cmds = .ok (acts, sf) ∧ StreamOk (geomOf c) Window.empty (eventsFinal c r sf.env cmds acts) := by
  obtain ⟨⟨acts, sf⟩, hrun⟩ := optimize_total c hsz cmds
  exact ⟨acts, sf, hrun, dropped_dma_sound_partial c r hsz hcb hpa cmds acts sf horig hrun (stable_of_nodup hrun ht hp)⟩

/-- the list checker applied to the real `put` results (`lutdisj`) accepts only lists in which no two tables share a byte -/
theorem tables_checker_sound (l : List (Nat × Nat × Nat)) (h : tablesOverlap l = none) :
    l.Pairwise fun a b => ∀ x, ¬ ((a.2.1 ≤ x ∧ x < a.2.1 + a.2.2) ∧ (b.2.1 ≤ x ∧ x < b.2.1 + b.2.2)) :=
  tablesOverlap_none l h

/-- the stream checker applied to the real streams (`lutspec`) decides the Spec -/
theorem stream_checker_sound (g : Geom) (evs : List Ev) : problems g evs = [] ↔ StreamOk g Window.empty evs := by
  rw [← streamOkB_iff]
  exact problems_nil_iff g evs

/-! ### the two ways the full statement fails on the unchanged code -/

/-- witness 1: `np.array_equal` on the values does not see the element width. Tensor 0: 256 bytes, tensor 1: 1024 bytes,
    same values (a uint8 and an int32 table holding the same 256 numbers), different bytes. -/
def w1Ctx : Ctx := { lutStart := 22528, lutSize := 2048, reserved := 2, vals := fun _ => 7,
                     size := fun t => if t = 0 then 256 else 1024, passLut := fun _ => true }
def w1Ref : Refine := { content := fun t => t, passTab := fun p => some p }
def w1Cmds : List Cmd := [.lutDma 0 0, .stripe 0, .lutDma 1 1, .stripe 1]

/-- **dropped_dma_sound_witness_sizes.** Sizes from the set, a sensible original stream, nothing reassigned — and the
    second kernel reads 1024 bytes where only the 256 bytes of the other table were loaded (replay: design.d/LutState.md). -/
theorem dropped_dma_sound_witness_sizes :
    Sizes w1Ctx ∧ PassesAgree w1Ctx w1Ref ∧ OrigOk w1Ctx w1Ref none w1Cmds ∧
    ∃ acts sf, optimize w1Ctx w1Cmds = .ok (acts, sf) ∧ stable sf.env = true ∧
      acts = [.placed 22528 0, .untouched false, .dropped ⟨0, 7, 256, 22528⟩ 22528 0, .untouched false] ∧
      ¬ StreamOk (geomOf w1Ctx) Window.empty (eventsFinal w1Ctx w1Ref sf.env w1Cmds acts) ∧
      ¬ StreamOk (geomOf w1Ctx) Window.empty (eventsAt w1Ctx w1Ref {} w1Cmds) := by
  refine ⟨⟨rfl, fun t => ?_⟩, fun _ => rfl, (origOkB_iff _ _ _ _).1 (by decide), _, _, rfl, by decide, rfl, ?_, ?_⟩
  · simp only [w1Ctx]; split <;> simp
  · rw [← streamOkB_iff]; decide +kernel
  · rw [← streamOkB_iff]; decide +kernel

/-- witness 2: a tensor object placed twice. Tables 0, 1: 256 bytes, table 2: 2048 bytes, all different. Table 1 is
    loaded to slot 1; the 2 KiB table evicts everything; table 1 is loaded again, now to slot 0 — and with that the FIRST
    load of table 1 (same `out_tensor` object) goes to slot 0 as well, over table 0, which the kernel of pass 0 after the
    dropped DMA still needs. -/
def w2Ctx : Ctx := { lutStart := 22528, lutSize := 2048, reserved := 2, vals := fun t => t,
                     size := fun t => if t = 2 then 2048 else 256, passLut := fun _ => true }
def w2Ref : Refine := { content := fun t => t, passTab := fun p => some p }
def w2Cmds : List Cmd :=
  [.lutDma 0 0, .stripe 0, .lutDma 1 1, .stripe 1, .lutDma 0 0, .stripe 0, .lutDma 2 2, .stripe 2, .lutDma 1 1, .stripe 1]

/-- **dropped_dma_sound_witness_reassigned.** All hypotheses of `dropped_dma_sound_partial` but `stable` hold, the stream
    with the values of decision time is fine, the stream the later stages see is not. -/
theorem dropped_dma_sound_witness_reassigned :
    Sizes w2Ctx ∧ EqualValuesEqualBytes w2Ctx w2Ref ∧ PassesAgree w2Ctx w2Ref ∧ OrigOk w2Ctx w2Ref none w2Cmds ∧
    StreamOk (geomOf w2Ctx) Window.empty (eventsAt w2Ctx w2Ref {} w2Cmds) ∧
    ∃ acts sf, optimize w2Ctx w2Cmds = .ok (acts, sf) ∧ stable sf.env = false ∧
      lookup sf.env.addr 1 = some 22528 ∧ acts[2]? = some (.placed 22784 1) ∧ acts[4]? = some (.dropped ⟨0, 0, 256, 22528⟩ 22528 0) ∧
      ¬ StreamOk (geomOf w2Ctx) Window.empty (eventsFinal w2Ctx w2Ref sf.env w2Cmds acts) := by
  have hsz : Sizes w2Ctx := ⟨rfl, fun t => by simp only [w2Ctx]; split <;> simp⟩
  have hcb : EqualValuesEqualBytes w2Ctx w2Ref := fun t u h _ => by simp only [w2Ctx] at h; subst h; exact ⟨rfl, rfl⟩
  have hpa : PassesAgree w2Ctx w2Ref := fun _ => rfl
  have horig : OrigOk w2Ctx w2Ref none w2Cmds := (origOkB_iff _ _ _ _).1 (by decide)
  refine ⟨hsz, hcb, hpa, horig, refines_original_at_decision _ _ hsz hcb hpa _ horig, _, _, rfl, by decide, by decide,
    by decide, by decide, ?_⟩
  rw [← streamOkB_iff]; decide +kernel

/-- the repairs on the two witnesses: with C03-10 the 1 KiB table of witness 1 is loaded (upper half, index 4), with C03-11
    table 1 of witness 2 is loaded the second time where it was the first time; the Spec accepts both final streams -/
example : ∃ acts sf, optimize { w1Ctx with widthAware := true } w1Cmds = .ok (acts, sf) ∧ acts[2]? = some (.placed 23552 4) ∧
    streamOkB (geomOf w1Ctx) Window.empty (eventsFinal w1Ctx w1Ref sf.env w1Cmds acts) = true :=
  ⟨_, _, rfl, by decide, by decide +kernel⟩

example : ∃ acts sf, optimize { w2Ctx with sticky := true } w2Cmds = .ok (acts, sf) ∧ acts[8]? = some (.placed 22784 1) ∧
    stable sf.env = true ∧ streamOkB (geomOf w2Ctx) Window.empty (eventsFinal w2Ctx w2Ref sf.env w2Cmds acts) = true :=
  ⟨_, _, rfl, by decide, by decide, by decide +kernel⟩

/-! ## (c) the table index -/

/-- **index_is_offset_div_256.** In every state the pass can reach, a table DMA for pass `p`, tensor `t` leaves
    `t.address = a` and `lut_index = i` with `a = lutStart + 256·i`, `i = (a − lutStart) / 256 < 8` — for a newly placed
    table (which lies in the window on a multiple of its size) and for a reused one (which gets the address of the
    resident table with equal values). -/
theorem index_is_offset_div_256 (c : Ctx) (hsz : Sizes c) (hgeo : c.sticky = true → SameSizeIfEquiv c) (pre : List Cmd)
    (acts : List Act) (s : PS) (hpre : optimize c pre = .ok (acts, s)) (p t : Nat) (s' : PS) (act : Act)
    (hs : step c s (.lutDma p t) = .ok (s', act)) :
    ∃ a i, lookup s'.env.addr t = some a ∧ lookup s'.env.idx p = some i ∧ a = c.lutStart + 256 * i ∧ i < 8 ∧
      i = (a - c.lutStart) / 256 ∧
      ((act = .placed a i ∧ a + c.size t ≤ c.lutStart + c.lutSize ∧ (a - c.lutStart) % c.size t = 0 ∧
          s'.st = put s.st (mkTab c t a) ∧ findReusable c s t = none) ∨
       (∃ e, act = .dropped e a i ∧ e ∈ s.st ∧ e.vals = c.vals t ∧ e.addr = a ∧ findReusable c s t = some e ∧
          s'.st = s.st)) :=
  lutDma_decision hsz hgeo (run_reach pre {} s acts Reach.init hpre) hs

/-- what `get_lut_index` (offset / table size; not called by the pass since /repo b335255) gives for a table on a
    multiple of its size inside the window: the number of the table-sized slot, which is the hardware index exactly for
    256-byte tables and for tables at the start of the window -/
theorem get_lut_index_agrees_iff (lutStart k size : Nat) (hs : size = 256 ∨ size = 512 ∨ size = 1024 ∨ size = 2048)
    (hin : lutStart + k * size + size ≤ lutStart + 2048) :
    getLutIndex lutStart (lutStart + k * size) size = some k ∧
      (k = (lutStart + k * size - lutStart) / 256 ↔ (size = 256 ∨ k = 0)) := by
  unfold getLutIndex
  rcases hs with e | e | e | e <;> subst e <;> (refine ⟨?_, by omega⟩) <;>
    (rw [if_neg (by omega)]; simp only; rw [if_pos (by omega)]; congr 1; omega)

/-! ## (d) kernels without table -/

/-- **reset_rule_exact.** What the code does at an `NpuStripe`: the state is emptied iff the pass has no table
    (`ps.lut_tensor is None`) and the configuration has no reserved banks; otherwise nothing changes. The command is kept. -/
theorem reset_rule_exact (c : Ctx) (s : PS) (p : Nat) :
    step c s (.stripe p) =
      .ok (if c.passLut p = false ∧ c.reserved = 0 then ({ s with st := [] }, .untouched true) else (s, .untouched false)) := by
  simp only [step]
  by_cases h1 : c.passLut p <;> by_cases h2 : c.reserved = 0 <;> simp [h1, h2]

/-- **reset_rule_sound.** After a kernel without table on a configuration without reserved banks the next DMA of ANY
    table is kept (placed at the start of the window), whatever was tracked before — and it has to be:
    `kernel_clobbers_every_table` (Spec side) says no table is usable in the window such a kernel leaves. -/
theorem reset_rule_sound (c : Ctx) (hsz : Sizes c) (s : PS) (p q t : Nat) (hp : c.passLut p = false) (hr : c.reserved = 0) :
    ∃ s1, step c s (.stripe p) = .ok (s1, .untouched true) ∧ s1.st = [] ∧
      ∃ s2 a i, step c s1 (.lutDma q t) = .ok (s2, .placed a i) ∧ s2.st = [mkTab c t a] := by
  refine ⟨{ s with st := [] }, by simp [step, hp, hr], rfl, ?_⟩
  have hne : c.size t ≠ 0 := by rcases hsz.2 t with e | e | e | e <;> omega
  simp only [step, findReusable, getEquiv, List.find?_nil]
  cases hp : prevAddr c { s with st := [] } t with
  | some a => simp only [chooseAddr, hp, put, List.filter_nil]; exact ⟨_, _, _, rfl, rfl⟩
  | none => simp only [chooseAddr, hp, findBestAddress, hne, if_false, put, List.filter_nil]; exact ⟨_, _, _, rfl, rfl⟩

/-- **no_reset_with_reserved_banks.** On a configuration with reserved banks no kernel changes the tracked state — sound
    because there the window lies outside the SHRAM a kernel may use (`Spec/LutWindow.lean` `clobbers`, hand-written per
    configuration; `geometry_table_agrees` ties it to `arch.shram_reserved_unused_banks`): this case of
    `refines_original_at_decision` goes through with the window unchanged. -/
theorem no_reset_with_reserved_banks (c : Ctx) (s : PS) (p : Nat) (hr : c.reserved ≠ 0) :
    step c s (.stripe p) = .ok (s, .untouched false) ∧ stepW (geomOf c) = fun w e => match e with | .load n a b => w.load n a b | _ => w := by
  constructor
  · simp [step, hr]
  · funext w e
    cases e <;> simp [stepW, hr]

/-- the hand-written window geometry (`Spec/Conflicts.lean` `hwShramBanks`: 16 / 24 / 48 banks of 1 KiB, the table window
    is the last two banks; a kernel can reach it exactly on the 16-bank configurations) agrees with what Vela's
    `ArchitectureFeatures` reports for every accelerator (regenerated table `Gen/Core.lean`) -/
theorem geometry_table_agrees :
    ∀ row ∈ VelaVerif.Gen.accelerators,
      row.shramLutSize = 2048 ∧ row.shramLutAddress = (VelaVerif.Conflicts.hwShramBanks row.name - 2) * 1024 ∧
      ((row.shramReservedUnusedBanks == 0) = (VelaVerif.Conflicts.hwShramBanks row.name == 16)) := by
  decide

/-! ## non-vacuity: mixed sizes, equal values under different tensor objects, both kinds of configuration -/

def exCtx (reserved lutStart : Nat) : Ctx :=
  { lutStart := lutStart, lutSize := 2048, reserved := reserved, vals := fun t => t % 5,
    size := fun t => if t % 5 = 2 then 1024 else if t % 5 = 3 then 2048 else if t % 5 = 4 then 512 else 256,
    passLut := fun p => p % 7 != 6 }
def exRef : Refine := { content := fun t => t % 5, passTab := fun p => if p % 7 = 6 then none else some p }

theorem ex_hyps (reserved lutStart : Nat) :
    Sizes (exCtx reserved lutStart) ∧ EqualValuesEqualBytes (exCtx reserved lutStart) exRef ∧ PassesAgree (exCtx reserved lutStart) exRef := by
  refine ⟨⟨rfl, fun t => ?_⟩, fun t u h _ => ?_, fun p => ?_⟩
  · simp only [exCtx]; repeat' split
    all_goals simp
  · simp only [exCtx, exRef] at h ⊢; rw [h]; exact ⟨rfl, rfl⟩
  · simp only [exCtx, exRef]; split <;> simp_all

/-- two 256-byte tables, a 1 KiB table, the values of table 0 again under another tensor object (5), a kernel without table,
    table 1 again, a 2 KiB table (evicts everything), table 0 again, a 512-byte table -/
def exCmds : List Cmd :=
  [.lutDma 0 0, .stripe 0, .lutDma 1 1, .stripe 1, .lutDma 2 2, .stripe 2, .lutDma 5 5, .stripe 5, .stripe 6, .lutDma 1 1, .stripe 1,
   .lutDma 3 3, .stripe 3, .lutDma 0 0, .stripe 0, .lutDma 4 4, .stripe 4, .other, .stripe 4]

/-- with reserved banks (Ethos-U55-128): table 2 goes to the upper half (index 4), object 5 reuses table 0, table 1 survives
    the kernel, everything is reloaded after the 2 KiB table; all hypotheses of `dropped_dma_sound_partial` hold -/
example : OrigOk (exCtx 2 22528) exRef none exCmds ∧
    ∃ sf, optimize (exCtx 2 22528) exCmds = .ok ([.placed 22528 0, .untouched false, .placed 22784 1, .untouched false, .placed 23552 4,
        .untouched false, .dropped ⟨0, 0, 256, 22528⟩ 22528 0, .untouched false, .untouched false, .dropped ⟨1, 1, 256, 22784⟩ 22784 1,
        .untouched false, .placed 22528 0, .untouched false, .placed 22528 0, .untouched false, .placed 23040 2, .untouched false,
        .untouched false, .untouched false], sf) ∧ stable sf.env = true ∧
      sf.st = [⟨4, 4, 512, 23040⟩, ⟨0, 0, 256, 22528⟩] :=
  ⟨(origOkB_iff _ _ _ _).1 (by decide), _, rfl, by decide, by decide⟩

/-- without reserved banks (Ethos-U55-64) the kernel of pass 6 empties the state: table 1 is loaded again, to the start
    of the window this time — its address and the index of pass 1 are reassigned (`stable` is false), which is the
    situation of `dropped_dma_sound_witness_reassigned`: in the stream the later stages see, the FIRST load of table 1 lands
    on table 0 as well, which the kernel of pass 5 (dropped DMA) still needs — the Spec rejects the final stream -/
example : OrigOk (exCtx 0 14336) exRef none exCmds ∧
    ∃ acts sf, optimize (exCtx 0 14336) exCmds = .ok (acts, sf) ∧ acts[8]? = some (.untouched true) ∧
      acts[9]? = some (.placed 14336 0) ∧ stable sf.env = false ∧
      streamOkB (geomOf (exCtx 0 14336)) Window.empty (eventsFinal (exCtx 0 14336) exRef sf.env exCmds acts) = false :=
  ⟨(origOkB_iff _ _ _ _).1 (by decide), _, _, rfl, by decide, by decide, by decide, by decide +kernel⟩

example : StreamOk (geomOf (exCtx 2 22528)) Window.empty (eventsAt (exCtx 2 22528) exRef {} exCmds) :=
  let h := ex_hyps 2 22528
  refines_original_at_decision _ _ h.1 h.2.1 h.2.2 _ ((origOkB_iff _ _ _ _).1 (by decide))

/-- the Spec is not trivially true: a lookup with nothing loaded, a lookup after a clobbering kernel, a lookup of a wide
    table where a narrow one was loaded, a load outside the window are all rejected; the good stream is accepted -/
example : streamOkB ⟨14336, 2048, true⟩ Window.empty [.use 1 256 0] = false ∧
    streamOkB ⟨14336, 2048, true⟩ Window.empty [.load 1 256 14336, .use 1 256 0, .kernel, .use 1 256 0] = false ∧
    streamOkB ⟨22528, 2048, false⟩ Window.empty [.load 1 256 22528, .use 1 256 0, .kernel, .use 1 256 0] = true ∧
    streamOkB ⟨22528, 2048, false⟩ Window.empty [.load 1 256 22528, .use 2 1024 0] = false ∧
    streamOkB ⟨22528, 2048, false⟩ Window.empty [.load 1 1024 23552, .use 1 1024 4, .use 1 1024 1] = false ∧
    streamOkB ⟨22528, 2048, false⟩ Window.empty [.load 1 1024 24064] = false := by decide +kernel

end VelaVerif.Props.C03.LutState
