import VelaVerif.Lemmas.Box
import VelaVerif.Lemmas.Stripes
namespace VelaVerif.Props.C10
open VelaVerif.Box VelaVerif.Receptive VelaVerif.Stripes

theorem stripe_receptive (k s d top skB H y0 y1 w0 : Int)
    (hk : 1 ≤ k) (hs : 1 ≤ s) (hd : 1 ≤ d) (hH : 1 ≤ H)
    (h0 : 0 ≤ y0 - w0) (h01 : y0 < y1) (h1 : y1 - w0 ≤ H)
    (hT : 0 ≤ top) (hsk : dilated k d - s ≤ top + skB) :
    let r := transformH y0 y1 w0 none (some (s, top, skB)) H 1 (dilated k d)
    let o : Op := { k := k, s := s, d := d, top := top, H := H, off := 0, up := 1, mode := .none }
    let st : Stripe := { y0 := y0 - w0, h := y1 - y0, a := r.a, b := r.b, pt := r.pt, pb := r.pb }
    Equations o st ∧ Receptive o st ∧ BoxCovers o st := by
  intro r o st
  obtain ⟨ha, hpt, hpb, hb, he⟩ := transformH_up1 y0 y1 w0 s top skB H (dilated k d) hs h0 h01 h1 hT hsk
  have e1 : (y0 - w0 + (y1 - y0)) * s = (y1 - w0) * s := by ring
  have e2 : (y1 - y0 - 1) * s = (y1 - w0) * s - (y0 - w0) * s - s := by ring
  have hge : (y0 - w0) * s + s ≤ (y1 - w0) * s := by
    have : (y0 - w0 + 1) * s ≤ (y1 - w0) * s := Int.mul_le_mul_of_nonneg_right (by omega) (by omega)
    have e3 : (y0 - w0 + 1) * s = (y0 - w0) * s + s := by ring
    omega
  have heq : Equations o st := by
    simp only [Equations, o, st, implicitExtent, e1, e2]
    rw [show r.a = _ from ha, show r.pt = _ from hpt, show r.pb = _ from hpb]
    generalize (y0 - w0) * s = Y0 at *
    generalize (y1 - w0) * s = Y1 at *
    omega
  refine ⟨heq, receptive_of_equations o st rfl rfl (by simp only [o]; omega) (by simp only [o]; omega) ?_ heq,
    covers_of_equations o st rfl (by simp only [o]; omega) (by simp only [o]; omega) heq ?_⟩
  · show (0 : Int) ≤ r.a
    rw [show r.a = _ from ha]; omega
  · show (0 : Int) + min ((y0 - w0 + (y1 - y0)) * s - s - top + dilated k d) H ≤ r.b
    rw [e1, show r.b = _ from hb]
    generalize (y1 - w0) * s = Y1 at *
    omega


theorem stripes_partition (sN sH sW sC eN eH eW eC stepH stepW : Nat) (slices : List Nat) (boxes : List OBox)
    (hok : ofmBoxes sN sH sW sC eN eH eW eC stepH stepW slices = .ok boxes)
    (hsorted : slices.Pairwise (· ≤ ·))
    (hhead : ∀ a ∈ slices.head?, a ≤ sC) (hlast : ∃ x ∈ slices, eC ≤ x) :
    Partition (boxes.map toBox3) ⟨sH, eH, sW, eW, sC, eC⟩ := by
  unfold ofmBoxes at hok
  split at hok
  · cases hok
  · rename_i hstep
    simp only at hok
    split at hok
    · injection hok with hok
      subst hok
      constructor
      · intro y x c hc
        simp only [Box3.contains, Bool.and_eq_true, decide_eq_true_eq] at hc
        obtain ⟨⟨⟨⟨⟨h1, h2⟩, h3⟩, h4⟩, h5⟩, h6⟩ := hc
        rw [count3]
        have a1 := axis_count sH eH stepH y (by omega) h1 h2
        have a2 := axis_count sW eW stepW x (by omega) h3 h4
        have a3 := depth_count sC eC c h5 h6 slices hsorted
          (fun a ha => Nat.le_trans (hhead a ha) h5)
          (by obtain ⟨z, hz, hez⟩ := hlast; exact ⟨z, hz, by omega⟩)
        have a1' : (axisIntervals sH eH stepH).countP (inIv y) = 1 := a1
        have a2' : (axisIntervals sW eW stepW).countP (inIv x) = 1 := a2
        rw [a1', a2', a3]
      · intro b hb
        right
        simp only [List.mem_map, List.mem_flatMap] at hb
        obtain ⟨ob, ⟨hh, hhm, ww, wwm, cc, ccm, rfl⟩, rfl⟩ := hb
        have b1 := axis_within _ _ _ _ hhm
        have b2 := axis_within _ _ _ _ wwm
        have b3 := depth_within _ _ _ _ ccm
        simp only [Box3.within, toBox3, Bool.and_eq_true, decide_eq_true_eq]
        exact ⟨⟨⟨⟨⟨decide_eq_true b1.1, decide_eq_true b1.2⟩, decide_eq_true b2.1⟩, decide_eq_true b2.2⟩,
          decide_eq_true b3.1⟩, decide_eq_true b3.2⟩
    · cases hok

end VelaVerif.Props.C10
