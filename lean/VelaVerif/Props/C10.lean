import VelaVerif.Model.Cascade
import VelaVerif.Spec.Receptive
namespace VelaVerif.Props.C10
theorem placeholder : True := trivial
end VelaVerif.Props.C10
