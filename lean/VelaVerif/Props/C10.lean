import VelaVerif.Lemmas.Box
import VelaVerif.Lemmas.Stripes
import VelaVerif.Lemmas.Cascade
/-!
# C10 — splitting an operator into stripes does not change what it computes

Property theorems only.  Models: `Model/Box.lean` (`transform_with_strides_and_skirt`, `create_padding`),
`Model/Stripes.lean` (the three nested stripe loops), `Model/Cascade.lean` (rolling buffers, issue order);
specification: `Spec/Receptive.lean`; helper lemmas: `Lemmas/{Receptive,Box,Stripes,Cascade}.lean`.
The models are tied to /repo by the correspondence run of `harness/check_C10.py`.
-/
namespace VelaVerif.Props.C10
open VelaVerif.Box VelaVerif.Receptive VelaVerif.Stripes VelaVerif.Cascade

/-- **Receptive field of a stripe, rows** (no upscaling; any kernel `k`, stride `s`, dilation `d`, top
    padding, write offset `w0`, stripe `[y0, y1)`, and any fused slice read: the operator reads the `H` rows
    starting at row `off` of the stored tensor).  For the IFM box `[a, b)` and the `pad_top`/`pad_bottom` that
    `transform_with_strides_and_skirt` returns:
    * the equations of DESIGN.md: `a - pt = off + y0*s - top`, `pt = 0 ∨ a = off`, and
      `a + ((y1-y0-1)*s + k_dil - pt - pb) = off + min(y1*s - s - top + k_dil, H)`;
    * every tap of every output row reads exactly what the un-striped operator reads (`Receptive`);
    * the box contains every row the hardware touches (`BoxCovers`; it may be larger).
    The OFM stripe may end below the IFM (explicit padding of a fused PAD: OFM taller than IFM).
    Hypotheses: the skirt is at least the minimal total padding `k_dil - s` (`skirt_hypothesis`: true of every
    skirt of `calc_padding_and_skirt`), and for coverage a stripe ending below the IFM needs a non-negative
    bottom skirt (true whenever the OFM can be taller than the IFM, i.e. stride 1).
    Before the repairs (`fixed:` lines of known_findings.txt) this held only for `y1 - w0 ≤ H` and without read
    offset; the former witnesses were: PAD(1,1) + conv2x2/s1 over 128 rows, stripe [126,129) → box [125,128),
    `pad_bottom = 0`, last tap on row 128; slice w=5 + conv1x1/s2 → box columns [10,28); slice h=3 + conv5x5 SAME →
    box rows [1,24) with `pad_top = 2`. -/
theorem stripe_receptive (k s d top skB H y0 y1 w0 : Int) (off : Option Int)
    (hs : 1 ≤ s) (hd : 1 ≤ d) (hH : 1 ≤ H)
    (h0 : 0 ≤ y0 - w0) (h01 : y0 < y1)
    (hT : 0 ≤ top) (hsk : dilated k d - s ≤ top + skB) (hcov : y1 - w0 ≤ H ∨ 0 ≤ skB) :
    let r := transformH y0 y1 w0 off (some (s, top, skB)) H 1 (dilated k d)
    let o : Op := { k := k, s := s, d := d, top := top, H := H, off := offOf off, up := 1, mode := .none }
    let st : Stripe := { y0 := y0 - w0, h := y1 - y0, a := r.a, b := r.b, pt := r.pt, pb := r.pb }
    Equations o st ∧ Receptive o st ∧ BoxCovers o st := by
  intro r o st
  obtain ⟨ha, hpt, hpb, hb, he⟩ := transformH_up1 y0 y1 w0 s top skB H (dilated k d) off hs h01 hsk
  have e1 : (y0 - w0 + (y1 - y0)) * s = (y1 - w0) * s := by ring
  have e2 : (y1 - y0 - 1) * s = (y1 - w0) * s - (y0 - w0) * s - s := by ring
  have hge : (y0 - w0) * s + s ≤ (y1 - w0) * s := by
    have : (y0 - w0 + 1) * s ≤ (y1 - w0) * s := Int.mul_le_mul_of_nonneg_right (by omega) (by omega)
    have e3 : (y0 - w0 + 1) * s = (y0 - w0) * s + s := by ring
    omega
  have h0s : 0 ≤ (y0 - w0) * s := Int.mul_nonneg h0 (by omega)
  have heq : Equations o st := by
    simp only [Equations, o, st, implicitExtent, e1, e2]
    rw [show r.a = _ from ha, show r.pt = _ from hpt, show r.pb = _ from hpb]
    generalize (y0 - w0) * s = Y0 at *
    generalize (y1 - w0) * s = Y1 at *
    omega
  refine ⟨heq, receptive_of_equations o st rfl rfl (by simp only [o]; omega) (by simp only [o]; omega) ?_ heq,
    covers_of_equations o st rfl (by simp only [o]; omega) (by simp only [o]; omega) heq ?_⟩
  · show offOf off ≤ r.a
    rw [show r.a = _ from ha]; omega
  · show offOf off + min ((y0 - w0 + (y1 - y0)) * s - s - top + dilated k d) H ≤ r.b
    rw [e1, show r.b = _ from hb]
    have hHs : H ≤ H * s := by
      have : H * 1 ≤ H * s := Int.mul_le_mul_of_nonneg_left hs (by omega)
      omega
    by_cases hc : y1 - w0 ≤ H
    · have : min (y1 - w0) H = y1 - w0 := by omega
      rw [this]
      generalize (y1 - w0) * s = Y1 at *
      omega
    · have : min (y1 - w0) H = H := by omega
      rw [this]
      generalize (y1 - w0) * s = Y1 at *
      generalize H * s = HS at *
      omega

/-- **`box_covers`**: the IFM box handed to address generation contains every row the hardware touches
    (it may over-read: e.g. conv3x3/s3 SAME over 37 rows, stripe `[4,7)`: rows `[11,20)` are read, the box is `[11,22)`). -/
theorem box_covers (k s d top skB H y0 y1 w0 : Int) (off : Option Int)
    (hs : 1 ≤ s) (hd : 1 ≤ d) (hH : 1 ≤ H)
    (h0 : 0 ≤ y0 - w0) (h01 : y0 < y1)
    (hT : 0 ≤ top) (hsk : dilated k d - s ≤ top + skB) (hcov : y1 - w0 ≤ H ∨ 0 ≤ skB) :
    let r := transformH y0 y1 w0 off (some (s, top, skB)) H 1 (dilated k d)
    BoxCovers { k := k, s := s, d := d, top := top, H := H, off := offOf off, up := 1, mode := .none }
      { y0 := y0 - w0, h := y1 - y0, a := r.a, b := r.b, pt := r.pt, pb := r.pb } :=
  (stripe_receptive k s d top skB H y0 y1 w0 off hs hd hH h0 h01 hT hsk hcov).2.2

/-- **The skirt hypothesis holds for every skirt `calc_padding_and_skirt` produces** (all padding modes):
    `skirt_top + skirt_bottom = needed_total_padding ≥ k_dil - stride`, on both axes; and
    `needed_total_padding` is the reference (TensorFlow Lite) total SAME padding, of which SAME takes `total/2` on top. -/
theorem skirt_hypothesis (mode : PadMode) (kw kh sx sy H W : Int) (ex : Int × Int × Nat × Nat) (hsy : 1 ≤ sy) (hsx : 1 ≤ sx) :
    let ps := calcPaddingAndSkirt mode kw kh sx sy H W ex
    ps.2.top = ps.1.top ∧ ps.2.left = ps.1.left ∧
    kh - sy ≤ ps.2.top + ps.2.bottom ∧ kw - sx ≤ ps.2.left + ps.2.right ∧
    ps.2.top + ps.2.bottom = sameTotal H sy kh ∧
    (mode = .same → ps.1.top = sameTotal H sy kh / 2 ∧ ps.1.bottom = sameTotal H sy kh - ps.1.top) := by
  intro ps
  have h1 := neededTotalPadding_ge H sy kh hsy
  have h2 := neededTotalPadding_ge W sx kw hsx
  have h3 := neededTotalPadding_eq_sameTotal H sy kh hsy
  simp only [ps, calcPaddingAndSkirt]
  refine ⟨trivial, trivial, by omega, by omega, by omega, ?_⟩
  intro hm
  subst hm
  simp only
  omega

/-- a SAME operator executed as one stripe gets the operator's explicit padding from `create_padding`;
    its bottom padding is exactly what the receptive field of the last output row needs:
    `bottom = max((out-1)*s - top + k_dil - H, 0)` -/
theorem same_padding_whole_op (kh sy H : Int) (hsy : 1 ≤ sy) :
    let tot := sameTotal H sy kh
    tot - tot / 2 = max ((sameOut H sy - 1) * sy - tot / 2 + kh - H) 0 := by
  intro tot
  simp only [tot, sameTotal]
  generalize (sameOut H sy - 1) * sy = T
  omega

/-- **Explicit padding (a PAD folded into its consumer) of an operator executed as one stripe**: `calc_explicit_padding`
    keeps the leading padding and returns as trailing padding exactly what the receptive field of the last output row
    needs, `after' = max((out-1)*s - before + k_dil - H, 0)` with `out = (H + before + after - k_dil) / s + 1` the output
    size over the padded input — for every stride (before the repair of `calc_explicit_padding` the trailing padding was
    dropped when `needed_total_padding` was clamped, e.g. filter 2, stride 3, H ≡ 0 mod 3, pads 1/1: (1, 0) instead of (1, 1)). -/
theorem explicit_padding_whole_op (H s kd before : Int) (after : Nat) (hs : 1 ≤ s)
    (hout : 1 ≤ (H + before + after - kd) / s + 1) :
    let out := (H + before + after - kd) / s + 1
    calcExplicitPadding H s kd before after = (before, max ((out - 1) * s - before + kd - H) 0) := by
  intro out
  have hdiv : (H + before + after - kd) / s * s ≤ H + before + after - kd := Int.ediv_mul_le _ (by omega)
  have hmax : max ((H + before + (after : Int) - kd) / s + 1) 1 = (H + before + after - kd) / s + 1 := by omega
  simp only [calcExplicitPadding, out, hmax, Int.add_sub_cancel]
  generalize (H + before + (after : Int) - kd) / s * s = Q at *
  congr 1
  omega

/-- the padding `create_padding` hands to the NPU operation for the rows is the stripe's own
    `pad_top`/`pad_bottom`, except for an operator executed as one stripe, which gets the operator's
    explicit padding -/
theorem padding_handed_rows (i : PadIn) (hv : i.vectorProduct = false) (ht : i.tile = false) :
    (createPadding i).top = (if i.isFirst && i.isLast then i.explicit.top else i.cmdTop) ∧
    (createPadding i).bottom = (if i.isFirst && i.isLast then i.explicit.bottom else i.cmdBottom) := by
  unfold createPadding
  rw [hv, ht]
  cases i.isFirst <;> cases i.isLast <;> simp

/-- **The OFM boxes of the three nested loops partition the operator's output**: for every step > 0
    (a zero step is rejected) and every sorted depth-slice list (in particular every strictly increasing
    one) that starts at or before the first output channel and reaches the last one, every output
    element lies in exactly one box and no box leaves `[ofm_start, ofm_end)`. -/
theorem stripes_partition (sN sH sW sC eN eH eW eC stepH stepW : Nat) (slices : List Nat) (boxes : List OBox)
    (hok : ofmBoxes sN sH sW sC eN eH eW eC stepH stepW slices = .ok boxes)
    (hsorted : slices.Pairwise (· ≤ ·))
    (hhead : ∀ a ∈ slices.head?, a ≤ sC) (hlast : ∃ x ∈ slices, eC ≤ x) :
    Partition (boxes.map toBox3) ⟨sH, eH, sW, eW, sC, eC⟩ := by
  unfold ofmBoxes ofmBoxesRaw at hok
  split at hok
  · cases hok
  · rename_i hstep
    simp only at hok
    split at hok
    · injection hok with hok
      subst hok
      constructor
      · intro y x c hc
        simp only [Box3.contains, Bool.and_eq_true, decide_eq_true_eq] at hc
        obtain ⟨⟨⟨⟨⟨h1, h2⟩, h3⟩, h4⟩, h5⟩, h6⟩ := hc
        rw [count3]
        have a1 := axis_count sH eH stepH y (by omega) h1 h2
        have a2 := axis_count sW eW stepW x (by omega) h3 h4
        have a3 := depth_count sC eC c h5 h6 slices hsorted
          (fun a ha => Nat.le_trans (hhead a ha) h5)
          (by obtain ⟨z, hz, hez⟩ := hlast; exact ⟨z, hz, by omega⟩)
        have a1' : (axisIntervals sH eH stepH).countP (inIv y) = 1 := a1
        have a2' : (axisIntervals sW eW stepW).countP (inIv x) = 1 := a2
        rw [a1', a2', a3]
      · intro b hb
        right
        simp only [List.mem_map, List.mem_flatMap] at hb
        obtain ⟨ob, ⟨hh, hhm, ww, wwm, cc, ccm, rfl⟩, rfl⟩ := hb
        have b1 := axis_within _ _ _ _ hhm
        have b2 := axis_within _ _ _ _ wwm
        have b3 := depth_within _ _ _ _ ccm
        simp only [Box3.within, toBox3, Bool.and_eq_true, decide_eq_true_eq]
        exact ⟨⟨⟨⟨⟨decide_eq_true b1.1, decide_eq_true b1.2⟩, decide_eq_true b2.1⟩, decide_eq_true b2.2⟩,
          decide_eq_true b3.1⟩, decide_eq_true b3.2⟩
    · cases hok


/-- a strictly increasing list is sorted: the hypothesis of `stripes_partition` covers it -/
theorem strictly_increasing_sorted (l : List Nat) (h : l.Pairwise (· < ·)) : l.Pairwise (· ≤ ·) :=
  h.imp (fun hab => Nat.le_of_lt hab)

/-- **`addresses_for_rolling_buffer` maps row `r` to slot `r mod B`**: with the two tiles it returns, the
    hardware addressing (rows below `height_0` from tile 0, the others from tile 2) reaches storage row
    `r % B` for every row of a box at most `B` rows high. -/
theorem tile_addresses (y0 y1 x0 x1 B W : Nat) (t : Tiles)
    (h : addressesForRollingBuffer y0 y1 x0 x1 B W = .ok t) (hle : y1 - y0 ≤ B)
    (r : Nat) (hr0 : y0 ≤ r) (hr1 : r < y1) : hwSlot t y0 r = some (r % B) :=
  hwSlot_eq_mod y0 y1 x0 x1 B W t h hle r hr0 hr1

/-- `rolling_buffer_shape`: the buffer is at least producer stripe + consumer input stripe + (over-read - 1) high
    and a multiple of the consumer input stripe -/
theorem rolling_buffer_height_ge (pH pW pD cH cW over h w d : Nat)
    (hr : rollingBufferShape pH pW pD cH cW over = .ok (h, w, d)) : pH + cH + (over - 1) ≤ h ∧ h % cH = 0 := by
  unfold rollingBufferShape at hr
  split at hr
  · cases hr
  · rename_i hc
    injection hr with hr
    injection hr with h1 _
    subst h1
    unfold Cascade.roundUp
    constructor
    · have h2 := Nat.div_add_mod (pH + cH + (over - 1) + cH - 1) cH
      have h3 := Nat.mod_lt (pH + cH + (over - 1) + cH - 1) (by omega : cH > 0)
      have e : (pH + cH + (over - 1) + cH - 1) / cH * cH = cH * ((pH + cH + (over - 1) + cH - 1) / cH) := Nat.mul_comm _ _
      omega
    · exact Nat.mul_mod_left _ _

/-- **Arithmetic core of rolling-buffer safety.**  When a consumer stripe whose hardware reads start at row `a`
    is issued, the generator has let the producer run to `frontier p H b` (first producer stripe boundary at or
    after the end `b` of the *requested box*, over-read included).  Row `r ≥ a` still sits in slot `r mod B` iff
    `frontier ≤ r + B`; so safety is `frontier p H b ≤ a + B`, and it holds under the exact inequality the proof
    forces:  stride + skirt_top + skirt_bottom ≤ k_dil + 1 + (B - p - c)
    (over-read of the box beyond the receptive field ≤ 1 + slack of the buffer).  `rolling_sufficient` shows that the
    buffer `rolling_buffer_shape` returns satisfies it.  Before the repair (`fixed:` line of known_findings.txt) the
    buffer was `round_up(p + c, c)` and the inequality failed e.g. for k=3, s=3, SAME, H ≡ 1 mod 3: for
    conv3x3/s1 → conv3x3/s3 SAME, H=37, p=3, c=3, B=6 the order `o0[0,3) o0[3,6) o1[0] o0[6,9) o1[1]` made consumer
    stripe 1 read row 8 where it expected row 2 (former `rolling_insufficient_witness`).
    Not proved: that `Model/Cascade.cascadeOrder` issues a consumer stripe exactly when the producer reached
    `frontier` — validated by the check (issue order of the model = issue order of the real generator; Lean simulation
    of the real order). -/
theorem rolling_sufficient_of_slack (H p q s kd top skB B y0 y1 : Int)
    (hp : 1 ≤ p) (hq : 1 ≤ q) (hs : 1 ≤ s) (hkd : 1 ≤ kd) (hH : 1 ≤ H)
    (hy0 : 0 ≤ y0) (hy : y0 < y1) (hyq : y1 ≤ y0 + q) (hyH : y1 ≤ H) (hT : 0 ≤ top)
    (hB : p + min ((q - 1) * s + kd) H ≤ B)
    (hover : s + top + skB ≤ kd + 1 + (B - p - min ((q - 1) * s + kd) H)) :
    let r := transformH y0 y1 0 none (some (s, top, skB)) H 1 kd
    frontier p H r.b ≤ r.a + B := by
  intro r
  have hmin : min y1 H = y1 := by omega
  have hdiv : (r.b + p - 1) / p * p ≤ r.b + p - 1 := Int.ediv_mul_le _ (by omega)
  have hge : y1 * s ≤ y0 * s + ((q - 1) * s + s) := by
    have : y1 * s ≤ (y0 + q) * s := Int.mul_le_mul_of_nonneg_right hyq (by omega)
    have e : (y0 + q) * s = y0 * s + ((q - 1) * s + s) := by ring
    omega
  have h0s : 0 ≤ y0 * s := Int.mul_nonneg hy0 (by omega)
  have hQ : 0 ≤ (q - 1) * s := Int.mul_nonneg (by omega) (by omega)
  have hra : r.a = max (y0 * s - top) 0 := by
    simp only [r, transformH, offOf, Int.emod_one, Int.ediv_one, Int.add_zero, Int.sub_zero, Int.mul_one, if_true]
    omega
  have hrb : r.b = max (min (y1 * s + skB) H) 1 := by
    simp only [r, transformH, offOf, Int.emod_one, Int.ediv_one, Int.add_zero, Int.sub_zero, Int.mul_one, hmin]
  unfold frontier
  rw [hra]
  rw [hrb] at hdiv ⊢
  generalize (max (min (y1 * s + skB) H) 1 + p - 1) / p * p = F at *
  generalize y0 * s = Y0 at *
  generalize y1 * s = Y1 at *
  generalize (q - 1) * s = Q at *
  omega


theorem columns_receptive (k s d l skR W x0 x1 w0 tE bE rE : Int)
    (hs : 1 ≤ s) (hd : 1 ≤ d)
    (h0 : 0 ≤ x0 - w0) (h01 : x0 < x1) (h1 : x1 - w0 ≤ W)
    (hL : 0 ≤ l) (hsk : dilated k d - s ≤ l + skR)
    (hleft : x0 - w0 = 0 ∨ l < (x0 - w0) * s)
    (hright : W ≤ (x1 - w0) * s + skR → rE = max ((x1 - w0) * s - s - l + dilated k d - W) 0)
    (first last : Bool) (ct cb : Int) :
    let ab := transformW x0 x1 w0 none (some (s, l, skR)) W 1
    let pad := createPadding { vectorProduct := false, explicit := ⟨tE, l, bE, rE⟩, isFirst := first, isLast := last,
                               cmdTop := ct, cmdBottom := cb, boxX0 := ab.1, boxX1 := ab.2, read := none, ifmW := W, tile := false }
    let o : Op := { k := k, s := s, d := d, top := l, H := W, off := 0, up := 1, mode := .none }
    let st : Stripe := { y0 := x0 - w0, h := x1 - x0, a := ab.1, b := ab.2, pt := pad.left, pb := pad.right }
    Equations o st ∧ Receptive o st ∧ BoxCovers o st := by
  intro ab pad o st
  have hmin : min (x1 - w0) W = x1 - w0 := by omega
  have e1 : (x0 - w0 + (x1 - x0)) * s = (x1 - w0) * s := by ring
  have e2 : (x1 - x0 - 1) * s = (x1 - w0) * s - (x0 - w0) * s - s := by ring
  have hge : (x0 - w0) * s + s ≤ (x1 - w0) * s := by
    have : (x0 - w0 + 1) * s ≤ (x1 - w0) * s := Int.mul_le_mul_of_nonneg_right (by omega) (by omega)
    have e3 : (x0 - w0 + 1) * s = (x0 - w0) * s + s := by ring
    omega
  have h0s : 0 ≤ (x0 - w0) * s := Int.mul_nonneg h0 (by omega)
  have ha : ab.1 = max ((x0 - w0) * s - l) 0 := by
    simp only [ab, transformW, Int.add_zero, Int.mul_one]
  have hb : ab.2 = min ((x1 - w0) * s + skR) W := by
    simp only [ab, transformW, Int.add_zero, Int.mul_one, hmin]
  have hpl : pad.left = if ab.1 > 0 then 0 else l := by
    simp only [pad, createPadding, Bool.false_eq_true, if_false]
  have hpr : pad.right = if ab.2 < W then 0 else rE := by
    simp only [pad, createPadding, Bool.false_eq_true, if_false]
  have hz : x0 - w0 = 0 → (x0 - w0) * s = 0 := by intro h; rw [h]; simp
  have heq : Equations o st := by
    simp only [Equations, o, st, implicitExtent, e1, e2]
    rw [hpl, hpr, ha, hb]
    generalize (x0 - w0) * s = X0 at *
    generalize (x1 - w0) * s = X1 at *
    split <;> split <;> omega
  refine ⟨heq, receptive_of_equations o st rfl rfl (by simp only [o]; omega) (by simp only [o]; omega) ?_ heq,
    covers_of_equations o st rfl (by simp only [o]; omega) (by simp only [o]; omega) heq ?_⟩
  · show (0 : Int) ≤ ab.1
    rw [ha]; omega
  · show (0 : Int) + min ((x0 - w0 + (x1 - x0)) * s - s - l + dilated k d) W ≤ ab.2
    rw [e1, hb]
    generalize (x1 - w0) * s = X1 at *
    omega


/-- **Receptive field, columns, with a fused slice read**: the operator reads the `shp` columns starting at column `o`
    of a tensor `TW` columns wide.  The box is computed in the columns of the slice and moved by `o`; `create_padding`
    keeps `left` iff the box starts at the first slice column and `right` iff the box end reaches `shp`
    (its bound is the read *shape*, not offset + shape: hypothesis `hreach` — every full-width stripe satisfies it). -/
theorem columns_receptive_slice (k s d l skR shp TW o x0 x1 w0 tE bE rE : Int)
    (hs : 1 ≤ s) (hd : 1 ≤ d) (ho : 0 ≤ o)
    (h0 : 0 ≤ x0 - w0) (h01 : x0 < x1) (h1 : x1 - w0 ≤ TW)
    (hL : 0 ≤ l) (hsk : dilated k d - s ≤ l + skR)
    (hleft : x0 - w0 = 0 ∨ l < (x0 - w0) * s)
    (hright : shp ≤ (x1 - w0) * s + skR → rE = max ((x1 - w0) * s - s - l + dilated k d - shp) 0)
    (hreach : o = 0 ∨ shp ≤ (x1 - w0) * s + skR ∨ rE = 0)
    (first last : Bool) (ct cb : Int) :
    let ab := transformW x0 x1 w0 (some (o, shp)) (some (s, l, skR)) TW 1
    let pad := createPadding { vectorProduct := false, explicit := ⟨tE, l, bE, rE⟩, isFirst := first, isLast := last,
                               cmdTop := ct, cmdBottom := cb, boxX0 := ab.1, boxX1 := ab.2, read := some (o, shp), ifmW := TW, tile := false }
    let op : Op := { k := k, s := s, d := d, top := l, H := shp, off := o, up := 1, mode := .none }
    let st : Stripe := { y0 := x0 - w0, h := x1 - x0, a := ab.1, b := ab.2, pt := pad.left, pb := pad.right }
    Equations op st ∧ Receptive op st ∧ BoxCovers op st := by
  intro ab pad op st
  have hmin : min (x1 - w0) TW = x1 - w0 := by omega
  have e1 : (x0 - w0 + (x1 - x0)) * s = (x1 - w0) * s := by ring
  have e2 : (x1 - x0 - 1) * s = (x1 - w0) * s - (x0 - w0) * s - s := by ring
  have hge : (x0 - w0) * s + s ≤ (x1 - w0) * s := by
    have : (x0 - w0 + 1) * s ≤ (x1 - w0) * s := Int.mul_le_mul_of_nonneg_right (by omega) (by omega)
    have e3 : (x0 - w0 + 1) * s = (x0 - w0) * s + s := by ring
    omega
  have h0s : 0 ≤ (x0 - w0) * s := Int.mul_nonneg h0 (by omega)
  have ha : ab.1 = max ((x0 - w0) * s - l + o) o := by
    simp only [ab, transformW, Int.mul_one]
  have hb : ab.2 = min ((x1 - w0) * s + skR + o) (o + shp) := by
    simp only [ab, transformW, Int.mul_one, hmin]
  have hpl : pad.left = if ab.1 > o then 0 else l := by
    simp only [pad, createPadding, Bool.false_eq_true, if_false]
  have hpr : pad.right = if ab.2 < shp then 0 else rE := by
    simp only [pad, createPadding, Bool.false_eq_true, if_false]
  have hz : x0 - w0 = 0 → (x0 - w0) * s = 0 := by intro h; rw [h]; simp
  have heq : Equations op st := by
    simp only [Equations, op, st, implicitExtent, e1, e2]
    rw [hpl, hpr, ha, hb]
    generalize (x0 - w0) * s = X0 at *
    generalize (x1 - w0) * s = X1 at *
    split <;> split <;> omega
  refine ⟨heq, receptive_of_equations op st rfl rfl (by simp only [op]; omega) (by simp only [op]; omega) ?_ heq,
    covers_of_equations op st rfl (by simp only [op]; omega) (by simp only [op]; omega) heq ?_⟩
  · show o ≤ ab.1
    rw [ha]; omega
  · show o + min ((x0 - w0 + (x1 - x0)) * s - s - l + dilated k d) shp ≤ ab.2
    rw [e1, hb]
    generalize (x1 - w0) * s = X1 at *
    omega

/-- **Rows read by a consumer stripe are still in their slots** (the rolling-buffer rule in the Spec's own
    terms, under the hypothesis of `rolling_sufficient_of_slack`): when the producer has written rows
    `[0, frontier)` in order into a buffer of `B` rows (`Spec.writeAll`), every row the hardware touches for
    the consumer stripe `[y0, y1)` — from the box start to the end of the implicit extent — is found in slot
    `row mod B` (`Mem.get … = some row`): it has been written and no later row has overwritten it. -/
theorem rolling_rows_in_slot_of_slack (H p q s d k top skB B y0 y1 : Int) (t : Nat)
    (hp : 1 ≤ p) (hq : 1 ≤ q) (hs : 1 ≤ s) (hd : 1 ≤ d) (hk : 1 ≤ k) (hH : 1 ≤ H)
    (hy0 : 0 ≤ y0) (hy : y0 < y1) (hyq : y1 ≤ y0 + q) (hyH : y1 ≤ H) (hT : 0 ≤ top)
    (hsk : dilated k d - s ≤ top + skB)
    (hB : p + min ((q - 1) * s + dilated k d) H ≤ B)
    (hover : s + top + skB ≤ dilated k d + 1 + (B - p - min ((q - 1) * s + dilated k d) H)) :
    let r := transformH y0 y1 0 none (some (s, top, skB)) H 1 (dilated k d)
    let P := frontier p H r.b
    ∀ row : Int, r.a ≤ row → row < r.a + implicitExtent (y1 - y0) s (dilated k d) r.pt r.pb →
      (writeAll t B.toNat P.toNat).get t (row.toNat % B.toNat) = some row.toNat := by
  intro r P row h1 h2
  have hra0 : 0 ≤ r.a := by
    simp only [r, transformH, offOf]
    omega
  suffices hmain : row < P ∧ P ≤ row + B by
    have hBpos : 0 < B := by
      have : 0 ≤ min ((q - 1) * s + dilated k d) H := by
        have : 0 ≤ (q - 1) * s := Int.mul_nonneg (by omega) (by omega)
        have : 0 ≤ (k - 1) * d := Int.mul_nonneg (by omega) (by omega)
        unfold dilated
        omega
      omega
    exact (slot_holds_iff t B.toNat (by omega) P.toNat row.toNat).mpr ⟨by omega, by omega⟩
  have hkd : 1 ≤ dilated k d := by
    unfold dilated
    have : 0 ≤ (k - 1) * d := Int.mul_nonneg (by omega) (by omega)
    omega
  have hroll := rolling_sufficient_of_slack H p q s (dilated k d) top skB B y0 y1 hp hq hs hkd hH hy0 hy hyq hyH hT hB hover
  obtain ⟨heq, _, _⟩ := stripe_receptive k s d top skB H y0 y1 0 none hs hd hH (by omega) hy hT hsk (Or.inl (by omega))
  obtain ⟨_, _, _, hb, he⟩ := transformH_up1 y0 y1 0 s top skB H (dilated k d) none hs hy hsk
  obtain ⟨_, _, _, e4⟩ := heq
  have hmin : min y1 H = y1 := by omega
  simp only [Int.sub_zero, offOf, Int.add_zero, hmin] at e4 hb he
  have hbH : r.b ≤ H := by rw [show r.b = _ from hb]; omega
  have hfg := frontier_ge p H r.b hp hbH
  have e1 : (y0 + (y1 - y0)) * s = y1 * s := by ring
  rw [e1] at e4
  have hcov : min (y1 * s - s - top + dilated k d) H ≤ r.b := by
    rw [show r.b = _ from hb]
    generalize y1 * s = Y1 at *
    omega
  constructor
  · have : row < min (y1 * s - s - top + dilated k d) H := by
      have : r.a + implicitExtent (y1 - y0) s (dilated k d) r.pt r.pb = 0 + min (y1 * s - s - top + dilated k d) H := e4
      omega
    show row < frontier p H r.b
    omega
  · show frontier p H r.b ≤ row + B
    have : frontier p H r.b ≤ r.a + B := hroll
    omega

/-- the buffer `rolling_buffer_shape` returns for the over-read `ifm_box_overread` computes satisfies the
    inequality of `rolling_sufficient_of_slack` -/
theorem buffer_slack (H q s kd top skB : Int) (pN pW pD cN cW BN w dd : Nat)
    (hc : (cN : Int) = min ((q - 1) * s + kd) H)
    (hbuf : rollingBufferShape pN pW pD cN cW (ifmBoxOverread (some (top, skB)) s kd) = .ok (BN, w, dd)) :
    (pN : Int) + min ((q - 1) * s + kd) H ≤ BN ∧
    s + top + skB ≤ kd + 1 + ((BN : Int) - pN - min ((q - 1) * s + kd) H) := by
  have h := (rolling_buffer_height_ge pN pW pD cN cW _ BN w dd hbuf).1
  simp only [ifmBoxOverread] at h
  omega

/-- **Rolling buffers are tall enough** (full statement, for the repaired `rolling_buffer_shape`): for every producer
    stripe height `p`, consumer stripe `[y0, y1)` of at most `q` rows, kernel, stride, dilation and skirt, with the
    buffer height `B` that `rolling_buffer_shape(p, c, ifm_box_overread)` returns for the consumer input stripe
    `c = min((q-1)*s + k_dil, H)`: when the consumer stripe is issued (producer at `frontier`), every row the
    hardware touches for it is found in slot `row mod B` of the Spec's memory model — written, and not overwritten
    by a later row. -/
theorem rolling_sufficient (H q s d k top skB y0 y1 : Int) (pN pW pD cN cW BN w dd t : Nat)
    (hp : 1 ≤ pN) (hq : 1 ≤ q) (hs : 1 ≤ s) (hd : 1 ≤ d) (hk : 1 ≤ k) (hH : 1 ≤ H)
    (hy0 : 0 ≤ y0) (hy : y0 < y1) (hyq : y1 ≤ y0 + q) (hyH : y1 ≤ H) (hT : 0 ≤ top)
    (hsk : dilated k d - s ≤ top + skB)
    (hc : (cN : Int) = min ((q - 1) * s + dilated k d) H)
    (hbuf : rollingBufferShape pN pW pD cN cW (ifmBoxOverread (some (top, skB)) s (dilated k d)) = .ok (BN, w, dd)) :
    let r := transformH y0 y1 0 none (some (s, top, skB)) H 1 (dilated k d)
    let P := frontier pN H r.b
    P ≤ r.a + BN ∧
    ∀ row : Int, r.a ≤ row → row < r.a + implicitExtent (y1 - y0) s (dilated k d) r.pt r.pb →
      (writeAll t BN P.toNat).get t (row.toNat % BN) = some row.toNat := by
  intro r P
  obtain ⟨hB, hover⟩ := buffer_slack H q s (dilated k d) top skB pN pW pD cN cW BN w dd hc hbuf
  have hkd : 1 ≤ dilated k d := by
    unfold dilated
    have : 0 ≤ (k - 1) * d := Int.mul_nonneg (by omega) (by omega)
    omega
  refine ⟨rolling_sufficient_of_slack H pN q s (dilated k d) top skB BN y0 y1 (by omega) hq hs hkd hH hy0 hy hyq hyH hT hB hover, ?_⟩
  intro row h1 h2
  have := rolling_rows_in_slot_of_slack H pN q s d k top skB BN y0 y1 t (by omega) hq hs hd hk hH hy0 hy hyq hyH hT hsk hB hover
    row h1 h2
  simpa using this

/-- conv3x3/s1 SAME over 37 rows in stripes of 3 → conv3x3/s3 SAME (13 output rows, one per stripe):
    `p = 3`, `c = 3`, `B = round_up(6, 3) = 6` -/
def witnessOps : List OpDesc :=
  [ { sN := 0, sH := 0, sW := 0, sC := 0, eN := 1, eH := 37, eW := 64, eC := 32, stepH := 3, stepW := 64, slices := [0, 32],
      strides := some (1, 1), skirt := some (1, 1, 1, 1), ifm := ⟨1, 37, 64, 32⟩, fullDepth := true, concat := ⟨0, 0, 0, 0⟩,
      kdil := 3, split := none, up := 1, binEw := false },
    { sN := 0, sH := 0, sW := 0, sC := 0, eN := 1, eH := 13, eW := 22, eC := 32, stepH := 1, stepW := 22, slices := [0, 32],
      strides := some (3, 3), skirt := some (1, 1, 1, 1), ifm := ⟨1, 37, 64, 32⟩, fullDepth := true, concat := ⟨0, 0, 0, 0⟩,
      kdil := 3, split := none, up := 1, binEw := false } ]

/-- The former witness of the too small rolling buffer (conv3x3/s1 → conv3x3/s3 SAME, H=37, p=3, c=3): the IFM box of
    the consumer over-reads by `3 + 1 + 1 - 3 = 2` rows, `rolling_buffer_shape` now returns 9 rows instead of 6, and in the
    issue order of the generator (`o0[0,3) o0[3,6) o1[0] o0[6,9) o1[1] …`) every row is found in its slot. -/
theorem rolling_witness_repaired :
    ifmBoxOverread (some (1, 1)) 3 3 = 2 ∧
    rollingBufferShape 3 64 32 3 64 2 = .ok (9, 64, 32) ∧
    ((cascadeOrder witnessOps).1.take 5).map (fun c => (c.op, c.ofm.y0, c.ofm.y1)) =
      [(0, 0, 3), (0, 3, 6), (1, 0, 1), (0, 6, 9), (1, 1, 2)] ∧
    checkRolling (accessesOf witnessOps [9, 13] (cascadeOrder witnessOps).1) = .ok ∧
    checkRolling (accessesOf witnessOps [6, 13] (cascadeOrder witnessOps).1) = .bad 4 1 2 2 (some 8) := by
  decide +kernel

/-- An OFM stripe that ends below the IFM keeps its bottom padding (instance of `stripe_receptive`; before the repair
    this was the witness of the lost `pad_bottom`): PAD(1,1) fused into a 2x2 stride-1 convolution over 128 rows,
    stripe `[126, 129)`: box `[125, 128)`, `pad_bottom = 1`, and the Spec accepts it. -/
theorem stripe_receptive_tall_ofm_repaired :
    let r := transformH 126 129 0 none (some (1, 1, 0)) 128 1 2
    (r.a, r.b, r.pt, r.pb) = (125, 128, 0, 1) ∧
    checkReceptive ⟨2, 1, 1, 1, 128, 0, 1, .none⟩ ⟨126, 3, r.a, r.b, r.pt, r.pb⟩ = true ∧
    checkBoxCovers ⟨2, 1, 1, 1, 128, 0, 1, .none⟩ ⟨126, 3, r.a, r.b, r.pt, r.pb⟩ = true := by
  decide +kernel

/- Full statement: `stripe_receptive` for every upscaling factor and resampling mode, every stripe.
   Proved part (`…_partial`): upscaling 2 with stride 1 and dilation 1 (what transpose convolution and
   the resize decompositions emit), stripes that start on an even OFM row (and, for coverage, end on an even
   row or at the end of the operator); nearest-neighbour additionally needs an even top padding (the
   resize decompositions use 0).  Excluded: odd stripe starts (the box start is divided by the upscaling
   factor), upscaling factors other than 2, strides/dilations other than 1 together with upscaling.
   The excluded stripes and the included ones are enumerated against the Spec on the real code by the
   check (H ≤ 6, k ≤ 8, every stripe). -/

/-- transpose convolution (zeros inserted): SAME/VALID skirts, including the VALID overhang
    (`y1 > 2H`, `top = k-1`) -/
theorem stripe_receptive_transpose_partial (k top skB H y0 y1 : Int)
    (hsk : k - 1 ≤ top + skB) (hev : y0 % 2 = 0) (hy1 : y1 ≤ 2 * H ∨ (top = k - 1 ∧ 0 < skB)) :
    let r := transformH y0 y1 0 none (some (1, top, skB)) H 2 k
    let o : Op := { k := k, s := 1, d := 1, top := top, H := H, off := 0, up := 2, mode := .transpose }
    let st : Stripe := { y0 := y0, h := y1 - y0, a := r.a, b := r.b, pt := r.pt, pb := r.pb }
    Receptive o st := by
  intro r o st y j hy0 hy hj0 hj
  rw [refSrc_transpose o rfl]
  simp only [hwSrc, implicitExtent, dilated, o, st, r, transformH, offOf, Int.mul_one, Int.sub_zero, Int.add_zero] at *
  repeat' split
  all_goals first | rfl | omega | (congr 1; omega)

theorem box_covers_transpose_partial (k top skB H y0 y1 : Int)
    (hH : 1 ≤ H) (h0 : 0 ≤ y0) (hT : 0 ≤ top) (hsk : k - 1 ≤ top + skB)
    (hev : y0 % 2 = 0) (hy1 : (y1 ≤ 2 * H ∧ y1 % 2 = 0) ∨ (top = k - 1 ∧ 0 < skB ∧ 2 * H ≤ y1)) :
    let r := transformH y0 y1 0 none (some (1, top, skB)) H 2 k
    let o : Op := { k := k, s := 1, d := 1, top := top, H := H, off := 0, up := 2, mode := .transpose }
    let st : Stripe := { y0 := y0, h := y1 - y0, a := r.a, b := r.b, pt := r.pt, pb := r.pb }
    BoxCovers o st := by
  intro r o st y j hy0 hy hj0 hj row
  simp only [hwSrc, implicitExtent, dilated, o, st, r, transformH, offOf, Int.mul_one, Int.sub_zero, Int.add_zero] at *
  repeat' split
  all_goals (intro hrow; first | (injection hrow with hrow; omega) | cases hrow)

/-- nearest-neighbour upscaling (every row repeated) -/
theorem stripe_receptive_nearest_partial (k top skB H y0 y1 : Int)
    (hsk : k - 1 ≤ top + skB) (hev : y0 % 2 = 0) (htop : top % 2 = 0) (hy1 : y1 ≤ 2 * H) :
    let r := transformH y0 y1 0 none (some (1, top, skB)) H 2 k
    let o : Op := { k := k, s := 1, d := 1, top := top, H := H, off := 0, up := 2, mode := .nearest }
    let st : Stripe := { y0 := y0, h := y1 - y0, a := r.a, b := r.b, pt := r.pt, pb := r.pb }
    Receptive o st := by
  intro r o st y j hy0 hy hj0 hj
  rw [refSrc_nearest o rfl]
  simp only [hwSrc, implicitExtent, dilated, o, st, r, transformH, offOf, Int.mul_one, Int.sub_zero, Int.add_zero] at *
  repeat' split
  all_goals first | rfl | omega | (congr 1; omega)

theorem box_covers_nearest_partial (k top skB H y0 y1 : Int)
    (hH : 1 ≤ H) (h0 : 0 ≤ y0) (hT : 0 ≤ top) (hsk : k - 1 ≤ top + skB)
    (hev : y0 % 2 = 0) (htop : top % 2 = 0) (hy1 : y1 ≤ 2 * H) (hy1e : y1 % 2 = 0 ∨ 2 * H ≤ y1 + skB) :
    let r := transformH y0 y1 0 none (some (1, top, skB)) H 2 k
    let o : Op := { k := k, s := 1, d := 1, top := top, H := H, off := 0, up := 2, mode := .nearest }
    let st : Stripe := { y0 := y0, h := y1 - y0, a := r.a, b := r.b, pt := r.pt, pb := r.pb }
    BoxCovers o st := by
  intro r o st y j hy0 hy hj0 hj row
  simp only [hwSrc, implicitExtent, dilated, o, st, r, transformH, offOf, Int.mul_one, Int.sub_zero, Int.add_zero] at *
  repeat' split
  all_goals (intro hrow; first | (injection hrow with hrow; omega) | cases hrow)

/-- A fused slice read is applied after the scaling by the stride (instance of `columns_receptive` with a read offset;
    before the repair the box started at column (0+5)*2 = 10): STRIDED_SLICE begin w=5 (23 of 32 columns) fused into
    a 1x1 stride-2 convolution (12 output columns): box columns `[5, 28)`, output column 0 reads stored column 5. -/
theorem read_offset_stride_repaired :
    transformW 0 12 0 (some (5, 23)) (some (2, 0, 0)) 32 1 = (5, 28) ∧
    checkReceptive ⟨1, 2, 1, 0, 23, 5, 1, .none⟩ ⟨0, 12, 5, 28, 0, 0⟩ = true := by
  decide +kernel

/-- Rows of a fused slice read are those of the slice (instance of `stripe_receptive` with a read offset; before the
    repair the box was rows `[1, 24)` with `pad_top = 2` and stored rows 1, 2 were read as if they were padding rows):
    STRIDED_SLICE begin h=3 (19 of 24 rows) fused into a 5x5 SAME convolution executed as one stripe: box rows
    `[3, 22)`, and with the explicit padding (2, 2) every tap reads what the operator on the slice reads. -/
theorem read_offset_rows_repaired :
    let r := transformH 0 19 0 (some 3) (some (1, 2, 2)) 19 1 5
    (r.a, r.b, r.pt, r.pb) = (3, 22, 2, 2) ∧
    checkReceptive ⟨5, 1, 1, 2, 19, 3, 1, .none⟩ ⟨0, 19, r.a, r.b, 2, 2⟩ = true := by
  decide +kernel

/-- an odd stripe start breaks the receptive field under upscaling (why the `_partial` theorems need
    `y0 % 2 = 0`): 2x nearest-neighbour resize (1x1 kernel) of 2 rows, stripe `[1, 4)`: the box starts at
    row 0 and the hardware reads row 0 again for output row 1 -/
theorem upscaled_odd_start_witness :
    let r := transformH 1 4 0 none (some (1, 0, 0)) 2 2 1
    checkReceptive ⟨1, 1, 1, 0, 2, 0, 2, .nearest⟩ ⟨1, 3, r.a, r.b, r.pt, r.pb⟩ = false := by
  decide +kernel

/-! Non-vacuity: concrete instances meet the hypotheses. -/

-- conv3x3/s3 SAME over 37 rows, stripe [4, 7): the receptive field is rows [11, 20), the box is [11, 22) (over-read), no padding
example : transformH 4 7 0 none (some (3, 1, 1)) 37 1 3 = ⟨11, 22, 0, 0⟩ := by decide
example : (1 : Int) ≤ 3 ∧ (0 : Int) ≤ 4 - 0 ∧ (4 : Int) < 7 ∧ (7 : Int) - 0 ≤ 37 ∧ dilated 3 1 - 3 ≤ (1 : Int) + 1 := by decide
example : checkReceptive ⟨3, 3, 1, 1, 37, 0, 1, .none⟩ ⟨4, 3, 11, 22, 0, 0⟩ = true := by decide +kernel
-- first and last stripes exercise both paddings
example : transformH 0 3 0 none (some (1, 1, 1)) 37 1 3 = ⟨0, 4, 1, 0⟩ := by decide
example : transformH 36 37 0 none (some (1, 1, 1)) 37 1 3 = ⟨35, 37, 0, 1⟩ := by decide
-- the triple loop: 5 rows in steps of 2, 3 columns in one step, depth slices [0, 16, 24]
example : ofmBoxes 0 0 0 0 1 5 3 24 2 3 [0, 16, 24] =
    .ok [⟨0, 2, 0, 3, 0, 16⟩, ⟨0, 2, 0, 3, 16, 24⟩, ⟨2, 4, 0, 3, 0, 16⟩, ⟨2, 4, 0, 3, 16, 24⟩,
         ⟨4, 5, 0, 3, 0, 16⟩, ⟨4, 5, 0, 3, 16, 24⟩] := by decide
example : checkPartition ([⟨0, 2, 0, 3, 0, 16⟩, ⟨0, 2, 0, 3, 16, 24⟩, ⟨2, 4, 0, 3, 0, 16⟩, ⟨2, 4, 0, 3, 16, 24⟩,
         ⟨4, 5, 0, 3, 0, 16⟩, ⟨4, 5, 0, 3, 16, 24⟩] : List Box3) ⟨0, 5, 0, 3, 0, 24⟩ = true := by decide
-- a box crossing the end of a 6-row rolling buffer: rows 4,5 in tile 0 (slots 4,5), rows 6..8 in tile 2 (slots 0..2)
example : addressesForRollingBuffer 4 9 0 8 6 8 = .ok ⟨2, 8, 4, some 0⟩ := by decide
-- safe instance of the rolling-buffer hypothesis: conv3x3/s2 SAME, p = 4, q = 2, c = 5, B = 10
example : (2 : Int) + 1 + 1 ≤ 3 + 1 + (10 - 4 - min ((2 - 1) * 2 + 3) 40) := by decide
-- upscaled: transpose conv k=3 SAME over 4 rows (skirt (1,·,0,·)), stripe [2, 4)
example : checkReceptive ⟨3, 1, 1, 1, 4, 0, 2, .transpose⟩
    (let r := transformH 2 4 0 none (some (1, 1, 0)) 4 2 3; ⟨2, 2, r.a, r.b, r.pt, r.pb⟩) = true := by decide +kernel

end VelaVerif.Props.C10
