import VelaVerif.Spec.Arena
/-!
# C12 — the offline arena plan is self-consistent and reported memory is sufficient

Run-time verdict: `Arena.check` on every output model (plain flatbuffer walk). Theorems: the
executable checker is sound for the declarative statement.
-/
namespace VelaVerif.Props.C12
open VelaVerif.Arena

/-- Soundness of the conflict scan: if it reports nothing then any two distinct planned tensors whose
    byte intervals intersect and whose lifetimes intersect are a permitted hand-over at one operator. -/
theorem conflicts_sound (p : Plan) (h : conflicts p = []) :
    ∀ a ta b tb, (a, ta) ∈ planned p → (b, tb) ∈ planned p → a < b →
      bytesOverlap ta tb = true → liveOverlap p a b = true →
      handoverAllowed p a b ta tb = true ∨ handoverAllowed p b a tb ta = true ∨
      aliasAllowed p a b ta tb = true ∨ aliasAllowed p b a tb ta = true := by
  intro a ta b tb ha hb hlt hbo hlo
  unfold conflicts at h
  simp only [List.flatMap_eq_nil_iff] at h
  have h1 := h (a, ta) ha
  simp only [List.filterMap_eq_nil_iff] at h1
  have h2 := h1 (b, tb) hb
  cases h3 : handoverAllowed p a b ta tb with
  | true => exact Or.inl rfl
  | false =>
    cases h4 : handoverAllowed p b a tb ta with
    | true => exact Or.inr (Or.inl rfl)
    | false =>
      cases h5 : aliasAllowed p a b ta tb with
      | true => exact Or.inr (Or.inr (Or.inl rfl))
      | false =>
        cases h6 : aliasAllowed p b a tb ta with
        | true => exact Or.inr (Or.inr (Or.inr rfl))
        | false => simp [hlt, hbo, hlo, h3, h4, h5, h6] at h2

/-- what the alias exemption means: the two tensors are exactly the same bytes, `a` is an input and `b` an
    output of one Ethos-U operator, and no write of that operator's decoded stream touches a byte of `b` -/
theorem aliasAllowed_spec (p : Plan) (a b : Nat) (ta tb : ATensor) (h : aliasAllowed p a b ta tb = true) :
    ta.offset = tb.offset ∧ ta.size = tb.size ∧
    ∃ o ∈ p.ops, o.ethosu = true ∧ a ∈ o.inputs ∧ b ∈ o.outputs ∧ writtenBy p o tb = false := by
  unfold aliasAllowed at h
  simp only [Bool.and_eq_true, beq_iff_eq, List.any_eq_true, Bool.not_eq_true', List.contains_iff_mem] at h
  obtain ⟨⟨h1, h2⟩, o, ho, ⟨⟨⟨h3, h4⟩, h5⟩, h6⟩⟩ := h
  exact ⟨h1, h2, o, ho, h3, h4, h5, h6⟩

/-- an output counts as unwritten only if the stream was supplied and none of its writes, mapped to arena
    bytes, intersects the tensor -/
theorem writtenBy_false_spec (p : Plan) (o : AOp) (t : ATensor) (h : writtenBy p o t = false) :
    ∃ ws off, o.writes = some ws ∧ t.offset = some off ∧
      ∀ w ∈ ws, ∀ lo hi, arenaRange p w = some (lo, hi) → ¬ (lo < off + t.size ∧ off < hi) := by
  unfold writtenBy at h
  cases hw : o.writes with
  | none => rw [hw] at h; cases h
  | some ws =>
    cases ho : t.offset with
    | none => rw [hw, ho] at h; cases h
    | some off =>
      rw [hw, ho] at h
      refine ⟨ws, off, rfl, rfl, ?_⟩
      intro w hwm lo hi har hc
      simp only [List.any_eq_false] at h
      have hx := h w hwm
      rw [har] at hx
      simp [hc.1, hc.2] at hx

/-- every planned tensor ends at or below the required extent -/
theorem required_covers (p : Plan) :
    ∀ i t, (i, t) ∈ planned p → t.offset.getD 0 + t.size ≤ requiredExtent p := by
  intro i t h
  unfold requiredExtent
  generalize planned p = l at h
  have key : ∀ (l : List (Nat × ATensor)) (acc : Nat),
      acc ≤ l.foldl (fun acc (x : Nat × ATensor) => max acc (x.2.offset.getD 0 + x.2.size)) acc ∧
      ∀ x ∈ l, x.2.offset.getD 0 + x.2.size ≤ l.foldl (fun acc (x : Nat × ATensor) => max acc (x.2.offset.getD 0 + x.2.size)) acc := by
    intro l
    induction l with
    | nil => intro acc; simp
    | cons y ys ih =>
      intro acc
      have := ih (max acc (y.2.offset.getD 0 + y.2.size))
      simp only [List.foldl_cons, List.mem_cons, forall_eq_or_imp]
      refine ⟨by omega, by omega, this.2⟩
  exact (key l 0).2 (i, t) h

/-- alignment scan soundness -/
theorem misaligned_sound (p : Plan) (h : misaligned p = []) (hal : 0 < p.align) :
    ∀ i t o, (i, t) ∈ planned p → t.offset = some o → o % p.align = 0 := by
  intro i t o hm ho
  unfold misaligned at h
  simp only [List.filterMap_eq_nil_iff] at h
  have := h (i, t) hm
  simp only [ho] at this
  cases Nat.decEq (o % p.align) 0 with
  | isTrue h0 => exact h0
  | isFalse hne => simp [hal, hne] at this

/-! ## Every result of an operator is live while the operator runs (round 5)

`build_pass` keeping only the results that have a consumer (seeded change C12-r5m2) leaves the unread result of a
multi-output CPU operator without live range and address; the writer then serialises arena offset 0 for it. The
Spec counts a tensor as occupying its bytes at every operator that reads *or writes* it. -/


theorem foldl_max_ge (f : AOp × Nat → Bool) (l : List (AOp × Nat)) (acc : Nat) :
    acc ≤ l.foldl (fun acc x => if f x then max acc (x.2 + 1) else acc) acc ∧
    ∀ x ∈ l, f x = true → x.2 + 1 ≤ l.foldl (fun acc x => if f x then max acc (x.2 + 1) else acc) acc := by
  induction l generalizing acc with
  | nil => simp
  | cons y ys ih =>
    simp only [List.foldl_cons, List.mem_cons, forall_eq_or_imp]
    cases hy : f y with
    | true =>
      simp only [if_true]
      have := ih (max acc (y.2 + 1))
      refine ⟨by omega, fun _ => by omega, this.2⟩
    | false =>
      have := ih acc
      simp only [Bool.false_eq_true, if_false, false_implies, true_and]
      exact this

theorem born_le (p : Plan) (k : Nat) (o : AOp) (t : Nat) (hk : p.ops[k]? = some o) (ht : t ∈ o.outputs) :
    born p t ≤ k + 1 := by
  unfold born
  cases hf : p.ops.zipIdx.find? (fun x => x.1.outputs.contains t) with
  | none =>
    simp
  | some x =>
    obtain ⟨o', k'⟩ := x
    simp only
    rw [List.find?_eq_some_iff_getElem] at hf
    obtain ⟨_, i, hi, hget, hbefore⟩ := hf
    have hlen : i < p.ops.length := by simpa using hi
    simp only [List.getElem_zipIdx, Nat.zero_add, Prod.mk.injEq] at hget
    rcases Nat.lt_or_ge k i with hki | hge
    · have := hbefore k hki
      have hk' : k < p.ops.length := by omega
      simp only [List.getElem_zipIdx] at this
      have hok : p.ops[k] = o := by
        have := List.getElem?_eq_getElem hk'
        rw [this] at hk; exact Option.some.inj hk
      simp [hok, ht] at this
    · omega

theorem le_dies (p : Plan) (k : Nat) (o : AOp) (t : Nat) (hk : p.ops[k]? = some o) (ht : t ∈ o.outputs ∨ t ∈ o.inputs) :
    k + 1 ≤ dies p t := by
  have hlen : k < p.ops.length := by
    rcases Nat.lt_or_ge k p.ops.length with h | h
    · exact h
    · rw [List.getElem?_eq_none h] at hk; cases hk
  unfold dies
  split
  · omega
  · have hmem : (o, k) ∈ p.ops.zipIdx := by
      rw [List.mem_zipIdx_iff_getElem?]; simpa using hk
    have := (foldl_max_ge (fun x => x.1.inputs.contains t || x.1.outputs.contains t) p.ops.zipIdx (born p t)).2 (o, k) hmem
      (by rcases ht with h | h <;> simp [h])
    exact this

/-- **Every result of an operator of the output graph is live while that operator runs, read or not.** -/
theorem unread_result_is_live_at_its_writer (p : Plan) (k : Nat) (o : AOp) (t : Nat)
    (hk : p.ops[k]? = some o) (ht : t ∈ o.outputs) : liveAt p t (k + 1) :=
  ⟨born_le p k o t hk ht, le_dies p k o t hk (Or.inl ht)⟩

theorem results_of_one_operator_coexist (p : Plan) (k : Nat) (o : AOp) (a b : Nat)
    (hk : p.ops[k]? = some o) (ha : a ∈ o.outputs) (hb : b ∈ o.outputs) : liveOverlap p a b = true := by
  have h1 := unread_result_is_live_at_its_writer p k o a hk ha
  have h2 := unread_result_is_live_at_its_writer p k o b hk hb
  unfold liveAt at h1 h2
  unfold liveOverlap
  simp only [Bool.and_eq_true, decide_eq_true_eq]
  omega

theorem operand_and_result_coexist (p : Plan) (k : Nat) (o : AOp) (a b : Nat)
    (hk : p.ops[k]? = some o) (ha : a ∈ o.inputs) (hb : b ∈ o.outputs) (hborn : born p a ≤ k + 1) :
    liveOverlap p a b = true := by
  have h1 := le_dies p k o a hk (Or.inr ha)
  have h2 := unread_result_is_live_at_its_writer p k o b hk hb
  unfold liveAt at h2
  unfold liveOverlap
  simp only [Bool.and_eq_true, decide_eq_true_eq]
  omega

-- non-vacuity: x -> Ethos-U op -> c1 -> CPU operator with results A (read by the next operator) and B (read by
-- nobody, planned at offset 0 with its full size, on top of the operator's own operand c1) -> CPU operator -> q
def unreadDemo (offB : Nat) : Plan :=
  { tensors := [⟨1024, some 0, false⟩, ⟨100, none, false⟩, ⟨4096, some 0, false⟩, ⟨1024, some 1024, false⟩,
                ⟨1024, some 2048, false⟩, ⟨2048, some offB, false⟩, ⟨1024, some 0, false⟩],
    ops := [⟨true, 32, [1, 2, 0], [3], none⟩, ⟨false, 32, [3], [4, 5], none⟩, ⟨false, 32, [4], [6], none⟩],
    inputs := [0], outputs := [6], scratch := some 2, fast := none, align := 16 }
example : liveAt (unreadDemo 0) 5 2 := unread_result_is_live_at_its_writer (unreadDemo 0) 1 _ 5 rfl (by decide)
example : born (unreadDemo 0) 5 = 2 ∧ dies (unreadDemo 0) 5 = 2 := by decide
/-- the unread result on top of the operand of its own operator, or on top of its sibling result, is a conflict … -/
example : conflicts (unreadDemo 0) = [(3, 5)] ∧ conflicts (unreadDemo 2048) = [(4, 5)] := by decide
/-- … and with bytes of its own the plan is accepted and the extent accounts for it -/
example : conflicts (unreadDemo 3072) = [] ∧ requiredExtent (unreadDemo 3072) = 5120 := by decide

-- non-vacuity: the plan measured in DESIGN.md (input and output of one Ethos-U operator share offset 0)
def demo : Plan :=
  { tensors := [⟨2048, some 0, false⟩, ⟨100, none, false⟩, ⟨8192, some 0, false⟩, ⟨4096, some 0, false⟩, ⟨4096, some 4096, false⟩],
    ops := [⟨true, 32, [1, 2, 0], [3], none⟩, ⟨false, 32, [3], [4], none⟩], inputs := [0], outputs := [4], scratch := some 2, fast := none, align := 16 }
example : conflicts demo = [] ∧ misaligned demo = [] ∧ scratchProblems demo = [] ∧ requiredExtent demo = 8192 := by decide
/-- a CPU operator whose input and output overlap is reported -/
example : conflicts { demo with tensors := [⟨2048, some 0, false⟩, ⟨100, none, false⟩, ⟨8192, some 0, false⟩, ⟨4096, some 0, false⟩, ⟨4096, some 2048, false⟩] } = [(3, 4)] := by decide

/-- the NOP case measured on the unchanged tree (MEAN over a 1x1 map: no operation emitted, input 3 and
    output 4 are the same 4 bytes and both graph outputs): accepted only because the stream writes nothing
    there; with a write into those bytes, or without stream information, it is a conflict -/
def nopDemo (w : Option (List (Nat × Nat × Nat))) : Plan :=
  { tensors := [⟨112, some 0, false⟩, ⟨100, none, false⟩, ⟨576, some 0, false⟩, ⟨4, some 16, false⟩, ⟨4, some 16, false⟩],
    ops := [⟨true, 32, [1, 2, 0], [3], some [(1, 16, 20)]⟩, ⟨true, 32, [1, 2, 3], [4], w⟩], inputs := [0], outputs := [3, 4],
    scratch := some 2, fast := none, align := 16 }
example : conflicts (nopDemo (some [])) = [] ∧ undefinedOutputs (nopDemo (some [])) = [] := by decide
example : conflicts (nopDemo (some [(1, 18, 19)])) = [(3, 4)] := by decide
example : conflicts (nopDemo none) = [(3, 4)] := by decide
example : (undefinedOutputs { nopDemo (some []) with tensors :=
    [⟨112, some 0, false⟩, ⟨100, none, false⟩, ⟨576, some 0, false⟩, ⟨4, some 16, false⟩, ⟨4, some 32, false⟩] }).length = 1 := by decide


/-! ## Interface tensors no operator stands behind (round 6)

The runtime writes the subgraph inputs before the first operator and reads the subgraph outputs after the last one,
whatever the operators do in between.  `born` is 0 for every tensor no operator produces (inputs, constants), `dies` is
the end for every listed output — neither asks whether an operator touches the tensor.  A network input that is returned
unchanged (seeded change C12-r6m2: dropped from the start-up pass, live range of one time step, placed over other live
tensors) is therefore live for the whole inference and an accepted plan gives it bytes of its own. -/

/-- a tensor no operator produces (a subgraph input, a constant) holds its value from time 0 -/
theorem unproduced_born_zero (p : Plan) (t : Nat) (h : ∀ o ∈ p.ops, t ∉ o.outputs) : born p t = 0 := by
  unfold born
  cases hf : p.ops.zipIdx.find? (fun x => x.1.outputs.contains t) with
  | none => rfl
  | some x =>
    have hm := List.mem_of_find?_eq_some hf
    have hp := List.find?_some hf
    obtain ⟨o, k⟩ := x
    have : o ∈ p.ops := by
      rw [List.mem_zipIdx_iff_getElem?] at hm
      exact List.mem_of_getElem? hm
    have := h o this
    simp at hp
    contradiction

theorem output_dies_at_end (p : Plan) (t : Nat) (h : t ∈ p.outputs) : dies p t = p.ops.length + 1 := by
  unfold dies
  simp [h]

theorem born_le_length (p : Plan) (t : Nat) : born p t ≤ p.ops.length := by
  unfold born
  cases hf : p.ops.zipIdx.find? (fun x => x.1.outputs.contains t) with
  | none => simp
  | some x =>
    have hm := List.mem_of_find?_eq_some hf
    obtain ⟨o, k⟩ := x
    rw [List.mem_zipIdx_iff_getElem?] at hm
    simp only at hm ⊢
    have : k < p.ops.length := by
      rcases Nat.lt_or_ge k p.ops.length with h | h
      · exact h
      · rw [List.getElem?_eq_none h] at hm; cases hm
    omega

theorem born_le_dies (p : Plan) (t : Nat) : born p t ≤ dies p t := by
  unfold dies
  split
  · have := born_le_length p t; omega
  · exact (foldl_max_ge (fun x => x.1.inputs.contains t || x.1.outputs.contains t) p.ops.zipIdx (born p t)).1

theorem passthrough_live_throughout (p : Plan) (t : Nat) (hout : t ∈ p.outputs) (hprod : ∀ o ∈ p.ops, t ∉ o.outputs) :
    ∀ τ, τ ≤ p.ops.length + 1 → liveAt p t τ := by
  intro τ hτ
  unfold liveAt
  rw [unproduced_born_zero p t hprod, output_dies_at_end p t hout]
  omega

theorem passthrough_coexists_with_everything (p : Plan) (t b : Nat) (hout : t ∈ p.outputs) (hprod : ∀ o ∈ p.ops, t ∉ o.outputs) :
    liveOverlap p t b = true ∧ liveOverlap p b t = true := by
  unfold liveOverlap
  rw [unproduced_born_zero p t hprod, output_dies_at_end p t hout]
  have := born_le_length p b
  simp only [Bool.and_eq_true, decide_eq_true_eq]
  omega


theorem bytesOverlap_symm (ta tb : ATensor) : bytesOverlap ta tb = bytesOverlap tb ta := by
  unfold bytesOverlap
  cases ta.offset <;> cases tb.offset <;> simp only
  rw [Bool.eq_iff_iff]
  simp only [Bool.and_eq_true, decide_eq_true_eq]
  omega

theorem no_handover_from_output (p : Plan) (t b : Nat) (tt tb : ATensor) (hout : t ∈ p.outputs) :
    handoverAllowed p t b tt tb = false := by
  unfold handoverAllowed
  have := born_le_length p b
  rw [output_dies_at_end p t hout]
  simp only
  rw [if_pos]
  omega

theorem no_handover_to_unproduced (p : Plan) (t b : Nat) (tt tb : ATensor) (hprod : ∀ o ∈ p.ops, t ∉ o.outputs) :
    handoverAllowed p b t tb tt = false := by
  unfold handoverAllowed
  rw [unproduced_born_zero p t hprod]
  simp

theorem no_alias_to_unproduced (p : Plan) (t b : Nat) (tt tb : ATensor) (hprod : ∀ o ∈ p.ops, t ∉ o.outputs) :
    aliasAllowed p b t tb tt = false := by
  cases h : aliasAllowed p b t tb tt with
  | false => rfl
  | true =>
    obtain ⟨_, _, o, ho, _, _, h5, _⟩ := aliasAllowed_spec p b t tb tt h
    exact absurd h5 (hprod o ho)

/-- **An accepted plan gives a returned input bytes of its own, except as the unwritten result of an Ethos-U identity.**
    `t` is listed as subgraph output and no operator produces it (a subgraph input or a constant that is returned);
    any other planned tensor `b` that shares a byte with it is the result of an Ethos-U operator that reads `t` and
    whose command stream never writes `b` (same offset, same size: the same buffer). -/
theorem returned_input_shares_bytes_only_as_alias (p : Plan) (h : conflicts p = []) (t b : Nat) (tt tb : ATensor)
    (ht : (t, tt) ∈ planned p) (hb : (b, tb) ∈ planned p) (hne : t ≠ b)
    (hout : t ∈ p.outputs) (hprod : ∀ o ∈ p.ops, t ∉ o.outputs) (hbo : bytesOverlap tt tb = true) :
    aliasAllowed p t b tt tb = true := by
  have hlo := passthrough_coexists_with_everything p t b hout hprod
  have h1 := no_handover_from_output p t b tt tb hout
  have h2 := no_handover_to_unproduced p t b tt tb hprod
  have h3 := no_alias_to_unproduced p t b tt tb hprod
  rcases Nat.lt_or_ge t b with hlt | hge
  · have := conflicts_sound p h t tt b tb ht hb hlt hbo hlo.1
    simpa [h1, h2, h3] using this
  · have hlt : b < t := by omega
    have := conflicts_sound p h b tb t tt hb ht hlt (by rw [bytesOverlap_symm]; exact hbo) hlo.2
    simpa [h1, h2, h3] using this

/-- **A pass-through tensor (subgraph input = subgraph output, touched by no operator) shares no byte with any other
    planned tensor of an accepted plan.** -/
theorem passthrough_shares_no_byte (p : Plan) (h : conflicts p = []) (t b : Nat) (tt tb : ATensor)
    (ht : (t, tt) ∈ planned p) (hb : (b, tb) ∈ planned p) (hne : t ≠ b)
    (hout : t ∈ p.outputs) (hprod : ∀ o ∈ p.ops, t ∉ o.outputs) (hread : ∀ o ∈ p.ops, t ∉ o.inputs) :
    bytesOverlap tt tb = false := by
  cases hbo : bytesOverlap tt tb with
  | false => rfl
  | true =>
    have := returned_input_shares_bytes_only_as_alias p h t b tt tb ht hb hne hout hprod hbo
    obtain ⟨_, _, o, ho, _, h4, _, _⟩ := aliasAllowed_spec p t b tt tb this
    exact absurd h4 (hread o ho)

-- non-vacuity: the demo network of the seeded change: inputs x (0) and p (1); x -> Ethos-U -> a (5) -> CPU -> s (6) -> Ethos-U -> c (7);
-- outputs c and p.  `offP` = arena offset of p
def passDemo (offP : Nat) : Plan :=
  { tensors := [⟨1024, some 0, false⟩, ⟨1024, some offP, false⟩, ⟨100, none, false⟩, ⟨4096, some 0, false⟩, ⟨64, none, false⟩,
                ⟨1024, some 1024, false⟩, ⟨1024, some 0, false⟩, ⟨1024, some 1024, false⟩],
    ops := [⟨true, 32, [2, 4, 3, 0], [5], none⟩, ⟨false, 66, [5], [6], none⟩, ⟨true, 32, [2, 4, 3, 6], [7], none⟩],
    inputs := [0, 1], outputs := [7, 1], scratch := some 3, fast := none, align := 16 }
example : ∀ τ, τ ≤ 4 → liveAt (passDemo 0) 1 τ :=
  passthrough_live_throughout (passDemo 0) 1 (by decide) (by decide)
example : born (passDemo 0) 1 = 0 ∧ dies (passDemo 0) 1 = 4 := by decide
/-- what the seeded change planned: p on top of the other input / of an intermediate map is a conflict … -/
example : conflicts (passDemo 0) = [(0, 1), (1, 6)] ∧ conflicts (passDemo 1024) = [(1, 5), (1, 7)] := by decide
/-- … with bytes of its own the plan is accepted, the extent accounts for it, and the theorem's hypotheses hold -/
example : conflicts (passDemo 2048) = [] ∧ requiredExtent (passDemo 2048) = 3072 := by decide
example : bytesOverlap ((passDemo 2048).tensors[1]!) ((passDemo 2048).tensors[6]!) = false :=
  passthrough_shares_no_byte (passDemo 2048) (by decide) 1 6 _ _ (by decide) (by decide) (by decide) (by decide) (by decide) (by decide)

end VelaVerif.Props.C12
