import VelaVerif.Spec.Arena
/-!
# C12 — the offline arena plan is self-consistent and reported memory is sufficient

Run-time verdict: `Arena.check` on every output model (plain flatbuffer walk). Theorems: the
executable checker is sound for the declarative statement.
-/
namespace VelaVerif.Props.C12
open VelaVerif.Arena

/-- Soundness of the conflict scan: if it reports nothing then any two distinct planned tensors whose
    byte intervals intersect and whose lifetimes intersect are a permitted hand-over at one operator. -/
theorem conflicts_sound (p : Plan) (h : conflicts p = []) :
    ∀ a ta b tb, (a, ta) ∈ planned p → (b, tb) ∈ planned p → a < b →
      bytesOverlap ta tb = true → liveOverlap p a b = true →
      handoverAllowed p a b ta tb = true ∨ handoverAllowed p b a tb ta = true ∨
      aliasAllowed p a b ta tb = true ∨ aliasAllowed p b a tb ta = true := by
  intro a ta b tb ha hb hlt hbo hlo
  unfold conflicts at h
  simp only [List.flatMap_eq_nil_iff] at h
  have h1 := h (a, ta) ha
  simp only [List.filterMap_eq_nil_iff] at h1
  have h2 := h1 (b, tb) hb
  cases h3 : handoverAllowed p a b ta tb with
  | true => exact Or.inl rfl
  | false =>
    cases h4 : handoverAllowed p b a tb ta with
    | true => exact Or.inr (Or.inl rfl)
    | false =>
      cases h5 : aliasAllowed p a b ta tb with
      | true => exact Or.inr (Or.inr (Or.inl rfl))
      | false =>
        cases h6 : aliasAllowed p b a tb ta with
        | true => exact Or.inr (Or.inr (Or.inr rfl))
        | false => simp [hlt, hbo, hlo, h3, h4, h5, h6] at h2

/-- what the alias exemption means: the two tensors are exactly the same bytes, `a` is an input and `b` an
    output of one Ethos-U operator, and no write of that operator's decoded stream touches a byte of `b` -/
theorem aliasAllowed_spec (p : Plan) (a b : Nat) (ta tb : ATensor) (h : aliasAllowed p a b ta tb = true) :
    ta.offset = tb.offset ∧ ta.size = tb.size ∧
    ∃ o ∈ p.ops, o.ethosu = true ∧ a ∈ o.inputs ∧ b ∈ o.outputs ∧ writtenBy p o tb = false := by
  unfold aliasAllowed at h
  simp only [Bool.and_eq_true, beq_iff_eq, List.any_eq_true, Bool.not_eq_true', List.contains_iff_mem] at h
  obtain ⟨⟨h1, h2⟩, o, ho, ⟨⟨⟨h3, h4⟩, h5⟩, h6⟩⟩ := h
  exact ⟨h1, h2, o, ho, h3, h4, h5, h6⟩

/-- an output counts as unwritten only if the stream was supplied and none of its writes, mapped to arena
    bytes, intersects the tensor -/
theorem writtenBy_false_spec (p : Plan) (o : AOp) (t : ATensor) (h : writtenBy p o t = false) :
    ∃ ws off, o.writes = some ws ∧ t.offset = some off ∧
      ∀ w ∈ ws, ∀ lo hi, arenaRange p w = some (lo, hi) → ¬ (lo < off + t.size ∧ off < hi) := by
  unfold writtenBy at h
  cases hw : o.writes with
  | none => rw [hw] at h; cases h
  | some ws =>
    cases ho : t.offset with
    | none => rw [hw, ho] at h; cases h
    | some off =>
      rw [hw, ho] at h
      refine ⟨ws, off, rfl, rfl, ?_⟩
      intro w hwm lo hi har hc
      simp only [List.any_eq_false] at h
      have hx := h w hwm
      rw [har] at hx
      simp [hc.1, hc.2] at hx

/-- every planned tensor ends at or below the required extent -/
theorem required_covers (p : Plan) :
    ∀ i t, (i, t) ∈ planned p → t.offset.getD 0 + t.size ≤ requiredExtent p := by
  intro i t h
  unfold requiredExtent
  generalize planned p = l at h
  have key : ∀ (l : List (Nat × ATensor)) (acc : Nat),
      acc ≤ l.foldl (fun acc (x : Nat × ATensor) => max acc (x.2.offset.getD 0 + x.2.size)) acc ∧
      ∀ x ∈ l, x.2.offset.getD 0 + x.2.size ≤ l.foldl (fun acc (x : Nat × ATensor) => max acc (x.2.offset.getD 0 + x.2.size)) acc := by
    intro l
    induction l with
    | nil => intro acc; simp
    | cons y ys ih =>
      intro acc
      have := ih (max acc (y.2.offset.getD 0 + y.2.size))
      simp only [List.foldl_cons, List.mem_cons, forall_eq_or_imp]
      refine ⟨by omega, by omega, this.2⟩
  exact (key l 0).2 (i, t) h

/-- alignment scan soundness -/
theorem misaligned_sound (p : Plan) (h : misaligned p = []) (hal : 0 < p.align) :
    ∀ i t o, (i, t) ∈ planned p → t.offset = some o → o % p.align = 0 := by
  intro i t o hm ho
  unfold misaligned at h
  simp only [List.filterMap_eq_nil_iff] at h
  have := h (i, t) hm
  simp only [ho] at this
  cases Nat.decEq (o % p.align) 0 with
  | isTrue h0 => exact h0
  | isFalse hne => simp [hal, hne] at this

-- non-vacuity: the plan measured in DESIGN.md (input and output of one Ethos-U operator share offset 0)
def demo : Plan :=
  { tensors := [⟨2048, some 0, false⟩, ⟨100, none, false⟩, ⟨8192, some 0, false⟩, ⟨4096, some 0, false⟩, ⟨4096, some 4096, false⟩],
    ops := [⟨true, 32, [1, 2, 0], [3], none⟩, ⟨false, 32, [3], [4], none⟩], inputs := [0], outputs := [4], scratch := some 2, fast := none, align := 16 }
example : conflicts demo = [] ∧ misaligned demo = [] ∧ scratchProblems demo = [] ∧ requiredExtent demo = 8192 := by decide
/-- a CPU operator whose input and output overlap is reported -/
example : conflicts { demo with tensors := [⟨2048, some 0, false⟩, ⟨100, none, false⟩, ⟨8192, some 0, false⟩, ⟨4096, some 0, false⟩, ⟨4096, some 2048, false⟩] } = [(3, 4)] := by decide

/-- the NOP case measured on the unchanged tree (MEAN over a 1x1 map: no operation emitted, input 3 and
    output 4 are the same 4 bytes and both graph outputs): accepted only because the stream writes nothing
    there; with a write into those bytes, or without stream information, it is a conflict -/
def nopDemo (w : Option (List (Nat × Nat × Nat))) : Plan :=
  { tensors := [⟨112, some 0, false⟩, ⟨100, none, false⟩, ⟨576, some 0, false⟩, ⟨4, some 16, false⟩, ⟨4, some 16, false⟩],
    ops := [⟨true, 32, [1, 2, 0], [3], some [(1, 16, 20)]⟩, ⟨true, 32, [1, 2, 3], [4], w⟩], inputs := [0], outputs := [3, 4],
    scratch := some 2, fast := none, align := 16 }
example : conflicts (nopDemo (some [])) = [] ∧ undefinedOutputs (nopDemo (some [])) = [] := by decide
example : conflicts (nopDemo (some [(1, 18, 19)])) = [(3, 4)] := by decide
example : conflicts (nopDemo none) = [(3, 4)] := by decide
example : (undefinedOutputs { nopDemo (some []) with tensors :=
    [⟨112, some 0, false⟩, ⟨100, none, false⟩, ⟨576, some 0, false⟩, ⟨4, some 16, false⟩, ⟨4, some 32, false⟩] }).length = 1 := by decide

end VelaVerif.Props.C12
