import VelaVerif.Lemmas.TensorAddr
/-!
# C02, address-generation link: from a tensor's shape and format to the tile addresses and strides

`Props/C02.lean` proves that the run-time bounds checker is sound for the bytes the decoded registers
address. This file proves the link *before* the registers: for the model of `tensor.py` /
`create_feature_map` (`Model/TensorAddr.lean`, tied to the code by the correspondence stage of `check_C02.py`),
every element of a box that lies inside the tensor's shape is addressed inside the tensor's own allocation
`[address, address + storage_size())`, and the tiled register addressing of `Spec/Footprint.fmAddr` reaches
exactly the tensor's own address of every element.

Notation: `v` is the 4-D *storage view* `address_for_coordinate` and `get_strides` work with
(`viewShape`): the operator shape rounded to the storage quantum for a standard feature map accessed through
an operator shape, the tensor's own storage shape otherwise (rolling buffers, no operator shape).
`hrank` says that in the second case the tensor's own storage shape is 4-D (always true of rolling buffers:
`set_new_sub_purpose` stores a 4-D shape); tensors of lower rank accessed without an operator shape are
covered by the correspondence check only.
-/
namespace VelaVerif.Props.C02
open VelaVerif.TensorAddr VelaVerif.Decode VelaVerif.Footprint VelaVerif.TensorBounds
open VelaVerif.Cascade (roundUp)

/-! ## 1. an in-shape element lies inside the storage size -/

/-- **NHWC**: for every coordinate inside the storage view (that also passes the in-shape assert of a Standard
    tensor), `address_for_coordinate` succeeds and `offset + element size ≤ elements × element size ≤ storage size`. -/
theorem offset_lt_size_nhwc (t : Tens) (op : Option S4) (v : S4) (size n y x c : Nat)
    (hfmt : t.fmt = .nhwc) (hp : t.purpose ≠ .weights) (hv : viewShape t op = .ok v)
    (hrank : (op.isSome && isStandardFm t) = false → t.storageShape = v.toList)
    (hassert : t.standard = true → inShape (coordOf n y x c) (assertShape t op) = true)
    (hin : n < v.n ∧ y < v.h ∧ x < v.w ∧ c < v.c)
    (hsize : sizeForView t (op.isSome && isStandardFm t) v = .ok size) :
    ∃ off, offsetForCoordinate t (coordOf n y x c) none op false = .ok off ∧
      off + t.elemSize ≤ v.elems * t.elemSize ∧ v.elems * t.elemSize ≤ size :=
  offset_lt_size_both t op v size n y x c (.inl hfmt) hp hv hrank hassert hin hsize

/-- **NHCWB16** (brick arithmetic `c / 16`, `c % 16`): same statement; the storage depth must be a multiple of the
    brick size 16 — which is what the storage rounding quantum (1, 1, 1, 16) establishes (`view_depth_multiple`). -/
theorem offset_lt_size_nhcwb16 (t : Tens) (op : Option S4) (v : S4) (size n y x c : Nat)
    (hfmt : t.fmt = .nhcwb16) (h16 : v.c % 16 = 0) (hp : t.purpose ≠ .weights) (hv : viewShape t op = .ok v)
    (hrank : (op.isSome && isStandardFm t) = false → t.storageShape = v.toList)
    (hassert : t.standard = true → inShape (coordOf n y x c) (assertShape t op) = true)
    (hin : n < v.n ∧ y < v.h ∧ x < v.w ∧ c < v.c)
    (hsize : sizeForView t (op.isSome && isStandardFm t) v = .ok size) :
    ∃ off, offsetForCoordinate t (coordOf n y x c) none op false = .ok off ∧
      off + t.elemSize ≤ v.elems * t.elemSize ∧ v.elems * t.elemSize ≤ size :=
  offset_lt_size_both t op v size n y x c (.inr ⟨hfmt, h16⟩) hp hv hrank hassert hin hsize

/-- the rounding quantum of `set_format(NHCWB16)` makes the storage depth of a standard feature map a multiple of 16,
    whatever operator shape it is accessed through; and the view contains the operator shape -/
theorem view_depth_multiple (t : Tens) (op v : S4) (hq : t.quantum = quantumOf .nhcwb16) (hstd : isStandardFm t = true)
    (hv : viewShape t (some op) = .ok v) :
    v.c % 16 = 0 ∧ op.n ≤ v.n ∧ op.h ≤ v.h ∧ op.w ≤ v.w ∧ op.c ≤ v.c := by
  simp only [viewShape, hstd, if_true, storageShapeFor, Except.ok.injEq] at hv
  subst hv
  rw [hq]
  simp only [roundS4, quantumOf, roundUp_one]
  exact ⟨roundUp_mod _ _, Nat.le_refl _, Nat.le_refl _, Nat.le_refl _, roundUp_ge _ _ (by decide)⟩

/-- example tensors: int16 NHCWB16 feature map [1, 5, 3, 20] at address 1024 (storage shape [1, 5, 3, 32], 960 bytes) … -/
def exT16 : Tens :=
  { shape := [1, 5, 3, 20], storageShape := [1, 5, 3, 32], quantum := ⟨1, 1, 1, 16⟩, fmt := .nhcwb16, elemSize := 2, address := 1024 }
/-- … the same tensor as a rolling buffer 3 rows high … -/
def exRoll : Tens := { exT16 with storageShape := [1, 3, 3, 32], standard := false }
/-- … and an int8 NHWC feature map [1, 4, 6, 3] at address 64 -/
def exTn : Tens :=
  { shape := [1, 4, 6, 3], storageShape := [1, 4, 6, 3], fmt := .nhwc, elemSize := 1, address := 64 }
def exOp : S4 := ⟨1, 5, 3, 20⟩
def exSt : Strides := ⟨960, 96, 192, 32, 2⟩

example : setFormat { Tens.new [1, 5, 3, 20] 2 with address := 1024 } .nhcwb16 = .ok exT16 := by decide
example : setRolling exT16 (.y 3) = .ok exRoll := by decide
example : storageSize exT16 = .ok 960 ∧ storageSize exRoll = .ok 576 := by decide
example : getStrides exT16 (some exOp) = .ok exSt ∧ getStrides exRoll (some exOp) = .ok { exSt with sN := 576 } := by decide
/-- the hypotheses of `offset_lt_size_nhcwb16` at the last element (0, 4, 2, 19): offset 934, 934 + 2 ≤ 960 -/
example : exT16.fmt = .nhcwb16 ∧ viewShape exT16 (some exOp) = .ok ⟨1, 5, 3, 32⟩ ∧ 32 % 16 = 0 ∧
    inShape (coordOf 0 4 2 19) (assertShape exT16 (some exOp)) = true ∧
    sizeForView exT16 ((some exOp).isSome && isStandardFm exT16) ⟨1, 5, 3, 32⟩ = .ok 960 ∧
    offsetForCoordinate exT16 (coordOf 0 4 2 19) none (some exOp) false = .ok 934 := by decide
/-- the asserts are error outcomes: channel 20 is inside the storage shape but outside the operator shape -/
example : offsetForCoordinate exT16 (coordOf 0 4 2 20) none (some exOp) false = .error .assert := by decide
example : offsetForCoordinate exTn (coordOf 0 3 5 2) none (some ⟨1, 4, 6, 3⟩) false = .ok 71 ∧ storageSize exTn = .ok 80 := by decide

/-- Corollary: if the storage view is not larger than the tensor's own storage (`hvol`; trivially true when the view *is*
    the tensor's storage shape, and true of an operator shape whose rounded volume does not exceed it), the element lies
    inside the tensor's allocation `[address, address + storage_size())`. -/
theorem offset_inside_allocation (t : Tens) (op : Option S4) (v : S4) (size asz n y x c : Nat)
    (hfmt : t.fmt = .nhwc ∨ (t.fmt = .nhcwb16 ∧ v.c % 16 = 0)) (hp : t.purpose ≠ .weights)
    (hv : viewShape t op = .ok v)
    (hrank : (op.isSome && isStandardFm t) = false → t.storageShape = v.toList)
    (hassert : t.standard = true → inShape (coordOf n y x c) (assertShape t op) = true)
    (hin : n < v.n ∧ y < v.h ∧ x < v.w ∧ c < v.c)
    (hsize : sizeForView t (op.isSome && isStandardFm t) v = .ok size)
    (hvol : v.elems ≤ prod t.storageShape) (halloc : storageSize t = .ok asz) :
    ∃ a, addressForCoordinate t (coordOf n y x c) none op false = .ok a ∧
      t.address ≤ a ∧ a + t.elemSize ≤ t.address + asz := by
  obtain ⟨off, h1, h2, _⟩ := offset_lt_size_both t op v size n y x c hfmt hp hv hrank hassert hin hsize
  refine ⟨t.address + off, by simp [addressForCoordinate, h1], by omega, ?_⟩
  have h3 := sizeOfElems_ge _ _ _ _ halloc
  have h4 : v.elems * t.elemSize ≤ prod t.storageShape * t.elemSize := Nat.mul_le_mul_right _ hvol
  omega


/- Full statement (FALSE of the model, hence of the code, see the witness): `offset_inside_allocation` without `hvol`.
   `address_for_coordinate` compares the offset with `storage_size_for_shape(rounded op_shape4D)`, not with the tensor's
   own `storage_size()`: a [1,1,1,40] NHCWB16 tensor (48 bytes) accessed through the operator shape [1,1,2,20] (rounded to
   [1,1,2,32], 64 bytes) hands out offset 51 for the in-shape coordinate (0,0,1,19) without tripping an assert.
   The compiler must therefore never pair a tensor with an operator shape of larger rounded volume; the pipeline stage of
   `check_C02.py` evaluates `footprintInsideAllocation` on every compiled feature map to validate exactly that. -/
theorem offset_inside_allocation_needs_volume_witness :
    let t : Tens := { shape := [1, 1, 1, 40], storageShape := [1, 1, 1, 48], quantum := ⟨1, 1, 1, 16⟩, fmt := .nhcwb16, elemSize := 1 }
    offsetForCoordinate t (coordOf 0 0 1 19) none (some ⟨1, 1, 2, 20⟩) false = .ok 51 ∧ storageSize t = .ok 48 ∧
      viewShape t (some ⟨1, 1, 2, 20⟩) = .ok ⟨1, 1, 2, 32⟩ := by decide

/-- `is_top_box` (used for the end address of a DMA box): for the 1-based end coordinate of an in-view element the result
    is that element's offset plus one element, i.e. the first byte after it. -/
theorem top_box_is_end (t : Tens) (op : Option S4) (v : S4) (st : Strides) (size n y x c : Nat)
    (hfmt : t.fmt = .nhwc ∨ (t.fmt = .nhcwb16 ∧ v.c % 16 = 0)) (hp : t.purpose ≠ .weights)
    (hv : viewShape t op = .ok v)
    (hrank : (op.isSome && isStandardFm t) = false → t.storageShape = v.toList)
    (hassert : t.standard = true → inShape (coordOf n y x c) (assertShape t op) = true)
    (hin : n < v.n ∧ y < v.h ∧ x < v.w ∧ c < v.c)
    (hsize : sizeForView t (op.isSome && isStandardFm t) v = .ok size)
    (hs : getStrides t op = .ok st) :
    offsetForCoordinate t (coordOf n y x c) none op false = .ok (linOffset t.fmt st n y x c) ∧
    offsetForCoordinate t (coordOf (n + 1) (y + 1) (x + 1) (c + 1)) none op true =
      .ok (linOffset t.fmt st n y x c + t.elemSize) ∧ linOffset t.fmt st n y x c + t.elemSize ≤ size := by
  have hfo : t.fmt ≠ .other := by rcases hfmt with h | ⟨h, _⟩ <;> rw [h] <;> decide
  have hs' : stridesOfView t.fmt t.elemSize v = .ok st := by rw [← getStrides_eq t op v hfo hv]; exact hs
  have hb := linOffset_bound t v st n y x c hfmt hs' hin.1 hin.2.1 hin.2.2.1 hin.2.2.2
  have hge := sizeForView_ge t _ v size hrank hsize
  have hE : st.sE = t.elemSize := by
    rcases hfmt with h | ⟨h, _⟩ <;> rw [h] at hs' <;> simp only [stridesOfView, Except.ok.injEq] at hs' <;> subst hs' <;> rfl
  have hmod : linOffset t.fmt st (n % v.n) (y % v.h) (x % v.w) (c % v.c) = linOffset t.fmt st n y x c := by
    rw [Nat.mod_eq_of_lt hin.1, Nat.mod_eq_of_lt hin.2.1, Nat.mod_eq_of_lt hin.2.2.1, Nat.mod_eq_of_lt hin.2.2.2]
  refine ⟨offset_inview t op v st size n y x c hfmt hp hv hrank hassert hin hsize hs', ?_, by omega⟩
  have := offsetForCoordinate_top t op none st v size n y x c hp hfo (by simp [stridesOrDefault, hs]) hv hrank hassert
    ⟨by omega, by omega, by omega, by omega⟩ hsize (by rw [hmod, hE]; omega)
  rw [this, hmod, hE, Nat.add_comm]

example : offsetForCoordinate exT16 (coordOf 1 5 3 20) none (some exOp) true = .ok 936 := by decide

/-! ## 2. the strides address distinct elements at distinct, non-overlapping byte ranges -/

/-- **Injectivity of addressing inside a tensor, both formats**: two distinct coordinates inside the storage view get
    element byte ranges `[off, off + element size)` that do not overlap. (For NHCWB16 the storage depth must be a multiple
    of 16: see `strides_consistent_needs_quantum16_witness`.) -/
theorem strides_consistent (t : Tens) (op : Option S4) (v : S4) (size : Nat) (a b : S4)
    (hfmt : t.fmt = .nhwc ∨ (t.fmt = .nhcwb16 ∧ v.c % 16 = 0)) (hp : t.purpose ≠ .weights)
    (hv : viewShape t op = .ok v)
    (hrank : (op.isSome && isStandardFm t) = false → t.storageShape = v.toList)
    (hsize : sizeForView t (op.isSome && isStandardFm t) v = .ok size)
    (ha : a.n < v.n ∧ a.h < v.h ∧ a.w < v.w ∧ a.c < v.c) (hb : b.n < v.n ∧ b.h < v.h ∧ b.w < v.w ∧ b.c < v.c)
    (haa : t.standard = true → inShape (coordOf a.n a.h a.w a.c) (assertShape t op) = true)
    (hab : t.standard = true → inShape (coordOf b.n b.h b.w b.c) (assertShape t op) = true)
    (hne : a ≠ b) :
    ∃ oa ob, offsetForCoordinate t (coordOf a.n a.h a.w a.c) none op false = .ok oa ∧
      offsetForCoordinate t (coordOf b.n b.h b.w b.c) none op false = .ok ob ∧
      (oa + t.elemSize ≤ ob ∨ ob + t.elemSize ≤ oa) := by
  obtain ⟨st, hs⟩ := stridesOfView_ok t v hfmt
  refine ⟨_, _, offset_inview t op v st size _ _ _ _ hfmt hp hv hrank haa ha hsize hs,
    offset_inview t op v st size _ _ _ _ hfmt hp hv hrank hab hb hsize hs, ?_⟩
  apply linOffset_disjoint t v st hfmt hs _ _ _ _ _ _ _ _ ha.2.1 ha.2.2.1 ha.2.2.2 hb.2.1 hb.2.2.1 hb.2.2.2
  intro h
  apply hne
  cases a; cases b; simp_all


example : offsetForCoordinate exT16 (coordOf 0 0 1 19) none (some exOp) false = .ok 134 ∧
    offsetForCoordinate exT16 (coordOf 0 1 0 3) none (some exOp) false = .ok 198 := by decide

/- Full statement (FALSE without `v.c % 16 = 0`): `strides_consistent` for every NHCWB16 storage view.
   With a storage rounding quantum of 8 instead of 16 a [1,2,2,20] tensor is stored as [1,2,2,24]: the row stride 48 is
   smaller than the two bricks of a row (2 × 32), and elements (0,0,1,19) and (0,1,0,3) share the byte at offset 51. -/
theorem strides_consistent_needs_quantum16_witness :
    let t : Tens := { shape := [1, 2, 2, 20], storageShape := [1, 2, 2, 24], quantum := ⟨1, 1, 1, 8⟩, fmt := .nhcwb16, elemSize := 1 }
    offsetForCoordinate t (coordOf 0 0 1 19) none none false = .ok 51 ∧
    offsetForCoordinate t (coordOf 0 1 0 3) none none false = .ok 51 := by decide

/-! ## 3. the tiles and strides in the registers reach the tensor's own bytes -/

/-- **The decoded-register footprint coincides with the tensor's own addressing.** For a box `[s, e)` of an operation with
    operator shape `op`, strides `get_strides(op)` and the tile box `addresses_for_rolling_buffer` returns (which exists:
    no assert trips, the box is not "unsupported"), the address `Footprint.fmAddr` computes from the tile bases, the tile
    split `height_0` / `width_0` and the strides equals `address_for_coordinate` of the element, for every element of the box —
    including the wrap-around of a rolling buffer (rows from the crossing on come from tile 2).
    Hypotheses, each needed: the box lies inside the operator shape when the tensor is Standard (the assert); it is at most
    one buffer height high (`hH`), does not cross the buffer in x (`hW`: otherwise Vela raises "not supported") and lies
    inside the storage depth (`hC`); for NHCWB16 the storage depth is a multiple of 16 and the box starts on a brick
    (`s.c % 16 = 0`, see `tiles_cover_box_unaligned_depth_witness`). -/
theorem tiles_cover_box (t : Tens) (op v s e : S4) (st : Strides) (size : Nat)
    (hp : t.purpose ≠ .weights)
    (hfmt : t.fmt = .nhwc ∨ (t.fmt = .nhcwb16 ∧ v.c % 16 = 0 ∧ s.c % 16 = 0))
    (hne : t.storageShape ≠ [])
    (hv : viewShape t (some op) = .ok v)
    (hrank : isStandardFm t = false → t.storageShape = v.toList)
    (hst : getStrides t (some op) = .ok st)
    (hsize : sizeForView t (isStandardFm t) v = .ok size)
    (hbox : s.h < e.h ∧ s.w < e.w ∧ s.c < e.c)
    (hassert : t.standard = true → s.n < op.n ∧ e.h ≤ op.h ∧ e.w ≤ op.w ∧ e.c ≤ op.c)
    (hN : v.n ≠ 0) (hH : e.h - s.h ≤ v.h) (hW : e.w ≤ roundUp (s.w + 1) v.w) (hC : e.c ≤ v.c) :
    ∃ tb, addressesForRollingBuffer t s e st op = .ok tb ∧
      ∀ y x c, y < e.h - s.h → x < e.w - s.w → c < e.c - s.c →
        addressForCoordinate t (coordOf s.n (s.h + y) (s.w + x) (s.c + c)) (some st) (some op) false =
          .ok (fmAddr (toFM t tb st s e) y x c) := by
  have hfmt' : t.fmt = .nhwc ∨ (t.fmt = .nhcwb16 ∧ v.c % 16 = 0) := by
    rcases hfmt with h | ⟨h, h2, _⟩
    · exact .inl h
    · exact .inr ⟨h, h2⟩
  have hfo : t.fmt ≠ .other := by rcases hfmt' with h | ⟨h, _⟩ <;> rw [h] <;> decide
  have hs : stridesOfView t.fmt t.elemSize v = .ok st := by rw [← getStrides_eq t _ v hfo hv]; exact hst
  have hWpos : v.w ≠ 0 := by
    intro h0; rw [h0] at hW; simp [roundUp] at hW; omega
  apply tiles_cover_box_gen t op v s e st size hp (stridesRegOk_of_view t v st hfo hs)
    (fun h => by rcases hfmt with h' | ⟨_, _, h3⟩; · rw [h'] at h; cases h
                 · exact h3) hne hv hrank hsize hbox hassert hN hH hW hC
  intro y x c hy hx hc
  have hb := linOffset_bound t v st (s.n % v.n) ((s.h + y) % v.h) ((s.w + x) % v.w) ((s.c + c) % v.c) hfmt' hs
    (Nat.mod_lt _ (by omega)) (Nat.mod_lt _ (by omega)) (Nat.mod_lt _ (by omega)) (Nat.mod_lt _ (by omega))
  have hge := sizeForView_ge t _ v size (by simpa using hrank) hsize
  omega


/-- `tiles_cover_box` holds for ANY stride vector of the shape the registers assume (NHWC: depth stride = one element;
    NHCWB16: width stride = one brick, inner stride = one element) for which no assert trips (`hfit`) — in particular for
    strides multiplied by `stride_multiplier`. What changes with a multiplier is which *tensor element* such an address
    is: see `stride_multiplier_element`. -/
theorem tiles_cover_box_any_strides (t : Tens) (op v s e : S4) (st : Strides) (size : Nat)
    (hp : t.purpose ≠ .weights) (hreg : stridesRegOk t st)
    (hb16 : t.fmt = .nhcwb16 → s.c % 16 = 0)
    (hne : t.storageShape ≠ [])
    (hv : viewShape t (some op) = .ok v)
    (hrank : isStandardFm t = false → t.storageShape = v.toList)
    (hsize : sizeForView t (isStandardFm t) v = .ok size)
    (hbox : s.h < e.h ∧ s.w < e.w ∧ s.c < e.c)
    (hassert : t.standard = true → s.n < op.n ∧ e.h ≤ op.h ∧ e.w ≤ op.w ∧ e.c ≤ op.c)
    (hN : v.n ≠ 0) (hH : e.h - s.h ≤ v.h) (hW : e.w ≤ roundUp (s.w + 1) v.w) (hC : e.c ≤ v.c)
    (hfit : ∀ y x c, y < e.h - s.h → x < e.w - s.w → c < e.c - s.c →
        linOffset t.fmt st (s.n % v.n) ((s.h + y) % v.h) ((s.w + x) % v.w) ((s.c + c) % v.c) ≤ size) :
    ∃ tb, addressesForRollingBuffer t s e st op = .ok tb ∧
      ∀ y x c, y < e.h - s.h → x < e.w - s.w → c < e.c - s.c →
        addressForCoordinate t (coordOf s.n (s.h + y) (s.w + x) (s.c + c)) (some st) (some op) false =
          .ok (fmAddr (toFM t tb st s e) y x c) :=
  tiles_cover_box_gen t op v s e st size hp hreg hb16 hne hv hrank hsize hbox hassert hN hH hW hC hfit

/-- rolling buffer, rows 1..3 of the [1,5,3,20] tensor in a 3-row buffer: rows 1, 2 from tile 0, row 3 (slot 0) from tile 2 -/
example : addressesForRollingBuffer exRoll ⟨0, 1, 0, 0⟩ ⟨1, 4, 3, 20⟩ { exSt with sN := 576 } exOp = .ok ⟨2, 2, 3, 1216, 0, 1024, 0⟩ ∧
    fmAddr (toFM exRoll ⟨2, 2, 3, 1216, 0, 1024, 0⟩ { exSt with sN := 576 } ⟨0, 1, 0, 0⟩ ⟨1, 4, 3, 20⟩) 2 1 17 = 1024 + 32 + 96 + 2 ∧
    addressForCoordinate exRoll (coordOf 0 3 1 17) (some { exSt with sN := 576 }) (some exOp) false = .ok 1154 := by decide
example : addressesForRollingBuffer exT16 ⟨0, 1, 0, 0⟩ ⟨1, 5, 3, 20⟩ exSt exOp = .ok ⟨4, 4, 3, 1216, 0, 0, 0⟩ := by decide
/-- a box that crosses the buffer in x is rejected, as in the code -/
example : addressesForRollingBuffer { exRoll with storageShape := [1, 3, 2, 32] } ⟨0, 1, 1, 0⟩ ⟨1, 2, 3, 20⟩ exSt exOp = .error .unsupported := by decide

/-- `create_feature_map` without multiplier, offsets or transpose hands exactly `get_strides(op_shape4D)` and the tile box
    of `addresses_for_rolling_buffer` to the registers: `toFM` of `tiles_cover_box` is the feature map it produces
    (strides height / width / depth = `strides[2]`, `[3]`, `[1]`). -/
theorem create_feature_map_regs (t : Tens) (s e op : S4) (st : Strides) (tb : TileBox)
    (hfmt : t.fmt ≠ .other) (hst : getStrides t (some op) = .ok st)
    (htb : addressesForRollingBuffer t s e st op = .ok tb) :
    createFeatureMap t s e op [0, 0, 0, 0] none false = .ok ⟨st.sH, st.sW, st.sC, tb⟩ ∧
    createFeatureMap t s e op [0, 0, 0, 0] (some (1, 1, 1)) false = .ok ⟨st.sH, st.sW, st.sC, tb⟩ := by
  have h1 : (t.fmt == Fmt.other) = false := by cases h : t.fmt <;> simp_all
  constructor <;> simp [createFeatureMap, h1, fmStrides, hst, applyMult, htb]

/-- the tile split of this model is the row ↦ slot split of `Model/Cascade.addressesForRollingBuffer`
    (C10 `tile_addresses`: row r of the box lives in slot `r % B`) -/
theorem tile_split_agrees_with_cascade (t : Tens) (s e op v : S4) (st : Strides) (tb : TileBox) (ct : Cascade.Tiles)
    (hne : t.storageShape ≠ []) (hv : viewShape t (some op) = .ok v)
    (htb : addressesForRollingBuffer t s e st op = .ok tb)
    (hct : Cascade.addressesForRollingBuffer s.h e.h s.w e.w v.h v.w = .ok ct) :
    tb.height0 = ct.height0 ∧ tb.height1 = ct.height0 ∧ tb.width0 = ct.width0 := by
  unfold addressesForRollingBuffer at htb
  unfold Cascade.addressesForRollingBuffer at hct
  split at hct
  · cases hct
  · simp only at hct
    split at hct
    · cases hct
    · injection hct with hct
      subst hct
      split at htb
      · cases htb
      · rw [hv] at htb
        simp only at htb
        repeat' (split at htb)
        all_goals first | (cases htb; done) | (injection htb with htb; subst htb; exact ⟨rfl, rfl, rfl⟩)
example : createFeatureMap exT16 ⟨0, 1, 0, 0⟩ ⟨1, 5, 3, 20⟩ exOp [0, 0, 0, 0] none false = .ok ⟨192, 32, 96, ⟨4, 4, 3, 1216, 0, 0, 0⟩⟩ := by decide
example : Cascade.addressesForRollingBuffer 1 4 0 3 3 3 = .ok ⟨2, 3, 1, some 0⟩ := by decide

/- Full statement (FALSE when the box does not start on a brick): `tiles_cover_box` for NHCWB16 without `s.c % 16 = 0`.
   The tile base carries `(c0 / 16)·strideC + (c0 % 16)·e`; the hardware then adds `(c / 16)·strideC + (c % 16)·e` for the
   box-relative channel c, which is the tensor's address of channel c0 + c only if `c0 % 16 + c % 16 < 16` throughout.
   [1,1,2,32] int8, box channels 8..31: box channel 8 (tensor channel 16) is at 32, the registers reach 16.
   (Vela only slices NHCWB16 tensors at multiples of 16; the pipeline stage validates it per compiled feature map.) -/
theorem tiles_cover_box_unaligned_depth_witness :
    let t : Tens := { shape := [1, 1, 2, 32], storageShape := [1, 1, 2, 32], quantum := ⟨1, 1, 1, 16⟩, fmt := .nhcwb16, elemSize := 1 }
    let st : Strides := ⟨64, 32, 64, 16, 1⟩
    getStrides t (some ⟨1, 1, 2, 32⟩) = .ok st ∧
    addressesForRollingBuffer t ⟨0, 0, 0, 8⟩ ⟨1, 1, 2, 32⟩ st ⟨1, 1, 2, 32⟩ = .ok ⟨1, 1, 2, 8, 0, 0, 0⟩ ∧
    addressForCoordinate t (coordOf 0 0 0 16) (some st) (some ⟨1, 1, 2, 32⟩) false = .ok 32 ∧
    fmAddr (toFM t ⟨1, 1, 2, 8, 0, 0, 0⟩ st ⟨0, 0, 0, 8⟩ ⟨1, 1, 2, 32⟩) 0 0 8 = 16 := by decide

/-- **`stride_multiplier` and `tile_base_offsets`** (RESIZE_BILINEAR lowering: multiplier (1, mh, mw), tile-0 offset
    `(i·W + j)·C·e`): the address the registers reach for box element (y, x, c) is the tensor's own address of element
    `(mh·y + i, mw·x + j, c)` — the four interleaved depthwise convolutions write the four phases of the output. -/
theorem stride_multiplier_element (e : Nat) (v : S4) (st : Strides) (h : stridesOfView .nhwc e v = .ok st)
    (mh mw i j n y x c : Nat) :
    linOffset .nhwc { st with sH := st.sH * mh, sW := st.sW * mw } n y x c + (i * v.w + j) * v.c * e =
      linOffset .nhwc st n (mh * y + i) (mw * x + j) c := by
  simp only [stridesOfView, Except.ok.injEq] at h
  subst h
  simp only [linOffset]
  ring

/- Full statement (FALSE with a multiplier or a tile base offset): "the registers `create_feature_map` produces reach the
   tensor's address of the box element itself". Exact hypothesis of `tiles_cover_box`: multiplier `None`/[1,1,1] and
   offsets [0,0,0,0]. With multiplier (1,2,2) and offset (1·6+1)·3 on a [1,4,6,3] int8 tensor, box element (1,2,2) of the
   box [0,2)×[0,3)×[0,3) is written at 135 = the tensor's element (3,5,2), not at 90 = element (1,2,2); it is still
   inside the allocation [64, 144) because mh·y + i < H and mw·x + j < W. -/
theorem tiles_cover_box_multiplier_witness :
    createFeatureMap exTn ⟨0, 0, 0, 0⟩ ⟨1, 2, 3, 3⟩ ⟨1, 4, 6, 3⟩ [21, 0, 0, 0] (some (1, 2, 2)) false =
      .ok ⟨36, 6, 1, ⟨2, 2, 3, 85, 0, 0, 0⟩⟩ ∧
    fmAddr (toFM exTn ⟨2, 2, 3, 85, 0, 0, 0⟩ ⟨72, 1, 36, 6, 1⟩ ⟨0, 0, 0, 0⟩ ⟨1, 2, 3, 3⟩) 1 2 2 = 135 ∧
    addressForCoordinate exTn (coordOf 0 1 2 2) none (some ⟨1, 4, 6, 3⟩) false = .ok 90 ∧
    addressForCoordinate exTn (coordOf 0 3 5 2) none (some ⟨1, 4, 6, 3⟩) false = .ok 135 := by decide

/-! ## 4. every byte of the access lies inside the tensor's allocation -/

/-- the executable checker of `Spec/TensorBounds.lean` (applied by `check_C02.py` to the feature maps decoded from the
    emitted registers, with the tensor's real address and `storage_size()`) is sound for the element-level statement -/
theorem footprintInsideAllocation_sound (fm : FM) (addr size : Nat) (h : footprintInsideAllocation fm addr size = true) :
    FootprintInside fm addr size := by
  intro y x c k hy hx hc hk
  obtain ⟨p, hp, hcov, _⟩ := Footprint.fmPieces_covers fm 0 0 0 y x c k hy hx hc hk
  unfold Piece.covers at hcov
  unfold footprintInsideAllocation piecesInside at h
  rw [List.all_eq_true] at h
  have := h p hp
  simp only [Bool.and_eq_true, decide_eq_true_eq] at this
  omega

/-- **Corollary: every byte the hardware touches through the registers of the box lies in
    `[address, address + storage_size())`**, under the hypotheses of `tiles_cover_box` and the volume hypothesis
    `hvol` (storage view not larger than the tensor's own storage; trivial for rolling buffers and for operator shapes
    equal to the tensor's shape — see `offset_inside_allocation_needs_volume_witness` for why it cannot be dropped). -/
theorem footprint_inside_allocation (t : Tens) (op v s e : S4) (st : Strides) (size asz : Nat) (tb : TileBox)
    (hp : t.purpose ≠ .weights)
    (hfmt : t.fmt = .nhwc ∨ (t.fmt = .nhcwb16 ∧ v.c % 16 = 0 ∧ s.c % 16 = 0))
    (hne : t.storageShape ≠ [])
    (hv : viewShape t (some op) = .ok v)
    (hrank : isStandardFm t = false → t.storageShape = v.toList)
    (hst : getStrides t (some op) = .ok st)
    (hsize : sizeForView t (isStandardFm t) v = .ok size)
    (hbox : s.h < e.h ∧ s.w < e.w ∧ s.c < e.c)
    (hassert : t.standard = true → s.n < op.n ∧ e.h ≤ op.h ∧ e.w ≤ op.w ∧ e.c ≤ op.c)
    (hN : v.n ≠ 0) (hH : e.h - s.h ≤ v.h) (hW : e.w ≤ roundUp (s.w + 1) v.w) (hC : e.c ≤ v.c)
    (hvol : v.elems ≤ prod t.storageShape) (halloc : storageSize t = .ok asz)
    (htb : addressesForRollingBuffer t s e st op = .ok tb) :
    FootprintInside (toFM t tb st s e) t.address asz := by
  have hfmt' : t.fmt = .nhwc ∨ (t.fmt = .nhcwb16 ∧ v.c % 16 = 0) := by
    rcases hfmt with h | ⟨h, h2, _⟩
    · exact .inl h
    · exact .inr ⟨h, h2⟩
  have hfo : t.fmt ≠ .other := by rcases hfmt' with h | ⟨h, _⟩ <;> rw [h] <;> decide
  have hs : stridesOfView t.fmt t.elemSize v = .ok st := by rw [← getStrides_eq t _ v hfo hv]; exact hst
  have hWpos : v.w ≠ 0 := by
    intro h0; rw [h0] at hW; simp [roundUp] at hW; omega
  have hbound : ∀ y x c, linOffset t.fmt st (s.n % v.n) ((s.h + y) % v.h) ((s.w + x) % v.w) ((s.c + c) % v.c) + t.elemSize ≤
      v.elems * t.elemSize := fun y x c =>
    linOffset_bound t v st _ _ _ _ hfmt' hs (Nat.mod_lt _ (by omega)) (Nat.mod_lt _ (by omega)) (Nat.mod_lt _ (by omega))
      (Nat.mod_lt _ (by omega))
  have hge := sizeForView_ge t _ v size (by simpa using hrank) hsize
  intro y x c k hy hx hc hk
  simp only [toFM] at hy hx hc hk
  have := fmAddr_eq_gen t op v s e st size hp (stridesRegOk_of_view t v st hfo hs)
    (fun h => by rcases hfmt with h' | ⟨_, _, h3⟩; · rw [h'] at h; cases h
                 · exact h3) hne hv hrank hsize hbox hassert hN hH hW hC
    (fun y x c _ _ _ => by have := hbound y x c; omega) tb htb y x c hy hx hc
  rw [this]
  have h3 := sizeOfElems_ge _ _ _ _ halloc
  have h4 : v.elems * t.elemSize ≤ prod t.storageShape * t.elemSize := Nat.mul_le_mul_right _ hvol
  have := hbound y x c
  omega

/-- non-vacuity: the rolling-buffer example meets every hypothesis of `footprint_inside_allocation`
    (view [1,3,3,32] = own storage, 3 rows ≤ buffer height 3, depth 20 ≤ 32, start channel 0) and its footprint is
    accepted by the executable checker with the allocation [1024, 1024 + 576); its last byte is 1024 + 551 -/
example : exRoll.fmt = .nhcwb16 ∧ viewShape exRoll (some exOp) = .ok ⟨1, 3, 3, 32⟩ ∧ exRoll.storageShape = (⟨1, 3, 3, 32⟩ : S4).toList ∧
    getStrides exRoll (some exOp) = .ok { exSt with sN := 576 } ∧ sizeForView exRoll (isStandardFm exRoll) ⟨1, 3, 3, 32⟩ = .ok 576 ∧
    4 - 1 ≤ 3 ∧ 3 ≤ roundUp (0 + 1) 3 ∧ (⟨1, 3, 3, 32⟩ : S4).elems ≤ prod exRoll.storageShape ∧ storageSize exRoll = .ok 576 ∧
    addressesForRollingBuffer exRoll ⟨0, 1, 0, 0⟩ ⟨1, 4, 3, 20⟩ { exSt with sN := 576 } exOp = .ok ⟨2, 2, 3, 1216, 0, 1024, 0⟩ := by
  decide
example : footprintInsideAllocation (toFM exRoll ⟨2, 2, 3, 1216, 0, 1024, 0⟩ { exSt with sN := 576 } ⟨0, 1, 0, 0⟩ ⟨1, 4, 3, 20⟩) 1024 576 = true ∧
    footprintInsideAllocation (toFM exRoll ⟨2, 2, 3, 1216, 0, 1024, 0⟩ { exSt with sN := 576 } ⟨0, 1, 0, 0⟩ ⟨1, 4, 3, 20⟩) 1024 552 = true ∧
    footprintInsideAllocation (toFM exRoll ⟨2, 2, 3, 1216, 0, 1024, 0⟩ { exSt with sN := 576 } ⟨0, 1, 0, 0⟩ ⟨1, 4, 3, 20⟩) 1024 551 = false := by
  decide

end VelaVerif.Props.C02
