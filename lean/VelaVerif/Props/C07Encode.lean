import VelaVerif.Lemmas.MlwPlan
import VelaVerif.Lemmas.Reorder
/-!
# C07 — the MLW writer is inverted by the reference decoder, for every plan

Property theorems only.  Model: `Model/MlwEncode.lean` (the bit-stream writing half of `mlw_encode.c`:
`create_inverse_palette`, weight-index / zero-run extraction and the slice loop of `encode_section`, `encode_slice`
with its chunk loop, the end-of-stream frame of `mlw_encode`), driven by a *plan* = the decisions of the search half
(`search_palette_sections`, `find_palette`, `search_grc_params`).  Decoder: `Model/MlwDecode.lean`.
Plan well-formedness: `Spec/MlwPlan.lean` (`PlanOk`, decidable).  Helpers: `Lemmas/MlwEnc{Sym,Strm,Chunk,Slice,Stream}.lean`,
`Lemmas/MlwPlan.lean`.

What is proved: for **every** weight list and **every** well-formed plan the writer model succeeds, and the reference
decoder returns exactly the weights from the written bytes, with the frame rule and the 16-byte length rule of
`Spec/Mlw.lean` (`decode_encode_plan`, `write_meets_spec`).  The layers below it are stated at full generality too:
one chunk of either GRC stream from any intermediate state (`zero_run_chunk_roundtrip`, `weight_chunk_roundtrip`),
the interleaved chunk loop with its flow control (`chunk_loop_roundtrip`), one slice (`slice_roundtrip`).

What is *not* proved here and does not need to be for losslessness: how `mlw_encode.c` finds its plan.  That the
real encoder's plans satisfy `PlanOk`, and that the model writes the real encoder's bytes for them, is checked per
run by `harness/check_C07.py` (stage "writer model").
-/
namespace VelaVerif.Props.C07Encode
open VelaVerif VelaVerif.Mlw VelaVerif.MlwEnc VelaVerif.MlwSpec VelaVerif.MlwPlan VelaVerif.Reorder

/-! ## symbol level -/

/-- One chunk of the zero-run stream (plain unary, `n` symbols) written from *any* point inside a value: the
    decoder's loop over the written word returns quotients `qs` and a carry that stand in `ChunkRel` to the encoder's
    new state — the quotients recombine with the queued remainders to the values finished in this chunk
    (`ChunkRel.vals`), padding symbols only follow the last value, and the encoder's position advanced by the
    number of remainders. -/
theorem zero_run_chunk_roundtrip (div n : Nat) (s : Strm) (cy : Nat) (h : SR div s cy) :
    ∃ (qs rs : List Nat) (cy' : Nat),
      (zSyms div n 0 s {}).2.unary < 2 ^ n ∧
      zUnaryLoop (zSyms div n 0 s {}).2.unary n 0 cy [] = (qs, cy') ∧
      (zSyms div n 0 s {}).2.remain = rs ∧
      ChunkRel div s (zSyms div n 0 s {}).1 cy cy' qs rs := by
  obtain ⟨qs, rs, cy', h1, _, h3, h4, h5, _⟩ := zSyms_spec div n 0 s {} cy [] h (by simp)
  exact ⟨qs, rs, cy', by simpa using h1, by simpa using h3, by simpa using h4, h5⟩

/-- One chunk of the weight stream (two-level unary `WUNARY0`/`WUNARY1`, optional truncation) from any point inside
    a value: `WUNARY1` has as many bits as `WUNARY0` has ones, and the decoder's loop returns quotients and a carry
    in `ChunkRel` to the encoder's new state.  With truncation every quotient must be ≤ 2 (`TruncOk`). -/
theorem weight_chunk_roundtrip (div n : Nat) (trunc : Bool) (s : Strm) (cy : Nat) (h : SR div s cy)
    (ht : TruncOk div trunc s.todo) :
    ∃ (qs rs : List Nat) (cy' : Nat),
      (wSyms div trunc n 0 s {}).2.unary0 < 2 ^ n ∧
      (wSyms div trunc n 0 s {}).2.unary1 < 2 ^ (wSyms div trunc n 0 s {}).2.unary1Len ∧
      popLow (wSyms div trunc n 0 s {}).2.unary0 n 0 = (wSyms div trunc n 0 s {}).2.unary1Len ∧
      wUnaryLoop (wSyms div trunc n 0 s {}).2.unary0 trunc n 0 (wSyms div trunc n 0 s {}).2.unary1 cy [] = (qs, cy') ∧
      (wSyms div trunc n 0 s {}).2.remain = rs ∧
      ChunkRel div s (wSyms div trunc n 0 s {}).1 cy cy' qs rs := by
  obtain ⟨qs, rs, cy', h1, _, h3, _, h5, h6, h7, h8, _⟩ :=
    wSyms_spec div trunc n 0 s {} cy [] h (by simp) (by simp) ht
  exact ⟨qs, rs, cy', by simpa using h1, h3, by simpa using h5, by simpa using h6, by simpa using h7, h8⟩

/-- the hypothesis of `weight_chunk_roundtrip` cannot be dropped: with truncation a quotient of 3 is written as a
    symbol the decoder ends at 2 -/
theorem truncation_hypothesis_needed_witness :
    let s : Strm := { todo := [3] }
    (wUnaryLoop (wSyms 0 true 12 0 s {}).2.unary0 true 12 0 (wSyms 0 true 12 0 s {}).2.unary1 0 []).1.head? = some 2 := by
  decide

/-! ## chunk loop -/

/-- The chunk loop of a slice: the weight and the zero-run stream interleaved under the flow control `balance`,
    remainders written one iteration after their unary parts, a last iteration that only flushes.  For any slice
    constants (`CfgOk`: lengths consistent, quotients ≤ 2 under truncation, quotients 0 in uncompressed mode) the
    writer's fuel suffices, and the decoder's loop — with any fuel that is enough — consumes exactly the written
    bits and has collected exactly the weight indices `wv` and the zero runs `zv`. -/
theorem chunk_loop_roundtrip (e : ECfg) (wv zv : List Nat) (hc : CfgOk e wv zv) (rest : List Bool) (pos : Nat) :
    ∃ bits D', encLoop e (loopFuel wv zv) { w := { todo := wv }, z := { todo := zv } } = .ok bits ∧
      chunkLoop (toDec e) (loopFuel wv zv) {} ⟨bits ++ rest, pos⟩ = .ok (D', ⟨rest, pos + bits.length⟩) ∧
      D'.wVals.reverse = wv ∧ D'.zVals.reverse = zv := by
  refine chunkLoop_encLoop hc (loopFuel wv zv) _ {} rest pos (inv_init e wv zv) ?_
  have := pot_le_sum e.wDiv wv; have := pot_le_sum e.zDiv zv
  simp only [loopFuel]; omega

/-! ## slice -/

/-- One slice inside the decoder's slice loop: header, optional palette section, chunks.  The decoder (running with
    its own fuel) continues behind the slice with the palette of the plan, and has appended the slice's weights —
    indices mapped back through palette / direct offset, zero runs re-inserted — to its output. -/
theorem slice_roundtrip (p : PalPlan) (newPal : Bool) (wv zv : List Nat) (g : GrcCfg) (ws : List Int)
    (ubits wCfg zCfg : Nat) (hp : PalOk p) (hg : grcCfg ubits wCfg zCfg = some g)
    (hs : SliceOk p newPal wv zv g) (hd : Dec (palOf p) wv ws) :
    ∃ bits, encodeSlice wv zv p newPal ubits wCfg zCfg = .ok bits ∧
      ∀ (f : Nat) (o : Outer) (rest : List Bool) (pos : Nat),
        (newPal = false → o.first = false ∧ o.pal = palOf p ∧ (o.zPrevDiv != zdivDisable) = p.useZeroRuns) →
        ∃ o', sliceLoop (f + 1) o ⟨bits ++ rest, pos⟩ = sliceLoop f o' ⟨rest, pos + bits.length⟩ ∧
          o'.out = (sliceOut p.useZeroRuns newPal ws zv).reverse ++ o.out := by
  obtain ⟨bits, h1, h2⟩ := sliceLoop_slice hp hg hs hd
  refine ⟨bits, h1, fun f o rest pos ho => ?_⟩
  obtain ⟨o', g1, _, _, _, g5, _⟩ := h2 f o rest pos ho
  exact ⟨o', g1, g5⟩

/-- the weight index the encoder looks up in `inv_lut` is mapped back to the weight by the decoder -/
theorem index_roundtrip (p : PalPlan) (w : Int) (hp : p.lut.length ≤ 32) (h : idxOk p w = true) :
    0 ≤ invLut p w ∧ (invLut p w).toNat < 512 ∧ weightOf (palOf p) (invLut p w).toNat = .ok w :=
  invLut_spec hp (idxOk_sound h)

/-! ## the stream -/

/-- **decode ∘ write = id.**  For every weight list and every well-formed plan the writer model produces a byte
    stream (it never runs out of fuel and none of the encoder's `assert`s fails) and the reference decoder returns
    exactly the weights. -/
theorem decode_encode_plan (plan : Plan) (ws : List Int) (h : PlanOk plan ws) :
    ∃ bytes d, write plan ws = .ok bytes ∧ decode bytes = .ok d ∧ d.weights = ws := by
  obtain ⟨hr, hs⟩ := planOk_sound h
  obtain ⟨bits, d, h1, h2, h3, _, h5⟩ := decodeBits_encodeBits plan ws hr hs
  refine ⟨bitsToBytes bits, d, by unfold write; rw [h1], ?_, h3⟩
  unfold decode
  rw [bytesToBits_bitsToBytes (bits.length / 8) bits (by omega)]
  exact h2

/-- … and the written stream meets the stream Spec of `Spec/Mlw.lean` that the real encoder's output is judged by:
    lossless (no padding zeros at all at this level), a multiple of 16 bytes, nothing but the end-of-stream frame
    behind the last slice. -/
theorem write_meets_spec (plan : Plan) (ws : List Int) (h : PlanOk plan ws) :
    ∃ bytes, write plan ws = .ok bytes ∧ Lossless bytes ws ∧ Framed bytes := by
  obtain ⟨hr, hs⟩ := planOk_sound h
  obtain ⟨bits, d, h1, h2, h3, h4, h5⟩ := decodeBits_encodeBits plan ws hr hs
  have hb : bytesToBits (bitsToBytes bits) = bits := bytesToBits_bitsToBytes (bits.length / 8) bits (by omega)
  have hd : decode (bitsToBytes bits) = .ok d := by unfold decode; rw [hb]; exact h2
  refine ⟨bitsToBytes bits, by unfold write; rw [h1], ⟨d, hd, ⟨0, by simp [h3]⟩, ?_⟩, ⟨d, hd, by rw [hb]; exact h4⟩⟩
  rw [bitsToBytes_length (bits.length / 8) bits (by omega)]; omega

/-- The two halves of C07 composed (`mlw_reorder_encode` = `reorder` then `mlw_encode`): for every valid traversal
    configuration, every source volume and every well-formed plan for its reordered sequence, the written stream
    decodes to the volume in the hardware order, where that order visits each coordinate of the volume exactly once and
    everything else is zero padding (`Props/C07.lean` `reorder_covers`). -/
theorem volume_roundtrip (p : Params) (v : ValidConfig p) (src : Array Int) (expected : List Int)
    (he : reorderValues p src = some expected) (plan : Plan) (h : PlanOk plan expected) :
    Covers p (traverse p) ∧ expected.length = (traverse p).length ∧
    ∃ bytes, write plan expected = .ok bytes ∧ Lossless bytes expected ∧ Framed bytes := by
  refine ⟨⟨fun c hc => count_traverse v hc, fun c hc => traverse_sound v hc⟩, ?_, write_meets_spec plan expected h⟩
  have hr : reorder p = some (traverse p) := by
    unfold reorder Params.stepsPositive
    simp [v.iuPos, v.ouPos, v.obdPos, v.dhPos, v.dwPos]
  unfold reorderValues at he
  rw [hr] at he
  simp only [Option.bind_eq_bind, Option.bind_some] at he
  exact mapM_some_length _ _ _ he

/-- The encoder as a whole is `write (search ws) ws` for the search half `search` of `mlw_encode.c`.

    Full statement (C07, encoder part), **not** proved because the search half is not modelled:
    `∀ ws, WeightsInRange ws → ∃ bytes, write (realSearch ws) ws = .ok bytes ∧ Lossless bytes ws ∧ Framed bytes`.

    Proved: the same for *any* search function, under the one hypothesis that it only returns well-formed plans.
    Missing for the full statement: `hsearch` for the real search (`search_palette_sections`, `find_palette`,
    `search_grc_params`, merge loop of `encode_section`).  The harness evaluates `planOk` on every plan the real search
    produces in a run and compares `write` with the real bytes; no run has produced an ill-formed plan. -/
theorem encoder_lossless_partial (search : List Int → Plan)
    (hsearch : ∀ ws, WeightsInRange ws → PlanOk (search ws) ws) (ws : List Int) (hr : WeightsInRange ws) :
    ∃ bytes, write (search ws) ws = .ok bytes ∧ Lossless bytes ws ∧ Framed bytes :=
  write_meets_spec (search ws) ws (hsearch ws hr)

/-- the plan conditions are checkable: `PlanOk` is decided by the function the harness runs on every real plan -/
theorem plan_ok_decides (plan : Plan) (ws : List Int) : planOk plan ws = true ↔ PlanOk plan ws := Iff.rfl

/-! ## non-vacuity -/

/-- a plan the real encoder produced (`mlw_codec.encode([1, 2, 3, 0, 0])`: one section, palette of 4 entries,
    one uncompressed slice) is well-formed, and the model writes the real encoder's 16 bytes for it -/
def samplePlan : Plan :=
  [{ size := 5,
     pal := { lut := [0, 6, 4, 2], palbits := 3, useZeroRuns := false, onlyPalette := true, directOffset := 0,
              onlyZeros := false },
     slices := [{ len := 5, wCfg := 12, zCfg := 0 }] }]

example : PlanOk samplePlan [1, 2, 3, 0, 0] := by decide

example : (match write samplePlan [1, 2, 3, 0, 0] with
    | .ok bytes => bytes == [0x26, 0x00, 0x5c, 0x30, 0x02, 0x53, 0x1b, 0xfc, 0xff, 0xff, 0xff, 0xff, 0xff, 0xff, 0xff, 0xff]
    | .error _ => false) = true := by decide +kernel

/-- a plan with zero runs, a direct-mode (no palette) section and GRC-coded weights (`mlw_codec.encode([0, 0, 0])`) -/
def sampleZeroPlan : Plan :=
  [{ size := 3,
     pal := { lut := [], palbits := 2, useZeroRuns := true, onlyPalette := false, directOffset := 0, onlyZeros := true },
     slices := [{ len := 1, wCfg := 0, zCfg := 0 }] }]

example : PlanOk sampleZeroPlan [0, 0, 0] := by decide

/-- the empty input has the empty plan -/
example : PlanOk [] [] := by decide

/-- the uncompressed-mode condition of `PlanOk` cannot be dropped: with a palette that does not hold every weight the
    encoder's `uncompressed_bits` is 100 while the decoder derives the index width from the palette size; the writer
    succeeds but the decoder does not return the weights -/
def badPlan : Plan :=
  [{ size := 2,
     pal := { lut := [2, 4], palbits := 3, useZeroRuns := false, onlyPalette := false, directOffset := 0,
              onlyZeros := false },
     slices := [{ len := 2, wCfg := 12, zCfg := 0 }] }]

theorem uncompressed_condition_needed_witness :
    planOk badPlan [1, 2] = false ∧
    (match write badPlan [1, 2] with
     | .ok bytes => (match decode bytes with
        | .ok d => d.weights != [1, 2]
        | .error _ => true)
     | .error _ => false) = true := by
  decide +kernel

end VelaVerif.Props.C07Encode
