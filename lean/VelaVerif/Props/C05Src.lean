import VelaVerif.Lemmas.SrcNumericUtil
import VelaVerif.Model.Alloc
import VelaVerif.Gen.SrcHillclimbAllocation
/-!
# C05 (source tie) — the integer helpers of the allocators, translated from the source text, equal `Model/Alloc.lean`

`Gen/SrcNumericUtil.lean` (`round_up`, used by `greedy_allocation.alloc`, `hillclimb_allocation.allocate_lr`,
`tensor_allocation.linear_allocate_live_ranges`) and `Gen/SrcHillclimbAllocation.lean`
(`LiveRangeInfo.overlaps`, `.is_neighbour`, `.__lt__`; `self` / `lr` / `other` are records: every attribute that is
read is a parameter) are regenerated from /repo's source text on every run.  The model works over `Nat` (addresses,
sizes, times, ids are naturals); alignments are positive.
-/
namespace VelaVerif.Props.C05Src
open VelaVerif VelaVerif.PyRt VelaVerif.Alloc
open VelaVerif.Gen.SrcNumericUtil VelaVerif.Gen.SrcHillclimbAllocation

/-- close `ok b₁ = ok b₂` for two boolean combinations of linear comparisons that are equivalent (in whatever order the
    source writes the conjuncts) -/
local macro "bool_omega" : tactic =>
  `(tactic| (
    repeat' py_split1       -- a conjunct with an effect (`addr2 + size2`) after the first keeps Python's short-circuit: an `if`
    all_goals first
      | rfl
      | (congr 1; rw [Bool.eq_iff_iff];
         simp only [Bool.and_eq_true, Bool.or_eq_true, decide_eq_true_eq, Bool.false_eq_true, false_iff, iff_false]; omega)))

/-- `numeric_util.round_up(a, b)` = `Alloc.roundUp a b` for natural `a`, positive alignment `b` -/
theorem src_round_up_eq_model (a b : Nat) (hb : 0 < b) :
    round_up (.py a) (.py b) = .ok (.py (roundUp a b : Nat)) :=
  SrcNumericUtil.round_up_nat a b hb

/-- the hypothesis is needed: a zero alignment raises `ZeroDivisionError`, the totalised model returns 0 -/
theorem src_round_up_zero_witness : round_up (.py 7) (.py 0) = .error .zerodiv ∧ roundUp 7 0 = 0 :=
  ⟨SrcNumericUtil.round_up_zero 7, by decide⟩

/-- `lr2.overlaps(address, lr.size)` is the address test of `Alloc.lrPass` (`a2 < s.1 + size ∧ s.1 < d.endAddr`,
    `a2 = lr2.address`, `d.endAddr = lr2.end_address`): all naturals -/
theorem src_overlaps_eq_model (a2 endAddr addr size : Nat) :
    LiveRangeInfo__overlaps (.py addr) (.py size) (.py a2) (.py endAddr) =
      .ok (decide (a2 < addr + size ∧ addr < endAddr)) := by
  py_exec [LiveRangeInfo__overlaps]
  bool_omega

/-- `self.is_neighbour(lr)` is the test `isNb` of `Alloc.bottleneckFix`
    (`decide (mxLr.start ≤ lr.end_) && decide (lr.start ≤ mxLr.end_)`): all naturals -/
theorem src_is_neighbour_eq_model (a b : LR) :
    LiveRangeInfo__is_neighbour (.py b.end_) (.py b.start) (.py a.end_) (.py a.start) =
      .ok (decide (a.start ≤ b.end_) && decide (b.start ≤ a.end_)) := by
  py_exec [LiveRangeInfo__is_neighbour]
  bool_omega

/-- … and `Alloc.timeOverlap` (what `neighboursOf` and the Spec read) when neither range is inverted -/
theorem src_is_neighbour_eq_timeOverlap (a b : LR) (ha : a.start ≤ a.end_) (hb : b.start ≤ b.end_) :
    LiveRangeInfo__is_neighbour (.py b.end_) (.py b.start) (.py a.end_) (.py a.start) = .ok (timeOverlap a b) := by
  rw [src_is_neighbour_eq_model]
  congr 1
  unfold timeOverlap
  rw [Bool.eq_iff_iff]
  simp only [Bool.and_eq_true, decide_eq_true_eq]
  omega

/-- the hypothesis is needed: for an inverted range (`start > end`, a live range that was never marked) `is_neighbour`
    says `True` where `max(starts) ≤ min(ends)` says `False` -/
theorem src_is_neighbour_inverted_witness :
    LiveRangeInfo__is_neighbour (.py 6) (.py 2) (.py 3) (.py 5) = .ok true ∧
      timeOverlap ⟨5, 3, 0, 1, 0, 0⟩ ⟨2, 6, 0, 1, 1, 1⟩ = false := by
  refine ⟨?_, by decide⟩
  py_exec [LiveRangeInfo__is_neighbour]

/-- `LiveRangeInfo.__lt__` = `Alloc.infoLe` on live ranges with distinct ids (the ids are list positions) -/
theorem src_lt_eq_model (a b : Info) (hid : a.lr.id ≠ b.lr.id) :
    LiveRangeInfo____lt__ (.py b.lr.end_) (.py b.lr.id) (.py b.lr.size) (.py b.lr.start) (.py b.urgency)
      (.py a.lr.end_) (.py a.lr.id) (.py a.lr.size) (.py a.lr.start) (.py a.urgency) = .ok (infoLe a b) := by
  py_exec [LiveRangeInfo____lt__, infoLe]
  simp only [Int.natCast_inj]
  repeat' split
  all_goals first | rfl | (congr 1; rw [Bool.eq_iff_iff]; simp only [decide_eq_true_eq]; omega)

end VelaVerif.Props.C05Src
