import VelaVerif.Lemmas.Constraints
import VelaVerif.Lemmas.ConstraintsExamples
import VelaVerif.Lemmas.UnchangedOnCpu
import VelaVerif.Lemmas.Placement
/-!
# C16 — operators within the documented constraints are accelerated, others stay on the CPU

Property theorems only.  Model: `Model/Constraints.lean` (transcription of `tflite_supported_operators.py`
and `tflite_model_semantic.py`), Spec: `Spec/Constraints.lean` (reading of the report text), helper
lemmas: `Lemmas/Constraints.lean`.  Every table (`Gen/Constraints.lean`) is regenerated on each run
from the live `TFLiteSupportedOperators()` / `TFLiteSemantic()` objects, from the report the real
generator writes, and from the committed SUPPORTED_OPS.md; every `decide` below is therefore
re-checked by the kernel against what the code says now.

What is *not* a theorem (level "other"): that the Python functions behave like the model (validated by
the correspondence run of `harness/check_C16.py` on stub operators inside / just outside every range),
and that placement after graph optimisation, pass packing and subgraph extraction follows the
per-operator verdict (observed on compiled networks).
-/
namespace VelaVerif.Props.C16
open VelaVerif.Gen.Constraints VelaVerif.Constraints VelaVerif.Constraints.Spec VelaVerif.Constraints.Examples

/-! ## The report lists exactly the constraint set the compiler enforces -/

/-- summary table = the TFLite operators whose internal type is in `supported_operators`, with a
    "Specific" link exactly when either checker holds a specific list for it -/
theorem report_table_matches : tableProblems freshReport = [] := by decide +kernel

/-- generic bullets = semantic generic list then supported generic list (by docstring), and the bracketed
    exclusions of each = the operators whose exception / exclude entry names that constraint -/
theorem report_generic_matches : genericProblems freshReport = [] := by decide +kernel

/-- For every operator of the report: the bullets listed for it (generic bullets that do not exclude it,
    then its own section) are, in order, the docstrings of
    `generic − exceptions` (semantic, supported) followed by the specific lists (semantic, supported)
    that the live objects walk for its internal type. -/
theorem report_lists_match : listProblems freshReport = [] := by decide +kernel

/-- the Spec reads every docstring of both classes as the constraint function it belongs to -/
theorem report_sentences_read : sentenceProblems = [] := by decide +kernel

/-- every bound and enumeration printed in the report equals the value the checks use: the twelve
    ranges/limits and eight sets of the live classes, and the literals of the function bodies
    (depthwise stride 1..3, conv stride bounds, 40 bits, depth 127, rank 4, …) as transcribed -/
theorem report_bounds_match : boundProblems freshReport = [] := by decide +kernel

/-- the remaining numerals of the docstrings are the literals the model uses -/
theorem report_literals_match : literalProblems = [] := by decide +kernel

/-- **report_matches_table.** The constraint list per operator parsed from the generated report is the
    list the live objects enforce, and every number in the text is the table value. -/
theorem report_matches_table : reportProblems freshReport = [] := by
  simp only [reportProblems, report_table_matches, report_generic_matches, report_lists_match,
    report_sentences_read, report_bounds_match, report_literals_match, List.append_nil]

/-- The committed SUPPORTED_OPS.md is the report this tree generates (same table rows, generic bullets with their
    exclusions, and per-operator sections).  (Was `committed_report_matches_partial` while the committed file lacked
    GELU/LOG/SQRT and still listed a PAD sentence the code had dropped.) -/
theorem committed_report_matches : reportDrift committedReport freshReport = [] := by decide +kernel

/-! ## The model of the two checkers returns "NPU" iff every listed constraint holds -/

/-- **supported_iff_all.** `is_operator_supported` accepts exactly when the type is a supported one and
    every listed generic (minus exceptions) and specific constraint evaluates to true. -/
theorem supported_iff_all (d : OpDesc) :
    isOperatorSupported d = .npu ↔
      (opSet supOpSets n!"supported_operators").contains d.type = true ∧
      ∀ c ∈ supListed d.type, evalIn supPreds liveParams c d = .ok true := by
  unfold isOperatorSupported
  by_cases h : (opSet supOpSets n!"supported_operators").contains d.type = true
  · simp [h, walk_npu_iff]
  · simp [h]

theorem semantic_iff_all (d : OpDesc) (h : irOnly d.type = false) :
    isOperatorSemanticValid d = .npu ↔ ∀ c ∈ semListed d.type, evalIn semPreds liveParams c d = .ok true := by
  unfold isOperatorSemanticValid
  simp [h, walk_npu_iff]

/-- `run_on_npu` after the pre-processing pass: both checkers accept -/
theorem run_on_npu_iff (d : OpDesc) :
    runOnNpu d = .npu ↔ isOperatorSemanticValid d = .npu ∧ isOperatorSupported d = .npu := by
  unfold runOnNpu
  cases h : isOperatorSemanticValid d <;> simp

/-- what "listed" means: generic constraints whose name is not in the operator's exception list, plus
    the operator's specific list -/
theorem listed_iff (ty c : Name) :
    c ∈ supListed ty ↔
      (c ∈ supGeneric ∧ (lookup supExceptions ty).contains c = false) ∨ c ∈ lookup supSpecific ty :=
  mem_listedWith _ _ _ _ _

/-- a CPU verdict names a listed constraint that is violated, all earlier ones holding: an operator is
    never sent to the CPU by the constraint walk without a listed constraint being false -/
theorem cpu_names_violated (d : OpDesc) (c : Name) (h : isOperatorSupported d = .cpu c) (hc : c ≠ []) :
    c ∈ supListed d.type ∧ evalIn supPreds liveParams c d = .ok false := by
  unfold isOperatorSupported at h
  by_cases hs : (opSet supOpSets n!"supported_operators").contains d.type = true
  · simp [hs] at h
    obtain ⟨pre, post, e, hf, _⟩ := walk_cpu _ _ _ _ _ h
    exact ⟨by rw [e]; simp, hf⟩
  · simp [hs] at h
    exact absurd h hc

/-! ## Non-vacuity: for each modelled operator type the listed constraints are satisfiable, and the
    report says the same of that descriptor -/

set_option maxRecDepth 100000

example : (accepted.map fun (_, d) => runOnNpu d) = accepted.map fun _ => Verdict.npu := by decide +kernel
example : (accepted.map fun (_, d) => documented freshReport d) = accepted.map fun _ => DocVerdict.npu := by
  decide +kernel
example : accepted.length = 31 := by decide
example : supListed n!"Conv2DBias" ≠ [] ∧ semListed n!"Conv2DBias" ≠ [] := by decide +kernel

-- and violations are detected with the constraint named
example : isOperatorSupported badConvStride4 = .cpu n!"constraint_stride_width_no_upper_limit" := by decide +kernel
example : isOperatorSupported badConvBatch2 = .cpu n!"constraint_batch_size" := by decide +kernel
example : isOperatorSupported badMaxPoolStride4 = .cpu n!"constraint_stride_range" := by decide +kernel
example : isOperatorSemanticValid badAddNoQuant = .cpu n!"constraint_tens_quant_none_check" := by decide +kernel
example : isOperatorSupported badConvBias41 = .cpu n!"constraint_bias_40bit" := by decide +kernel

/-- Witness for repair C13-27 (`constraint_bias_40bit`): the criterion the unrepaired code used, `len(bin(v)[2:]) <= 40`
    (`Sup.binLen`), accepts 2^39 - which is outside the signed 40-bit range `encode_bias` asserts - and rejects -2^39,
    which is inside it. The model (`Sup.bias_40bit`) uses the signed range `Sup.fitsSigned`. -/
theorem bias_digit_count_criterion_witness :
    Sup.binLen (2 ^ 39) ≤ 40 ∧ Sup.fitsSigned 40 (2 ^ 39) = false ∧
    40 < Sup.binLen (-(2 ^ 39)) ∧ Sup.fitsSigned 40 (-(2 ^ 39)) = true := by decide +kernel


/-! ## Pipeline level: every source operator is accounted for exactly once, where the report says

`Spec/Placement.lean` computes, from the source file and the output file as the plain flatbuffer walk sees them, the
fate of every source operator (C11's counting: `matchTable`, `absorbs`, `foldable`, `reach`) and judges it against the
documented placement; `check_C16.py` applies it to every operator of every compiled network.  The theorems say what an
accepted judgement means.  (That the compiler always produces accepted outputs is observed, not proved.) -/

open VelaVerif.Preserve VelaVerif.Placement in
/-- **accounted_exactly_once.** `accounted` holds exactly when the source operator is in one place:
    kept once on the CPU and in no Ethos-U slice, or in an Ethos-U slice and not kept, or in neither *and* a
    compile-time constant or dead code. -/
theorem accounted_exactly_once (src : PGraph) (table : List (Nat × Nat)) (abs : List Absorb) (j : Nat) :
    (fate src table abs j).accounted = true ↔
      (matchCount table j = 1 ∧ isAbsorbed abs j = false) ∨
      (matchCount table j = 0 ∧ isAbsorbed abs j = true) ∨
      (matchCount table j = 0 ∧ isAbsorbed abs j = false ∧
        ((foldable src).contains j = true ∨ (reach src).contains j = false)) := by
  unfold fate
  simp only
  split
  · rename_i h
    simp only [Fate.accounted]
    constructor
    · intro h'; cases h'
    · rintro (⟨h', _⟩ | ⟨h', _⟩ | ⟨h', _⟩) <;> omega
  · split
    · rename_i h1
      have h1' : matchCount table j = 1 := by simpa using h1
      cases ha : isAbsorbed abs j <;> simp [h1', Fate.accounted]
    · rename_i h0 h1
      have h1' : matchCount table j ≠ 1 := by simpa using h1
      have hz : matchCount table j = 0 := by omega
      cases ha : isAbsorbed abs j <;> cases hf : (foldable src).contains j <;> cases hr : (reach src).contains j <;>
        simp [hz, Fate.accounted]

open VelaVerif.Preserve VelaVerif.Placement in
/-- **placement_judged_sound.** If position `j` of the judgement list is `true`, source operator `j` is accounted for
    exactly once and where the report says: documented `npu` ⇒ no operator of the output file that is not an
    Ethos-U operator carries its result names (and it lies in an Ethos-U slice, or is a compile-time constant, or is
    dead code); documented `cpu` / not listed ⇒ exactly one such operator does and no Ethos-U slice contains it (or it is
    dead code that disappeared). -/
theorem placement_judged_sound (src out : PGraph) (preds : List String) (j : Nat) (hj : j < src.ops.length)
    (h : (judgeAll preds (fates src out))[j]? = some true) :
    let m := matchCount (matchTable src out) j
    let a := isAbsorbed (absorbs src out) j
    ((m = 1 ∧ a = false) ∨ (m = 0 ∧ a = true) ∨
      (m = 0 ∧ a = false ∧ ((foldable src).contains j = true ∨ (reach src).contains j = false))) ∧
    (preds.getD j "-" = "npu" → m = 0) ∧
    ((preds.getD j "-" = "cpu" ∨ preds.getD j "-" = "silent") →
      (m = 1 ∧ a = false) ∨ (m = 0 ∧ a = false ∧ (reach src).contains j = false)) := by
  intro m a
  rw [judgeAll_getElem? preds _ j _ (fates_getElem? src out j hj)] at h
  have hjd := judge_sound _ _ (Option.some.inj h)
  have hacc := (accounted_exactly_once src (matchTable src out) (absorbs src out) j).mp hjd.1
  refine ⟨hacc, ?_, ?_⟩
  · intro hp
    have hne := hjd.2.1 hp
    rcases hacc with ⟨h1, h2⟩ | ⟨h1, _⟩ | ⟨h1, _⟩
    · exact absurd ((fate_cpu_iff _ _ _ _).mpr ⟨h1, h2⟩) hne
    · exact h1
    · exact h1
  · intro hp
    rcases hjd.2.2 hp with hc | hd
    · exact Or.inl ((fate_cpu_iff _ _ _ _).mp hc)
    · right
      -- dead: unfold
      unfold fate at hd
      simp only at hd
      repeat (split at hd <;> try cases hd)
      rename_i h0 h1 h2 h3 h4
      have h1' : matchCount (matchTable src out) j ≠ 1 := by simpa using h1
      refine ⟨by omega, by simpa using h2, by simpa using h4⟩

open VelaVerif.Preserve VelaVerif.Placement in
/-- **cpu_resident_verbatim.** When the structural scan reports nothing, every pair of the match table is a
    CPU-resident operator of the output file together with *the* source operator producing tensors of the same names,
    and the two are equal in builtin code, custom code, version, option fields, custom options, operand wiring
    (name, shape, type, quantisation, constant data of every operand) and results (`opProblems = []`). -/
theorem cpu_resident_verbatim (src out : PGraph) (h : matchProblems src out = []) (k j : Nat)
    (hm : (k, j) ∈ matchTable src out) :
    ∃ sop oop, src.ops[j]? = some sop ∧ out.ops[k]? = some oop ∧ isEthosU oop = false ∧
      outKey src sop = outKey out oop ∧ opProblems src out k sop oop = [] ∧
      ∀ j' sop', src.ops[j']? = some sop' → outKey src sop' = outKey out oop → j' = j := by
  unfold matchTable at hm
  simp only [List.mem_filterMap, Prod.exists] at hm
  obtain ⟨oop, k', hmem, hv⟩ := hm
  have hk : out.ops[k']? = some oop := List.mem_zipIdx_iff_getElem?.mp hmem
  cases he : isEthosU oop with
  | true => simp [he] at hv
  | false =>
    simp only [he, Bool.false_eq_true, if_false, Option.map_eq_some_iff] at hv
    obtain ⟨j0, hmo, hpair⟩ := hv
    have hkk : k' = k := (Prod.mk.inj hpair).1
    have hjj : j0 = j := (Prod.mk.inj hpair).2
    subst hkk; subst hjj
    unfold matchOf at hmo
    split at hmo
    · rename_i j1 hc
      have hj1 : j1 = j0 := Option.some.inj hmo
      subst hj1
      have hmemc : j1 ∈ candidates src out oop := by rw [hc]; exact List.mem_singleton.mpr rfl
      obtain ⟨sop, hs, hkey⟩ := (mem_candidates src out oop j1).mp hmemc
      -- the problems of this output operator are empty
      unfold matchProblems at h
      rw [List.append_eq_nil_iff, List.flatMap_eq_nil_iff] at h
      have hp := h.1 (oop, k') hmem
      simp only [he, Bool.false_eq_true, if_false, hc, hs] at hp
      refine ⟨sop, oop, hs, hk, he, hkey, hp, ?_⟩
      intro j' sop' hs' hk'
      have : j' ∈ candidates src out oop := (mem_candidates src out oop j').mpr ⟨sop', hs', hk'⟩
      rw [hc] at this
      exact List.mem_singleton.mp this
    · cases hmo

open VelaVerif.Preserve VelaVerif.Placement in
/-- a vanished operator (nowhere in the output although an output depends on it) is rejected whatever the report
    predicts; so is one that is both kept and absorbed, or kept twice -/
theorem unaccounted_rejected (pred : String) (f : Fate) (h : f = .lost ∨ f = .both ∨ f = .twice) : judge pred f = false := by
  rcases h with rfl | rfl | rfl <;> simp [judge, Fate.accounted]

/-! non-vacuity on the witness of seeded change round 3 m2 (CONV_2D stride 4 -> TANH): the output of the unchanged
    compiler is accepted with fates [cpu, npu]; the seeded output ("fused": CONV_2D writes z, TANH gone) is rejected on
    both operators and by the structural scan; a wrong documented placement is rejected on the clean output too -/
open VelaVerif.Preserve VelaVerif.Placement in
example : (report demoSrc demoOut).pre = [] ∧ (report demoSrc demoOut).problems = [] ∧
    (report demoSrc demoOut).fates = [.cpu, .npu] ∧
    judgeAll ["cpu", "npu"] (report demoSrc demoOut).fates = [true, true] ∧
    judgeAll ["npu", "npu"] (report demoSrc demoOut).fates = [false, true] ∧
    judgeAll ["cpu", "cpu"] (report demoSrc demoOut).fates = [true, false] := by decide +kernel
open VelaVerif.Preserve VelaVerif.Placement in
example : (report demoSrc demoOutFused).fates = [.lost, .cpu] ∧
    judgeAll ["cpu", "npu"] (report demoSrc demoOutFused).fates = [false, false] ∧
    ((report demoSrc demoOutFused).problems.map (·.kind)).contains "operator-lost" = true ∧
    ((report demoSrc demoOutFused).problems.map (·.kind)).contains "builtin-code" = true := by decide +kernel
open VelaVerif.Preserve VelaVerif.Placement in
example : (report demoSrc { demoOut with ops := demoOut.ops ++ demoOut.ops.take 1 }).fates = [.twice, .npu] := by decide +kernel
open VelaVerif.Preserve VelaVerif.Placement in
example : (judgeAll ["cpu", "npu"] (fates demoSrc demoOut))[1]? = some true := by decide +kernel


end VelaVerif.Props.C16
