import VelaVerif.Lemmas.Constraints
import VelaVerif.Lemmas.ConstraintsExamples
import VelaVerif.Lemmas.UnchangedOnCpu
/-!
# C16 — operators within the documented constraints are accelerated, others stay on the CPU

Property theorems only.  Model: `Model/Constraints.lean` (transcription of `tflite_supported_operators.py`
and `tflite_model_semantic.py`), Spec: `Spec/Constraints.lean` (reading of the report text), helper
lemmas: `Lemmas/Constraints.lean`.  Every table (`Gen/Constraints.lean`) is regenerated on each run
from the live `TFLiteSupportedOperators()` / `TFLiteSemantic()` objects, from the report the real
generator writes, and from the committed SUPPORTED_OPS.md; every `decide` below is therefore
re-checked by the kernel against what the code says now.

What is *not* a theorem (level "other"): that the Python functions behave like the model (validated by
the correspondence run of `harness/check_C16.py` on stub operators inside / just outside every range),
and that placement after graph optimisation, pass packing and subgraph extraction follows the
per-operator verdict (observed on compiled networks).
-/
namespace VelaVerif.Props.C16
open VelaVerif.Gen.Constraints VelaVerif.Constraints VelaVerif.Constraints.Spec VelaVerif.Constraints.Examples

/-! ## The report lists exactly the constraint set the compiler enforces -/

/-- summary table = the TFLite operators whose internal type is in `supported_operators`, with a
    "Specific" link exactly when either checker holds a specific list for it -/
theorem report_table_matches : tableProblems freshReport = [] := by decide +kernel

/-- generic bullets = semantic generic list then supported generic list (by docstring), and the bracketed
    exclusions of each = the operators whose exception / exclude entry names that constraint -/
theorem report_generic_matches : genericProblems freshReport = [] := by decide +kernel

/-- For every operator of the report: the bullets listed for it (generic bullets that do not exclude it,
    then its own section) are, in order, the docstrings of
    `generic − exceptions` (semantic, supported) followed by the specific lists (semantic, supported)
    that the live objects walk for its internal type. -/
theorem report_lists_match : listProblems freshReport = [] := by decide +kernel

/-- the Spec reads every docstring of both classes as the constraint function it belongs to -/
theorem report_sentences_read : sentenceProblems = [] := by decide +kernel

/-- every bound and enumeration printed in the report equals the value the checks use: the twelve
    ranges/limits and eight sets of the live classes, and the literals of the function bodies
    (depthwise stride 1..3, conv stride bounds, 40 bits, depth 127, rank 4, …) as transcribed -/
theorem report_bounds_match : boundProblems freshReport = [] := by decide +kernel

/-- the remaining numerals of the docstrings are the literals the model uses -/
theorem report_literals_match : literalProblems = [] := by decide +kernel

/-- **report_matches_table.** The constraint list per operator parsed from the generated report is the
    list the live objects enforce, and every number in the text is the table value. -/
theorem report_matches_table : reportProblems freshReport = [] := by
  simp only [reportProblems, report_table_matches, report_generic_matches, report_lists_match,
    report_sentences_read, report_bounds_match, report_literals_match, List.append_nil]

/-- The committed SUPPORTED_OPS.md is the report this tree generates (same table rows, generic bullets with their
    exclusions, and per-operator sections).  (Was `committed_report_matches_partial` while the committed file lacked
    GELU/LOG/SQRT and still listed a PAD sentence the code had dropped.) -/
theorem committed_report_matches : reportDrift committedReport freshReport = [] := by decide +kernel

/-! ## The model of the two checkers returns "NPU" iff every listed constraint holds -/

/-- **supported_iff_all.** `is_operator_supported` accepts exactly when the type is a supported one and
    every listed generic (minus exceptions) and specific constraint evaluates to true. -/
theorem supported_iff_all (d : OpDesc) :
    isOperatorSupported d = .npu ↔
      (opSet supOpSets n!"supported_operators").contains d.type = true ∧
      ∀ c ∈ supListed d.type, evalIn supPreds liveParams c d = .ok true := by
  unfold isOperatorSupported
  by_cases h : (opSet supOpSets n!"supported_operators").contains d.type = true
  · simp [h, walk_npu_iff]
  · simp [h]

theorem semantic_iff_all (d : OpDesc) (h : irOnly d.type = false) :
    isOperatorSemanticValid d = .npu ↔ ∀ c ∈ semListed d.type, evalIn semPreds liveParams c d = .ok true := by
  unfold isOperatorSemanticValid
  simp [h, walk_npu_iff]

/-- `run_on_npu` after the pre-processing pass: both checkers accept -/
theorem run_on_npu_iff (d : OpDesc) :
    runOnNpu d = .npu ↔ isOperatorSemanticValid d = .npu ∧ isOperatorSupported d = .npu := by
  unfold runOnNpu
  cases h : isOperatorSemanticValid d <;> simp

/-- what "listed" means: generic constraints whose name is not in the operator's exception list, plus
    the operator's specific list -/
theorem listed_iff (ty c : Name) :
    c ∈ supListed ty ↔
      (c ∈ supGeneric ∧ (lookup supExceptions ty).contains c = false) ∨ c ∈ lookup supSpecific ty :=
  mem_listedWith _ _ _ _ _

/-- a CPU verdict names a listed constraint that is violated, all earlier ones holding: an operator is
    never sent to the CPU by the constraint walk without a listed constraint being false -/
theorem cpu_names_violated (d : OpDesc) (c : Name) (h : isOperatorSupported d = .cpu c) (hc : c ≠ []) :
    c ∈ supListed d.type ∧ evalIn supPreds liveParams c d = .ok false := by
  unfold isOperatorSupported at h
  by_cases hs : (opSet supOpSets n!"supported_operators").contains d.type = true
  · simp [hs] at h
    obtain ⟨pre, post, e, hf, _⟩ := walk_cpu _ _ _ _ _ h
    exact ⟨by rw [e]; simp, hf⟩
  · simp [hs] at h
    exact absurd h hc

/-! ## Non-vacuity: for each modelled operator type the listed constraints are satisfiable, and the
    report says the same of that descriptor -/

set_option maxRecDepth 100000

example : (accepted.map fun (_, d) => runOnNpu d) = accepted.map fun _ => Verdict.npu := by decide +kernel
example : (accepted.map fun (_, d) => documented freshReport d) = accepted.map fun _ => DocVerdict.npu := by
  decide +kernel
example : accepted.length = 31 := by decide
example : supListed n!"Conv2DBias" ≠ [] ∧ semListed n!"Conv2DBias" ≠ [] := by decide +kernel

-- and violations are detected with the constraint named
example : isOperatorSupported badConvStride4 = .cpu n!"constraint_stride_width_no_upper_limit" := by decide +kernel
example : isOperatorSupported badConvBatch2 = .cpu n!"constraint_batch_size" := by decide +kernel
example : isOperatorSupported badMaxPoolStride4 = .cpu n!"constraint_stride_range" := by decide +kernel
example : isOperatorSemanticValid badAddNoQuant = .cpu n!"constraint_tens_quant_none_check" := by decide +kernel
example : isOperatorSupported badConvBias41 = .cpu n!"constraint_bias_40bit" := by decide +kernel


end VelaVerif.Props.C16
