import VelaVerif.Props.C12Serial
import VelaVerif.Props.C17
import VelaVerif.Lemmas.RawOutput
/-!
# C17 / C12 / C02 — the raw output (`rawdata_writer.write_rawdata_output`, the `.npz`)

Model: `Model/RawOutput.lean` over the memory tensors of `Model/Serialise.lean`.  Spec: `Spec/RawOutput.lean`.
All statements are over unbounded inputs; allocation facts enter as hypotheses in the form `Props/C05` proves them (every placed
range ends below the total of the call that placed it), exactly as in `Props/C12Serial.scratch_spans_arena`.
-/
namespace VelaVerif.Props.C12Raw
open VelaVerif VelaVerif.Serialise VelaVerif.Reported VelaVerif.RawOutput

/-! ## (a) the payload -/

/-- **raw_payload_is_tflite_payload**.  For every NPU subgraph the serialiser accepts: its command-stream tensor `c` holds the
    driver payload of the subgraph's register command stream; `tflite_writer` stores exactly these bytes in the buffer of the
    tensor (it is not an arena tensor) and publishes their number as the tensor's size; and whatever the other operands are,
    the raw writer, given the call operator whose operand 0 is `c` (`custom_op_inputs_order`), writes the same bytes as
    `cmd_data`.  Both output formats carry one byte string. -/
theorem raw_payload_is_tflite_payload (arch : Arch) (sg : Sg) (s q f : Option MemTensor) (r : Result) (hnpu : sg.isNpu = true)
    (h : serialise arch sg s q f = .ok r) :
    ∃ c payload, r.cmd = some c ∧ Payload.createDriverPayload arch.acc sg.words = .ok payload ∧
      tfliteBuffer c = some payload ∧ tfliteBytes c = payload.length ∧
      ∀ (w sc fa : OpTensor) (ins outs : List OpTensor) (z : Npz),
        writeRaw arch (ofMem c :: w :: sc :: fa :: ins) outs = .ok z → z.cmdData = some payload ∧ z.cmdData = tfliteBuffer c := by
  obtain ⟨payload, hp, hc⟩ := serialise_cmd arch sg s q f r hnpu h
  refine ⟨_, payload, hc, hp, rfl, rfl, ?_⟩
  intro w sc fa ins outs z hz
  have := (writeRaw_ok arch _ w sc fa ins outs z hz).1
  exact ⟨this, this⟩

/-- ... and `cmd_data` parses (C17): with 32-bit command words, below the driver's length limit, on a known accelerator, the
    Spec parser reads back the configuration of the accelerator, a 16-byte aligned start, the exact declared count and the
    command words unmodified. -/
theorem raw_cmd_data_parses (arch : Arch) (sg : Sg) (s q f : Option MemTensor) (r : Result) (hnpu : sg.isNpu = true)
    (h : serialise arch sg s q f = .ok r) (hacc : arch.acc ∈ Gen.accelerators) (hw : ∀ w ∈ sg.words, w < 2 ^ 32)
    (c : MemTensor) (hc : r.cmd = some c) (w sc fa : OpTensor) (ins outs : List OpTensor) (z : Npz)
    (hz : writeRaw arch (ofMem c :: w :: sc :: fa :: ins) outs = .ok z) :
    ∃ bytes p, z.cmdData = some bytes ∧ Payload.parsePayload bytes = some p ∧ p.configWord = Payload.buildConfigWord arch.acc ∧
      p.idWord = Payload.buildIdWord ∧ p.cmdOffsetBytes % 16 = 0 ∧ p.declared = sg.words.length ∧ p.cmds = sg.words := by
  obtain ⟨c', payload, hc', hp, _, _, hall⟩ := raw_payload_is_tflite_payload arch sg s q f r hnpu h
  rw [hc] at hc'
  cases hc'
  have hlen : sg.words.length < 2 ^ 24 := by
    rcases Nat.lt_or_ge sg.words.length (2 ^ 24) with hlt | hge
    · exact hlt
    · rw [Props.C17.payload_rejects_big arch.acc sg.words hge] at hp
      cases hp
  obtain ⟨bytes, out, hb, ho, hbl, hfrom⟩ := Props.C17.payload_bytes_roundtrip arch.acc sg.words hlen hw hacc
  obtain ⟨out', p, ho', hparse, h1, h2, h3, h4, h5⟩ := Props.C17.payload_parses arch.acc sg.words hlen
  rw [ho] at ho'
  cases ho'
  have hbp : bytes = payload := by rw [hb] at hp; exact Except.ok.inj hp
  subst hbp
  refine ⟨bytes, p, (hall w sc fa ins outs z hz).1, ?_, h1, h2, h3, h4, h5⟩
  unfold Payload.parsePayload
  rw [if_neg (by rw [hbl]; omega), hfrom]
  exact hparse

/-! ## (b) the sizes -/

/-- **raw_scratch_ge_extent**.  `calls` = the recorded `allocate_tensors` calls on the root subgraph; `s'`, `q'` = the scratch
    and fast-scratch tensors after "Set Scratch and Fast_scratch Tensor size".  The raw writer publishes `scratch_shape =
    [shape[0]]` of the scratch tensor — the number the TFLite output publishes as the byte size of the arena tensor —, in region
    1, and that number is at least the end of EVERY range placed by a recorded call whose memory-type set contains Scratch (C05:
    each range ends below the call's total).  The same for `scratch_fast_shape` (region 2 with dedicated fast memory, else
    region 1). -/
theorem raw_scratch_ge_extent (arch : Arch) (calls : List AllocCall) (s q : MemTensor) (hs : s.memType = .scratch)
    (hq : q.memType = .scratchFast) :
    ∃ s' q', finalSizes (books calls).perType (some s) (some q) = (some s', some q') ∧
      ∀ (c w : OpTensor) (ins outs : List OpTensor) (z : Npz), writeRaw arch (c :: w :: ofMem s' :: ofMem q' :: ins) outs = .ok z →
        z.scratchShape = [tfliteBytes s'] ∧ z.scratchFastShape = [tfliteBytes q'] ∧
        z.scratchRegion = 1 ∧ z.scratchFastRegion = (if arch.spilling then 2 else 1) ∧
        (∀ call ∈ calls, call.recorded = true → MemType.scratch ∈ call.types → ∀ addr size, addr + size ≤ call.total →
          addr + size ≤ tfliteBytes s') ∧
        (∀ call ∈ calls, call.recorded = true → MemType.scratchFast ∈ call.types → ∀ addr size, addr + size ≤ call.total →
          addr + size ≤ tfliteBytes q') := by
  obtain ⟨s', q', hfin, _, _, _, _, hS, hQ⟩ := Props.C12Serial.scratch_spans_arena calls s q hs hq
  refine ⟨s', q', hfin, ?_⟩
  intro c w ins outs z hz
  obtain ⟨_, _, hss, hfs, _, hsr, hfr, _, _⟩ := writeRaw_ok arch c w _ _ ins outs z hz
  have hs' : s'.memType = .scratch := by
    simp only [finalSizes, Option.map_some, Prod.mk.injEq, Option.some.injEq] at hfin
    rw [← hfin.1]; exact hs
  have hq' : q'.memType = .scratchFast := by
    simp only [finalSizes, Option.map_some, Prod.mk.injEq, Option.some.injEq] at hfin
    rw [← hfin.2]; exact hq
  simp only [ofMem, hs', hq', getRegion, Option.some.injEq] at hsr hfr
  exact ⟨hss, hfs, hsr.symm, hfr.symm, hS, hQ⟩

/-! ## (c) the listed inputs and outputs -/

def sizesOf (z : Npz) : Spec.RawOutput.RawSizes :=
  { scratchRegion := z.scratchRegion, scratchShape := z.scratchShape, fastRegion := z.scratchFastRegion, fastShape := z.scratchFastShape }

/-- the entry the file holds for tensor `t` listed with region `r` -/
def entry (r : Nat) (t : OpTensor) : Spec.RawOutput.RawIo := { region := r, offset := t.address, elemSize := t.elemSize, shape := t.shape }

/-- **raw_io_offsets_inside_scratch**.  Setting of `raw_scratch_ge_extent`; `ins` / `outs` = the real inputs (operands 4…) and
    the results of the call operator.  Hypotheses: `hplaced` every listed tensor of an arena memory type has an address, given
    by a recorded allocation call whose type set contains its memory type, and `address + storage_size()` is below that call's
    total (C05); `hbytes` the bytes a user of the file computes, `prod(shape) * elem_size`, do not exceed `storage_size()`
    (linear NHWC storage, rounded up); `hjoint` without dedicated fast memory the fast-scratch tensors are allocated by the
    call that allocates the arena (one joint call).  Then the file lists, per direction and in operand order, the tensor's own
    shape, element size, `get_region` of its memory type and its address, and every listed tensor satisfies the Spec clause
    `Spec.RawOutput.Inside`: in an arena region it has an offset and `offset + prod(shape) * elem_size ≤` the published size of
    the buffer that region is mapped to. -/
theorem raw_io_offsets_inside_scratch (arch : Arch) (calls : List AllocCall) (s q s' q' : MemTensor) (hs : s.memType = .scratch)
    (hq : q.memType = .scratchFast) (hfin : finalSizes (books calls).perType (some s) (some q) = (some s', some q'))
    (c w : OpTensor) (ins outs : List OpTensor) (z : Npz)
    (hz : writeRaw arch (c :: w :: ofMem s' :: ofMem q' :: ins) outs = .ok z)
    (storage : OpTensor → Nat)
    (hplaced : ∀ t ∈ ins ++ outs, t.memType = .scratch ∨ t.memType = .scratchFast →
      ∃ a call, t.address = some a ∧ call ∈ calls ∧ call.recorded = true ∧ t.memType ∈ call.types ∧ a + storage t ≤ call.total)
    (hbytes : ∀ t ∈ ins ++ outs, (entry 0 t).bytes ≤ storage t)
    (hjoint : arch.spilling = false → ∀ call ∈ calls, MemType.scratchFast ∈ call.types → MemType.scratch ∈ call.types) :
    (z.input.shapes = ins.map (·.shape) ∧ z.input.elemSizes = ins.map (·.elemSize) ∧ z.input.offsets = ins.map (·.address) ∧
      z.input.regions.map some = ins.map (fun t => getRegion arch t.memType)) ∧
    (z.output.shapes = outs.map (·.shape) ∧ z.output.elemSizes = outs.map (·.elemSize) ∧ z.output.offsets = outs.map (·.address) ∧
      z.output.regions.map some = outs.map (fun t => getRegion arch t.memType)) ∧
    ∀ t ∈ ins ++ outs, ∀ r, getRegion arch t.memType = some r → Spec.RawOutput.Inside (sizesOf z) (entry r t) := by
  obtain ⟨s'', q'', hfin', hall⟩ := raw_scratch_ge_extent arch calls s q hs hq
  rw [hfin] at hfin'
  simp only [Prod.mk.injEq, Option.some.injEq] at hfin'
  obtain ⟨rfl, rfl⟩ := hfin'
  obtain ⟨hss, hfs, hsr, hfr, hS, hQ⟩ := hall c w ins outs z hz
  obtain ⟨_, _, _, _, _, _, _, hi, ho⟩ := writeRaw_ok arch c w _ _ ins outs z hz
  refine ⟨ioOf_lists arch ins _ hi, ioOf_lists arch outs _ ho, ?_⟩
  intro t ht r hr sz hsz
  change (sizesOf z).sizeOf r = some sz at hsz
  have hb := hbytes t ht
  have hbytes' : (entry r t).bytes = (entry 0 t).bytes := rfl
  have hZ1 : (sizesOf z).scratchRegion = 1 := hsr
  have hZ2 : (sizesOf z).scratchShape = [tfliteBytes s'] := hss
  have hZ3 : (sizesOf z).fastRegion = (if arch.spilling then 2 else 1) := hfr
  have hZ4 : (sizesOf z).fastShape = [tfliteBytes q'] := hfs
  cases hmt : t.memType with
  | unknown => rw [hmt] at hr; cases hr
  | permanentNPU =>
    rw [hmt] at hr; simp only [getRegion, Option.some.injEq] at hr; subst hr
    rw [sizeOf_zero _ _ hZ1 hZ3] at hsz; cases hsz
  | permanentCPU =>
    rw [hmt] at hr; simp only [getRegion, Option.some.injEq] at hr; subst hr
    rw [sizeOf_zero _ _ hZ1 hZ3] at hsz; cases hsz
  | scratch =>
    obtain ⟨a, call, ha, hcall, hrec, hty, hle⟩ := hplaced t ht (Or.inl hmt)
    rw [hmt] at hr hty; simp only [getRegion, Option.some.injEq] at hr; subst hr
    rw [sizeOf_one _ _ hZ1 hZ2] at hsz
    have hsz' : sz = some (tfliteBytes s') := (Option.some.inj hsz).symm
    subst hsz'
    refine ⟨_, a, rfl, ha, ?_⟩
    have := hS call hcall hrec hty a (storage t) hle
    rw [hbytes']; omega
  | scratchFast =>
    obtain ⟨a, call, ha, hcall, hrec, hty, hle⟩ := hplaced t ht (Or.inr hmt)
    rw [hmt] at hr hty; simp only [getRegion, Option.some.injEq] at hr
    cases hsp : arch.spilling with
    | false =>
      rw [hsp] at hr; simp only [Bool.false_eq_true, if_false] at hr; subst hr
      rw [sizeOf_one _ _ hZ1 hZ2] at hsz
      have hsz' : sz = some (tfliteBytes s') := (Option.some.inj hsz).symm
      subst hsz'
      refine ⟨_, a, rfl, ha, ?_⟩
      have := hS call hcall hrec (hjoint hsp call hcall hty) a (storage t) hle
      rw [hbytes']; omega
    | true =>
      rw [hsp] at hr hZ3; simp only [if_true] at hr hZ3; subst hr
      rw [sizeOf_two _ _ hZ1 hZ3 hZ4] at hsz
      have hsz' : sz = some (tfliteBytes q') := (Option.some.inj hsz).symm
      subst hsz'
      refine ⟨_, a, rfl, ha, ?_⟩
      have := hQ call hcall hrec hty a (storage t) hle
      rw [hbytes']; omega

/-! ## the proposed repair C12-30 -/

/-- padding changes no byte count: every padded shape has the element count of the shape it came from, in list order -/
theorem padShapes_prod (l : List (List Nat)) : (padShapes l).map prod = l.map prod := by
  unfold padShapes
  simp only [List.map_map]
  apply List.map_congr_left
  intro s _
  exact foldl_mul_replicate_one _ s 1

/-- **repair_keeps_accepted_files**: whenever the unchanged writer writes a file, the repaired writer writes the same file -/
theorem repair_keeps_accepted_files (arch : Arch) (ins outs : List OpTensor) (z : Npz) (h : writeRaw arch ins outs = .ok z) :
    writeRawG true arch ins outs = .ok z := by
  unfold writeRaw writeRawG at h
  unfold writeRawG
  simp only [Bool.false_eq_true, if_false] at h
  simp only [if_true]
  split at h
  · rename_i c w s f rest
    split at h
    · rename_i wr sr fr hwr hsr hfr
      split at h
      · cases h
      · rename_i i hi
        split at h
        · cases h
        · rename_i o ho
          split at h
          · cases h
          · rename_i hr
            have hr' : sameRank i.shapes = true ∧ sameRank o.shapes = true := by
              cases h1 : sameRank i.shapes <;> cases h2 : sameRank o.shapes <;> simp [h1, h2] at hr ⊢
            simp only [Except.ok.injEq] at h
            subst h
            rw [padShapes_sameRank _ hr'.1, padShapes_sameRank _ hr'.2]
    · cases h
  · cases h

/-! ## the Spec checker decides the Spec -/

open VelaVerif.Spec.RawOutput in
/-- **raw_spec_sound**: a file the checker accepts satisfies the Spec clause for every listed input and output, and publishes one
    size when both arena regions are one -/
theorem raw_spec_sound (z : RawSizes) (ins outs : List RawIo) (h : ok z ins outs = true) :
    (z.scratchRegion = z.fastRegion → z.scratchShape = z.fastShape) ∧ ∀ t ∈ ins ++ outs, Inside z t := by
  unfold ok problems at h
  simp only [List.isEmpty_iff, List.append_eq_nil_iff] at h
  obtain ⟨⟨h1, h2⟩, h3⟩ := h
  refine ⟨?_, ?_⟩
  · intro heq
    by_cases hs : z.scratchShape = z.fastShape
    · exact hs
    · simp [heq, hs] at h1
  · intro t ht
    rcases List.mem_append.mp ht with ht | ht
    · obtain ⟨i, hi⟩ := filterMap_zipIdx_nil ins _ 0 h2 t ht
      exact ioProblem_none z _ i t hi
    · obtain ⟨i, hi⟩ := filterMap_zipIdx_nil outs _ 0 h3 t ht
      exact ioProblem_none z _ i t hi

/-! ## non-vacuity -/

/-- dedicated fast memory on AXI1 (regions 1 and 2 differ) -/
def demoArch : Arch :=
  { acc := Gen.accelerators.getD 4 default, constPort := .axi0, arenaPort := .axi0, cachePort := .axi1, axi0 := .dram, axi1 := .sram }

def demoCalls : List AllocCall := [⟨.sram, [.scratchFast], 4096, true⟩, ⟨.dram, [.scratch], 65536, true⟩]
def demoIn : OpTensor := { shape := [1, 8, 8, 16], memType := .scratch, address := some 1024, elemSize := 1, values := none }
def demoOut : OpTensor := { shape := [1, 4, 4, 32], memType := .scratchFast, address := some 0, elemSize := 2, values := none }
def demoCmd : OpTensor := { shape := [4], memType := .permanentCPU, address := none, elemSize := 1, values := some [1, 2, 3, 4] }
def demoW : OpTensor := { shape := [2], memType := .permanentCPU, address := none, elemSize := 1, values := some [9, 9] }
def demoS : MemTensor := { mkMem .dram .scratch 0 false with purpose := .scratch }
def demoQ : MemTensor := { mkMem .sram .scratchFast 0 false with purpose := .scratchFast }

example : demoArch.spilling = true := by decide
example :
    finalSizes (books demoCalls).perType (some demoS) (some demoQ) =
      (some { demoS with size := 65536 }, some { demoQ with size := 4096 }) := by rfl
example :
    writeRaw demoArch [demoCmd, demoW, ofMem { demoS with size := 65536 }, ofMem { demoQ with size := 4096 }, demoIn] [demoOut] =
      .ok { cmdData := some [1, 2, 3, 4], weightData := some [9, 9], weightRegion := 0, scratchShape := [65536], scratchRegion := 1,
            scratchFastShape := [4096], scratchFastRegion := 2,
            input := ⟨[[1, 8, 8, 16]], [1], [1], [some 1024]⟩, output := ⟨[[1, 4, 4, 32]], [2], [2], [some 0]⟩ } := by rfl
/-- the hypotheses of `raw_io_offsets_inside_scratch` hold for the demo (storage = the bytes of the shape) -/
example : ∀ t ∈ [demoIn] ++ [demoOut], t.memType = .scratch ∨ t.memType = .scratchFast →
    ∃ a call, t.address = some a ∧ call ∈ demoCalls ∧ call.recorded = true ∧ t.memType ∈ call.types ∧
      a + (entry 0 t).bytes ≤ call.total := by
  intro t ht _
  simp only [List.cons_append, List.nil_append, List.mem_cons, List.not_mem_nil, or_false] at ht
  rcases ht with rfl | rfl
  · exact ⟨1024, ⟨.dram, [.scratch], 65536, true⟩, rfl, by decide, rfl, by decide, by decide⟩
  · exact ⟨0, ⟨.sram, [.scratchFast], 4096, true⟩, rfl, by decide, rfl, by decide, by decide⟩
/-- the Spec accepts the demo file, and rejects it when the fast size is published without its last KiB or when the offsets of
    the two tensors are exchanged -/
example :
    let inn : Spec.RawOutput.RawIo := ⟨1, some 1024, 1, [1, 8, 8, 16]⟩
    let out : Spec.RawOutput.RawIo := ⟨2, some 0, 2, [1, 4, 4, 32]⟩
    Spec.RawOutput.ok ⟨1, [65536], 2, [4096]⟩ [inn] [out] = true ∧
    Spec.RawOutput.ok ⟨1, [65536], 2, [1000]⟩ [inn] [out] = false ∧
    Spec.RawOutput.ok ⟨1, [1024], 2, [4096]⟩ [inn] [out] = false ∧
    Spec.RawOutput.ok ⟨1, [65536], 1, [4096]⟩ [inn] [out] = false ∧
    Spec.RawOutput.ok ⟨1, [65536], 2, [4096]⟩ [{ inn with offset := none }] [out] = false := by decide
/-- inputs of different rank: `np.savez` raises, no file is written -/
example : writeRaw demoArch [demoCmd, demoW, ofMem demoS, ofMem demoQ, demoIn, { demoIn with shape := [1, 8] }] [demoOut] = .error .ragged := by
  rfl

/-- ... the repaired writer lists the rank-2 shape as `[1, 1, 1, 8]` -/
example :
    (writeRawG true demoArch [demoCmd, demoW, ofMem demoS, ofMem demoQ, demoIn, { demoIn with shape := [1, 8] }] [demoOut]).toOption.map
      (·.input.shapes) = some [[1, 8, 8, 16], [1, 1, 1, 8]] := by
  rfl

end VelaVerif.Props.C12Raw
