import VelaVerif.Model.Shram
import VelaVerif.Spec.Shram
namespace VelaVerif.Props.C15
theorem placeholder : True := trivial
end VelaVerif.Props.C15
