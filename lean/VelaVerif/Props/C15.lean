import VelaVerif.Lemmas.Shram
/-!
# C15 — every block configuration used or offered is valid for the hardware

Property theorems only.  Model: `Model/Shram.lean` (transcription of `architecture_allocator.py`, of the loop of
`api.npu_find_block_configs` and of the argument derivation of
`register_command_stream_generator.get_arch_block_config`), specification: `Spec/Shram.lean`, helper lemmas:
`Lemmas/Shram.lean`.  The accelerator rows come from the regenerated `Gen/Shram.lean` (what
`create_default_arch(acc)` exposes to the allocator) and `Gen/Core.lean`; every statement "for each of the six
accelerators" is a statement over `tableRows`, whose facts are re-checked by `decide` on every run.

The WHC search compares floating-point costs.  `findBlockConfig` is generic in the cost arithmetic and the
theorems about it hold for **every** arithmetic `ops` (in particular for IEEE doubles, which the driver uses).
-/
namespace VelaVerif.Props.C15
open VelaVerif.Gen VelaVerif.Gen.Shram VelaVerif.Shram VelaVerif.Spec.Shram

/-- the same accelerator in the two regenerated tables (`Gen/Shram.lean`, `Gen/Core.lean`) -/
def tableRows : List (Row × AccRow) := rows.zip accelerators

/-- both tables list the same six accelerators in the same order -/
theorem tables_aligned :
    rows.map (·.name) = accelerators.map (·.name) ∧ rows.length = 6 ∧
      rows.map (·.name) = ["ethos-u55-32", "ethos-u55-64", "ethos-u55-128", "ethos-u55-256", "ethos-u65-256", "ethos-u65-512"] := by
  decide

/-- Table facts for each of the six rows: micro-blocks positive and dividing the maximum block and the OFM
    split depth, granules positive, the granule dictionaries of `ArchitectureFeatures` agree with the raw
    `shram_granules` entries at the `SHRAMElements` indices, `arch.shram.total_banks` is the bank count,
    the reserved end banks cover the unused tail, and the LUT bytes `[lutAddress, lutAddress+lutSize)` lie in
    the last banks that `max(2, reserved_end_banks)` keeps free. -/
theorem table_facts : ∀ p ∈ tableRows, RowOk p.1 p.2.shramReservedUnusedBanks := by decide

/-- `layout_ordered` (∀ integers, any bank geometry): a layout returned by `_try_block_config` is ordered,
    non-overlapping and inside the bank count. -/
theorem layout_ordered (reserved bankSize total : Nat) (ew : EwUsage) (ofmBlock ifmBlock : Blk)
    (ifmBits ifmGranule accBits accGranule : Nat) (lutBanks : Int) (L : Layout) (hl : 0 ≤ lutBanks)
    (h : tryCore reserved bankSize total ew ofmBlock ifmBlock ifmBits ifmGranule accBits accGranule lutBanks = .ok (some L)) :
    (reserved : Int) = L.ibStart ∧ L.ibStart ≤ L.ibStart2 ∧ L.ibStart2 ≤ L.ibEnd ∧ L.ibEnd ≤ L.abStart ∧
      L.abStart ≤ L.lutStart ∧ L.lutStart ≤ total :=
  tryCore_ordered h hl

/-- `layout_sufficient` (∀ integers): every partition of a returned layout double-buffers its block at its
    granule (`Fits` is the Spec's notion: two copies in whole banks, total a multiple of the granule). -/
theorem layout_sufficient (reserved bankSize total : Nat) (ew : EwUsage) (ofmBlock ifmBlock : Blk)
    (ifmBits ifmGranule accBits accGranule : Nat) (lutBanks : Int) (L : Layout)
    (h : tryCore reserved bankSize total ew ofmBlock ifmBlock ifmBits ifmGranule accBits accGranule lutBanks = .ok (some L)) :
    (ew = .no → Fits (L.ibEnd - L.ibStart) (ifmBytes ifmBlock ifmBits) bankSize ifmGranule ∧
        Fits (L.lutStart - L.abStart) (accBytes ofmBlock accBits) bankSize accGranule) ∧
    (ew = .full → Fits (L.ibStart2 - L.ibStart) (ifmBytes ifmBlock ifmBits) bankSize ifmGranule ∧
        Fits (L.ibEnd - L.ibStart2) (ifmBytes ifmBlock ifmBits) bankSize ifmGranule) ∧
    (ew = .scalar → Fits (L.ibEnd - L.ibStart) (ifmBytes ifmBlock ifmBits) bankSize ifmGranule) :=
  (tryCore_sufficient h).2

/-- the executable Spec test is the Spec -/
theorem fits_checker_sound (banks : Int) (bytes bankSize g : Nat) (hb : 0 < bankSize) (hg : 0 < g) :
    fitsB banks bytes bankSize g = true ↔ Fits banks bytes bankSize g :=
  fitsB_iff banks bytes bankSize g hb hg

/-- **Main theorem for `try_block_config`**, each of the six accelerators, all operations, shapes, kernels,
    strides, dilations, bit widths, LUT use, scalar/broadcast elementwise, upscaling: an accepted
    configuration is valid in the sense of `Spec/Shram.lean` — positive multiple of the micro-block, within
    the maximum block, layout ordered / non-overlapping / inside the bank count, every partition sufficient
    for double buffering at its granule, unused tail and LUT bytes outside every partition. -/
theorem try_valid (p : Row × AccRow) (hp : p ∈ tableRows) (blk : Blk) (a : TryArgs) (cfg : Config)
    (hl : 0 ≤ a.lutBanks) (h : tryBlockConfig p.1 blk a = .ok (some cfg)) :
    ConfigValid p.1 p.2.shramReservedUnusedBanks a.view blk (accBitsOf cfg.accType) cfg.layout.regions :=
  try_meets_spec (table_facts p hp) h hl

/-- `lut_reserved`: with a lookup table (`lut_banks = 2`) the bytes the LUT DMA writes
    (`arch.shram_lut_address`, `arch.shram_lut_size`, independent attributes of `ArchitectureFeatures`) lie at
    or after `lut_start`, inside SHRAM; in every case the unused tail banks are outside the layout. -/
theorem lut_reserved (p : Row × AccRow) (hp : p ∈ tableRows) (blk : Blk) (a : TryArgs) (cfg : Config)
    (hl : 0 ≤ a.lutBanks) (h : tryBlockConfig p.1 blk a = .ok (some cfg)) :
    cfg.layout.lutStart + p.2.shramReservedUnusedBanks ≤ p.1.cfgShramBanks ∧
    (2 ≤ a.lutBanks → cfg.layout.lutStart * p.1.bankSizeBytes ≤ p.1.lutAddress ∧
        p.1.lutAddress + p.1.lutSize ≤ p.1.cfgShramBanks * p.1.bankSizeBytes) := by
  have hv := (try_valid p hp blk a cfg hl h).2.2.1
  unfold TailReserved at hv
  refine ⟨hv.1, fun h2 => hv.2 ?_⟩
  simp only [TryArgs.view, decide_eq_true_eq]
  exact h2

/-- `find_valid`: for each of the six accelerators and **every cost arithmetic**, whatever the WHC search
    returns is a positive multiple of the micro-block, at most `ofm_block_max`, and `try_block_config`
    (called the way the generator calls it: shapes as Blocks, the traversal the search chose) accepts it and
    re-derives exactly the same layout, IFM block and accumulator type.
    Hypothesis: IFM/IFM2 batch 1 (the larger-volume test of the search counts the batch, Blocks have none). -/
theorem find_valid {α : Type} (ops : CostOps α) (p : Row × AccRow) (hp : p ∈ tableRows) (a : FindArgs) (cfg : Config)
    (hb : a.ifm.batch = 1 ∧ ∀ s, a.ifm2 = some s → s.batch = 1)
    (h : findBlockConfig ops p.1 a = .ok (some cfg)) :
    BlockOk p.1 cfg.ofmBlock ∧ tryBlockConfig p.1 cfg.ofmBlock (a.toTry cfg.isPartKernel) = .ok (some cfg) :=
  find_valid_core (table_facts p hp) h hb

/-- … hence the configuration the scheduler selects is valid in the sense of the Spec. -/
theorem find_meets_spec {α : Type} (ops : CostOps α) (p : Row × AccRow) (hp : p ∈ tableRows) (a : FindArgs) (cfg : Config)
    (hb : a.ifm.batch = 1 ∧ ∀ s, a.ifm2 = some s → s.batch = 1) (hl : 0 ≤ a.lutBanks)
    (h : findBlockConfig ops p.1 a = .ok (some cfg)) :
    ConfigValid p.1 p.2.shramReservedUnusedBanks (a.toTry cfg.isPartKernel).view cfg.ofmBlock
      (accBitsOf cfg.accType) cfg.layout.regions :=
  try_valid p hp cfg.ofmBlock (a.toTry cfg.isPartKernel) cfg hl (find_valid ops p hp a cfg hb h).2

/-- every configuration `npu_find_block_configs` offers is valid in the sense of the Spec (for the arguments
    the query derives), whichever `scaled` criterion api.py uses -/
theorem offered_valid (crit : ScaledCrit) (p : Row × AccRow) (hp : p ∈ tableRows) (op : ApiOp) (l : List Blk) (b : Blk)
    (h : npuFindBlockConfigs crit p.1 op = .ok l) (hb : b ∈ l) :
    ∃ cfg, tryBlockConfig p.1 b (apiArgs crit op) = .ok (some cfg) ∧
      ConfigValid p.1 p.2.shramReservedUnusedBanks (apiArgs crit op).view b (accBitsOf cfg.accType) cfg.layout.regions := by
  obtain ⟨_, _, cfg, hc⟩ := npuFind_mem h hb
  refine ⟨cfg, hc, try_valid p hp b _ cfg ?_ hc⟩
  simp only [apiArgs, lutBanksOf]
  split <;> omega

/-- whatever the generator derives for an operation and emits as IB_END / AB_START / IFM2_IB_START /
    ACC_FORMAT is valid in the sense of the Spec -/
theorem generator_layout_valid (p : Row × AccRow) (hp : p ∈ tableRows) (op : ApiOp) (b : Blk) (cfg : Config)
    (h : getArchBlockConfig p.1 op b = .ok cfg) :
    ConfigValid p.1 p.2.shramReservedUnusedBanks (genArgs op).view b (accBitsOf cfg.accType) cfg.layout.regions := by
  unfold getArchBlockConfig at h
  split at h; · cases h
  split at h
  · cases h
  · cases h
  · rename_i c hc
    simp only [Except.ok.injEq] at h
    subst h
    refine try_valid p hp b _ c ?_ hc
    simp only [genArgs, lutBanksOf]
    split <;> omega

/-- `offered_accepted`: every offered configuration is accepted by the generator **provided** api.py and the
    generator derive
    * the same `scaled` flag whenever it matters (16-bit IFM, operation other than pooling/elementwise), and
    * the same IFM2 shape whenever it matters (conv2d / reduce-sum, whose IFM block depth depends on the
      depth of the larger input).
    For elementwise (unary, binary, broadcast, scalar) and pooling operations no hypothesis is left. -/
theorem offered_accepted (crit : ScaledCrit) (p : Row × AccRow) (hp : p ∈ tableRows) (op : ApiOp) (l : List Blk) (b : Blk)
    (hscaled : op.ifmBits = 16 → (op.kind = .conv2d ∨ op.kind = .depthwise ∨ op.kind = .reduceSum) →
      apiScaled crit op = genScaled op)
    (hifm2 : (op.kind = .conv2d ∨ op.kind = .reduceSum) → apiIfm2 op = genIfm2 op)
    (h : npuFindBlockConfigs crit p.1 op = .ok l) (hb : b ∈ l) :
    ∃ cfg, getArchBlockConfig p.1 op b = .ok cfg := by
  obtain ⟨hk, _, cfg, hc⟩ := npuFind_mem h hb
  have hcongr := try_accept_congr (a2 := genArgs op) hc rfl
    (acc_hyp_trivial (table_facts p hp) _ _ _ _ ?_) ?_
  · obtain ⟨cfg', hc'⟩ := hcongr
    exact ⟨cfg', getArch_of_try hk hc'⟩
  · -- accumulator type
    show ewUsage op.kind.blockType op.ifm2Scalar ≠ .no ∨
      accType op.kind.blockType op.ifmBits (apiScaled crit op) = accType op.kind.blockType op.ifmBits (genScaled op)
    by_cases h16 : op.ifmBits = 16
    · rcases kind_cases op with hk | hk | hk | hk | hk
      · right; rw [hscaled h16 (Or.inl hk)]
      · right; rw [hscaled h16 (Or.inr (Or.inl hk))]
      · right; rw [hk]; simp [accType, ApiKind.blockType]
      · right; rw [hscaled h16 (Or.inr (Or.inr hk))]
      · left; rw [hk]; simp only [ewUsage, ApiKind.blockType, if_true]; cases op.ifm2Scalar <;> simp
    · right; simp [accType, h16]
  · exact depth_hyp op hifm2

/-- the hypotheses of `offered_accepted` in their plain form: same `scaled`, same IFM2 shape -/
theorem offered_accepted_same_derivation (crit : ScaledCrit) (p : Row × AccRow) (hp : p ∈ tableRows) (op : ApiOp)
    (l : List Blk) (b : Blk) (hscaled : apiScaled crit op = genScaled op) (hifm2 : apiIfm2 op = genIfm2 op)
    (h : npuFindBlockConfigs crit p.1 op = .ok l) (hb : b ∈ l) :
    ∃ cfg, getArchBlockConfig p.1 op b = .ok cfg :=
  offered_accepted crit p hp op l b (fun _ _ => hscaled) (fun _ => hifm2) h hb

/-- elementwise operations — unary, binary, broadcast, scalar — need no hypothesis at all -/
theorem offered_accepted_elementwise (crit : ScaledCrit) (p : Row × AccRow) (hp : p ∈ tableRows) (op : ApiOp)
    (l : List Blk) (b : Blk) (hk : op.kind = .elementwise)
    (h : npuFindBlockConfigs crit p.1 op = .ok l) (hb : b ∈ l) :
    ∃ cfg, getArchBlockConfig p.1 op b = .ok cfg :=
  offered_accepted crit p hp op l b (fun _ hc => by rw [hk] at hc; simp at hc) (fun hc => by rw [hk] at hc; simp at hc) h hb

/-- With the generator's criterion in api.py (the proposed patch; `Gen.Shram.apiScaledCrit` reports which one
    the live function uses) the `scaled` hypothesis is discharged: every offered configuration of an
    operation that does not combine a conv2d/reduce-sum with a scalar IFM2 is accepted. -/
theorem offered_accepted_fixed_criterion (p : Row × AccRow) (hp : p ∈ tableRows) (op : ApiOp) (l : List Blk) (b : Blk)
    (hmis : (op.kind = .conv2d ∨ op.kind = .reduceSum) → op.ifm2Scalar = false)
    (h : npuFindBlockConfigs .quantAndScale p.1 op = .ok l) (hb : b ∈ l) :
    ∃ cfg, getArchBlockConfig p.1 op b = .ok cfg :=
  offered_accepted .quantAndScale p hp op l b (fun _ _ => apiScaled_quantAndScale op)
    (fun hk => by simp [apiIfm2, genIfm2, hmis hk]) h hb

/-! ### where the hypotheses are needed: witnesses -/

def u55_128 : Row := rows.getD 2 default

/-- `u55_128` really is the Ethos-U55-128 row of the regenerated table -/
theorem u55_128_is_row : u55_128 ∈ rows ∧ u55_128.name = "ethos-u55-128" := by decide

/-- DESIGN.md section 8 #12: conv2d, int16, IFM 22×36×16 → OFM 20×34×16, 3×3 stride 1, quantization objects
    present with `scale_f32 = None` -/
def findingOp : ApiOp :=
  { kind := .conv2d, partKernelFirst := false, ifm := ⟨⟨36, 22, 16⟩, true, false⟩, ifm2 := none, ifm2Scalar := false,
    ofm := ⟨⟨34, 20, 16⟩, true, false⟩, upscale := .none, ifmBits := 16, kernel := some ⟨3, 3, 1, 1, 1, 1⟩, lut := false }

/-- `offered_accepted` is false without the `scaled` hypothesis: with api.py's criterion "quantization is
    None" the query offers h18 × w4 × d16 on Ethos-U55-128 (Acc40, granule 12: 12 banks), the generator
    derives Acc32 (granule 8: 10 raw banks → 16) and refuses it. -/
theorem offered_rejected_witness :
    u55_128.name = "ethos-u55-128" ∧ apiScaled .quantOnly findingOp = true ∧ genScaled findingOp = false ∧
      (∃ l, npuFindBlockConfigs .quantOnly u55_128 findingOp = .ok l ∧ (⟨4, 18, 16⟩ : Blk) ∈ l) ∧
      getArchBlockConfig u55_128 findingOp ⟨4, 18, 16⟩ = .error .assert :=
  ⟨by decide, by decide, by decide, of_offers (by decide +kernel), of_isAssert (by decide +kernel)⟩

/-- … and with the generator's criterion in api.py the same configuration is not offered any more, while
    the query still offers something -/
theorem offered_rejected_witness_fixed :
    offers (npuFindBlockConfigs .quantAndScale u55_128 findingOp) ⟨4, 18, 16⟩ = false ∧
      (∃ l, npuFindBlockConfigs .quantAndScale u55_128 findingOp = .ok l ∧ (⟨4, 16, 16⟩ : Blk) ∈ l) :=
  ⟨by decide +kernel, of_offers (by decide +kernel)⟩

/-- The tempting lemma "what fits with 40-bit accumulators fits with 32-bit ones" is **false**: the granules
    do not divide each other (12 vs 8 on U55-128).  OFM block w4 × h18 × d16 with its IFM block 6 × 20 × 16
    (int16): 40-bit accumulators need 6 banks per copy → 12; 32-bit ones need 5 → 10 → rounded to 16. -/
theorem acc40_fits_acc32_does_not_witness :
    (u55_128.accGranule40, u55_128.accGranule32) = (12, 8) ∧
    (∃ L, tryCore u55_128.reservedOutputBanks u55_128.bankSizeBytes u55_128.totalBanks .no ⟨4, 18, 16⟩ ⟨6, 20, 16⟩ 16
        u55_128.ifmGranule16 accBits40 u55_128.accGranule40 2 = .ok (some L)) ∧
    tryCore u55_128.reservedOutputBanks u55_128.bankSizeBytes u55_128.totalBanks .no ⟨4, 18, 16⟩ ⟨6, 20, 16⟩ 16
        u55_128.ifmGranule16 accBits32 u55_128.accGranule32 2 = .ok none :=
  ⟨by decide, of_isOkSome (by decide +kernel), of_isOkNone (by decide +kernel)⟩

/-- On the other five accelerators the lemma **is** true: their (Acc32, Acc40) granule pairs are (4,4),
    (4,8) and (16,20) — equal, dividing, or in the ratio 32:40 of the widths — so 32-bit accumulators never
    need more banks than 40-bit ones (∀ blocks, ∀ integers). -/
theorem acc32_fits_when_acc40_fits (p : Row × AccRow) (hp : p ∈ tableRows) (hne : p.1.name ≠ "ethos-u55-128")
    (ofmBlock ifmBlock : Blk) (ifmBits ifmGranule : Nat) (lutBanks : Int) (L : Layout)
    (h : tryCore p.1.reservedOutputBanks p.1.bankSizeBytes p.1.totalBanks .no ofmBlock ifmBlock ifmBits ifmGranule
        accBits40 p.1.accGranule40 lutBanks = .ok (some L)) :
    ∃ L', tryCore p.1.reservedOutputBanks p.1.bankSizeBytes p.1.totalBanks .no ofmBlock ifmBlock ifmBits ifmGranule
        accBits32 p.1.accGranule32 lutBanks = .ok (some L') := by
  have hfact : ∀ q ∈ tableRows, q.1.name ≠ "ethos-u55-128" → q.1.bankSizeBytes = 1024 ∧
      ((q.1.accGranule32, q.1.accGranule40) = (4, 4) ∨ (q.1.accGranule32, q.1.accGranule40) = (4, 8) ∨
        (q.1.accGranule32, q.1.accGranule40) = (16, 20)) := by decide
  obtain ⟨hbank, hg⟩ := hfact p hp hne
  obtain ⟨_, b32, b40⟩ := accBits_values
  rw [hbank, b40] at h
  rw [hbank, b32]
  exact acc32_fits_of_acc40_fits _ _ _ _ hg _ _ _ _ _ _ h

/-- **The finding is confined to Ethos-U55-128**: on each of the other five accelerators every offered
    configuration is accepted by the generator whatever the two `scaled` derivations are (only the IFM2 shape
    of a conv2d / reduce-sum must be derived alike). -/
theorem offered_accepted_except_u55_128 (crit : ScaledCrit) (p : Row × AccRow) (hp : p ∈ tableRows)
    (hne : p.1.name ≠ "ethos-u55-128") (op : ApiOp) (l : List Blk) (b : Blk)
    (hifm2 : (op.kind = .conv2d ∨ op.kind = .reduceSum) → apiIfm2 op = genIfm2 op)
    (h : npuFindBlockConfigs crit p.1 op = .ok l) (hb : b ∈ l) :
    ∃ cfg, getArchBlockConfig p.1 op b = .ok cfg := by
  by_cases hsc : apiScaled crit op = genScaled op
  · exact offered_accepted crit p hp op l b (fun _ _ => hsc) hifm2 h hb
  · -- the only possible disagreement: api `scaled`, generator not
    have hapi : apiScaled crit op = true := by
      cases hg : genScaled op
      · cases ha : apiScaled crit op
        · exact absurd (ha.trans hg.symm) hsc
        · rfl
      · exact genScaled_imp_apiScaled crit op hg
    have hgen : genScaled op = false := by
      cases hg : genScaled op
      · rfl
      · exact absurd (hapi.trans hg.symm) hsc
    obtain ⟨hk, _, cfg, hc⟩ := npuFind_mem h hb
    have hcongr := try_accept_congr (a2 := genArgs op) hc rfl ?_ ?_
    · obtain ⟨cfg', hc'⟩ := hcongr
      exact ⟨cfg', getArch_of_try hk hc'⟩
    · -- accumulators
      intro ofmB ifmB g lut L hL
      simp only [apiArgs, genArgs, hapi, hgen] at hL ⊢
      by_cases hew : ewUsage op.kind.blockType op.ifm2Scalar = .no
      · by_cases h40 : accType op.kind.blockType op.ifmBits true = .acc40
        · have h32 : accType op.kind.blockType op.ifmBits false = .acc32 := by simp [accType]
          rw [hew, h40] at hL
          rw [hew, h32]
          exact acc32_fits_when_acc40_fits p hp hne _ _ _ _ _ _ hL
        · have e : accType op.kind.blockType op.ifmBits true = accType op.kind.blockType op.ifmBits false := by
            unfold accType at h40 ⊢
            split at h40
            · exact absurd rfl h40
            · rename_i hn; rw [if_neg hn, if_neg (by simp)]
          exact acc_hyp_trivial (table_facts p hp) _ _ _ _ (Or.inr e) _ _ _ _ _ hL
      · exact acc_hyp_trivial (table_facts p hp) _ _ _ _ (Or.inl hew) _ _ _ _ _ hL
    · exact depth_hyp op hifm2

/-- a conv2d carrying a *scalar* IFM2 (not a sensible operation, but constructible through the API) -/
def scalarIfm2Op : ApiOp :=
  { kind := .conv2d, partKernelFirst := false, ifm := ⟨⟨16, 8, 32⟩, true, true⟩,
    ifm2 := some ⟨⟨32, 32, 8⟩, true, true⟩, ifm2Scalar := true,
    ofm := ⟨⟨16, 8, 16⟩, true, true⟩, upscale := .none, ifmBits := 8, kernel := some ⟨1, 1, 1, 1, 1, 1⟩, lut := false }

/-- `offered_accepted` is false without the IFM2 hypothesis: api.py passes the IFM2 Block even when IFM2 is a
    scalar and then sizes the IFM block with the depth of the larger volume (8), the generator passes `None`
    and uses the IFM depth (32). -/
theorem offered_needs_ifm2_witness :
    apiIfm2 scalarIfm2Op ≠ genIfm2 scalarIfm2Op ∧
    ∃ b, (∃ l, npuFindBlockConfigs .quantAndScale u55_128 scalarIfm2Op = .ok l ∧ b ∈ l) ∧
      getArchBlockConfig u55_128 scalarIfm2Op b = .error .assert :=
  ⟨by decide, ⟨16, 8, 16⟩, of_offers (by decide +kernel), of_isAssert (by decide +kernel)⟩

/-! ### non-vacuity -/

/-- `tryBlockConfig` accepts a real configuration (U55-128, 3×3 conv, int8, with a LUT) -/
example : ∃ cfg, tryBlockConfig u55_128 ⟨8, 4, 16⟩
    { bt := .convMxN, ofm := ⟨16, 16, 16⟩, ifm := ⟨18, 18, 32⟩, ifm2 := none, usesScalar := false, ifmBits := 8,
      isPartKernel := false, kernel := ⟨3, 3, 1, 1, 1, 1⟩, lutBanks := 2, scaled := true, resampling := .none } = .ok (some cfg) :=
  of_isOkSome (by decide +kernel)

/-- the search returns a configuration on a small convolution -/
example : ∃ cfg, findBlockConfig unitOps u55_128
    { bt := .convMxN, ofm := ⟨1, 4, 4, 16⟩, ifm := ⟨1, 6, 6, 8⟩, ifm2 := none, usesScalar := false, ifmBits := 8,
      kernel := ⟨3, 3, 1, 1, 1, 1⟩, lutBanks := 0, scaled := true, resampling := .none } = .ok (some cfg) :=
  of_isOkSome (by decide +kernel)

/-- the query offers something for a binary elementwise operation with a broadcast IFM2 and a LUT -/
example : ∃ l, npuFindBlockConfigs .quantOnly u55_128
    { kind := .elementwise, partKernelFirst := false, ifm := ⟨⟨8, 8, 16⟩, true, true⟩,
      ifm2 := some ⟨⟨1, 8, 1⟩, true, true⟩, ifm2Scalar := false, ofm := ⟨⟨8, 8, 16⟩, true, true⟩, upscale := .none,
      ifmBits := 8, kernel := none, lut := true } = .ok l ∧ (⟨8, 8, 16⟩ : Blk) ∈ l :=
  of_offers (by decide +kernel)

end VelaVerif.Props.C15
