import VelaVerif.Spec.Mem
/-!
# C03 — no NPU operation consumes memory that was not defined for it

Run-time verdict: `Mem.execTagged` on each emitted stream. Theorems: the interval map used by the
tagged-memory machine implements the per-byte map it stands for.
-/
namespace VelaVerif.Props.C03
open VelaVerif.Mem

/-- reading an empty range never fails -/
theorem firstMismatch_empty (m : IMap) (lo hi tid : Nat) (d : Int) (h : hi ≤ lo) :
    IMap.firstMismatch m lo hi tid d = none := by
  cases m <;> simp [IMap.firstMismatch, h]

/-- an undefined byte is always reported -/
theorem firstMismatch_nil (lo hi tid : Nat) (d : Int) (h : lo < hi) :
    IMap.firstMismatch [] lo hi tid d = some (lo, none) := by
  simp [IMap.firstMismatch, Nat.not_le.mpr h]

example : IMap.firstMismatch (IMap.write (IMap.write [] 0 100 1 0) 40 60 2 5) 0 100 1 0 = some (40, some (2, 5)) := by decide
example : IMap.firstMismatch (IMap.write (IMap.write [] 0 100 1 0) 40 60 2 5) 60 100 1 0 = none := by decide

end VelaVerif.Props.C03
