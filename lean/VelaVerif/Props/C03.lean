import VelaVerif.Spec.Mem
import VelaVerif.Lemmas.IntervalMap
/-!
# C03 — no NPU operation consumes memory that was not defined for it

Run-time verdict: `Mem.execTagged` on each emitted stream. Theorems: the interval map used by the
tagged-memory machine implements the per-byte map it stands for (`IMap.get`), `readPieces` /
`writePieces` are the byte-range check / update of the per-byte memory `Memory.get`, and the machine
reports nothing exactly when every byte read by every step held the expected tag at the moment the
step executed (`execTagged_sound`).  Helper lemmas: `Lemmas/IntervalMap.lean`, `Lemmas/Footprint.lean`.
-/
namespace VelaVerif.Props.C03
open VelaVerif.Mem VelaVerif.Footprint VelaVerif.Decode VelaVerif.Isa

/-- reading an empty range never fails -/
theorem firstMismatch_empty (m : IMap) (lo hi tid : Nat) (d : Int) (h : hi ≤ lo) :
    IMap.firstMismatch m lo hi tid d = none := by
  cases m <;> simp [IMap.firstMismatch, h]

/-- an undefined byte is always reported -/
theorem firstMismatch_nil (lo hi tid : Nat) (d : Int) (h : lo < hi) :
    IMap.firstMismatch [] lo hi tid d = some (lo, none) := by
  simp [IMap.firstMismatch, Nat.not_le.mpr h]

example : IMap.firstMismatch (IMap.write (IMap.write [] 0 100 1 0) 40 60 2 5) 0 100 1 0 = some (40, some (2, 5)) := by decide
example : IMap.firstMismatch (IMap.write (IMap.write [] 0 100 1 0) 40 60 2 5) 60 100 1 0 = none := by decide

/-! ## Part A: the interval map refines the per-byte tag map -/

/-- 1a. the empty map satisfies the representation invariant -/
theorem inv_nil : IMap.Inv [] := IMap.inv_nil

/-- 1b. `write` preserves the representation invariant (segments non-empty, sorted, disjoint) -/
theorem write_inv (m : IMap) (lo hi tid : Nat) (d : Int) (hm : IMap.Inv m) :
    IMap.Inv (IMap.write m lo hi tid d) := IMap.write_inv hm lo hi tid d

/-- the invariant really constrains: an overlapping map violates it, the maps `write` builds do not -/
example : ¬ IMap.Inv [⟨0, 10, 1, 0⟩, ⟨5, 20, 2, 0⟩] := by decide
example : ¬ IMap.Inv [⟨3, 3, 1, 0⟩] := by decide
example : IMap.Inv (IMap.write (IMap.write (IMap.write [] 0 100 1 0) 40 60 2 5) 50 200 3 (-7)) := by decide
example : IMap.write (IMap.write (IMap.write [] 0 100 1 0) 40 60 2 5) 50 200 3 (-7) =
    [⟨0, 40, 1, 0⟩, ⟨40, 50, 2, 5⟩, ⟨50, 200, 3, -7⟩] := by decide

/-- 2. `write` is exactly the byte-range update of the per-byte view -/
theorem imap_refines_bytes (m : IMap) (lo hi tid : Nat) (d : Int) (b : Nat) (hm : IMap.Inv m) :
    IMap.get (IMap.write m lo hi tid d) b = if lo ≤ b ∧ b < hi then some (tid, d) else IMap.get m b :=
  IMap.imap_refines_bytes hm lo hi tid d b

example : IMap.get (IMap.write (IMap.write [] 0 100 1 0) 40 60 2 5) 45 = some (2, 5) := by decide
example : IMap.get (IMap.write (IMap.write [] 0 100 1 0) 40 60 2 5) 60 = some (1, 0) := by decide
example : IMap.get (IMap.write (IMap.write [] 0 100 1 0) 40 60 2 5) 100 = none := by decide

/-- 3. the range check accepts exactly when every byte of the range carries the expected tag -/
theorem firstMismatch_none_iff (m : IMap) (lo hi tid : Nat) (d : Int) (hm : IMap.Inv m) :
    IMap.firstMismatch m lo hi tid d = none ↔ ∀ b, lo ≤ b → b < hi → IMap.get m b = some (tid, d) :=
  IMap.firstMismatch_none_iff hm lo hi tid d

/-- two adjacent segments with the same tag are accepted as one range; a gap is not -/
example : IMap.firstMismatch [⟨0, 40, 1, 0⟩, ⟨40, 100, 1, 0⟩] 10 90 1 0 = none := by decide
example : IMap.firstMismatch [⟨0, 40, 1, 0⟩, ⟨41, 100, 1, 0⟩] 10 90 1 0 = some (40, none) := by decide

/-- 4. a reported mismatch is a byte of the range, the reported content is what the map holds there,
    it differs from the expected tag, and it is the first such byte of the range -/
theorem firstMismatch_some_sound (m : IMap) (lo hi tid : Nat) (d : Int) (b : Nat) (found : Option (Nat × Int))
    (hm : IMap.Inv m) (h : IMap.firstMismatch m lo hi tid d = some (b, found)) :
    lo ≤ b ∧ b < hi ∧ IMap.get m b = found ∧ found ≠ some (tid, d) ∧
      ∀ b', lo ≤ b' → b' < b → IMap.get m b' = some (tid, d) :=
  IMap.firstMismatch_some_sound hm h

example : IMap.Inv [⟨0, 40, 1, 0⟩, ⟨40, 60, 2, 5⟩, ⟨60, 100, 1, 0⟩] ∧
    IMap.firstMismatch [⟨0, 40, 1, 0⟩, ⟨40, 60, 2, 5⟩, ⟨60, 100, 1, 0⟩] 0 100 1 0 = some (40, some (2, 5)) := by decide

/-! ## Lift to the region-indexed memory -/

/-- a memory built from invariant-satisfying maps satisfies the memory-wide invariant -/
theorem memory_inv_of_forall (m : Memory) (h : ∀ p ∈ m, IMap.Inv p.2) : m.Inv := Memory.inv_of_forall h

/-- 5a. `writePieces` preserves the memory-wide invariant -/
theorem writePieces_inv (m : Memory) (region tid : Nat) (ps : List Piece) (shift : Int) (h : m.Inv) :
    (writePieces m region tid ps shift).Inv := Mem.writePieces_inv h region tid ps shift

/-- 5b. exact per-byte meaning of `writePieces`: in the written region the *last* piece that contains a
    byte determines its tag (later writes win), every other byte of the memory is unchanged -/
theorem writePieces_get (m : Memory) (region tid : Nat) (ps : List Piece) (shift : Int) (r' b : Nat) (h : m.Inv) :
    (writePieces m region tid ps shift).get r' b =
      if r' = region then
        match lastCover ps b with
        | some q => some (tid, q.delta + shift)
        | none => m.get region b
      else m.get r' b := Mem.get_writePieces h region tid ps shift r' b

/-- 5c. other regions are unchanged -/
theorem writePieces_other_region (m : Memory) (region tid : Nat) (ps : List Piece) (shift : Int) (r' b : Nat)
    (h : m.Inv) (hr : r' ≠ region) : (writePieces m region tid ps shift).get r' b = m.get r' b :=
  Mem.get_writePieces_other_region h region tid ps shift hr b

/-- 5d. bytes outside every written piece are unchanged -/
theorem writePieces_outside (m : Memory) (region tid : Nat) (ps : List Piece) (shift : Int) (r' b : Nat)
    (h : m.Inv) (hb : ∀ p ∈ ps, ¬ p.covers b) : (writePieces m region tid ps shift).get r' b = m.get r' b :=
  Mem.get_writePieces_outside h region tid ps shift r' hb

/-- 5e. every byte of every written piece reads back the written tensor id with the delta of a piece
    that contains it -/
theorem writePieces_written (m : Memory) (region tid : Nat) (ps : List Piece) (shift : Int) (p : Piece) (b : Nat)
    (h : m.Inv) (hp : p ∈ ps) (hb : p.covers b) :
    ∃ q ∈ ps, q.covers b ∧ (writePieces m region tid ps shift).get region b = some (tid, q.delta + shift) :=
  Mem.get_writePieces_written h region tid ps shift hp hb

/-- 5f. … which is the tag of `p` itself whenever the pieces containing the byte agree on `delta`
    (in particular for pairwise disjoint pieces) -/
theorem writePieces_written_eq (m : Memory) (region tid : Nat) (ps : List Piece) (shift : Int) (p : Piece) (b : Nat)
    (h : m.Inv) (hp : p ∈ ps) (hb : p.covers b) (hcons : ∀ q ∈ ps, q.covers b → q.delta = p.delta) :
    (writePieces m region tid ps shift).get region b = some (tid, p.delta + shift) :=
  Mem.get_writePieces_written_eq h region tid ps shift hp hb hcons

/-- 5g. `readPieces` accepts exactly when every byte of every piece holds `(tid, piece.delta + shift)` -/
theorem readPieces_none_iff (m : Memory) (region tid : Nat) (ps : List Piece) (shift : Int) (h : m.Inv) :
    readPieces m region tid ps shift = none ↔
      ∀ p ∈ ps, ∀ b, p.covers b → m.get region b = some (tid, p.delta + shift) :=
  Mem.readPieces_none_iff h region tid ps shift

/-- 5h. a reported read error corresponds to a real offending byte -/
theorem readPieces_some_sound (m : Memory) (region tid : Nat) (ps : List Piece) (shift : Int) (msg : String)
    (h : m.Inv) (hr : readPieces m region tid ps shift = some msg) :
    ∃ p ∈ ps, ∃ b, p.covers b ∧ m.get region b ≠ some (tid, p.delta + shift) :=
  Mem.readPieces_some_sound h region tid ps shift hr

/-- concrete memory for the non-vacuity examples: region 1 holds tensor 7 in bytes [0, 100) -/
def exInit : Memory := [(1, IMap.write [] 0 100 7 0)]

example : exInit.Inv := Memory.inv_of_forall (by decide)
example : (writePieces exInit 2 9 [⟨0, 16, 4⟩, ⟨8, 16, 6⟩] 1).get 2 10 = some (9, 7) := by decide
example : (writePieces exInit 2 9 [⟨0, 16, 4⟩, ⟨8, 16, 6⟩] 1).get 2 3 = some (9, 5) := by decide
example : (writePieces exInit 2 9 [⟨0, 16, 4⟩, ⟨8, 16, 6⟩] 1).get 1 3 = some (7, 0) := by decide
example : readPieces exInit 1 7 [⟨0, 16, -3⟩, ⟨50, 50, -3⟩] 3 = none := by decide
example : (readPieces exInit 1 7 [⟨0, 16, 0⟩, ⟨50, 51, 0⟩] 0).isSome = true := by decide

/-! ## 6. the tagged-memory machine -/

/-- one-step soundness, block operation: no error ⇒ every byte of the IFM / IFM2 footprints, of every
    weight and scale range and of the LUT held the expected tag in the memory the step ran in
    (data living in the constants region is not tracked and is excluded) -/
theorem stepBlock_sound (e : Env) (m : Memory) (idx : Nat) (b : BlockOp) (i : OpInfo) (h : m.Inv)
    (herr : (stepBlock e m idx b i).1 = []) :
    (b.ifm.region ≠ e.constRegion → FmHolds m b.ifm i.ifm) ∧
    (∀ f, b.ifm2 = some f → f.region ≠ e.constRegion → FmHolds m f i.ifm2) ∧
    (∀ rg src, (rg, src) ∈ b.weights.zip i.wsrc → rg.region ≠ e.constRegion →
      ConstHolds m rg.region rg.addr rg.len src) ∧
    (∀ rg src, (rg, src) ∈ b.scales.zip i.ssrc → rg.region ≠ e.constRegion →
      ConstHolds m rg.region rg.addr rg.len src) ∧
    (∀ li, lutIndex b.activation = some li →
      ConstHolds m REGION_SHRAM (lutAddr e b li) (lutTableBytes b) i.lutsrc) :=
  Mem.stepBlock_sound e h idx b i herr

/-- one-step soundness, DMA -/
theorem stepDma_sound (e : Env) (m : Memory) (idx : Nat) (d : DmaOp) (i : DmaInfo) (h : m.Inv)
    (herr : (stepDma e m idx d i).1 = []) (hr : d.src.region ≠ e.constRegion) :
    ∀ byte, d.src.addr ≤ byte → byte < d.src.addr + i.validLen d.src.len →
      m.get d.src.region byte = some (i.srcTid, i.srcDelta) :=
  Mem.stepDma_sound e h idx d i herr hr

/-- a step reports nothing exactly when its kind matches its side information and all its reads are
    satisfied (`StepOk`); the memory it leaves does not depend on the verdict and keeps the invariant -/
theorem step_sound (e : Env) (m : Memory) (idx : Nat) (op : DecOp) (info : Info) (h : m.Inv) :
    ((step e m idx op info).1 = [] ↔ StepOk e m op info) ∧
      (step e m idx op info).2 = nextMem e m op info ∧ (nextMem e m op info).Inv :=
  ⟨step_fst_nil_iff e h idx op info, step_snd e m idx op info, nextMem_inv e h op info⟩

/-- 6a. a kernel operation leaves junk in its SHRAM working partitions: after the step every byte of the
    IFM-buffer partition and (unless elementwise) of the accumulator partition carries the junk tag, so a
    lookup table that lay there no longer satisfies any later table read (`junkTid ≠ constTid`). On the
    16-bank configurations the accumulator partition of an operation without a table reaches the end of
    SHRAM, i.e. covers the table window (`clobber_covers_lut_window_16_banks`). -/
theorem stepBlock_clobbers_shram (e : Env) (m : Memory) (b : BlockOp) (i : OpInfo) (h : m.Inv)
    (hofm : b.ofm.region ≠ REGION_SHRAM) (p : Piece) (hp : p ∈ shramClobber e b) (byte : Nat) (hb : p.covers byte) :
    (nextMem e m (.block b) (.block i)).get REGION_SHRAM byte = some (junkTid, 0) := by
  show (writePieces (writePieces m REGION_SHRAM junkTid (shramClobber e b) 0) _ _ _ 0).get REGION_SHRAM byte = _
  rw [Mem.get_writePieces_other_region (Mem.writePieces_inv h _ _ _ _) _ _ _ _ (Ne.symm hofm)]
  have hd : ∀ q ∈ shramClobber e b, q.delta = 0 := by
    intro q hq
    unfold shramClobber clobberPieces at hq
    simp only [List.mem_append] at hq
    rcases hq with hq | hq
    · split at hq
      · cases List.mem_singleton.mp hq; rfl
      · cases hq
    · split at hq
      · cases List.mem_singleton.mp hq; rfl
      · cases hq
  have := Mem.get_writePieces_written_eq h REGION_SHRAM junkTid (shramClobber e b) 0 hp hb
    (fun q hq _ => by rw [hd q hq, hd p hp])
  rw [this, hd p hp]; rfl

/-- 6b. on a 16-bank configuration, a non-elementwise operation without a lookup table whose accumulators
    start below the table window clobbers every byte of the window -/
theorem clobber_covers_lut_window_16_banks (e : Env) (b : BlockOp) (h16 : e.shramBytes = 16 * shramBankBytes)
    (hlut : lutIndex b.activation = none) (hk : isElementwise b = false)
    (hab : b.abStart * shramBankBytes ≤ e.lutBase) (byte : Nat) (h1 : e.lutBase ≤ byte) (h2 : byte < e.shramBytes) :
    ∃ p ∈ shramClobber e b, p.covers byte := by
  have hu : e.usableShram = e.shramBytes := by
    unfold Env.usableShram; rw [h16]; simp
  have ht : shramTop e b = e.shramBytes := by
    unfold shramTop; rw [hlut]; simpa using hu
  refine ⟨⟨b.abStart * shramBankBytes, e.shramBytes - b.abStart * shramBankBytes, 0⟩, ?_, ?_⟩
  · unfold shramClobber clobberPieces
    rw [ht, hk]
    have : b.abStart * shramBankBytes < e.shramBytes := by omega
    simp [this]
  · show b.abStart * shramBankBytes ≤ byte ∧ byte < b.abStart * shramBankBytes + (e.shramBytes - b.abStart * shramBankBytes)
    omega

/-- 6. `execTagged` reports nothing **iff** the run is fine: each step's kind matches and all its reads are
    satisfied in the memory produced by the steps before it (`RunOk`, defined by recursion over the
    operation list with `StepOk` / `nextMem`).  Operations beyond the shorter of the two lists are not
    executed (`List.zip`); the handler rejects streams whose side information has a different length. -/
theorem execTagged_sound (e : Env) (init : Memory) (ops : List DecOp) (infos : List Info) (h : init.Inv) :
    execTagged e init ops infos = [] ↔ RunOk e init (ops.zip infos) :=
  execTagged_nil_iff e h ops infos

/-- 6'. the same as a statement about every step `k`: at the moment step `k` executes (memory `memAt … k`,
    the result of the writes of steps `0 … k-1`) every byte it reads holds the expected tag -/
theorem execTagged_sound_trace (e : Env) (init : Memory) (ops : List DecOp) (infos : List Info) (h : init.Inv)
    (hexec : execTagged e init ops infos = []) :
    ∀ k (hk : k < (ops.zip infos).length),
      StepOk e (memAt e init (ops.zip infos) k) (ops.zip infos)[k].1 (ops.zip infos)[k].2 :=
  (RunOk_iff_forall e init (ops.zip infos)).mp ((execTagged_nil_iff e h ops infos).mp hexec)

/-- element-level reading of a satisfied feature-map read (uses `Footprint.fmPiecesS_covers`): every byte of
    every addressed element holds tensor `tid` at the element's canonical offset, displaced by the base
    offset of the tile the element lies in (`tileOf` is the tile selection of `fmAddr`).  For NHCWB16 the
    box origin must be brick aligned in depth. -/
theorem fmHolds_elements (m : Memory) (fm : FM) (fi : FmInfo) (h : FmHolds m fm fi)
    (hal : fm.nhcwb16 = true → fi.c0 % 16 = 0) (y x c k : Nat)
    (hy : y < fm.height) (hx : x < fm.width) (hc : c < fm.depth) (hk : k < fm.elemBytes) :
    m.get fm.region (fmAddr fm y x c + k) =
      some (fi.tid, (canon fm (y + fi.y0) (x + fi.x0) (c + fi.c0) : Int) - (fmAddr fm y x c : Int) +
        tileShift fi.shifts (tileOf fm y x)) := by
  obtain ⟨p, hp, hcov, hd⟩ := fmPiecesS_covers fm fi.y0 fi.x0 fi.c0 fi.shifts y x c k hy hx hc hk
  rw [h p hp _ hcov, hd hal]

/-! ### non-vacuity: a two-operation program that runs clean, and one that does not -/

def exEnv : Env := { extents := [(0, 1000), (1, 1000), (2, 1000)], shramBytes := 16384, lutBase := 14336 }
def exFm : FM :=
  { region := 1, base := [0, 0, 0, 0], height0 := 4, height1 := 4, width0 := 4, strideX := 8, strideY := 32,
    strideC := 0, height := 2, width := 4, depth := 8, elemBytes := 1, signed := true, nhcwb16 := false, zeroPoint := 0 }
def exBlock : BlockOp := { (default : BlockOp) with ifm := exFm, ofm := { exFm with region := 2 } }
def exInfo : OpInfo :=
  { ifm := ⟨7, 0, 0, 0, [0, 0, 0, 0]⟩, ifm2 := default, ofm := ⟨8, 0, 0, 0, [0, 0, 0, 0]⟩, wsrc := [], ssrc := [], lutsrc := -1, lutLen := 0 }

/-- block op reads tensor 7 from region 1 and writes tensor 8 to region 2; the DMA then reads tensor 8 -/
example : execTagged exEnv exInit [.block exBlock, .dma ⟨⟨2, 0, 64⟩, ⟨1, 200, 64⟩, 0⟩]
    [.block exInfo, .dma ⟨8, 0, 8, -200, 0⟩] = [] := by decide
/-- the same block op expecting the rows one further down (a wrapped rolling buffer) is rejected -/
example : (execTagged exEnv exInit [.block exBlock] [.block { exInfo with ifm := ⟨7, 1, 0, 0, [0, 0, 0, 0]⟩ }]).length = 1 := by
  decide
/-- the DMA executed *before* its producer is rejected -/
example : (execTagged exEnv exInit [.dma ⟨⟨2, 0, 64⟩, ⟨1, 200, 64⟩, 0⟩, .block exBlock]
    [.dma ⟨8, 0, 8, -200, 0⟩, .block exInfo]).length = 1 := by decide
example : (stepBlock exEnv exInit 0 exBlock exInfo).1 = [] ∧ exBlock.ifm.region ≠ exEnv.constRegion := by decide
example : (stepDma exEnv exInit 0 ⟨⟨1, 16, 32⟩, ⟨2, 0, 32⟩, 0⟩ ⟨7, 0, 9, 0, 0⟩).1 = [] := by decide

/-- a feature-map DMA rounded up to 16 bytes: only the 3 valid bytes are checked and defined; the padding it
    drags along is tagged as junk, so a later reader of those bytes is rejected -/
example : (stepDma exEnv (IMap.write [] 64 67 4 (-64) |> fun im => [(2, im)]) 0 ⟨⟨2, 64, 16⟩, ⟨1, 784, 16⟩, 0⟩ ⟨4, -64, 5, -784, 3⟩).1 = [] := by
  decide
example : (stepDma exEnv (IMap.write [] 64 67 4 (-64) |> fun im => [(2, im)]) 0 ⟨⟨2, 64, 16⟩, ⟨1, 784, 16⟩, 0⟩ ⟨4, -64, 5, -784, 0⟩).1.length = 1 := by
  decide

/-! ### per-tile base offsets (the RESIZE_BILINEAR edge-replication pattern)

A 2×3 int8 map read through two tiles side by side (`width0 = 2`): tile 0 starts at byte 16, tile 1 is
the *same* column re-read (its base is displaced by −8 relative to where column 2 would be), i.e. the
operation replicates the last column. With the per-tile shifts `[0, −8, 0, 0]` the read is accepted; a
single shift for all tiles (the former checker) rejects it. -/
def exTileFm : FM :=
  { region := 1, base := [16, 24, 0, 0], height0 := 2, height1 := 2, width0 := 2, strideX := 8, strideY := 16,
    strideC := 0, height := 2, width := 3, depth := 8, elemBytes := 1, signed := true, nhcwb16 := false, zeroPoint := 0 }
def exTileBlock : BlockOp := { (default : BlockOp) with ifm := exTileFm, ofm := { exFm with region := 2 } }

example : fmPiecesS exTileFm 0 0 0 [0, -8, 0, 0] = [⟨16, 16, -16⟩, ⟨24, 24, -16⟩, ⟨40, 8, -16⟩] := by decide
example : execTagged exEnv [(1, IMap.write [] 16 48 7 (-16))] [.block exTileBlock]
    [.block { exInfo with ifm := ⟨7, 0, 0, 0, [0, -8, 0, 0]⟩ }] = [] := by decide
example : (execTagged exEnv [(1, IMap.write [] 16 48 7 (-16))] [.block exTileBlock]
    [.block { exInfo with ifm := ⟨7, 0, 0, 0, [0, 0, 0, 0]⟩ }]).length = 1 := by decide
example : tileOf exTileFm 1 2 = 1 ∧ tileShift [0, -8, 0, 0] 1 = -8 ∧ fmAddr exTileFm 1 2 3 = 43 ∧
    (canon exTileFm 1 2 3 : Int) - 43 + (-8) = -16 := by decide

/-! ## 7. lookup tables of different sizes -/

/-- 7a. the table an operation reads is 256 B, 512 B, 1 KiB or 2 KiB for the element sizes the decoder produces, and
    a whole number of such tables fills the 2 KiB window -/
theorem lutTableBytes_cases (b : BlockOp) (ho : b.ofm.elemBytes = 1 ∨ b.ofm.elemBytes = 2 ∨ b.ofm.elemBytes = 4) :
    (lutTableBytes b = 256 ∨ lutTableBytes b = 512 ∨ lutTableBytes b = 1024 ∨ lutTableBytes b = 2048) ∧
      2048 % lutTableBytes b = 0 := by
  unfold lutTableBytes
  split <;> rcases ho with h' | h' | h' <;> simp [h']

/-- 7b. an operation whose activation works on 8-bit values and writes 8-bit results reads the 256-byte slot `li`; one
    that works on 16-bit values reads 2 KiB from the start of its slot; the forced-int8 lookup with an int32 result (the
    softmax exponent) reads 1 KiB -/
theorem lutTableBytes_8bit (b : BlockOp) (ha : actBytes b = 1) (ho : b.ofm.elemBytes = 1) : lutTableBytes b = 256 := by
  simp [lutTableBytes, ha, ho]

theorem lutTableBytes_16bit (b : BlockOp) (ha : actBytes b = 2) : lutTableBytes b = 2048 := by
  simp [lutTableBytes, ha]

theorem lutTableBytes_forced_int8_int32 (b : BlockOp) (hc : b.activation / 4096 % 16 = 3) (ho : b.ofm.elemBytes = 4) :
    lutTableBytes b = 1024 := by
  simp [lutTableBytes, actBytes, hc, ho]

/-- without a forced range the activation precision is the OFM precision, whatever the IFM precision is -/
theorem actBytes_unforced (b : BlockOp) (hc : b.activation / 4096 % 16 = 0) : actBytes b = b.ofm.elemBytes := by
  simp [actBytes, hc]

/-- 7c. every 256-byte slot of the window lies inside the 2 KiB table a 16-bit lookup placed in slot 0 reads:
    the wide table overlaps *all* narrow slots, not only slot 0 -/
theorem narrow_slot_inside_wide_table (e : Env) (b8 b16 : BlockOp) (li : Nat) (hli : li < 8)
    (h8i : actBytes b8 = 1) (h8o : b8.ofm.elemBytes = 1) (h16 : actBytes b16 = 2) :
    lutAddr e b16 0 ≤ lutAddr e b8 li ∧ lutAddr e b8 li + lutTableBytes b8 ≤ lutAddr e b16 0 + lutTableBytes b16 := by
  rw [lutAddr, lutAddr, lutTableBytes_8bit b8 h8i h8o, lutTableBytes_16bit b16 h16]
  omega

/-- 7d. distinct slots of 256-byte tables are disjoint; a wider table placed at index `li` covers the slots
    `li … li + size/256 − 1` -/
theorem lut_slots_disjoint (e : Env) (b : BlockOp) (li lj : Nat) (h : li < lj) (ha : actBytes b = 1) (ho : b.ofm.elemBytes = 1) :
    lutAddr e b li + lutTableBytes b ≤ lutAddr e b lj := by
  rw [lutTableBytes_8bit b ha ho]
  unfold lutAddr
  omega

theorem wide_table_covers_slots (e : Env) (bw b8 : BlockOp) (li k : Nat) (hk : (k + 1) * 256 ≤ lutTableBytes bw)
    (ha : actBytes b8 = 1) (ho : b8.ofm.elemBytes = 1) :
    lutAddr e bw li ≤ lutAddr e b8 (li + k) ∧ lutAddr e b8 (li + k) + lutTableBytes b8 ≤ lutAddr e bw li + lutTableBytes bw := by
  rw [lutTableBytes_8bit b8 ha ho]
  unfold lutAddr
  constructor <;> omega

/-- 7e. **A table load evicts every table it overlaps, whatever its size.** After a DMA of constant data into SHRAM
    (tag delta `δ`), a TABLE_LOOKUP operation whose table (slot and size from *its own* precisions) starts inside the
    loaded range is rejected unless the loaded bytes are exactly the bytes it expects there (`lutsrc − address = δ`).
    In particular a 2 KiB table loaded over the window invalidates the 256-byte tables of all eight slots
    (`narrow_slot_inside_wide_table`), which is what `LUTState.put` has to mirror when it forgets overlapped tables. -/
theorem table_load_evicts_overlapped_table (e : Env) (m : Memory) (h : m.Inv) (k idx : Nat) (src : AddrRange) (par : Nat)
    (a0 len : Nat) (δ : Int) (b : BlockOp) (i : OpInfo) (li : Nat)
    (hli : lutIndex b.activation = some li)
    (hin : a0 ≤ lutAddr e b li ∧ lutAddr e b li < a0 + len) (hpos : 0 < lutTableBytes b)
    (hne : i.lutsrc - (lutAddr e b li : Nat) ≠ δ) :
    (stepBlock e (stepDma e m k ⟨src, ⟨REGION_SHRAM, a0, len⟩, par⟩ ⟨0, 0, constTid, δ, 0⟩).2 idx b i).1 ≠ [] := by
  intro herr
  have hinv : (stepDma e m k ⟨src, ⟨REGION_SHRAM, a0, len⟩, par⟩ ⟨0, 0, constTid, δ, 0⟩).2.Inv :=
    Mem.writePieces_inv (Mem.writePieces_inv h _ _ _ _) _ _ _ _
  have hs := (Mem.stepBlock_sound e hinv idx b i herr).2.2.2.2 li hli (lutAddr e b li) (Nat.le_refl _) (by omega)
  have hv : DmaInfo.validLen ⟨0, 0, constTid, δ, 0⟩ len = len := by simp [DmaInfo.validLen]
  have hw : (stepDma e m k ⟨src, ⟨REGION_SHRAM, a0, len⟩, par⟩ ⟨0, 0, constTid, δ, 0⟩).2.get REGION_SHRAM (lutAddr e b li) =
      some (constTid, δ) := by
    show (writePieces (writePieces m REGION_SHRAM junkTid [⟨a0, len, 0⟩]) REGION_SHRAM constTid
      [⟨a0, DmaInfo.validLen ⟨0, 0, constTid, δ, 0⟩ len, δ⟩]).get REGION_SHRAM (lutAddr e b li) = _
    rw [hv]
    have := Mem.get_writePieces_written_eq (Mem.writePieces_inv h REGION_SHRAM junkTid [⟨a0, len, 0⟩] 0) REGION_SHRAM constTid
      [⟨a0, len, δ⟩] 0 (p := ⟨a0, len, δ⟩) List.mem_cons_self (b := lutAddr e b li) ⟨hin.1, hin.2⟩
      (fun q hq _ => by cases List.mem_singleton.mp hq; rfl)
    simpa using this
  rw [hw] at hs
  injection hs with hs
  injection hs with _ hd
  exact hne hd.symm

/-! ### non-vacuity: the mixed-size witness (tanh8 → slot 0, logistic8 → slot 1, exp16 → whole window, logistic8 again)

`exEnv` has its table window at SHRAM byte 14336. Three table loads (constants at 1000, 2000, 4000), then an 8-bit
operation that looks up in slot 1 and expects the table at 2000. -/
def exLutBlock (slot : Nat) : BlockOp := { exBlock with activation := 16 + slot }
def exLutBlock16 : BlockOp := { exBlock with activation := 16, ifm := { exFm with elemBytes := 2 }, ofm := { exFm with region := 2, elemBytes := 2 } }
def exLoad (src dst len : Nat) : DecOp × Info := (.dma ⟨⟨0, src, len⟩, ⟨REGION_SHRAM, dst, len⟩, 0⟩, .dma ⟨0, 0, 0, (src : Int) - dst, 0⟩)
def exLookup (b : BlockOp) (src : Int) (len : Nat) : DecOp × Info := (.block b, .block { exInfo with lutsrc := src, lutLen := len })
def exRun (l : List (DecOp × Info)) : List String := execTagged exEnv exInit (l.map (·.1)) (l.map (·.2))

/-- the wide table was loaded over slot 1 and the narrow one was not loaded again: rejected -/
example : (exRun [exLoad 1000 14336 256, exLoad 2000 14592 256, exLoad 4000 14336 2048, exLookup (exLutBlock 1) 2000 256]).length = 1 := by
  decide
/-- … loaded again after the wide one: accepted; so is the use before the wide load -/
example : exRun [exLoad 1000 14336 256, exLoad 2000 14592 256, exLoad 4000 14336 2048, exLoad 2000 14592 256,
    exLookup (exLutBlock 1) 2000 256] = [] := by decide
example : exRun [exLoad 1000 14336 256, exLoad 2000 14592 256, exLookup (exLutBlock 1) 2000 256, exLoad 4000 14336 2048,
    exLookup exLutBlock16 4000 2048] = [] := by decide
/-- a 16-bit lookup reads 2 KiB: a window that only holds its first 256 bytes is rejected (the size comes from the
    decoded precision, not from the side information); the IFM precision does not matter (int8 IFM, int16 OFM: 2 KiB) -/
example : (exRun [exLoad 4000 14336 256, exLookup exLutBlock16 4000 256]).length = 1 := by decide
example : lutTableBytes (exLutBlock 1) = 256 ∧ lutTableBytes exLutBlock16 = 2048 ∧ lutAddr exEnv (exLutBlock 1) 1 = 14592 ∧
    lutTableBytes { exLutBlock16 with ifm := exFm } = 2048 ∧
    lutTableBytes { exLutBlock 1 with activation := 17 + 3 * 4096, ofm := { exFm with elemBytes := 4 } } = 1024 := by decide
/-- the hypotheses of `table_load_evicts_overlapped_table` hold for the witness -/
example : lutIndex (exLutBlock 1).activation = some 1 ∧ (14336 ≤ lutAddr exEnv (exLutBlock 1) 1 ∧ lutAddr exEnv (exLutBlock 1) 1 < 14336 + 2048) ∧
    0 < lutTableBytes (exLutBlock 1) ∧ (2000 : Int) - (lutAddr exEnv (exLutBlock 1) 1 : Nat) ≠ (4000 : Int) - 14336 := by decide
/-- the side-information cross-check -/
example : (lutSideProblems [.block exLutBlock16] [.block { exInfo with lutsrc := 4000, lutLen := 256 }]).length = 1 ∧
    lutSideProblems [.block exLutBlock16] [.block { exInfo with lutsrc := 4000, lutLen := 2048 }] = [] := by decide

end VelaVerif.Props.C03
