import VelaVerif.Lemmas.SrcNumericUtil
import VelaVerif.Model.Shram
import VelaVerif.Gen.SrcArchitectureAllocator
/-!
# C15 (source tie) — translated `numeric_util.round_up*` and `architecture_allocator._ifm_blockdepth`
equal the hand model `Model/Shram.lean`

`Gen/SrcNumericUtil.lean` / `Gen/SrcArchitectureAllocator.lean` are regenerated from the source text on
every run.  The model works over `Nat`; the divisors are positive (micro-block sizes, bank sizes, the
literals 4 / 8 / 16) — for a zero divisor Python raises `ZeroDivisionError`, which the model does not
reproduce (`round_up_zero`).
-/
namespace VelaVerif.Props.C15Src
open VelaVerif VelaVerif.PyRt VelaVerif.Shram
open VelaVerif.Gen.SrcNumericUtil VelaVerif.Gen.SrcArchitectureAllocator

/-- `numeric_util.round_up(a, b)` for natural `a`, positive `b` -/
theorem src_round_up_eq_model (a b : Nat) (hb : 0 < b) :
    round_up (.py a) (.py b) = .ok (.py (roundUp a b : Nat)) :=
  SrcNumericUtil.round_up_nat a b hb

/-- `numeric_util.round_up_divide(a, b)` for natural `a`, positive `b` -/
theorem src_round_up_divide_eq_model (a b : Nat) (hb : 0 < b) :
    round_up_divide (.py a) (.py b) = .ok (.py (roundUpDivide a b : Nat)) :=
  SrcNumericUtil.round_up_divide_nat a b hb

/-- the hypothesis is needed: with a zero quantum the source raises, the (totalised) model returns 0 -/
theorem src_round_up_zero_witness : round_up (.py 7) (.py 0) = .error .zerodiv ∧ roundUp 7 0 = 0 :=
  ⟨SrcNumericUtil.round_up_zero 7, by decide⟩

/-- `_ifm_blockdepth(arch, ifm_shape, ifm_bits, is_partkernel)`; `arch.ifm_ublock.depth` and
    `ifm_shape.depth` are the only attributes read (they are parameters of the translated function) -/
theorem src_ifm_blockdepth_eq_model (row : Gen.Shram.Row) (ifmDepth ifmBits : Nat) (isPartKernel : Bool)
    (hu : 0 < row.ifmUblock.depth) :
    _ifm_blockdepth (.py ifmBits) isPartKernel (.py row.ifmUblock.depth) (.py ifmDepth) =
      .ok (.py (ifmBlockDepth row ifmDepth ifmBits isPartKernel : Nat)) := by
  unfold ifmBlockDepth
  have h4 := fun a => SrcNumericUtil.round_up_nat a 4 (by decide)
  have hu' := fun a => SrcNumericUtil.round_up_nat a row.ifmUblock.depth hu
  have hmin : ∀ c : Nat, min (ifmDepth : Int) (c : Int) = ((min ifmDepth c : Nat) : Int) := fun c => by omega
  by_cases h16 : ifmBits = 16
  · subst h16
    py_exec [_ifm_blockdepth, if_pos, if_neg]
    rw [show (16 : Int) = ((16 : Nat) : Int) from rfl, hmin]
    exact h4 _
  · cases isPartKernel
    · py_exec [_ifm_blockdepth, if_pos, if_neg, h16]
      rw [show (32 : Int) = ((32 : Nat) : Int) from rfl, hmin]
      exact hu' _
    · py_exec [_ifm_blockdepth, if_pos, if_neg, h16]
      rw [show (16 : Int) = ((16 : Nat) : Int) from rfl, hmin]
      exact hu' _

end VelaVerif.Props.C15Src
