import VelaVerif.Lemmas.SrcFpMath
/-!
# C19 (source tie) — the translated `fp_math.py` agrees with the hand model `Model/FpMath.lean`

`Gen/SrcFpMath.lean` is regenerated from the source text of `ethosu/vela/fp_math.py` on every run
(`harness/py2lean.py`); the theorems below say, for **all** Python-int arguments, that each translated
function has the same outcome as the hand model the C19 property theorems are about: the same value,
or both raise (error kinds related by `errRel`).  A semantic change of the source breaks the
corresponding proof for all inputs, not only on sampled ones.
-/
namespace VelaVerif.Props.C19Src
open VelaVerif VelaVerif.PyRt VelaVerif.FpMath VelaVerif.SrcFpMath
open VelaVerif.Gen.SrcFpMath

/-- `saturating_rounding_mul32(a, b)`, all Python ints `a`, `b` -/
theorem src_saturating_rounding_mul32_eq_model (a b : Int) :
    Agrees errRel (saturating_rounding_mul32 (.py a) (.py b)) (saturatingRoundingMul32 a b) := by
  rw [srm32_spec .py .py a b (by py_side) (by py_side) trivial trivial, msrm32_spec]
  py_exec [errRel]
  py_finish

/-- `rounding_divide_by_pot(x, exponent)`, all Python ints -/
theorem src_rounding_divide_by_pot_eq_model (x e : Int) :
    Agrees errRel (rounding_divide_by_pot (.py x) (.py e)) (roundingDivideByPot x e) := by
  rw [rdbp_spec .py x e (by py_side) trivial, mrdbp_spec]
  py_exec [errRel]
  py_finish

/-- `saturating_rounding_mul16(a, b)`, all Python ints -/
theorem src_saturating_rounding_mul16_eq_model (a b : Int) :
    Agrees errRel (saturating_rounding_mul16 (.py a) (.py b)) (saturatingRoundingMul16 a b) := by
  by_cases ha : Ty.fits .i16 a <;> by_cases hb : Ty.fits .i16 b
  · have hp := prod16_i32 a b ha hb
    simp only [Ty.fits] at ha hb
    py_exec [saturating_rounding_mul16, saturatingRoundingMul16, chk16, inI16_iff, i16min, i16max, roundingMulBody, errRel]
    py_finish
  all_goals
    simp only [Ty.fits] at ha hb
    py_exec [saturating_rounding_mul16, saturatingRoundingMul16, chk16, inI16_iff, i16min, i16max, errRel]
    try py_finish

/-- `saturating_mul16(a, b)`, all Python ints -/
theorem src_saturating_mul16_eq_model (a b : Int) :
    Agrees errRel (saturating_mul16 (.py a) (.py b)) (saturatingMul16 a b) := by
  by_cases ha : Ty.fits .i16 a <;> by_cases hb : Ty.fits .i16 b
  · have hp := prod16_i32 a b ha hb
    simp only [Ty.fits] at ha hb
    py_exec [saturating_mul16, saturatingMul16, chk16, inI16_iff, i16min, i16max, errRel]
    py_finish
  all_goals
    simp only [Ty.fits] at ha hb
    py_exec [saturating_mul16, saturatingMul16, chk16, inI16_iff, i16min, i16max, errRel]
    try py_finish

/-- `shift_left32(a, offset)`, all Python ints -/
theorem src_shift_left32_eq_model (a o : Int) :
    Agrees errRel (shift_left32 (.py a) (.py o)) (shiftLeft32 a o) := by
  unfold shiftLeft32 chk32
  delta i32min i32max
  py_exec [shift_left32, inI32_iff, errRel]
  py_finish

/-- `shift_left16(a, offset)`, all Python ints -/
theorem src_shift_left16_eq_model (a o : Int) :
    Agrees errRel (shift_left16 (.py a) (.py o)) (shiftLeft16 a o) := by
  unfold shiftLeft16 chk16
  delta i16min i16max
  py_exec [shift_left16, inI16_iff, errRel]
  py_finish

/-- `downscale_multiplier_int32_to_int16(a)`, all Python ints -/
theorem src_downscale_multiplier_int32_to_int16_eq_model (a : Int) :
    Agrees errRel (downscale_multiplier_int32_to_int16 (.py a)) (downscaleMultiplierInt32ToInt16 a) := by
  py_exec [downscale_multiplier_int32_to_int16, downscaleMultiplierInt32ToInt16, chk32, inI32_iff, inI16_iff, i32max, i16max, errRel]
  py_finish

/-- `saturating_rounding_multiply_by_pot(x, exponent)`, all Python ints -/
theorem src_saturating_rounding_multiply_by_pot_eq_model (x e : Int) :
    Agrees errRel (saturating_rounding_multiply_by_pot (.py x) (.py e)) (saturatingRoundingMultiplyByPot x e) := by
  unfold saturatingRoundingMultiplyByPot shiftLeft32 chk32 pow2
  delta i32min i32max
  py_exec [saturating_rounding_multiply_by_pot, shift_left32, inI32_iff, errRel]
  py_finish

/-- `rescale(integer_bits_src, integer_bits_dst, x)`, all Python ints -/
theorem src_rescale_eq_model (src dst x : Int) :
    Agrees errRel (Gen.SrcFpMath.rescale (.py src) (.py dst) (.py x)) (FpMath.rescale src dst x) := by
  unfold FpMath.rescale saturatingRoundingMultiplyByPot shiftLeft32 chk32 pow2
  delta i32min i32max
  py_exec [Gen.SrcFpMath.rescale, saturating_rounding_multiply_by_pot, shift_left32, fits32_iff, errRel, mrdbp_spec,
    rdbp_spec .py x (-(src - dst)) (by py_side) trivial]
  py_finish

/-- `exp_on_interval_between_negative_one_quarter_and_0_excl(a)`, all Python ints -/
theorem src_exp_on_interval_eq_model (a : Int) :
    Agrees errRel (exp_on_interval_between_negative_one_quarter_and_0_excl (.py a))
      (expOnIntervalBetweenNegativeOneQuarterAnd0Excl a) :=
  (expint_sim .py a (Or.inl rfl) (Or.inl rfl)).agrees

/-- `exp_on_negative_values(a)`, all Python ints (the seven `exp_barrel_shifter` stages included) -/
theorem src_exp_on_negative_values_eq_model (a : Int) :
    Agrees errRel (exp_on_negative_values (.py a)) (expOnNegativeValues a) := by
  by_cases hf : -2147483648 ≤ a ∧ a ≤ 2147483647
  · by_cases h0 : a ≤ 0
    · exact expneg_in a hf h0
    · unfold expOnNegativeValues chk32
      py_exec [exp_on_negative_values, fits32_iff, errRel, if_pos, if_neg]
      trivial
  · unfold expOnNegativeValues chk32
    py_exec [exp_on_negative_values, fits32_iff, errRel, if_pos, if_neg]
    trivial

/-- `multiply_by_quantized_multiplier(x, scale, shift)`, all Python ints.  (Before /repo 755ba3e —
    `rounding_divide_by_pot` evaluated `x & mask` in the NumPy type of the product — this held only for
    `shift ≤ 62`: beyond, the source raised `OverflowError` where the hand model returns a value; the
    regenerated definition made the obligation fail when the repair landed and the hypothesis could go.) -/
theorem src_multiply_by_quantized_multiplier_eq_model (x scale shift : Int) :
    Agrees errRel (multiply_by_quantized_multiplier (.py x) (.py scale) (.py shift))
      (multiplyByQuantizedMultiplier x scale shift) := by
  unfold multiplyByQuantizedMultiplier
  py_exec [multiply_by_quantized_multiplier, srm32_rw, msrm32_spec, rdbp_rw, mrdbp_spec, errRel]
  py_finish

/-- non-vacuity / regression witness of the repaired corner: right shift 64 on an `np.int64` product -/
theorem src_multiply_by_quantized_multiplier_shift95_witness :
    multiply_by_quantized_multiplier (.py 5) (.py 1073741824) (.py 95) = .ok (.py 0) ∧
    multiplyByQuantizedMultiplier 5 1073741824 95 = .ok 0 := by
  constructor
  · py_exec [multiply_by_quantized_multiplier, saturating_rounding_mul32, rounding_divide_by_pot]
    rfl
  · decide

end VelaVerif.Props.C19Src
