import VelaVerif.Lemmas.SoftmaxLowerL
import VelaVerif.Props.C01Softmax
/-!
# C01 — the lowering of the SOFTMAX decomposition: rows of a decoded command stream against rows of the model

`check_C01` (stream `softmax_lowering`) decodes the command stream of every compiled 8-bit SOFTMAX into one integer row per pass
(`SoftmaxLower.groupsOf`, `segmentRows`) and compares them with `SoftmaxLower.modelRows P` = the rows of `lower P (graph8 P)` for the
parameters `P` of that network.  The theorems here say what an agreement means: the row format loses nothing the interpreter reads
(`row_determines_value`), so a stream whose rows are the model's rows denotes — as a program of `SoftmaxExec` — the function
`runGraph8 P` (`rows_eq_model_run`), which is the TFLite kernel (`rows_eq_model_reference`, from `C01Softmax.softmax8_decomposition_eq_reference`).

Not covered by these theorems (it is the decoder's reading of the registers, `SoftmaxLower.rawOfBlock`, exercised by the value comparison
of the same networks): that the hardware executes a block operation with these registers as `evalStep` executes the row.
-/
namespace VelaVerif.Props.C01SoftmaxLower
open VelaVerif VelaVerif.SoftmaxGraph VelaVerif.SoftmaxExec VelaVerif.SoftmaxLower VelaVerif.Lemmas.SoftmaxLowerL
  VelaVerif.Lemmas.SoftmaxExecL

/-- a row can be read back: the step rebuilt from the row of `s` is `s` up to the quantisation of constant operands and — for a step
    with the plain output stage into a 32-bit OFM — OFM zero point and ACTIVATION_MIN / MAX (`erase`) -/
theorem ofRow_row (s : NStep) : NStep.ofRow (NStep.row s) = some (erase s) := Lemmas.SoftmaxLowerL.ofRow_row s

/-- … and none of the erased fields is read by the interpreter: on every table, row of inputs and environment -/
theorem erased_fields_not_read (table xs : List Int) (env : List Val) (s : NStep) :
    evalStep table xs env (erase s) = evalStep table xs env s := evalStep_erase table xs env s

/-- **the row format determines the value**: two programs with the same rows compute the same function -/
theorem row_determines_value (p q : List NStep) (h : p.map NStep.row = q.map NStep.row) (table xs : List Int) :
    runRow p table xs = runRow q table xs := by
  have hp := progOfRows_rows p
  have hq := progOfRows_rows q
  rw [h, hq] at hp
  have he : q.map erase = p.map erase := Option.some.inj hp
  rw [← runRow_erase table xs p, ← runRow_erase table xs q, he]

/-- **agreement of the comparison**: if the rows decoded from a stream are the model rows for `P`, the rows are the rows of a program
    (`progOfRows` succeeds) and that program run on any table and any row of inputs is `runGraph8 P` -/
theorem rows_eq_model_run (P : Params) (rows : List (List Int)) (h : modelRows P = some rows) (table xs : List Int) :
    ∃ prog, progOfRows rows = some prog ∧ runRow prog table xs = runGraph8 P table xs := by
  unfold modelRows at h
  rw [lower_graph8] at h
  have hr : rows = (prog8 P).map NStep.row := (Option.some.inj h).symm
  refine ⟨(prog8 P).map erase, by rw [hr]; exact progOfRows_rows _, ?_⟩
  rw [runRow_erase]
  unfold runGraph8
  rw [lower_graph8]

/-- the model rows exist for every `P` (the lowering never fails on `graph8`) and there are 31 of them -/
theorem modelRows_total (P : Params) : ∃ rows, modelRows P = some rows ∧ rows.length = 31 := by
  refine ⟨(prog8 P).map NStep.row, ?_, rfl⟩
  unfold modelRows
  rw [lower_graph8]
  rfl

/-- no two passes of the model have the same row — already kind and operands (the first five columns) differ — for every `P`: counting
    block operations with equal rows once (the stripes of a pass, `SoftmaxLower.groupsOf`) cannot identify two passes of a correct stream -/
theorem modelRows_nodup (P : Params) : ((prog8 P).map NStep.row).Nodup := by
  have h : (((prog8 P).map NStep.row).map (List.take 5)).Nodup := by
    have e : ((prog8 P).map NStep.row).map (List.take 5) = ((prog8 ⟨0, 0, 0, 0⟩).map NStep.row).map (List.take 5) := rfl
    rw [e]; decide
  exact List.Pairwise.of_map (List.take 5) (fun a b hab he => hab (by rw [he])) h

/-- with the main theorem of `C01Softmax`: a stream whose rows are the model rows computes the TFLite 8-bit kernel on every row of
    1 … 511 codes (hypotheses as there) -/
theorem rows_eq_model_reference (P : Params) (rows : List (List Int)) (h : modelRows P = some rows)
    (xs : List Int) (mult : Int) (ls : Nat) (diffMin : Int)
    (hne : xs ≠ []) (hlen : xs.length ≤ 511) (hx : ∀ x ∈ xs, P.qmin ≤ x ∧ x ≤ P.qmax)
    (hq1 : -32768 ≤ P.qmin) (hq2 : P.qmax ≤ 32767) (hq : P.qmax = P.qmin + 255) (hz : P.zpOut = P.qmin) (hd : diffMin ≤ 0) :
    ∃ prog, progOfRows rows = some prog ∧
      runRow prog (SoftmaxKernel.expTable8 mult ls diffMin) xs = .ok (SoftmaxKernel.softmaxRow8 xs mult ls diffMin P.qmin P.qmax) := by
  obtain ⟨prog, h1, h2⟩ := rows_eq_model_run P rows h (SoftmaxKernel.expTable8 mult ls diffMin) xs
  exact ⟨prog, h1, by rw [h2]; exact C01Softmax.softmax8_decomposition_eq_reference P xs mult ls diffMin hne hlen hx hq1 hq2 hq hz hd⟩

/-- the rows are sensitive to what the lowering decides: another rounding mode, OFM_SCALE shift, operand zero point or operand of one
    step gives another row (so the comparison cannot pass on such a stream) -/
theorem row_sensitive_witness :
    let s : NStep := w32 .mul (.pass 12) (.pass 10) .tfl 1073741824 31 0
    NStep.row { s with rounding := .natural } ≠ NStep.row s ∧ NStep.row { s with shift := 0 } ≠ NStep.row s ∧
    NStep.row { s with mult := 1 } ≠ NStep.row s ∧ NStep.row { s with bZp := 3 } ≠ NStep.row s ∧
    NStep.row { s with b := some (.pass 11) } ≠ NStep.row s := by decide

/-! ## non-vacuity -/

/-- the model rows of an int8 SOFTMAX (input zero point 3), first two and last -/
example : (modelRows ⟨3, -128, 127, -128⟩).map (fun r => (r.take 2, r.getLast?)) =
    some ([[0, 0, 0, 3, 0, 0, 1, 0, 3, 0, 0, 0, 3, 0, 0, 0, -128, 127], [1, 0, 0, 1, 0, 0, 1, 0, 3, 3, 0, 1, 127, 1, -128, 8, -128, 127]],
          some [4, 1, 29, 1, 5, 2, 1, 0, 0, 0, 1, 0, -128, 0, 0, 0, -128, 127]) := by decide

example : ∃ prog, progOfRows ((prog8 C01Softmax.P8).map NStep.row) = some prog ∧
    runRow prog (SoftmaxKernel.expTable8 1717986918 1 C01Softmax.dm8) [5, -3, 100, 127, -128, 90] =
      runGraph8 C01Softmax.P8 (SoftmaxKernel.expTable8 1717986918 1 C01Softmax.dm8) [5, -3, 100, 127, -128, 90] :=
  rows_eq_model_run C01Softmax.P8 _ (by unfold modelRows; rw [lower_graph8]; rfl) _ _

end VelaVerif.Props.C01SoftmaxLower
