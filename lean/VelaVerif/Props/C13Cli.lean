import VelaVerif.Lemmas.CliOptions
set_option linter.unusedSimpArgs false
/-!
# C13 — the option validation layer of `vela.main` (Model/CliOptions) against the documented rules (Spec/CliOptions)

All statements quantify over every `Opts`: unbounded integer option values, any list of `--config` arguments, any
combination of environment facts.
-/
namespace VelaVerif.Props.C13Cli
open VelaVerif.CliOptions VelaVerif.CliOptions.Spec VelaVerif.Lemmas.CliOptions

/-- the diagnosis is the first rule, in the order the code tests them (`Spec.rulesFor`), that the options violate -/
theorem first_failing_rule_reported (o : Opts) (r : Rule) : validate o = .error r ↔ firstViolated o = some r := by
  rw [firstViolated_eq]; cases validate o <;> simp [errOf]

/-- ... and the options are accepted exactly when none of the applicable rules is violated -/
theorem accepted_iff_no_rule_violated (o : Opts) : (∃ a, validate o = .ok a) ↔ firstViolated o = none := by
  rw [firstViolated_eq]; cases validate o <;> simp [errOf]

/-- step 7 succeeds exactly when both sections are in force and pass the area and size rules (stated on the sections as
    written, before the Sram→OnChipFlash override) -/
theorem selectArch_ok_iff (o : Opts) (a : Accel) :
    (∃ sm, selectArch a o = .ok sm) ↔
      ∃ s m, sysInForce o a = some s ∧ memInForce o a = some m ∧
        (area s m.constPort ≠ .sram ∨ (m.constPort = m.arenaPort ∧ m.arenaPort = m.cachePort)) ∧
        (area s m.arenaPort = .sram ∨ area s m.arenaPort = .dram) ∧ area s m.cachePort = .sram ∧
        0 ≤ o.arenaCacheSize ∧ o.arenaCacheSize ≤ maxAddressOffset a := by
  unfold selectArch
  rw [selectSys_eq, selectMem_eq]
  rcases hs : sysInForce o a with _ | s
  · simp
  rcases hm : memInForce o a with _ | m
  · simp
  simp only [Option.some.injEq, exists_and_left, exists_eq_left']
  have ov := override_checks s m
  constructor
  · rintro ⟨sm, h⟩
    have := checkArch_ok a o _ _ h
    have q := ov.1 ⟨this.2.1, this.2.2.1, this.2.2.2.1⟩
    exact ⟨q.1, q.2.1, q.2.2, this.2.2.2.2.1, this.2.2.2.2.2⟩
  · rintro ⟨q1, q2, q3, h4, h5⟩
    obtain ⟨h1, h2, h3⟩ := ov.2 ⟨q1, q2, q3⟩
    refine ⟨overrideSram s m, ?_⟩
    unfold checkArch
    have h2' : ¬¬(portArea (overrideSram s m).1 (overrideSram s m).2.arenaPort = .sram ∨ portArea (overrideSram s m).1 (overrideSram s m).2.arenaPort = .dram) := fun hh => hh h2
    have h4' : ¬ o.arenaCacheSize < 0 := by omega
    have h5' : ¬ o.arenaCacheSize > maxAddressOffset a := by omega
    simp only [h1, h2', h3, h4', h5', if_false, ne_eq, not_true_eq_false]

/-- accepted ⇔ the complete documented rule set (`Spec.documentedOk`: OPTIONS.md with `.tosa` admitted, plus the rules that
    exist only as error messages) -/
theorem validate_accepts_iff_documented (o : Opts) : (∃ r, validate o = .ok r) ↔ documentedOk o := by
  unfold documentedOk choicesOk validate
  rcases ha : o.accel with _ | a
  · simp
  rcases hal : o.allocator with _ | al
  · simp
  by_cases hb : o.maxBlockdep < 0 ∨ o.maxBlockdep > 3
  · simp only [hb, if_true]
    have : ¬ (0 ≤ o.maxBlockdep ∧ o.maxBlockdep ≤ 3) := by omega
    simp [this]
  have hb' : 0 ≤ o.maxBlockdep ∧ o.maxBlockdep ≤ 3 := by omega
  have hb2 : ¬(o.maxBlockdep < 0 ∨ 3 < o.maxBlockdep) := hb
  rcases hop : o.optimise with _ | op
  · simp [hb2]
  simp only [hb, if_false, hb', Option.isSome_some, true_and, Option.some.injEq, exists_eq_left']
  cases hr : o.supportedOpsReport with
  | true => simp
  | false =>
  cases hl : o.listConfigFiles with
  | true => simp
  | false =>
  simp only [Bool.false_eq_true, if_false, false_or]
  unfold docCompile undocumentedExtras
  rcases hn : o.network with _ | sfx
  · simp
  rw [checkConfigs_eq]
  rcases hc : firstBadConfig o.configs with _ | rc
  rotate_left
  · have : ¬ (∀ c ∈ o.configs, c.endsIni = true ∧ c.readable = true) := by
      rw [← firstBadConfig_none, hc]; simp
    simp [this]
  have hall := (firstBadConfig_none _).1 hc
  simp only []
  by_cases hA : o.cpuTensorAlignment < 16 ∨ notPow2 o.cpuTensorAlignment.toNat = true
  · simp only [hA, if_true]
    constructor
    · simp
    · rintro ⟨⟨-, -, ⟨h16, hp2⟩, -⟩, -⟩
      exfalso
      rcases hA with hA | hA
      · omega
      · exact (notPow2_iff (by omega)).1 hA hp2
  have hA' := not_or.1 hA
  have h16 : 16 ≤ o.cpuTensorAlignment := by omega
  have hp2 : Nat.isPowerOfTwo o.cpuTensorAlignment.toNat :=
    Classical.not_not.1 ((not_congr (notPow2_iff (by omega))).1 hA'.2)
  simp only [hA, if_false]
  by_cases hR : o.recursionLimit < 1 ∨ o.recursionLimit > 2147483647
  · simp only [hR, if_true]
    constructor
    · simp
    · rintro ⟨-, -, -, hrl, -⟩
      omega
  simp only [hR, if_false]
  by_cases hS : ∃ sm, selectArch a o = .ok sm
  rotate_left
  · have hE : ∀ x, ¬ ((match selectArch a o with
        | .error d => (Except.error d : Except Rule Accepted)
        | .ok (sys, mem) =>
          if o.networkExists = false then .error .networkFile else
          match frontendOf sfx with
          | .error d => .error d
          | .ok frontend => .ok (.compile {
              frontend, imx93 := o.configs.isEmpty && o.sysDefault && o.memDefault, accel := a, axi0 := sys.axi0, axi1 := sys.axi1,
              constPort := mem.constPort, arenaPort := mem.arenaPort, cachePort := mem.cachePort,
              maxBlockdep := o.maxBlockdep.toNat, arenaCacheSize := o.arenaCacheSize.toNat,
              cpuTensorAlignment := o.cpuTensorAlignment.toNat, recursionLimit := o.recursionLimit.toNat,
              hillclimbMaxIterations := o.hillclimbMaxIterations, allocator := al, optimise := op,
              verbose := applyVerboseAll o })) = .ok x) := by
      intro x
      rcases hsa : selectArch a o with r | sm
      · simp
      · exact absurd ⟨sm, hsa⟩ hS
    constructor
    · rintro ⟨x, hx⟩
      exact absurd hx (hE x)
    · rintro ⟨⟨-, -, -, h0, hsys, hmem⟩, -, -, -, hmax, hareas⟩
      exfalso
      apply hS
      rw [selectArch_ok_iff]
      obtain ⟨s, hs⟩ := Option.isSome_iff_exists.1 hsys
      obtain ⟨m, hm⟩ := Option.isSome_iff_exists.1 hmem
      have := hareas s m hs hm
      refine ⟨s, m, hs, hm, this.1, this.2.1, this.2.2, h0, ?_⟩
      unfold maxAddressOffset
      exact hmax
  obtain ⟨⟨sys, mem⟩, hsa⟩ := hS
  obtain ⟨s, m, hs, hm, q1, q2, q3, h0, hmax⟩ := (selectArch_ok_iff o a).1 ⟨_, hsa⟩
  simp only [hsa]
  have hdoc : (o.network.isSome = true ∧ (∀ c ∈ o.configs, c.endsIni = true ∧ c.readable = true) ∧
      (16 ≤ o.cpuTensorAlignment ∧ Nat.isPowerOfTwo o.cpuTensorAlignment.toNat) ∧ 0 ≤ o.arenaCacheSize ∧
      (sysInForce o a).isSome = true ∧ (memInForce o a).isSome = true) := by
    simp [hn, hs, hm, h0, h16, hp2]
    exact hall
  have hext : (1 ≤ o.recursionLimit ∧ o.recursionLimit ≤ 2147483647) ∧
      o.arenaCacheSize ≤ (if a.isU65 then 2 ^ 40 else 2 ^ 32 : Nat) ∧
      (∀ s m, sysInForce o a = some s → memInForce o a = some m →
        (area s m.constPort ≠ .sram ∨ (m.constPort = m.arenaPort ∧ m.arenaPort = m.cachePort)) ∧
        (area s m.arenaPort = .sram ∨ area s m.arenaPort = .dram) ∧ area s m.cachePort = .sram) := by
    refine ⟨by omega, ?_, ?_⟩
    · unfold maxAddressOffset at hmax; exact hmax
    · intro s' m' hs' hm'
      rw [hs] at hs'; rw [hm] at hm'
      cases hs'; cases hm'
      exact ⟨q1, q2, q3⟩
  cases hne : o.networkExists with
  | false =>
    simp [hn] at hdoc ⊢
  | true =>
    cases sfx with
    | other => simp [frontendOf]
    | tflite => rw [hn] at hdoc; simp [frontendOf, hdoc, hext]; exact ⟨hall, hext.2.2⟩
    | tosa => rw [hn] at hdoc; simp [frontendOf, hdoc, hext]; exact ⟨hall, hext.2.2⟩


/-- every option vector ends in an acceptance or in one of the four named diagnoses -/
theorem validate_total_diagnosed (o : Opts) :
    (∃ a, validate o = .ok a) ∨
      (∃ r, validate o = .error r ∧ (r.kind = .usage ∨ r.kind = .inputFile ∨ r.kind = .cliOption ∨ r.kind = .configOption)) := by
  rcases h : validate o with r | a
  · right; refine ⟨r, rfl, ?_⟩; cases r <;> simp [Rule.kind]
  · exact Or.inl ⟨a, rfl⟩

/-- a rejection by kind: usage errors come from exactly these rules, etc. (the kind is a function of the rule) -/
theorem kind_of_first_violated (o : Opts) (r : Rule) (h : validate o = .error r) :
    firstViolated o = some r ∧ violated o r = true := by
  have h1 := (first_failing_rule_reported o r).1 h
  refine ⟨h1, ?_⟩
  unfold firstViolated at h1
  exact List.find?_some h1

/-- what the later stages rely on: every accepted compilation has an alignment that is a power of two ≥ 16, a block
    dependency in 0..3, an arena cache size within the address range of the accelerator (≤ 2^32 on Ethos-U55, ≤ 2^40 on
    Ethos-U65), a recursion limit `sys.setrecursionlimit` takes, constants outside the Sram, the arena in Sram or Dram, the
    cache in Sram; and the numbers handed on are the option values themselves -/
theorem accepted_config_in_ranges (o : Opts) (c : Config) (h : validate o = .ok (.compile c)) :
    (16 ≤ c.cpuTensorAlignment ∧ Nat.isPowerOfTwo c.cpuTensorAlignment ∧ (c.cpuTensorAlignment : Int) = o.cpuTensorAlignment) ∧
    (c.maxBlockdep ≤ 3 ∧ (c.maxBlockdep : Int) = o.maxBlockdep) ∧
    (c.arenaCacheSize ≤ maxAddressOffset c.accel ∧ c.arenaCacheSize ≤ 2 ^ 40 ∧ (c.accel.isU65 = false → c.arenaCacheSize ≤ 2 ^ 32) ∧
      (c.arenaCacheSize : Int) = o.arenaCacheSize) ∧
    (1 ≤ c.recursionLimit ∧ c.recursionLimit < 2 ^ 31 ∧ (c.recursionLimit : Int) = o.recursionLimit) ∧
    (portArea ⟨c.axi0, c.axi1⟩ c.constPort ≠ .sram ∧
      (portArea ⟨c.axi0, c.axi1⟩ c.arenaPort = .sram ∨ portArea ⟨c.axi0, c.axi1⟩ c.arenaPort = .dram) ∧
      portArea ⟨c.axi0, c.axi1⟩ c.cachePort = .sram) ∧
    o.accel = some c.accel ∧ o.allocator = some c.allocator ∧ o.optimise = some c.optimise ∧
    c.hillclimbMaxIterations = o.hillclimbMaxIterations ∧
    c.verbose = (if o.verboseAll then Verbose.all else o.verbose) ∧
    (c.imx93 = true ↔ o.configs = [] ∧ o.sysDefault = true ∧ o.memDefault = true) := by
  unfold validate at h
  split at h
  · cases h
  rename_i a ha
  split at h
  · cases h
  rename_i al hal
  split at h
  · cases h
  rename_i hb
  split at h
  · cases h
  rename_i op hop
  split at h
  · cases h
  rename_i hr
  split at h
  · cases h
  rename_i hl
  split at h
  · cases h
  rename_i sfx hn
  split at h
  · cases h
  rename_i hcc
  split at h
  · cases h
  rename_i hA
  split at h
  · cases h
  rename_i hR
  split at h
  · cases h
  rename_i sys mem hsa
  split at h
  · cases h
  rename_i hne
  split at h
  · cases h
  rename_i fe hfe
  cases h
  have hsel : ∃ sm0, checkArch a o sm0 = .ok (sys, mem) := by
    unfold selectArch at hsa
    repeat' split at hsa
    all_goals first | cases hsa | skip
    exact ⟨_, hsa⟩
  obtain ⟨sm0, hck⟩ := hsel
  obtain ⟨e, k1, k2, k3, k4, k5⟩ := checkArch_ok a o sm0 (sys, mem) hck
  subst e
  have hA' := not_or.1 hA
  have h16 : 16 ≤ o.cpuTensorAlignment := by omega
  have hp2 : Nat.isPowerOfTwo o.cpuTensorAlignment.toNat :=
    Classical.not_not.1 ((not_congr (notPow2_iff (by omega))).1 hA'.2)
  have hmax : maxAddressOffset a ≤ 2 ^ 40 := by unfold maxAddressOffset; split <;> omega
  refine ⟨⟨by simp only []; omega, hp2, by simp only []; omega⟩, ⟨by simp only []; omega, by simp only []; omega⟩,
    ⟨by simp only []; omega, by simp only []; omega, ?_, by simp only []; omega⟩,
    ⟨by simp only []; omega, by simp only []; omega, by simp only []; omega⟩, ⟨k1, k2, k3⟩, ha, hal, hop, rfl, rfl, ?_⟩
  · intro hu
    simp only [] at hu ⊢
    have : maxAddressOffset a = 2 ^ 32 := by unfold maxAddressOffset; simp [hu]
    omega
  · simp only [Bool.and_eq_true, List.isEmpty_iff, and_assoc]

/-- the ending the model predicts passes the (more liberal) judge the harness applies to observed endings -/
theorem model_outcome_consistent (o : Opts) :
    consistent o (match validate o with | .ok _ => none | .error r => some r.kind) = true := by
  rcases h : validate o with r | a
  · have h1 := (first_failing_rule_reported o r).1 h
    unfold firstViolated at h1
    simp only [consistent, List.any_eq_true]
    exact ⟨r, List.mem_of_find?_eq_some h1, by simp [List.find?_some h1]⟩
  · have h1 := (accepted_iff_no_rule_violated o).1 ⟨a, h⟩
    unfold firstViolated at h1
    simp only [consistent, List.all_eq_true]
    intro r hr
    have := List.find?_eq_none.1 h1 r hr
    simp [this]

/-! ## OPTIONS.md read literally: where the code differs -/

/-- the code enforces every documented rule: an accepted `.tflite` compilation satisfies OPTIONS.md as written -/
theorem accepted_tflite_is_documented (o : Opts) (h : ∃ r, validate o = .ok r) (ht : o.network = some .tflite) :
    documentedLiteral o := by
  obtain ⟨hc, hrest⟩ := (validate_accepts_iff_documented o).1 h
  refine ⟨hc, ?_⟩
  rcases hrest with h1 | h1 | ⟨a, ha, hd, -, -⟩
  · exact Or.inl h1
  · exact Or.inr (Or.inl h1)
  · exact Or.inr (Or.inr ⟨a, ha, hd, ht⟩)

/-- ... and OPTIONS.md as written plus the undocumented extras is enough to be accepted -/
theorem literal_and_extras_accepted (o : Opts) (hl : documentedLiteral o)
    (hx : ∀ a, o.accel = some a → o.supportedOpsReport = false → o.listConfigFiles = false → undocumentedExtras o a) :
    ∃ r, validate o = .ok r := by
  rw [validate_accepts_iff_documented]
  obtain ⟨hc, hrest⟩ := hl
  refine ⟨hc, ?_⟩
  cases hr : o.supportedOpsReport with
  | true => exact Or.inl rfl
  | false =>
  cases hli : o.listConfigFiles with
  | true => exact Or.inr (Or.inl rfl)
  | false =>
  rcases hrest with h1 | h1 | ⟨a, ha, hd, ht⟩
  · rw [hr] at h1; cases h1
  · rw [hli] at h1; cases h1
  · exact Or.inr (Or.inr ⟨a, ha, hd, Or.inl ht, hx a ha hr hli⟩)

/-- a plain compilation: `vela n.tflite` with every option at its default -/
def defaults : Opts :=
  { supportedOpsReport := false, listConfigFiles := false, network := some .tflite, networkExists := true, configs := [],
    sysDefault := true, memDefault := true, sysFile := none, memFile := none, accel := some .u65_256,
    allocator := some .hillClimb, optimise := some .performance, maxBlockdep := 3, arenaCacheSize := 393216,
    cpuTensorAlignment := 16, recursionLimit := 4000, hillclimbMaxIterations := 99999, verboseAll := false,
    verbose := ⟨false, false, false, false, false, false, false, false, false, false, false, false, false, false⟩ }

/-- OPTIONS.md "Network: the file has to be a `.tflite` file" — the code also takes `.tosa` -/
theorem literal_tflite_only_witness :
    (∃ r, validate { defaults with network := some .tosa } = .ok r) ∧ ¬ documentedLiteral { defaults with network := some .tosa } := by
  refine ⟨⟨_, rfl⟩, ?_⟩
  rintro ⟨-, h | h | ⟨a, -, -, h⟩⟩ <;> simp [defaults] at h

/-- OPTIONS.md "Arena Cache Size — Choices: [>= 0]" — the code also bounds it by the address range (2^40 + 1 on an
    Ethos-U65 is documented as valid and rejected with ConfigOptionError) -/
theorem literal_arena_unbounded_witness :
    documentedLiteral { defaults with arenaCacheSize := 2 ^ 40 + 1 } ∧
      validate { defaults with arenaCacheSize := 2 ^ 40 + 1 } = .error .arenaTooLarge := by
  refine ⟨⟨by simp [choicesOk, defaults], Or.inr (Or.inr ⟨.u65_256, rfl, ?_, rfl⟩)⟩, by rfl⟩
  refine ⟨rfl, by simp [defaults], ⟨by simp [defaults], ⟨4, by simp [defaults]⟩⟩, by simp [defaults], rfl, rfl⟩

/-- OPTIONS.md says nothing about which memory a port may name: the shipped `Dedicated_Sram` mode on the Ethos-U55
    default system configuration (Sram + OffChipFlash) satisfies every documented rule and is rejected
    ("arena_mem_area=OffChipFlash (must be Sram or Dram)") -/
theorem literal_memory_areas_witness :
    let o := { defaults with accel := some .u55_128, configs := [⟨true, true⟩], memDefault := false,
                             memFile := some ⟨.axi1, .axi1, .axi0⟩ }
    documentedLiteral o ∧ validate o = .error .arenaArea := by
  refine ⟨⟨by simp [choicesOk, defaults], Or.inr (Or.inr ⟨.u55_128, rfl, ?_, rfl⟩)⟩, by rfl⟩
  refine ⟨rfl, by simp [defaults], ⟨by simp [defaults], ⟨4, by simp [defaults]⟩⟩, by simp [defaults], rfl, rfl⟩

/-! ## non-vacuity: accepted, each diagnosis kind, normalisation, rule order -/

example : ∃ c, validate defaults = .ok (.compile c) ∧ c.imx93 = true ∧ c.frontend = .tflite ∧ c.arenaCacheSize = 393216 :=
  ⟨_, rfl, rfl, rfl, rfl⟩
example : documentedOk defaults := (validate_accepts_iff_documented defaults).1 ⟨_, rfl⟩
example : validate { defaults with cpuTensorAlignment := 24 } = .error .alignment := by rfl
example : validate { defaults with cpuTensorAlignment := 2 ^ 70 } = validate { defaults with cpuTensorAlignment := 2 ^ 70 } ∧
    (∃ c, validate { defaults with cpuTensorAlignment := 1024 } = .ok (.compile c) ∧ c.cpuTensorAlignment = 1024) :=
  ⟨rfl, _, rfl, rfl⟩
example : validate { defaults with cpuTensorAlignment := -16 } = .error .alignment := by rfl
example : validate { defaults with maxBlockdep := 4 } = .error .blockdepChoice := by rfl
example : validate { defaults with arenaCacheSize := -1 } = .error .arenaNegative := by rfl
example : ∃ c, validate { defaults with arenaCacheSize := 2 ^ 40 } = .ok (.compile c) := ⟨_, rfl⟩
example : validate { defaults with arenaCacheSize := 2 ^ 32 + 1, accel := some .u55_64 } = .error .arenaTooLarge := by rfl
example : validate { defaults with recursionLimit := 0 } = .error .recursionLimit := by rfl
example : validate { defaults with recursionLimit := 2 ^ 31 } = .error .recursionLimit := by rfl
example : validate { defaults with sysDefault := false } = .error .sysNeedsConfig := by rfl
example : validate { defaults with sysDefault := false, configs := [⟨true, true⟩] } = .error .sysSection := by rfl
example : validate { defaults with configs := [⟨true, true⟩, ⟨false, true⟩] } = .error .configIni := by rfl
example : validate { defaults with configs := [⟨true, false⟩, ⟨false, true⟩] } = .error .configReadable := by rfl
example : validate { defaults with network := some .other } = .error .networkSuffix := by rfl
example : validate { defaults with network := none } = .error .networkRequired := by rfl
example : validate { defaults with network := none, listConfigFiles := true, cpuTensorAlignment := 3 } = .ok .listing := by rfl
/-- order: the alignment is tested after the config files and before the architecture -/
example : validate { defaults with cpuTensorAlignment := 3, configs := [⟨false, true⟩], sysDefault := false } = .error .configIni := by rfl
example : validate { defaults with cpuTensorAlignment := 3, sysDefault := false, network := some .other } = .error .alignment := by rfl
/-- the Sram→OnChipFlash override makes an all-on-one-Sram-port mode legal (shipped `Sram_Only`) -/
example : ∃ c, validate { defaults with accel := some .u55_128, configs := [⟨true, true⟩], memDefault := false,
                                          memFile := some ⟨.axi0, .axi0, .axi0⟩ } = .ok (.compile c) ∧
    c.constPort = .axi1 ∧ c.axi1 = .onChipFlash := ⟨_, rfl, rfl, rfl⟩
/-- `--verbose-all` -/
example : ∃ c, validate { defaults with verboseAll := true } = .ok (.compile c) ∧ c.verbose = Verbose.all := ⟨_, rfl, rfl⟩

end VelaVerif.Props.C13Cli
