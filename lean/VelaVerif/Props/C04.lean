import VelaVerif.Lemmas.RangeSet
import VelaVerif.Lemmas.Waits
import VelaVerif.Lemmas.Blockdep
import VelaVerif.Lemmas.NpuAccess
import VelaVerif.Lemmas.Conflicts
import VelaVerif.Spec.Conflicts
/-!
# C04 — conflicting NPU/DMA accesses are always separated by a wait or block dependency

Models: `Model/RangeSet.lean` (range_set.py), `Model/Waits.lean` (get_wait_dependency + the loop of
generate_command_stream), `Model/Blockdep.lean` (calc_blockdep).  Specification: the asynchronous
two-queue machine of `Spec/AsyncHw.lean`.
-/
namespace VelaVerif.Props.C04
open VelaVerif VelaVerif.RangeSet VelaVerif.Waits VelaVerif.AsyncHw
open VelaVerif.Lemmas.RangeSet VelaVerif.Lemmas.Waits VelaVerif.Lemmas.Blockdep

/-! ## range_set.py -/

/-- `RangeSet.intersects` on what `RangeSet` maintains (ascending starts, non-empty ranges): it answers
    "some range of `a` overlaps some range of `b`" and its `assert ar[0] != br[0]` cannot fire. -/
theorem intersects_correct (a b : List Range) (ha : WF a) (hb : WF b) :
    (intersects a b = some true ↔ ∃ r ∈ a, ∃ s ∈ b, max r.1 s.1 < min r.2 s.2) ∧ intersects a b ≠ none := by
  rw [intersects_eq a b ha hb]
  refine ⟨?_, by simp⟩
  rw [← overlapsAny_iff]
  simp

/-- the same against the executable specification the check applies to the real function's answers -/
theorem intersects_eq_spec (a b : List Range) (ha : WF a) (hb : WF b) :
    intersects a b = some (RangeOverlap.overlapsAny a b) := by
  rw [intersects_eq a b ha hb, overlapsAny_eq_spec]

/-- The sweep is *not* correct for unsorted lists: it discards `(0,5)` without comparing it. -/
theorem intersects_unsorted_witness :
    intersects [(10, 20), (0, 5)] [(1, 2)] = some false ∧
      ∃ r ∈ [((10 : Int), (20 : Int)), (0, 5)], ∃ s ∈ [((1 : Int), (2 : Int))], max r.1 s.1 < min r.2 s.2 := by
  constructor
  · simp [intersects, overlapB]; omega
  · exact ⟨(0, 5), by simp, (1, 2), by simp, by decide⟩

/-- …but every `RangeSet` the code can build satisfies the precondition: the constructor yields at
    most one non-empty range, `|` / `|=` sort and keep every range. -/
theorem rangeset_invariant :
    (∀ s e l, mk s e = some l → WF l) ∧
    (∀ a b, WF a → WF b → WF (union a b) ∧ ∀ r, r ∈ union a b ↔ r ∈ a ∨ r ∈ b) :=
  ⟨fun _ _ _ h => wf_mk h, fun _ _ ha hb => ⟨wf_union ha hb, fun _ => mem_union⟩⟩

/-- `MemoryAccessSet.conflicts` on sets built with `add` from well-formed range sets: true exactly for a
    read-after-write, write-after-read or write-after-write overlap in some region; never an assertion. -/
theorem conflicts_correct (s o : AccessSet) (hs : AWF s) (ho : AWF o) :
    (s.conflicts o = some true ↔
      (mOverlaps s.write o.read ∨ mOverlaps s.read o.write ∨ mOverlaps s.write o.write)) ∧
    s.conflicts o ≠ none :=
  Lemmas.RangeSet.conflicts_correct s o hs ho

theorem access_set_invariant :
    AWF AccessSet.empty ∧ ∀ s m w, AWF s → MWF m → AWF (AccessSet.add s m w) :=
  ⟨awf_empty, fun _ _ w hs hm => awf_add hs hm w⟩

example : WF [((0 : Int), (10 : Int)), (20, 30)] := by
  refine ⟨by simp, ?_⟩
  intro r hr; simp at hr; rcases hr with rfl | rfl <;> decide

example : intersects [(0, 10), (20, 30)] [(12, 25)] = some true := by simp [intersects, overlapB]; omega

/-! ## get_wait_dependency against the asynchronous machine -/

/-- `scan` (the loop over `outstanding_ops`) returns what follows the *latest* conflicting tracked
    operation, and nothing after it conflicts. -/
theorem scan_exact {Op : Type} (conf : Op → Op → Bool) (op : Op) (l r : List Op) (h : scan conf op l = some r) :
    (∃ pre x, l = pre ++ x :: r ∧ conf x op = true) ∧ ∀ y ∈ r, conf y op = false :=
  ⟨scan_some_split h, (scan_some h).2⟩

/-- **wait_safety.**  For every operation list, every conflict relation and every execution of the
    machine (every completion schedule): the command sequence emitted for the waits computed by
    `get_wait_dependency` never issues an operation while a conflicting operation of the other queue
    is outstanding — provided the hardware queues are not deeper than `max_outstanding_dma` /
    `max_outstanding_kernels` assume. -/
theorem wait_safety {Op : Type} (hw : Caps) (maxDma maxKern : Nat) (conf : Op → Op → Bool)
    (hd : hw.maxDma ≤ maxDma) (hk : hw.maxKern ≤ maxKern) (ops : List (Bool × Op)) :
    HazardFree hw conf (emit maxDma maxKern conf ops) := by
  intro s r
  exact lazy_sound_from (s := initial _)
    (lazy_emit conf hd hk ops ⟨[], []⟩ [] [] (List.suffix_refl _) (List.suffix_refl _)) s r

/-- one-step form of the invariant: "the really outstanding operations of each queue are a suffix of a
    bound that still passes the closed-form check" is preserved by every machine step and excludes a hazard -/
theorem wait_invariant_step {Op : Type} (caps : Caps) (conf : Op → Op → Bool) (s t : St Op)
    (hs : Inv caps conf s) (st : Step caps s t) : Inv caps conf t ∧ ¬ Hazard caps conf s :=
  ⟨inv_step hs st, inv_no_hazard hs⟩

/-- The bounded-outstanding clause is necessary: on hardware that lets a third kernel operation in,
    `D K K D K D` with the first kernel conflicting with the last DMA reaches a hazard
    (the model has dropped the first kernel from its list when the third one was issued). -/
theorem wait_safety_needs_bound_witness :
    let conf : Nat → Nat → Bool := fun y o => y == 1 && o == 5
    let ops : List (Bool × Nat) := [(true, 0), (false, 1), (false, 2), (true, 3), (false, 4), (true, 5)]
    ¬ HazardFree ⟨1, 3⟩ conf (emit 1 2 conf ops) := by
  intro conf ops hfree
  have hl : lazyCheck ⟨1, 3⟩ conf (emit 1 2 conf ops) [] [] = false := by decide
  obtain ⟨t, r, hz⟩ := lazy_complete_from (caps := ⟨1, 3⟩) (conf := conf) _ [] [] hl
  exact hfree t r hz

/-- The closed-form check used on real streams is exact: it accepts a command list iff no execution
    of the machine reaches a hazard. -/
theorem closed_form_exact {Op : Type} (caps : Caps) (conf : Op → Op → Bool) (prog : List (Cmd Op)) :
    lazyCheck caps conf prog [] [] = true ↔ HazardFree caps conf prog := by
  constructor
  · intro h s r
    exact lazy_sound_from (s := initial prog) h s r
  · intro h
    cases hl : lazyCheck caps conf prog [] [] with
    | true => rfl
    | false =>
      obtain ⟨t, r, hz⟩ := lazy_complete_from (caps := caps) (conf := conf) prog [] [] hl
      exact absurd hz (h t r)

/-- A coarser conflict relation (Vela's per-tile address hulls) protects every finer one (exact bytes). -/
theorem conflict_monotone {Op : Type} (caps : Caps) (conf conf' : Op → Op → Bool)
    (hsub : ∀ y o, conf' y o = true → conf y o = true) (prog : List (Cmd Op))
    (h : HazardFree caps conf prog) : HazardFree caps conf' prog := by
  intro s r hz
  apply h s r
  obtain ⟨pr, dq, kq⟩ := s
  match pr, hz with
  | .dma o :: p, hz => exact ⟨hz.1, hz.2.imp fun y hy => ⟨hy.1, hsub _ _ hy.2⟩⟩
  | .kern o :: p, hz => exact ⟨hz.1, hz.2.imp fun y hy => ⟨hy.1, hsub _ _ hy.2⟩⟩
  | [], hz => exact hz
  | .dmaWait _ :: _, hz => exact hz
  | .kernWait _ :: _, hz => exact hz

/-- The limits Vela assumes (regenerated from `ArchitectureFeatures`) are the hardware limits written
    in `Spec/Conflicts.lean` for all six accelerators, so `wait_safety` applies to each of them. -/
theorem model_caps_within_hw :
    ∀ a ∈ Gen.accelerators, (Conflicts.hwCaps a.isU65).maxDma ≤ a.maxOutstandingDma ∧
      (Conflicts.hwCaps a.isU65).maxKern ≤ a.maxOutstandingKernels := by decide

/-- The SHRAM geometry the Spec uses (hand-written bank counts, LUT in the last two banks) is the one the
    regenerated accelerator table reports: a change of Vela's view of the SHRAM shows up here, while the Spec
    keeps judging streams against the hardware. -/
theorem shram_table_agrees :
    ∀ a ∈ Gen.accelerators, a.shramBanks = Conflicts.hwShramBanks a.name ∧
      a.shramBankSize = Conflicts.bankBytes ∧
      a.shramLutAddress = (Conflicts.hwShram a.name).lutBase ∧ a.shramLutSize = (Conflicts.hwShram a.name).lutBytes ∧
      a.shramSizeBytes = (Conflicts.hwShram a.name).totalBytes := by decide

theorem wait_safety_accelerators {Op : Type} (conf : Op → Op → Bool) (ops : List (Bool × Op)) :
    ∀ a ∈ Gen.accelerators,
      HazardFree (Conflicts.hwCaps a.isU65) conf (emit a.maxOutstandingDma a.maxOutstandingKernels conf ops) :=
  fun a ha => wait_safety _ _ _ conf (model_caps_within_hw a ha).1 (model_caps_within_hw a ha).2 ops

-- non-vacuity: a DMA followed by a kernel that reads what it wrote gets DMA_WAIT 0 …
example : emit 1 2 (fun (y o : Nat) => y == 0 && o == 1) [(true, 0), (false, 1)] =
    [Cmd.dma 0, Cmd.dmaWait 0, Cmd.kern 1] := by decide
-- … and without it the machine reaches a hazard
example : lazyCheck ⟨1, 2⟩ (fun (y o : Nat) => y == 0 && o == 1) [Cmd.dma 0, Cmd.kern 1] [] [] = false := by decide

/-! ## Vela's conflict relation contains the exact one; the Spec's overlap test is exact -/

open VelaVerif.NpuAccess VelaVerif.Lemmas.NpuAccess in
/-- **hull_covers.**  The address range `get_address_range` computes for a box whose corners lie in one tile
    (as `get_address_ranges` / `get_address_ranges_for_area` call it) contains every byte of every element of
    the box: NHWC and NHCWB16, non-negative y/x strides, channel-brick stride of at least one brick. -/
theorem hull_covers (fm : FMap) (s : Shape3) (y0 x0 c0 y1 x1 c1 y x c : Int)
    (hsh : 0 ≤ s.height) (hsx : 0 ≤ sX fm s) (hsc : 16 * fm.elemBytes ≤ sC fm s) (hes : 0 < fm.elemBytes)
    (htile : tileOf fm y0 x0 = tileOf fm y1 x1)
    (hy : y0 ≤ y ∧ y ≤ y1) (hx : x0 ≤ x ∧ x ≤ x1) (hc : c0 ≤ c ∧ c ≤ c1) :
    (getAddressRange fm s y0 x0 c0 y1 x1 c1).address ≤ getAddress fm s y x c ∧
    getAddress fm s y x c + fm.elemBytes ≤
      (getAddressRange fm s y0 x0 c0 y1 x1 c1).address + (getAddressRange fm s y0 x0 c0 y1 x1 c1).length :=
  Lemmas.NpuAccess.hull_covers fm s y0 x0 c0 y1 x1 c1 y x c hsh hsx hsc hes htile hy hx hc

open VelaVerif.NpuAccess VelaVerif.Lemmas.NpuAccess in
/-- the default strides of `get_strides` meet the hypotheses of `hull_covers` -/
theorem default_strides_ok (fm : FMap) (hs : fm.strides = none) (hes : 0 < fm.elemBytes)
    (hw : 1 ≤ fm.shape.width) (hd : 0 ≤ fm.shape.depth) :
    0 ≤ (getStrides fm).height ∧ 0 ≤ sX fm (getStrides fm) ∧ 16 * fm.elemBytes ≤ sC fm (getStrides fm) := by
  unfold getStrides sX sC
  simp only [hs]
  cases hl : fm.nhcwb16 with
  | false =>
    simp only [Bool.not_false, if_true, Bool.false_eq_true, if_false]
    have h1 : 0 ≤ fm.shape.depth * fm.elemBytes := Int.mul_nonneg hd (by omega)
    have h2 : 0 ≤ fm.shape.width * (fm.shape.depth * fm.elemBytes) := Int.mul_nonneg (by omega) h1
    exact ⟨h2, h1, Int.le_refl _⟩
  | true =>
    simp only [Bool.not_true, Bool.false_eq_true, if_false, if_true]
    have hr : 0 ≤ roundUp fm.shape.depth 16 := by
      unfold roundUp
      have : 0 ≤ (fm.shape.depth + 16 - 1) / 16 := Int.ediv_nonneg (by omega) (by omega)
      omega
    have h1 : 0 ≤ fm.elemBytes * fm.shape.width := Int.mul_nonneg (by omega) (by omega)
    have h3 : 16 * fm.elemBytes * 1 ≤ 16 * fm.elemBytes * fm.shape.width :=
      Int.mul_le_mul_of_nonneg_left hw (by omega)
    refine ⟨Int.mul_nonneg h1 hr, by omega, by omega⟩

open VelaVerif.Conflicts VelaVerif.Lemmas.Conflicts in
/-- The byte-overlap test the Spec applies to decoded operations (hull pre-filter, sort, sweep) is the
    byte-level statement: two piece lists overlap iff some byte lies in a piece of each. -/
theorem spec_overlap_exact (x y : List Footprint.Piece) :
    piecesOverlap x y = true ↔ ∃ p ∈ x, ∃ q ∈ y, ∃ b, p.addr ≤ b ∧ b < p.addr + p.len ∧ q.addr ≤ b ∧ b < q.addr + q.len :=
  piecesOverlap_iff x y

open VelaVerif.Conflicts in
/-- … and `conflict` is RAW ∨ WAR ∨ WAW on such a byte of one region. -/
theorem spec_conflict_exact (x y : List Mem.Access) :
    conflict x y = true ↔ ∃ a ∈ x, ∃ b ∈ y, a.region = b.region ∧ (a.write = true ∨ b.write = true) ∧
      piecesOverlap a.pieces b.pieces = true := by
  simp [conflict, accessConflict, List.any_eq_true, and_assoc]

example : Conflicts.piecesOverlap [⟨0, 16, 0⟩, ⟨64, 16, 0⟩] [⟨70, 4, 0⟩] = true := by
  rw [spec_overlap_exact]
  exact ⟨⟨64, 16, 0⟩, by simp, ⟨70, 4, 0⟩, by simp, 70, by decide, by decide, by decide, by decide⟩

/-! ## calc_blockdep -/

open VelaVerif.Blockdep VelaVerif.NpuAccess in
/-- The early returns of `calc_blockdep`. -/
theorem blockdep_early_returns (a : Gen.AccRow) (prev op : BlockOp) :
    calcBlockdep a none op = some 0 ∧
    (prev.usesLut = true → a.shramReservedUnusedBanks = 0 → op.usesLut = false →
      calcBlockdep a (some prev) op = some 0) ∧
    (∀ p, classify a (some prev) op = some (Path.both, p) → calcBlockdep a (some prev) op = some 0) ∧
    (∀ p, classify a (some prev) op = some (Path.noOverlap, p) → calcBlockdep a (some prev) op = some Gen.maxBlockdep) ∧
    (∀ p, classify a (some prev) op = some (Path.broadcastIfm2, p) → calcBlockdep a (some prev) op = some 0) := by
  refine ⟨by simp [calcBlockdep, classify], ?_, ?_, ?_, ?_⟩
  · intro h1 h2 h3
    simp [calcBlockdep, classify, h1, h2, h3]
  · intro p h; simp [calcBlockdep, h]
  · intro p h; simp [calcBlockdep, h]
  · intro p h; simp [calcBlockdep, h]

open VelaVerif.Blockdep VelaVerif.NpuAccess in
/-- `calc_blockdep` takes the "both overlap → 0" and "none overlaps → MAX_BLOCKDEP" exits exactly on the
    overlap tests of the source (`ifmOverlaps` / `ifm2Overlaps` = `range_lists_overlap` of the per-tile
    address ranges). -/
theorem blockdep_overlap_exits (a : Gen.AccRow) (prev op : BlockOp)
    (hl : ¬ (prev.usesLut = true ∧ a.shramReservedUnusedBanks = 0 ∧ op.usesLut = false)) :
    (ifmOverlaps prev op = true → ifm2Overlaps prev op = true → calcBlockdep a (some prev) op = some 0) ∧
    (ifmOverlaps prev op = false → ifm2Overlaps prev op = false →
      calcBlockdep a (some prev) op = some Gen.maxBlockdep) := by
  constructor
  · intro h1 h2
    simp [calcBlockdep, classify, hl, h1, h2]
  · intro h1 h2
    simp [calcBlockdep, classify, hl, h1, h2]

open VelaVerif.Blockdep VelaVerif.NpuAccess in
/-- **blockdep_safe.**  On the loop path: if forward job `f` of the operation and the `k`-th block from the
    end of the previous operation may be in flight together under the returned value (`f + k <
    calc_blockdep`), then the input volume of job `f` and the output volume of that block do not
    intersect (in the sense of the code's own `intersects`: coordinates when IFM and previous OFM have the
    same shape and tiles, per-row address ranges otherwise).  The value never exceeds `MAX_BLOCKDEP`. -/
theorem blockdep_safe (a : Gen.AccRow) (prev op : BlockOp) (c : LoopCtx) (bd : Nat)
    (hc : classify a (some prev) op = some (Path.loop, some c))
    (hb : calcBlockdep a (some prev) op = some bd) :
    bd ≤ Gen.maxBlockdep ∧
    ∀ f k, f + k < bd → ∀ ia oa, c.inArea f = some (some ia) → c.outArea k = some (some oa) →
      c.hit ia oa = false := by
  simp only [calcBlockdep, hc] at hb
  exact ⟨outer_le c bd hb, fun f k hfk ia oa hi ho => loop_safe c bd hb f k hfk ia oa hi ho⟩

open VelaVerif.Blockdep VelaVerif.NpuAccess in
/-- **The input volume is the receptive field** (true since the y start is taken from `padding.top`): the volume
    `get_first_job_input_volume` returns for forward job `f` belongs to the OFM block `oc` = block number
    `f // ifm_depth_blocks`; it starts exactly where the rows / columns that block needs start (clipped at 0),
    ends at or after the last row / column it needs (`oc·stride + (block−1)·stride + dilated kernel − top/left
    padding`, kernels up to the `ofm_block_max` limit the function passes as sub-kernel size), and spans the job's
    IFM depth slice.  Together with `blockdep_safe` and `hull_covers`: `f + k < calc_blockdep` implies that what job
    `f` reads does not meet what the `k`-th block from the end of the previous operation writes. -/
theorem first_job_volume_covers_receptive_field (a : Gen.AccRow) (ifmSize ofmSize : Blk3) (ibd : Int) (blk : Blk3)
    (k : Kernel) (p : Padding) (f : Int) (ar : Area)
    (h : getFirstJobInputVolume a ifmSize ofmSize ibd blk k p f = some (some ar))
    (hkh : (k.height - 1) * k.dilationY + 1 ≤ a.ofmBlockMax.height)
    (hkw : (k.width - 1) * k.dilationX + 1 ≤ a.ofmBlockMax.width)
    (huh : 0 < a.ifmUblock.height) (huw : 0 < a.ifmUblock.width) :
    ∃ oc, getOffsetBlockCoords ofmSize blk (f / roundUpDivide ifmSize.depth ibd) = some (some oc) ∧
      ar.start.y = max 0 (oc.y * k.strideY - p.top) ∧
      oc.y * k.strideY + (blk.height - 1) * k.strideY + ((k.height - 1) * k.dilationY + 1) - p.top ≤ ar.stop.y ∧
      ar.start.x = max 0 (oc.x * k.strideX - p.left) ∧
      oc.x * k.strideX + (blk.width - 1) * k.strideX + ((k.width - 1) * k.dilationX + 1) - p.left ≤ ar.stop.x ∧
      ar.start.z = (f % roundUpDivide ifmSize.depth ibd) * ibd ∧ ar.stop.z = ar.start.z + ibd :=
  firstJob_covers a ifmSize ofmSize ibd blk k p f ar h hkh hkw huh huw

/-- every accelerator row meets the micro-block hypotheses of `first_job_volume_covers_receptive_field` -/
theorem ublock_positive : ∀ a ∈ Gen.accelerators, 0 < a.ifmUblock.height ∧ 0 < a.ifmUblock.width := by decide

open VelaVerif.Blockdep VelaVerif.NpuAccess in
/-- REDUCE_SUM reads every IFM channel: its input volume spans the whole IFM depth (one depth block). -/
theorem reduce_sum_full_depth (a : Gen.AccRow) (op : BlockOp) (hc : op.isConv2D = false) (hr : op.isReduceSum = true) :
    getIfmOfmBlockDepth a op = some op.ifm.shape.depth := by
  simp [getIfmOfmBlockDepth, hc, hr]

open VelaVerif.Blockdep VelaVerif.NpuAccess in
/-- The coordinate shortcut of `intersects` is taken only when IFM and previous OFM are the same view of memory
    (shape, tiles, layout, element size, strides); otherwise per-row address ranges are compared. -/
theorem coordinate_shortcut_guard (ifm prevOfm : FMap) (is ie os oe : Pt)
    (h : ifm.nhcwb16 ≠ prevOfm.nhcwb16 ∨ ifm.elemBytes ≠ prevOfm.elemBytes ∨ getStrides ifm ≠ getStrides prevOfm) :
    Blockdep.intersects ifm is ie prevOfm os oe =
      rangeListsOverlap (getAddressRangesForArea ifm is.y is.x is.z ie.y ie.x ie.z)
        (getAddressRangesForArea prevOfm os.y os.x os.z oe.y oe.x oe.z) := by
  unfold Blockdep.intersects
  have : ¬ (ifm.shape = prevOfm.shape ∧ ifm.tiles = prevOfm.tiles ∧ ifm.nhcwb16 = prevOfm.nhcwb16 ∧
      ifm.elemBytes = prevOfm.elemBytes ∧ getStrides ifm = getStrides prevOfm) := by
    rintro ⟨_, _, h1, h2, h3⟩
    rcases h with h | h | h
    · exact h h1
    · exact h h2
    · exact h h3
  simp only [this, if_false]

open VelaVerif.Blockdep VelaVerif.NpuAccess in
/-- Regression witness (was the known finding `blockdep-first-job-y-uses-padding-right`: the unrepaired code returned
    2 here, because the y start of forward job 1 was computed from `padding.right` = 1, rows [1,3) instead of [2,4)):
    ABS with 1-row blocks → 3×1 SAME convolution with 2-row blocks gets BLOCKDEP 1; the input volume of forward job 1
    is rows [2,4) and meets the producer's last block (row 3). -/
theorem blockdep_padding_top_witness :
    calcBlockdep witAcc (some witPrev) (witOp 1) = some 1 ∧
    (∃ c, classify witAcc (some witPrev) (witOp 1) = some (Path.loop, some c) ∧
      c.inArea 1 = some (some ⟨⟨0, 2, 0⟩, ⟨10, 4, 16⟩⟩) ∧ c.outArea 0 = some (some ⟨⟨0, 3, 0⟩, ⟨8, 4, 16⟩⟩)) := by
  refine ⟨by decide +kernel, ?_⟩
  refine ⟨_, rfl, by decide +kernel, by decide +kernel⟩

-- non-vacuity of `blockdep_safe`: the witness pair is on the loop path and gets a value
open VelaVerif.Blockdep VelaVerif.NpuAccess in
example : ∃ c bd, classify witAcc (some witPrev) (witOp 1) = some (Path.loop, some c) ∧
    calcBlockdep witAcc (some witPrev) (witOp 1) = some bd ∧ 0 < bd :=
  ⟨_, 1, rfl, by decide +kernel, by decide⟩

open VelaVerif.Blockdep VelaVerif.NpuAccess in
theorem blockdep_le_max (a : Gen.AccRow) (prev : Option BlockOp) (op : BlockOp) (bd : Nat)
    (hb : emittedBlockdep a prev op = some bd) : bd ≤ Gen.maxBlockdep := by
  simp only [emittedBlockdep, Option.map_eq_some_iff] at hb
  obtain ⟨b, _, rfl⟩ := hb
  omega

end VelaVerif.Props.C04
