import VelaVerif.Lemmas.NpuOpBuild
import VelaVerif.Lemmas.NpuOpBuildLegal
import VelaVerif.Lemmas.NpuOpBuildExample
import VelaVerif.Handlers.NpuOpBuild
import VelaVerif.Props.C06
import VelaVerif.Lemmas.FloatExactRat
/-!
# C06, the link in front of the register generator: scheduled operation → `NpuOperation`

C06 ("the register command stream encodes exactly the operations it was given") is proved in `Props/C06.lean` for the
operations *handed to* `register_command_stream_generator`.  This file is about the step that produces those operations,
`high_level_command_to_npu_op.convert_command_to_npu_op` (model: `Model/NpuOpBuild.lean`, whose output type is the C06
operation record `Model/NpuOp.lean`, so `convert` composes with `Model/Emit.generate`).  The statements serve C06 — what
the stream encodes is what the scheduler decided — and, through the operand roles and the clamp, C01/C09.
-/
namespace VelaVerif.Props.C06Build
open VelaVerif VelaVerif.NpuOp VelaVerif.NpuOpBuild

/-! ## (b) operand roles of a binary elementwise operation -/

/-- **Operand roles.**  Whenever the builder accepts a binary elementwise command, then with (A, B) the operands of the
    source operator and (X, Y) := (B, A) if the operation says `reversed_operands` else (A, B) — so that the hardware, which
    computes `IFM ∘ IFM2` or, with the reverse bit, `IFM2 ∘ IFM`, computes `A ∘ B` —:
    * IFM is built from X and carries X's quantisation, IFM2 is built from Y and carries Y's quantisation (the invariant the
      stale-local change `seeded/C09-r4m1` broke);
    * the scalar value is set exactly when Y is a scalar, and it is Y's;
    * under `hcompat` (one of the two orders is legal: what the operator constraint "at least one input's shape must match
      the OFM's shape" provides) the operand that is broadcast or scalar is IFM2. -/
theorem elementwise_operand_roles (fo : FloatOps) (c0 : StripeD) (arch : ArchD) (b : BlockB) (sub : Nat)
    (hsub : elementwiseOpMap c0.op.type = some sub) (hbin : isUnaryEw sub = false)
    (h : createElementwise fo c0 arch = .ok b) :
    ∃ A B : Operand, sourceOperands c0 = some (A, B) ∧
      ∀ X Y : Operand, (X, Y) = (if b.reversed then (B, A) else (A, B)) →
        Carries c0 arch c0.op.tileOffsIfm0 X
          ⟨(blockOf X.box).height, (blockOf X.box).width, (blockOf c0.ofmBox).depth⟩ b.ifm ∧
        (∃ f2, b.ifm2 = some f2 ∧
          Carries c0 arch c0.op.tileOffsIfm1 Y (if Y.t.isScalar then ⟨0, 0, 0⟩ else blockOf Y.box) f2) ∧
        b.scalar = (if Y.t.isScalar then Y.t.scalar else none) ∧
        (Y.t.isScalar = true → b.scalar.isSome = true) ∧
        ((correctOrder A.opShape B.opShape = true ∨ correctOrder B.opShape A.opShape = true) →
          correctOrder X.opShape Y.opShape = true) := by
  have hbt := elementwiseOpMap_blockType _ _ hsub
  unfold createElementwise at h
  simp only [hsub, hbin, Bool.false_eq_true, ↓reduceIte] at h
  split at h
  · cases h
  · rename_i c rev hord
    split at h
    · cases h
    · rename_i f2 sc hf2
      split at h
      · cases h
      · rename_i b0 hb0
        split at h
        · cases h
        · rename_i u hu
          injection h with h
          subst h
          obtain ⟨t2, sh2, ht2, hsh2, hcases⟩ := ewOrder_spec c0 c rev hord
          obtain ⟨t2', b2', s1', fm2, hc2, hcb2, hcs1, hfm2, hf2eq, hsceq, hscsome⟩ := ewIfm2_spec c arch f2 sc hf2
          -- `c.op = c0.op`, `c.psOps = c0.psOps`, `c.ofmBox = c0.ofmBox` in both cases
          have hsame : c.op = c0.op ∧ c.psOps = c0.psOps ∧ c.ofmBox = c0.ofmBox := by
            rcases hcases with ⟨rfl, _, _⟩ | ⟨_, _, _, hsw⟩
            · exact ⟨rfl, rfl, rfl⟩
            · obtain ⟨_, _, _, _, _, _, rfl⟩ := swapOperands_spec c0 c hsw
              exact ⟨rfl, rfl, rfl⟩
          obtain ⟨hop, hps, hofmb⟩ := hsame
          have hbtc : c.op.type.blockType = .elementWise := by rw [hop]; exact hbt
          obtain ⟨hifm, _, _⟩ := setCommon_ew fo c arch b0 hbtc hb0
          obtain ⟨fm0, hfm0, hifmeq⟩ := commonIfm_spec c arch b0.ifm hifm
          have hq : ∀ t, getIfmQuant c t = getIfmQuant c0 t := getIfmQuant_congr c0 c hop hps
          have hdepth : getIfmDepth c.op.type.blockType c.ifmBox c.ofmBox = (blockOf c0.ofmBox).depth := by
            simp [getIfmDepth, hbtc, hofmb]
          -- the operation's fields after `applyUpd`
          show ∃ A B : Operand, sourceOperands c0 = some (A, B) ∧ _
          rcases hcases with ⟨rfl, hrev, hco⟩ | ⟨hr0, hrev, hco, hsw⟩
          · -- no swap: the command is unchanged
            refine ⟨if c.reversedOperands then ⟨t2', b2', s1'⟩ else ⟨c.ifm, c.ifmBox, c.ifmShape0⟩,
                    if c.reversedOperands then ⟨c.ifm, c.ifmBox, c.ifmShape0⟩ else ⟨t2', b2', s1'⟩, ?_, ?_⟩
            · simp only [sourceOperands, hc2, hcb2, hcs1]
              by_cases hr : c.reversedOperands = true <;> simp [hr]
            · intro X Y hXY
              simp only [applyUpd] at hXY ⊢
              have hXY' : X = ⟨c.ifm, c.ifmBox, c.ifmShape0⟩ ∧ Y = ⟨t2', b2', s1'⟩ := by
                by_cases hr : c.reversedOperands = true
                · simp only [hrev, hr, ↓reduceIte, Prod.mk.injEq] at hXY; exact hXY
                · have hr' : c.reversedOperands = false := by simpa using hr
                  simp only [hrev, hr', Bool.false_eq_true, ↓reduceIte, Prod.mk.injEq] at hXY; exact hXY
              obtain ⟨rfl, rfl⟩ := hXY'
              refine ⟨⟨fm0, hop ▸ hfm0, ?_⟩, ⟨f2, rfl, fm2, hop ▸ hfm2, ?_⟩, hsceq, hscsome, ?_⟩
              · rw [hifmeq, hdepth]
              · rw [hf2eq]
              · intro _
                have ht : t2 = t2' := by rw [hc2] at ht2; injection ht2 with ht2; exact ht2.symm
                subst ht
                have : sh2 = (if t2.isScalar then none else some s1') := by
                  unfold ewIfm2Shape at hsh2
                  by_cases hs : t2.isScalar = true
                  · simp only [hs, ↓reduceIte] at hsh2 ⊢; injection hsh2 with hsh2; exact hsh2.symm
                  · have hs' : t2.isScalar = false := by simpa using hs
                    simp only [hs', Bool.false_eq_true, ↓reduceIte, hcs1] at hsh2 ⊢
                    injection hsh2 with hsh2; exact hsh2.symm
                simpa [Operand.opShape, ewIfmShape, this] using hco
          · -- swap by the builder
            obtain ⟨t2s, b2s, s1s, hs2, hsb2, hss1, rfl⟩ := swapOperands_spec c0 c hsw
            simp only [Option.some.injEq] at hc2 hcb2 hcs1
            subst hc2; subst hcb2; subst hcs1
            refine ⟨⟨c0.ifm, c0.ifmBox, c0.ifmShape0⟩, ⟨t2s, b2s, s1s⟩, ?_, ?_⟩
            · simp only [sourceOperands, hs2, hsb2, hss1, hr0, Bool.false_eq_true, ↓reduceIte]
            · intro X Y hXY
              simp only [applyUpd, hrev, ↓reduceIte, Prod.mk.injEq] at hXY ⊢
              obtain ⟨rfl, rfl⟩ := hXY
              refine ⟨⟨fm0, hfm0, ?_⟩, ⟨f2, rfl, fm2, hfm2, ?_⟩, hsceq, hscsome, ?_⟩
              · rw [hifmeq, hdepth, hq]
              · rw [hf2eq, hq]
              · intro hcompat
                have ht : t2 = t2s := by rw [hs2] at ht2; injection ht2 with ht2; exact ht2.symm
                subst ht
                have hsh : sh2 = (if t2.isScalar then none else some s1s) := by
                  unfold ewIfm2Shape at hsh2
                  by_cases hs : t2.isScalar = true
                  · simp only [hs, ↓reduceIte] at hsh2 ⊢; injection hsh2 with hsh2; exact hsh2.symm
                  · have hs' : t2.isScalar = false := by simpa using hs
                    simp only [hs', Bool.false_eq_true, ↓reduceIte, hss1] at hsh2 ⊢
                    injection hsh2 with hsh2; exact hsh2.symm
                have hco' : correctOrder (Operand.opShape ⟨c0.ifm, c0.ifmBox, c0.ifmShape0⟩) (Operand.opShape ⟨t2, b2s, s1s⟩) = false := by
                  simpa [Operand.opShape, ewIfmShape, hsh] using hco
                rcases hcompat with h1 | h1
                · rw [hco'] at h1; cases h1
                · exact h1

/-! ## (c) the weight / scale ranges of the operation are the encoded sections of the stripe's depth slice

`RangeNum L r` (`Lemmas/WeightLayout.lean`) is what C08 proves of every range the encoder records in a stream of `L` bytes
(`encodeTensor_facts … .good.rng … .num`): offset and weight bytes multiples of 16, the range inside the stream, the weight
section right behind the 16-byte padded scale section.  `weight_ranges_of_encoded_tensor` instantiates it. -/

open VelaVerif.WeightLayout (Range RangeNum roundUp16)

/-- **Weights read straight from the encoded tensor** (`weight_tensor == w_tensor_src`): every weight range of the operation
    is the weight section, every scale range the 16-byte rounded scale section, of a recorded range with the key
    (core, depth of the stripe) — in the tensor's region, at the tensor's address, inside the tensor, 16-byte aligned. -/
theorem weight_ranges_match_layout (w : WTensD) (depth : Nat) (arch : ArchD) (L : Nat) (ws bs : List AddrRange)
    (hdirect : w.buffered = false) (hnum : ∀ r ∈ w.ranges, RangeNum L r) (hL : L % 16 = 0) (haddr : w.address % 16 = 0)
    (h : createWeights w depth none arch = .ok (ws, bs)) :
    ∃ region, getRegion w.memType arch = .ok region ∧
      (∀ a ∈ ws, ∃ r ∈ w.ranges, r.depth = depth ∧ IsSection a region w.address L (r.offset + r.weightOffset) r.weightBytes) ∧
      (∀ a ∈ bs, ∃ r ∈ w.ranges, r.depth = depth ∧ IsSection a region w.address L r.offset (roundUp16 r.scaleBytes)) := by
  obtain ⟨shared, sreg, ws', bs', hsh, _, hw, rfl, rfl⟩ := createWeights_spec w depth none arch ws bs h
  simp only [hdirect, Bool.false_eq_true, ↓reduceIte, Option.map_none, WeightLayout.createWeights] at hw
  obtain ⟨hws, hbs⟩ := WeightLayout.createWeightsLoop_direct w.ranges L w.address depth hnum haddr hL _ 0 ws' bs' hw
  refine ⟨shared, hsh, ?_, ?_⟩
  · intro a ha
    simp only [List.mem_map] at ha
    obtain ⟨a', ha', rfl⟩ := ha
    obtain ⟨h1, _, h3, r, hr, hd, rfl⟩ := hws a' ha'
    have hn := hnum r hr
    refine ⟨r, hr, hd, ?_, ?_, hn.wbAligned, ?_⟩
    · simp only [toRange, Nat.add_assoc]
    · simpa [Nat.add_assoc] using h1
    · simp only at h3; omega
  · intro a ha
    simp only [List.mem_map] at ha
    obtain ⟨a', ha', rfl⟩ := ha
    obtain ⟨h1, _, h3, r, hr, hd, rfl⟩ := hbs a' ha'
    refine ⟨r, hr, hd, ?_, h1, WeightLayout.roundUp16_mod _, ?_⟩
    · simp only [toRange, Option.isSome_none, Bool.false_eq_true, ↓reduceIte]
    · simp only at h3; omega

/-- **Stand-alone scale tensor** (the weights were found in the compression cache, only the scales were encoded afresh):
    every scale range of the operation is the rounded scale section of the *scale tensor's own* range with the key
    (core, depth), at the scale tensor's address and in its region — never an offset of the weight tensor
    (`seeded/C08-r4m2`) —, inside the scale tensor, 16-byte aligned; the weight ranges are the ones obtained without it. -/
theorem scale_ranges_match_scale_tensor (w : WTensD) (depth : Nat) (s : STensD) (arch : ArchD) (Ls : Nat)
    (ws bs : List AddrRange) (hnum : ∀ r ∈ s.ranges, RangeNum Ls r) (hLs : Ls % 16 = 0) (haddr : s.address % 16 = 0)
    (h : createWeights w depth (some s) arch = .ok (ws, bs)) :
    (∃ sreg, getRegion s.memType arch = .ok sreg ∧
      ∀ a ∈ bs, ∃ sr ∈ s.ranges, sr.depth = depth ∧ IsSection a sreg s.address Ls sr.offset (roundUp16 sr.scaleBytes)) ∧
    (∃ bs0, createWeights w depth none arch = .ok (ws, bs0) ∧ bs0.length = bs.length) := by
  obtain ⟨shared, sreg, ws', bs', hsh, hsr, hw, rfl, rfl⟩ := createWeights_spec w depth (some s) arch ws bs h
  simp only [Option.map_some, WeightLayout.createWeights] at hw
  refine ⟨⟨sreg, hsr, ?_⟩, ?_⟩
  · intro a ha
    simp only [List.mem_map] at ha
    obtain ⟨a', ha', rfl⟩ := ha
    obtain ⟨h1, h2, _, h4, sr, hsrm, hd, rfl⟩ :=
      createWeightsLoop_scaleTensor w.ranges s.ranges Ls w.address depth s.address _ hnum haddr hLs _ 0 ws' bs' hw a' ha'
    refine ⟨sr, hsrm, hd, ?_, h1, h2, ?_⟩
    · simp only [toRange, Option.isSome_some, ↓reduceIte]
    · simp only at h4; omega
  · obtain ⟨bs0, h0, hlen⟩ := createWeightsLoop_forget_scale w.ranges w.address depth _ (s.address, s.ranges) _ 0 ws' bs' hw
    refine ⟨bs0.map (toRange shared), ?_, by simp [hlen]⟩
    have hnoassert : scaleSrcAssert w depth none arch = false := by simp [scaleSrcAssert]
    simp only [createWeights, hsh, scaleRegionOf, hnoassert, Bool.false_eq_true, ↓reduceIte, Option.map_none,
      WeightLayout.createWeights, h0, Option.isSome_none]

/-- **Buffered weights and the DMA that fills the buffer** (`seeded/C08-r3m1`): when the operation reads a buffered copy at
    `w.address` and the DMA command of the same depth slice copies from the same encoded ranges to that address, every weight
    and scale range of the operation is 16-byte aligned and lies inside the bytes the DMA writes; the DMA's two lengths agree
    and it starts at core 0's section of the source. -/
theorem buffered_ranges_covered_by_dma (w : WTensD) (depth : Nat) (arch : ArchD) (L : Nat) (ws bs : List AddrRange)
    (d : DmaD) (src dst : AddrRange)
    (hbuf : w.buffered = true) (hnum : ∀ r ∈ w.ranges, RangeNum L r) (haddr : w.address % 16 = 0)
    (hp : d.src.purpose = .weights) (hranges : d.src.ranges = w.ranges) (hdst : d.dst.address = w.address)
    (hdepth : d.box.start.getLast? = some depth)
    (hw : createWeights w depth none arch = .ok (ws, bs)) (hd : createDmaOp d arch = .ok (src, dst)) :
    dst.address = w.address ∧ dst.length = src.length ∧
    (∃ r0 ∈ w.ranges, r0.core = 0 ∧ r0.depth = depth ∧ src.address = ((d.src.address + r0.offset : Nat) : Int)) ∧
    ∀ a ∈ ws ++ bs, a.address % 16 = 0 ∧ dst.address ≤ a.address ∧ a.address + a.length ≤ dst.address + dst.length := by
  obtain ⟨shared, sreg, ws', bs', _, _, hw', rfl, rfl⟩ := createWeights_spec w depth none arch ws bs hw
  obtain ⟨sr, dr, depth', s', t', _, _, hdep, hdma, rfl, rfl⟩ := createDmaOp_weights_spec d arch src dst hp hd
  rw [hdepth] at hdep
  injection hdep with hdep
  subst hdep
  rw [hranges, hdst] at hdma
  simp only [hbuf, ↓reduceIte, Option.map_none] at hw'
  obtain ⟨hlen, rfl, r0, hr0, hc0, hd0, hs0⟩ := WeightLayout.createDmaOp_spec arch.ncores w.ranges d.src.address w.address depth s' t' hdma
  refine ⟨rfl, rfl, ⟨r0, hr0, hc0, hd0, by simp only [toRange, hs0]⟩, ?_⟩
  intro a ha
  simp only [List.mem_append, List.mem_map] at ha
  have key : ∀ a' ∈ ws' ++ bs', a'.address % 16 = 0 ∧ w.address ≤ a'.address ∧ a'.address + a'.length ≤ w.address + s'.length := by
    intro a' ha'
    have := WeightLayout.createWeightsLoop_buffered w.ranges L w.address depth w.address hnum haddr _ 0 ws' bs' rfl hw' a' ha'
    simp only [hlen]; omega
  rcases ha with ⟨a', ha', rfl⟩ | ⟨a', ha', rfl⟩
  · obtain ⟨h1, h2, h3⟩ := key a' (by simp [ha'])
    simp only [toRange]; omega
  · obtain ⟨h1, h2, h3⟩ := key a' (by simp [ha'])
    simp only [toRange]; omega

/-- the hypotheses of the three theorems hold for every tensor `Model/WeightLayout.encodeTensor` (C08) produces -/
theorem weight_ranges_of_encoded_tensor (cfg : WeightLayout.Cfg) (offsets : List Nat) (out : WeightLayout.Out)
    (h : WeightLayout.encodeTensor cfg offsets = .ok out) :
    (∀ r ∈ out.rawRanges, RangeNum out.stream.length r) ∧ out.stream.length % 16 = 0 :=
  let hf := WeightLayout.encodeTensor_facts cfg offsets out h
  ⟨fun r hr => (hf.good.rng r hr).num, hf.good.aligned⟩

/-! ## (d) the clamp of a RELU-family activation

`specBound fo s z v = z + round_away(float32(v) / float32(s))` is TensorFlow Lite's `CalculateActivationRangeQuantized`
applied to one bound; with the exact float operations (`Handlers/NpuOpBuild.floatOps`, `FloatExact.qdiv`) it is
`NpuOpSpec.quantBound`, the function `Spec/NpuOpBuild.activationRangeGen` intersects with the type range, and the checker
compares it with `Requant.activationRange` on every real operation with RELU / RELU6 / RELU_N1_TO_1.
`RoundTrip fo s k q` — quantising `s * q` with `s` gives `q` back — is the one fact about floats the statements need (an
explicit hypothesis: it holds of IEEE arithmetic for every |q| < 2^22 and normal `s`; not proved here, evaluated on every
real operation by the Spec checker). -/

/-- **Convolution / depthwise / pooling** (everything `set_common_op_fields` builds, before the elementwise override):
    for a RELU-family activation on an OFM tensor with quantisation `q`, the bounds that reach the C06 record — quantised
    with the quantisation the operation programs for its OFM, whose zero point may be forced to 0 — are the bounds of the
    tensor's own quantisation, `q.zeroPoint + round(v / q.scale)`; in particular the zero point is neither lost when the
    register is forced to 0 nor added twice when it is not (the two defects repaired in a125c1d). -/
/- Parametric in the float operations, with the one float fact as hypothesis `hrt`; `activation_clamp_spec` below is the full
   statement for the exact IEEE operations. -/
theorem activation_clamp_spec_partial (fo : FloatOps) (c : StripeD) (arch : ArchD) (kind : Kind) (b : BlockB) (o : Oracle) (r : Built)
    (hb : setCommon fo c arch kind = .ok b) (hr : toRecord fo b o = .ok r)
    (a : ActD) (ha : c.op.activation = some a) (hrelu : a.faf.isRelu = true)
    (q : Quant) (hq : c.ofm.quant = some q) (hoq : c.op.ofmQuant = some q) (hforced : c.op.forcedOutputQuant = none)
    (hrt : ∀ x k, (a.min = some x ∨ a.max = some x) → fo.qdiv x (q.scale.getD fo.one) = some k →
      RoundTrip fo (q.scale.getD fo.one) q.zpKind (q.zeroPoint + k)) :
    ∃ blk, r.op = .block blk ∧
      blk.activation = some ⟨0, a.min.bind (specBound fo q.scale q.zeroPoint), a.max.bind (specBound fo q.scale q.zeroPoint),
                             a.lutIndex⟩ := by
  obtain ⟨hofm, hact⟩ := setCommon_act_ofm fo c arch kind b hb
  obtain ⟨fm0, hofmeq⟩ := commonOfm_spec c arch b.ofm hofm
  -- the OFM quantisation the operation programs
  have hoq' : getOfmQuant c c.ofm = some ⟨q.scale, if useZeroPoint0 c c.ofm.dtype false then 0 else q.zeroPoint⟩ := by
    simp [getOfmQuant, hforced, hq]
  rw [hoq'] at hofmeq
  have hh : b.ofm.fm.hasQuant = true := by rw [hofmeq]; rfl
  have hs : b.ofm.scale = q.scale := by rw [hofmeq]; rfl
  have hz : b.ofm.fm.zeroPoint = if useZeroPoint0 c c.ofm.dtype false then 0 else q.zeroPoint := by rw [hofmeq]; rfl
  have hop : actOpOf a.faf = .ok 0 := by
    cases hf : a.faf <;> simp [hf, Faf.isRelu] at hrelu <;> simp [actOpOf, Faf.isRelu]
  unfold toRecord at hr
  split at hr
  · cases hr
  · rename_i qmin hqmin
    split at hr
    · cases hr
    · rename_i qmax hqmax
      split at hr
      · cases hr
      · injection hr with hr
        subst hr
        refine ⟨_, rfl, ?_⟩
        simp only [Option.some.injEq, Activation.mk.injEq]
        rw [hh, hs, hz] at hqmin hqmax
        unfold createNpuActivation at hact
        simp only [ha, hop] at hact
        by_cases hzp : useZeroPoint0 c c.ofm.dtype false = true
        · simp only [hzp, Bool.and_true, decide_true, ↓reduceIte, hoq] at hact hqmin hqmax
          by_cases hz0 : q.zeroPoint = 0
          · simp only [hz0, ne_eq, not_true_eq_false, ↓reduceIte] at hact
            injection hact with hact
            rw [← hact] at hqmin hqmax ⊢
            simp only at hqmin hqmax ⊢
            refine ⟨trivial, ?_, ?_, trivial⟩
            · rw [hz0]; exact quantiseOpt_eq fo _ _ _ _ hqmin
            · rw [hz0]; exact quantiseOpt_eq fo _ _ _ _ hqmax
          · simp only [ne_eq, hz0, not_false_eq_true, ↓reduceIte] at hact
            split at hact
            · rename_i mn mx hmn hmx
              injection hact with hact
              rw [← hact] at hqmin hqmax ⊢
              simp only at hqmin hqmax ⊢
              refine ⟨trivial, ?_, ?_, trivial⟩
              · exact preAdd_quantise fo q.scale q.zpKind q.zeroPoint a.min mn qmin hmn
                  (fun x k hx hk => hrt x k (Or.inl hx) hk) hqmin
              · exact preAdd_quantise fo q.scale q.zpKind q.zeroPoint a.max mx qmax hmx
                  (fun x k hx hk => hrt x k (Or.inr hx) hk) hqmax
            · cases hact
            · cases hact
        · have hzp' : useZeroPoint0 c c.ofm.dtype false = false := by simpa using hzp
          simp only [hzp', Bool.and_false, Bool.false_eq_true, ↓reduceIte] at hact hqmin hqmax
          injection hact with hact
          rw [← hact] at hqmin hqmax ⊢
          simp only at hqmin hqmax ⊢
          exact ⟨trivial, quantiseOpt_eq fo _ _ _ _ hqmin, quantiseOpt_eq fo _ _ _ _ hqmax, trivial⟩

/-- **Elementwise operations whose OFM scale is overridden** (LEAKY_RELU by `alpha`, ABS by the scale ratio, the resize-as-ADD
    case): `create_npu_elementwise_op` replaces the scale of the OFM quantisation only to program `OFM_SCALE`; the clamp
    bounds are re-expressed in the overriding scale so that they quantise to the very same integers as before
    (the defect repaired in d77406b quantised them with `alpha`). -/
theorem activation_clamp_override_preserved_partial (fo : FloatOps) (op : OpD) (b : BlockB) (u : EwUpd)
    (h : ewFinish fo op b = .ok u) (hrelu : b.act.opType = 0) (hq : b.ofm.fm.hasQuant = true)
    (hsc : b.ofm.scale.isSome = true)
    (hcongr : ∀ os s x, ewOutputScale fo op b = .ok (some (some os)) → b.ofm.scale = some s → fo.eq os s = true →
      fo.qdiv x os = fo.qdiv x s)
    (qmin qmax : Option Int)
    (hmin : quantiseOpt fo b.act.min true b.ofm.scale b.ofm.fm.zeroPoint = .ok qmin)
    (hmax : quantiseOpt fo b.act.max true b.ofm.scale b.ofm.fm.zeroPoint = .ok qmax)
    (hrt : ∀ os x k, ewOutputScale fo op b = .ok (some (some os)) → (b.act.min = some x ∨ b.act.max = some x) →
      fo.qdiv x (b.ofm.scale.getD fo.one) = some k → RoundTrip fo os 0 k) :
    u.ofm.fm.hasQuant = true ∧ u.ofm.fm.zeroPoint = b.ofm.fm.zeroPoint ∧ u.act.opType = 0 ∧
    quantiseOpt fo u.act.min true u.ofm.scale u.ofm.fm.zeroPoint = .ok qmin ∧
    quantiseOpt fo u.act.max true u.ofm.scale u.ofm.fm.zeroPoint = .ok qmax := by
  -- a bound rewritten by `rescaleBound` quantises, in the overriding scale, to what it quantised to before
  have key : ∀ (os s : Fl) (v w : Option Fl) (r : Option Int), ewOutputScale fo op b = .ok (some (some os)) →
      b.ofm.scale = some s → (v = b.act.min ∨ v = b.act.max) →
      rescaleBound fo os s b.ofm.fm.zeroPoint v = .ok w →
      quantiseOpt fo v true b.ofm.scale b.ofm.fm.zeroPoint = .ok r →
      quantiseOpt fo w true (some os) b.ofm.fm.zeroPoint = .ok r := by
    intro os s v w r hos hs hv hw hr
    unfold rescaleBound at hw
    cases v with
    | none =>
      injection hw with hw; subst hw
      simpa [quantiseOpt] using hr
    | some x =>
      simp only [quantiseF32] at hw
      have hx : b.act.min = some x ∨ b.act.max = some x := by rcases hv with hv | hv <;> simp [← hv]
      cases hk : fo.qdiv x s with
      | none => simp [hk] at hw
      | some k =>
        simp only [hk] at hw
        injection hw with hw; subst hw
        have hrt' := hrt os x k hos hx (by simpa [hs] using hk)
        unfold RoundTrip at hrt'
        simp only [quantiseOpt, quantise, ↓reduceIte, quantiseF32, hs, Option.getD_some, hk] at hr ⊢
        have : b.ofm.fm.zeroPoint + k - b.ofm.fm.zeroPoint = k := by omega
        simp only [this, hrt']
        exact hr
  unfold ewFinish at h
  split at h
  · cases h
  · -- explicit scaling
    split at h
    · split at h
      · injection h with h; subst h
        exact ⟨hq, rfl, hrelu, hmin, hmax⟩
      · cases h
    · cases h
  · injection h with h; subst h
    exact ⟨hq, rfl, hrelu, hmin, hmax⟩
  · rename_i os hos
    simp only [hq, Bool.not_true, Bool.false_eq_true, ↓reduceIte] at h
    split at h
    · rename_i s hs
      by_cases hc : (b.act.opType = 0 && !fo.eq os s) = true
      · simp only [hc, ↓reduceIte] at h
        split at h
        · rename_i mn mx hmn hmx
          injection h with h; subst h
          exact ⟨rfl, rfl, hrelu, key os s _ mn qmin hos hs (Or.inl rfl) hmn hmin, key os s _ mx qmax hos hs (Or.inr rfl) hmx hmax⟩
        · cases h
        · cases h
      · simp only [hc, Bool.false_eq_true, ↓reduceIte] at h
        injection h with h; subst h
        -- no rewriting: the overriding scale equals the scale of the OFM (`output_scale == ofm_quant.scale_f32`)
        have he : fo.eq os s = true := by simpa [hrelu] using hc
        have hsame : ∀ v r, quantiseOpt fo v true b.ofm.scale b.ofm.fm.zeroPoint = .ok r →
            quantiseOpt fo v true (some os) b.ofm.fm.zeroPoint = .ok r := by
          intro v r hr
          cases v with
          | none => simpa [quantiseOpt] using hr
          | some x =>
            simp only [quantiseOpt, quantise, ↓reduceIte, quantiseF32, hs, Option.getD_some] at hr ⊢
            rw [hcongr os s x hos hs he]; exact hr
        exact ⟨rfl, rfl, hrelu, hsame _ _ hmin, hsame _ _ hmax⟩
    · rename_i hs
      rw [hs] at hsc; cases hsc

/-! ### (d) at full strength for the exact float operations

`Lemmas/FloatExact.lean` / `FloatExactRat.lean` prove the float fact the two statements above assume, for the exact IEEE routines
the handler runs (`Spec/FloatExact.lean`): `roundTo_spec` (round to nearest, error at most half a unit in the last place),
`roundTo_rat` (relative error `2^-p` over ℚ), `f64_roundtrip`, and `qdiv_mulInt`: for a positive normal scale `s` below `2^952`
and `|n| ≤ 2^18`, `quantise(s·n, s) = n` — five roundings (product, float32 of the product, float32 of the scale, quotient,
addition of 1/2) each of relative error `2^-24` keep the quotient within 1/8 of `n`. -/

/-- a positive normal binary64 with biased exponent 1…2026 (a value in `[2^-1022, 2^952)`) -/
def NormalScale (s : Fl) : Prop := s.bits < 2 ^ 63 ∧ 1 ≤ s.bits / 2 ^ 52 % 2048 ∧ s.bits / 2 ^ 52 % 2048 ≤ 2026

open VelaVerif.Handlers.NpuOpBuild (floatOps) in
/-- the float hypothesis of the clamp theorems holds of the exact float operations -/
theorem roundTrip_exact (s : Fl) (ik : Nat) (n : Int) (hs : NormalScale s) (hn : n.natAbs ≤ 2 ^ 18) :
    RoundTrip floatOps s ik n := by
  obtain ⟨m, e, hd, hm1, hm2, he1, he2⟩ := FloatExact.decode_normal s.bits hs.1 ⟨hs.2.1, hs.2.2⟩
  obtain ⟨P, hP⟩ := FloatExact.mulInt_some s.bits s.kind ik n m e hd hm1 hm2 he1 he2 hn
  have := FloatExact.qdiv_mulInt s.bits s.kind ik n P ⟨false, m, e⟩ hd rfl (by show m ≠ 0; omega) hn hP
  unfold RoundTrip
  show FloatExact.qdiv ((FloatExact.mulInt s.bits s.kind ik n).getD Handlers.NpuOpBuild.badBits) s.bits = some n
  rw [hP]; exact this

open VelaVerif.Handlers.NpuOpBuild (floatOps) in
/-- **(d), full**: `activation_clamp_spec_partial` for the exact float operations, the float hypothesis discharged:
    it suffices that the scale of the OFM tensor is a positive normal float and that every clamp bound quantises to an
    integer of magnitude at most `2^18` (register values have 16 bits). -/
theorem activation_clamp_spec (c : StripeD) (arch : ArchD) (kind : Kind) (b : BlockB) (o : Oracle) (r : Built)
    (hb : setCommon floatOps c arch kind = .ok b) (hr : toRecord floatOps b o = .ok r)
    (a : ActD) (ha : c.op.activation = some a) (hrelu : a.faf.isRelu = true)
    (q : Quant) (hq : c.ofm.quant = some q) (hoq : c.op.ofmQuant = some q) (hforced : c.op.forcedOutputQuant = none)
    (hs : NormalScale (q.scale.getD floatOps.one))
    (hsmall : ∀ x k, (a.min = some x ∨ a.max = some x) → floatOps.qdiv x (q.scale.getD floatOps.one) = some k →
      (q.zeroPoint + k).natAbs ≤ 2 ^ 18) :
    ∃ blk, r.op = .block blk ∧
      blk.activation = some ⟨0, a.min.bind (specBound floatOps q.scale q.zeroPoint),
                             a.max.bind (specBound floatOps q.scale q.zeroPoint), a.lutIndex⟩ :=
  activation_clamp_spec_partial floatOps c arch kind b o r hb hr a ha hrelu q hq hoq hforced
    (fun x k hx hk => roundTrip_exact _ _ _ hs (hsmall x k hx hk))

open VelaVerif.Handlers.NpuOpBuild (floatOps) in
/-- **(d), full, elementwise override**: for the exact float operations, a positive normal overriding scale, bounds that
    quantise to at most `2^18`, and scales of one kind (both `numpy.float32`, or neither — so that `!=` compares bit patterns) -/
theorem activation_clamp_override_preserved (op : OpD) (b : BlockB) (u : EwUpd)
    (h : ewFinish floatOps op b = .ok u) (hrelu : b.act.opType = 0) (hq : b.ofm.fm.hasQuant = true)
    (hsc : b.ofm.scale.isSome = true)
    (hos : ∀ os, ewOutputScale floatOps op b = .ok (some (some os)) → NormalScale os)
    (hkind : ∀ os s, ewOutputScale floatOps op b = .ok (some (some os)) → b.ofm.scale = some s →
      ¬(os.kind = 1 ∧ s.kind = 0) ∧ ¬(os.kind = 0 ∧ s.kind = 1))
    (qmin qmax : Option Int)
    (hmin : quantiseOpt floatOps b.act.min true b.ofm.scale b.ofm.fm.zeroPoint = .ok qmin)
    (hmax : quantiseOpt floatOps b.act.max true b.ofm.scale b.ofm.fm.zeroPoint = .ok qmax)
    (hsmall : ∀ x k, (b.act.min = some x ∨ b.act.max = some x) → floatOps.qdiv x (b.ofm.scale.getD floatOps.one) = some k →
      k.natAbs ≤ 2 ^ 18) :
    u.ofm.fm.hasQuant = true ∧ u.ofm.fm.zeroPoint = b.ofm.fm.zeroPoint ∧ u.act.opType = 0 ∧
    quantiseOpt floatOps u.act.min true u.ofm.scale u.ofm.fm.zeroPoint = .ok qmin ∧
    quantiseOpt floatOps u.act.max true u.ofm.scale u.ofm.fm.zeroPoint = .ok qmax := by
  refine activation_clamp_override_preserved_partial floatOps op b u h hrelu hq hsc ?_ qmin qmax hmin hmax
    (fun os x k ho hx hk => roundTrip_exact os 0 k (hos os ho) (hsmall x k hx hk))
  intro os s x ho hs he
  obtain ⟨hk1, hk2⟩ := hkind os s ho hs
  have : os.bits = s.bits := by
    have he' : FloatExact.eq os.bits os.kind s.bits s.kind = true := he
    unfold FloatExact.eq at he'
    rw [if_neg hk1, if_neg hk2] at he'
    simpa using he'
  show FloatExact.qdiv x.bits os.bits = FloatExact.qdiv x.bits s.bits
  rw [this]

/-! ## (a) the operations the builder accepts are legal for the register generator

`OpCheck.fitsBlock` / `fitsDma` (`Spec/OpCheck.lean`) are C06's legality predicates: every field of the operation is
representable in its register.  `WellFormed` (`Lemmas/NpuOpBuildLegal.lean`) lists the hypotheses explicitly: register-sized
tile addresses / strides of whatever `create_feature_map` computes (C02: a tensor allocated inside its region, through
`Props/C02Addr.lean`), zero points in the 16-bit register range, box extents 1…65536 (C10), kernel stride 1…3 and dilation
1…2 (C16), padding below 65536, weight / scale ranges below the address limit (for weights read from the encoded tensor:
`weight_ranges_match_layout` + the tensor inside its region), block configuration 1…65536; the values C06 takes from other
mechanisms (`OracleFits`).  What the theorem adds: regions are 0…2, the extents are those of the boxes, the zero points are
the tensors' or 0, the padding is the operator's / the stripe's or 0, no IFM2 / scalar appears, the ranges carry legal
regions — so nothing the builder itself decides leaves the register ranges. -/

/-- **Convolution, depthwise, pooling** (everything but elementwise; tile padding excluded by `WellFormed.noTile`) -/
theorem build_legal (fo : FloatOps) (c : StripeD) (arch : ArchD) (o : Oracle) (r : Built) (maxAddr : Int)
    (hne : c.op.type.isElementwise = false) (wf : WellFormed c arch maxAddr) (ho : OracleFits o)
    (h : convert fo (.stripe c) arch o = .ok r) :
    ∃ blk, r.op = .block blk ∧ OpCheck.fitsBlock blk maxAddr = [] := by
  unfold convert at h
  simp only at h
  split at h
  · cases h
  · rename_i b hb
    obtain ⟨kind, b0, hb0, e1, e2, e3, e4, e5, e6, e7, e8, e9, e10⟩ := buildBlock_nonEw fo c arch b hne hb
    obtain ⟨hifm, hofm, hw, hk, hi2, hsc, hkind, hbc, p, hp, hpv⟩ := setCommon_fields fo c arch kind b0 hne wf.noTile hb0
    obtain ⟨ifm0, hifm0, hifmeq⟩ := commonIfm_spec c arch b0.ifm hifm
    unfold commonOfm at hofm
    split at hofm
    · cases hofm
    · rename_i ofm0 hofm0
      injection hofm with hofmeq
      unfold toRecord at h
      split at h
      · cases h
      · split at h
        · cases h
        · split at h
          · cases h
          · rename_i qs hqs
            injection h with h
            subst h
            refine ⟨_, rfl, fitsBlock_nil _ _ ?_⟩
            have hqs' : qs = none := by
              unfold quantiseScalar at hqs
              rw [e4, hsc] at hqs
              simp only at hqs
              injection hqs with hqs; exact hqs.symm
            constructor
            · -- ifm
              show FmFits b.ifm.fm maxAddr
              rw [e1, hifmeq]
              exact fmFits_withQuant _ _ _ _ (createFm_region _ _ _ _ _ _ _ _ hifm0) (wf.ifmTiles _ hifm0)
                (fun x hx => getIfmQuant_zp c c.ifm x hx wf.zpIn)
            · show 1 ≤ b.ifm.fm.shape.depth ∧ b.ifm.fm.shape.depth < 65537
              rw [e1, hifmeq]
              have : (withQuant { ifm0 with shape := ⟨(blockOf c.ifmBox).height, (blockOf c.ifmBox).width,
                  getIfmDepth c.op.type.blockType c.ifmBox c.ofmBox⟩ } (getIfmQuant c c.ifm)).fm.shape.depth =
                  getIfmDepth c.op.type.blockType c.ifmBox c.ofmBox := by
                cases getIfmQuant c c.ifm <;> rfl
              rw [this]
              unfold getIfmDepth
              split
              · exact wf.ifmDepth
              · exact wf.ofmBox.2.2
            · show FmFits b.ofm.fm maxAddr
              rw [e2, ← hofmeq]
              exact fmFits_withQuant _ _ _ _ (createFm_region _ _ _ _ _ _ _ _ hofm0) (wf.ofmTiles _ hofm0)
                (fun x hx => getOfmQuant_zp c c.ofm x hx wf.zpOut)
            · show ShapeFits b.ofm.fm.shape
              rw [e2, ← hofmeq]
              have : (withQuant { ofm0 with shape := blockOf c.ofmBox } (getOfmQuant c c.ofm)).fm.shape = blockOf c.ofmBox := by
                cases getOfmQuant c c.ofm <;> rfl
              rw [this]; exact wf.ofmBox
            · intro f2 hf2
              simp only [e3, hi2, Option.map_none] at hf2
              cases hf2
            · intro k hk' _
              simp only [e5, hk, Option.some.injEq] at hk'
              subst hk'; exact wf.kernel
            · intro p' hp'
              simp only [e6, hp, Option.some.injEq] at hp'
              subst hp'
              rcases hpv with rfl | ⟨p0, lim, hp0, rfl⟩
              · unfold PaddingFits; simp
              · exact padValues_fits c p0 lim (wf.pads p0 hp0) wf.stripePads
            · intro rg hrg
              simp only [e7] at hrg
              have hreg := commonWeights_regions c arch _ _ hw rg (by simp [hrg])
              have hr := wf.ranges _ _ hw rg (by simp [hrg])
              exact ⟨hreg, hr.1, hr.2⟩
            · intro rg hrg
              simp only [e8] at hrg
              have hreg := commonWeights_regions c arch _ _ hw rg (by simp [hrg])
              have hr := wf.ranges _ _ hw rg (by simp [hrg])
              exact ⟨hreg, hr.1, hr.2⟩
            · show ShapeFits b.blockConfig
              rw [e9, hbc]; exact wf.blockConfig
            · exact ho

/-- **Elementwise** (unary and binary, with or without the operand swap, with or without the output-scale override): under
    `WellFormedEw` — the hypotheses of `WellFormed` stated for both input operands, since either may become IFM — and `hscalar`
    (the quantised `ifm2_scalar` fits the IFM2 type: the register generator itself rejects anything else) the record passes
    `OpCheck.fitsBlock`. -/
theorem build_legal_elementwise (fo : FloatOps) (c0 : StripeD) (arch : ArchD) (o : Oracle) (r : Built) (maxAddr : Int)
    (hew : c0.op.type.blockType = .elementWise) (wf : WellFormedEw c0 arch maxAddr) (ho : OracleFits o)
    (hscalar : ∀ blk q f2, r.op = .block blk → blk.ifm2Scalar = some q → blk.ifm2 = some f2 →
      (if f2.dtype.signed then -32768 ≤ q ∧ q < 32768 else 0 ≤ q ∧ q < 65536))
    (h : convert fo (.stripe c0) arch o = .ok r) :
    ∃ blk, r.op = .block blk ∧ OpCheck.fitsBlock blk maxAddr = [] := by
  unfold convert at h
  simp only at h
  split at h
  · cases h
  · rename_i b hb
    simp only [buildBlock, hew] at hb
    -- the command after ordering, what `setCommon` built from it, IFM2 and the override
    have hstruct : ∃ (c : StripeD) (b0 : BlockB) (u : EwUpd) (i2 : Option FmB), setCommon fo c arch .elementwise = .ok b0 ∧
        b = applyUpd { b0 with subOp := b.subOp, ifm2 := i2, scalar := b.scalar, reversed := b.reversed } u ∧
        ewFinish fo c0.op { b0 with subOp := b.subOp, ifm2 := i2, scalar := b.scalar, reversed := b.reversed } = .ok u ∧
        c.op = c0.op ∧ c.psOps = c0.psOps ∧ c.ofm = c0.ofm ∧ c.ofmBox = c0.ofmBox ∧ c.ofmShape0 = c0.ofmShape0 ∧
        c.weight = c0.weight ∧ c.weightDepth = c0.weightDepth ∧ c.scale = c0.scale ∧ c.blockConfig = c0.blockConfig ∧
        InTriple c0 c.ifm c.ifmBox c.ifmShape0 ∧
        (∀ f2, i2 = some f2 → ∃ t bx sh fm2, InTriple c0 t bx sh ∧
          createFm t bx arch sh c0.op.tileOffsIfm1 none false = .ok fm2 ∧
          ∃ S, f2 = withQuant { fm2 with shape := S } (getIfmQuant c0 t)) := by
      unfold createElementwise at hb
      split at hb
      · cases hb
      · rename_i sub hsub
        by_cases hun : isUnaryEw sub = true
        · simp only [hun, ↓reduceIte] at hb
          split at hb
          · cases hb
          · rename_i b0 hb0
            split at hb
            · cases hb
            · rename_i u hu
              injection hb with hb
              subst hb
              have hb2 := (setCommon_ew_fields fo c0 arch b0 hew hb0).2.2.2.2.2
              refine ⟨c0, b0, u, none, hb0, ?_, ?_, rfl, rfl, rfl, rfl, rfl, rfl, rfl, rfl, rfl, Or.inl ⟨rfl, rfl, rfl⟩, ?_⟩
              · simp [applyUpd, hb2.1, hb2.2.1]
              · simpa [applyUpd, hb2.1, hb2.2.1] using hu
              · intro f2 hf2; cases hf2
        · have hun' : isUnaryEw sub = false := by simpa using hun
          simp only [hun', Bool.false_eq_true, ↓reduceIte] at hb
          split at hb
          · cases hb
          · rename_i c rev hord
            split at hb
            · cases hb
            · rename_i f2 sc hf2
              split at hb
              · cases hb
              · rename_i b0 hb0
                split at hb
                · cases hb
                · rename_i u hu
                  injection hb with hb
                  subst hb
                  obtain ⟨s1, s2, s3, s4, s5, s6, s7, s8, s9, s10, s11⟩ := ewOrder_same c0 c rev hord
                  obtain ⟨t2', b2', s1', fm2, hc2, hcb2, hcs1, hfm2, hf2eq, _, _⟩ := ewIfm2_spec c arch f2 sc hf2
                  refine ⟨c, b0, u, some f2, hb0, ?_, ?_, s1, s2, s3, s4, s5, s6, s7, s8, s9, s10, ?_⟩
                  · simp [applyUpd]
                  · simpa [applyUpd] using hu
                  · intro f2' hf2'
                    injection hf2' with hf2'
                    subst hf2'
                    refine ⟨t2', b2', s1', fm2, s11 t2' b2' s1' hc2 hcb2 hcs1, s1 ▸ hfm2,
                      (if t2'.isScalar then ⟨0, 0, 0⟩ else blockOf b2'), ?_⟩
                    rw [hf2eq, getIfmQuant_congr c0 c s1 s2]
    obtain ⟨c, b0, u, i2, hb0, hbeq, hu, s1, s2, s3, s4, s5, s6, s7, s8, s9, s10, hi2⟩ := hstruct
    have hbtc : c.op.type.blockType = .elementWise := by rw [s1]; exact hew
    obtain ⟨hifm, hofm, hw, hk, hp, _, _, hkind, hbc⟩ := setCommon_ew_fields fo c arch b0 hbtc hb0
    obtain ⟨ifm0, hifm0, hifmeq⟩ := commonIfm_spec c arch b0.ifm hifm
    unfold commonOfm at hofm
    split at hofm
    · cases hofm
    · rename_i ofm0 hofm0
      injection hofm with hofmeq
      -- FmFits of the three feature maps
      have hfitIfm : FmFits b0.ifm.fm maxAddr := by
        rw [hifmeq]
        refine fmFits_withQuant _ _ _ _ (createFm_region _ _ _ _ _ _ _ _ hifm0)
          (wf.inTiles c.ifm c.ifmBox c.ifmShape0 _ ifm0 s10 (Or.inl (by rw [s1])) hifm0) ?_
        intro x hx
        rw [getIfmQuant_congr c0 c s1 s2] at hx
        refine getIfmQuant_zp c0 c.ifm x hx (fun q hq => wf.zpIn c.ifm q ?_ hq)
        rcases s10 with ⟨e1, _, _⟩ | ⟨e1, _, _⟩
        · exact Or.inl e1
        · exact Or.inr e1
      have hfitOfm0 : FmFits b0.ofm.fm maxAddr ∧ b0.ofm.fm.shape = blockOf c0.ofmBox := by
        rw [← hofmeq]
        constructor
        · refine fmFits_withQuant _ _ _ _ (createFm_region _ _ _ _ _ _ _ _ hofm0)
            (wf.ofmTiles ofm0 (by rw [← s3, ← s4, ← s5, ← s1]; exact hofm0)) ?_
          intro x hx
          rw [getOfmQuant_congr c0 c s1 s2, s3] at hx
          exact getOfmQuant_zp c0 c0.ofm x hx wf.zpOut
        · rw [s4]; cases getOfmQuant c c.ofm <;> rfl
      obtain ⟨hfitOfm, hshapeOfm⟩ := ewFinish_ofm_fits fo c0.op _ u maxAddr hu hfitOfm0.1
      unfold toRecord at h
      split at h
      · cases h
      · split at h
        · cases h
        · split at h
          · cases h
          · rename_i qs hqs
            injection h with h
            subst h
            refine ⟨_, rfl, fitsBlock_nil _ _ ?_⟩
            have hbifm : b.ifm = b0.ifm := by rw [hbeq]; rfl
            have hbofm : b.ofm = u.ofm := by rw [hbeq]; rfl
            have hbifm2 : b.ifm2 = i2 := by rw [hbeq]; rfl
            constructor
            · show FmFits b.ifm.fm maxAddr
              rw [hbifm]; exact hfitIfm
            · show 1 ≤ b.ifm.fm.shape.depth ∧ b.ifm.fm.shape.depth < 65537
              rw [hbifm, hifmeq]
              have : (withQuant { ifm0 with shape := ⟨(blockOf c.ifmBox).height, (blockOf c.ifmBox).width,
                  getIfmDepth c.op.type.blockType c.ifmBox c.ofmBox⟩ } (getIfmQuant c c.ifm)).fm.shape.depth =
                  getIfmDepth c.op.type.blockType c.ifmBox c.ofmBox := by
                cases getIfmQuant c c.ifm <;> rfl
              rw [this]
              simp only [getIfmDepth, hbtc, s4]
              exact wf.ofmBox.2.2
            · show FmFits b.ofm.fm maxAddr
              rw [hbofm]; exact hfitOfm
            · show ShapeFits b.ofm.fm.shape
              rw [hbofm, hshapeOfm]
              show ShapeFits b0.ofm.fm.shape
              rw [hfitOfm0.2]; exact wf.ofmBox
            · intro f2 hf2
              simp only [hbifm2, Option.map_eq_some_iff] at hf2
              obtain ⟨f2B, hf2B, rfl⟩ := hf2
              obtain ⟨t, bx, sh, fm2, htri, hfm2, S, hf2eq⟩ := hi2 f2B hf2B
              have hfit2 : FmFits f2B.fm maxAddr := by
                rw [hf2eq]
                refine fmFits_withQuant _ _ _ _ (createFm_region _ _ _ _ _ _ _ _ hfm2)
                  (wf.inTiles t bx sh _ fm2 htri (Or.inr rfl) hfm2) ?_
                intro x hx
                refine getIfmQuant_zp c0 t x hx (fun q hq => wf.zpIn t q ?_ hq)
                rcases htri with ⟨e1, _, _⟩ | ⟨e1, _, _⟩
                · exact Or.inl e1
                · exact Or.inr e1
              cases hqv : qs with
              | none => simpa using hfit2
              | some q =>
                simp only
                refine ⟨hfit2.zp, ?_⟩
                exact hscalar _ q f2B.fm rfl (by simp [hqv]) (by simp [hbifm2, hf2B])
            · intro k hk'
              have : b.kernel = none := by rw [hbeq]; exact hk
              simp only [this] at hk'; cases hk'
            · intro p' hp'
              have : b.padding = none := by rw [hbeq]; exact hp
              simp only [this] at hp'; cases hp'
            · intro rg hrg
              have hwb : b.weights = b0.weights := by rw [hbeq]; rfl
              simp only [hwb] at hrg
              have hw0 : commonWeights c0 arch = .ok (b0.weights, b0.biases) := by
                rw [← commonWeights_congr c0 c s6 s7 s8 arch]; exact hw
              exact ⟨commonWeights_regions c0 arch _ _ hw0 rg (by simp [hrg]), (wf.ranges _ _ hw0 rg (by simp [hrg])).1,
                (wf.ranges _ _ hw0 rg (by simp [hrg])).2⟩
            · intro rg hrg
              have hwb : b.biases = b0.biases := by rw [hbeq]; rfl
              simp only [hwb] at hrg
              have hw0 : commonWeights c0 arch = .ok (b0.weights, b0.biases) := by
                rw [← commonWeights_congr c0 c s6 s7 s8 arch]; exact hw
              exact ⟨commonWeights_regions c0 arch _ _ hw0 rg (by simp [hrg]), (wf.ranges _ _ hw0 rg (by simp [hrg])).1,
                (wf.ranges _ _ hw0 rg (by simp [hrg])).2⟩
            · show ShapeFits b.blockConfig
              have : b.blockConfig = b0.blockConfig := by rw [hbeq]; rfl
              rw [this, hbc, s9]; exact wf.blockConfig
            · exact ho

/-- **DMA**: source and destination carry legal regions — a lookup table goes to SHRAM (`0x103`, the one region outside
    0…7 the hardware accepts for a DMA), everything else to region 0…2 — and, for the transfer that buffers encoded weights,
    source address, destination address and length are multiples of 16 (what Ethos-U55 demands of every DMA) whenever the two
    tensors are 16-byte aligned; with addresses and length below the limit (`hfit`) the operation passes `OpCheck.fitsDma`. -/
theorem build_legal_dma (fo : FloatOps) (d : DmaD) (arch : ArchD) (o : Oracle) (r : Built) (maxAddr : Int)
    (h : convert fo (.dma d) arch o = .ok r)
    (hfit : ∀ s t, createDmaOp d arch = .ok (s, t) →
      (0 ≤ s.address ∧ s.address < maxAddr) ∧ (0 ≤ t.address ∧ t.address < maxAddr) ∧ (0 ≤ s.length ∧ s.length < maxAddr)) :
    ∃ dma, r.op = .dma dma ∧ OpCheck.fitsDma dma maxAddr = [] ∧
      (d.dst.purpose = .lut → dma.dst.region = 0x103) ∧
      (d.src.purpose = .weights → (∀ rg ∈ d.src.ranges, rg.offset % 16 = 0) → d.src.address % 16 = 0 → d.dst.address % 16 = 0 →
        dma.src.address % 16 = 0 ∧ dma.dst.address % 16 = 0 ∧ dma.src.length % 16 = 0 ∧ dma.dst.length = dma.src.length) := by
  unfold convert at h
  simp only at h
  split at h
  · cases h
  · rename_i s t hdma
    injection h with h
    subst h
    refine ⟨_, rfl, ?_, ?_, ?_⟩
    · obtain ⟨hs, ht, hl⟩ := hfit s t hdma
      -- regions
      have hregs : (0 ≤ s.region ∧ s.region < 8) ∧ (t.region = 0x103 ∨ (0 ≤ t.region ∧ t.region < 8)) := by
        unfold createDmaOp at hdma
        split at hdma
        · cases hdma
        · rename_i sr hsr
          split at hdma
          · cases hdma
          · rename_i dr hdr
            have h1 := getRegion_range _ _ _ hsr
            have h2 : dr = 0x103 ∨ (0 ≤ dr ∧ dr < 8) := by
              unfold dmaDstRegion at hdr
              split at hdr
              · injection hdr with hdr; left; rw [← hdr]; rfl
              · right; exact getRegion_range _ _ _ hdr
            split at hdma
            · split at hdma
              · cases hdma
              · split at hdma
                · cases hdma
                · injection hdma with hdma; injection hdma with e1 e2; subst e1; subst e2; exact ⟨h1, h2⟩
            · split at hdma
              · cases hdma
              · injection hdma with hdma; injection hdma with e1 e2; subst e1; subst e2; exact ⟨h1, h2⟩
      exact fitsDma_nil _ maxAddr rfl rfl hregs.1
        (by rcases hregs.2 with h3 | h3
            · left; rw [h3]; rfl
            · right; exact h3) hs ht hl
    · intro hl
      unfold createDmaOp at hdma
      split at hdma
      · cases hdma
      · split at hdma
        · cases hdma
        · rename_i dr hdr
          have : dr = 0x103 := by
            unfold dmaDstRegion at hdr
            simp only [hl, beq_self_eq_true, ↓reduceIte] at hdr
            injection hdr with hdr; rw [← hdr]; rfl
          split at hdma
          · split at hdma
            · cases hdma
            · split at hdma
              · cases hdma
              · injection hdma with hdma; injection hdma with e1 e2; subst e2; exact this
          · split at hdma
            · cases hdma
            · injection hdma with hdma; injection hdma with e1 e2; subst e2; exact this
    · intro hp hoff hsa hda
      obtain ⟨sr, dr, depth, s', t', _, _, _, hd', rfl, rfl⟩ := createDmaOp_weights_spec d arch s t hp hdma
      obtain ⟨hlen, rfl, r0, hr0, _, _, hs0⟩ := WeightLayout.createDmaOp_spec _ _ _ _ _ s' t' hd'
      have hro := hoff r0 hr0
      have hsum : WeightLayout.foundSum d.src.ranges depth (List.range arch.ncores) % 16 = 0 := by
        unfold WeightLayout.foundSum
        generalize (List.range arch.ncores).filterMap (fun k => WeightLayout.findRange d.src.ranges k depth) = l
        induction l with
        | nil => rfl
        | cons x xs ih =>
          simp only [List.map_cons, List.sum_cons]
          have := WeightLayout.roundUp16_mod x.totalBytes
          omega
      simp only [toRange]
      refine ⟨?_, ?_, ?_, trivial⟩
      · rw [hs0]; omega
      · omega
      · rw [hlen]; omega

/-! ## composition with the register generator (C06)

`generate_register_command_stream_for_sg`: every command is converted, the list is handed to `generate_command_stream`.  The
output type of the builder model is the input type of `Model/Emit.generate`, so `Props.C06.generate_refines` applies to what the
builder produces: decoding the emitted words gives the events of the un-elided register program of *the converted commands*. -/

/-- `[convert_command_to_npu_op(cmd, arch) for cmd in …]` (each command with the integers C06 takes from other mechanisms) -/
def convertAll (fo : FloatOps) (archD : ArchD) : List (Cmd × Oracle) → Except Err (List Op)
  | [] => .ok []
  | (c, o) :: rest =>
    match convert fo c archD o, convertAll fo archD rest with
    | .ok r, .ok ops => .ok (r.op :: ops)
    | .error e, _ => .error e
    | _, .error e => .error e

theorem commands_to_stream_refines (fo : FloatOps) (archD : ArchD) (arch : Arch) (cmds : List (Cmd × Oracle)) (ops : List Op)
    (ws : List Nat) (hc : convertAll fo archD cmds = .ok ops) (hg : Emit.generate arch ops = .ok ws) :
    ops.length = cmds.length ∧
    ∃ items, Emit.program arch ops = .ok items ∧
      (Decode.splitCmds ws >>= Decode.events) = Decode.events (items.map EmitLemmas.itemCmd) ∧
      Decode.splitCmds (Emit.fullWords items) = .ok (items.map EmitLemmas.itemCmd) := by
  refine ⟨?_, Props.C06.generate_refines arch ops ws hg⟩
  clear hg
  induction cmds generalizing ops with
  | nil => simp only [convertAll] at hc; injection hc with hc; subst hc; rfl
  | cons x xs ih =>
    obtain ⟨c, o⟩ := x
    simp only [convertAll] at hc
    split at hc
    · rename_i r ops' _ hrest
      injection hc with hc; subst hc
      simp [ih ops' hrest]
    · cases hc
    · cases hc

/-! ## non-vacuity: the hypotheses are met by real commands of compiled networks

`Lemmas/NpuOpBuildExample.lean` is generated (`tools/hl2npu_example.py`) from request lines captured while compiling generated
networks; `floatOps` are the exact IEEE operations of the protocol handler. -/

open VelaVerif.NpuOpBuild.Example
open VelaVerif.Handlers.NpuOpBuild (floatOps)

/-- (b) `SUB(a[4] constant-like first operand, b[1,1,16,4])` on ethos-u55-32: the builder swaps the operands itself; IFM gets
    B's quantisation (zero point 59), IFM2 gets A's (zero point 6) — the two differ, so the stale-local defect would show -/
example : elementwiseOpMap Example.swap.op.type = some 1 ∧ isUnaryEw 1 = false ∧ Example.swap.reversedOperands = false := by
  decide +kernel

example : (createElementwise floatOps Example.swap swapArch).toOption.map
      (fun b => (b.reversed, b.ifm.fm.zeroPoint, b.ifm2.map (·.fm.zeroPoint), b.ifm.scale.map (·.bits))) =
      some (true, 59, some 6, some 4574497117455777792) := by decide +kernel

example : (createElementwise floatOps Example.swap swapArch).toOption.map
      (fun b => ((b.ifm2.bind (·.scale)).map (·.bits), b.ifm.fm.addresses, b.ifm2.map (·.fm.addresses))) =
      some (some 4602484194877112320, [0, 0, 0, 0], some [48, 0, 0, 0]) := by decide +kernel

/-- Latent hazard (unreachable today: operators whose first operand is broadcast are never cascaded, and an un-cascaded
    operator has one stripe): the swap branch also exchanges `ps.ifm_shapes`, which a *second* stripe of the same pass would read
    already exchanged while its own tensors and boxes are not — the order test then passes, nothing is swapped, and the small
    tensor is addressed as IFM with the large operator shape. -/
theorem second_stripe_would_not_swap_witness :
    (ewOrder Example.swap).toOption.map (·.2) = some true ∧
    (ewOrder { Example.swap with ifmShape0 := ⟨1, 1, 16, 4⟩, ifmShape1 := some ⟨1, 1, 1, 4⟩ }).toOption.map
      (fun p => (p.2, p.1.ifm.t.shape, p.1.ifmShape0)) = some (false, [4], ⟨1, 1, 16, 4⟩) := by decide +kernel

/-- (b) `MUL(constant, x)`: reversed by the scheduler, no swap by the builder -/
example : sched.reversedOperands = true ∧
    (createElementwise floatOps sched schedArch).toOption.map (fun b => (b.reversed, b.ifm.fm.region, b.ifm2.map (·.fm.region))) =
      some (true, 1, some 0) := by
  decide +kernel

/-- (c) a convolution whose scales were encoded into a stand-alone scale tensor (weights found in the compression cache):
    the scale range is the scale tensor's own section at the scale tensor's address -/
example : (createWeights (scale_tensor.weight.getD default) 0 scale_tensor.scale scale_tensorArch).toOption =
    some ([⟨0, 720, 752⟩], [⟨0, 1472, 240⟩]) := by decide +kernel

example : ∀ r ∈ (scale_tensor.scale.map (·.ranges)).getD [], WeightLayout.RangeNum 240 r := by
  intro r hr
  simp [scale_tensor] at hr
  subst hr
  exact ⟨by decide, by decide, by decide, Or.inr ⟨rfl, rfl⟩⟩

/-- (c) two cores, two sections in the stand-alone scale tensor, buffered weights -/
example : (createWeights (scale_tensor2.weight.getD default) 0 scale_tensor2.scale scale_tensor2Arch).toOption =
    some ([⟨2, 368, 112⟩, ⟨2, 848, 144⟩], [⟨0, 3456, 368⟩, ⟨0, 3824, 368⟩]) := by decide +kernel

/-- (c) buffered weights on two cores and the DMA that fills the buffer: both commands of one depth slice -/
example : bufferedDma.src.purpose = .weights ∧ bufferedDma.src.ranges = (buffered.weight.getD default).ranges ∧
    bufferedDma.dst.address = (buffered.weight.getD default).address ∧ bufferedDma.box.start.getLast? = some 0 ∧
    (createDmaOp bufferedDma bufferedDmaArch).toOption = some (⟨0, 80, 240⟩, ⟨2, 512, 240⟩) ∧
    (createWeights (buffered.weight.getD default) 0 none bufferedArch).toOption =
      some ([⟨2, 560, 64⟩, ⟨2, 672, 80⟩], [⟨2, 512, 48⟩, ⟨2, 624, 48⟩]) := by decide +kernel

/-- (d) 1x1 AVERAGE_POOL + RELU on an int8 tensor with zero point 127: the OFM zero point register is forced to 0, the clamp
    is 127 = zero point + round(0 / scale); the float round trip the theorem assumes holds here -/
example : (buildBlock floatOps clamp_pool clamp_poolArch).toOption.map
      (fun b => ((quantiseOpt floatOps b.act.min true b.ofm.scale b.ofm.fm.zeroPoint).toOption, b.ofm.fm.zeroPoint, b.act.opType)) =
      some (some (some 127), 0, 0) := by decide +kernel

example : RoundTrip floatOps ⟨4601569897808396288, 1⟩ 2 127 := by unfold RoundTrip; decide +kernel

/-- the scale of that tensor (≈ 0.43, a `numpy.float32`) meets `NormalScale`, and so does the Python int 1 used for "no scale":
    `activation_clamp_spec` (the full statement) applies to the command -/
example : NormalScale ⟨4601569897808396288, 1⟩ ∧ NormalScale floatOps.one ∧
    clamp_pool.ofm.quant = clamp_pool.op.ofmQuant ∧ clamp_pool.op.forcedOutputQuant = none ∧
    (clamp_pool.op.activation.map (·.faf.isRelu)) = some true := by
  unfold NormalScale; decide +kernel

/-- (d) ABS + RELU6 (OFM scale overridden by the ratio of the scales): the clamp stays [-31, 219] in the OFM tensor's
    quantisation (zero point -31, 6 / scale = 250) -/
example : (buildBlock floatOps clamp_ew clamp_ewArch).toOption.map
      (fun b => ((quantiseOpt floatOps b.act.min true b.ofm.scale b.ofm.fm.zeroPoint).toOption,
                 (quantiseOpt floatOps b.act.max true b.ofm.scale b.ofm.fm.zeroPoint).toOption, b.ofm.scale.map (·.bits))) =
      some (some (some (-31)), some (some 219), some 4596435127503945728) := by decide +kernel

example : specBound floatOps (some ⟨4582575640091295744, 1⟩) (-31) ⟨4618441417868443648, 0⟩ = some 219 := by
  unfold specBound; decide +kernel

/-- (a) the hypotheses of `build_legal` hold of a real convolution command (ethos-u55-32, address limit 2^32) -/
example : WellFormed scale_tensor scale_tensorArch 4294967296 where
  ifmTiles := fun fm h => of_decide_eq_true (of_toOption_all _ (fun x => decide (TilesFit x 4294967296)) (by decide +kernel) fm h)
  ofmTiles := fun fm h => of_decide_eq_true (of_toOption_all _ (fun x => decide (TilesFit x 4294967296)) (by decide +kernel) fm h)
  zpIn := by
    intro q h
    have : q.zeroPoint = -128 := by
      rcases h with h | h
      · simp only [scale_tensor] at h; injection h with h; rw [← h]
      · simp only [scale_tensor] at h; cases h
    rw [this]; unfold ZpFits; decide
  zpOut := by
    intro q h
    have : q.zeroPoint = -36 := by
      rcases h with h | h
      · simp only [scale_tensor] at h; injection h with h; rw [← h]
      · simp only [scale_tensor] at h; cases h
    rw [this]; unfold ZpFits; decide
  ifmDepth := by decide +kernel
  ofmBox := by unfold ShapeFits; decide +kernel
  kernel := by unfold KernelFits; decide +kernel
  pads := by
    intro p0 h
    simp only [scale_tensor] at h
    injection h with h
    subst h
    unfold PaddingFits; decide
  stripePads := by decide +kernel
  noTile := by decide +kernel
  ranges := fun ws bs h r hr =>
    of_decide_eq_true (List.all_eq_true.mp (of_toOption_all _
      (fun p => (p.1 ++ p.2).all fun r => decide ((0 ≤ r.address ∧ r.address < 4294967296) ∧ (0 ≤ r.length ∧ r.length < 2 ^ 32)))
      (by decide +kernel) (ws, bs) h) r hr)
  blockConfig := by unfold ShapeFits; decide +kernel

/-- (a) the hypotheses of `build_legal_elementwise` hold of the real SUB command whose operands the builder swaps -/
example : WellFormedEw Example.swap swapArch 4294967296 where
  inTiles := by
    intro t bx sh offs fm htri hoffs h
    have hall : ∀ (t : TensD) (bx : BoxD) (sh : TensorAddr.S4) (offs : List Nat),
        (createFm t bx swapArch sh offs none false).toOption.all (fun x => decide (TilesFit x 4294967296)) = true →
        createFm t bx swapArch sh offs none false = .ok fm → TilesFit fm 4294967296 :=
      fun t bx sh offs hd hx => of_decide_eq_true (of_toOption_all _ _ hd fm hx)
    have hoffs' : offs = [0, 0, 0, 0] := by
      rcases hoffs with rfl | rfl <;> rfl
    subst hoffs'
    rcases htri with ⟨rfl, rfl, rfl⟩ | ⟨h1, h2, h3⟩
    · exact hall _ _ _ _ (by decide +kernel) h
    · simp only [Example.swap, Option.some.injEq] at h1 h2 h3
      subst h1; subst h2; subst h3
      exact hall _ _ _ _ (by decide +kernel) h
  ofmTiles := fun fm h => of_decide_eq_true (of_toOption_all _ (fun x => decide (TilesFit x 4294967296)) (by decide +kernel) fm h)
  zpIn := by
    intro t q ht hq
    have : q.zeroPoint = 6 ∨ q.zeroPoint = 59 := by
      rcases ht with rfl | ht
      · rcases hq with hq | hq
        · simp only [Example.swap] at hq; injection hq with hq; left; rw [← hq]
        · simp only [Example.swap] at hq; cases hq
      · simp only [Example.swap, Option.some.injEq] at ht
        subst ht
        rcases hq with hq | hq
        · simp only at hq; injection hq with hq; right; rw [← hq]
        · simp only [Example.swap] at hq; cases hq
    unfold ZpFits
    rcases this with h | h <;> rw [h] <;> decide
  zpOut := by
    intro q h
    have : q.zeroPoint = -56 := by
      rcases h with h | h
      · simp only [Example.swap] at h; injection h with h; rw [← h]
      · simp only [Example.swap] at h; cases h
    rw [this]; unfold ZpFits; decide
  ofmBox := by unfold ShapeFits; decide +kernel
  ranges := fun ws bs h r hr =>
    of_decide_eq_true (List.all_eq_true.mp (of_toOption_all _
      (fun p => (p.1 ++ p.2).all fun r => decide ((0 ≤ r.address ∧ r.address < 4294967296) ∧ (0 ≤ r.length ∧ r.length < 2 ^ 32)))
      (by decide +kernel) (ws, bs) h) r hr)
  blockConfig := by unfold ShapeFits; decide +kernel

/-- DMA of a lookup table: destination in SHRAM (`BASE_PTR_INDEX_MEM2MEM`) -/
example : (createDmaOp dma_lutDma dma_lutDmaArch).toOption = some (⟨0, 16, 256⟩, ⟨0x103, 22528, 256⟩) := by decide +kernel

end VelaVerif.Props.C06Build
