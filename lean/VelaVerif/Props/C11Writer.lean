import VelaVerif.Model.TfliteWriter
import VelaVerif.Model.TfliteReader
import VelaVerif.Spec.TfliteFile
import VelaVerif.Lemmas.TfliteWriter
/-!
# C11 / C14 — the TFLite writer and reader (Model/TfliteWriter.lean, Model/TfliteReader.lean)

What the file says is a function of the graph description alone; every index written is in range and refers to the intended
entity; quantisation fields are copied tensor by tensor; the reader attaches the full range of the element type.
-/
namespace VelaVerif.Props.C11Writer
open VelaVerif.Tflite VelaVerif.Tflite.Writer VelaVerif.OpIndices

/-! ## (b) the file is a function of the graph description alone

The writer walks one unordered collection: `set((op.type, custom_code, version) for op in all_ops)`, which it sorts. Every
other collection it walks is a list or an insertion-ordered `dict` (`tensor_set`, `tensor_map_sg`, `buffer_map`,
`operator_code_map`: filled and read in an order fixed by the graph), so the model has no further parameter. -/

/-- **write_deterministic.** Whatever order `enum` the set of operator codes is iterated in (any permutation of its
elements), the file is the one `write` produces — including the cases in which writing fails. -/
theorem write_deterministic (d : Desc) (enum : List Code)
    (hp : ∀ subs, (subgraphsToWrite d).mapM (prepSub d.tensors) = .ok subs → enum.Perm (codeSet subs)) :
    writeWith d enum = write d := by
  cases h : (subgraphsToWrite d).mapM (prepSub d.tensors) with
  | error e =>
    obtain ⟨h1, h2⟩ := write_err d e h enum
    rw [h1, h2]
  | ok subs =>
    rw [write_eq d subs h]
    exact writeWith_congr d _ _ (sortCodes_perm _ _ (hp subs h))

/-- the collection really is a set: no code occurs twice, so "permutation of its elements" is the right quantifier -/
theorem operator_code_set_nodup (subs : List PSub) : (codeSet subs).Nodup := codeSet_nodup subs

/-- the sort key is the whole triple, and the order on triples is a total order: two codes that compare equal both ways are
the same code. This is what makes the sorted list independent of the iteration order (`permutation_invariant_iff` of
Props/C14: invariance holds iff the key separates the elements). -/
theorem operator_code_order_separates (a b : Code) (h1 : Code.le a b = true) (h2 : Code.le b a = true) : a = b :=
  Code.le_antisymm a b h1 h2

/-- A key that forgets the custom code and the version (seeded change C14-r3m2: `key=lambda op_code: op_code[0]`) does not
separate: two third-party custom operators come out in the order in which the set happened to be iterated. -/
theorem sort_by_type_only_witness :
    let foo : Code := { opId := 40, custom := [70, 111, 111], version := 1 }
    let bar : Code := { opId := 40, custom := [66, 97, 114], version := 1 }
    isort (fun a b : Code => decide (a.opId ≤ b.opId)) [foo, bar] ≠ isort (fun a b : Code => decide (a.opId ≤ b.opId)) [bar, foo] ∧
    sortCodes [foo, bar] = sortCodes [bar, foo] := by
  decide

end VelaVerif.Props.C11Writer
