import VelaVerif.Model.TfliteWriter
import VelaVerif.Model.TfliteReader
import VelaVerif.Spec.TfliteFile
/-! # C11 / C14 — the TFLite writer and reader (theorems; under construction) -/
namespace VelaVerif.Props.C11Writer
open VelaVerif.Tflite

end VelaVerif.Props.C11Writer
