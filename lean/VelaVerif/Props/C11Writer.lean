import VelaVerif.Model.TfliteWriter
import VelaVerif.Model.TfliteReader
import VelaVerif.Spec.TfliteFile
import VelaVerif.Lemmas.TfliteWriter
import VelaVerif.Lemmas.TfliteReader
import VelaVerif.Model.TfliteDemo
import VelaVerif.Lemmas.TfliteConforms
import VelaVerif.Lemmas.TfliteConformsMeta
import VelaVerif.Lemmas.TfliteLoop
/-!
# C11 / C14 — the TFLite writer and reader (Model/TfliteWriter.lean, Model/TfliteReader.lean)

What the file says is a function of the graph description alone; every index written is in range and refers to the intended
entity; quantisation fields are copied tensor by tensor; the reader attaches the full range of the element type.
-/
set_option linter.unusedSimpArgs false
namespace VelaVerif.Props.C11Writer
open VelaVerif.Tflite VelaVerif.Tflite.Writer VelaVerif.OpIndices VelaVerif.Gen VelaVerif.Tflite.Demo

/-! ## (b) the file is a function of the graph description alone

The writer walks one unordered collection: `set((op.type, custom_code, version) for op in all_ops)`, which it sorts. Every
other collection it walks is a list or an insertion-ordered `dict` (`tensor_set`, `tensor_map_sg`, `buffer_map`,
`operator_code_map`: filled and read in an order fixed by the graph), so the model has no further parameter. -/

/-- **write_deterministic.** Whatever order `enum` the set of operator codes is iterated in (any permutation of its
elements), the file is the one `write` produces — including the cases in which writing fails. -/
theorem write_deterministic (d : Desc) (enum : List Code)
    (hp : ∀ subs, (subgraphsToWrite d).mapM (prepSub d.tensors) = .ok subs → enum.Perm (codeSet subs)) :
    writeWith d enum = write d := by
  cases h : (subgraphsToWrite d).mapM (prepSub d.tensors) with
  | error e =>
    obtain ⟨h1, h2⟩ := write_err d e h enum
    rw [h1, h2]
  | ok subs =>
    rw [write_eq d subs h]
    exact writeWith_congr d _ _ (sortCodes_perm _ _ (hp subs h))

/-- the collection really is a set: no code occurs twice, so "permutation of its elements" is the right quantifier -/
theorem operator_code_set_nodup (subs : List PSub) : (codeSet subs).Nodup := codeSet_nodup subs

/-- the sort key is the whole triple, and the order on triples is a total order: two codes that compare equal both ways are
the same code. This is what makes the sorted list independent of the iteration order (`permutation_invariant_iff` of
Props/C14: invariance holds iff the key separates the elements). -/
theorem operator_code_order_separates (a b : Code) (h1 : Code.le a b = true) (h2 : Code.le b a = true) : a = b :=
  Code.le_antisymm a b h1 h2

/-- A key that forgets the custom code and the version (seeded change C14-r3m2: `key=lambda op_code: op_code[0]`) does not
separate: two third-party custom operators come out in the order in which the set happened to be iterated. -/
theorem sort_by_type_only_witness :
    let foo : Code := { opId := 40, custom := [70, 111, 111], version := 1 }
    let bar : Code := { opId := 40, custom := [66, 97, 114], version := 1 }
    isort (fun a b : Code => decide (a.opId ≤ b.opId)) [foo, bar] ≠ isort (fun a b : Code => decide (a.opId ≤ b.opId)) [bar, foo] ∧
    sortCodes [foo, bar] = sortCodes [bar, foo] := by
  decide

/-! ## (c) every index written is in range and refers to the intended entity; (d) quantisation fields -/

/-- **written_tensors** ((c) and (d) for tensors). For every written subgraph, position `i` of the file's tensor table holds
the record of the `i`-th tensor of the writer's tensor list (`sgAll`: the tensor set sorted by name): name, shape, element type,
every quantisation field, variable flag are that tensor's own, and the buffer the record names exists and holds that tensor's
constant data. -/
theorem written_tensors (d : Desc) (enum : List Code) (m : ModelT) (h : writeWith d enum = .ok m) :
    ∃ subs, (subgraphsToWrite d).mapM (prepSub d.tensors) = .ok subs ∧ m.subgraphs.length = subs.length ∧
      ∀ (k : Nat) ps sg, subs[k]? = some ps → m.subgraphs[k]? = some sg →
        sg.tensors.length = (sgAll d.tensors ps).length ∧
        ∀ (i g : Nat), (sgAll d.tensors ps)[i]? = some g →
          ∃ td tt b, d.tensors[g]? = some td ∧ sg.tensors[i]? = some tt ∧ m.buffers[tt.buffer]? = some b ∧
            tt.name = some td.name ∧ tt.shape = some (Spec.writtenShape td) ∧ dtypeCode td.dtype = some tt.type ∧
            tt.quant = td.quant.map quantT ∧ tt.isVariable = td.isVariable ∧ tt.extra = [] ∧ b.data = td.values := by
  obtain ⟨subs, opcodes, st, metas, h1, _, _, _, hm, acc, hl⟩ := write_facts d enum m h
  refine ⟨subs, h1, hl, ?_⟩
  intro k ps sg hk hs
  have hmap : (subs.map (sgAll d.tensors))[k]? = some (sgAll d.tensors ps) := by simp [hk]
  obtain ⟨tl, tf⟩ := acc.tensors k _ sg hmap hs
  refine ⟨tl, fun i g hig => ?_⟩
  obtain ⟨td, tt, a1, a2, a3, _, a5⟩ := tf i g hig
  obtain ⟨b1, b2, b3, b4, b5, _, b7⟩ := tensorT_ok td tt.buffer tt a3
  refine ⟨td, tt, { data := td.values }, a1, a2, ?_, b1, b2, b3, b4, b5, b7, rfl⟩
  rw [hm]
  exact assemble_buffers_get d opcodes m.subgraphs st metas _ _ a5

/-- **tensor_indices_bijective.** The tensor list of a written subgraph has no repetition and as many entries as the file's
tensor table: "position in the table" and "tensor of the graph that is written" are in one-to-one correspondence; a tensor is
written iff it is an original input, an operand of a written operator or of a Placeholder, or (repair C11-60) a subgraph output
that is left after the virtual outputs were removed. -/
theorem tensor_indices_bijective (d : Desc) (enum : List Code) (m : ModelT) (h : writeWith d enum = .ok m) :
    ∃ subs, (subgraphsToWrite d).mapM (prepSub d.tensors) = .ok subs ∧
      ∀ (k : Nat) ps sg, subs[k]? = some ps → m.subgraphs[k]? = some sg →
        (sgAll d.tensors ps).Nodup ∧ sg.tensors.length = (sgAll d.tensors ps).length ∧
        ∀ g, g ∈ sgAll d.tensors ps ↔
          (g ∈ ps.sg.originalInputs ∨ ∃ op ∈ sgOps ps, (op.ignored = false ∨ op.placeholder = true) ∧ some g ∈ op.operands) ∨
            g ∈ sgOuts ps := by
  obtain ⟨subs, _, st, _, h1, _, _, _, _, acc, _⟩ := write_facts d enum m h
  refine ⟨subs, h1, ?_⟩
  intro k ps sg hk hs
  have hmap : (subs.map (sgAll d.tensors))[k]? = some (sgAll d.tensors ps) := by simp [hk]
  refine ⟨sgAll_nodup _ _, (acc.tensors k _ sg hmap hs).1, fun g => ?_⟩
  rw [mem_sgAll]; unfold sgSet; rw [mem_tensorSet]

/-- **written_operators** ((c) for operators). Operator `j` of a written subgraph is the `j`-th operator of the graph that is
not a Const / Placeholder / SubgraphInput; the operator-code entry it points to exists and is the serialisation of a code with
the operator's type and version (for third-party custom operators: of exactly its (custom code, version)); every operand
index is −1 exactly where the graph has `None`, and otherwise the position, in the subgraph's tensor table, of that very
tensor; results and intermediates likewise. -/
theorem written_operators (d : Desc) (enum : List Code) (m : ModelT) (h : writeWith d enum = .ok m) :
    ∃ subs, (subgraphsToWrite d).mapM (prepSub d.tensors) = .ok subs ∧
      ∀ (k : Nat) ps sg, subs[k]? = some ps → m.subgraphs[k]? = some sg →
        sg.operators.length = ((sgOps ps).filter (!·.ignored)).length ∧
        ∀ (j : Nat) p o, ((sgOps ps).filter (!·.ignored))[j]? = some p → sg.operators[j]? = some o →
          (∃ c oc, (sortCodes enum)[o.opcodeIndex]? = some c ∧ m.opcodes[o.opcodeIndex]? = some oc ∧ serialiseOpCode c = .ok oc ∧
            c.opId = p.info.id ∧ c.version = p.version ∧ (p.info.name = "Custom" → c = p.code)) ∧
          (∃ ins, o.inputs = some ins ∧ ins.length = p.inputs.length ∧
            ∀ (q : Nat), (p.inputs[q]? = some none → ins[q]? = some (-1)) ∧
              ∀ g, p.inputs[q]? = some (some g) → ∃ i : Nat, ins[q]? = some (i : Int) ∧ (sgAll d.tensors ps)[i]? = some g) ∧
          (∃ outs, o.outputs = some outs ∧
            List.Forall₂ (fun g (i : Int) => ∃ n : Nat, i = n ∧ (sgAll d.tensors ps)[n]? = some g) (p.outputs.filterMap id) outs) ∧
          (∃ im, o.intermediates = some im ∧
            List.Forall₂ (fun g (i : Int) => ∃ n : Nat, i = n ∧ (sgAll d.tensors ps)[n]? = some g) (p.intermediates.filterMap id) im) ∧
          o.mutating = some [] ∧ o.extra = [] := by
  obtain ⟨subs, opcodes, st, metas, h1, h2, h3, _, hm, _, hl⟩ := write_facts d enum m h
  refine ⟨subs, h1, ?_⟩
  intro k ps sg hk hs
  have hloc := subgraphs_local d.tensors (sortCodes enum) subs st0 m.subgraphs st h3
  have hk' : k < subs.length := (List.getElem?_eq_some_iff.mp hk).1
  have hs' : k < m.subgraphs.length := (List.getElem?_eq_some_iff.mp hs).1
  have hL := (List.forall₂_iff_get.mp hloc).2 k hk' hs'
  have e1 : subs.get ⟨k, hk'⟩ = ps := by
    have := (List.getElem?_eq_some_iff.mp hk).2; simpa using this
  have e2 : m.subgraphs.get ⟨k, hs'⟩ = sg := by
    have := (List.getElem?_eq_some_iff.mp hs).2; simpa using this
  rw [e1, e2] at hL
  obtain ⟨outs2, operators, _, hops, hoe, _, _, _, _⟩ := hL
  obtain ⟨ol, of⟩ := mapM_ok _ _ _ hops
  rw [hoe]
  refine ⟨ol, ?_⟩
  intro j p o hj ho
  obtain ⟨o', ho', hser⟩ := of j p hj
  rw [ho] at ho'
  obtain rfl := Option.some.inj ho'
  obtain ⟨s1, s2, s3, s4, s5, s6⟩ := serialiseOperator_ok _ _ _ _ hser
  have hpm : p ∈ (sgOps ps).filter (!·.ignored) := List.mem_of_getElem? hj
  refine ⟨?_, ?_, ?_, ?_, s5, s6⟩
  · obtain ⟨c, c1, c2, c3, c4⟩ := opcodeIndex_ok _ _ _ s4
    obtain ⟨_, cf⟩ := mapM_ok _ _ _ h2
    obtain ⟨oc, oc1, oc2⟩ := cf _ c c1
    refine ⟨c, oc, c1, ?_, oc2, c2, c3, c4⟩
    rw [hm]; exact oc1
  · refine ⟨_, s1, by simp, ?_⟩
    intro q
    constructor
    · intro hq
      simp [List.getElem?_map, hq, mapIdx]
    · intro g hq
      have hgm : g ∈ sgAll d.tensors ps := operand_mem d.tensors ps p hpm g (by
        unfold POp.operands
        exact List.mem_append_left _ (List.mem_append_left _ (List.mem_of_getElem? hq)))
      obtain ⟨i, hi, hgi⟩ := indexIn_of_mem _ g hgm
      exact ⟨i, by simp [List.getElem?_map, hq, mapIdx, hi], hgi⟩
  · refine ⟨_, s2, filterMap_mapIdx _ _ ?_⟩
    intro g hg
    exact operand_mem d.tensors ps p hpm g (by
      unfold POp.operands
      exact List.mem_append_left _ (List.mem_append_right _ hg))
  · refine ⟨_, s3, filterMap_mapIdx _ _ ?_⟩
    intro g hg
    exact operand_mem d.tensors ps p hpm g (by
      unfold POp.operands
      exact List.mem_append_right _ hg)

/-- **written_interface.** Subgraph inputs: one entry per original input, in order, each the table position of that tensor.
Outputs: the output list with the virtual outputs removed, expanded by the original positions; the entries whose tensor is in
the table, in order, each the table position of that tensor. -/
theorem written_interface (d : Desc) (enum : List Code) (m : ModelT) (h : writeWith d enum = .ok m) :
    ∃ subs, (subgraphsToWrite d).mapM (prepSub d.tensors) = .ok subs ∧
      ∀ (k : Nat) ps sg, subs[k]? = some ps → m.subgraphs[k]? = some sg →
        (∃ ins, sg.inputs = some ins ∧
          List.Forall₂ (fun g (i : Int) => ∃ n : Nat, i = n ∧ (sgAll d.tensors ps)[n]? = some g) ps.sg.originalInputs ins) ∧
        (∃ outs2 outs, outputList ps.sg.originalOutputPositions (sgOuts ps) = .ok outs2 ∧ sg.outputs = some outs ∧
          List.Forall₂ (fun g (i : Int) => ∃ n : Nat, i = n ∧ (sgAll d.tensors ps)[n]? = some g)
            (outs2.filter (· ∈ sgAll d.tensors ps)) outs) ∧
        sg.name = some ps.sg.name ∧ sg.extra = [] := by
  obtain ⟨subs, opcodes, st, metas, h1, h2, h3, _, hm, _, hl⟩ := write_facts d enum m h
  refine ⟨subs, h1, ?_⟩
  intro k ps sg hk hs
  have hloc := subgraphs_local d.tensors (sortCodes enum) subs st0 m.subgraphs st h3
  have hk' : k < subs.length := (List.getElem?_eq_some_iff.mp hk).1
  have hs' : k < m.subgraphs.length := (List.getElem?_eq_some_iff.mp hs).1
  have hL := (List.forall₂_iff_get.mp hloc).2 k hk' hs'
  have e1 : subs.get ⟨k, hk'⟩ = ps := by
    have := (List.getElem?_eq_some_iff.mp hk).2; simpa using this
  have e2 : m.subgraphs.get ⟨k, hs'⟩ = sg := by
    have := (List.getElem?_eq_some_iff.mp hs).2; simpa using this
  rw [e1, e2] at hL
  obtain ⟨outs2, operators, ho, _, _, hi, hou, hn, he⟩ := hL
  refine ⟨⟨_, hi, idxList_spec _ _ ?_⟩, ⟨outs2, _, ho, hou, idxList_filter _ _⟩, hn, he⟩
  intro g hg
  rw [mem_sgAll]
  unfold sgSet
  rw [mem_tensorSet]
  exact Or.inl (Or.inl hg)

/-- **written_outputs_complete** (repair C11-60: a constant that only the output list names used to be left out of the tensor table
and then silently dropped from the file's output list). Every entry of the expanded output list is a written tensor, so the filter
in `written_interface` drops nothing: the file's output list has one entry per listed output, each the table position of that very
tensor. -/
theorem written_outputs_complete (d : Desc) (enum : List Code) (m : ModelT) (h : writeWith d enum = .ok m) :
    ∃ subs, (subgraphsToWrite d).mapM (prepSub d.tensors) = .ok subs ∧
      ∀ (k : Nat) ps sg, subs[k]? = some ps → m.subgraphs[k]? = some sg →
        ∃ outs2 outs, outputList ps.sg.originalOutputPositions (sgOuts ps) = .ok outs2 ∧ sg.outputs = some outs ∧
          List.Forall₂ (fun g (i : Int) => ∃ n : Nat, i = n ∧ (sgAll d.tensors ps)[n]? = some g) outs2 outs := by
  obtain ⟨subs, h1, hw⟩ := written_interface d enum m h
  refine ⟨subs, h1, ?_⟩
  intro k ps sg hk hs
  obtain ⟨_, ⟨outs2, outs, ho, hou, hf⟩, _⟩ := hw k ps sg hk hs
  refine ⟨outs2, outs, ho, hou, ?_⟩
  have hall : outs2.filter (· ∈ sgAll d.tensors ps) = outs2 := by
    rw [List.filter_eq_self]
    intro g hg
    have hg2 : g ∈ sgOuts ps := Spec.specOuts2_sub ps g (by rw [Spec.specOuts2_eq ps outs2 ho]; exact hg)
    have : g ∈ sgAll d.tensors ps := by
      rw [mem_sgAll]; unfold sgSet; rw [mem_tensorSet]; exact Or.inr hg2
    simpa using this
  rw [hall] at hf
  exact hf

/-- **buffers_consistent.** Every buffer index written (by a tensor, by a metadata entry) is in range; as soon as one
subgraph is written, buffer 0 exists and carries no data; no buffer other than 0 is used twice — not by two tensors (of the same
or of different subgraphs), not by two metadata entries, not by a tensor and a metadata entry. Together with
`written_tensors` (the buffer of a tensor holds that tensor's data): no two constants share a buffer. -/
theorem buffers_consistent (d : Desc) (enum : List Code) (m : ModelT) (h : writeWith d enum = .ok m) :
    (∀ sg ∈ m.subgraphs, ∀ tt ∈ sg.tensors, tt.buffer < m.buffers.length) ∧
    (∀ md ∈ m.metadata, md.buffer < m.buffers.length) ∧
    (m.subgraphs ≠ [] → ∃ b, m.buffers[0]? = some b ∧ b.data = none) ∧
    ((((m.subgraphs.flatMap (·.tensors)).map (·.buffer)).filter (· ≠ 0)) ++ m.metadata.map (·.buffer)).Nodup := by
  obtain ⟨subs, opcodes, st, metas, _, _, _, _, hm, acc, _⟩ := write_facts d enum m h
  have hbl : m.buffers.length = st.buffers.length + metas.length := by rw [hm]; simp [assemble]
  have hmd : m.metadata.map (·.buffer) = (List.range metas.length).map (st.buffers.length + ·) := by
    rw [hm]
    simp only [assemble, List.map_map]
    apply List.ext_getElem?
    intro i
    simp only [List.getElem?_map, List.getElem?_zipIdx, List.getElem?_range, Function.comp]
    by_cases hi : i < metas.length
    · simp [hi, List.getElem?_eq_getElem hi]
    · simp [hi, List.getElem?_eq_none (Nat.le_of_not_lt hi)]
  have hne : m.subgraphs ≠ [] → st.bufIdx ≤ st.buffers.length ∧ st.buffers[0]? = some none := by
    intro hn
    have h0 := acc.nonempty hn
    rcases acc.inv.bufs with he | ⟨hle, _⟩
    · rw [he] at h0; simp at h0
    · exact ⟨hle, h0⟩
  have hlt : ∀ sg ∈ m.subgraphs, ∀ tt ∈ sg.tensors, tt.buffer < st.buffers.length := by
    intro sg hsg tt htt
    have := acc.below sg hsg tt htt
    have := (hne (List.ne_nil_of_mem hsg)).1
    omega
  refine ⟨fun sg hsg tt htt => by have := hlt sg hsg tt htt; omega, ?_, ?_, ?_⟩
  · intro md hmdm
    have : md.buffer ∈ m.metadata.map (·.buffer) := List.mem_map.mpr ⟨md, hmdm, rfl⟩
    rw [hmd] at this
    obtain ⟨i, hi, he⟩ := List.mem_map.mp this
    have := List.mem_range.mp hi
    omega
  · intro hn
    refine ⟨{ data := none }, ?_, rfl⟩
    rw [hm]
    exact assemble_buffers_get d opcodes m.subgraphs st metas 0 none (hne hn).2
  · rw [hmd]
    refine List.Nodup.append acc.nodup ?_ ?_
    · exact (List.nodup_range).map (fun a b hab => by simpa using hab)
    · intro x hx1 hx2
      obtain ⟨hx1m, _⟩ := List.mem_filter.mp hx1
      obtain ⟨t1, ht1, rfl⟩ := List.mem_map.mp hx1m
      obtain ⟨sg1, hsg1, ht1'⟩ := List.mem_flatMap.mp ht1
      have := hlt sg1 hsg1 t1 ht1'
      obtain ⟨i, _, he⟩ := List.mem_map.mp hx2
      omega

/-- **quant_fields_preserved** (d). The quantisation record of a written tensor is a function of that tensor's own
quantisation alone — never of another tensor's (seeded change C11-r4m2 shared one table between tensors with equal scale and
zero point): no record when the tensor has none; otherwise min / max / scale / zero point are present exactly when the tensor
has them, with the same values, and quantized_dimension is the tensor's `quant_dim` (0 for `None`). -/
theorem quant_fields_preserved (d : Desc) (enum : List Code) (m : ModelT) (h : writeWith d enum = .ok m) :
    ∃ subs, (subgraphsToWrite d).mapM (prepSub d.tensors) = .ok subs ∧
      ∀ (k : Nat) ps sg, subs[k]? = some ps → m.subgraphs[k]? = some sg →
        ∀ (i g : Nat), (sgAll d.tensors ps)[i]? = some g →
          ∃ td tt, d.tensors[g]? = some td ∧ sg.tensors[i]? = some tt ∧
            (td.quant = none → tt.quant = none) ∧
            ∀ q, td.quant = some q → ∃ tq, tt.quant = some tq ∧ tq.min = q.min ∧ tq.max = q.max ∧ tq.scale = q.scale ∧
              tq.zeroPoint = q.zeroPoint ∧ tq.quantDim = q.quantDim.getD 0 ∧ tq.extra = [] := by
  obtain ⟨subs, h1, _, hw⟩ := written_tensors d enum m h
  refine ⟨subs, h1, ?_⟩
  intro k ps sg hk hs i g hig
  obtain ⟨td, tt, _, a1, a2, _, _, _, _, a7, _⟩ := (hw k ps sg hk hs).2 i g hig
  refine ⟨td, tt, a1, a2, ?_, ?_⟩
  · intro hq; rw [a7, hq]; rfl
  · intro q hq
    exact ⟨quantT q, by rw [a7, hq]; rfl, rfl, rfl, rfl, rfl, rfl, rfl⟩

/-- **indices_consistent** (c), the range part spelled out on the file alone: every operator-code index, every operand /
result / intermediate index, every subgraph input / output index and every buffer index the writer emits is in range (operand
indices may be −1); buffer 0 carries no data once a subgraph is written; no other buffer is used twice. That each index refers
to the intended entity is `written_tensors`, `written_operators`, `written_interface`; that table positions and written tensors
are in one-to-one correspondence is `tensor_indices_bijective`. -/
theorem indices_consistent (d : Desc) (enum : List Code) (m : ModelT) (h : writeWith d enum = .ok m) :
    (∀ sg ∈ m.subgraphs,
      (∀ o ∈ sg.operators, o.opcodeIndex < m.opcodes.length ∧
        (∃ ins outs im, o.inputs = some ins ∧ o.outputs = some outs ∧ o.intermediates = some im ∧
          (∀ x ∈ ins, x = -1 ∨ (0 ≤ x ∧ x < sg.tensors.length)) ∧ (∀ x ∈ outs, 0 ≤ x ∧ x < sg.tensors.length) ∧
          (∀ x ∈ im, 0 ≤ x ∧ x < sg.tensors.length))) ∧
      (∃ ins outs, sg.inputs = some ins ∧ sg.outputs = some outs ∧ (∀ x ∈ ins, 0 ≤ x ∧ x < sg.tensors.length) ∧
        (∀ x ∈ outs, 0 ≤ x ∧ x < sg.tensors.length)) ∧
      (∀ tt ∈ sg.tensors, tt.buffer < m.buffers.length)) ∧
    (∀ md ∈ m.metadata, md.buffer < m.buffers.length) ∧
    (m.subgraphs ≠ [] → ∃ b, m.buffers[0]? = some b ∧ b.data = none) ∧
    ((((m.subgraphs.flatMap (·.tensors)).map (·.buffer)).filter (· ≠ 0)) ++ m.metadata.map (·.buffer)).Nodup := by
  obtain ⟨b1, b2, b3, b4⟩ := buffers_consistent d enum m h
  refine ⟨?_, b2, b3, b4⟩
  obtain ⟨subs, h1, hl, _⟩ := written_tensors d enum m h
  obtain ⟨subs2, h2, hbij⟩ := tensor_indices_bijective d enum m h
  obtain ⟨subs3, h3, hops⟩ := written_operators d enum m h
  obtain ⟨subs4, h4, hif⟩ := written_interface d enum m h
  have e2 : subs2 = subs := by rw [h1] at h2; exact (Except.ok.inj h2).symm
  have e3 : subs3 = subs := by rw [h1] at h3; exact (Except.ok.inj h3).symm
  have e4 : subs4 = subs := by rw [h1] at h4; exact (Except.ok.inj h4).symm
  rw [e2] at hbij; rw [e3] at hops; rw [e4] at hif
  intro sg hsg
  obtain ⟨k, hk⟩ := List.getElem?_of_mem hsg
  have hkl : k < subs.length := by rw [← hl]; exact (List.getElem?_eq_some_iff.mp hk).1
  have hps : subs[k]? = some subs[k] := List.getElem?_eq_getElem hkl
  obtain ⟨_, hlen, _⟩ := hbij k _ sg hps hk
  have hR : ∀ (l₁ : List Nat) (l₂ : List Int),
      List.Forall₂ (fun g (i : Int) => ∃ n : Nat, i = n ∧ (sgAll d.tensors subs[k])[n]? = some g) l₁ l₂ →
      ∀ x ∈ l₂, 0 ≤ x ∧ x < sg.tensors.length := by
    intro l₁ l₂ hf
    induction hf with
    | nil => intro x hx; simp at hx
    | cons hab _ ih =>
      intro x hx
      rcases List.mem_cons.mp hx with rfl | hx'
      · obtain ⟨n, rfl, hn⟩ := hab
        have := (List.getElem?_eq_some_iff.mp hn).1
        rw [hlen]; omega
      · exact ih x hx'
  refine ⟨?_, ?_, b1 sg hsg⟩
  · intro o ho
    obtain ⟨j, hj⟩ := List.getElem?_of_mem ho
    obtain ⟨hol, hof⟩ := hops k _ sg hps hk
    have hjl : j < ((sgOps subs[k]).filter (!·.ignored)).length := by rw [← hol]; exact (List.getElem?_eq_some_iff.mp hj).1
    obtain ⟨⟨c, oc, _, c2, _⟩, ⟨ins, i1, i2, i3⟩, ⟨outs, o1, o2⟩, ⟨im, m1, m2⟩, _⟩ := hof j _ o (List.getElem?_eq_getElem hjl) hj
    refine ⟨(List.getElem?_eq_some_iff.mp c2).1, ins, outs, im, i1, o1, m1, ?_, hR _ _ o2, hR _ _ m2⟩
    intro x hx
    obtain ⟨q, hq⟩ := List.getElem?_of_mem hx
    have hql : q < (((sgOps subs[k]).filter (!·.ignored))[j]).inputs.length := by rw [← i2]; exact (List.getElem?_eq_some_iff.mp hq).1
    cases hpq : (((sgOps subs[k]).filter (!·.ignored))[j]).inputs[q]'hql with
    | none =>
      have := (i3 q).1 (by rw [List.getElem?_eq_getElem hql, hpq])
      rw [hq] at this; left; exact Option.some.inj this
    | some g =>
      obtain ⟨i, hi, hgi⟩ := (i3 q).2 g (by rw [List.getElem?_eq_getElem hql, hpq])
      rw [hq] at hi
      have := (List.getElem?_eq_some_iff.mp hgi).1
      right; rw [Option.some.inj hi, hlen]; omega
  · obtain ⟨⟨ins, i1, i2⟩, ⟨_, outs, _, o1, o2⟩, _⟩ := hif k _ sg hps hk
    exact ⟨ins, outs, i1, o1, hR _ _ i2, hR _ _ o2⟩

/-! ## (a) reading what the writer produced

`read_write_roundtrip_partial`: the full statement would be `Reader.read (write d) ≃ d` for an equivalence of graph descriptions
up to tensor order and buffer numbering. Proved are its three layers on the file the writer produced — tensor records, operator
code entries, operand references — each read back with the reader's own functions (`parseTensor`, `parseOpCode`, `resolve`) to
the description's own entity; plus what the writer's `__init__` does to the graph-side operand lists under the live tables
(`written_operand_order`). Not proved: the assembly of these layers through the reader's graph surgery (reshaped clones of
constant weights with `src_tensor`, Const / Placeholder producers, virtual outputs, de-duplication of the input / output lists)
into one statement about `Reader.read`; that part is compared with the real reader on generated files, and the loop
`write ∘ read` is evaluated by the model on every generated file (harness/writer_stage.py, request `wloop`). -/

/-- table fact: every element type the writer can emit (`datatype_inv_map`) is one the reader knows (`datatype_map`) -/
theorem written_dtypes_readable :
    WriterTbl.dtypeInv.all (fun nc => (WriterTbl.dtypeMap.find? (·.1 == nc.2)).isSome) = true := by decide +kernel

/-- **read_write_roundtrip (tensors).** Reading back position `i` of a written tensor table gives the `i`-th tensor of the
writer's list with: the name, the written shape, the element type (by its reader-side name: `quint8` comes back as `uint8`),
the quantisation after the reader's normalisation of what the writer emitted (`readQuant ∘ quantT`: nothing when neither
scale nor zero point was present, zero points 0 for a scale without zero points, quantized_dimension 0 for `None`), the
constant data (zero-length data = none), the variable flag — provided the constant data has the size of the written shape
(`checkData`, the reader's `reshape`). Allocation attributes (memory area / type, address, purpose, `src_tensor`) are not in
the file and come back as the defaults. -/
theorem read_write_roundtrip_tensors (d : Desc) (enum : List Code) (m : ModelT) (h : writeWith d enum = .ok m) :
    ∃ subs, (subgraphsToWrite d).mapM (prepSub d.tensors) = .ok subs ∧
      ∀ (k : Nat) ps sg, subs[k]? = some ps → m.subgraphs[k]? = some sg →
        ∀ (i g : Nat), (sgAll d.tensors ps)[i]? = some g →
          ∃ td tt row, d.tensors[g]? = some td ∧ sg.tensors[i]? = some tt ∧ Reader.dtypeRow tt.type = .ok row ∧
            dtypeCode td.dtype = some row.1 ∧
            (Reader.checkData row.2.1 row.2.2.2.2 (Spec.writtenShape td) (Writer.normValues td.values) = .ok () →
              Reader.parseTensor (m.buffers.map Reader.parseBuffer) tt = .ok
                { name := td.name, shape := Spec.writtenShape td, originalShape := Spec.writtenShape td, dtype := row.2.1,
                  quant := Reader.readQuant (td.quant.map quantT), values := Writer.normValues td.values, isVariable := td.isVariable,
                  purpose := 0, memArea := 0, memType := 0, address := none, src := none,
                  range := if (Reader.readQuant (td.quant.map quantT)).isSome then Reader.rangeOf row.2.1 row.2.2.1 else none }) := by
  obtain ⟨subs, h1, _, hw⟩ := written_tensors d enum m h
  refine ⟨subs, h1, ?_⟩
  intro k ps sg hk hs i g hig
  obtain ⟨td, tt, b, a1, a2, a3, a4, a5, a6, a7, a8, _, a10⟩ := (hw k ps sg hk hs).2 i g hig
  -- the reader knows the element type
  have hmem : (td.dtype, tt.type) ∈ WriterTbl.dtypeInv := by
    unfold dtypeCode at a6
    obtain ⟨x, hx, hx2⟩ := Option.map_eq_some_iff.mp a6
    have hp := List.find?_some hx
    have : x = (td.dtype, tt.type) := by
      cases x; simp at hp hx2; simp [hp, hx2]
    rw [← this]; exact List.mem_of_find?_eq_some hx
  have hrow := List.all_eq_true.mp written_dtypes_readable _ hmem
  obtain ⟨row, hr⟩ := Option.isSome_iff_exists.mp hrow
  have hr1 : row.1 = tt.type := by simpa using List.find?_some hr
  have hdr : Reader.dtypeRow tt.type = .ok row := by
    unfold Reader.dtypeRow
    simp only at hr
    rw [hr]; rfl
  refine ⟨td, tt, row, a1, a2, hdr, by rw [hr1]; exact a6, ?_⟩
  intro hcd
  unfold Reader.parseTensor
  have hbuf : Reader.bufferOf (m.buffers.map Reader.parseBuffer) tt.buffer = .ok (Writer.normValues td.values) := by
    unfold Reader.bufferOf
    simp only [List.getElem?_map, a3, Option.map_some]
    unfold Writer.normValues
    cases b; simp at a10; subst a10; rfl
  simp only [hdr, hbuf, a5, a4, a7, a8, Option.getD_some, hcd, bind, Except.bind, pure, Except.pure]

/-- **read_write_roundtrip (operator codes).** The reader maps a written operator-code entry back to the operator type it was
written for (the Ethos-U operator `CustomNpuOp` comes back as a `Custom` operator with custom code "ethos-u"), with the same
version, the custom code exactly for CUSTOM entries, and the option serialiser / operand index triple of that type. -/
theorem read_write_roundtrip_opcodes (c : Code) (oc : OpCodeT) (info : OpInfo) (hi : lookupOpId c.opId = some info)
    (h : serialiseOpCode c = .ok oc) :
    ∃ rc tf ser wt, Reader.parseOpCode oc = .ok rc ∧ info.inv = some (tf, ser, wt) ∧ rc.version = c.version ∧
      rc.op.name = (if info.name = "CustomNpuOp" then "Custom" else info.name) ∧
      (info.name ≠ "CustomNpuOp" → rc.op = info) ∧
      rc.custom = (if info.name = "Custom" then some c.custom else if info.name = "CustomNpuOp" then some ethosU else none) ∧
      rc.hasSer = ser ∧ rc.indices = wt :=
  opcode_roundtrip c oc info hi h

/-- **read_write_roundtrip (operands).** The reader resolves the operand indices of a written operator (`parse_operator`:
`self.tensors[idx] if idx != -1 else None`, tensors numbered from `base`) to `None` exactly where the graph has `None` and
otherwise to the table position of the very tensor the graph has there. -/
theorem read_write_roundtrip_operands (d : Desc) (enum : List Code) (m : ModelT) (h : writeWith d enum = .ok m) :
    ∃ subs, (subgraphsToWrite d).mapM (prepSub d.tensors) = .ok subs ∧
      ∀ (k : Nat) ps sg, subs[k]? = some ps → m.subgraphs[k]? = some sg →
        ∀ (j : Nat) p o, ((sgOps ps).filter (!·.ignored))[j]? = some p → sg.operators[j]? = some o → ∀ base : Nat,
          ∃ ins rs, o.inputs = some ins ∧ ins.mapM (Reader.resolve base sg.tensors.length) = .ok rs ∧ rs.length = p.inputs.length ∧
            ∀ (q : Nat), (p.inputs[q]? = some none → rs[q]? = some none) ∧
              ∀ g, p.inputs[q]? = some (some g) → ∃ i : Nat, rs[q]? = some (some (base + i)) ∧ (sgAll d.tensors ps)[i]? = some g := by
  obtain ⟨subs, h1, hw⟩ := written_operators d enum m h
  obtain ⟨subs', h1', hb⟩ := tensor_indices_bijective d enum m h
  have : subs' = subs := by rw [h1] at h1'; exact (Except.ok.inj h1').symm
  subst this
  refine ⟨subs', h1, ?_⟩
  intro k ps sg hk hs j p o hj ho base
  obtain ⟨_, hlen, _⟩ := hb k ps sg hk hs
  obtain ⟨_, ⟨ins, hi1, hi2, hi3⟩, _⟩ := (hw k ps sg hk hs).2 j p o hj ho
  -- every written index resolves
  have hres : ∀ a ∈ ins, ∃ b, Reader.resolve base sg.tensors.length a = .ok b := by
    intro a ha
    obtain ⟨q, hq⟩ := List.getElem?_of_mem ha
    have hql : q < p.inputs.length := by rw [← hi2]; exact (List.getElem?_eq_some_iff.mp hq).1
    cases hpq : p.inputs[q]'hql with
    | none =>
      have := (hi3 q).1 (by rw [List.getElem?_eq_getElem hql, hpq])
      rw [hq] at this; obtain rfl := Option.some.inj this
      exact ⟨none, resolve_minus1 _ _⟩
    | some g =>
      obtain ⟨i, hi, hgi⟩ := (hi3 q).2 g (by rw [List.getElem?_eq_getElem hql, hpq])
      rw [hq] at hi; obtain rfl := Option.some.inj hi
      have hil : i < sg.tensors.length := by rw [hlen]; exact (List.getElem?_eq_some_iff.mp hgi).1
      exact ⟨_, resolve_nat base _ i hil⟩
  obtain ⟨rs, hrs⟩ := mapM_of_pointwise _ ins hres
  obtain ⟨rl, rf⟩ := mapM_ok _ _ _ hrs
  refine ⟨ins, rs, hi1, hrs, by rw [rl, hi2], ?_⟩
  intro q
  constructor
  · intro hq
    have hiq := (hi3 q).1 hq
    obtain ⟨b, hb1, hb2⟩ := rf q _ hiq
    rw [resolve_minus1] at hb2
    rw [hb1, ← Except.ok.inj hb2]
  · intro g hq
    obtain ⟨i, hi, hgi⟩ := (hi3 q).2 g hq
    have hil : i < sg.tensors.length := by rw [hlen]; exact (List.getElem?_eq_some_iff.mp hgi).1
    obtain ⟨b, hb1, hb2⟩ := rf q _ hi
    rw [resolve_nat base _ i hil] at hb2
    exact ⟨i, by rw [hb1, ← Except.ok.inj hb2], hgi⟩

/-- **reader_clones_never_written.** For every convolution-like operator type the reader can produce (`builtin_operator_map`,
table fact `conv_rows_ok`): whatever clones `parse_operator` puts in place of constant weights and bias (`cloneStep`), the writer's
`src_tensor` restoration (`restoredInputs`, run on the reader's tensors and operand list) yields the operator's file operands
again — followed by the `None` the reader appended for a missing bias, and literally the same list when the weights are not
constant. So the reshaped clones never reach the file, and the only trace of the loop is a trailing `−1`. -/
theorem reader_clones_never_written (row : Nat × String × Bool × WriterTbl.Tri) (hrow : row ∈ WriterTbl.readerOps) (info : OpInfo)
    (hl : lookupOp row.2.1 = some info) (hc : info.convLike = true) (ts : List TensorD) (ins : List (Option Nat))
    (r : List TensorD × List (Option Nat))
    (hins : ∀ (q g : Nat), ins[q]? = some (some g) → ∃ t, ts[g]? = some t ∧ t.src = none)
    (h : Reader.cloneStep info ts ins = .ok r) :
    ∃ w tw, ins[1]? = some (some w) ∧ ts[w]? = some tw ∧
      restoredInputs r.1 info r.2 = .ok (if tw.values.isSome then Reader.biasSlot info ins else ins) := by
  obtain ⟨i0, b0, hop⟩ := Reader.convOk_of_row row info (List.all_eq_true.mp Reader.conv_rows_ok row hrow) hl hc
  exact Reader.clones_restored info i0 b0 hop ts ins r hins h

/-- not vacuous: CONV_2D `[x, w]` with constant `w` (tensor 1) and no bias: the reader makes `[x, w_reshape, None]`, the writer
`[x, w, None]` -/
example :
    let x : TensorD := Demo.t "x" [1, 4, 4, 2] "int8" none none 0 none
    let w : TensorD := Demo.t "w" [2, 1, 1, 2] "int8" none (some (.raw [1, 2, 3, 4])) 0 none
    ((lookupOp "Conv2DBias").bind fun info => ((Reader.cloneStep info [x, w] [some 0, some 1]).toOption.map fun r =>
      (r.2, (restoredInputs r.1 info r.2).toOption))) = some ([some 0, some 2, none], some [some 0, some 1, none]) := by decide +kernel

/-- table facts (regenerated `Op`, `builtin_operator_map`, `builtin_operator_inv_map`): names and sort keys identify the operator
type; whatever the writer can serialise the reader maps back to the same type, serialiser and index triple; graph-side and
TFLite-side operand orders coincide for every operator type -/
theorem live_op_tables_consistent : opTable.all OpInfo.tableOk = true := op_table_ok

/-- **written_operand_order.** Under the live tables `__init__` keeps an operator's type, custom code, version, results,
intermediates and option payload, and its operand list — except that a convolution-like operator with constant weights gets the
`src_tensor` of every operand other than its IFM (`restoredInputs`); an operator that is written has a serialiser entry. -/
theorem written_operand_order (ts : List TensorD) (op : OpD) (p : POp) (h : prepOp ts op = .ok p) :
    p.info.name = op.type ∧ p.custom = op.customCode ∧ p.version = op.version ∧ p.outputs = op.outputs ∧
    p.intermediates = op.intermediates ∧ p.payload = op.payload ∧ p.ignored = WriterTbl.opsToIgnore.contains op.type ∧
    (p.ignored = false → p.info.inv.isSome) ∧
    restoredInputs ts p.info op.inputs = .ok p.inputs :=
  prepOp_ok ts op p h

/-! ## (a) assembled: `Reader.read (Writer.write d) = Spec.normalise d`

`Spec.normalise` (Spec/TfliteRoundtrip.lean) is defined on the graph description alone: tensors per written subgraph in the writer's
order and in the reader's normal form, references renumbered, operators as written (`src_tensor` restored, absent results dropped,
operator code read back) and then the reader's own graph surgery applied at graph level — virtual outputs, **clone restoration**
(constant weights / bias cloned again: `Reader.cloneStep`), Const / Placeholder producers, visibility — the interface lists
de-duplicated, metadata with `bytes` names. The theorem composes the layers (`Lemmas/TfliteLoop.lean`: `tensors_norm`,
`rcode_of_written`, `parseOperator_norm`, `parseOperators_norm`, `readSubgraph_norm`, `readSubgraphs_norm`, `readMetadata_norm`). -/

/-- **read_write_roundtrip.** For every description the writer accepts (`write d = ok m` — the writer's domain, no further
hypothesis) the reader's result on the written file is `normalise d`, as `Except` values: the same graph when the reader succeeds,
and the same error kind when it does not (constant data that does not fit the written shape, weights of the wrong rank for the
clone, a subgraph input that a written operator produces). Also for any iteration order of the code set (`read_writeWith`). -/
theorem read_write_roundtrip (d : Desc) (m : ModelT) (h : write d = .ok m) : Reader.read d.version m = Spec.normalise d := by
  cases hs : (subgraphsToWrite d).mapM (prepSub d.tensors) with
  | error e => rw [(write_err d e hs []).1] at h; exact absurd h (by simp)
  | ok subs =>
    rw [write_eq d subs hs] at h
    exact Spec.read_writeWith d subs hs _ m h

theorem read_writeWith_roundtrip (d : Desc) (enum : List Code) (m : ModelT) (h : writeWith d enum = .ok m) :
    Reader.read d.version m = Spec.normalise d := by
  obtain ⟨subs, _, _, _, _, hs, _⟩ := writeWith_ok d enum m h
  exact Spec.read_writeWith d subs hs enum m h

/-- the domain on which the loop closes, explicit and executable: `write` and `normalise` succeed, i.e. the writer accepts `d`, every
constant has the size of its written shape (`Reader.checkData`), constant weights of convolution-like operators have the rank the
clone transposes (`Reader.cloneStep`), no subgraph input is the result of a written operator (`Tensor.error`) -/
def roundtripDomainB (d : Desc) : Bool := (write d).toOption.isSome && (Spec.normalise d).toOption.isSome

/-- on that domain: the reader accepts the written file and builds exactly the normal form -/
theorem read_write_roundtrip_ok (d : Desc) (hd : roundtripDomainB d = true) :
    ∃ m d', write d = .ok m ∧ Spec.normalise d = .ok d' ∧ Reader.read d.version m = .ok d' := by
  unfold roundtripDomainB at hd
  simp only [Bool.and_eq_true] at hd
  cases hw : write d with
  | error e => rw [hw] at hd; simp [Except.toOption] at hd
  | ok m =>
    cases hn : Spec.normalise d with
    | error e => rw [hn] at hd; simp [Except.toOption] at hd
    | ok d' => exact ⟨m, d', rfl, rfl, by rw [read_write_roundtrip d m hw, hn]⟩

/-- not vacuous: the demo graph is in the domain; its normal form has the 7 written tensors in name order plus the re-created clone
of the constant weights (8), the three written operators behind five Const / Placeholder producers, the convolution reading the
clone (tensor 7) again with the `None` bias, inputs `x`, `unused` renumbered, the repeated output de-duplicated with positions `[0, 0]` -/
example : roundtripDomainB demo = true := by decide +kernel
example : (Spec.normalise demo).toOption.map (fun d => (d.tensors.length, d.tensors.map (·.src))) =
    some (8, [none, none, none, none, none, none, none, some 3]) := by decide +kernel
example : (Spec.normalise demo).toOption.map (fun d => d.subgraphs.map fun s => s.ops.map (·.type)) =
    some [["Const", "Placeholder", "Const", "Placeholder", "Const", "Conv2DBias", "Custom", "Custom"]] := by decide +kernel
example : (Spec.normalise demo).toOption.map (fun d => d.subgraphs.map fun s => s.ops.map (·.inputs)) =
    some [[[], [], [], [], [], [some 4, some 7, none], [some 5, some 0], [some 6, some 0]]] := by decide +kernel
example : (Spec.normalise demo).toOption.map (fun d => d.subgraphs.map fun s => s.ops.map (·.outputs)) =
    some [[[some 0], [some 1], [some 3], [some 4], [some 7], [some 5], [some 6], [some 2]]] := by decide +kernel
example : (Spec.normalise demo).toOption.map (fun d => d.subgraphs.map fun s => (s.originalInputs, s.outputTensors, s.originalOutputPositions)) =
    some [([4, 1], [2], some [0, 0])] := by decide +kernel

/-- … and the two sides of the theorem evaluate to the same graph on it -/
example : ((write demo).toOption.bind fun m => (Reader.read demo.version m).toOption) = (Spec.normalise demo).toOption ∧
    (Spec.normalise demo).toOption.isSome = true := by decide +kernel

/-- **read_write_roundtrip_witness (the reader rejects a model output).** Outside the domain: a subgraph whose original input `y`
is the result of the written convolution — the writer accepts, the reader raises `Tensor.error` on the written file, and `normalise`
fails with the same kind. -/
theorem read_write_roundtrip_reject_witness :
    let d : Desc := { demo with subgraphs := [{ Demo.sg with originalInputs := [3, 0] }, Demo.npu] }
    ((write d).toOption.map fun m => (match Reader.read d.version m with | .ok _ => "ok" | .error e => e,
      match Spec.normalise d with | .ok _ => "ok" | .error e => e)) = some ("vela-error", "vela-error") := by decide +kernel

/-- **read_write_roundtrip_witness (normalise is not the identity).** An operator whose only result is absent (`None`) is written
without results and vanishes on reading (it produces no tensor, so no traversal reaches it): 3 operators in the file, 2 non-producer
operators in the graph read back. -/
theorem read_write_roundtrip_resultless_witness :
    let d : Desc := { demo with subgraphs := [{ Demo.sg with ops := Demo.sg.ops ++ [{ Demo.custom 1 4 7 with outputs := [none] }] }, Demo.npu] }
    ((write d).toOption.map fun m => (m.subgraphs.map (·.operators.length),
      (Spec.normalise d).toOption.map fun g => g.subgraphs.map fun s => (s.ops.filter fun o => o.type != "Const" && o.type != "Placeholder").length)) =
      some ([4], some [3]) := by decide +kernel

/-! ## file → graph → file (what C11 asks of a compilation that changes nothing), layer by layer -/

/-- **file_opcode_preserved.** An operator-code entry the reader accepts is written back with the same builtin code (as
`builtin_code`, and capped at 127 as `deprecated_builtin_code`), the same version and, for CUSTOM, the same custom code (absent
= empty); other entries carry no custom code. Rests on the table fact `reader_rows_invert`: no two builtin codes share an `Op`. -/
theorem file_opcode_preserved (oc : OpCodeT) (rc : Reader.RCode) (h : Reader.parseOpCode oc = .ok rc) :
    ∃ (b : Nat) (oc' : OpCodeT), Reader.effectiveBuiltin oc = (b : Int) ∧
      serialiseOpCode { opId := rc.op.id, custom := rc.custom.getD [], version := rc.version } = .ok oc' ∧
      oc'.builtin = (b : Int) ∧ oc'.deprecated = deprecatedCode b ∧ oc'.version = oc.version ∧
      oc'.custom = (if b = WriterTbl.builtinCustom then some (oc.custom.getD []) else none) ∧ oc'.extra = [] :=
  Reader.opcode_preserved oc rc h

/-- **file_tensor_preserved.** A tensor record the reader accepts is written back with the same name (absent = empty), shape
(absent = scalar), element type and variable flag; its quantisation is the reader's normal form of the file's (`readQuant`:
dropped without scale and zero point, zero points 0 for a scale without zero points, everything else as in the file). Rests on
the table fact `dtype_codes_roundtrip`. -/
theorem file_tensor_preserved (bufs : List (Option Data)) (t : TensorT) (td : TensorD) (b : Nat) (h : Reader.parseTensor bufs t = .ok td) :
    ∃ tt, tensorT td b = .ok tt ∧ tt.name = some (t.name.getD []) ∧ tt.shape = some (t.shape.getD []) ∧ tt.type = t.type ∧
      tt.quant = (Reader.readQuant t.quant).map quantT ∧ tt.isVariable = t.isVariable ∧ tt.buffer = b ∧ tt.extra = [] :=
  Reader.tensor_preserved bufs t td b h

/-- the quantisation normal form on three tables: scale and zero points kept with min / max / quantized_dimension; zero points
filled in; a table that only carries min / max dropped -/
example : (Reader.readQuant (some { min := some [1], max := none, scale := some [5, 6], zeroPoint := some [0, 1], quantDim := 3 })).map quantT =
    some { min := some [1], max := none, scale := some [5, 6], zeroPoint := some [0, 1], quantDim := 3 } := by decide
example : (Reader.readQuant (some { min := none, max := none, scale := some [5, 6], zeroPoint := none, quantDim := 0 })).map quantT =
    some { min := none, max := none, scale := some [5, 6], zeroPoint := some [0, 0], quantDim := 0 } := by decide
example : (Reader.readQuant (some { min := some [1], max := some [2], scale := none, zeroPoint := none, quantDim := 0 })).map quantT = none := by decide

/-! ## (e) the reader's representable ranges -/

/-- table fact, re-checked against the regenerated `datatype_map` on every run: for every element type the reader knows,
the range it attaches is the full range of that type when it is one of uint8 / int8 / int16 / int32 / int64 and nothing
otherwise; in particular the width the reader uses (`dtype.bits`) is the width of the type -/
theorem reader_ranges_table :
    WriterTbl.dtypeMap.all (fun row => Reader.rangeOf row.2.1 row.2.2.1 == (Spec.intType row.2.1).map (fun sb => Spec.fullRange sb.1 sb.2)) = true :=
  Reader.ranges_table

/-- **reader_ranges** (one tensor record). Whatever the file: a tensor `parse_tensor` builds carries `quant_min` / `quant_max`
exactly when it keeps a quantisation and its element type is uint8 / int8 / int16 / int32 / int64, and then they are the full
range of that type (two's complement for the signed types). -/
theorem reader_ranges (bufs : List (Option Data)) (t : TensorT) (td : TensorD) (h : Reader.parseTensor bufs t = .ok td) :
    td.range = if td.quant.isSome then (Spec.intType td.dtype).map (fun sb => Spec.fullRange sb.1 sb.2) else none :=
  Reader.parseTensor_range bufs t td h

/-- **reader_ranges** (the whole graph). Every tensor of the graph the reader builds from any file — the file's tensors, the
reshaped clones of constant weights and biases, the virtual outputs — carries the full range of its element type or none
(seeded change C19-r4m1 narrowed int16 to ±32767). -/
theorem reader_ranges_all (version : Bytes) (t : ModelT) (d : Desc) (h : Reader.read version t = .ok d) :
    ∀ td ∈ d.tensors, td.range = if td.quant.isSome then (Spec.intType td.dtype).map (fun sb => Spec.fullRange sb.1 sb.2) else none :=
  Reader.read_range version t d h

/-- **reader_clones_keep_quantisation.** In the graph the reader builds from any file, a tensor with `src_tensor` (the reshaped
clone of constant weights or of a constant bias) has exactly the quantisation (every field), element type and range of the tensor
it was cloned from (seeded changes C11-m3 / C11-r3m2 altered `QuantizationParameters.clone`). -/
theorem reader_clones_keep_quantisation (version : Bytes) (t : ModelT) (d : Desc) (h : Reader.read version t = .ok d) :
    ∀ (i : Nat) td s, d.tensors[i]? = some td → td.src = some s →
      ∃ ts, d.tensors[s]? = some ts ∧ td.quant = ts.quant ∧ td.dtype = ts.dtype ∧ td.range = ts.range :=
  Reader.read_cloneOk version t d h

/-- **reader_metadata_names_are_bytes.** Every metadata entry the reader keeps has its name as `bytes` — the form the writer's
test `name == b"OfflineMemoryAllocation"` recognises (seeded change C12-r4m2 decoded the name). -/
theorem reader_metadata_names_are_bytes (version : Bytes) (t : ModelT) (d : Desc) (h : Reader.read version t = .ok d) :
    ∀ md ∈ d.metadata, md.nameIsBytes = true :=
  Reader.read_metadata_bytes version t d h

/-- … and the writer then adds no second offline plan: an entry named `b"OfflineMemoryAllocation"` suppresses the generated one -/
example : (metadataToWrite { Demo.demo with metadata := [{ nameIsBytes := true, name := omaName, data := none }] } []).toOption.map
    (fun l => l.map (·.name)) = some [omaName, velaVersionName] := by decide +kernel
example : (metadataToWrite { Demo.demo with metadata := [{ nameIsBytes := false, name := omaName, data := none }] } []).toOption.map
    (fun l => l.map (·.name)) = some [omaName, velaVersionName, omaName] := by decide +kernel

/-- the ranges themselves, for the record -/
example : Spec.fullRange true 16 = (-32768, 32767) ∧ Spec.fullRange true 8 = (-128, 127) ∧ Spec.fullRange false 8 = (0, 255) ∧
    Spec.fullRange true 32 = (-2147483648, 2147483647) := by decide

/-! ## the executable Spec accepts every output of the writer model

`Spec.conforms d t` is the checker the harness applies to the REAL files (`wspec`). It shares only the graph meaning with the model
(`prepSub`, `clearVirtual`, `removeVirtual`); every layout decision is checked relationally on the file. `conforms_write` ties it to
the model for all inputs: whatever the writer model produces, the checker accepts — so a `wspec` rejection of a real file is a
disagreement between the real writer and the model's *properties* (`written_tensors`, `written_operators`, …), never an artefact of
the checker. The domain (`Spec.conformsDomainB`, executable) has three clauses, each with a witness below that it is needed:
the checker is stricter than the writer there. -/

/-- **conforms_write.** For every description `d` in the domain — at least one subgraph is written; every subgraph output (virtual
outputs removed) is named by the expanded output list or written anyway; a Placeholder has no operands or intermediates of its own — the
Spec's checker finds no problem in the file `writeWith d enum` produces (any iteration order `enum` of the code set). -/
theorem conforms_writeWith (d : Desc) (enum : List Code) (m : ModelT) (hd : Spec.conformsDomainB d = true)
    (h : writeWith d enum = .ok m) : Spec.conforms d m = [] := by
  have hne : m.subgraphs ≠ [] := by
    obtain ⟨subs, h1, hl, _⟩ := Spec.write_sgFacts d enum m h
    obtain ⟨hl0, _⟩ := mapM_ok _ _ _ h1
    unfold Spec.conformsDomainB at hd
    simp only [Bool.and_eq_true, Bool.not_eq_true', List.isEmpty_eq_false_iff] at hd
    intro hn
    rw [hn] at hl
    have : subs = [] := List.length_eq_zero_iff.mp hl.symm
    rw [this] at hl0
    exact hd.1 (List.length_eq_zero_iff.mp hl0.symm)
  exact Spec.conforms_writeWith d enum m h hd (Spec.wellFormed_write d enum m h hne)
    (fun subs hs rels hr => Spec.metadataProblems_write d enum m h subs hs rels hr)

theorem conforms_write (d : Desc) (m : ModelT) (hd : Spec.conformsDomainB d = true) (h : write d = .ok m) :
    Spec.conforms d m = [] := by
  cases hs : (subgraphsToWrite d).mapM (prepSub d.tensors) with
  | error e => rw [(write_err d e hs []).1] at h; exact absurd h (by simp)
  | ok subs =>
    rw [write_eq d subs hs] at h
    exact conforms_writeWith d _ m hd h

/-- not vacuous: the demo graph (convolution with restored weights, two custom operators, unused input, repeated output entry,
arena and scratch tensors, an NPU subgraph that is not written) is in the domain, the writer accepts it, and the checker evaluates
to "no problem" on the written file -/
example : Spec.conformsDomainB demo = true ∧ (write demo).toOption.isSome = true ∧
    (write demo).toOption.map (Spec.conforms demo) = some [] := by decide +kernel

/-- … and the checker is not trivially empty: the same file does not conform to the graph with the two subgraph inputs swapped -/
example : ((write demo).toOption.map fun m =>
    (Spec.conforms { demo with subgraphs := [{ Demo.sg with originalInputs := [5, 0] }, Demo.npu] } m).isEmpty) = some false := by
  decide +kernel

/-- **conforms_write_witness (no Cpu subgraph).** Without a written subgraph the writer puts the `vela_version` buffer at index 0;
the Spec (and TFLite: buffer 0 is the empty sentinel) rejects — the first domain clause is needed. In Vela the CPU subgraph always
exists (the network's entry subgraph). -/
theorem conforms_write_no_cpu_witness :
    let d : Desc := { tensors := [], subgraphs := [Demo.npu], metadata := [], version := [49] }
    ((write d).toOption.map fun m => (Spec.conforms d m).map (·.kind)) = some ["buffer-0-not-empty"] := by decide +kernel

/-- **conforms_write_witness (unlisted output).** Since the repair C11-60 every subgraph output that is left after the virtual outputs
were removed is written. One that the original output positions do not name — here `w_reshape` (tensor 2, the result of a `Const`
nobody reads; positions `[0]` of outputs `[7, 2]`) — is in the file's tensor table without any operator or interface list referring
to it; the Spec reports it — the second domain clause is needed. (Before the repair the same graph with positions `none` was the
witness of the opposite defect: the listed output was dropped, `operand-count`.) -/
theorem conforms_write_unlisted_output_witness :
    let d : Desc := { demo with subgraphs := [{ Demo.sg with outputTensors := [7, 2], originalOutputPositions := some [0] }, Demo.npu] }
    ((write d).toOption.map fun m => (Spec.conformsDomainB d, (m.subgraphs.map (·.tensors.length)), (Spec.conforms d m).map (·.kind))) =
      some (false, [8], ["unexplained-tensor"]) := by decide +kernel

/-- the graph of the old witness (outputs `[7, 2]`, tensor 2 only named by the output list) is now in the domain and both outputs are
in the file -/
example :
    let d : Desc := { demo with subgraphs := [{ Demo.sg with outputTensors := [7, 2], originalOutputPositions := none }, Demo.npu] }
    ((write d).toOption.map fun m => (Spec.conformsDomainB d, m.subgraphs.map (·.outputs), (Spec.conforms d m).map (·.kind))) =
      some (true, [some [2, 4]], []) := by decide +kernel

/-- **conforms_write_witness (Placeholder with an operand).** The writer adds the operands of Placeholders to the tensor table; one
that nothing else refers to is in the file without any operator or interface list naming it; the Spec explains unreferenced tensors
only as Placeholder *results* — the third domain clause is needed (Vela's Placeholders have no operands). -/
theorem conforms_write_placeholder_operand_witness :
    let d : Desc := { demo with subgraphs := [{ Demo.sg with ops := [{ Demo.startup "Placeholder" 0 with inputs := [some 2] }] ++ Demo.sg.ops.drop 1 }, Demo.npu] }
    ((write d).toOption.map fun m => (Spec.conformsDomainB d, (Spec.conforms d m).map (·.kind))) =
      some (false, ["unexplained-tensor"]) := by decide +kernel

/-! ## non-vacuity: a concrete graph in the writer's domain (Model/TfliteDemo.lean) -/

/-- the tensors come out sorted by name; the arena tensors and the scratch tensor share buffer 0, the unused input and the
constant get buffers of their own; the clone `w_reshape` is not written, the original `w` is -/
example : (write demo).toOption.map (fun m => m.subgraphs.map fun s => s.tensors.map fun t => (t.name, t.buffer)) =
    some [[(some (bytes "a_scratch"), 0), (some (bytes "unused"), 1), (some (bytes "v"), 0), (some (bytes "w"), 2), (some (bytes "x"), 0),
           (some (bytes "y"), 0), (some (bytes "z"), 0)]] := by decide +kernel

/-- operator codes sorted by (type, custom code, version); the convolution reads `x`, the original weights `w` and no bias; the
two custom operators point to their own versions -/
example : (write demo).toOption.map (fun m => m.opcodes.map fun c => (c.builtin, c.custom, c.version)) =
    some [(3, none, 3), (32, some (bytes "Foo"), 1), (32, some (bytes "Foo"), 2)] := by decide +kernel
example : (write demo).toOption.map (fun m => m.subgraphs.map fun s => s.operators.map fun o => (o.opcodeIndex, o.inputs)) =
    some [[(0, some [4, 3, -1]), (2, some [5, 0]), (1, some [6, 0])]] := by decide +kernel
example : (write demo).toOption.map (fun m => m.subgraphs.map fun s => s.operators.map fun o => o.outputs) =
    some [[some [5], some [6], some [2]]] := by decide +kernel

/-- interface: both original inputs (the unused one too), the repeated output entry; metadata: version and offline plan -/
example : (write demo).toOption.map (fun m => (m.subgraphs.map fun s => (s.inputs, s.outputs), m.metadata.map (·.buffer), m.buffers.length)) =
    some ([(some [4, 1], some [2, 2])], [3, 4], 5) := by decide +kernel

/-- an instance of `write_deterministic`: the set of operator codes iterated backwards -/
example : (codesOf demo).toOption.map (fun e => writeWith demo e.reverse == write demo) = some true := by decide +kernel

/-- the reader accepts the written file, and every tensor it builds has the full range of its type -/
example : ((write demo).toOption.bind fun m => (Reader.read demo.version m).toOption).map
    (fun d => d.tensors.map (·.range)) =
    some [none, none, none, some (-128, 127), some (-128, 127), some (-128, 127), none, some (-128, 127)] := by decide +kernel
end VelaVerif.Props.C11Writer
