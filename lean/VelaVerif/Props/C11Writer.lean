import VelaVerif.Model.TfliteWriter
import VelaVerif.Model.TfliteReader
import VelaVerif.Spec.TfliteFile
import VelaVerif.Lemmas.TfliteWriter
/-!
# C11 / C14 — the TFLite writer and reader (Model/TfliteWriter.lean, Model/TfliteReader.lean)

What the file says is a function of the graph description alone; every index written is in range and refers to the intended
entity; quantisation fields are copied tensor by tensor; the reader attaches the full range of the element type.
-/
set_option linter.unusedSimpArgs false
namespace VelaVerif.Props.C11Writer
open VelaVerif.Tflite VelaVerif.Tflite.Writer VelaVerif.OpIndices VelaVerif.Gen

/-! ## (b) the file is a function of the graph description alone

The writer walks one unordered collection: `set((op.type, custom_code, version) for op in all_ops)`, which it sorts. Every
other collection it walks is a list or an insertion-ordered `dict` (`tensor_set`, `tensor_map_sg`, `buffer_map`,
`operator_code_map`: filled and read in an order fixed by the graph), so the model has no further parameter. -/

/-- **write_deterministic.** Whatever order `enum` the set of operator codes is iterated in (any permutation of its
elements), the file is the one `write` produces — including the cases in which writing fails. -/
theorem write_deterministic (d : Desc) (enum : List Code)
    (hp : ∀ subs, (subgraphsToWrite d).mapM (prepSub d.tensors) = .ok subs → enum.Perm (codeSet subs)) :
    writeWith d enum = write d := by
  cases h : (subgraphsToWrite d).mapM (prepSub d.tensors) with
  | error e =>
    obtain ⟨h1, h2⟩ := write_err d e h enum
    rw [h1, h2]
  | ok subs =>
    rw [write_eq d subs h]
    exact writeWith_congr d _ _ (sortCodes_perm _ _ (hp subs h))

/-- the collection really is a set: no code occurs twice, so "permutation of its elements" is the right quantifier -/
theorem operator_code_set_nodup (subs : List PSub) : (codeSet subs).Nodup := codeSet_nodup subs

/-- the sort key is the whole triple, and the order on triples is a total order: two codes that compare equal both ways are
the same code. This is what makes the sorted list independent of the iteration order (`permutation_invariant_iff` of
Props/C14: invariance holds iff the key separates the elements). -/
theorem operator_code_order_separates (a b : Code) (h1 : Code.le a b = true) (h2 : Code.le b a = true) : a = b :=
  Code.le_antisymm a b h1 h2

/-- A key that forgets the custom code and the version (seeded change C14-r3m2: `key=lambda op_code: op_code[0]`) does not
separate: two third-party custom operators come out in the order in which the set happened to be iterated. -/
theorem sort_by_type_only_witness :
    let foo : Code := { opId := 40, custom := [70, 111, 111], version := 1 }
    let bar : Code := { opId := 40, custom := [66, 97, 114], version := 1 }
    isort (fun a b : Code => decide (a.opId ≤ b.opId)) [foo, bar] ≠ isort (fun a b : Code => decide (a.opId ≤ b.opId)) [bar, foo] ∧
    sortCodes [foo, bar] = sortCodes [bar, foo] := by
  decide

/-! ## (c) every index written is in range and refers to the intended entity; (d) quantisation fields -/

/-- **written_tensors** ((c) and (d) for tensors). For every written subgraph, position `i` of the file's tensor table holds
the record of the `i`-th tensor of the writer's tensor list (`sgAll`: the tensor set sorted by name): name, shape, element type,
every quantisation field, variable flag are that tensor's own, and the buffer the record names exists and holds that tensor's
constant data. -/
theorem written_tensors (d : Desc) (enum : List Code) (m : ModelT) (h : writeWith d enum = .ok m) :
    ∃ subs, (subgraphsToWrite d).mapM (prepSub d.tensors) = .ok subs ∧ m.subgraphs.length = subs.length ∧
      ∀ (k : Nat) ps sg, subs[k]? = some ps → m.subgraphs[k]? = some sg →
        sg.tensors.length = (sgAll d.tensors ps).length ∧
        ∀ (i g : Nat), (sgAll d.tensors ps)[i]? = some g →
          ∃ td tt b, d.tensors[g]? = some td ∧ sg.tensors[i]? = some tt ∧ m.buffers[tt.buffer]? = some b ∧
            tt.name = some td.name ∧ tt.shape = some (Spec.writtenShape td) ∧ dtypeCode td.dtype = some tt.type ∧
            tt.quant = td.quant.map quantT ∧ tt.isVariable = td.isVariable ∧ tt.extra = [] ∧ b.data = td.values := by
  obtain ⟨subs, opcodes, st, metas, h1, _, _, _, hm, acc, hl⟩ := write_facts d enum m h
  refine ⟨subs, h1, hl, ?_⟩
  intro k ps sg hk hs
  have hmap : (subs.map (sgAll d.tensors))[k]? = some (sgAll d.tensors ps) := by simp [hk]
  obtain ⟨tl, tf⟩ := acc.tensors k _ sg hmap hs
  refine ⟨tl, fun i g hig => ?_⟩
  obtain ⟨td, tt, a1, a2, a3, _, a5⟩ := tf i g hig
  obtain ⟨b1, b2, b3, b4, b5, _, b7⟩ := tensorT_ok td tt.buffer tt a3
  refine ⟨td, tt, { data := td.values }, a1, a2, ?_, b1, b2, b3, b4, b5, b7, rfl⟩
  rw [hm]
  exact assemble_buffers_get d opcodes m.subgraphs st metas _ _ a5

/-- **tensor_indices_bijective.** The tensor list of a written subgraph has no repetition and as many entries as the file's
tensor table: "position in the table" and "tensor of the graph that is written" are in one-to-one correspondence; a tensor is
written iff it is an original input or an operand of a written operator or of a Placeholder. -/
theorem tensor_indices_bijective (d : Desc) (enum : List Code) (m : ModelT) (h : writeWith d enum = .ok m) :
    ∃ subs, (subgraphsToWrite d).mapM (prepSub d.tensors) = .ok subs ∧
      ∀ (k : Nat) ps sg, subs[k]? = some ps → m.subgraphs[k]? = some sg →
        (sgAll d.tensors ps).Nodup ∧ sg.tensors.length = (sgAll d.tensors ps).length ∧
        ∀ g, g ∈ sgAll d.tensors ps ↔
          g ∈ ps.sg.originalInputs ∨ ∃ op ∈ sgOps ps, (op.ignored = false ∨ op.placeholder = true) ∧ some g ∈ op.operands := by
  obtain ⟨subs, _, st, _, h1, _, _, _, _, acc, _⟩ := write_facts d enum m h
  refine ⟨subs, h1, ?_⟩
  intro k ps sg hk hs
  have hmap : (subs.map (sgAll d.tensors))[k]? = some (sgAll d.tensors ps) := by simp [hk]
  refine ⟨sgAll_nodup _ _, (acc.tensors k _ sg hmap hs).1, fun g => ?_⟩
  rw [mem_sgAll]; unfold sgSet; rw [mem_tensorSet]

/-- **written_operators** ((c) for operators). Operator `j` of a written subgraph is the `j`-th operator of the graph that is
not a Const / Placeholder / SubgraphInput; the operator-code entry it points to exists and is the serialisation of a code with
the operator's type and version (for third-party custom operators: of exactly its (custom code, version)); every operand
index is −1 exactly where the graph has `None`, and otherwise the position, in the subgraph's tensor table, of that very
tensor; results and intermediates likewise. -/
theorem written_operators (d : Desc) (enum : List Code) (m : ModelT) (h : writeWith d enum = .ok m) :
    ∃ subs, (subgraphsToWrite d).mapM (prepSub d.tensors) = .ok subs ∧
      ∀ (k : Nat) ps sg, subs[k]? = some ps → m.subgraphs[k]? = some sg →
        sg.operators.length = ((sgOps ps).filter (!·.ignored)).length ∧
        ∀ (j : Nat) p o, ((sgOps ps).filter (!·.ignored))[j]? = some p → sg.operators[j]? = some o →
          (∃ c oc, (sortCodes enum)[o.opcodeIndex]? = some c ∧ m.opcodes[o.opcodeIndex]? = some oc ∧ serialiseOpCode c = .ok oc ∧
            c.opId = p.info.id ∧ c.version = p.version ∧ (p.info.name = "Custom" → c = p.code)) ∧
          (∃ ins, o.inputs = some ins ∧ ins.length = p.inputs.length ∧
            ∀ (q : Nat), (p.inputs[q]? = some none → ins[q]? = some (-1)) ∧
              ∀ g, p.inputs[q]? = some (some g) → ∃ i : Nat, ins[q]? = some (i : Int) ∧ (sgAll d.tensors ps)[i]? = some g) ∧
          (∃ outs, o.outputs = some outs ∧
            List.Forall₂ (fun g (i : Int) => ∃ n : Nat, i = n ∧ (sgAll d.tensors ps)[n]? = some g) (p.outputs.filterMap id) outs) ∧
          (∃ im, o.intermediates = some im ∧
            List.Forall₂ (fun g (i : Int) => ∃ n : Nat, i = n ∧ (sgAll d.tensors ps)[n]? = some g) (p.intermediates.filterMap id) im) ∧
          o.mutating = some [] ∧ o.extra = [] := by
  obtain ⟨subs, opcodes, st, metas, h1, h2, h3, _, hm, _, hl⟩ := write_facts d enum m h
  refine ⟨subs, h1, ?_⟩
  intro k ps sg hk hs
  have hloc := subgraphs_local d.tensors (sortCodes enum) subs st0 m.subgraphs st h3
  have hk' : k < subs.length := (List.getElem?_eq_some_iff.mp hk).1
  have hs' : k < m.subgraphs.length := (List.getElem?_eq_some_iff.mp hs).1
  have hL := (List.forall₂_iff_get.mp hloc).2 k hk' hs'
  have e1 : subs.get ⟨k, hk'⟩ = ps := by
    have := (List.getElem?_eq_some_iff.mp hk).2; simpa using this
  have e2 : m.subgraphs.get ⟨k, hs'⟩ = sg := by
    have := (List.getElem?_eq_some_iff.mp hs).2; simpa using this
  rw [e1, e2] at hL
  obtain ⟨outs2, operators, _, hops, hoe, _, _, _, _⟩ := hL
  obtain ⟨ol, of⟩ := mapM_ok _ _ _ hops
  rw [hoe]
  refine ⟨ol, ?_⟩
  intro j p o hj ho
  obtain ⟨o', ho', hser⟩ := of j p hj
  rw [ho] at ho'
  obtain rfl := Option.some.inj ho'
  obtain ⟨s1, s2, s3, s4, s5, s6⟩ := serialiseOperator_ok _ _ _ _ hser
  have hpm : p ∈ (sgOps ps).filter (!·.ignored) := List.mem_of_getElem? hj
  refine ⟨?_, ?_, ?_, ?_, s5, s6⟩
  · obtain ⟨c, c1, c2, c3, c4⟩ := opcodeIndex_ok _ _ _ s4
    obtain ⟨_, cf⟩ := mapM_ok _ _ _ h2
    obtain ⟨oc, oc1, oc2⟩ := cf _ c c1
    refine ⟨c, oc, c1, ?_, oc2, c2, c3, c4⟩
    rw [hm]; exact oc1
  · refine ⟨_, s1, by simp, ?_⟩
    intro q
    constructor
    · intro hq
      simp [List.getElem?_map, hq, mapIdx]
    · intro g hq
      have hgm : g ∈ sgAll d.tensors ps := operand_mem d.tensors ps p hpm g (by
        unfold POp.operands
        exact List.mem_append_left _ (List.mem_append_left _ (List.mem_of_getElem? hq)))
      obtain ⟨i, hi, hgi⟩ := indexIn_of_mem _ g hgm
      exact ⟨i, by simp [List.getElem?_map, hq, mapIdx, hi], hgi⟩
  · refine ⟨_, s2, filterMap_mapIdx _ _ ?_⟩
    intro g hg
    exact operand_mem d.tensors ps p hpm g (by
      unfold POp.operands
      exact List.mem_append_left _ (List.mem_append_right _ hg))
  · refine ⟨_, s3, filterMap_mapIdx _ _ ?_⟩
    intro g hg
    exact operand_mem d.tensors ps p hpm g (by
      unfold POp.operands
      exact List.mem_append_right _ hg)

/-- **written_interface.** Subgraph inputs: one entry per original input, in order, each the table position of that tensor.
Outputs: the output list with the virtual outputs removed, expanded by the original positions; the entries whose tensor is in
the table, in order, each the table position of that tensor. -/
theorem written_interface (d : Desc) (enum : List Code) (m : ModelT) (h : writeWith d enum = .ok m) :
    ∃ subs, (subgraphsToWrite d).mapM (prepSub d.tensors) = .ok subs ∧
      ∀ (k : Nat) ps sg, subs[k]? = some ps → m.subgraphs[k]? = some sg →
        (∃ ins, sg.inputs = some ins ∧
          List.Forall₂ (fun g (i : Int) => ∃ n : Nat, i = n ∧ (sgAll d.tensors ps)[n]? = some g) ps.sg.originalInputs ins) ∧
        (∃ outs2 outs, outputList ps.sg.originalOutputPositions (sgOuts ps) = .ok outs2 ∧ sg.outputs = some outs ∧
          List.Forall₂ (fun g (i : Int) => ∃ n : Nat, i = n ∧ (sgAll d.tensors ps)[n]? = some g)
            (outs2.filter (· ∈ sgAll d.tensors ps)) outs) ∧
        sg.name = some ps.sg.name ∧ sg.extra = [] := by
  obtain ⟨subs, opcodes, st, metas, h1, h2, h3, _, hm, _, hl⟩ := write_facts d enum m h
  refine ⟨subs, h1, ?_⟩
  intro k ps sg hk hs
  have hloc := subgraphs_local d.tensors (sortCodes enum) subs st0 m.subgraphs st h3
  have hk' : k < subs.length := (List.getElem?_eq_some_iff.mp hk).1
  have hs' : k < m.subgraphs.length := (List.getElem?_eq_some_iff.mp hs).1
  have hL := (List.forall₂_iff_get.mp hloc).2 k hk' hs'
  have e1 : subs.get ⟨k, hk'⟩ = ps := by
    have := (List.getElem?_eq_some_iff.mp hk).2; simpa using this
  have e2 : m.subgraphs.get ⟨k, hs'⟩ = sg := by
    have := (List.getElem?_eq_some_iff.mp hs).2; simpa using this
  rw [e1, e2] at hL
  obtain ⟨outs2, operators, ho, _, _, hi, hou, hn, he⟩ := hL
  refine ⟨⟨_, hi, idxList_spec _ _ ?_⟩, ⟨outs2, _, ho, hou, idxList_filter _ _⟩, hn, he⟩
  intro g hg
  rw [mem_sgAll]
  unfold sgSet
  rw [mem_tensorSet]
  exact Or.inl hg

/-- **buffers_consistent.** Every buffer index written (by a tensor, by a metadata entry) is in range; as soon as one
subgraph is written, buffer 0 exists and carries no data; no buffer other than 0 is used twice — not by two tensors (of the same
or of different subgraphs), not by two metadata entries, not by a tensor and a metadata entry. Together with
`written_tensors` (the buffer of a tensor holds that tensor's data): no two constants share a buffer. -/
theorem buffers_consistent (d : Desc) (enum : List Code) (m : ModelT) (h : writeWith d enum = .ok m) :
    (∀ sg ∈ m.subgraphs, ∀ tt ∈ sg.tensors, tt.buffer < m.buffers.length) ∧
    (∀ md ∈ m.metadata, md.buffer < m.buffers.length) ∧
    (m.subgraphs ≠ [] → ∃ b, m.buffers[0]? = some b ∧ b.data = none) ∧
    ((((m.subgraphs.flatMap (·.tensors)).map (·.buffer)).filter (· ≠ 0)) ++ m.metadata.map (·.buffer)).Nodup := by
  obtain ⟨subs, opcodes, st, metas, _, _, _, _, hm, acc, _⟩ := write_facts d enum m h
  have hbl : m.buffers.length = st.buffers.length + metas.length := by rw [hm]; simp [assemble]
  have hmd : m.metadata.map (·.buffer) = (List.range metas.length).map (st.buffers.length + ·) := by
    rw [hm]
    simp only [assemble, List.map_map]
    apply List.ext_getElem?
    intro i
    simp only [List.getElem?_map, List.getElem?_zipIdx, List.getElem?_range, Function.comp]
    by_cases hi : i < metas.length
    · simp [hi, List.getElem?_eq_getElem hi]
    · simp [hi, List.getElem?_eq_none (Nat.le_of_not_lt hi)]
  have hne : m.subgraphs ≠ [] → st.bufIdx ≤ st.buffers.length ∧ st.buffers[0]? = some none := by
    intro hn
    have h0 := acc.nonempty hn
    rcases acc.inv.bufs with he | ⟨hle, _⟩
    · rw [he] at h0; simp at h0
    · exact ⟨hle, h0⟩
  have hlt : ∀ sg ∈ m.subgraphs, ∀ tt ∈ sg.tensors, tt.buffer < st.buffers.length := by
    intro sg hsg tt htt
    have := acc.below sg hsg tt htt
    have := (hne (List.ne_nil_of_mem hsg)).1
    omega
  refine ⟨fun sg hsg tt htt => by have := hlt sg hsg tt htt; omega, ?_, ?_, ?_⟩
  · intro md hmdm
    have : md.buffer ∈ m.metadata.map (·.buffer) := List.mem_map.mpr ⟨md, hmdm, rfl⟩
    rw [hmd] at this
    obtain ⟨i, hi, he⟩ := List.mem_map.mp this
    have := List.mem_range.mp hi
    omega
  · intro hn
    refine ⟨{ data := none }, ?_, rfl⟩
    rw [hm]
    exact assemble_buffers_get d opcodes m.subgraphs st metas 0 none (hne hn).2
  · rw [hmd]
    refine List.Nodup.append acc.nodup ?_ ?_
    · exact (List.nodup_range).map (fun a b hab => by simpa using hab)
    · intro x hx1 hx2
      obtain ⟨hx1m, _⟩ := List.mem_filter.mp hx1
      obtain ⟨t1, ht1, rfl⟩ := List.mem_map.mp hx1m
      obtain ⟨sg1, hsg1, ht1'⟩ := List.mem_flatMap.mp ht1
      have := hlt sg1 hsg1 t1 ht1'
      obtain ⟨i, _, he⟩ := List.mem_map.mp hx2
      omega

/-! ## (e) the reader's representable ranges -/

/-- table fact, re-checked against the regenerated `datatype_map` on every run: for every element type the reader knows,
the range it attaches is the full range of that type when it is one of uint8 / int8 / int16 / int32 / int64 and nothing
otherwise; in particular the width the reader uses (`dtype.bits`) is the width of the type -/
theorem reader_ranges_table :
    WriterTbl.dtypeMap.all (fun row => Reader.rangeOf row.2.1 row.2.2.1 == (Spec.intType row.2.1).map (fun sb => Spec.fullRange sb.1 sb.2)) = true := by
  decide +kernel

/-- **reader_ranges.** Whatever the file: a tensor the reader builds carries `quant_min` / `quant_max` exactly when it keeps
a quantisation and its element type is uint8 / int8 / int16 / int32 / int64, and then they are the full range of that type
(two's complement for the signed types). -/
theorem reader_ranges (bufs : List (Option Data)) (t : TensorT) (td : TensorD) (h : Reader.parseTensor bufs t = .ok td) :
    td.range = if td.quant.isSome then (Spec.intType td.dtype).map (fun sb => Spec.fullRange sb.1 sb.2) else none := by
  unfold Reader.parseTensor at h
  obtain ⟨row, hrow, h⟩ := Writer.bind_ok h
  obtain ⟨buf, hbuf, h⟩ := Writer.bind_ok h
  obtain ⟨_, _, h⟩ := Writer.bind_ok h
  simp only [pure, Except.pure, Except.ok.injEq] at h
  subst h
  dsimp only
  have hmem : row ∈ WriterTbl.dtypeMap := by
    unfold Reader.dtypeRow at hrow
    cases hf : WriterTbl.dtypeMap.find? (·.1 == t.type) with
    | none => simp [hf, throw, throwThe, MonadExceptOf.throw] at hrow
    | some r =>
      simp [hf, pure, Except.pure] at hrow
      subst hrow
      exact List.mem_of_find?_eq_some hf
  have := List.all_eq_true.mp reader_ranges_table row hmem
  simp only [beq_iff_eq] at this
  rw [this]

end VelaVerif.Props.C11Writer
