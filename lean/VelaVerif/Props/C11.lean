import VelaVerif.Spec.Preserve
import VelaVerif.Model.OpIndices
import VelaVerif.Lemmas.Preserve
import VelaVerif.Lemmas.OpIndices
import VelaVerif.Lemmas.TensorOrder
/-!
# C11 — model interface and CPU-resident operators are preserved verbatim

Run-time verdict: `Preserve.check` on the plain-walker dumps of every (source, output) pair. The theorems below
state that the scans the verdict is built from are sound for the declarative reading of the property, that the
operand-index alignment of reader and writer round-trips for every operator type of the *live* tables
(regenerated into `Gen/OpIndices.lean` on every run), and when the writer's tensor order is deterministic.
-/
namespace VelaVerif.Props.C11
open VelaVerif.Preserve VelaVerif.OpIndices

/-! ## the Spec scans are sound -/

/-- If the topological scan accepts a graph, every operand of every operator is a subgraph input, a constant,
    a variable tensor, one of the four memory operands of an Ethos-U operator, or a result of an operator at an
    earlier position. -/
theorem topo_checker_sound (g : PGraph) (h : topoOk g = true) :
    ∀ (k : Nat) (op : POp), g.ops[k]? = some op → ∀ (pos i : Nat), op.inputs[pos]? = some (some i) →
      i ∈ g.inputs ∨ isConstAt g i = true ∨ isVarAt g i = true ∨ (isEthosU op = true ∧ pos < 4) ∨
      ∃ (k' : Nat) (op' : POp), k' < k ∧ g.ops[k']? = some op' ∧ i ∈ op'.outputs := by
  intro k op hk pos i hpos
  unfold topoOk at h
  rw [List.all_eq_true] at h
  have h1 := h (op, k) (mem_zipIdx' hk)
  simp only [opTopoOk, List.all_eq_true] at h1
  have h2 := h1 (some i, pos) (mem_zipIdx' hpos)
  simp only [operandOk, availBefore, Bool.or_eq_true, Bool.and_eq_true, decide_eq_true_eq, List.contains_iff_mem,
    List.any_eq_true] at h2
  rcases h2 with ⟨he, hp⟩ | (((hin | hc) | hv) | ⟨o, ho, hi⟩)
  · exact Or.inr (Or.inr (Or.inr (Or.inl ⟨he, hp⟩)))
  · exact Or.inl hin
  · exact Or.inr (Or.inl hc)
  · exact Or.inr (Or.inr (Or.inl hv))
  · right; right; right; right
    rw [List.mem_take_iff_getElem] at ho
    obtain ⟨j, hj, rfl⟩ := ho
    exact ⟨j, g.ops[j], by omega, by simp, hi⟩

/-- "Exactly once": if the matching scan accepts, every operator of the output that is not an Ethos-U operator has
    exactly one source operator producing tensors of the same names, that source operator is equal to it
    (`opEq`: builtin code, custom code, version, options, custom options, operand wiring, results), and no source
    operator is the match of two output operators. -/
theorem match_exactly_once (src out : PGraph) (h : matchOk src out = true) :
    (∀ (k : Nat) (op : POp), out.ops[k]? = some op → isEthosU op = false →
       ∃ (j : Nat) (sop : POp), src.ops[j]? = some sop ∧ outKey src sop = outKey out op ∧ opEq src out k sop op = true ∧
         ∀ (j' : Nat) (sop' : POp), src.ops[j']? = some sop' → outKey src sop' = outKey out op → j' = j) ∧
    (∀ (k₁ k₂ j : Nat), (k₁, j) ∈ matchTable src out → (k₂, j) ∈ matchTable src out → k₁ = k₂) := by
  unfold matchOk at h
  rw [Bool.and_eq_true, List.all_eq_true] at h
  obtain ⟨h1, h2⟩ := h
  constructor
  · intro k op hk hne
    have := h1 (op, k) (mem_zipIdx' hk)
    simp only [hne, Bool.false_or] at this
    split at this
    · rename_i j hc
      split at this
      · rename_i sop hs
        have hmem : j ∈ candidates src out op := by rw [hc]; exact List.mem_singleton.mpr rfl
        obtain ⟨sop2, hs2, hkey⟩ := (mem_candidates src out op j).mp hmem
        rw [hs] at hs2
        cases hs2
        refine ⟨j, sop, hs, hkey, this, ?_⟩
        intro j' sop' hs' hk'
        have : j' ∈ candidates src out op := (mem_candidates src out op j').mpr ⟨sop', hs', hk'⟩
        rw [hc] at this
        exact List.mem_singleton.mp this
      · exact absurd this (by simp)
    · exact absurd this (by simp)
  · intro k₁ k₂ j m1 m2
    have hnd := dups_nil_nodup _ (List.isEmpty_iff.mp h2)
    have := nodup_map_inj _ _ hnd _ _ m1 m2 rfl
    exact (Prod.mk.inj this).1

/-- The verdict's problem list is empty only if the Bool form used above holds (so `match_exactly_once` applies to
    every accepted pair). -/
theorem matchProblems_nil_matchOk (src out : PGraph) (h : matchProblems src out = []) :
    matchOk src out = true := by
  unfold matchProblems at h
  rw [List.append_eq_nil_iff, List.flatMap_eq_nil_iff, List.map_eq_nil_iff] at h
  unfold matchOk
  rw [Bool.and_eq_true, List.all_eq_true]
  refine ⟨?_, by rw [h.2]; rfl⟩
  intro x hx
  have := h.1 x hx
  obtain ⟨op, k⟩ := x
  simp only at this ⊢
  cases he : isEthosU op with
  | true => rfl
  | false =>
    simp only [he, Bool.false_eq_true, if_false] at this
    simp only [Bool.false_or]
    split at this
    · rename_i j hc
      simp only [hc]
      split at this
      · rename_i sop hs
        simp only [hs, opEq, this, List.isEmpty_nil]
      · simp at this
    · simp at this
    · simp at this

/-- Coverage: if the coverage scan accepts, every source operator that reaches a subgraph output is preserved at
    most once; a preserved operator lies in no Ethos-U slice; an operator that is neither preserved nor absorbed is
    foldable at compile time. -/
theorem coverage_checker_sound (src : PGraph) (table : List (Nat × Nat)) (abs : List Absorb)
    (h : coverOk src table abs = true) :
    ∀ j ∈ reach src,
      matchCount table j ≤ 1 ∧
      (matchCount table j = 1 → ∀ a ∈ abs, j ∉ a.ops) ∧
      (matchCount table j = 0 → (∀ a ∈ abs, j ∉ a.ops) → j ∈ foldable src) := by
  intro j hj
  unfold coverOk at h
  rw [List.all_eq_true] at h
  have h1 := h j hj
  unfold coverOne at h1
  simp only at h1
  have hfil : ∀ (P : Prop), ((abs.filter fun x => x.ops.contains j).isEmpty = true → P) → ((∀ a ∈ abs, j ∉ a.ops) → P) := by
    intro P hp hall
    apply hp
    rw [List.isEmpty_iff, List.filter_eq_nil_iff]
    intro a ha
    simpa using hall a ha
  split at h1
  · simp at h1
  · rename_i hm
    split at h1
    · simp at h1
    · rename_i h2
      refine ⟨by omega, ?_, ?_⟩
      · intro hm1 a ha hja
        apply h2
        simp only [hm1, beq_self_eq_true, Bool.true_and, Bool.not_eq_true', List.isEmpty_eq_false_iff_exists_mem]
        exact ⟨a, List.mem_filter.mpr ⟨ha, List.contains_iff_mem.mpr hja⟩⟩
      · intro hm0
        apply hfil
        intro hemp
        split at h1
        · simp at h1
        · rename_i h3
          by_cases hf : (foldable src).contains j = true
          · exact List.contains_iff_mem.mp hf
          · exfalso
            apply h3
            simp only [hm0, beq_self_eq_true, hemp, Bool.true_and, Bool.and_eq_true, Bool.not_eq_true']
            simpa using hf

/-- The fuelled fixpoints are certified, not trusted: a slice that passes `sliceClosed` contains every producer of
    a start tensor and, with every member, the producers of its operands that are not stop tensors. With
    `start = src.outputs`, `stop = []` this says `reach src` really contains every operator an output depends on. -/
theorem slice_closed_sound (g : PGraph) (start stop S : List Nat) (h : sliceClosed g start stop S = true) :
    (∀ (j t : Nat), j < g.ops.length → t ∈ opOutputs g j → t ∈ start → j ∈ S) ∧
    (∀ j ∈ S, ∀ t ∈ opInputs g j, t ∉ stop → ∀ (j' : Nat), j' < g.ops.length → t ∈ opOutputs g j' → j' ∈ S) := by
  have hS : sliceStep g start stop S = S := by simpa [sliceClosed] using h
  constructor
  · intro j t hj ht hs
    rw [← hS]
    exact (mem_sliceStep g start stop S j).mpr ⟨hj, Or.inr ⟨t, ht, Or.inl hs⟩⟩
  · intro j hjS t ht hns j' hj' ht'
    rw [← hS]
    exact (mem_sliceStep g start stop S j').mpr ⟨hj', Or.inr ⟨t, ht', Or.inr ⟨j, hjS, ht, hns⟩⟩⟩

/-! ## operand-index alignment of reader and writer -/

/-- the decidable row check holds for every row of the live tables -/
theorem live_table_rows_ok : (table ++ writerOnly).all Row.ok = true := by decide +kernel

/-- For every operator type of `tflite_mapping.builtin_operator_map` / `builtin_operator_inv_map` (as regenerated
    from the live tables), for operand lists of *every* length that has all the non-bias operands the index triples
    mention: the reader-side alignment (TFLite order → `Op.info.indices` order) succeeds, the writer-side alignment
    (back to the TFLite order of `builtin_operator_inv_map`) succeeds, and their composition is the identity. -/
theorem align_indices_involution :
    ∀ r ∈ table ++ writerOnly, ∀ {α : Type} (xs : List α), r.rightArity xs.length = true → r.roundTrip xs = .ok xs := by
  intro r hr α xs ha
  exact roundTrip_of_ok r (List.all_eq_true.mp live_table_rows_ok r hr) xs ha

/-- the statement is not vacuous: the table is not empty, and it speaks about all 3-operand convolutions -/
example : (table ++ writerOnly).length ≥ 150 := by decide +kernel
example : ∃ r ∈ table, r.builtin = 3 ∧ r.rightArity 3 = true ∧ r.roundTrip [10, 20, 30] = .ok [10, 20, 30] :=
  ⟨_, List.mem_of_getElem? (by decide +kernel : table[3]? = some (Row.ofRaw (3, "Conv2DBias", ([0], [1], [2]), ([0], [1], [2]), ([0], [1], [2])))),
    by decide, by decide, by decide⟩
/-- the model really permutes when the triples differ, and the row check accepts a permuted-but-consistent row … -/
example : alignInputs ⟨[1, 2, 0], [], []⟩ ⟨[0, 1, 2], [], []⟩ ["a", "b", "c"] = .ok ["c", "a", "b"] := by decide
example : (Row.mk 0 "swapped" ⟨[1], [0], []⟩ ⟨[0], [1], []⟩ ⟨[1], [0], []⟩).ok = true := by decide
/-- … and rejects a row whose writer triple does not undo the reader triple, or whose alignment raises -/
example : (Row.mk 0 "one-way" ⟨[1], [0], []⟩ ⟨[0], [1], []⟩ ⟨[0], [1], []⟩).ok = false := by decide
example : (Row.mk 49 "Split" ⟨[0], [], []⟩ ⟨[1], [], []⟩ ⟨[0], [], []⟩).ok = false := by decide
example : alignInputs ⟨[0], [], []⟩ ⟨[1], [], []⟩ [7, 8] = .error "assert" := by decide
example : alignInputs ⟨[0], [1], [3]⟩ ⟨[2], [1], [3]⟩ [7, 8, 9, 10] = .error "index" := by decide

/-! ## tensor order of the writer -/

/-- `serialise_subgraph` sorts `(name, enumeration index, tensor)` triples of a Python *set*. For a total preorder
    `le` on names that is antisymmetric (string comparison): if the names are pairwise distinct, the emitted order is
    the same for every enumeration order of the set. -/
theorem sorted_by_name_deterministic {α β : Type} (le : α → α → Bool) (name : β → α)
    (total : ∀ a b, le a b = true ∨ le b a = true) (trans : ∀ a b c, le a b = true → le b c = true → le a c = true)
    (antisymm : ∀ a b, le a b = true → le b a = true → a = b)
    (enum₁ enum₂ : List β) (hp : enum₁.Perm enum₂) (hnd : (enum₁.map name).Nodup) :
    emitOrder le name enum₁ = emitOrder le name enum₂ :=
  emitOrder_deterministic le name total trans antisymm enum₁ enum₂ hp hnd

/-- With a duplicated name the order does depend on the enumeration: two tensors called "t" (identities 1 and 2)
    are written in whichever order the set happens to enumerate them. -/
theorem sorted_by_name_duplicate_witness :
    let le : Nat → Nat → Bool := fun a b => decide (a ≤ b)
    let name : Nat × Nat → Nat := fun t => t.1
    [(7, 1), (7, 2)].Perm [(7, 2), (7, 1)] ∧
    emitOrder le name [(7, 1), (7, 2)] ≠ emitOrder le name [(7, 2), (7, 1)] := by
  refine ⟨List.Perm.swap _ _ _, by decide⟩

/-- non-vacuity of the deterministic case: three tensors, two enumerations, one order -/
example : emitOrder (fun a b : Nat => decide (a ≤ b)) (fun t : Nat × Nat => t.1) [(3, 0), (1, 1), (2, 2)] =
    emitOrder (fun a b : Nat => decide (a ≤ b)) (fun t : Nat × Nat => t.1) [(2, 2), (3, 0), (1, 1)] := by decide

/-! ## second generation (a compiled model compiled again) -/

/-- second generation: if the verbatim scan reports nothing, every Ethos-U operator of the compiled input has exactly one
    Ethos-U operator of the same result names in the output, and that operator is equal to it (`opEq`). -/
theorem ethosu_verbatim_sound (src out : PGraph) (h : ethosuVerbatimProblems src out = []) :
    ∀ (j : Nat) (sop : POp), src.ops[j]? = some sop → isEthosU sop = true →
      ∃ (k : Nat) (oop : POp), out.ops[k]? = some oop ∧ isEthosU oop = true ∧ outKey out oop = outKey src sop ∧
        opEq src out k sop oop = true ∧
        ∀ (k' : Nat) (oop' : POp), out.ops[k']? = some oop' → isEthosU oop' = true → outKey out oop' = outKey src sop →
          k' = k ∧ oop' = oop := by
  intro j sop hj he
  unfold ethosuVerbatimProblems at h
  rw [List.flatMap_eq_nil_iff] at h
  have := h (sop, j) (mem_zipIdx' hj)
  simp only [he, Bool.not_true, Bool.false_eq_true, if_false] at this
  split at this
  · rename_i oop k hc
    have hmem : (oop, k) ∈ ethosuCandidates src out sop := by rw [hc]; exact List.mem_singleton.mpr rfl
    obtain ⟨h1, h2, h3⟩ := (mem_ethosuCandidates src out sop oop k).mp hmem
    refine ⟨k, oop, h1, h2, h3, by simp [opEq, this], ?_⟩
    intro k' oop' h1' h2' h3'
    have : (oop', k') ∈ ethosuCandidates src out sop := (mem_ethosuCandidates src out sop oop' k').mpr ⟨h1', h2', h3'⟩
    rw [hc] at this
    have := List.mem_singleton.mp this
    exact ⟨(Prod.mk.inj this).2, (Prod.mk.inj this).1⟩
  · simp at this
  · simp at this


/-- second generation: if the placement scan reports nothing, every plan entry of the output gives every operand and result of
    every passed-through Ethos-U operator the arena offset it had in the compiled input. -/
theorem ethosu_placement_sound (src out : PGraph) (splan : List Int) (oplans : List (List Int))
    (h : ethosuPlacementProblems src out splan oplans = []) :
    ∀ (j : Nat) (sop : POp), src.ops[j]? = some sop → isEthosU sop = true →
      ∀ (oop : POp) (k : Nat), ethosuCandidates src out sop = [(oop, k)] →
        ∀ pl ∈ oplans, ∀ p ∈ operandPairs sop oop, splan[p.1]? = pl[p.2]? := by
  intro j sop hj he oop k hc pl hpl p hp
  unfold ethosuPlacementProblems at h
  rw [List.flatMap_eq_nil_iff] at h
  have h1 := h (sop, j) (mem_zipIdx' hj)
  simp only [he, Bool.not_true, Bool.false_eq_true, if_false, hc] at h1
  rw [List.flatMap_eq_nil_iff] at h1
  obtain ⟨pi, hpi⟩ := List.getElem?_of_mem hpl
  have h2 := h1 (pl, pi) (mem_zipIdx' hpi)
  simp only at h2
  rw [List.filterMap_eq_nil_iff] at h2
  have h3 := h2 p hp
  obtain ⟨a, b⟩ := p
  simp only at h3 ⊢
  by_cases hq : (splan[a]? == pl[b]?) = true
  · exact beq_iff_eq.mp hq
  · simp [hq] at h3


/-! ## non-vacuity of the Spec: a mixed NPU/CPU pair that is accepted, and mutants that are rejected -/

def tQ (name : String) (shape : List Int) : PTensor :=
  { name := name, shape := shape, dtype := "int8", quant := some ⟨[1036831949], [-3], [], [], 0⟩, const := none, isVariable := false }
def tC (name : String) (n : Nat) (d : String) : PTensor :=
  { name := name, shape := [Int.ofNat n], dtype := "uint8", quant := none, const := some (n, d), isVariable := false }
def noOpts : Opts := ⟨false, 0, []⟩

/-- x → CONV_2D → a → ThirdParty(custom options c0ffee) → y ; outputs y and a -/
def demoSrc : PGraph :=
  { tensors := [tQ "78" [1, 4, 4, 8], tC "77" 72 "aa", tC "62" 32 "bb", tQ "61" [1, 4, 4, 8], tQ "79" [1, 4, 4, 8]],
    inputs := [0], outputs := [4, 3],
    ops := [⟨3, "", 1, ⟨true, 1, [(1, "01000000"), (2, "01000000")]⟩, "", [some 0, some 1, some 2], [3]⟩,
            ⟨32, "5468697264", 2, noOpts, "c0ffee", [some 3], [4]⟩] }

/-- the same network as Vela writes it: tensors sorted by name, the convolution inside an Ethos-U operator -/
def demoOut : PGraph :=
  { tensors := [tQ "61" [1, 4, 4, 8], tC "6373" 200 "cc", tC "666c" 96 "dd", { tC "7363" 0 "" with const := none },
                { tC "736366" 0 "" with const := none }, tQ "78" [1, 4, 4, 8], tQ "79" [1, 4, 4, 8]],
    inputs := [5], outputs := [6, 0],
    ops := [⟨32, ethosuHex, 1, noOpts, "010401", [some 1, some 2, some 3, some 4, some 5], [0]⟩,
            ⟨32, "5468697264", 2, ⟨true, 0, []⟩, "c0ffee", [some 0], [6]⟩] }

example : (check demoSrc demoOut).pre = [] ∧ (check demoSrc demoOut).problems = [] ∧
    (check demoSrc demoOut).cover.preserved = 1 ∧ (check demoSrc demoOut).cover.absorbed = 1 := by decide +kernel
/-- operators emitted in reverse order are rejected by the topological scan -/
example : topoOk { demoOut with ops := demoOut.ops.reverse } = false := by decide +kernel
/-- a version bump, lost custom options, or a changed zero point of a subgraph output are rejected -/
example : matchOk demoSrc { demoOut with ops := demoOut.ops.map fun o => if isEthosU o then o else { o with version := 3 } } = false := by
  decide +kernel
example : matchOk demoSrc { demoOut with ops := demoOut.ops.map fun o => if isEthosU o then o else { o with customOpts := "" } } = false := by
  decide +kernel
def yZeroPointLost : PTensor := { tQ "79" [1, 4, 4, 8] with quant := some ⟨[1036831949], [0], [], [], 0⟩ }
example : (interfaceProblems demoSrc { demoOut with tensors := demoOut.tensors.set 6 yZeroPointLost }).map (·.kind) =
    ["interface-output-quantisation"] := by
  decide +kernel
/-- quantisation min / max are part of the comparison: max overwritten by min on a subgraph output is rejected -/
def tMM (name : String) (mn mx : Nat) : PTensor :=
  { tQ name [1, 4, 4, 8] with quant := some ⟨[1036831949], [-3], [mn], [mx], 0⟩ }
example : (interfaceProblems { demoSrc with tensors := demoSrc.tensors.set 4 (tMM "79" 3240099840 1095237632) }
    { demoOut with tensors := demoOut.tensors.set 6 (tMM "79" 3240099840 3240099840) }).map (·.kind) =
    ["interface-output-quantisation"] := by decide +kernel
example : interfaceProblems { demoSrc with tensors := demoSrc.tensors.set 4 (tMM "79" 3240099840 1095237632) }
    { demoOut with tensors := demoOut.tensors.set 6 (tMM "79" 3240099840 1095237632) } = [] := by decide +kernel
/-- an omitted optional operand in the middle is compared by position: [a, -1, c] written as [a, c] is rejected,
    while a trailing -1 is insignificant -/
example : (operandProblems demoSrc demoOut 1 32 [some 3, none, some 0] [some 0, some 5]).map (·.kind) = ["operand-count"] := by
  decide +kernel
example : (operandProblems demoSrc demoOut 1 32 [some 3, none, some 3] [some 0, some 0, some 0]).map (·.kind) = ["operand-presence"] := by
  decide +kernel
example : operandProblems demoSrc demoOut 1 32 [some 3, none] [some 0] = [] := by decide +kernel
/-- a CPU operator that silently disappears is reported by the coverage scan -/
example : ((check demoSrc { demoOut with ops := demoOut.ops.take 1, outputs := [0] }).problems.map (·.kind)).contains "operator-lost" = true := by
  decide +kernel

/-! a CPU-resident CONV_2D (stride 4) with per-axis quantised constant weights: the **whole** zero-point vector and the
    quantised dimension of an operand are compared (`--force-symmetric-int-weights` must not leak into it) -/
def wPerAxis (zps : List Int) (qd : Int) : PTensor :=
  { name := "77", shape := [2, 1, 1, 8], dtype := "int8", quant := some ⟨[1008981770, 1017370378], zps, [], [], qd⟩,
    const := some (16, "aa"), isVariable := false }
def cpuConv (w : PTensor) : PGraph :=
  { tensors := [tQ "78" [1, 8, 8, 8], w, tC "62" 8 "bb", tQ "79" [1, 2, 2, 2]], inputs := [0], outputs := [3],
    ops := [⟨3, "", 1, ⟨true, 1, [(1, "04000000"), (2, "04000000")]⟩, "", [some 0, some 1, some 2], [3]⟩] }
example : (check (cpuConv (wPerAxis [3, -2] 0)) (cpuConv (wPerAxis [3, -2] 0))).problems = [] ∧
    (check (cpuConv (wPerAxis [3, -2] 0)) (cpuConv (wPerAxis [3, -2] 0))).cover.preserved = 1 := by decide +kernel
/-- all weight zero points written as 0 (the defect repaired by patch C11-20; seeded round 4 C16-m2) -/
example : (check (cpuConv (wPerAxis [3, -2] 0)) (cpuConv (wPerAxis [0, 0] 0))).problems.map (·.kind) = ["operand-quantisation"] := by
  decide +kernel
/-- one entry of the vector, or only the quantised dimension, changed -/
example : (check (cpuConv (wPerAxis [3, -2] 0)) (cpuConv (wPerAxis [3, 0] 0))).problems.map (·.kind) = ["operand-quantisation"] := by
  decide +kernel
example : (check (cpuConv (wPerAxis [3, -2] 0)) (cpuConv (wPerAxis [3, -2] 3))).problems.map (·.kind) = ["operand-quantisation"] := by
  decide +kernel
/-- an absent zero-point vector next to the scales means zeros, and only zeros -/
example : (check (cpuConv (wPerAxis [] 0)) (cpuConv (wPerAxis [0, 0] 0))).problems = [] := by decide +kernel

/-- second generation, non-vacuity: the written demo model passed through unchanged is accepted (its Ethos-U operator is found
    again, equal); a changed command stream (constant data of operand 0), changed custom options, a grown scratch tensor and a
    lost operator are rejected -/
example : ethosuVerbatimProblems demoOut demoOut = [] ∧ (demoOut.ops.filter isEthosU).length = 1 := by decide +kernel
example : (ethosuVerbatimProblems demoOut { demoOut with tensors := demoOut.tensors.set 1 (tC "6373" 200 "ce") }).map (·.kind) =
    ["operand-constant-data"] := by decide +kernel
example : (ethosuVerbatimProblems demoOut { demoOut with ops := demoOut.ops.map fun o => if isEthosU o then { o with customOpts := "010402" } else o }).map (·.kind) =
    ["custom-options"] := by decide +kernel
example : (ethosuVerbatimProblems demoOut { demoOut with tensors := demoOut.tensors.set 3 { tC "7363" 16 "" with const := none } }).map (·.kind) =
    ["operand-shape"] := by decide +kernel
example : (ethosuVerbatimProblems demoOut { demoOut with ops := demoOut.ops.drop 1 }).map (·.kind) = ["ethosu-lost"] := by decide +kernel

/-- placement, non-vacuity: the demo model with the plan [96, -1, -1, 0, 0, 0, 224] (result "61" at 96, input "78" at 0) keeps it;
    a second plan entry that moves the result to 256 is rejected although the first entry is intact -/
example : ethosuPlacementProblems demoOut demoOut [96, -1, -1, 0, 0, 0, 224] [[96, -1, -1, 0, 0, 0, 224]] = [] ∧
    (operandPairs (demoOut.ops.headD default) (demoOut.ops.headD default)).length = 6 := by decide +kernel
example : (ethosuPlacementProblems demoOut demoOut [96, -1, -1, 0, 0, 0, 224]
    [[96, -1, -1, 0, 0, 0, 224], [256, -1, -1, 0, 0, 0, 224]]).map (·.kind) = ["ethosu-operand-moved"] := by decide +kernel

end VelaVerif.Props.C11
