import VelaVerif.Spec.Preserve
import VelaVerif.Model.OpIndices
namespace VelaVerif.Props.C11
end VelaVerif.Props.C11
