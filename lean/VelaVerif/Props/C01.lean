import VelaVerif.Lemmas.Sem
import VelaVerif.Lemmas.Pool
import VelaVerif.Lemmas.Exec
/-!
# C01 — the compiled model computes the same function as the source model

Run-time verdict: `Handlers/Sem.lean` executes the source model with the reference kernels of
`Spec/TfliteRef.lean` and the output model with the same kernels plus the command-stream executor of
`Spec/NpuSem.lean`, and compares the output tensors (translation validation by execution).

Theorems here are about the machinery that executes:

* `tiling_preserves_semantics` — an operator that is *local* may be executed as any list of stripes that
  cover the output rows, each on its own memory that agrees with the full input on the stripe's receptive
  field (this is what a rolling buffer provides), with the same result as one execution;
* `local_comp` — locality composes (cascades);
* `srdhm_eq_floor`, `rdivpot_eq_cases`, `npuScaleTfl_eq_mbqm`, `npuScaleNatural_eq_mbqm64` — the "TFL" and
  "NATURAL" OFM rounding modes of the executor are the requantisation functions of the reference kernels,
  for every accumulator, multiplier and shift;
* `conv_stripe_eq`, `dw_stripe_eq`, `pool_stripe_max_eq`, `pool_stripe_avg_eq` — the executor's convolution / depthwise /
  pooling accumulators on a stripe with stripe-local padding equal the reference accumulators on the whole tensor when the
  receptive-field equations of C10 hold;
* `convValues_get`, `gatherList_get`, `conv_block_values`, `scatter_readback`, `convBranch_conv_ok`, `exec_conv_block`,
  `exec_conv_block_correct` — `execBlock` on a convolution block: reads at `fmAddr`, per-element accumulators at the NHWC
  index, what is scattered reads back; composed: after a successful `execBlock` every OFM element (not sharing bytes with
  another) holds the activation of the clamped scaled `convAcc` over the memory contents.
-/
namespace VelaVerif.Props.C01
open VelaVerif.Requant VelaVerif.TfliteRef VelaVerif.Lemmas.Sem VelaVerif.Lemmas.Pool VelaVerif.Lemmas.Exec VelaVerif.Tiling VelaVerif.NpuSem VelaVerif.Footprint VelaVerif.Decode VelaVerif.Isa

/-! ## Tiling -/

/-- **Tiling preserves semantics.** For a local operator, executing any list of stripes that cover the
    output rows `[0, H)`, each on a memory that agrees with the full input on the stripe's receptive field,
    yields the rows of a single execution on the full input — whatever the order, overlap or number of
    stripes, and whatever the output buffer held before. -/
theorem tiling_preserves_semantics {α β : Type} (op : (Nat → α) → Nat → β) (lo hi : Nat → Nat)
    (hloc : IsLocal op lo hi) (inp : Nat → α) (H : Nat) (stripes : List (Stripe α))
    (hcover : ∀ y, y < H → ∃ s ∈ stripes, s.covers y)
    (hsee : ∀ s ∈ stripes, s.sees inp lo hi) (out0 : Nat → β) :
    ∀ y, y < H → execStripes op stripes out0 y = op inp y := by
  intro y hy
  exact execStripes_row op lo hi hloc inp stripes hsee y out0 (Or.inr (hcover y hy))

/-- locality composes: a cascade of two local operators is local, with the composed receptive field
    (`lo`/`hi` of the consumer mapped through the monotone bounds of the producer) -/
theorem local_comp {α β γ : Type} (f : (Nat → α) → Nat → β) (g : (Nat → β) → Nat → γ)
    (lof hif log hig lo hi : Nat → Nat) (hf : IsLocal f lof hif) (hg : IsLocal g log hig)
    (hlo : ∀ y r, log y ≤ r → r < hig y → lo y ≤ lof r)
    (hhi : ∀ y r, log y ≤ r → r < hig y → hif r ≤ hi y) :
    IsLocal (fun m => g (f m)) lo hi := by
  intro y m m' hm
  apply hg y (f m) (f m')
  intro r h1 h2
  apply hf r m m'
  intro q hq1 hq2
  exact hm q (Nat.le_trans (hlo y r h1 h2) hq1) (Nat.lt_of_lt_of_le hq2 (hhi y r h1 h2))

/-- non-vacuity: a 3-row sliding sum is local; two stripes with their own (partly garbage) memories
    reproduce it -/
example :
    let op : (Nat → Int) → Nat → Int := fun m y => m y + m (y + 1) + m (y + 2)
    let inp : Nat → Int := fun r => (r : Int) * r
    let s1 : Stripe Int := ⟨0, 2, fun r => if r < 4 then inp r else 777⟩
    let s2 : Stripe Int := ⟨2, 4, fun r => if 2 ≤ r then inp r else -5⟩
    (List.range 4).map (execStripes op [s2, s1] (fun _ => 0)) = (List.range 4).map (op inp) := by
  decide

example : IsLocal (fun (m : Nat → Int) y => m y + m (y + 1) + m (y + 2)) (fun y => y) (fun y => y + 3) := by
  intro y m m' h
  have h' : ∀ r, y ≤ r → r < y + 3 → m r = m' r := h
  show m y + m (y + 1) + m (y + 2) = m' y + m' (y + 1) + m' (y + 2)
  rw [h' y (by omega) (by omega), h' (y + 1) (by omega) (by omega), h' (y + 2) (by omega) (by omega)]

/-! ## Requantisation -/

/-- `SaturatingRoundingDoublingHighMul` is `⌊(a·b + 2^30) / 2^31⌋` (round to nearest, ties towards +∞)
    outside its single saturating case -/
theorem srdhm_eq_floor (a b : Int) (h : ¬ (a = INT32_MIN ∧ b = INT32_MIN)) :
    srdhm a b = (a * b + 1073741824) / 2147483648 := srdhm_floor a b h

/-- `RoundingDivideByPOT` rounds to nearest with ties away from zero -/
theorem rdivpot_eq_cases (x : Int) (e : Nat) :
    rdivpot x e =
      (let p : Int := (2 : Int) ^ e
       let q := x / p
       let r := x % p
       if 2 * r > p then q + 1 else if 2 * r = p then (if x < 0 then q else q + 1) else q) :=
  rdivpot_cases x e

/-- **The NPU's "TFL" rounding is `MultiplyByQuantizedMultiplier`**: for every accumulator, every
    non-negative scale and every shift, scaling with (scale, shift) on the NPU equals the reference
    function with the reference's exponent `31 - shift`. -/
theorem npuScaleTfl_eq_mbqm (acc scale : Int) (shift : Nat) (hs : 0 ≤ scale) :
    npuScaleTfl acc scale shift = mbqm acc scale (31 - (shift : Int)) := by
  have hns : ∀ x : Int, ¬ (x = INT32_MIN ∧ scale = INT32_MIN) := by
    intro x h
    have : scale = -2147483648 := h.2
    omega
  unfold npuScaleTfl mbqm
  by_cases h : shift ≥ 31
  · have hnot : ¬ (31 - (shift : Int) > 0) := by omega
    simp only [h, if_true, hnot, if_false]
    have hr : (-(31 - (shift : Int))).toNat = shift - 31 := by omega
    rw [hr, Int.pow_zero, Int.mul_one, srdhm_eq_floor acc scale (hns acc), rdivpot_cases]
  · have hpos : 31 - (shift : Int) > 0 := by omega
    simp only [h, if_false, hpos, if_true]
    have hl : (31 - (shift : Int)).toNat = 31 - shift := by omega
    rw [hl, srdhm_eq_floor _ scale (hns _), rdivpot_cases]
    simp only [Int.pow_zero, Int.emod_one, Int.ediv_one]
    simp

/-- **"NATURAL" rounding with the reduced multiplier is the 16-bit kernels' requantisation**
    (`MultiplyByQuantizedMultiplier(int64, m, s)`): 64-bit accumulator, 16-bit multiplier, one rounding. -/
theorem npuScaleNatural_eq_mbqm64 (acc m : Int) (s : Int) (h : 15 - s ≥ 1) :
    npuScaleNatural acc (reducedMultiplier m) (15 - s).toNat = mbqm64 acc m s := by
  unfold npuScaleNatural mbqm64
  have h1 : ¬ (15 - s < 1) := by omega
  have h2 : ¬ ((15 - s).toNat = 0) := by omega
  simp only [h1, h2, if_false]

example : npuScaleTfl (-12345) 1518500250 35 = mbqm (-12345) 1518500250 (-4) := by decide
example : npuScaleTfl 77 1518500250 29 = mbqm 77 1518500250 2 := by decide
example : npuScaleNatural 100000 (reducedMultiplier 1518500250) 20 = mbqm64 100000 1518500250 (-5) := by decide

/-- **ADD/SUB with 32-bit operand scaling is the reference ADD.** Under the operand-scaling rule of the executor
    (assumption A1 of design.d/C01.md: operand A pre-shifted by L = 20 / 15 and scaled with TFL rounding, operand B
    shifted by L − 1) and with the register values in the relation Vela establishes — OPA scale = reference multiplier
    `m1` of the smaller-scale input, OPA shift = 31 − L − s1, OFM scale/shift = reference output multiplier — the value
    the NPU adds the zero point to equals the reference's `raw_output` for every pair of inputs (the larger-scale
    input has the reference multiplier 2^30 with shift 0). -/
theorem npu_add_eq_ref (bits16 : Bool) (a b m1 mo s1 so : Int) (opaShift ofShift : Nat)
    (h1 : 0 ≤ m1) (ho : 0 ≤ mo)
    (hs1 : s1 = 31 - ((opaShift : Int) + (if bits16 then 15 else 20))) (hso : so = 31 - (ofShift : Int)) :
    let L : Nat := if bits16 then 15 else 20
    npuScaleTfl ((NpuSem.addOperands 1 bits16 a b m1.toNat opaShift 0).1 + (NpuSem.addOperands 1 bits16 a b m1.toNat opaShift 0).2) mo ofShift =
      mbqm (mbqm (a * (2 : Int) ^ L) m1 s1 + mbqm (b * (2 : Int) ^ L) 1073741824 0) mo so := by
  intro L
  have hL : 1 ≤ L := by cases bits16 <;> simp [L]
  have hm : ((m1.toNat : Nat) : Int) = m1 := Int.toNat_of_nonneg h1
  unfold NpuSem.addOperands
  simp only [show ¬ ((1 : Nat) = 0) by omega, if_false, if_true]
  rw [npuScaleTfl_eq_mbqm _ mo ofShift ho, ← hso, hm, npuScaleTfl_eq_mbqm _ m1 _ h1, mbqm_half b L hL]
  have e : (31 : Int) - ((opaShift + L : Nat) : Int) = s1 := by
    rw [hs1]; cases bits16 <;> simp [L] <;> omega
  rw [e]

example : (NpuSem.addOperands 1 false 57 (-3) 1518500250 12 0) = (mbqm (57 * 1048576) 1518500250 (-1), -3 * 524288) := by decide

/-! ## Convolution on a stripe -/

/-- **A stripe of the NPU convolution equals the reference convolution.**
    Whole tensor: `H × W × C`, reference padding `(pt, pl)`. Stripe: IFM rows `[a, a + h)` presented as
    `ifmS y = ifm (a + y)`, first output row `oy0`, stripe-local top padding `pt'`.
    Receptive-field equation (C10): `a - pt' = oy0 * sy - pt`.
    Row validity (C10): a kernel row is inside the stripe's rows exactly when it is inside the tensor
    (`hrow`; `stripe_rows_valid` derives it from "padding only at the tensor border, and the stripe reaches as
    far down as its windows do"). Then every accumulator of the stripe is the reference accumulator. -/
theorem conv_stripe_eq (H W C h a oy0 pt pt' pl kh kw sy sx dy dx : Nat)
    (ifm : Nat → Nat → Nat → Int) (wgt : Nat → Nat → Nat → Int) (zp : Int) (oy ox : Nat)
    (hfield : (a : Int) - pt' = (oy0 : Int) * sy - pt)
    (hrow : ∀ ky, ky < kh →
      ((pt' ≤ oy * sy + ky * dy ∧ oy * sy + ky * dy - pt' < h) ↔
       (0 ≤ (((oy0 + oy) * sy + ky * dy : Nat) : Int) - pt ∧ (((oy0 + oy) * sy + ky * dy : Nat) : Int) - pt < H))) :
    NpuSem.convAcc h W C (fun y x c => ifm (a + y) x c) kh kw wgt sy sx dy dx pt' pl zp oy ox =
    TfliteRef.convAcc H W C ifm kh kw wgt sy sx dy dx pt pl (-zp) (oy0 + oy) ox := by
  unfold NpuSem.convAcc TfliteRef.convAcc
  apply sumRange_congr
  intro ky hky
  apply sumRange_congr
  intro kx _
  have hr := hrow ky hky
  have hmul : (oy0 + oy) * sy = oy0 * sy + oy * sy := Nat.add_mul oy0 oy sy
  simp only []
  by_cases hn : pt' ≤ oy * sy + ky * dy ∧ oy * sy + ky * dy - pt' < h
  · have hi := hr.mp hn
    by_cases hx : pl ≤ ox * sx + kx * dx ∧ ox * sx + kx * dx - pl < W
    · have c1 : pt' ≤ oy * sy + ky * dy ∧ oy * sy + ky * dy - pt' < h ∧ pl ≤ ox * sx + kx * dx ∧ ox * sx + kx * dx - pl < W :=
        ⟨hn.1, hn.2, hx.1, hx.2⟩
      have c2 : 0 ≤ (((oy0 + oy) * sy + ky * dy : Nat) : Int) - pt ∧ (((oy0 + oy) * sy + ky * dy : Nat) : Int) - pt < H ∧
          0 ≤ ((ox * sx + kx * dx : Nat) : Int) - pl ∧ ((ox * sx + kx * dx : Nat) : Int) - pl < W := by
        refine ⟨hi.1, hi.2, ?_, ?_⟩ <;> omega
      rw [if_pos c1, if_pos c2]
      apply sumRange_congr
      intro ic _
      have e1 : ((((oy0 + oy) * sy + ky * dy : Nat) : Int) - pt).toNat = a + (oy * sy + ky * dy - pt') := by omega
      have e2 : (((ox * sx + kx * dx : Nat) : Int) - pl).toNat = ox * sx + kx * dx - pl := by omega
      rw [e1, e2, Int.sub_eq_add_neg]
    · have c1 : ¬ (pt' ≤ oy * sy + ky * dy ∧ oy * sy + ky * dy - pt' < h ∧ pl ≤ ox * sx + kx * dx ∧ ox * sx + kx * dx - pl < W) :=
        fun c => hx ⟨c.2.2.1, c.2.2.2⟩
      have c2 : ¬ (0 ≤ (((oy0 + oy) * sy + ky * dy : Nat) : Int) - pt ∧ (((oy0 + oy) * sy + ky * dy : Nat) : Int) - pt < H ∧
          0 ≤ ((ox * sx + kx * dx : Nat) : Int) - pl ∧ ((ox * sx + kx * dx : Nat) : Int) - pl < W) := by
        intro c
        apply hx
        omega
      rw [if_neg c1, if_neg c2]
  · have hi : ¬ (0 ≤ (((oy0 + oy) * sy + ky * dy : Nat) : Int) - pt ∧ (((oy0 + oy) * sy + ky * dy : Nat) : Int) - pt < H) :=
      fun c => hn (hr.mpr c)
    have c1 : ¬ (pt' ≤ oy * sy + ky * dy ∧ oy * sy + ky * dy - pt' < h ∧ pl ≤ ox * sx + kx * dx ∧ ox * sx + kx * dx - pl < W) :=
      fun c => hn ⟨c.1, c.2.1⟩
    have c2 : ¬ (0 ≤ (((oy0 + oy) * sy + ky * dy : Nat) : Int) - pt ∧ (((oy0 + oy) * sy + ky * dy : Nat) : Int) - pt < H ∧
        0 ≤ ((ox * sx + kx * dx : Nat) : Int) - pl ∧ ((ox * sx + kx * dx : Nat) : Int) - pl < W) :=
      fun c => hi ⟨c.1, c.2.1⟩
    rw [if_neg c1, if_neg c2]

/-- the same for the depthwise accumulator (one input channel per output channel) -/
theorem dw_stripe_eq (H W h a oy0 pt pt' pl kh kw sy sx dy dx : Nat)
    (ifm : Nat → Nat → Int) (wgt : Nat → Nat → Int) (zp : Int) (oy ox : Nat)
    (hfield : (a : Int) - pt' = (oy0 : Int) * sy - pt)
    (hrow : ∀ ky, ky < kh →
      ((pt' ≤ oy * sy + ky * dy ∧ oy * sy + ky * dy - pt' < h) ↔
       (0 ≤ (((oy0 + oy) * sy + ky * dy : Nat) : Int) - pt ∧ (((oy0 + oy) * sy + ky * dy : Nat) : Int) - pt < H))) :
    NpuSem.dwAcc h W (fun y x => ifm (a + y) x) kh kw wgt sy sx dy dx pt' pl zp oy ox =
    TfliteRef.dwAcc H W ifm kh kw wgt sy sx dy dx pt pl (-zp) (oy0 + oy) ox := by
  unfold NpuSem.dwAcc TfliteRef.dwAcc
  apply sumRange_congr
  intro ky hky
  apply sumRange_congr
  intro kx _
  have hr := hrow ky hky
  have hmul : (oy0 + oy) * sy = oy0 * sy + oy * sy := Nat.add_mul oy0 oy sy
  simp only []
  by_cases hn : pt' ≤ oy * sy + ky * dy ∧ oy * sy + ky * dy - pt' < h
  · have hi := hr.mp hn
    by_cases hx : pl ≤ ox * sx + kx * dx ∧ ox * sx + kx * dx - pl < W
    · have c1 : pt' ≤ oy * sy + ky * dy ∧ oy * sy + ky * dy - pt' < h ∧ pl ≤ ox * sx + kx * dx ∧ ox * sx + kx * dx - pl < W :=
        ⟨hn.1, hn.2, hx.1, hx.2⟩
      have c2 : 0 ≤ (((oy0 + oy) * sy + ky * dy : Nat) : Int) - pt ∧ (((oy0 + oy) * sy + ky * dy : Nat) : Int) - pt < H ∧
          0 ≤ ((ox * sx + kx * dx : Nat) : Int) - pl ∧ ((ox * sx + kx * dx : Nat) : Int) - pl < W := by
        refine ⟨hi.1, hi.2, ?_, ?_⟩ <;> omega
      rw [if_pos c1, if_pos c2]
      have e1 : ((((oy0 + oy) * sy + ky * dy : Nat) : Int) - pt).toNat = a + (oy * sy + ky * dy - pt') := by omega
      have e2 : (((ox * sx + kx * dx : Nat) : Int) - pl).toNat = ox * sx + kx * dx - pl := by omega
      rw [e1, e2, Int.sub_eq_add_neg]
    · have c1 : ¬ (pt' ≤ oy * sy + ky * dy ∧ oy * sy + ky * dy - pt' < h ∧ pl ≤ ox * sx + kx * dx ∧ ox * sx + kx * dx - pl < W) :=
        fun c => hx ⟨c.2.2.1, c.2.2.2⟩
      have c2 : ¬ (0 ≤ (((oy0 + oy) * sy + ky * dy : Nat) : Int) - pt ∧ (((oy0 + oy) * sy + ky * dy : Nat) : Int) - pt < H ∧
          0 ≤ ((ox * sx + kx * dx : Nat) : Int) - pl ∧ ((ox * sx + kx * dx : Nat) : Int) - pl < W) := by
        intro c
        apply hx
        omega
      rw [if_neg c1, if_neg c2]
  · have hi : ¬ (0 ≤ (((oy0 + oy) * sy + ky * dy : Nat) : Int) - pt ∧ (((oy0 + oy) * sy + ky * dy : Nat) : Int) - pt < H) :=
      fun c => hn (hr.mpr c)
    have c1 : ¬ (pt' ≤ oy * sy + ky * dy ∧ oy * sy + ky * dy - pt' < h ∧ pl ≤ ox * sx + kx * dx ∧ ox * sx + kx * dx - pl < W) :=
      fun c => hn ⟨c.1, c.2.1⟩
    have c2 : ¬ (0 ≤ (((oy0 + oy) * sy + ky * dy : Nat) : Int) - pt ∧ (((oy0 + oy) * sy + ky * dy : Nat) : Int) - pt < H ∧
        0 ≤ ((ox * sx + kx * dx : Nat) : Int) - pl ∧ ((ox * sx + kx * dx : Nat) : Int) - pl < W) :=
      fun c => hi ⟨c.1, c.2.1⟩
    rw [if_neg c1, if_neg c2]

/-- the row-validity hypothesis of `conv_stripe_eq` from the shape of a stripe: top padding only when the
    stripe starts at the top of the tensor, the stripe lies inside the tensor, and either it ends at the
    bottom of the tensor or none of its windows reaches below it -/
theorem stripe_rows_valid (H h a oy0 pt pt' sy dy oy ky ohS kh : Nat)
    (hfield : (a : Int) - pt' = (oy0 : Int) * sy - pt)
    (htop : pt' > 0 → a = 0) (hin : a + h ≤ H)
    (hbot : a + h = H ∨ (ohS - 1) * sy + (kh - 1) * dy < h + pt')
    (hoy : oy < ohS) (hky : ky < kh) :
    ((pt' ≤ oy * sy + ky * dy ∧ oy * sy + ky * dy - pt' < h) ↔
     (0 ≤ (((oy0 + oy) * sy + ky * dy : Nat) : Int) - pt ∧ (((oy0 + oy) * sy + ky * dy : Nat) : Int) - pt < H)) := by
  have hmul : (oy0 + oy) * sy = oy0 * sy + oy * sy := Nat.add_mul oy0 oy sy
  have h1 : oy * sy ≤ (ohS - 1) * sy := Nat.mul_le_mul_right sy (by omega)
  have h2 : ky * dy ≤ (kh - 1) * dy := Nat.mul_le_mul_right dy (by omega)
  by_cases hp : pt' > 0
  · have ha := htop hp
    constructor <;> intro c <;> rcases hbot with hb | hb <;> constructor <;> omega
  · constructor <;> intro c <;> rcases hbot with hb | hb <;> constructor <;> omega

/-- non-vacuity: 3×3 stride-1 SAME convolution on 6 rows split into two stripes of three output rows;
    the second stripe (rows 3..5) sees IFM rows 2..5 with no top padding and one row of bottom padding -/
example :
    let ifm : Nat → Nat → Nat → Int := fun y x c => (y * 7 + x * 3 + c : Nat)
    let wgt : Nat → Nat → Nat → Int := fun ky kx c => (ky : Int) - kx + c
    (List.range 3).map (fun oy => NpuSem.convAcc 4 4 2 (fun y x c => ifm (2 + y) x c) 3 3 wgt 1 1 1 1 0 1 5 oy 2) =
    (List.range 3).map (fun oy => TfliteRef.convAcc 6 4 2 ifm 3 3 wgt 1 1 1 1 1 1 (-5) (3 + oy) 2) := by
  decide

/-! ## Pooling on a stripe -/

/-- **MAX pooling on a stripe = reference MAX_POOL on the whole tensor.** The executor takes the maximum over the valid
    positions of the window on the stripe (rows `[a, a + h)`, stripe-local top padding `pt'`); under the hypotheses of
    `conv_stripe_eq` (receptive-field equation and row validity of C10) this is the reference's `poolMax` at output row
    `oy0 + oy` of the whole tensor, started from any `lowest` not above the first window value (the type minimum). -/
theorem pool_stripe_max_eq (H W h a oy0 pt pt' pl kh kw sy sx : Nat) (ifm : Nat → Nat → Int) (oy ox : Nat) (lowest v0 : Int) (rest : List Int)
    (hfield : (a : Int) - pt' = (oy0 : Int) * sy - pt)
    (hrow : ∀ ky, ky < kh →
      ((pt' ≤ oy * sy + ky ∧ oy * sy + ky - pt' < h) ↔
       (0 ≤ (((oy0 + oy) * sy + ky : Nat) : Int) - pt ∧ (((oy0 + oy) * sy + ky : Nat) : Int) - pt < H)))
    (hvals : NpuSem.windowVals h W (fun y x => ifm (a + y) x) kh kw sy sx pt' pl oy ox = v0 :: rest)
    (hlow : lowest ≤ v0) :
    rest.foldl max v0 = TfliteRef.poolMax H W ifm kh kw sy sx pt pl (oy0 + oy) ox lowest := by
  rw [poolMax_eq_foldl, ← windowVals_eq_refWindow, ← windowVals_stripe H W h a oy0 pt pt' pl kh kw sy sx ifm oy ox hfield hrow, hvals]
  simp only [List.foldl]
  rw [Int.max_eq_right hlow]

/-- **AVERAGE pooling on a stripe**: sum of the zero-point-corrected window values and their number are the reference's
    `poolSumCount` on the whole tensor -/
theorem pool_stripe_avg_eq (H W h a oy0 pt pt' pl kh kw sy sx : Nat) (ifm : Nat → Nat → Int) (oy ox : Nat) (zp : Int)
    (hfield : (a : Int) - pt' = (oy0 : Int) * sy - pt)
    (hrow : ∀ ky, ky < kh →
      ((pt' ≤ oy * sy + ky ∧ oy * sy + ky - pt' < h) ↔
       (0 ≤ (((oy0 + oy) * sy + ky : Nat) : Int) - pt ∧ (((oy0 + oy) * sy + ky : Nat) : Int) - pt < H))) :
    let vals := NpuSem.windowVals h W (fun y x => ifm (a + y) x) kh kw sy sx pt' pl oy ox
    let sc := TfliteRef.poolSumCount H W ifm kh kw sy sx pt pl (oy0 + oy) ox
    vals.foldl (fun acc x => acc + (x - zp)) 0 = sc.1 - zp * sc.2 ∧ vals.length = sc.2 := by
  intro vals sc
  have e : vals = refWindow H W ifm kh kw sy sx pt pl (oy0 + oy) ox := by
    simp only [vals]
    rw [windowVals_stripe H W h a oy0 pt pt' pl kh kw sy sx ifm oy ox hfield hrow, windowVals_eq_refWindow]
  have e2 : sc = (0 + vals.foldl (· + ·) 0, 0 + vals.length) := by
    simp only [sc]
    rw [poolSumCount_eq_foldl, ← e, foldl_pair_list]
  rw [e2, foldl_sub_zp]
  simp

/-- non-vacuity: 3x3 stride-1 SAME pooling of 6 rows, second stripe (output rows 3..5 from IFM rows 2..5, no top padding) -/
example :
    let ifm : Nat → Nat → Int := fun y x => ((y * 7 + x * 3) % 11 : Nat)
    (List.range 3).map (fun oy => NpuSem.windowVals 4 4 (fun y x => ifm (2 + y) x) 3 3 1 1 0 1 oy 2) =
    (List.range 3).map (fun oy => NpuSem.windowVals 6 4 ifm 3 3 1 1 1 1 (3 + oy) 2) ∧
    (List.range 3).map (fun oy => ((NpuSem.windowVals 4 4 (fun y x => ifm (2 + y) x) 3 3 1 1 0 1 oy 2).foldl max (-128))) =
    (List.range 3).map (fun oy => TfliteRef.poolMax 6 4 ifm 3 3 1 1 1 1 (3 + oy) 2 (-128)) := by
  decide

/-! ## The executor's loops and the accumulators

`NpuSem.execBlock` gathers the IFM box (`gatherList`: element `(y, x, c)` read at `Footprint.fmAddr`), computes the OFM
values of a convolution block with `NpuSem.convValues`, applies the activation to each and scatters them. The theorems
below tie the list/array formulation to the per-element accumulators `NpuSem.convAcc` / `NpuSem.dwAcc` that
`conv_stripe_eq` / `dw_stripe_eq` relate to the reference. -/

/-- **The executor's convolution loop computes, at NHWC index `(oy * ow + ox) * od + oc`, the scaled accumulator of
    that position and channel.** -/
theorem convValues_get (H W C : Nat) (ifmAt : Nat → Nat → Nat → Int) (kh kw : Nat) (wAt : Nat → Nat → Nat → Nat → Int)
    (sy sx dy dx pt pl : Nat) (zp ozp : Int) (rounding : Rounding) (recs : Array ScaleRec) (oh ow od oy ox oc : Nat)
    (hy : oy < oh) (hx : ox < ow) (hc : oc < od) :
    (convValues false H W C ifmAt kh kw wAt sy sx dy dx pt pl zp ozp rounding recs oh ow od)[(oy * ow + ox) * od + oc]? =
      some (npuScale rounding
        (NpuSem.convAcc H W C ifmAt kh kw (fun ky kx ic => wAt oc ky kx ic) sy sx dy dx pt pl zp oy ox + (recs.getD oc default).bias)
        (recs.getD oc default).scale (recs.getD oc default).shift + ozp) := by
  unfold convValues
  rw [nested_range_get oh ow od _ oy ox oc hy hx hc]
  simp

theorem dwValues_get (H W C : Nat) (ifmAt : Nat → Nat → Nat → Int) (kh kw : Nat) (wAt : Nat → Nat → Nat → Nat → Int)
    (sy sx dy dx pt pl : Nat) (zp ozp : Int) (rounding : Rounding) (recs : Array ScaleRec) (oh ow od oy ox oc : Nat)
    (hy : oy < oh) (hx : ox < ow) (hc : oc < od) :
    (convValues true H W C ifmAt kh kw wAt sy sx dy dx pt pl zp ozp rounding recs oh ow od)[(oy * ow + ox) * od + oc]? =
      some (npuScale rounding
        (NpuSem.dwAcc H W (fun y x => ifmAt y x oc) kh kw (fun ky kx => wAt oc ky kx 0) sy sx dy dx pt pl zp oy ox + (recs.getD oc default).bias)
        (recs.getD oc default).scale (recs.getD oc default).shift + ozp) := by
  unfold convValues
  rw [nested_range_get oh ow od _ oy ox oc hy hx hc]
  simp


/-- **`gather` reads element `(y, x, c)` of the box at `fmAddr fm y x c`**: if the gather succeeds, its NHWC index
    `(y * W + x) * C + c` holds exactly what `readElem` returns at that address -/
theorem gatherList_get (m : Mem) (fm : FM) (l : List Int) (h : gatherList m fm = .ok l) (y x c : Nat)
    (hy : y < fm.height) (hx : x < fm.width) (hc : c < fm.depth) :
    ∃ v, l[(y * fm.width + x) * fm.depth + c]? = some v ∧
      m.readElem fm.region (fmAddr fm y x c) fm.elemBytes fm.signed = .ok v := by
  unfold gatherList at h
  have ⟨_, hg⟩ := mapM_except_get _ _ l h
  exact hg _ (y, x, c) (coords3_get fm.height fm.width fm.depth y x c hy hx hc)


theorem gather_getD (m : Mem) (fm : FM) (l : List Int) (h : gatherList m fm = .ok l) (y x c : Nat)
    (hy : y < fm.height) (hx : x < fm.width) (hc : c < fm.depth) :
    l.toArray.getD ((y * fm.width + x) * fm.depth + c) 0 = memFm m fm y x c := by
  obtain ⟨v, h1, h2⟩ := gatherList_get m fm l h y x c hy hx hc
  unfold memFm
  rw [h2]
  simp [Array.getD_eq_getD_getElem?, h1]

/-- **decoded block → accumulator**: for a convolution block without IFM upscaling, whose IFM box was gathered
    successfully, the value the executor computes for OFM element `(oy, ox, oc)` (before the activation clamp) is the scaled
    `convAcc` over the *memory contents* at the addresses `fmAddr` gives for the IFM registers -/
theorem conv_block_values (m : Mem) (fm : FM) (l : List Int) (hg : gatherList m fm = .ok l)
    (kh kw : Nat) (wAt : Nat → Nat → Nat → Nat → Int) (sy sx dy dx pt pl : Nat) (zp ozp : Int) (rounding : Rounding)
    (recs : Array ScaleRec) (oh ow od oy ox oc : Nat) (hy : oy < oh) (hx : ox < ow) (hc : oc < od) :
    (convValues false fm.height fm.width fm.depth (fun y x c => l.toArray.getD ((y * fm.width + x) * fm.depth + c) 0)
        kh kw wAt sy sx dy dx pt pl zp ozp rounding recs oh ow od)[(oy * ow + ox) * od + oc]? =
      some (npuScale rounding
        (NpuSem.convAcc fm.height fm.width fm.depth (memFm m fm) kh kw (fun ky kx ic => wAt oc ky kx ic) sy sx dy dx pt pl zp oy ox +
          (recs.getD oc default).bias)
        (recs.getD oc default).scale (recs.getD oc default).shift + ozp) := by
  rw [convValues_get _ _ _ _ _ _ _ _ _ _ _ _ _ _ _ _ _ oh ow od oy ox oc hy hx hc]
  rw [convAcc_congr_inrange fm.height fm.width fm.depth _ (memFm m fm)
    (fun y x c h1 h2 h3 => gather_getD m fm l hg y x c h1 h2 h3)]


/-- **Write side: what `scatter` stores is what a later read returns.** If the scatter of the OFM values succeeds and the
    bytes of element `(y, x, c)` are not shared with any other element of the box (`hdisj`: the strides in the registers
    separate the elements — C02/C12's subject), then reading that element from the resulting memory at
    `fmAddr fm y x c` gives the stored value (modulo `2^(8·bytes)`, sign-reinterpreted: `wrapElem`), whatever order the
    other elements were written in. With `wrapElem_id`: the value itself when it is in the range of the OFM type (which the
    activation clamp guarantees). -/
theorem scatter_readback (m m' : Mem) (fm : FM) (vals : Array Int) (s : Nat)
    (hslot : regionSlot fm.region = some s) (hsz : s < m.regions.size)
    (h : scatter m fm vals = .ok m') (y x c : Nat) (hy : y < fm.height) (hx : x < fm.width) (hc : c < fm.depth)
    (hdisj : ∀ y' x' c', y' < fm.height → x' < fm.width → c' < fm.depth → (y', x', c') ≠ (y, x, c) →
      fmAddr fm y x c + fm.elemBytes ≤ fmAddr fm y' x' c' ∨ fmAddr fm y' x' c' + fm.elemBytes ≤ fmAddr fm y x c) :
    m'.readElem fm.region (fmAddr fm y x c) fm.elemBytes fm.signed =
      .ok (wrapElem fm.elemBytes fm.signed (vals.getD ((y * fm.width + x) * fm.depth + c) 0)) := by
  unfold scatter Mem.modifyRegion at h
  rw [hslot] at h
  simp only [] at h
  generalize hB : m.regions.getD s ByteArray.empty = B at h
  split at h
  · cases h
  · rename_i hs0
    cases hb : scatterBytes fm vals B with
    | error e => rw [hb] at h; cases h
    | ok b' =>
      rw [hb] at h
      cases h
      unfold scatterBytes at hb
      have hrb := writes_readback fm.region fm.elemBytes (fun (e : Nat × Nat × Nat) => fmAddr fm e.1 e.2.1 e.2.2)
        (fun (e : Nat × Nat × Nat) => vals.getD ((e.1 * fm.width + e.2.1) * fm.depth + e.2.2) 0)
        (coords3 fm.height fm.width fm.depth) B b' hb ((y * fm.width + x) * fm.depth + c) (y, x, c)
        (coords3_get _ _ _ y x c hy hx hc)
        (by
          intro j e' hj hne
          have ⟨h1, h2, h3, h4⟩ := coords3_get_inv _ _ _ j e' hj
          apply hdisj e'.1 e'.2.1 e'.2.2 h1 h2 h3
          intro heq
          apply hne
          rw [h4]
          have e1 : e'.1 = y := by have := congrArg (·.1) heq; simpa using this
          have e2 : e'.2.1 = x := by have := congrArg (·.2.1) heq; simpa using this
          have e3 : e'.2.2 = c := by have := congrArg (·.2.2) heq; simpa using this
          rw [e1, e2, e3])
      obtain ⟨hin, hbytes⟩ := hrb
      have hget : ({ regions := (m.regions.setIfInBounds s ByteArray.empty).setIfInBounds s b' } : Mem).regions.getD s ByteArray.empty = b' := by
        simp [Array.getD_eq_getD_getElem?, hsz]
      unfold Mem.readElem
      rw [readUnsigned_ok _ fm.region s _ _ hslot (by rw [hget]; exact hin), hget]
      have hu : (vals.getD ((y * fm.width + x) * fm.depth + c) 0 % (2 : Int) ^ (8 * fm.elemBytes)).toNat < 256 ^ fm.elemBytes := by
        rw [← pow_8n]
        have hp : (0 : Int) < (2 : Int) ^ (8 * fm.elemBytes) := VelaVerif.Lemmas.Sem.two_pow_pos _
        have h1 := Int.emod_lt_of_pos (vals.getD ((y * fm.width + x) * fm.depth + c) 0) hp
        have h0 := Int.emod_nonneg (vals.getD ((y * fm.width + x) * fm.depth + c) 0) (by omega : (2 : Int) ^ (8 * fm.elemBytes) ≠ 0)
        have hc : ((2 : Nat) ^ (8 * fm.elemBytes) : Nat) = ((2 : Int) ^ (8 * fm.elemBytes)) := by simp
        omega
      have e : (List.range fm.elemBytes).foldl (fun v i => v + (b'.get! (fmAddr fm y x c + i)).toNat * 256 ^ i) 0 =
          (vals.getD ((y * fm.width + x) * fm.depth + c) 0 % (2 : Int) ^ (8 * fm.elemBytes)).toNat := by
        rw [← read_setBytes b' (fmAddr fm y x c) _ fm.elemBytes hu hin]
        have gen : ∀ (l : List Nat), (∀ i ∈ l, i < fm.elemBytes) → ∀ init,
            l.foldl (fun v i => v + (b'.get! (fmAddr fm y x c + i)).toNat * 256 ^ i) init =
            l.foldl (fun v i => v + ((setBytes b' (fmAddr fm y x c) (vals.getD ((y * fm.width + x) * fm.depth + c) 0 % (2 : Int) ^ (8 * fm.elemBytes)).toNat fm.elemBytes).get! (fmAddr fm y x c + i)).toNat * 256 ^ i) init := by
          intro l
          induction l with
          | nil => intro _ init; rfl
          | cons a as ih =>
            intro hl init
            simp only [List.foldl]
            rw [hbytes a (hl a List.mem_cons_self), setBytes_get_in _ _ _ _ a (hl a List.mem_cons_self) hin]
            exact ih (fun i hi => hl i (List.mem_cons_of_mem a hi)) _
        exact gen _ (fun i hi => List.mem_range.mp hi) 0
      rw [e]
      rfl



/-- a value in the range of the element type is stored faithfully -/
theorem wrapElem_id (n : Nat) (signed : Bool) (v : Int) (hn : 1 ≤ n)
    (hr : if signed then -((2 : Int) ^ (8 * n - 1)) ≤ v ∧ v < (2 : Int) ^ (8 * n - 1) else 0 ≤ v ∧ v < (2 : Int) ^ (8 * n)) :
    wrapElem n signed v = v := by
  unfold wrapElem toSigned
  have hp : (2 : Int) ^ (8 * n) = 2 * (2 : Int) ^ (8 * n - 1) := by
    have : 8 * n = (8 * n - 1) + 1 := by omega
    rw [this, VelaVerif.Lemmas.Sem.two_pow_succ]; simp
  have hpn : ((2 : Nat) ^ (8 * n - 1) : Nat) = ((2 : Int) ^ (8 * n - 1)) := by simp
  have hpos := VelaVerif.Lemmas.Sem.two_pow_pos (8 * n - 1)
  generalize (2 : Int) ^ (8 * n - 1) = P at *
  cases signed with
  | true =>
    simp only [if_true] at hr ⊢
    rw [hp]
    by_cases hv : 0 ≤ v
    · have e : v % (2 * P) = v := Int.emod_eq_of_lt hv (by omega)
      rw [e]
      have : ¬ (v.toNat ≥ 2 ^ (8 * n - 1)) := by omega
      simp only [this, if_false]
      omega
    · have e : v % (2 * P) = v + 2 * P := by
        have h1 : (v + 2 * P) % (2 * P) = v + 2 * P := Int.emod_eq_of_lt (by omega) (by omega)
        rw [← h1]
        exact (Int.add_emod_right v (2 * P)).symm
      rw [e]
      have : (v + 2 * P).toNat ≥ 2 ^ (8 * n - 1) := by omega
      simp only [this, if_true]
      omega
  | false =>
    simp only [Bool.false_eq_true, if_false] at hr ⊢
    rw [hp] at hr ⊢
    have e : v % (2 * P) = v := Int.emod_eq_of_lt hr.1 hr.2
    rw [e]
    omega

/-- non-vacuity: a 2x2x1 block with a 1x1 kernel of weight 3, scale record (bias 1, scale 2^30, shift 30): index 3 holds
    `(ifm(1,1,0) - zp) * 3 + 1` -/
example :
    (convValues false 2 2 1 (fun y x _ => (y * 2 + x : Nat)) 1 1 (fun _ _ _ _ => 3) 1 1 1 1 0 0 1 0 .tfl
      #[{ bias := 1, scale := 1073741824, shift := 30 }] 2 2 1)[(1 * 2 + 1) * 1 + 0]? = some ((3 - 1) * 3 + 1) := by decide

/-- non-vacuity of `scatter_readback`: a 2x2x1 int16 OFM at base 2 with row stride 6 in a 16-byte scratch region: the
    scatter succeeds, the elements are separated, and element (1, 1, 0) reads back as the stored -32768 -/
example : (match scatter { regions := #[ByteArray.empty, ByteArray.mk (Array.replicate 16 0), ByteArray.empty, ByteArray.empty] }
      { region := 1, base := [2, 0, 0, 0], height0 := 2, height1 := 2, width0 := 2, strideX := 2, strideY := 6, strideC := 0,
        height := 2, width := 2, depth := 1, elemBytes := 2, signed := true, nhcwb16 := false, zeroPoint := 0 }
      #[-3, 300, 7, -32768] with | .ok _ => true | .error _ => false) = true := by decide

example (m' : Mem)
    (h : scatter { regions := #[ByteArray.empty, ByteArray.mk (Array.replicate 16 0), ByteArray.empty, ByteArray.empty] }
      { region := 1, base := [2, 0, 0, 0], height0 := 2, height1 := 2, width0 := 2, strideX := 2, strideY := 6, strideC := 0,
        height := 2, width := 2, depth := 1, elemBytes := 2, signed := true, nhcwb16 := false, zeroPoint := 0 }
      #[-3, 300, 7, -32768] = .ok m') :
    m'.readElem 1 10 2 true = .ok (-32768) := by
  have := scatter_readback _ m' _ #[-3, 300, 7, -32768] 1 (by decide) (by decide) h 1 1 0 (by decide) (by decide) (by decide)
    (by intro y' x' c' hy hx hc hne
        have h1 : y' = 0 ∨ y' = 1 := by have : y' < 2 := hy; omega
        have h2 : x' = 0 ∨ x' = 1 := by have : x' < 2 := hx; omega
        have h3 : c' = 0 := by have : c' < 1 := hc; omega
        subst h3
        rcases h1 with rfl | rfl <;> rcases h2 with rfl | rfl <;> first | (exact absurd rfl hne) | decide)
  exact this

/-! ## `execBlock` on a convolution block, end to end -/


/-- the convolution branch of `execBlock`, inverted: if it succeeds, the scale records were read, the weights fit the IFM
    depth, and every output value is the activation of the clamped scaled accumulator at its NHWC index -/
theorem convBranch_conv_ok (m : Mem) (ctx : Ctx) (b : BlockOp) (w : Weights) (rounding : Rounding) (ifm : Array Int) (H W : Nat)
    (out : List Int) (hk : b.kind = .conv) (h : convBranch m ctx b (some w) rounding ifm H W = .ok out) :
    ∃ recs : List ScaleRec,
      (List.range b.ofm.depth).mapM (fun c => readScaleRec m b.scales ctx.ncores c) = .ok recs ∧
      w.ic = b.ifm.depth ∧
      ∀ oy ox oc, oy < b.ofm.height → ox < b.ofm.width → oc < b.ofm.depth →
        ∃ v, out[(oy * b.ofm.width + ox) * b.ofm.depth + oc]? = some v ∧
          applyActivation m ctx b (clamp (npuScale rounding
            (NpuSem.convAcc H W b.ifm.depth (fun y x c => ifm.getD ((y * W + x) * b.ifm.depth + c) 0)
              ((b.kernelH - 1) / b.dilationY + 1) ((b.kernelW - 1) / b.dilationX + 1) (fun ky kx ic => w.at oc ky kx ic)
              b.strideY b.strideX b.dilationY b.dilationX b.padTop b.padLeft b.ifm.zeroPoint oy ox + (recs.toArray.getD oc default).bias)
            (recs.toArray.getD oc default).scale (recs.toArray.getD oc default).shift + b.ofm.zeroPoint) b.actMin b.actMax) = .ok v := by
  unfold convBranch at h
  simp only [hk] at h
  split at h
  · simp [throw, throwThe, MonadExcept.throw, bind, Except.bind] at h
  · split at h
    · simp [throw, throwThe, MonadExcept.throw, bind, Except.bind] at h
    · rename_i hfit hic
      split at h
      · simp [throw, throwThe, MonadExcept.throw, bind, Except.bind] at h
      · cases hr : List.mapM (fun c => readScaleRec m b.scales ctx.ncores c) (List.range b.ofm.depth) with
        | error e => rw [hr] at h; simp [bind, Except.bind] at h
        | ok recs =>
          rw [hr] at h
          simp only [bind, Except.bind] at h
          refine ⟨recs, rfl, ?_, ?_⟩
          · by_cases hc : w.ic = b.ifm.depth
            · exact hc
            · exact absurd ⟨by decide, hc⟩ hic
          · intro oy ox oc hy hx hc
            have ⟨_, hg⟩ := mapM_except_get _ _ out h
            have hv := convValues_get H W b.ifm.depth (fun y x c => ifm.getD ((y * W + x) * b.ifm.depth + c) 0)
              ((b.kernelH - 1) / b.dilationY + 1) ((b.kernelW - 1) / b.dilationX + 1) (fun oc ky kx ic => w.at oc ky kx ic)
              b.strideY b.strideX b.dilationY b.dilationX b.padTop b.padLeft b.ifm.zeroPoint b.ofm.zeroPoint rounding recs.toArray
              b.ofm.height b.ofm.width b.ofm.depth oy ox oc hy hx hc
            have hdw : (OpKind.conv == OpKind.depthwise) = false := by decide
            rw [hdw] at hg
            exact hg _ _ hv


/-- `execBlock` on a convolution block without upscaling is: decode the rounding mode, gather the IFM box, run the
    convolution branch, scatter the result (all prefix checks passed) -/
theorem exec_conv_block (m m' : Mem) (ctx : Ctx) (b : BlockOp) (regs : RegFile) (w : Weights)
    (hk : b.kind = .conv) (hu : b.upscale = 0) (h : execBlock m ctx b regs (some w) = .ok m') :
    ∃ rounding l out, Rounding.ofBits (b.ofmPrecision / 16384 % 4) = some rounding ∧ gatherList m b.ifm = .ok l ∧
      convBranch m ctx b (some w) rounding l.toArray b.ifm.height b.ifm.width = .ok out ∧
      scatter m b.ofm out.toArray = .ok m' := by
  unfold execBlock at h
  simp only [hk, hu, show ¬ ((0 : Nat) > 2) by decide, ne_eq, not_true_eq_false, false_and, if_false, if_true, pure_bind] at h
  split at h
  · simp [throw, throwThe, MonadExcept.throw, bind, Except.bind] at h
  · split at h
    · simp [throw, throwThe, MonadExcept.throw, bind, Except.bind] at h
    · split at h
      · rename_i rounding hro
        unfold gather at h
        cases hg : gatherList m b.ifm with
        | error e => rw [hg] at h; simp [bind, Except.bind] at h
        | ok l =>
          rw [hg] at h
          simp only [bind, Except.bind, pure, Except.pure] at h
          cases hc : convBranch m ctx b (some w) rounding l.toArray b.ifm.height b.ifm.width with
          | error e => rw [hc] at h; simp at h
          | ok out =>
            rw [hc] at h
            exact ⟨rounding, l, out, hro, rfl, hc, h⟩
      · simp [throw, throwThe, MonadExcept.throw] at h


/-- **A convolution block of the command stream, end to end.** If `execBlock` succeeds on a convolution block without IFM
    upscaling, then for every OFM element `(oy, ox, oc)` whose bytes no other element of the OFM box shares, the resulting
    memory holds at `fmAddr b.ofm oy ox oc` the activation of the clamped, scaled accumulator
    `convAcc` over the memory contents at the addresses the IFM registers give (`memFm m b.ifm`), with the weights of output
    channel `oc` and the scale record of that channel read from the region bytes. -/
theorem exec_conv_block_correct (m m' : Mem) (ctx : Ctx) (b : BlockOp) (regs : RegFile) (w : Weights) (s : Nat)
    (hk : b.kind = .conv) (hu : b.upscale = 0) (h : execBlock m ctx b regs (some w) = .ok m')
    (hslot : regionSlot b.ofm.region = some s) (hsz : s < m.regions.size)
    (oy ox oc : Nat) (hy : oy < b.ofm.height) (hx : ox < b.ofm.width) (hc : oc < b.ofm.depth)
    (hdisj : ∀ y' x' c', y' < b.ofm.height → x' < b.ofm.width → c' < b.ofm.depth → (y', x', c') ≠ (oy, ox, oc) →
      fmAddr b.ofm oy ox oc + b.ofm.elemBytes ≤ fmAddr b.ofm y' x' c' ∨ fmAddr b.ofm y' x' c' + b.ofm.elemBytes ≤ fmAddr b.ofm oy ox oc) :
    ∃ (rounding : Rounding) (recs : List ScaleRec) (v : Int),
      Rounding.ofBits (b.ofmPrecision / 16384 % 4) = some rounding ∧
      (List.range b.ofm.depth).mapM (fun c => readScaleRec m b.scales ctx.ncores c) = .ok recs ∧
      applyActivation m ctx b (clamp (npuScale rounding
          (NpuSem.convAcc b.ifm.height b.ifm.width b.ifm.depth (memFm m b.ifm)
            ((b.kernelH - 1) / b.dilationY + 1) ((b.kernelW - 1) / b.dilationX + 1) (fun ky kx ic => w.at oc ky kx ic)
            b.strideY b.strideX b.dilationY b.dilationX b.padTop b.padLeft b.ifm.zeroPoint oy ox + (recs.toArray.getD oc default).bias)
          (recs.toArray.getD oc default).scale (recs.toArray.getD oc default).shift + b.ofm.zeroPoint) b.actMin b.actMax) = .ok v ∧
      m'.readElem b.ofm.region (fmAddr b.ofm oy ox oc) b.ofm.elemBytes b.ofm.signed = .ok (wrapElem b.ofm.elemBytes b.ofm.signed v) := by
  obtain ⟨rounding, l, out, hro, hg, hcb, hsc⟩ := exec_conv_block m m' ctx b regs w hk hu h
  obtain ⟨recs, hrecs, _, hvals⟩ := convBranch_conv_ok m ctx b w rounding l.toArray b.ifm.height b.ifm.width out hk hcb
  obtain ⟨v, hv1, hv2⟩ := hvals oy ox oc hy hx hc
  refine ⟨rounding, recs, v, hro, hrecs, ?_, ?_⟩
  · rw [← convAcc_congr_inrange b.ifm.height b.ifm.width b.ifm.depth _ (memFm m b.ifm)
      (fun y x c h1 h2 h3 => gather_getD m b.ifm l hg y x c h1 h2 h3)]
    exact hv2
  · have := scatter_readback m m' b.ofm out.toArray s hslot hsz hsc oy ox oc hy hx hc hdisj
    rw [this]
    simp [Array.getD_eq_getD_getElem?, hv1]



/-! ### the same for depthwise blocks -/


theorem dwAcc_congr_inrange (H W : Nat) (f g : Nat → Nat → Int) (hfg : ∀ y x, y < H → x < W → f y x = g y x)
    (kh kw : Nat) (wgt : Nat → Nat → Int) (sy sx dy dx pt pl : Nat) (zp : Int) (oy ox : Nat) :
    NpuSem.dwAcc H W f kh kw wgt sy sx dy dx pt pl zp oy ox = NpuSem.dwAcc H W g kh kw wgt sy sx dy dx pt pl zp oy ox := by
  unfold NpuSem.dwAcc
  apply sumRange_congr; intro ky _
  apply sumRange_congr; intro kx _
  simp only []
  split
  · rename_i h
    rw [hfg _ _ h.2.1 h.2.2.2]
  · rfl

theorem convBranch_dw_ok (m : Mem) (ctx : Ctx) (b : BlockOp) (w : Weights) (rounding : Rounding) (ifm : Array Int) (H W : Nat)
    (out : List Int) (hk : b.kind = .depthwise) (h : convBranch m ctx b (some w) rounding ifm H W = .ok out) :
    ∃ recs : List ScaleRec,
      (List.range b.ofm.depth).mapM (fun c => readScaleRec m b.scales ctx.ncores c) = .ok recs ∧
      w.ic = 1 ∧ b.ifm.depth = b.ofm.depth ∧
      ∀ oy ox oc, oy < b.ofm.height → ox < b.ofm.width → oc < b.ofm.depth →
        ∃ v, out[(oy * b.ofm.width + ox) * b.ofm.depth + oc]? = some v ∧
          applyActivation m ctx b (clamp (npuScale rounding
            (NpuSem.dwAcc H W (fun y x => ifm.getD ((y * W + x) * b.ifm.depth + oc) 0)
              ((b.kernelH - 1) / b.dilationY + 1) ((b.kernelW - 1) / b.dilationX + 1) (fun ky kx => w.at oc ky kx 0)
              b.strideY b.strideX b.dilationY b.dilationX b.padTop b.padLeft b.ifm.zeroPoint oy ox + (recs.toArray.getD oc default).bias)
            (recs.toArray.getD oc default).scale (recs.toArray.getD oc default).shift + b.ofm.zeroPoint) b.actMin b.actMax) = .ok v := by
  unfold convBranch at h
  simp only [hk] at h
  split at h
  · simp [throw, throwThe, MonadExcept.throw, bind, Except.bind] at h
  · split at h
    · simp [throw, throwThe, MonadExcept.throw, bind, Except.bind] at h
    · split at h
      · simp [throw, throwThe, MonadExcept.throw, bind, Except.bind] at h
      · rename_i hdw
        cases hr : List.mapM (fun c => readScaleRec m b.scales ctx.ncores c) (List.range b.ofm.depth) with
        | error e => rw [hr] at h; simp [bind, Except.bind] at h
        | ok recs =>
          rw [hr] at h
          simp only [bind, Except.bind] at h
          have hd : w.ic = 1 ∧ b.ifm.depth = b.ofm.depth := by
            by_cases h1 : w.ic = 1
            · by_cases h2 : b.ifm.depth = b.ofm.depth
              · exact ⟨h1, h2⟩
              · exact absurd ⟨by decide, Or.inr h2⟩ hdw
            · exact absurd ⟨by decide, Or.inl h1⟩ hdw
          refine ⟨recs, rfl, hd.1, hd.2, ?_⟩
          intro oy ox oc hy hx hc
          have ⟨_, hg⟩ := mapM_except_get _ _ out h
          have hv := dwValues_get H W b.ifm.depth (fun y x c => ifm.getD ((y * W + x) * b.ifm.depth + c) 0)
            ((b.kernelH - 1) / b.dilationY + 1) ((b.kernelW - 1) / b.dilationX + 1) (fun oc ky kx ic => w.at oc ky kx ic)
            b.strideY b.strideX b.dilationY b.dilationX b.padTop b.padLeft b.ifm.zeroPoint b.ofm.zeroPoint rounding recs.toArray
            b.ofm.height b.ofm.width b.ofm.depth oy ox oc hy hx hc
          have hdwk : (OpKind.depthwise == OpKind.depthwise) = true := by decide
          rw [hdwk] at hg
          exact hg _ _ hv

theorem exec_dw_block (m m' : Mem) (ctx : Ctx) (b : BlockOp) (regs : RegFile) (w : Weights)
    (hk : b.kind = .depthwise) (hu : b.upscale = 0) (h : execBlock m ctx b regs (some w) = .ok m') :
    ∃ rounding l out, Rounding.ofBits (b.ofmPrecision / 16384 % 4) = some rounding ∧ gatherList m b.ifm = .ok l ∧
      convBranch m ctx b (some w) rounding l.toArray b.ifm.height b.ifm.width = .ok out ∧
      scatter m b.ofm out.toArray = .ok m' := by
  unfold execBlock at h
  simp only [hk, hu, show ¬ ((0 : Nat) > 2) by decide, ne_eq, not_true_eq_false, false_and, if_false, if_true, pure_bind] at h
  split at h
  · simp [throw, throwThe, MonadExcept.throw, bind, Except.bind] at h
  · split at h
    · simp [throw, throwThe, MonadExcept.throw, bind, Except.bind] at h
    · split at h
      · rename_i rounding hro
        unfold gather at h
        cases hg : gatherList m b.ifm with
        | error e => rw [hg] at h; simp [bind, Except.bind] at h
        | ok l =>
          rw [hg] at h
          simp only [bind, Except.bind, pure, Except.pure] at h
          cases hc : convBranch m ctx b (some w) rounding l.toArray b.ifm.height b.ifm.width with
          | error e => rw [hc] at h; simp at h
          | ok out =>
            rw [hc] at h
            exact ⟨rounding, l, out, hro, rfl, hc, h⟩
      · simp [throw, throwThe, MonadExcept.throw] at h

/-- the depthwise block, end to end (see `exec_conv_block_correct`) -/
theorem exec_dw_block_correct (m m' : Mem) (ctx : Ctx) (b : BlockOp) (regs : RegFile) (w : Weights) (s : Nat)
    (hk : b.kind = .depthwise) (hu : b.upscale = 0) (h : execBlock m ctx b regs (some w) = .ok m')
    (hslot : regionSlot b.ofm.region = some s) (hsz : s < m.regions.size)
    (oy ox oc : Nat) (hy : oy < b.ofm.height) (hx : ox < b.ofm.width) (hc : oc < b.ofm.depth)
    (hdisj : ∀ y' x' c', y' < b.ofm.height → x' < b.ofm.width → c' < b.ofm.depth → (y', x', c') ≠ (oy, ox, oc) →
      fmAddr b.ofm oy ox oc + b.ofm.elemBytes ≤ fmAddr b.ofm y' x' c' ∨ fmAddr b.ofm y' x' c' + b.ofm.elemBytes ≤ fmAddr b.ofm oy ox oc) :
    ∃ (rounding : Rounding) (recs : List ScaleRec) (v : Int),
      Rounding.ofBits (b.ofmPrecision / 16384 % 4) = some rounding ∧
      (List.range b.ofm.depth).mapM (fun c => readScaleRec m b.scales ctx.ncores c) = .ok recs ∧
      applyActivation m ctx b (clamp (npuScale rounding
          (NpuSem.dwAcc b.ifm.height b.ifm.width (fun y x => memFm m b.ifm y x oc)
            ((b.kernelH - 1) / b.dilationY + 1) ((b.kernelW - 1) / b.dilationX + 1) (fun ky kx => w.at oc ky kx 0)
            b.strideY b.strideX b.dilationY b.dilationX b.padTop b.padLeft b.ifm.zeroPoint oy ox + (recs.toArray.getD oc default).bias)
          (recs.toArray.getD oc default).scale (recs.toArray.getD oc default).shift + b.ofm.zeroPoint) b.actMin b.actMax) = .ok v ∧
      m'.readElem b.ofm.region (fmAddr b.ofm oy ox oc) b.ofm.elemBytes b.ofm.signed = .ok (wrapElem b.ofm.elemBytes b.ofm.signed v) := by
  obtain ⟨rounding, l, out, hro, hg, hcb, hsc⟩ := exec_dw_block m m' ctx b regs w hk hu h
  obtain ⟨recs, hrecs, _, hdep, hvals⟩ := convBranch_dw_ok m ctx b w rounding l.toArray b.ifm.height b.ifm.width out hk hcb
  obtain ⟨v, hv1, hv2⟩ := hvals oy ox oc hy hx hc
  refine ⟨rounding, recs, v, hro, hrecs, ?_, ?_⟩
  · rw [← dwAcc_congr_inrange b.ifm.height b.ifm.width _ (fun y x => memFm m b.ifm y x oc)
      (fun y x h1 h2 => gather_getD m b.ifm l hg y x oc h1 h2 (by omega))]
    exact hv2
  · have := scatter_readback m m' b.ofm out.toArray s hslot hsz hsc oy ox oc hy hx hc hdisj
    rw [this]
    simp [Array.getD_eq_getD_getElem?, hv1]

/-! ### … and for pooling blocks -/

/-- the pooling branch of `execBlock`, inverted -/
theorem poolBranch_ok (m : Mem) (ctx : Ctx) (b : BlockOp) (rounding : Rounding) (gs : Bool) (ifm : Array Int) (H W : Nat)
    (out : List Int) (h : poolBranch m ctx b rounding gs ifm H W = .ok out) :
    ∃ scale shift : Nat,
      (gs = true → ∃ s, b.ofmScale = some s ∧ scale = lo32 s ∧ shift = hi6 s) ∧ (gs = false → scale = 1 ∧ shift = 0) ∧
      b.subOp ≤ 1 ∧ b.dilationX = 1 ∧ b.dilationY = 1 ∧
      ∀ oy ox oc, oy < b.ofm.height → ox < b.ofm.width → oc < b.ofm.depth →
        ∃ pv v, out[(oy * b.ofm.width + ox) * b.ofm.depth + oc]? = some v ∧
          poolValue b rounding gs scale shift
            (windowVals H W (fun y x => ifm.getD ((y * W + x) * b.ifm.depth + oc) 0) b.kernelH b.kernelW b.strideY b.strideX b.padTop b.padLeft oy ox) = .ok pv ∧
          applyActivation m ctx b (clamp pv b.actMin b.actMax) = .ok v := by
  unfold poolBranch at h
  simp only [] at h
  split at h
  · simp [throw, throwThe, MonadExcept.throw, bind, Except.bind] at h
  · rename_i hsub
    split at h
    · simp [throw, throwThe, MonadExcept.throw, bind, Except.bind] at h
    · rename_i hdil
      -- the scale selection
      have key : ∀ (sc sh : Nat),
          ((coords3 b.ofm.height b.ofm.width b.ofm.depth).mapM fun (e : Nat × Nat × Nat) => do
            let v ← poolValue b rounding gs sc sh
              (windowVals H W (fun y x => ifm.getD ((y * W + x) * b.ifm.depth + e.2.2) 0) b.kernelH b.kernelW b.strideY b.strideX b.padTop b.padLeft e.1 e.2.1)
            applyActivation m ctx b (clamp v b.actMin b.actMax)) = .ok out →
          ∀ oy ox oc, oy < b.ofm.height → ox < b.ofm.width → oc < b.ofm.depth →
            ∃ pv v, out[(oy * b.ofm.width + ox) * b.ofm.depth + oc]? = some v ∧
              poolValue b rounding gs sc sh
                (windowVals H W (fun y x => ifm.getD ((y * W + x) * b.ifm.depth + oc) 0) b.kernelH b.kernelW b.strideY b.strideX b.padTop b.padLeft oy ox) = .ok pv ∧
              applyActivation m ctx b (clamp pv b.actMin b.actMax) = .ok v := by
        intro sc sh hm oy ox oc hy hx hc
        have ⟨_, hg⟩ := mapM_except_get _ _ out hm
        obtain ⟨v, hv1, hv2⟩ := hg _ (oy, ox, oc) (coords3_get _ _ _ oy ox oc hy hx hc)
        simp only [] at hv2
        cases hp : poolValue b rounding gs sc sh
            (windowVals H W (fun y x => ifm.getD ((y * W + x) * b.ifm.depth + oc) 0) b.kernelH b.kernelW b.strideY b.strideX b.padTop b.padLeft oy ox) with
        | error e => rw [hp] at hv2; simp [bind, Except.bind] at hv2
        | ok pv =>
          rw [hp] at hv2
          simp only [bind, Except.bind] at hv2
          exact ⟨pv, v, hv1, rfl, hv2⟩
      have hd : b.dilationX = 1 ∧ b.dilationY = 1 := by
        constructor
        · by_cases h1 : b.dilationX = 1
          · exact h1
          · exact absurd (Or.inl h1) hdil
        · by_cases h1 : b.dilationY = 1
          · exact h1
          · exact absurd (Or.inr h1) hdil
      cases gs with
      | true =>
        simp only [if_true] at h
        cases hs : b.ofmScale with
        | none => rw [hs] at h; simp [throw, throwThe, MonadExcept.throw, bind, Except.bind] at h
        | some s =>
          rw [hs] at h
          simp only [bind, Except.bind, pure, Except.pure] at h
          refine ⟨lo32 s, hi6 s, ?_, ?_, ?_, hd.1, hd.2, key _ _ h⟩
          · intro _; exact ⟨s, rfl, rfl, rfl⟩
          · intro c; cases c
          · omega
      | false =>
        simp only [Bool.false_eq_true, if_false, bind, Except.bind, pure, Except.pure] at h
        refine ⟨1, 0, ?_, ?_, ?_, hd.1, hd.2, key _ _ h⟩
        · intro c; cases c
        · intro _; exact ⟨rfl, rfl⟩
        · omega


/-- `execBlock` on a pooling block without upscaling: rounding mode, gather, pooling branch, scatter -/
theorem exec_pool_block (m m' : Mem) (ctx : Ctx) (b : BlockOp) (regs : RegFile) (w : Option Weights)
    (hk : b.kind = .pool) (hu : b.upscale = 0) (h : execBlock m ctx b regs w = .ok m') :
    ∃ rounding l out, Rounding.ofBits (b.ofmPrecision / 16384 % 4) = some rounding ∧ gatherList m b.ifm = .ok l ∧
      poolBranch m ctx b rounding (decide (b.ofmPrecision / 256 % 2 = 1)) l.toArray b.ifm.height b.ifm.width = .ok out ∧
      scatter m b.ofm out.toArray = .ok m' := by
  unfold execBlock at h
  simp only [hk, hu, show ¬ ((0 : Nat) > 2) by decide, ne_eq, not_true_eq_false, false_and, if_false, if_true, pure_bind] at h
  split at h
  · simp [throw, throwThe, MonadExcept.throw, bind, Except.bind] at h
  · split at h
    · simp [throw, throwThe, MonadExcept.throw, bind, Except.bind] at h
    · split at h
      · rename_i rounding hro
        unfold gather at h
        cases hg : gatherList m b.ifm with
        | error e => rw [hg] at h; simp [bind, Except.bind] at h
        | ok l =>
          rw [hg] at h
          simp only [bind, Except.bind, pure, Except.pure] at h
          cases hc : poolBranch m ctx b rounding (decide (b.ofmPrecision / 256 % 2 = 1)) l.toArray b.ifm.height b.ifm.width with
          | error e => rw [hc] at h; simp at h
          | ok out =>
            rw [hc] at h
            exact ⟨rounding, l, out, hro, rfl, hc, h⟩
      · simp [throw, throwThe, MonadExcept.throw] at h

/-- **A pooling block, end to end**: after a successful `execBlock` every OFM element (sharing no byte with another) holds the
    activation of the clamped pooling value (`poolValue`: maximum of the valid window elements minus IFM plus OFM zero point, or
    the scaled / divided sum) of the window over the memory contents at the IFM addresses, channel `oc`. With
    `pool_stripe_max_eq` / `pool_stripe_avg_eq` the window is the reference's window of the whole tensor. -/
theorem exec_pool_block_correct (m m' : Mem) (ctx : Ctx) (b : BlockOp) (regs : RegFile) (w : Option Weights) (s : Nat)
    (hk : b.kind = .pool) (hu : b.upscale = 0) (h : execBlock m ctx b regs w = .ok m')
    (hslot : regionSlot b.ofm.region = some s) (hsz : s < m.regions.size)
    (oy ox oc : Nat) (hy : oy < b.ofm.height) (hx : ox < b.ofm.width) (hc : oc < b.ofm.depth) (hci : oc < b.ifm.depth)
    (hdisj : ∀ y' x' c', y' < b.ofm.height → x' < b.ofm.width → c' < b.ofm.depth → (y', x', c') ≠ (oy, ox, oc) →
      fmAddr b.ofm oy ox oc + b.ofm.elemBytes ≤ fmAddr b.ofm y' x' c' ∨ fmAddr b.ofm y' x' c' + b.ofm.elemBytes ≤ fmAddr b.ofm oy ox oc) :
    ∃ (rounding : Rounding) (scale shift : Nat) (pv v : Int),
      Rounding.ofBits (b.ofmPrecision / 16384 % 4) = some rounding ∧
      poolValue b rounding (decide (b.ofmPrecision / 256 % 2 = 1)) scale shift
        (windowVals b.ifm.height b.ifm.width (fun y x => memFm m b.ifm y x oc) b.kernelH b.kernelW b.strideY b.strideX b.padTop b.padLeft oy ox) = .ok pv ∧
      applyActivation m ctx b (clamp pv b.actMin b.actMax) = .ok v ∧
      m'.readElem b.ofm.region (fmAddr b.ofm oy ox oc) b.ofm.elemBytes b.ofm.signed = .ok (wrapElem b.ofm.elemBytes b.ofm.signed v) := by
  obtain ⟨rounding, l, out, hro, hg, hpb, hsc⟩ := exec_pool_block m m' ctx b regs w hk hu h
  obtain ⟨scale, shift, _, _, _, _, _, hvals⟩ := poolBranch_ok m ctx b rounding _ l.toArray b.ifm.height b.ifm.width out hpb
  obtain ⟨pv, v, hv1, hv2, hv3⟩ := hvals oy ox oc hy hx hc
  refine ⟨rounding, scale, shift, pv, v, hro, ?_, hv3, ?_⟩
  · rw [← windowVals_congr_inrange b.ifm.height b.ifm.width _ (fun y x => memFm m b.ifm y x oc)
      (fun y x h1 h2 => gather_getD m b.ifm l hg y x oc h1 h2 hci)]
    exact hv2
  · have := scatter_readback m m' b.ofm out.toArray s hslot hsz hsc oy ox oc hy hx hc hdisj
    rw [this]
    simp [Array.getD_eq_getD_getElem?, hv1]

/-! ### … and for elementwise blocks -/


/-- the elementwise branch of `execBlock`, inverted -/
theorem ewBranch_ok (m : Mem) (ctx : Ctx) (b : BlockOp) (regs : RegFile) (rounding : Rounding) (gs : Bool) (ifm : Array Int) (W : Nat)
    (out : List Int) (h : ewBranch m ctx b regs rounding gs ifm W = .ok out) :
    ∃ op2, ewOperand2 m b regs = .ok op2 ∧ b.subOp ≤ 6 ∧
      ∀ oy ox oc, oy < b.ofm.height → ox < b.ofm.width → oc < b.ofm.depth →
        ∃ pv v, out[(oy * b.ofm.width + ox) * b.ofm.depth + oc]? = some v ∧
          (let x1 := ifm.getD ((oy * W + ox) * b.ifm.depth + oc) 0 - b.ifm.zeroPoint
           let x2 := ewX2 b op2 (s16 (regs.get0D IFM2_ZERO_POINT 0)) oy ox oc
           (if b.ifm2Broadcast / 64 % 2 = 1 then ewValue b rounding gs x2 x1 else ewValue b rounding gs x1 x2) = .ok pv) ∧
          applyActivation m ctx b (clamp pv b.actMin b.actMax) = .ok v := by
  unfold ewBranch at h
  simp only [] at h
  split at h
  · simp [throw, throwThe, MonadExcept.throw, bind, Except.bind] at h
  · rename_i hmode
    cases ho : ewOperand2 m b regs with
    | error e => rw [ho] at h; simp [bind, Except.bind] at h
    | ok op2 =>
      rw [ho] at h
      simp only [bind, Except.bind] at h
      refine ⟨op2, rfl, by omega, ?_⟩
      intro oy ox oc hy hx hc
      have ⟨_, hg⟩ := mapM_except_get _ _ out h
      obtain ⟨v, hv1, hv2⟩ := hg _ (oy, ox, oc) (coords3_get _ _ _ oy ox oc hy hx hc)
      simp only [] at hv2
      by_cases hrv : b.ifm2Broadcast / 64 % 2 = 1
      · simp only [hrv, if_true] at hv2 ⊢
        cases hp : ewValue b rounding gs (ewX2 b op2 (s16 (regs.get0D IFM2_ZERO_POINT 0)) oy ox oc) (ifm.getD ((oy * W + ox) * b.ifm.depth + oc) 0 - b.ifm.zeroPoint) with
        | error e => rw [hp] at hv2; simp at hv2
        | ok pv =>
          rw [hp] at hv2
          simp only [] at hv2
          exact ⟨pv, v, hv1, rfl, hv2⟩
      · simp only [hrv, if_false] at hv2 ⊢
        cases hp : ewValue b rounding gs (ifm.getD ((oy * W + ox) * b.ifm.depth + oc) 0 - b.ifm.zeroPoint) (ewX2 b op2 (s16 (regs.get0D IFM2_ZERO_POINT 0)) oy ox oc) with
        | error e => rw [hp] at hv2; simp at hv2
        | ok pv =>
          rw [hp] at hv2
          simp only [] at hv2
          exact ⟨pv, v, hv1, rfl, hv2⟩

/-- `execBlock` on an elementwise block: rounding mode, gather, elementwise branch, scatter -/
theorem exec_ew_block (m m' : Mem) (ctx : Ctx) (b : BlockOp) (regs : RegFile) (w : Option Weights)
    (hk : b.kind = .elementwise) (hu : b.upscale = 0) (h : execBlock m ctx b regs w = .ok m') :
    ∃ rounding l out, Rounding.ofBits (b.ofmPrecision / 16384 % 4) = some rounding ∧ gatherList m b.ifm = .ok l ∧
      ewBranch m ctx b regs rounding (decide (b.ofmPrecision / 256 % 2 = 1)) l.toArray b.ifm.width = .ok out ∧
      scatter m b.ofm out.toArray = .ok m' := by
  unfold execBlock at h
  simp only [hk, hu, show ¬ ((0 : Nat) > 2) by decide, ne_eq, not_true_eq_false, false_and, if_false, if_true, pure_bind] at h
  split at h
  · simp [throw, throwThe, MonadExcept.throw, bind, Except.bind] at h
  · split at h
    · simp [throw, throwThe, MonadExcept.throw, bind, Except.bind] at h
    · split at h
      · rename_i rounding hro
        unfold gather at h
        cases hg : gatherList m b.ifm with
        | error e => rw [hg] at h; simp [bind, Except.bind] at h
        | ok l =>
          rw [hg] at h
          simp only [bind, Except.bind, pure, Except.pure] at h
          cases hc : ewBranch m ctx b regs rounding (decide (b.ofmPrecision / 256 % 2 = 1)) l.toArray b.ifm.width with
          | error e => rw [hc] at h; simp at h
          | ok out =>
            rw [hc] at h
            exact ⟨rounding, l, out, hro, rfl, hc, h⟩
      · simp [throw, throwThe, MonadExcept.throw] at h


/-- **An elementwise block, end to end**: after a successful `execBlock` every OFM element (sharing no byte with another) holds
    the activation of the clamped `ewValue` (MUL / ADD / SUB / MIN / MAX / LRELU / ABS with the OFM / OPA / OPB scales of the
    registers) of the first operand read from memory at the IFM address of that element and the second operand `ewX2`
    (`ewOperand2_tensor`: also read from memory when it is a tensor), zero points removed, operands swapped when the
    registers say so. `npu_add_eq_ref` relates the ADD / SUB value to the reference. -/
theorem exec_ew_block_correct (m m' : Mem) (ctx : Ctx) (b : BlockOp) (regs : RegFile) (w : Option Weights) (s : Nat)
    (hk : b.kind = .elementwise) (hu : b.upscale = 0) (h : execBlock m ctx b regs w = .ok m')
    (hslot : regionSlot b.ofm.region = some s) (hsz : s < m.regions.size)
    (oy ox oc : Nat) (hy : oy < b.ofm.height) (hx : ox < b.ofm.width) (hc : oc < b.ofm.depth)
    (hyi : oy < b.ifm.height) (hxi : ox < b.ifm.width) (hci : oc < b.ifm.depth)
    (hdisj : ∀ y' x' c', y' < b.ofm.height → x' < b.ofm.width → c' < b.ofm.depth → (y', x', c') ≠ (oy, ox, oc) →
      fmAddr b.ofm oy ox oc + b.ofm.elemBytes ≤ fmAddr b.ofm y' x' c' ∨ fmAddr b.ofm y' x' c' + b.ofm.elemBytes ≤ fmAddr b.ofm oy ox oc) :
    ∃ (rounding : Rounding) (op2 : Array Int × Nat × Nat × Nat) (pv v : Int),
      Rounding.ofBits (b.ofmPrecision / 16384 % 4) = some rounding ∧ ewOperand2 m b regs = .ok op2 ∧
      (let x1 := memFm m b.ifm oy ox oc - b.ifm.zeroPoint
       let x2 := ewX2 b op2 (s16 (regs.get0D IFM2_ZERO_POINT 0)) oy ox oc
       (if b.ifm2Broadcast / 64 % 2 = 1 then ewValue b rounding (decide (b.ofmPrecision / 256 % 2 = 1)) x2 x1
        else ewValue b rounding (decide (b.ofmPrecision / 256 % 2 = 1)) x1 x2) = .ok pv) ∧
      applyActivation m ctx b (clamp pv b.actMin b.actMax) = .ok v ∧
      m'.readElem b.ofm.region (fmAddr b.ofm oy ox oc) b.ofm.elemBytes b.ofm.signed = .ok (wrapElem b.ofm.elemBytes b.ofm.signed v) := by
  obtain ⟨rounding, l, out, hro, hg, heb, hsc⟩ := exec_ew_block m m' ctx b regs w hk hu h
  obtain ⟨op2, hop, _, hvals⟩ := ewBranch_ok m ctx b regs rounding _ l.toArray b.ifm.width out heb
  obtain ⟨pv, v, hv1, hv2, hv3⟩ := hvals oy ox oc hy hx hc
  refine ⟨rounding, op2, pv, v, hro, hop, ?_, hv3, ?_⟩
  · rw [← gather_getD m b.ifm l hg oy ox oc hyi hxi hci]
    exact hv2
  · have := scatter_readback m m' b.ofm out.toArray s hslot hsz hsc oy ox oc hy hx hc hdisj
    rw [this]
    simp [Array.getD_eq_getD_getElem?, hv1]

/-- the second operand, when it is a tensor: the gathered box of its feature-map registers, so that `ewX2` reads the memory
    contents at the IFM2 addresses (with broadcasting over the dimensions of extent 1) -/
theorem ewOperand2_tensor (m : Mem) (b : BlockOp) (regs : RegFile) (fm : FM) (op2 : Array Int × Nat × Nat × Nat)
    (hfm : b.ifm2 = some fm) (h : ewOperand2 m b regs = .ok op2) :
    op2.2 = (fm.height, fm.width, fm.depth) ∧
    ∀ y x c, y < fm.height → x < fm.width → c < fm.depth → op2.1.getD ((y * fm.width + x) * fm.depth + c) 0 = memFm m fm y x c := by
  unfold ewOperand2 at h
  rw [hfm] at h
  simp only [] at h
  unfold gather at h
  cases hg : gatherList m fm with
  | error e => rw [hg] at h; simp [bind, Except.bind] at h
  | ok l =>
    rw [hg] at h
    simp only [bind, Except.bind, pure, Except.pure] at h
    cases h
    exact ⟨rfl, fun y x c hy hx hc => gather_getD m fm l hg y x c hy hx hc⟩

/-- non-vacuity: the block of `Lemmas/Exec.lean` (1x2x1 int8 IFM [5, -6], 1x1 kernel of weight 3, bias 1, unit scale) executes
    and leaves [16, -17] in the OFM bytes -/
example : (match execBlock exMem ⟨1, 0⟩ exBlock default (some exW) with
    | .ok m' => (m'.regions.getD 1 ByteArray.empty).data.toList.map (·.toNat) | .error _ => []) = [5, 250, 0, 0, 16, 239, 0, 0] := by
  decide +kernel


/-- **From the executor's value to the reference kernel's value.** The value `exec_conv_block_correct` puts into the OFM (before
    the activation function, TFL rounding) for a stripe is the value `TfliteRef.conv2d` computes for that output element of the
    whole tensor — `clamp (MultiplyByQuantizedMultiplier (acc + bias) mult shift' + output zero point)` — when the C10 stripe equations
    hold and the scale record carries the reference multiplier with `shift' = 31 - shift`. -/
theorem conv_value_eq_reference (H W C h a oy0 pt pt' pl kh kw sy sx dy dx : Nat)
    (ifm : Nat → Nat → Nat → Int) (wgt : Nat → Nat → Nat → Int) (zp bias scale ozp lo hi : Int) (shift : Nat) (oy ox : Nat)
    (hs : 0 ≤ scale)
    (hfield : (a : Int) - pt' = (oy0 : Int) * sy - pt)
    (hrow : ∀ ky, ky < kh →
      ((pt' ≤ oy * sy + ky * dy ∧ oy * sy + ky * dy - pt' < h) ↔
       (0 ≤ (((oy0 + oy) * sy + ky * dy : Nat) : Int) - pt ∧ (((oy0 + oy) * sy + ky * dy : Nat) : Int) - pt < H))) :
    clamp (npuScale .tfl (NpuSem.convAcc h W C (fun y x c => ifm (a + y) x c) kh kw wgt sy sx dy dx pt' pl zp oy ox + bias) scale shift + ozp) lo hi =
    clamp (requant false (TfliteRef.convAcc H W C ifm kh kw wgt sy sx dy dx pt pl (-zp) (oy0 + oy) ox + bias) scale (31 - (shift : Int)) + ozp) lo hi := by
  rw [conv_stripe_eq H W C h a oy0 pt pt' pl kh kw sy sx dy dx ifm wgt zp oy ox hfield hrow]
  simp only [npuScale, requant]
  rw [npuScaleTfl_eq_mbqm _ scale shift hs]
  rfl

example : clamp (npuScale .tfl (NpuSem.convAcc 4 4 2 (fun y x c => ((((2 + y) * 7 + x * 3 + c : Nat)) : Int)) 3 3 (fun ky kx c => (ky : Int) - kx + c) 1 1 1 1 0 1 5 1 2 + 9) 1518500250 35 + 3) (-128) 127 =
    clamp (requant false (TfliteRef.convAcc 6 4 2 (fun y x c => (((y * 7 + x * 3 + c : Nat)) : Int)) 3 3 (fun ky kx c => (ky : Int) - kx + c) 1 1 1 1 1 1 (-5) (3 + 1) 2 + 9) 1518500250 (31 - 35) + 3) (-128) 127 := by
  decide

end VelaVerif.Props.C01
