import VelaVerif.Spec.NpuSem
/-!
# C01 — the compiled model computes the same function as the source model

Run-time verdict: `Handlers/Sem.lean` executes source and output model and compares (translation
validation). Theorems: facts about the machinery that executes.
-/
namespace VelaVerif.Props.C01
open VelaVerif.Requant

/-- `SaturatingRoundingDoublingHighMul` is `⌊(a·b + 2^30) / 2^31⌋` (round to nearest, ties towards +∞)
    outside its single saturating case -/
theorem srdhm_eq_floor (a b : Int) (h : ¬ (a = INT32_MIN ∧ b = INT32_MIN)) :
    srdhm a b = (a * b + 1073741824) / 2147483648 := by
  unfold srdhm
  rw [if_neg h]
  generalize a * b = p
  by_cases hp : p ≥ 0
  · simp only [hp, if_true]
    rw [Int.tdiv_eq_ediv_of_nonneg (by omega)]
  · simp only [hp, if_false]
    rw [Int.tdiv_eq_ediv]
    have hs : Int.sign 2147483648 = 1 := by decide
    rw [hs]
    split
    · rename_i h
      rcases h with h | h <;> omega
    · rename_i h
      have h2 : ¬ (2147483648 : Int) ∣ p + (1 - 1073741824) := fun hh => h (Or.inr hh)
      omega

end VelaVerif.Props.C01
