import VelaVerif.Lemmas.Sem
import VelaVerif.Spec.NpuWide
/-!
# C01 — the 32-bit elementwise arithmetic of the executor is the gemmlowp arithmetic of the reference SOFTMAX

`Spec/NpuWide.lean` gives a meaning to the elementwise operations on 32-bit feature maps that Vela's SOFTMAX
decomposition (`softmax.py`) is made of (assumptions A7–A12 of `design.d/C01.md`). The theorems below show that,
under those rules, each building block of the decomposition *is* the gemmlowp / TensorFlow Lite primitive the
reference kernel (`Spec/SoftmaxKernel.lean`) uses at the same place — for all operand values, not for the tested ones:

* MUL of two 32-bit operands with shift 31 and "TFL" rounding = `SaturatingRoundingDoublingHighMul`
  (passes 11, 13, 15, 29 of the 8-bit decomposition);
* SHR with "NATURAL" rounding of a non-negative value = `RoundingDivideByPOT` (passes 2 and 30);
* ADD with shift 1 of a non-negative sum = `RoundingHalfSum` (pass 10);
* pass 29 followed by pass 30 = `RoundingDivideByPOT((shifted_scale * exp_in_0).raw(), n)` of the reference.

The whole 31-operation program (as `softmax.py` builds it, `Model/SoftmaxGraph.lean`) is proved equal to `softmaxRow8` in
`Props/C01Softmax.softmax8_decomposition_eq_reference`; that the compiled *stream* is that program is what the execution in
`check_C01` compares, bit for bit (the stream is data, not a Lean term).
-/
namespace VelaVerif.Props.C01Wide
open VelaVerif.Requant VelaVerif.Lemmas.Sem

/-- **32-bit MUL, shift 31, TFL rounding = SaturatingRoundingDoublingHighMul** (outside its one saturating case,
    where gemmlowp returns INT32_MAX and the executor saturates the OFM value `2^31` to INT32_MAX as well, see
    `mul32_saturating_case`). The OFM scale multiplier does not take part (assumption A9). -/
theorem mul32_tfl_eq_srdhm (a b : Int) (h : ¬ (a = INT32_MIN ∧ b = INT32_MIN)) :
    npuScale .tfl (a * b) 1 31 = srdhm a b := by
  rw [srdhm_floor a b h]
  simp only [npuScale, npuScaleTfl, show (31 : Nat) ≥ 31 by omega, if_true, Nat.sub_self, Int.pow_zero, Int.mul_one,
    Int.ediv_one, Int.emod_one]
  simp

/-- the saturating case: the executor's value is `2^31`, which `finishWide` saturates to INT32_MAX = gemmlowp's answer -/
theorem mul32_saturating_case :
    clamp (npuScale .tfl (INT32_MIN * INT32_MIN) 1 31) NpuWide.INT32_LO NpuWide.INT32_HI = srdhm INT32_MIN INT32_MIN := by
  decide

/-- **SHR with NATURAL rounding of a non-negative value = RoundingDivideByPOT** -/
theorem shr_natural_eq_rdivpot (v : Int) (s : Nat) (hv : 0 ≤ v) : npuScale .natural v 1 s = rdivpot v s := by
  rw [rdivpot_cases]
  simp only [npuScale, npuScaleNatural, Int.mul_one]
  cases s with
  | zero =>
    simp only [if_true, Int.pow_zero, Int.emod_one, Int.ediv_one]
    simp
  | succ k =>
    simp only [show ¬ (k + 1 = 0) by omega, if_false, Nat.add_sub_cancel]
    have hp := two_pow_succ k
    have hpos := two_pow_pos k
    generalize hP : (2 : Int) ^ (k + 1) = P at *
    generalize hP' : (2 : Int) ^ k = P' at *
    have hPne : P ≠ 0 := by omega
    have hr0 : 0 ≤ v % P := Int.emod_nonneg v hPne
    have hr1 : v % P < P := Int.emod_lt_of_pos v (by omega)
    have hv' : v = P * (v / P) + v % P := (Int.mul_ediv_add_emod v P).symm
    have hx : ¬ (v < 0) := by omega
    generalize hq : v / P = q at *
    generalize hrr : v % P = r at *
    have hsplit : (v + P') / P = (r + P') / P + q := by
      rw [hv', show P * q + r + P' = (r + P') + P * q by omega, Int.add_mul_ediv_left _ _ hPne]
    rw [hsplit]
    by_cases hlt : r + P' < P
    · have h0 : (r + P') / P = 0 := Int.ediv_eq_zero_of_lt (by omega) hlt
      rw [h0]
      simp only [hx, if_false]
      split <;> (try split) <;> omega
    · have h1 : (r + P') / P = 1 := by
        have : r + P' = (r + P' - P) + P * 1 := by omega
        rw [this, Int.add_mul_ediv_left _ _ hPne, Int.ediv_eq_zero_of_lt (by omega) (by omega)]
        rfl
      rw [h1]
      simp only [hx, if_false]
      split <;> (try split) <;> omega

/-- **32-bit ADD with shift 1 (TFL rounding) of a non-negative sum = RoundingHalfSum** (`(a + b + 1) / 2`, C division) -/
theorem add32_shift1_eq_halfsum (a b : Int) (h : 0 ≤ a + b) : npuScale .tfl (a + b) 1 1 = Int.tdiv (a + b + 1) 2 := by
  rw [Int.tdiv_eq_ediv_of_nonneg (by omega)]
  simp only [npuScale, npuScaleTfl, show ¬ ((1 : Nat) ≥ 31) by omega, if_false, Int.mul_one]
  have h30 : (2 : Int) ^ (31 - 1) = 1073741824 := by decide
  rw [h30]
  generalize a + b = s at *
  omega

/-- **Passes 29 + 30 of the 8-bit decomposition = the reference's output expression**: the 32-bit MUL of the
    reciprocal `scale` and the exponential `e` (both non-negative, as they are in SOFTMAX) followed by SHR with NATURAL
    rounding is `RoundingDivideByPOT(SaturatingRoundingDoublingHighMul(scale, e), n)`. -/
theorem softmax_pass29_30 (scale e : Int) (n : Nat) (hs : 0 ≤ scale) (he : 0 ≤ e) :
    npuScale .natural (npuScale .tfl (scale * e) 1 31) 1 n = rdivpot (srdhm scale e) n := by
  have hns : ¬ (scale = INT32_MIN ∧ e = INT32_MIN) := by
    intro h
    have : scale = -2147483648 := h.1
    omega
  rw [mul32_tfl_eq_srdhm scale e hns]
  apply shr_natural_eq_rdivpot
  rw [srdhm_floor scale e hns]
  have : 0 ≤ scale * e := Int.mul_nonneg hs he
  omega

-- non-vacuity: concrete non-trivial instances
example : npuScale .tfl (1515870810 * (-1010580540)) 1 31 = srdhm 1515870810 (-1010580540) := by decide
example : npuScale .natural 2147483647 1 12 = rdivpot 2147483647 12 := by decide
example : npuScale .tfl (123456789 + 2147483647) 1 1 = Int.tdiv (123456789 + 2147483647 + 1) 2 := by decide
example : npuScale .natural (npuScale .tfl (1234567890 * 987654321) 1 31) 1 27 = rdivpot (srdhm 1234567890 987654321) 27 := by decide

end VelaVerif.Props.C01Wide
