import VelaVerif.Lemmas.Serialise
import VelaVerif.Lemmas.AllocLinear
import VelaVerif.Spec.Serialise
/-!
# C12 (second sentence) / C02 (published extents) — the serialiser and the reported figures

Models: `Model/Serialise.lean` (`npu_serialisation.py`, the sizing in `compiler_driver`), `Model/Reported.lean`
(`allocate_tensors` bookkeeping, `stats_writer` memory columns).  Lemmas: `Lemmas/Serialise.lean`.
All statements are over unbounded inputs.  Allocation facts enter as hypotheses in the form `Props/C05` proves them
(`linear_disjoint` / `linear_total` for the constants, `*_total` / `IsHighestEnd` for the arena): every range ends below the
total, ranges are disjoint unless declared equivalent and placed at one address.
-/
namespace VelaVerif.Props.C12Serial
open VelaVerif VelaVerif.Serialise VelaVerif.Reported

/-! ## (a) the constants tensor -/

/-- **flash_bytes_are_tensor_bytes**.  First NPU subgraph (the one all constants are allocated to).  Hypotheses, per constant the
    subgraph copies (`sgItems`: encoded weights, encoded scales, constant IFM / IFM2, LUT tensors, in code order):
    `hin` it is in place (address known, values exist, an encoded stream is as long as its storage size) and ends inside
    `memory_used[permanent area]` — C05 `linear_total`: every range ends below the total;
    `hdis` two of them are byte-disjoint or the same range with the same bytes — C05 `linear_disjoint`: ranges are disjoint unless
    declared equivalent (one weight-compression config / one equivalence id) and then share the address.
    Then the serialiser succeeds only with a constants tensor of exactly `memory_used[permanent area]` bytes that holds the bytes of
    every constant at `[address, address + length)` and zero everywhere else. -/
theorem flash_bytes_are_tensor_bytes (arch : Arch) (sg : Sg) (r : Result) (hnpu : sg.isNpu = true)
    (h : serialise arch sg none none none = .ok r)
    (hin : ∀ it ∈ sgItems sg, ∃ c, it.copy? = some c ∧ c.1 + c.2.length ≤ dictGet sg.memoryUsed arch.flashArea)
    (hdis : (copies (sgItems sg)).Pairwise Compatible) :
    ∃ fl vals, r.flash = some fl ∧ fl.values = some vals ∧
      fl.size = dictGet sg.memoryUsed arch.flashArea ∧ vals.length = fl.size ∧
      fl.memArea = arch.flashArea ∧ fl.memType = .permanentCPU ∧
      (∀ c ∈ copies (sgItems sg), ∀ j, j < c.2.length → vals[c.1 + j]? = c.2[j]?) ∧
      (∀ i, i < fl.size → (∀ c ∈ copies (sgItems sg), Outside c i) → vals[i]? = some 0) := by
  unfold serialise at h
  simp only [hnpu, Bool.not_true, Bool.false_eq_true, if_false] at h
  cases hp : Payload.createDriverPayload arch.acc sg.words with
  | error e => rw [hp] at h; cases h
  | ok payload =>
    rw [hp] at h
    simp only [Option.isNone_none, Bool.and_self, if_true, mkMem] at h
    have hin' : ∀ it ∈ sgItems sg, ∃ c, it.copy? = some c ∧
        c.1 + c.2.length ≤ (List.replicate (dictGet sg.memoryUsed arch.flashArea) 0).length := by
      simpa using hin
    rw [applyItems_writes _ _ hin'] at h
    simp only [Except.ok.injEq] at h
    subst h
    have hcs : ∀ c ∈ copies (sgItems sg), c.1 + c.2.length ≤ dictGet sg.memoryUsed arch.flashArea := by
      intro c hc
      obtain ⟨it, hit, hcopy⟩ := List.mem_filterMap.1 hc
      obtain ⟨c', hc', hle⟩ := hin it hit
      rw [hcopy] at hc'; cases hc'; exact hle
    refine ⟨_, _, rfl, rfl, rfl, ?_, rfl, rfl, ?_, ?_⟩
    · rw [writes_length _ _ (by simpa using hcs)]; simp
    · exact writes_hold _ _ (by simpa using hcs) hdis
    · intro i hi hout
      exact writes_zero _ _ hcs i hi hout

/-- what "its bytes" are for a constant feature map with elements wider than one byte: every element as `itemsize` little-endian
    bytes of its two's complement (value `v mod 256^itemsize`, every byte below 256); for one-byte element types one byte per
    element, the value modulo 256 -/
theorem const_bytes_little_endian (t : Fm) (vals : List Int) :
    (t.dtypeSize > 1 → fmBytes t vals = vals.flatMap (leBytes t.itemSize)) ∧
    (¬ t.dtypeSize > 1 → fmBytes t vals = vals.map toU8) ∧
    (∀ n v, (leBytes n v).length = n ∧ ofLE (leBytes n v) = (v % (256 : Int) ^ n).toNat % 256 ^ n ∧ ∀ b ∈ leBytes n v, b < 256) := by
  refine ⟨fun h => by simp [fmBytes, h], fun h => by simp [fmBytes, h], fun n v => ⟨leBytes_length n v, ofLE_leNat _ _, leNat_lt _ _⟩⟩

/-- an encoded stream that is not as long as the storage size the slice is taken with is rejected, unless it is one byte long
    (NumPy broadcasts a one-element source) -/
theorem compressed_length_checked (mem : List Nat) (t : Comp) (a : Nat) (m : List Nat) (ha : t.address = some a)
    (hin : a + t.storageSize ≤ mem.length) (h : copyCompressed mem t = .ok m) :
    t.buffer.length = t.storageSize ∨ t.buffer.length = 1 := by
  unfold copyCompressed setSlice at h
  rw [ha] at h
  have h1 : min a mem.length = a := by omega
  have h2 : min (a + t.storageSize) mem.length = a + t.storageSize := by omega
  have h3 : max a (a + t.storageSize) = a + t.storageSize := by omega
  simp only [h1, h2, h3] at h
  have h4 : a + t.storageSize - a = t.storageSize := by omega
  rw [h4] at h
  by_cases hl : t.buffer.length = t.storageSize
  · exact Or.inl hl
  · by_cases hl1 : t.buffer.length = 1
    · exact Or.inr hl1
    · simp [hl, hl1] at h

/-- the broadcast case exists: a one-byte stream with storage size 16 fills sixteen bytes -/
theorem compressed_length_checked_witness :
    copyCompressed (List.replicate 16 0) ⟨some 0, 16, [7]⟩ = .ok (List.replicate 16 7) := by rfl

/-- the constants ranges as `Props/C05` speaks of them: placed entries `ps` that are conflict free when all alive together (the
    linear live-range graph of the permanent area; `linear_disjoint` holds for every choice of times) give `Compatible` copies,
    when copy `k` is the content of entry `idx k` and copies of one entry, or of entries declared equivalent, hold the same bytes
    (the encoder's cache returns one tensor per configuration: C08) -/
theorem compatible_of_alloc (cs : List Copy) (ps : List Spec.Alloc.Placed) (idx : Nat → Nat)
    (hidx : ∀ k, k < cs.length → idx k < ps.length)
    (hno : Spec.Alloc.NoOverlap ps) (hlive : ∀ p ∈ ps, p.start = 0 ∧ p.end_ = 0)
    (hmatch : ∀ k (hk : k < cs.length), (ps[idx k]'(hidx k hk)).addr = cs[k].1 ∧ cs[k].2.length ≤ (ps[idx k]'(hidx k hk)).size)
    (hshared : ∀ k l (hk : k < cs.length) (hl : l < cs.length),
      (idx k = idx l ∨ Spec.Alloc.Shared (ps[idx k]'(hidx k hk)) (ps[idx l]'(hidx l hl))) → cs[k].2 = cs[l].2) :
    cs.Pairwise Compatible := by
  rw [List.pairwise_iff_getElem]
  intro k l hk hl hkl
  obtain ⟨a1, l1⟩ := hmatch k hk
  obtain ⟨a2, l2⟩ := hmatch l hl
  have same : ∀ (_ : (ps[idx k]'(hidx k hk)).addr = (ps[idx l]'(hidx l hl)).addr) (_ : cs[k].2 = cs[l].2), Compatible cs[k] cs[l] := by
    intro ha hb
    right; right
    exact Prod.ext (by rw [← a1, ← a2]; exact ha) hb
  by_cases he : idx k = idx l
  · have hb := hshared k l hk hl (Or.inl he)
    have ha : (ps[idx k]'(hidx k hk)).addr = (ps[idx l]'(hidx l hl)).addr := by simp only [he]
    exact same ha hb
  · have hlive' : ∀ (i j : Nat) (hi : i < ps.length) (hj : j < ps.length), Spec.Alloc.LiveTogether ps[i] ps[j] := by
      intro i j hi hj
      have h1 := hlive ps[i] (List.getElem_mem hi)
      have h2 := hlive ps[j] (List.getElem_mem hj)
      exact ⟨0, ⟨by omega, by omega⟩, ⟨by omega, by omega⟩⟩
    have hpw := List.pairwise_iff_getElem.1 hno
    have hconf : Spec.Alloc.Disjoint (ps[idx k]'(hidx k hk)) (ps[idx l]'(hidx l hl)) ∨
        Spec.Alloc.Shared (ps[idx k]'(hidx k hk)) (ps[idx l]'(hidx l hl)) := by
      rcases Nat.lt_or_gt_of_ne he with hlt | hgt
      · exact hpw _ _ (hidx k hk) (hidx l hl) hlt (hlive' _ _ _ _)
      · rcases hpw _ _ (hidx l hl) (hidx k hk) hgt (hlive' _ _ _ _) with hd | hs
        · left; unfold Spec.Alloc.Disjoint at hd ⊢; omega
        · right; exact ⟨fun h0 => hs.1 (by rw [hs.2.1]; exact h0), hs.2.1.symm, hs.2.2.symm⟩
    rcases hconf with hd | hs
    · unfold Spec.Alloc.Disjoint at hd
      unfold Compatible
      rcases hd with hd | hd
      · left; omega
      · right; left; omega
    · exact same hs.2.2 (hshared k l hk hl (Or.inr hs))

open VelaVerif.Alloc in
/-- the hypotheses of `flash_bytes_are_tensor_bytes` from the LinearAlloc model of C05 (`Model/Alloc.linear`, theorems
    `linear_disjoint` / `linear_total` through their invariant): when the constants are placed by `linear_allocate_live_ranges`,
    copy `k` is the content of range `idx k` (at the range's address, not longer than the range), and copies of one range or of
    ranges declared equivalent (one class) hold the same bytes, then the copies are pairwise compatible and end below the
    total, which is what `allocate_tensors` stores in `memory_used[permanent area]`. -/
theorem flash_layout_from_linear (sizes : List Nat) (tens : List LTens) (cls : Nat → Nat) (gran : Nat)
    (hg : 0 < gran) (hyp : LinHyp sizes tens cls) (addrs : List (Nat × Nat)) (total : Nat)
    (h : linear sizes tens gran = .ok (addrs, total))
    (cs : List Copy) (idx : Nat → Nat) (hidx : ∀ k, k < cs.length → idx k < addrs.length)
    (hmatch : ∀ k (hk : k < cs.length), (addrs[idx k]'(hidx k hk)).2 = cs[k].1 ∧
      cs[k].2.length ≤ szOf sizes (addrs[idx k]'(hidx k hk)).1)
    (hshared : ∀ k l (hk : k < cs.length) (hl : l < cs.length),
      (idx k = idx l ∨ (cls (addrs[idx k]'(hidx k hk)).1 ≠ 0 ∧ cls (addrs[idx k]'(hidx k hk)).1 = cls (addrs[idx l]'(hidx l hl)).1)) →
      cs[k].2 = cs[l].2) :
    cs.Pairwise Compatible ∧ ∀ c ∈ cs, c.1 + c.2.length ≤ total := by
  obtain ⟨alloc, fresh, inv⟩ := linear_inv sizes tens cls gran hyp addrs total h
  let times : Nat → Nat × Nat := fun _ => (0, 0)
  have hno : Spec.Alloc.NoOverlap (addrs.map (linPlaced sizes times cls gran)) :=
    List.Pairwise.imp (R := fun a b => Spec.Alloc.Disjoint a b ∨ Spec.Alloc.Shared a b) (S := Spec.Alloc.NoConflict)
      (fun h _ => h) (linInv_noOverlap sizes tens cls gran hg _ fresh inv times)
  have htot : total = Spec.Alloc.paddedEnd (addrs.map (linPlaced sizes times cls gran)) :=
    linInv_total sizes tens cls gran _ fresh inv times
  have hidx' : ∀ k, k < cs.length → idx k < (addrs.map (linPlaced sizes times cls gran)).length := by
    intro k hk; simpa using hidx k hk
  refine ⟨compatible_of_alloc cs _ idx hidx' hno ?_ ?_ ?_, ?_⟩
  · intro p hp
    obtain ⟨e, _, rfl⟩ := List.mem_map.1 hp
    exact ⟨rfl, rfl⟩
  · intro k hk
    simp only [List.getElem_map, linPlaced]
    exact hmatch k hk
  · intro k l hk hl hor
    apply hshared k l hk hl
    rcases hor with he | hs
    · exact Or.inl he
    · right
      simp only [List.getElem_map, linPlaced, Spec.Alloc.Shared] at hs
      exact ⟨hs.1, hs.2.1⟩
  · intro c hc
    obtain ⟨k, hk, rfl⟩ := List.getElem_of_mem hc
    obtain ⟨ha, hl⟩ := hmatch k hk
    have hmem : linPlaced sizes times cls gran (addrs[idx k]'(hidx k hk)) ∈ addrs.map (linPlaced sizes times cls gran) :=
      List.mem_map.2 ⟨_, List.getElem_mem _, rfl⟩
    have h1 := Spec.Alloc.le_highestEnd hmem
    have h2 := Spec.Alloc.le_paddedEnd (addrs.map (linPlaced sizes times cls gran))
    have h2' : Spec.Alloc.highestEnd (addrs.map (linPlaced sizes times cls gran)) ≤
        Spec.Alloc.paddedEnd (addrs.map (linPlaced sizes times cls gran)) := by
      rcases h2 with h2 | ⟨p, hp, hz⟩
      · exact h2
      · obtain ⟨e, _, rfl⟩ := List.mem_map.1 hp
        simp only [linPlaced] at hz
        omega
    have h3 := Nat.le_trans h1 h2'
    rw [← htot] at h3
    simp only [linPlaced] at h3
    omega

open VelaVerif.Alloc in
/-- **flash_bytes_are_tensor_bytes, C05 form**: (a) with its two allocation hypotheses discharged by the LinearAlloc model: the
    constants are placed by `linear`, `memory_used[permanent area]` is the total it returned, every constant of the subgraph is in
    place (address, values, stream length) and is the content of a range. -/
theorem flash_bytes_from_linear (arch : Arch) (sg : Sg) (r : Result) (hnpu : sg.isNpu = true)
    (h : serialise arch sg none none none = .ok r)
    (sizes : List Nat) (tens : List LTens) (cls : Nat → Nat) (gran : Nat)
    (hg : 0 < gran) (hyp : LinHyp sizes tens cls) (addrs : List (Nat × Nat)) (total : Nat)
    (hlin : linear sizes tens gran = .ok (addrs, total))
    (hused : dictGet sg.memoryUsed arch.flashArea = total)
    (hplace : ∀ it ∈ sgItems sg, (it.copy?).isSome = true)
    (idx : Nat → Nat) (hidx : ∀ k, k < (copies (sgItems sg)).length → idx k < addrs.length)
    (hmatch : ∀ k (hk : k < (copies (sgItems sg)).length), (addrs[idx k]'(hidx k hk)).2 = (copies (sgItems sg))[k].1 ∧
      (copies (sgItems sg))[k].2.length ≤ szOf sizes (addrs[idx k]'(hidx k hk)).1)
    (hshared : ∀ k l (hk : k < (copies (sgItems sg)).length) (hl : l < (copies (sgItems sg)).length),
      (idx k = idx l ∨ (cls (addrs[idx k]'(hidx k hk)).1 ≠ 0 ∧ cls (addrs[idx k]'(hidx k hk)).1 = cls (addrs[idx l]'(hidx l hl)).1)) →
      (copies (sgItems sg))[k].2 = (copies (sgItems sg))[l].2) :
    ∃ fl vals, r.flash = some fl ∧ fl.values = some vals ∧ fl.size = total ∧ vals.length = total ∧
      (∀ c ∈ copies (sgItems sg), ∀ j, j < c.2.length → vals[c.1 + j]? = c.2[j]?) ∧
      (∀ i, i < total → (∀ c ∈ copies (sgItems sg), Outside c i) → vals[i]? = some 0) := by
  obtain ⟨hcomp, hbound⟩ := flash_layout_from_linear sizes tens cls gran hg hyp addrs total hlin _ idx hidx hmatch hshared
  have hin : ∀ it ∈ sgItems sg, ∃ c, it.copy? = some c ∧ c.1 + c.2.length ≤ dictGet sg.memoryUsed arch.flashArea := by
    intro it hit
    obtain ⟨c, hc⟩ := Option.isSome_iff_exists.1 (hplace it hit)
    exact ⟨c, hc, by rw [hused]; exact hbound c (List.mem_filterMap.2 ⟨it, hit, hc⟩)⟩
  obtain ⟨fl, vals, h1, h2, h3, h4, _, _, h7, h8⟩ := flash_bytes_are_tensor_bytes arch sg r hnpu h hin hcomp
  exact ⟨fl, vals, h1, h2, by rw [h3, hused], by rw [h4, h3, hused], h7, fun i hi => h8 i (by rw [h3, hused]; exact hi)⟩

/-! ## (b) the scratch tensors -/

/-- the memory tensors the first call creates: areas, memory types, purposes; neither scratch tensor carries data, both are
    entered in the offline plan at offset 0 and get no buffer -/
theorem first_call_tensors (arch : Arch) (sg : Sg) (r : Result) (hnpu : sg.isNpu = true)
    (h : serialise arch sg none none none = .ok r) :
    ∃ s q, r.scratch = some s ∧ r.fast = some q ∧
      s.memArea = arch.scratchArea ∧ s.memType = .scratch ∧ s.purpose = .scratch ∧ s.values = none ∧
      q.memArea = arch.fastArea ∧ q.memType = .scratchFast ∧ q.purpose = .scratchFast ∧ q.values = none ∧
      memPlanOffset s = 0 ∧ memPlanOffset q = 0 ∧ hasBuffer s = false ∧ hasBuffer q = false := by
  unfold serialise at h
  simp only [hnpu, Bool.not_true, Bool.false_eq_true, if_false] at h
  cases hp : Payload.createDriverPayload arch.acc sg.words with
  | error e => rw [hp] at h; cases h
  | ok payload =>
    rw [hp] at h
    simp only [Option.isNone_none, Bool.and_self, if_true, mkMem] at h
    cases ha : applyItems (sgItems sg) (List.replicate (dictGet sg.memoryUsed arch.flashArea) 0) with
    | error e => rw [ha] at h; cases h
    | ok v =>
      rw [ha] at h
      simp only [Except.ok.injEq] at h
      subst h
      exact ⟨_, _, rfl, rfl, rfl, rfl, rfl, rfl, rfl, rfl, rfl, rfl, rfl, rfl, rfl, rfl⟩

/-- a later NPU subgraph keeps the attributes of the tensors it is handed (only `shape[0]` changes) -/
theorem later_call_keeps_attributes (arch : Arch) (sg : Sg) (s q f : MemTensor) (r : Result)
    (h : serialise arch sg (some s) (some q) (some f) = .ok r) :
    ∃ s' q', r.scratch = some s' ∧ r.fast = some q' ∧
      s'.memArea = s.memArea ∧ s'.memType = s.memType ∧ q'.memArea = q.memArea ∧ q'.memType = q.memType := by
  unfold serialise at h
  by_cases hnpu : sg.isNpu = true
  · simp only [hnpu, Bool.not_true, Bool.false_eq_true, if_false] at h
    cases hp : Payload.createDriverPayload arch.acc sg.words with
    | error e => rw [hp] at h; cases h
    | ok payload =>
      rw [hp] at h
      simp only [Option.isNone_some, Bool.and_self, Bool.false_eq_true, if_false] at h
      cases hv : f.values with
      | none =>
        simp only [hv] at h
        split at h
        · simp only [Except.ok.injEq] at h
          subst h
          exact ⟨_, _, rfl, rfl, rfl, rfl, rfl, rfl⟩
        · cases h
      | some vals =>
        simp only [hv] at h
        cases ha : applyItems (sgItems sg) vals with
        | error e => rw [ha] at h; cases h
        | ok v =>
          rw [ha] at h
          simp only [Except.ok.injEq] at h
          subst h
          exact ⟨_, _, rfl, rfl, rfl, rfl, rfl, rfl⟩
  · simp only [hnpu, Bool.not_false, if_true, Except.ok.injEq] at h
    subst h
    exact ⟨s, q, rfl, rfl, rfl, rfl, rfl, rfl⟩

/-- **scratch_spans_arena**.  `calls` = the `allocate_tensors` calls on the root subgraph, `s`, `q` = the scratch and fast-scratch
    tensors after serialisation.  After "Set Scratch and Fast_scratch Tensor size" the scratch tensor is entered in the plan at
    offset 0 and its size is at least `address + storage_size()` of EVERY tensor `(addr, size)` placed by a recorded allocation
    call whose memory-type set contains Scratch and whose total covers the tensor (C05: the total is the highest end) — the
    custom operator's own inputs and outputs and every feature map of the NPU subgraphs are such tensors (one joint allocation of
    the root subgraph).  The same for the fast-scratch tensor and the calls containing Scratch_fast (Dedicated SRAM: its own call
    in the SRAM area; otherwise the joint call, and the tensor spans the same arena bytes as the scratch tensor). -/
theorem scratch_spans_arena (calls : List AllocCall) (s q : MemTensor) (hs : s.memType = .scratch) (hq : q.memType = .scratchFast) :
    let fin := finalSizes (books calls).perType (some s) (some q)
    ∃ s' q', fin = (some s', some q') ∧ memPlanOffset s' = 0 ∧ memPlanOffset q' = 0 ∧
      s'.memArea = s.memArea ∧ q'.memArea = q.memArea ∧
      (∀ c ∈ calls, c.recorded = true → MemType.scratch ∈ c.types → ∀ addr size, addr + size ≤ c.total → addr + size ≤ s'.size) ∧
      (∀ c ∈ calls, c.recorded = true → MemType.scratchFast ∈ c.types → ∀ addr size, addr + size ≤ c.total → addr + size ≤ q'.size) := by
  refine ⟨_, _, rfl, ?_, ?_, rfl, rfl, ?_, ?_⟩
  · simp [memPlanOffset, planOffset, hs]
  · simp [memPlanOffset, planOffset, hq]
  · intro c hc hrec hmt addr size hle
    exact Nat.le_trans hle (perType_ge_call calls _ c hc hrec _ hmt)
  · intro c hc hrec hmt addr size hle
    exact Nat.le_trans hle (perType_ge_call calls _ c hc hrec _ hmt)

/-- the sizing is by memory type: exchanging the two lookups (seeded C12-m3) publishes a scratch tensor that no longer spans the
    arena as soon as the two totals differ (Dedicated SRAM: fast scratch 4096 bytes in SRAM, arena 65536 bytes in DRAM) -/
theorem scratch_sizing_crossed_witness :
    let calls : List AllocCall := [⟨.sram, [.scratchFast], 4096, true⟩, ⟨.dram, [.scratch], 65536, true⟩]
    let b := books calls
    typeGet b.perType .scratch = 65536 ∧ typeGet b.perType .scratchFast = 4096 ∧
    ¬ (60000 + 5536 ≤ typeGet b.perType .scratchFast) := by decide

/-! ## (c) operand order -/

/-- **custom_op_inputs_order**.  After `rewrite_npu_call_ops` operand 0 of the call operator is the callee's command stream,
    operands 1..3 are constants, scratch, fast scratch, the subgraph's real inputs follow unchanged; and for every memory type the
    region number the command-stream generator uses (`get_region`) plus one is the position of the memory tensor that holds the
    tensors of that type — region n of the command stream is the n-th memory tensor. -/
theorem custom_op_inputs_order (arch : Arch) (callee : Nat) (ins : List TRef) :
    (rewriteInputs callee ins)[0]? = some (.cmd callee) ∧
    (rewriteInputs callee ins).take 4 = [.cmd callee, .flash, .scratch, .fast] ∧
    (rewriteInputs callee ins).drop 4 = ins ∧
    (∀ mt r, getRegion arch mt = some r → (rewriteInputs callee ins)[r + 1]? = holder arch mt) ∧
    (∀ al, TRef.cmd callee ∈ startupOutputs al callee [] ∧ TRef.flash ∈ startupOutputs al callee []) ∧
    startupOutputs false callee [] = [.cmd callee, .flash] := by
  refine ⟨rfl, rfl, rfl, ?_, fun al => by cases al <;> simp [startupOutputs, memOperands], by simp [startupOutputs, memOperands]⟩
  intro mt r h
  cases mt <;> simp only [getRegion, Option.some.injEq] at h <;> try (subst h; rfl)
  · cases h
  · subst h
    simp only [holder]
    cases arch.spilling <;> rfl

/-- with the operands inserted in another order (say scratch before constants) region 0 would name the scratch tensor -/
theorem custom_op_inputs_order_witness :
    ([TRef.fast, .flash, .scratch, .cmd 0].foldl (fun acc t => t :: acc) [])[0 + 1]? ≠ some TRef.flash := by decide

/-! ## (d) reported figures -/

/-- **reported_ge_extent** (a first compilation).  `calls` = the recorded `allocate_tensors` calls on the root subgraph, whose
    books are `nng.memory_used`.  Per figure, in bytes (the CSV prints them divided by 1024.0):
    * `<arena area>_memory_used` bounds the SCRATCH tensor (`shape[0]` after the final sizing) when every call containing
      Scratch is made in that area;
    * `<fast area>_memory_used` bounds the FAST-SCRATCH tensor likewise (Dedicated SRAM: the SRAM figure);
    * `<area>_memory_used` of any recorded call bounds that call's total: with C05 (`linear_total`, disjoint ranges) the final
      `Permanent_CPU` call covers the CONSTANTS tensor and every COMMAND-STREAM tensor, which `rewrite_npu_call_ops` made
      outputs of the start-up pass (`custom_op_inputs_order`, last clause);
    * the columns are exactly the four report areas, a missing key reads 0. -/
theorem reported_ge_extent (calls : List AllocCall) (s q : MemTensor) (As Aq : MemArea)
    (hnodup : ∀ c ∈ calls, c.types.Nodup)
    (hs : ∀ c ∈ calls, c.recorded = true → MemType.scratch ∈ c.types → c.area = As)
    (hq : ∀ c ∈ calls, c.recorded = true → MemType.scratchFast ∈ c.types → c.area = Aq) :
    let b := books calls
    let fin := finalSizes b.perType (some s) (some q)
    (∀ s', fin.1 = some s' → s'.size ≤ lookup b.used As) ∧
    (∀ q', fin.2 = some q' → q'.size ≤ lookup b.used Aq) ∧
    (∀ c ∈ calls, c.recorded = true → c.total ≤ lookup b.used c.area) ∧
    csvMemory b.used = [lookup b.used .sram, lookup b.used .dram, lookup b.used .onChipFlash, lookup b.used .offChipFlash] := by
  refine ⟨?_, ?_, ?_, rfl⟩
  · intro s' h
    simp only [finalSizes, Option.map_some, Option.some.injEq] at h
    subst h
    exact perType_le_used calls _ _ hnodup hs _ (Nat.le_refl _)
  · intro q' h
    simp only [finalSizes, Option.map_some, Option.some.injEq] at h
    subst h
    exact perType_le_used calls _ _ hnodup hq _ (Nat.le_refl _)
  · intro c hc hrec
    exact used_ge_call calls _ c hc hrec

/-- the console figure (two decimals of a KiB, round half to even) is within half a hundredth of the bytes -/
theorem console_within_rounding (n : Nat) :
    n * 100 ≤ hundredthsKiB n * 1024 + 512 ∧ hundredthsKiB n * 1024 ≤ n * 100 + 512 := by
  unfold hundredthsKiB
  simp only
  split <;> omega

/-- **reported_ge_extent_witness** (recompiled model; the open finding `...:other-options`).  A model that already carries an
    `OfflineMemoryAllocation` entry keeps it (`publishedPlan`), the figure is the fresh allocation of this compilation.  Real
    numbers of the kept reproducer `gen2:cpu/0/7` (CAST, QUANTIZE, CAST, QUANTIZE on 1x1x19x1 uint8; first ethos-u55-32
    LinearAlloc with 32-byte alignment: plan `[0, 32, 128, 160, 256]`, extent 275; then ethos-u65-256 Greedy: total 160,
    `dram_memory_used` = 0.15625 KiB): whatever plan the second compilation computed, the published one needs 275 > 160. -/
theorem reported_ge_extent_witness :
    let inputPlan : List (Int × Nat) := [(0, 19), (32, 76), (128, 19), (160, 76), (256, 19)]
    let calls : List AllocCall := [⟨.dram, [.scratch, .scratchFast], 160, true⟩]
    (∀ fresh, ¬ (planExtent (publishedPlan (some inputPlan) fresh) ≤ lookup (books calls).used .dram)) ∧
    (∀ fresh, publishedPlan none fresh = fresh) := by
  refine ⟨fun fresh => ?_, fun _ => rfl⟩
  simp only [publishedPlan, Option.getD_some]
  decide

/-! ## the Spec checkers that judge the OUTPUT FILE (`Spec/Serialise.lean`) are sound; the Spec's byte encoding is the model's -/

section SpecSound
open VelaVerif.Spec.Serialise

theorem flashOk_sound (flash : List Nat) (ps : List Placed) (h : flashOk flash ps = true) :
    ∀ p ∈ ps, p.addr + p.src.bytes.length ≤ flash.length ∧ slice flash p.addr p.src.bytes.length = p.src.bytes := by
  intro p hp
  unfold flashOk flashProblems at h
  simp only [List.isEmpty_iff, List.append_eq_nil_iff] at h
  have h1 := h.1
  rw [List.filterMap_eq_nil_iff] at h1
  obtain ⟨i, hi, hget⟩ := List.getElem_of_mem hp
  have hmem : ((p.addr, p.src.bytes), i) ∈ (ps.map fun p => (p.addr, p.src.bytes)).zipIdx := by
    rw [List.mem_zipIdx_iff_getElem?]
    simp [hget, hi]
  have := h1 _ hmem
  simp only at this
  split at this
  · cases this
  · split at this
    · cases this
    · rename_i h2 h3
      refine ⟨by omega, ?_⟩
      simpa using h3

theorem spanOk_sound (offset : Int) (size : Nat) (tens : List (Nat × Nat)) (h : spanOk offset size tens = true) :
    offset = 0 ∧ ∀ t ∈ tens, t.1 + t.2 ≤ size := by
  unfold spanOk spanProblems at h
  simp only [List.isEmpty_iff, List.append_eq_nil_iff] at h
  refine ⟨?_, ?_⟩
  · have := h.1
    by_cases h0 : offset = 0
    · exact h0
    · simp [h0] at this
  · intro t ht
    have h1 := h.2
    rw [List.filterMap_eq_nil_iff] at h1
    obtain ⟨i, hi, hget⟩ := List.getElem_of_mem ht
    have hmem : (t, i) ∈ tens.zipIdx := by
      rw [List.mem_zipIdx_iff_getElem?]
      simp [hget, hi]
    have := h1 _ hmem
    simp only at this
    split at this
    · cases this
    · omega

theorem orderOk_sound (kinds : List Nat) (regions : List (Nat × Nat)) (h : orderOk kinds regions = true) :
    kinds.take 4 = [0, 1, 2, 3] ∧ (∀ k ∈ kinds.drop 4, k = 9) ∧ ∀ r ∈ regions, kinds[r.1 + 1]? = some r.2 := by
  unfold orderOk orderProblems at h
  simp only [List.isEmpty_iff, List.append_eq_nil_iff] at h
  obtain ⟨⟨h1, h2⟩, h3⟩ := h
  refine ⟨?_, ?_, ?_⟩
  · by_cases hk : kinds.take 4 = [0, 1, 2, 3]
    · exact hk
    · simp [hk] at h1
  · intro k hk
    have h2' : ∀ x ∈ kinds.drop 4, x = 9 := by simpa using h2
    exact h2' k hk
  · intro r hr
    rw [List.filterMap_eq_nil_iff] at h3
    have := h3 r hr
    split at this
    · cases this
    · rename_i hne
      simpa using hne

theorem reportOk_sound (figs : List (String × Nat × Nat)) (h : reportOk figs = true) :
    ∀ f ∈ figs, f.2.2 ≤ f.2.1 := by
  unfold reportOk reportProblems at h
  simp only [List.isEmpty_iff] at h
  rw [List.filterMap_eq_nil_iff] at h
  intro f hf
  have := h f hf
  split at this
  · cases this
  · rename_i hlt
    exact Nat.le_of_not_lt hlt

theorem flashOk_sound_pairs (flash : List Nat) (ps : List Placed) (h : flashOk flash ps = true)
    (i j : Nat) (hi : i < ps.length) (hj : j < ps.length) (hij : i < j)
    (hne : 0 < ps[i].src.bytes.length ∧ 0 < ps[j].src.bytes.length)
    (hov : ps[i].addr < ps[j].addr + ps[j].src.bytes.length ∧ ps[j].addr < ps[i].addr + ps[i].src.bytes.length) :
    ps[i].addr = ps[j].addr ∧ ps[i].src.bytes = ps[j].src.bytes := by
  unfold flashOk flashProblems at h
  simp only [List.isEmpty_iff, List.append_eq_nil_iff] at h
  have h2 := h.2
  rw [List.flatMap_eq_nil_iff] at h2
  have hmi : ((ps[i].addr, ps[i].src.bytes), i) ∈ (ps.map fun p => (p.addr, p.src.bytes)).zipIdx := by
    rw [List.mem_zipIdx_iff_getElem?]; simp [hi]
  have hmj : ((ps[j].addr, ps[j].src.bytes), j) ∈ (ps.map fun p => (p.addr, p.src.bytes)).zipIdx := by
    rw [List.mem_zipIdx_iff_getElem?]; simp [hj]
  have h3 := h2 _ hmi
  rw [List.filterMap_eq_nil_iff] at h3
  have h4 := h3 _ hmj
  simp only at h4
  split at h4
  · cases h4
  · rename_i hc
    simp only [Bool.and_eq_true, decide_eq_true_eq, Bool.not_eq_true', not_and] at hc
    by_cases hs : (ps[i].addr == ps[j].addr && ps[i].src.bytes == ps[j].src.bytes) = true
    · simpa using hs
    · exfalso
      have hs' : (ps[i].addr == ps[j].addr && ps[i].src.bytes == ps[j].src.bytes) = false := by simpa using hs
      have := hc ⟨⟨⟨⟨hij, hne.1⟩, hne.2⟩, hov.1⟩, hov.2⟩
      simp [hs'] at this

/-- the Spec's element encoding (written from the definition of two's complement little endian) is the model's -/
theorem spec_ints_bytes (sz : Nat) (vals : List Int) : (Src.ints sz vals).bytes = vals.flatMap (leBytes sz) := by
  show List.flatMap (fun v => List.map (elemByte sz v) (List.range sz)) vals = _
  congr 1
  funext v
  apply List.ext_getElem?
  intro k
  by_cases hk : k < sz
  · rw [leBytes, leNat_get _ _ _ hk]
    simp [hk, elemByte_eq]
  · have h1 : (leBytes sz v).length ≤ k := by rw [leBytes_length]; omega
    rw [List.getElem?_eq_none h1, List.getElem?_eq_none (by simp; omega)]

end SpecSound

/-! ## non-vacuity -/

/-- a first NPU subgraph with one encoded weight stream and one 16-bit constant: the hypotheses of (a) hold and the tensor is what
    the theorem says -/
example :
    let arch : Arch := ⟨Gen.accelerators[0]!, .axi1, .axi0, .axi0, .sram, .offChipFlash⟩
    let w : Comp := ⟨some 0, 16, [1, 2, 3, 4, 5, 6, 7, 8, 9, 10, 11, 12, 13, 14, 15, 16]⟩
    let c : Fm := ⟨some 16, .permanentNPU, 2, 2, some [-2, 258]⟩
    let items : List Item := [.comp w, .fm c]
    (∀ it ∈ items, ∃ c, it.copy? = some c ∧ c.1 + c.2.length ≤ 32) ∧
    (copies items).Pairwise Compatible ∧
    applyItems items (List.replicate 32 0) =
      .ok ([1, 2, 3, 4, 5, 6, 7, 8, 9, 10, 11, 12, 13, 14, 15, 16, 254, 255, 2, 1] ++ List.replicate 12 0) ∧
    arch.flashArea = .offChipFlash ∧ arch.spilling = false := by
  refine ⟨?_, ?_, by rfl, rfl, by decide⟩
  · intro it hit
    simp only [List.mem_cons, List.mem_nil_iff, or_false] at hit
    rcases hit with rfl | rfl
    · exact ⟨_, rfl, by decide⟩
    · exact ⟨_, rfl, by decide⟩
  · simp only [copies, List.filterMap_cons, List.filterMap_nil, Item.copy?]
    simp only [List.length_cons, List.length_nil, if_true, List.pairwise_cons, List.mem_cons, List.mem_nil_iff, or_false]
    refine ⟨?_, ?_, List.Pairwise.nil⟩
    · intro c hc; subst hc; left; decide
    · intro c hc; cases hc

example : (books [⟨.sram, [.scratchFast], 4096, true⟩, ⟨.dram, [.scratch], 65536, true⟩, ⟨.dram, [.permanentCPU], 1024, true⟩]).used =
    [(.sram, 4096), (.dram, 66560)] := by decide

end VelaVerif.Props.C12Serial
