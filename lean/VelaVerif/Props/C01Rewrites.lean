import VelaVerif.Lemmas.Rewrites
import VelaVerif.Lemmas.StridedConv
import VelaVerif.Lemmas.LreluReal
import VelaVerif.Props.C01
import Mathlib.Algebra.Order.Field.Basic
import Mathlib.Tactic.Linarith
import Mathlib.Tactic.Ring
/-!
# C01 — graph-optimiser rewrites preserve what the operator computes

For each rewrite modelled in `Model/Rewrites.lean` (the correspondence stream `harness/c01_rewrites.py` compares the
model with the real function): the operator(s) the rewrite leaves behind compute, under the reference semantics of
`Spec/TfliteRef.lean` / `Spec/RewriteSem.lean`, the tensor the original operator computes — for all tensors and all
parameters in the rewrite's precondition. Where the precondition the code checks is too weak, the statement is proved
for the repaired precondition and the negation is proved on a concrete witness (`…_witness`).
-/
namespace VelaVerif.Props.C01Rewrites
open VelaVerif.Requant VelaVerif.TfliteRef VelaVerif.RewriteSem VelaVerif.Rewrites VelaVerif.Lemmas.Rewrites VelaVerif.Lemmas.Sem VelaVerif.Lemmas.StridedConv VelaVerif.Lemmas.LreluReal

/-! ## 6. Activation ranges of a pass are intersected -/

/-- **Clamp composition.** Applying the fused activation of the primary operator and then the RELU-type operators of the
    pass one after the other equals the single clamp `generate_high_level_commands_for_sched_op` leaves on the primary
    operator (`passActivation`: lower bounds combined with `max`, upper bounds with `min`, `None` = unbounded), whenever
    that final range is non-empty. -/
theorem pass_activation_eq_sequential (fused : Option (ActRange Int)) (ops : List (ActRange Int)) (x : Int)
    (hne : finalNonempty (passActivation fused ops)) :
    clampSeq ops (clampOpt fused x) = clampOpt (passActivation fused ops) x :=
  pass_activation_seq ops fused x hne

/-- the two-clamp form of the task statement: `clamp a b (clamp c d x) = clamp (max a c) (min b d) x` for a non-empty
    intersection (reference `clamp`) -/
theorem clamp_clamp_eq (a b c d x : Int) (hne : max a c ≤ min b d) :
    clamp (clamp x c d) a b = clamp x (max a c) (min b d) := by
  unfold clamp
  repeat' split
  all_goals omega

/-- the intersection is necessary: with disjoint ranges the composition is not the clamp to (max, min) -/
theorem clamp_clamp_disjoint_witness : clamp (clamp 7 0 1) 5 6 ≠ clamp 7 (max 5 0) (min 6 1) := by decide

/-- quantising the bounds commutes with intersecting them (any monotone quantisation function) -/
theorem quantise_isect (f : Int → Int) (hf : ∀ a b, a ≤ b → f a ≤ f b) (a b : Int) :
    f (max a b) = max (f a) (f b) ∧ f (min a b) = min (f a) (f b) := by
  constructor
  · by_cases h : a ≤ b
    · have := hf a b h
      rw [Int.max_eq_right h, Int.max_eq_right this]
    · have h' : b ≤ a := by omega
      have := hf b a h'
      rw [Int.max_eq_left h', Int.max_eq_left this]
  · by_cases h : a ≤ b
    · have := hf a b h
      rw [Int.min_eq_left h, Int.min_eq_left this]
    · have h' : b ≤ a := by omega
      have := hf b a h'
      rw [Int.min_eq_right h', Int.min_eq_right this]

/-- non-vacuity: CONV fused RELU6, then RELU_N1_TO_1, then RELU: the pass clamps to [0, 1] -/
example : passActivation (some ReluKind.relu6.range) [ReluKind.reluN1To1.range, ReluKind.relu.range] = some ⟨some 0, some 1⟩ := by decide
example : (List.range 12).map (fun (i : Nat) => clampSeq [ReluKind.reluN1To1.range, ReluKind.relu.range] (clampOpt (some ReluKind.relu6.range) ((i : Int) - 4))) =
    (List.range 12).map (fun (i : Nat) => clampOpt (passActivation (some ReluKind.relu6.range) [ReluKind.reluN1To1.range, ReluKind.relu.range]) ((i : Int) - 4)) := by decide
example : finalNonempty (passActivation (some ReluKind.relu6.range) [ReluKind.reluN1To1.range, ReluKind.relu.range]) := by decide

/-! ## 1. LeakyReLU as Maximum / Minimum of multiplications -/

section Real
variable {α : Type} [Field α] [LinearOrder α] [IsStrictOrderedRing α]


/-- `LeakyReLU(x) = max(x, alpha * x)` for `alpha ≤ 1` (the code uses this form for `0 < alpha < 1`) -/
theorem lrelu_eq_max (a x : α) (h1 : a ≤ 1) : lrelu a x = max x (a * x) := by
  unfold lrelu
  split
  · rename_i hx
    have : a * x ≤ x := by nlinarith
    rw [max_eq_left this]
  · rename_i hx
    have hx' : x < 0 := lt_of_not_ge hx
    have : x ≤ a * x := by nlinarith
    rw [max_eq_right this]

/-- `LeakyReLU(x) = min(x, alpha * x)` for `alpha ≥ 1` -/
theorem lrelu_eq_min (a x : α) (h1 : 1 ≤ a) : lrelu a x = min x (a * x) := by
  unfold lrelu
  split
  · rename_i hx
    have : x ≤ a * x := by nlinarith
    rw [min_eq_left this]
  · rename_i hx
    have hx' : x < 0 := lt_of_not_ge hx
    have : a * x ≤ x := by nlinarith
    rw [min_eq_right this]

/-- what `convert_lrelu_to_mul_max` builds when `alpha` is not in (0, 1) — `Add(Mul(Minimum(x, 0), alpha), Relu(x))` —
    is LeakyReLU for *every* alpha (negative and above one included) -/
theorem lrelu_eq_relu_add_min (a x : α) : lrelu a x = max x 0 + a * min x 0 := by
  unfold lrelu
  split
  · rename_i hx
    rw [max_eq_left hx, min_eq_right hx]; ring
  · rename_i hx
    have hx' : x ≤ 0 := le_of_lt (lt_of_not_ge hx)
    rw [max_eq_right hx', min_eq_left hx']; ring

/-- the Maximum form is wrong above one: this is why the code must not (and does not) use it there -/
theorem lrelu_max_gt1_witness : lrelu (2 : ℚ) 1 ≠ max (1 : ℚ) (2 * 1) := by
  unfold lrelu; norm_num

example : lrelu (1 / 2 : ℚ) (-4) = max (-4 : ℚ) (1 / 2 * -4) := lrelu_eq_max _ _ (by norm_num)
example : lrelu (-3 : ℚ) (-4) = 12 := by unfold lrelu; norm_num
end Real

/-- **Quantised, equal IFM/OFM scaling** (`fm_id = ifm`): `Maximum(Mul(x, alpha), x)` under the reference MUL and
    MAXIMUM equals the reference LEAKY_RELU (identity multiplier of equal scales `(2^30, 1)`) for every element `v`
    of the tensor's type range `[lo, hi]`, every zero point and every alpha multiplier `(am, as)` of a real value below
    one (`0 ≤ am < 2^31`, `as ≤ 0` — what `QuantizeMultiplier` returns for `alpha < 1` with equal scales). -/
theorem lrelu_mulmax_direct_eq (v zp am as lo hi : Int) (hlo : lo ≤ v) (hhi : v ≤ hi)
    (hm0 : 0 ≤ am) (hm : am < 2147483648) (hs : as ≤ 0) :
    lreluMulMaxDirect v zp am as lo hi = lreluRef v zp zp 1073741824 1 am as lo hi := by
  unfold lreluMulMaxDirect lreluRef mulConst mulElem
  have e1 : (v + -zp) * (1 + -0) = v - zp := by omega
  rw [e1]
  simp only [mbqm_identity]
  have hlh : lo ≤ hi := by omega
  by_cases hx : v - zp ≥ 0
  · simp only [hx, if_true]
    have c := mbqm_contract_nonneg (v - zp) am as hx hm0 hm hs
    have e2 : zp + (v - zp) = v := by omega
    rw [e2, clamp_id v lo hi hlo hhi]
    have := clamp_mono (mbqm (v - zp) am as + zp) v lo hi hlh (by omega)
    rw [clamp_id v lo hi hlo hhi] at this
    omega
  · simp only [hx, if_false]
    have c := mbqm_contract_neg (v - zp) am as (by omega) hm0 hm hs
    have := clamp_mono v (mbqm (v - zp) am as + zp) lo hi hlh (by omega)
    rw [clamp_id v lo hi hlo hhi] at this
    have e3 : zp + mbqm (v - zp) am as = mbqm (v - zp) am as + zp := by omega
    rw [e3]
    omega

example : (List.range 40).map (fun (i : Nat) => lreluMulMaxDirect ((i : Int) - 20) 3 1717986918 (-3) (-128) 127) =
    (List.range 40).map (fun (i : Nat) => lreluRef ((i : Int) - 20) 3 3 1073741824 1 1717986918 (-3) (-128) 127) := by decide

/-- **Quantised, differing scalings** (`Maximum(Mul(x, alpha), Mul(x, 1))`): NOT bit-exact. The two multiplications
    round twice each (`SaturatingRoundingDoublingHighMul` to nearest-up, `RoundingDivideByPOT` away from zero), so for a
    negative element the identity branch can come out one above the alpha branch although `alpha < 1`:
    identity multiplier 1/2 = `(2^30, 0)`, alpha multiplier 0.499 = `(2143188680, -1)` (alpha = 0.998), `x = -5`:
    reference `-3`, Maximum form `-2`. Reproduced on the compiled model (known finding
    `int16-lrelu-mul-max-rounds-each-branch`). -/
theorem lrelu_mulmax_id_witness :
    lreluMulMaxId (-5) 0 0 1073741824 0 2143188680 (-1) (-32768) 32767 = -2 ∧
    lreluRef (-5) 0 0 1073741824 0 2143188680 (-1) (-32768) 32767 = -3 := by decide

/-- **monotonicity of `MultiplyByQuantizedMultiplier` in the quantised multiplier** for a non-negative operand: a
    multiplier `(m1, s1)` below a *normalised* `(m2, s2)` (`2^30 ≤ m2`) — smaller shift, or the same shift and a smaller
    mantissa — gives a result that is not larger -/
theorem mbqm_mono (x m1 s1 m2 s2 : Int) (hx : 0 ≤ x) (h10 : 0 ≤ m1) (h11 : m1 < 2147483648) (h2 : 1073741824 ≤ m2)
    (hle : s1 < s2 ∨ (s1 = s2 ∧ m1 ≤ m2)) : mbqm x m1 s1 ≤ mbqm x m2 s2 := by
  rcases hle with hlt | ⟨heq, hm⟩
  · have a := mbqm_shift_step x m1 s1 hx h10 h11
    have b := mbqm_pow30_mono_shift x hx (s1 + 1) (s2 - (s1 + 1)).toNat
    have e : s1 + 1 + ((s2 - (s1 + 1)).toNat : Int) = s2 := by omega
    rw [e] at b
    have c := mbqm_mono_m x 1073741824 m2 s2 hx (by decide) h2
    omega
  · subst heq
    exact mbqm_mono_m x m1 m2 s1 hx h10 hm

/-- **Quantised, differing scalings — `_partial`: only the non-negative side.** Full statement (false, see
    `lrelu_mulmax_id_witness`): the same equality for every element. Proved: : for an element at or above the input zero point,
    `Maximum(Mul(x, alpha), Mul(x, 1))` equals the reference LEAKY_RELU whenever the alpha multiplier is below the normalised
    identity multiplier (which `alpha < 1` gives). (For elements below the zero point it can be one too large:
    `lrelu_mulmax_id_witness`.) -/
theorem lrelu_mulmax_id_eq_partial (v zpIn zpOut idm ids am as lo hi : Int) (hlh : lo ≤ hi) (hx : 0 ≤ v - zpIn)
    (ha0 : 0 ≤ am) (ha1 : am < 2147483648) (hid : 1073741824 ≤ idm) (hle : as < ids ∨ (as = ids ∧ am ≤ idm)) :
    lreluMulMaxId v zpIn zpOut idm ids am as lo hi = lreluRef v zpIn zpOut idm ids am as lo hi := by
  unfold lreluMulMaxId lreluRef mulConst mulElem
  have e1 : (v + -zpIn) * (1 + -0) = v - zpIn := by omega
  rw [e1]
  simp only [ge_iff_le, hx, if_true]
  have hm := mbqm_mono (v - zpIn) am as idm ids hx ha0 ha1 hid hle
  have := clamp_mono (mbqm (v - zpIn) am as + zpOut) (mbqm (v - zpIn) idm ids + zpOut) lo hi hlh (by omega)
  have e2 : zpOut + mbqm (v - zpIn) idm ids = mbqm (v - zpIn) idm ids + zpOut := by omega
  rw [e2]
  omega

example : lreluMulMaxId 37 0 0 1073741824 0 2143188680 (-1) (-32768) 32767 = lreluRef 37 0 0 1073741824 0 2143188680 (-1) (-32768) 32767 := by decide
example : mbqm 1000 1518500250 (-3) ≤ mbqm 1000 1073741824 (-2) ∧ mbqm 1000 1073741824 (-2) ≤ mbqm 1000 1300000000 (-2) := by decide

/-! ### the inverse: `Maximum(x, Mul(x, c))` → LeakyRelu / Abs / Relu (`convert_mul_max_to_abs_or_lrelu`) -/

/-- **`Maximum(x, Mul(x, c))` is the LeakyRelu table** built from `alpha_scaling = (a, m, s)`, `a = q - zp_c ≥ 0`, when the
    real multiplier `a * m * 2^(s - 31)` is at most one (`s ≤ 0`): for every element of the type range. -/
theorem mulmax_lrelu_eq (v zp q zpC m s lo hi : Int) (hlo : lo ≤ v) (hhi : v ≤ hi)
    (ha : 0 ≤ q - zpC) (hm0 : 0 ≤ m) (hs : s ≤ 0)
    (hreal : (q - zpC) * m ≤ 2147483648 * (2 : Int) ^ (-s).toNat) :
    mulMaxOrig v zp q zpC m s lo hi = lreluLutEntry v zp (q - zpC) m s lo hi := by
  unfold mulMaxOrig lreluLutEntry mulConst mulElem
  have e1 : (v + -zp) * (q + -zpC) = (q - zpC) * (v - zp) := by
    rw [Int.mul_comm]; rfl
  rw [e1, mbqm_identity]
  have hlh : lo ≤ hi := by omega
  have e2 : zp + (v - zp) = v := by omega
  by_cases hx : v < zp
  · simp only [hx, if_true]
    have c := mbqm_scaled_neg (q - zpC) (v - zp) m s ha (by omega) hm0 hs hreal
    have := clamp_mono v (mbqm ((q - zpC) * (v - zp)) m s + zp) lo hi hlh (by omega)
    rw [clamp_id v lo hi hlo hhi] at this
    have e3 : zp + mbqm ((q - zpC) * (v - zp)) m s = mbqm ((q - zpC) * (v - zp)) m s + zp := by omega
    rw [e3]
    omega
  · simp only [hx, if_false]
    have c := mbqm_scaled_nonneg (q - zpC) (v - zp) m s ha (by omega) hm0 hs hreal
    rw [e2, clamp_id v lo hi hlo hhi]
    have := clamp_mono (mbqm ((q - zpC) * (v - zp)) m s + zp) v lo hi hlh (by omega)
    rw [clamp_id v lo hi hlo hhi] at this
    omega

/-- `c = 0` (`q = zp_c`): `Maximum(x, Mul(x, 0))` is RELU (zero point inside the type range) -/
theorem mulmax_relu_eq (v zp q m s lo hi : Int) (hlo : lo ≤ v) (hhi : v ≤ hi) (hz1 : lo ≤ zp) (hz2 : zp ≤ hi) :
    mulMaxOrig v zp q q m s lo hi = reluEntry v zp lo hi := by
  unfold mulMaxOrig reluEntry mulConst mulElem
  have e1 : (v + -zp) * (q + -q) = 0 := by
    have : q + -q = 0 := by omega
    rw [this, Int.mul_zero]
  have e0 : mbqm 0 m s = 0 := by
    unfold mbqm
    have hns : ¬ ((0 : Int) * (2 : Int) ^ (if s > 0 then s.toNat else 0) = INT32_MIN ∧ m = INT32_MIN) := by
      intro h; have := h.1; simp [INT32_MIN] at this
    simp only []
    rw [VelaVerif.Lemmas.Sem.srdhm_floor _ _ hns, VelaVerif.Lemmas.Sem.rdivpot_cases]
    simp only [Int.zero_mul]
    have hp := VelaVerif.Lemmas.Sem.two_pow_pos (if s > 0 then 0 else (-s).toNat)
    generalize (2 : Int) ^ (if s > 0 then 0 else (-s).toNat) = P at *
    have : ((0 : Int) + 1073741824) / 2147483648 = 0 := by decide
    rw [this]
    simp only [Int.zero_ediv, Int.zero_emod]
    split
    · omega
    · split
      · omega
      · rfl
  rw [e1, e0]
  unfold clamp
  repeat' split
  all_goals omega

/-- `c = -1` with scale one (`q - zp_c = -1`, multiplier `(2^30, 1)`): `Maximum(x, Mul(x, -1))` is ABS -/
theorem mulmax_abs_eq (v zp q zpC lo hi : Int) (hlo : lo ≤ v) (hhi : v ≤ hi) (ha : q - zpC = -1) :
    mulMaxOrig v zp q zpC 1073741824 1 lo hi = absEntry v zp lo hi := by
  unfold mulMaxOrig absEntry mulConst mulElem
  have e1 : (v + -zp) * (q + -zpC) = -(v - zp) := by
    have : q + -zpC = -1 := by omega
    rw [this]; omega
  rw [e1, mbqm_identity]
  have hlh : lo ≤ hi := by omega
  by_cases hx : v - zp ≥ 0
  · simp only [hx, if_true]
    have e2 : zp + (v - zp) = v := by omega
    rw [e2, clamp_id v lo hi hlo hhi]
    have := clamp_mono (-(v - zp) + zp) v lo hi hlh (by omega)
    rw [clamp_id v lo hi hlo hhi] at this
    omega
  · simp only [hx, if_false]
    have := clamp_mono v (-(v - zp) + zp) lo hi hlh (by omega)
    rw [clamp_id v lo hi hlo hhi] at this
    have e3 : zp + -(v - zp) = -(v - zp) + zp := by omega
    rw [e3]
    omega

/-- **The decision of the unrepaired code (on the quantised value `q`) is unsound**, three ways (all reproduced on
    compiled models; known findings `mul-max-to-lrelu-…`):
    * `c = 2 > 1` (`q = 2`, `zp_c = 0`, scale 1): taken for a LeakyRelu, `x = 10` gives 10 instead of 20;
    * `q = 0` with `zp_c = 10` (`c = -10`): `alpha = q = 0` makes it a RELU, `x = -1` gives 0 instead of 10;
    * `q = -1` with `zp_c = 1` (`c = -2`): taken for an ABS, `x = -3` gives 3 instead of 6. -/
theorem mulmax_old_decision_witness :
    mulMaxPlanEval (mulMaxPlanOld 2 0) 10 0 2 0 1073741824 1 (-128) 127 ≠ mulMaxOrig 10 0 2 0 1073741824 1 (-128) 127 ∧
    mulMaxPlanEval (mulMaxPlanOld 0 10) (-1) 0 0 10 1073741824 1 (-128) 127 ≠ mulMaxOrig (-1) 0 0 10 1073741824 1 (-128) 127 ∧
    mulMaxPlanEval (mulMaxPlanOld (-1) 1) (-3) 0 (-1) 1 1073741824 1 (-128) 127 ≠ mulMaxOrig (-3) 0 (-1) 1 1073741824 1 (-128) 127 := by
  decide

/-- the repaired decision (on the real value) leaves those three alone (scale 1.0 = 0x3F800000) -/
example : mulMaxPlan 2 0 1065353216 = some .keep ∧ mulMaxPlan 0 10 1065353216 = some .keep ∧
    mulMaxPlan (-1) 1 1065353216 = some .keep := by decide
/-- … and still rewrites the sound cases: `c = 127/254 = 1/2` (scale 2^-8·(1+…)), `c = 0`, `c = -1` -/
example : mulMaxPlan 127 (-128) 998244352 = some (.lrelu 255 false) ∧ mulMaxPlan 5 5 1065353216 = some (.lrelu 0 true) ∧
    mulMaxPlan (-1) 0 1065353216 = some .abs := by decide
example : (List.range 30).map (fun (i : Nat) => mulMaxOrig ((i : Int) - 15) 2 127 (-128) 1077952577 (-8) (-128) 127) =
    (List.range 30).map (fun (i : Nat) => lreluLutEntry ((i : Int) - 15) 2 255 1077952577 (-8) (-128) 127) := by decide

/-! ## 2. PAD folded into hardware padding -/

/-- **A convolution over a PAD equals the convolution with explicit padding over the unpadded tensor.** The PAD fills with
    `pv`, the zero point of its (equal) input/output quantisation, so `pv + inOff = 0`; the reference convolution skips
    positions outside the tensor. Holds for every output position, every kernel, stride, dilation and every pad size —
    the restrictions `replace_pad_by_hw_pad` checks (pad ≤ kernel/2, `_leading_pad_ok`) are hardware restrictions, not
    needed for this equality. -/
theorem pad_conv_eq (H W C t l b r : Nat) (ifm : Nat → Nat → Nat → Int) (pv inOff : Int) (hpv : pv + inOff = 0)
    (kh kw : Nat) (wgt : Nat → Nat → Nat → Int) (sy sx dy dx oy ox : Nat) :
    convAcc (H + t + b) (W + l + r) C (padded H W ifm t l pv) kh kw wgt sy sx dy dx 0 0 inOff oy ox =
    convAcc H W C ifm kh kw wgt sy sx dy dx t l inOff oy ox := by
  unfold convAcc
  apply sumRange_congr
  intro ky _
  apply sumRange_congr
  intro kx _
  simp only []
  by_cases hin : t ≤ oy * sy + ky * dy ∧ oy * sy + ky * dy - t < H ∧ l ≤ ox * sx + kx * dx ∧ ox * sx + kx * dx - l < W
  · have c1 : 0 ≤ ((oy * sy + ky * dy : Nat) : Int) - ((0 : Nat) : Int) ∧ ((oy * sy + ky * dy : Nat) : Int) - ((0 : Nat) : Int) < ((H + t + b : Nat) : Int) ∧
        0 ≤ ((ox * sx + kx * dx : Nat) : Int) - ((0 : Nat) : Int) ∧ ((ox * sx + kx * dx : Nat) : Int) - ((0 : Nat) : Int) < ((W + l + r : Nat) : Int) := by
      omega
    have c2 : 0 ≤ ((oy * sy + ky * dy : Nat) : Int) - (t : Int) ∧ ((oy * sy + ky * dy : Nat) : Int) - (t : Int) < (H : Int) ∧
        0 ≤ ((ox * sx + kx * dx : Nat) : Int) - (l : Int) ∧ ((ox * sx + kx * dx : Nat) : Int) - (l : Int) < (W : Int) := by
      omega
    rw [if_pos c1, if_pos c2]
    apply sumRange_congr
    intro ic _
    have e1 : (((oy * sy + ky * dy : Nat) : Int) - ((0 : Nat) : Int)).toNat = oy * sy + ky * dy := by omega
    have e2 : (((ox * sx + kx * dx : Nat) : Int) - ((0 : Nat) : Int)).toNat = ox * sx + kx * dx := by omega
    have e3 : (((oy * sy + ky * dy : Nat) : Int) - (t : Int)).toNat = oy * sy + ky * dy - t := by omega
    have e4 : (((ox * sx + kx * dx : Nat) : Int) - (l : Int)).toNat = ox * sx + kx * dx - l := by omega
    rw [e1, e2, e3, e4]
    simp only [padded, hin, and_self, if_true]
  · have c2 : ¬ (0 ≤ ((oy * sy + ky * dy : Nat) : Int) - (t : Int) ∧ ((oy * sy + ky * dy : Nat) : Int) - (t : Int) < (H : Int) ∧
        0 ≤ ((ox * sx + kx * dx : Nat) : Int) - (l : Int) ∧ ((ox * sx + kx * dx : Nat) : Int) - (l : Int) < (W : Int)) := by
      intro c; apply hin; omega
    rw [if_neg c2]
    split
    · rename_i c1
      have e1 : (((oy * sy + ky * dy : Nat) : Int) - ((0 : Nat) : Int)).toNat = oy * sy + ky * dy := by omega
      have e2 : (((ox * sx + kx * dx : Nat) : Int) - ((0 : Nat) : Int)).toNat = ox * sx + kx * dx := by omega
      rw [e1, e2]
      have : ∀ ic, (padded H W ifm t l pv (oy * sy + ky * dy) (ox * sx + kx * dx) ic + inOff) * wgt ky kx ic = 0 := by
        intro ic
        simp only [padded, hin, if_false, hpv, Int.zero_mul]
      rw [sumRange_congr C _ (fun _ => 0) (fun ic _ => this ic)]
      clear this c1 c2 hin e1 e2
      induction C with
      | zero => rfl
      | succ k ih => simp only [sumRange, ih]; rfl
    · rfl

/-- the same with the executor's convolution on the unpadded tensor (hardware padding `(t, l)`, IFM zero point `zp = pv`):
    what the NPU computes after the rewrite is the reference VALID convolution over the PAD's output -/
theorem pad_conv_npu_eq (H W C t l b r : Nat) (ifm : Nat → Nat → Nat → Int) (zp : Int)
    (kh kw : Nat) (wgt : Nat → Nat → Nat → Int) (sy sx dy dx oy ox : Nat) :
    NpuSem.convAcc H W C ifm kh kw wgt sy sx dy dx t l zp oy ox =
    TfliteRef.convAcc (H + t + b) (W + l + r) C (padded H W ifm t l zp) kh kw wgt sy sx dy dx 0 0 (-zp) oy ox := by
  rw [pad_conv_eq H W C t l b r ifm zp (-zp) (by omega)]
  have h := VelaVerif.Props.C01.conv_stripe_eq H W C H 0 0 t t l kh kw sy sx dy dx ifm wgt zp oy ox (by omega)
    (by intro ky _; simp only [Nat.zero_add]; constructor <;> intro c <;> omega)
  have e : (fun y x c => ifm (0 + y) x c) = ifm := by funext y x c; rw [Nat.zero_add]
  rw [e, Nat.zero_add] at h
  exact h

/-- **`convert_depthwise_to_conv`**: with IFM depth 1 every output channel of a depthwise convolution with depth multiplier
    `M` reads input channel `oc / M = 0`; its accumulator is the convolution accumulator over the single input channel
    with the same kernel (the weights `[kh, kw, 1, M]` transposed to `[kh, kw, M, 1]`… one input channel per filter). -/
theorem dw_depth1_eq_conv (H W : Nat) (ifm : Nat → Nat → Int) (kh kw : Nat) (wgt : Nat → Nat → Int)
    (sy sx dy dx pt pl : Nat) (inOff : Int) (oy ox : Nat) :
    TfliteRef.dwAcc H W ifm kh kw wgt sy sx dy dx pt pl inOff oy ox =
    TfliteRef.convAcc H W 1 (fun y x _ => ifm y x) kh kw (fun ky kx _ => wgt ky kx) sy sx dy dx pt pl inOff oy ox := by
  unfold TfliteRef.dwAcc TfliteRef.convAcc
  apply sumRange_congr; intro ky _
  apply sumRange_congr; intro kx _
  simp only [sumRange, Int.zero_add]


/-- depthwise version -/
theorem pad_dw_eq (H W t l b r : Nat) (ifm : Nat → Nat → Int) (pv inOff : Int) (hpv : pv + inOff = 0)
    (kh kw : Nat) (wgt : Nat → Nat → Int) (sy sx dy dx oy ox : Nat) :
    TfliteRef.dwAcc (H + t + b) (W + l + r) (padded2 H W ifm t l pv) kh kw wgt sy sx dy dx 0 0 inOff oy ox =
    TfliteRef.dwAcc H W ifm kh kw wgt sy sx dy dx t l inOff oy ox := by
  have h := pad_conv_eq H W 1 t l b r (fun y x _ => ifm y x) pv inOff hpv kh kw (fun ky kx _ => wgt ky kx) sy sx dy dx oy ox
  rw [dw_depth1_eq_conv, dw_depth1_eq_conv]
  have e : padded H W (fun y x _ => ifm y x) t l pv = fun y x _ => padded2 H W ifm t l pv y x := by
    funext y x c; simp only [padded, padded2]
  rw [e] at h
  exact h

/-- **Average pool over a PAD → depthwise convolution with all-ones weights**: for a window inside the padded tensor
    (VALID pooling), the reference pooling sum is the depthwise accumulator over the unpadded tensor with hardware
    padding and input offset `-zp`, plus `zp * kh * kw` — the bias `replace_pad_by_hw_pad` adds for signed types (for
    uint8 the zero point is added back by the OFM zero point instead) — and the count is always `kh * kw` (the weight
    scale `1 / (kw * kh)`). The division itself is the executor's requantisation (translation validation). -/
theorem pad_avgpool_sum_eq (H W t l b r : Nat) (ifm : Nat → Nat → Int) (zp : Int) (fh fw sh sw oy ox : Nat)
    (hy : oy * sh + fh ≤ H + t + b) (hx : ox * sw + fw ≤ W + l + r) :
    poolSumCount (H + t + b) (W + l + r) (padded2 H W ifm t l zp) fh fw sh sw 0 0 oy ox =
      (dwAcc H W ifm fh fw (fun _ _ => 1) sh sw 1 1 t l (-zp) oy ox + zp * fh * fw, fh * fw) := by
  rw [poolSumCount_eq]
  congr 1
  · unfold dwAcc
    simp only []
    have e : ∀ ky, ky < fh → (sumRange fw fun kx =>
          if 0 ≤ ((oy * sh + ky : Nat) : Int) - ((0 : Nat) : Int) ∧ ((oy * sh + ky : Nat) : Int) - ((0 : Nat) : Int) < ((H + t + b : Nat) : Int) ∧
             0 ≤ ((ox * sw + kx : Nat) : Int) - ((0 : Nat) : Int) ∧ ((ox * sw + kx : Nat) : Int) - ((0 : Nat) : Int) < ((W + l + r : Nat) : Int)
          then padded2 H W ifm t l zp (((oy * sh + ky : Nat) : Int) - ((0 : Nat) : Int)).toNat (((ox * sw + kx : Nat) : Int) - ((0 : Nat) : Int)).toNat else 0) =
        (sumRange fw fun kx =>
          (if 0 ≤ ((oy * sh + ky * 1 : Nat) : Int) - (t : Int) ∧ ((oy * sh + ky * 1 : Nat) : Int) - (t : Int) < (H : Int) ∧
              0 ≤ ((ox * sw + kx * 1 : Nat) : Int) - (l : Int) ∧ ((ox * sw + kx * 1 : Nat) : Int) - (l : Int) < (W : Int)
           then (ifm (((oy * sh + ky * 1 : Nat) : Int) - (t : Int)).toNat (((ox * sw + kx * 1 : Nat) : Int) - (l : Int)).toNat + -zp) * 1 else 0)) + zp * fw := by
      intro ky hky
      rw [← sumRange_const fw zp, ← sumRange_add]
      apply sumRange_congr
      intro kx hkx
      have c1 : 0 ≤ ((oy * sh + ky : Nat) : Int) - ((0 : Nat) : Int) ∧ ((oy * sh + ky : Nat) : Int) - ((0 : Nat) : Int) < ((H + t + b : Nat) : Int) ∧
             0 ≤ ((ox * sw + kx : Nat) : Int) - ((0 : Nat) : Int) ∧ ((ox * sw + kx : Nat) : Int) - ((0 : Nat) : Int) < ((W + l + r : Nat) : Int) := by omega
      rw [if_pos c1]
      have e1 : (((oy * sh + ky : Nat) : Int) - ((0 : Nat) : Int)).toNat = oy * sh + ky := by omega
      have e2 : (((ox * sw + kx : Nat) : Int) - ((0 : Nat) : Int)).toNat = ox * sw + kx := by omega
      rw [e1, e2]
      simp only [Nat.mul_one]
      unfold padded2
      by_cases hin : t ≤ oy * sh + ky ∧ oy * sh + ky - t < H ∧ l ≤ ox * sw + kx ∧ ox * sw + kx - l < W
      · have c2 : 0 ≤ ((oy * sh + ky : Nat) : Int) - (t : Int) ∧ ((oy * sh + ky : Nat) : Int) - (t : Int) < (H : Int) ∧
            0 ≤ ((ox * sw + kx : Nat) : Int) - (l : Int) ∧ ((ox * sw + kx : Nat) : Int) - (l : Int) < (W : Int) := by omega
        rw [if_pos hin, if_pos c2]
        have e3 : (((oy * sh + ky : Nat) : Int) - (t : Int)).toNat = oy * sh + ky - t := by omega
        have e4 : (((ox * sw + kx : Nat) : Int) - (l : Int)).toNat = ox * sw + kx - l := by omega
        rw [e3, e4]
        omega
      · have c2 : ¬ (0 ≤ ((oy * sh + ky : Nat) : Int) - (t : Int) ∧ ((oy * sh + ky : Nat) : Int) - (t : Int) < (H : Int) ∧
            0 ≤ ((ox * sw + kx : Nat) : Int) - (l : Int) ∧ ((ox * sw + kx : Nat) : Int) - (l : Int) < (W : Int)) := by
          intro c; apply hin; omega
        rw [if_neg hin, if_neg c2]
        omega
    rw [sumRange_congr fh _ _ e, sumRange_add, sumRange_const]
    have : zp * ↑fw * ↑fh = zp * ↑fh * ↑fw := by
      rw [Int.mul_assoc, Int.mul_comm (fw : Int) fh, ← Int.mul_assoc]
    omega
  · apply foldl_add_const
    intro ky hky
    apply countRange_true
    intro kx hkx
    simp only [decide_eq_true_eq]
    omega


/-- non-vacuity: 2x2 average pool, stride 1, over a 3x3 tensor padded by (1, 1, 0, 0), zero point 3 -/
example :
    let ifm : Nat → Nat → Int := fun y x => (y * 5 + x : Nat)
    (List.range 3).map (fun oy => poolSumCount 4 4 (padded2 3 3 ifm 1 1 3) 2 2 1 1 0 0 oy 1) =
    (List.range 3).map (fun oy => (TfliteRef.dwAcc 3 3 ifm 2 2 (fun _ _ => 1) 1 1 1 1 1 1 (-3) oy 1 + 3 * 2 * 2, 2 * 2)) := by decide
example :
    let ifm : Nat → Nat → Nat → Int := fun y x c => (y * 7 + x * 3 + c : Nat)
    let wgt : Nat → Nat → Nat → Int := fun ky kx c => (ky : Int) - kx + c
    (List.range 3).map (fun oy => NpuSem.convAcc 4 4 2 ifm 3 3 wgt 2 1 1 1 1 1 5 oy 2) =
    (List.range 3).map (fun oy => TfliteRef.convAcc 6 6 2 (padded 4 4 ifm 1 1 5) 3 3 wgt 2 1 1 1 0 0 (-5) oy 2) := by decide

/-- the precondition of the model: a rejected case stays, an accepted one gets the PAD values as explicit padding -/
example : replacePadByHwPad ⟨.conv, 3, 3, 1, 1, 2, 0, 0, 0, true, true, true, false, 0⟩ = none ∧
    (replacePadByHwPad ⟨.conv, 3, 3, 1, 1, 1, 0, 1, 1, true, true, true, false, 0⟩).map (·.explicit) = some (1, 0, 1, 1) ∧
    replacePadByHwPad ⟨.avgpool, 3, 3, 1, 1, 1, 1, 1, 1, true, true, true, false, 7⟩ = some ⟨(1, 1, 1, 1), true, some .awayZero, some 63⟩ := by decide

/-! ## 3. FULLY_CONNECTED as a 1x1 convolution -/

/-- **FC = 1x1 convolution on the reshaped tensor**: with the batch rows laid out as the `h × w` positions of an NHWC
    tensor (`convert_batched_fc_shape`; `h = w = 1`... for one row) and the weights `[O, I]` read as `O` 1x1 kernels over
    `I` channels, the reference convolution accumulator at position `(y, x)` is the reference FULLY_CONNECTED
    accumulator of batch row `y * w + x`. -/
theorem fc_as_conv_eq (h w I : Nat) (x wt : Nat → Int) (inOff wOff : Int) (y xx o : Nat) (hx : xx < w) (hy : y < h) :
    TfliteRef.convAcc h w I (fun yy xc c => x ((yy * w + xc) * I + c)) 1 1 (fun _ _ ic => wt (o * I + ic) + wOff) 1 1 1 1 0 0 inOff y xx =
    fcAcc I x wt inOff wOff (y * w + xx) o := by
  unfold TfliteRef.convAcc fcAcc
  simp only [sumRange, Nat.mul_one, Nat.zero_mul, Nat.add_zero, Int.zero_add]
  have c : 0 ≤ ((y : Nat) : Int) - ((0 : Nat) : Int) ∧ ((y : Nat) : Int) - ((0 : Nat) : Int) < (h : Int) ∧
      0 ≤ ((xx : Nat) : Int) - ((0 : Nat) : Int) ∧ ((xx : Nat) : Int) - ((0 : Nat) : Int) < (w : Int) := by omega
  rw [if_pos c]
  have e1 : (((y : Nat) : Int) - ((0 : Nat) : Int)).toNat = y := by omega
  have e2 : (((xx : Nat) : Int) - ((0 : Nat) : Int)).toNat = xx := by omega
  rw [e1, e2]

/-- the position ↔ batch-row map is a bijection: every row `b < h * w` is exactly one position `(b / w, b % w)` -/
theorem batch_position (h w b : Nat) (hb : b < h * w) (hw : 0 < w) :
    b / w < h ∧ b % w < w ∧ (b / w) * w + b % w = b ∧
    ∀ y x, y < h → x < w → y * w + x = b → y = b / w ∧ x = b % w := by
  refine ⟨?_, Nat.mod_lt b hw, ?_, ?_⟩
  · exact (Nat.div_lt_iff_lt_mul hw).mpr hb
  · rw [Nat.mul_comm]; exact Nat.div_add_mod b w
  · intro y x _ hx e
    subst e
    constructor
    · rw [Nat.add_comm, Nat.add_mul_div_right _ _ hw, Nat.div_eq_of_lt hx, Nat.zero_add]
    · rw [Nat.add_comm, Nat.add_mul_mod_self_right, Nat.mod_eq_of_lt hx]

/-- the layouts of `batching_split` have exactly `n` positions (4 → 2x2, 8 → 2x4, 16 → 4x4, otherwise 1 x n) -/
theorem batchingSplit_prod (n : Nat) : (batchingSplit n).1 * (batchingSplit n).2 = n := by
  unfold batchingSplit
  split
  · omega
  · split
    · omega
    · split
      · omega
      · simp

example : rewriteFc [4, 8] 8 (1, 1, 4, 10) = some ((1, 2, 2, 8), (1, 2, 2, 10), true) := by decide
example : rewriteFc [1, 2, 3, 8] 48 (1, 1, 1, 10) = some ((1, 1, 1, 48), (1, 1, 1, 10), false) := by decide
example : rewriteFc [4, 7] 8 (1, 1, 4, 10) = none := by decide
example :
    let x : Nat → Int := fun i => (i : Int) * 3 - 20
    let wt : Nat → Int := fun i => 7 - (i : Int)
    (List.range 4).map (fun b => TfliteRef.convAcc 2 2 3 (fun yy xc c => x ((yy * 2 + xc) * 3 + c)) 1 1 (fun _ _ ic => wt (1 * 3 + ic) + 2) 1 1 1 1 0 0 5 (b / 2) (b % 2)) =
    (List.range 4).map (fun b => fcAcc 3 x wt 5 2 b 1) := by decide

/-! ## 4. Concatenation as write offsets, split as read offsets -/

/-- **Concatenation = copies at write offsets.** With the write offsets `rewrite_concat_ops` computes (prefix sums of the axis
    sizes), after all copies every coordinate `a` of the output axis holds exactly the element the reference
    concatenation puts there (`locate`: input `k`, coordinate `a - offset k`), whatever it held before. -/
theorem concat_writes_eq_ref (sizes : List Nat) (a : Nat) (h : a < (concatOffsets sizes).2) (before : Option (Nat × Nat)) :
    writtenFrom 0 (sizes.zip (concatOffsets sizes).1) a before = locate sizes a := by
  rw [concatOffsets_eq] at h ⊢
  have := written_eq_locate sizes 0 0 a before (by omega) (by simpa using h)
  rw [this]
  cases locate sizes (a - 0) <;> simp

/-- **…and every output coordinate is written exactly once** (the copies are disjoint and tile the output axis); coordinates
    beyond the end offset are written by nobody -/
theorem concat_writes_once (sizes : List Nat) (a : Nat) :
    writers (sizes.zip (concatOffsets sizes).1) a = if a < (concatOffsets sizes).2 then 1 else 0 := by
  rw [concatOffsets_eq]
  simp only []
  split
  · rename_i h
    exact writers_once sizes 0 a (by omega) (by simpa using h)
  · rename_i h
    have : ∀ (ds : List Nat) (base : Nat), base + sumL ds ≤ a → writers (ds.zip (offsFrom base ds)) a = 0 := by
      intro ds
      induction ds with
      | nil => intro base _; simp [offsFrom, writers]
      | cons d ds ih =>
        intro base hb
        rw [sumL_cons] at hb
        simp only [offsFrom, List.zip_cons_cons, writers]
        have c : ¬ (base ≤ a ∧ a < base + d) := by omega
        rw [if_neg c, ih (base + d) (by omega)]
    exact this sizes 0 (by omega)

/-- the end offset the code asserts to be the OFM size is the sum of the input sizes -/
theorem concat_end_offset (sizes : List Nat) : (concatOffsets sizes).2 = sumL sizes := by
  rw [concatOffsets_eq]

/-- **Split = read offsets**: output `idx` of a split into parts `sizes` reads the input at offset
    `splitOffset sizes idx`, which is where the reference concatenation of the parts puts part `idx` — so coordinate `j`
    of output `idx` is input coordinate `splitOffset sizes idx + j`, the element the reference SPLIT returns. -/
theorem split_offset_locates (sizes : List Nat) (idx j : Nat) (hidx : idx < sizes.length) (hj : j < sizes.getD idx 0) :
    locate sizes (splitOffset sizes idx + j) = some (idx, j) := by
  induction sizes generalizing idx with
  | nil => simp at hidx
  | cons d ds ih =>
    cases idx with
    | zero =>
      simp only [splitOffset, List.take, List.foldl, locate]
      simp only [List.getD_cons_zero] at hj
      rw [if_pos (by omega)]
      simp
    | succ k =>
      have hk : k < ds.length := by simpa using hidx
      have hj' : j < ds.getD k 0 := by simpa using hj
      have e : splitOffset (d :: ds) (k + 1) = d + splitOffset ds k := by
        unfold splitOffset
        simp only [List.take_succ_cons, List.foldl]
        have h : ∀ (l : List Nat) (a : Nat), l.foldl (· + ·) a = a + l.foldl (· + ·) 0 := by
          intro l
          induction l with
          | nil => intro a; simp
          | cons x xs ihx => intro a; simp only [List.foldl]; rw [ihx (a + x), ihx (0 + x)]; omega
        rw [h _ (0 + d)]; omega
      rw [e]
      simp only [locate]
      rw [if_neg (by omega)]
      have e2 : d + splitOffset ds k + j - d = splitOffset ds k + j := by omega
      rw [e2, ih k hk hj']
      simp

/-- equal parts (the reference SPLIT: `k * (d / num)`) -/
theorem split_offset_equal_parts (num part idx : Nat) (h : idx ≤ num) :
    splitOffset (List.replicate num part) idx = idx * part := by
  unfold splitOffset
  rw [List.take_replicate, Nat.min_eq_left h]
  induction idx with
  | zero => simp
  | succ k ih =>
    have ih' := ih (by omega)
    rw [List.replicate_succ', List.foldl_append, ih']
    simp only [List.foldl]
    rw [Nat.succ_mul]

example : concatOffsets [3, 5, 2] = ([0, 3, 8], 10) := by decide
example : (List.range 10).map (fun a => writtenFrom 0 ([3, 5, 2].zip (concatOffsets [3, 5, 2]).1) a none) = (List.range 10).map (locate [3, 5, 2]) := by decide
example : locate [3, 5, 2] 8 = some (2, 0) ∧ splitOffset [3, 5, 2] 2 = 8 := by decide
example : axis4D 3 2 = some 3 ∧ axis4D 4 (-1) = some 3 ∧ axis4D 2 0 = some 2 := by decide

/-! ## 5b. Width folding of a strided convolution (`fixup_strided_conv`) -/

/-- **Width folding is the same convolution exactly when the filter is aligned.** Original: IFM `[H, r * W', C]`, kernel
    `kh × kw`, stride `(sy, r * f)`, hardware padding `(pt, pl)`. Folded: IFM `[H, W', r * C]` (`foldedIfm`: the same
    memory), the filter padded with `L` zero columns on the left and `R` on the right to a width `kw' * r` and folded the same
    way (`foldedFilter`), stride `(sy, f)`, hardware padding `(pt, pl')`. If `L + pl = r * pl'` — the first filter column
    falls on a folded-column boundary counted from the first padded IFM column — every accumulator of the folded
    convolution equals the accumulator of the original one (all positions, all tensors, all zero points).
    This equation is what repair C01-18 establishes (`pl' = ⌈pl / r⌉`, `L = r * pl' - pl`, explicit padding); the unrepaired
    `calc_filter_padding` does not (known finding `strided-conv-fold:filter-zero-padding-misaligned`). -/
theorem strided_conv_fold_eq (H W' C r kh kw kw' L R sy f pt pl pl' : Nat) (hC : 0 < C) (hr : 0 < r)
    (hk : L + kw + R = kw' * r) (hal : L + pl = r * pl')
    (ifm wgt : Nat → Nat → Nat → Int) (inOff : Int) (oy ox : Nat) :
    convAcc H (r * W') C ifm kh kw wgt sy (r * f) 1 1 pt pl inOff oy ox =
    convAcc H W' (r * C) (foldedIfm r C ifm) kh kw' (foldedFilter r C L kw wgt) sy f 1 1 pt pl' inOff oy ox := by
  unfold convAcc
  apply sumRange_congr
  intro ky _
  simp only []
  -- the summand of the folded convolution per padded-filter column kxp = kx' * r + j
  let D : Nat → Int := fun kxp =>
    if 0 ≤ ((oy * sy + ky * 1 : Nat) : Int) - (pt : Int) ∧ ((oy * sy + ky * 1 : Nat) : Int) - (pt : Int) < (H : Int) ∧
       0 ≤ ((ox * f + kxp / r * 1 : Nat) : Int) - (pl' : Int) ∧ ((ox * f + kxp / r * 1 : Nat) : Int) - (pl' : Int) < (W' : Int)
    then sumRange C fun c =>
      (ifm (((oy * sy + ky * 1 : Nat) : Int) - (pt : Int)).toNat (r * (((ox * f + kxp / r * 1 : Nat) : Int) - (pl' : Int)).toNat + kxp % r) c + inOff) *
        paddedFilter L kw wgt ky kxp c
    else 0
  -- right-hand side as a sum of D over the padded filter columns
  have hR : (sumRange kw' fun kx' =>
      if 0 ≤ ((oy * sy + ky * 1 : Nat) : Int) - (pt : Int) ∧ ((oy * sy + ky * 1 : Nat) : Int) - (pt : Int) < (H : Int) ∧
         0 ≤ ((ox * f + kx' * 1 : Nat) : Int) - (pl' : Int) ∧ ((ox * f + kx' * 1 : Nat) : Int) - (pl' : Int) < (W' : Int)
      then sumRange (r * C) fun ic =>
        (foldedIfm r C ifm (((oy * sy + ky * 1 : Nat) : Int) - (pt : Int)).toNat (((ox * f + kx' * 1 : Nat) : Int) - (pl' : Int)).toNat ic + inOff) *
          foldedFilter r C L kw wgt ky kx' ic
      else 0) = sumRange (kw' * r) D := by
    rw [sumRange_mul kw' r D]
    apply sumRange_congr
    intro kx' _
    have hdiv : ∀ j, j < r → (kx' * r + j) / r = kx' ∧ (kx' * r + j) % r = j := by
      intro j hj
      constructor
      · rw [Nat.add_comm, Nat.add_mul_div_right _ _ hr, Nat.div_eq_of_lt hj, Nat.zero_add]
      · rw [Nat.add_comm, Nat.add_mul_mod_self_right, Nat.mod_eq_of_lt hj]
    split
    · rename_i hv
      rw [sumRange_mul r C]
      apply sumRange_congr
      intro j hj
      have ⟨d1, d2⟩ := hdiv j hj
      simp only [D, d1, d2]
      rw [if_pos hv]
      apply sumRange_congr
      intro c hc
      have c1 : (j * C + c) / C = j := by
        rw [Nat.add_comm, Nat.add_mul_div_right _ _ hC, Nat.div_eq_of_lt hc, Nat.zero_add]
      have c2 : (j * C + c) % C = c := by
        rw [Nat.add_comm, Nat.add_mul_mod_self_right, Nat.mod_eq_of_lt hc]
      simp only [foldedIfm, foldedFilter, c1, c2]
      rw [Nat.mul_comm r kx']
    · rename_i hv
      have : ∀ j, j < r → D (kx' * r + j) = 0 := by
        intro j hj
        have ⟨d1, _⟩ := hdiv j hj
        simp only [D, d1]
        rw [if_neg hv]
      rw [sumRange_congr r _ (fun _ => 0) this, sumRange_zero_fn]
  rw [hR, ← hk]
  -- D vanishes on the zero columns of the padded filter
  have hz : ∀ k, k < L + kw + R → (k < L ∨ L + kw ≤ k) → D k = 0 := by
    intro k _ hout
    simp only [D]
    split
    · have : ∀ c, paddedFilter L kw wgt ky k c = 0 := by
        intro c
        unfold paddedFilter
        rw [if_neg (by omega)]
      simp only [this, Int.mul_zero]
      exact sumRange_zero_fn C
    · rfl
  rw [sumRange_window L kw R D hz]
  apply sumRange_congr
  intro kx hkx
  -- D (L + kx) is the summand of the original convolution
  have hj : (L + kx) % r < r := Nat.mod_lt _ hr
  have hdm : r * ((L + kx) / r) + (L + kx) % r = L + kx := Nat.div_add_mod _ r
  have ⟨hiff, hnat⟩ := fold_index r W' f ox kx L pl pl' ((L + kx) / r) ((L + kx) % r) hr hal hdm hj
  simp only [D]
  by_cases hv : 0 ≤ ((oy * sy + ky * 1 : Nat) : Int) - (pt : Int) ∧ ((oy * sy + ky * 1 : Nat) : Int) - (pt : Int) < (H : Int) ∧
      0 ≤ ((ox * (r * f) + kx * 1 : Nat) : Int) - (pl : Int) ∧ ((ox * (r * f) + kx * 1 : Nat) : Int) - (pl : Int) < ((r * W' : Nat) : Int)
  · have hv' := hiff.mp ⟨hv.2.2.1, hv.2.2.2⟩
    rw [if_pos hv, if_pos ⟨hv.1, hv.2.1, hv'.1, hv'.2⟩]
    apply sumRange_congr
    intro c _
    rw [hnat hv'.1]
    unfold paddedFilter
    rw [if_pos (by omega)]
    have : L + kx - L = kx := by omega
    rw [this]
  · have hv2 : ¬ (0 ≤ ((oy * sy + ky * 1 : Nat) : Int) - (pt : Int) ∧ ((oy * sy + ky * 1 : Nat) : Int) - (pt : Int) < (H : Int) ∧
        0 ≤ ((ox * f + (L + kx) / r * 1 : Nat) : Int) - (pl' : Int) ∧ ((ox * f + (L + kx) / r * 1 : Nat) : Int) - (pl' : Int) < (W' : Int)) := by
      intro c
      apply hv
      have := hiff.mpr ⟨c.2.2.1, c.2.2.2⟩
      exact ⟨c.1, c.2.1, this.1, this.2⟩
    rw [if_neg hv, if_neg hv2]

/-- non-vacuity: kernel 3 wide, stride 4 = 2 * 2, left padding 1 on a 6-wide IFM folded by 2 (`L = 1`, `R = 0`, `pl' = 1`) -/
example :
    let ifm : Nat → Nat → Nat → Int := fun y x c => (y * 7 + x * 3 + c : Nat)
    let wgt : Nat → Nat → Nat → Int := fun ky kx c => (ky : Int) - 2 * kx + c
    (List.range 2).map (fun ox => TfliteRef.convAcc 2 (2 * 3) 2 ifm 1 3 wgt 1 (2 * 2) 1 1 0 1 (-1) 1 ox) =
    (List.range 2).map (fun ox => TfliteRef.convAcc 2 3 (2 * 2) (foldedIfm 2 2 ifm) 1 2 (foldedFilter 2 2 1 3 wgt) 1 2 1 1 0 1 (-1) 1 ox) := by
  decide

/-- the alignment is needed: the same filter with the zero column on the other side (`L = 0`, `R = 1`, `pl' = 1`, so
    `L + pl = 1 ≠ 2 = r * pl'`) computes something else -/
theorem strided_conv_misaligned_witness :
    let ifm : Nat → Nat → Nat → Int := fun y x c => (y * 7 + x * 3 + c : Nat)
    let wgt : Nat → Nat → Nat → Int := fun ky kx c => (ky : Int) - 2 * kx + c
    TfliteRef.convAcc 2 (2 * 3) 2 ifm 1 3 wgt 1 (2 * 2) 1 1 0 1 (-1) 1 1 ≠
    TfliteRef.convAcc 2 3 (2 * 2) (foldedIfm 2 2 ifm) 1 2 (foldedFilter 2 2 0 3 wgt) 1 2 1 1 0 1 (-1) 1 1 := by
  decide

/-! ## 7. Dilation above 2 in software (`fixup_dilation_gt2`) -/

/-- **A convolution with dilation `hw * sc` is the convolution with hardware dilation `hw` over the stretched kernel**
    (`sparseFilter`: size `(k - 1) * sc + 1`, the original taps at the multiples of `sc`, neutral taps between them), for every
    position, stride, padding and both axes independently. "Neutral" means zero-point-corrected value 0, i.e. the *raw*
    inserted value must be the zero point of the weights — the unrepaired code inserts raw 0 (known finding
    `software-dilation:inserted-taps-zero-instead-of-weight-zero-point`, patch C01-24). -/
theorem dilation_fold_eq (H W C kh kw sch scw hwh hww : Nat) (hkh : 0 < kh) (hkw : 0 < kw) (hsch : 0 < sch) (hscw : 0 < scw)
    (ifm wgt : Nat → Nat → Nat → Int) (sy sx pt pl : Nat) (inOff : Int) (oy ox : Nat) :
    convAcc H W C ifm kh kw wgt sy sx (hwh * sch) (hww * scw) pt pl inOff oy ox =
    convAcc H W C ifm ((kh - 1) * sch + 1) ((kw - 1) * scw + 1) (sparseFilter sch scw wgt) sy sx hwh hww pt pl inOff oy ox := by
  unfold convAcc
  have inner : ∀ ky', (sumRange ((kw - 1) * scw + 1) fun kx' =>
      if 0 ≤ ((oy * sy + ky' * hwh : Nat) : Int) - (pt : Int) ∧ ((oy * sy + ky' * hwh : Nat) : Int) - (pt : Int) < (H : Int) ∧
         0 ≤ ((ox * sx + kx' * hww : Nat) : Int) - (pl : Int) ∧ ((ox * sx + kx' * hww : Nat) : Int) - (pl : Int) < (W : Int)
      then sumRange C fun ic => (ifm (((oy * sy + ky' * hwh : Nat) : Int) - (pt : Int)).toNat (((ox * sx + kx' * hww : Nat) : Int) - (pl : Int)).toNat ic + inOff) *
        sparseFilter sch scw wgt ky' kx' ic
      else 0) =
      sumRange kw fun kx =>
        if 0 ≤ ((oy * sy + ky' * hwh : Nat) : Int) - (pt : Int) ∧ ((oy * sy + ky' * hwh : Nat) : Int) - (pt : Int) < (H : Int) ∧
           0 ≤ ((ox * sx + kx * scw * hww : Nat) : Int) - (pl : Int) ∧ ((ox * sx + kx * scw * hww : Nat) : Int) - (pl : Int) < (W : Int)
        then sumRange C fun ic => (ifm (((oy * sy + ky' * hwh : Nat) : Int) - (pt : Int)).toNat (((ox * sx + kx * scw * hww : Nat) : Int) - (pl : Int)).toNat ic + inOff) *
          sparseFilter sch scw wgt ky' (kx * scw) ic
        else 0 := by
    intro ky'
    apply sumRange_sparse kw scw hkw hscw
    intro k hk
    split
    · have : ∀ ic, sparseFilter sch scw wgt ky' k ic = 0 := by
        intro ic; unfold sparseFilter; rw [if_neg (fun c => hk c.2)]
      simp only [this, Int.mul_zero]
      exact sumRange_zero_fn C
    · rfl
  simp only [inner]
  rw [sumRange_sparse kh sch hkh hsch _ (by
    intro k hk
    apply sumRange_zero_of
    intro kx _
    split
    · have : ∀ ic, sparseFilter sch scw wgt k (kx * scw) ic = 0 := by
        intro ic; unfold sparseFilter; rw [if_neg (fun c => hk c.1)]
      simp only [this, Int.mul_zero]
      exact sumRange_zero_fn C
    · rfl)]
  apply sumRange_congr; intro ky _
  apply sumRange_congr; intro kx _
  have e1 : ky * sch * hwh = ky * (hwh * sch) := by rw [Nat.mul_assoc, Nat.mul_comm sch hwh]
  have e2 : kx * scw * hww = kx * (hww * scw) := by rw [Nat.mul_assoc, Nat.mul_comm scw hww]
  have e3 : ∀ ic, sparseFilter sch scw wgt (ky * sch) (kx * scw) ic = wgt ky kx ic := by
    intro ic
    unfold sparseFilter
    rw [if_pos ⟨Nat.mul_mod_left ky sch, Nat.mul_mod_left kx scw⟩, Nat.mul_div_cancel _ hsch, Nat.mul_div_cancel _ hscw]
  simp only [e1, e2, e3]

example :
    let ifm : Nat → Nat → Nat → Int := fun y x c => (y * 7 + x * 3 + c : Nat)
    let wgt : Nat → Nat → Nat → Int := fun ky kx c => (ky : Int) - 2 * kx + c
    (List.range 3).map (fun ox => TfliteRef.convAcc 9 9 2 ifm 2 3 wgt 1 1 (1 * 3) (2 * 2) 1 2 (-1) 1 ox) =
    (List.range 3).map (fun ox => TfliteRef.convAcc 9 9 2 ifm ((2 - 1) * 3 + 1) ((3 - 1) * 2 + 1) (sparseFilter 3 2 wgt) 1 1 1 2 1 2 (-1) 1 ox) := by
  decide
example : fixupDilation 3 3 3 4 = some ⟨1, 2, 3, 2, 7, 5⟩ ∧ fixupDilation 3 3 2 1 = none := by decide
/-- the hardware dilation times the stretch is the original dilation (so `dilation_fold_eq` applies to what the model returns) -/
theorem fixupDilation_factors (kw kh dw dh : Nat) (o : DilationOut) (hw0 : 0 < dw) (hh0 : 0 < dh)
    (h : fixupDilation kw kh dw dh = some o) :
    o.hwW * o.scW = dw ∧ o.hwH * o.scH = dh ∧ 0 < o.scW ∧ 0 < o.scH ∧
    o.kw = (kw - 1) * o.scW + 1 ∧ o.kh = (kh - 1) * o.scH + 1 := by
  unfold fixupDilation at h
  split at h
  · cases h
    simp only []
    refine ⟨?_, ?_, ?_, ?_, ?_, ?_⟩ <;> first | trivial | (split <;> omega)
  · cases h

/-! ## 5. Depthwise convolution with one input channel -/

-- (theorem `dw_depth1_eq_conv` is stated in section 2, where it is first used)

example : convertDepthwiseToConv 4 1 4 = .toConv ∧ convertDepthwiseToConv 1 8 8 = .keep ∧ convertDepthwiseToConv 2 3 6 = .unsupported := by decide
example : ∀ oc, oc < 4 → oc / 4 = 0 := by omega

end VelaVerif.Props.C01Rewrites
