import VelaVerif.Lemmas.Rewrites
import Mathlib.Algebra.Order.Field.Basic
import Mathlib.Tactic.Linarith
import Mathlib.Tactic.Ring
/-!
# C01 — graph-optimiser rewrites preserve what the operator computes

For each rewrite modelled in `Model/Rewrites.lean` (the correspondence stream `harness/c01_rewrites.py` compares the
model with the real function): the operator(s) the rewrite leaves behind compute, under the reference semantics of
`Spec/TfliteRef.lean` / `Spec/RewriteSem.lean`, the tensor the original operator computes — for all tensors and all
parameters in the rewrite's precondition. Where the precondition the code checks is too weak, the statement is proved
for the repaired precondition and the negation is proved on a concrete witness (`…_witness`).
-/
namespace VelaVerif.Props.C01Rewrites
open VelaVerif.Requant VelaVerif.TfliteRef VelaVerif.RewriteSem VelaVerif.Rewrites VelaVerif.Lemmas.Rewrites

/-! ## 6. Activation ranges of a pass are intersected -/

/-- **Clamp composition.** Applying the fused activation of the primary operator and then the RELU-type operators of the
    pass one after the other equals the single clamp `generate_high_level_commands_for_sched_op` leaves on the primary
    operator (`passActivation`: lower bounds combined with `max`, upper bounds with `min`, `None` = unbounded), whenever
    that final range is non-empty. -/
theorem pass_activation_eq_sequential (fused : Option (ActRange Int)) (ops : List (ActRange Int)) (x : Int)
    (hne : finalNonempty (passActivation fused ops)) :
    clampSeq ops (clampOpt fused x) = clampOpt (passActivation fused ops) x :=
  pass_activation_seq ops fused x hne

/-- the two-clamp form of the task statement: `clamp a b (clamp c d x) = clamp (max a c) (min b d) x` for a non-empty
    intersection (reference `clamp`) -/
theorem clamp_clamp_eq (a b c d x : Int) (hne : max a c ≤ min b d) :
    clamp (clamp x c d) a b = clamp x (max a c) (min b d) := by
  unfold clamp
  repeat' split
  all_goals omega

/-- the intersection is necessary: with disjoint ranges the composition is not the clamp to (max, min) -/
theorem clamp_clamp_disjoint_witness : clamp (clamp 7 0 1) 5 6 ≠ clamp 7 (max 5 0) (min 6 1) := by decide

/-- quantising the bounds commutes with intersecting them (any monotone quantisation function) -/
theorem quantise_isect (f : Int → Int) (hf : ∀ a b, a ≤ b → f a ≤ f b) (a b : Int) :
    f (max a b) = max (f a) (f b) ∧ f (min a b) = min (f a) (f b) := by
  constructor
  · by_cases h : a ≤ b
    · have := hf a b h
      rw [Int.max_eq_right h, Int.max_eq_right this]
    · have h' : b ≤ a := by omega
      have := hf b a h'
      rw [Int.max_eq_left h', Int.max_eq_left this]
  · by_cases h : a ≤ b
    · have := hf a b h
      rw [Int.min_eq_left h, Int.min_eq_left this]
    · have h' : b ≤ a := by omega
      have := hf b a h'
      rw [Int.min_eq_right h', Int.min_eq_right this]

/-- non-vacuity: CONV fused RELU6, then RELU_N1_TO_1, then RELU: the pass clamps to [0, 1] -/
example : passActivation (some ReluKind.relu6.range) [ReluKind.reluN1To1.range, ReluKind.relu.range] = some ⟨some 0, some 1⟩ := by decide
example : (List.range 12).map (fun (i : Nat) => clampSeq [ReluKind.reluN1To1.range, ReluKind.relu.range] (clampOpt (some ReluKind.relu6.range) ((i : Int) - 4))) =
    (List.range 12).map (fun (i : Nat) => clampOpt (passActivation (some ReluKind.relu6.range) [ReluKind.reluN1To1.range, ReluKind.relu.range]) ((i : Int) - 4)) := by decide
example : finalNonempty (passActivation (some ReluKind.relu6.range) [ReluKind.reluN1To1.range, ReluKind.relu.range]) := by decide

/-! ## 1. LeakyReLU as Maximum / Minimum of multiplications -/

section Real
variable {α : Type} [Field α] [LinearOrder α] [IsStrictOrderedRing α]

/-- LeakyReLU over an ordered field -/
def lrelu (a x : α) : α := if 0 ≤ x then x else a * x

/-- `LeakyReLU(x) = max(x, alpha * x)` for `alpha ≤ 1` (the code uses this form for `0 < alpha < 1`) -/
theorem lrelu_eq_max (a x : α) (h1 : a ≤ 1) : lrelu a x = max x (a * x) := by
  unfold lrelu
  split
  · rename_i hx
    have : a * x ≤ x := by nlinarith
    rw [max_eq_left this]
  · rename_i hx
    have hx' : x < 0 := lt_of_not_ge hx
    have : x ≤ a * x := by nlinarith
    rw [max_eq_right this]

/-- `LeakyReLU(x) = min(x, alpha * x)` for `alpha ≥ 1` -/
theorem lrelu_eq_min (a x : α) (h1 : 1 ≤ a) : lrelu a x = min x (a * x) := by
  unfold lrelu
  split
  · rename_i hx
    have : x ≤ a * x := by nlinarith
    rw [min_eq_left this]
  · rename_i hx
    have hx' : x < 0 := lt_of_not_ge hx
    have : a * x ≤ x := by nlinarith
    rw [min_eq_right this]

/-- what `convert_lrelu_to_mul_max` builds when `alpha` is not in (0, 1) — `Add(Mul(Minimum(x, 0), alpha), Relu(x))` —
    is LeakyReLU for *every* alpha (negative and above one included) -/
theorem lrelu_eq_relu_add_min (a x : α) : lrelu a x = max x 0 + a * min x 0 := by
  unfold lrelu
  split
  · rename_i hx
    rw [max_eq_left hx, min_eq_right hx]; ring
  · rename_i hx
    have hx' : x ≤ 0 := le_of_lt (lt_of_not_ge hx)
    rw [max_eq_right hx', min_eq_left hx']; ring

/-- the Maximum form is wrong above one: this is why the code must not (and does not) use it there -/
theorem lrelu_max_gt1_witness : lrelu (2 : ℚ) 1 ≠ max (1 : ℚ) (2 * 1) := by
  unfold lrelu; norm_num

example : lrelu (1 / 2 : ℚ) (-4) = max (-4 : ℚ) (1 / 2 * -4) := lrelu_eq_max _ _ (by norm_num)
example : lrelu (-3 : ℚ) (-4) = 12 := by unfold lrelu; norm_num
end Real

/-- **Quantised, equal IFM/OFM scaling** (`fm_id = ifm`): `Maximum(Mul(x, alpha), x)` under the reference MUL and
    MAXIMUM equals the reference LEAKY_RELU (identity multiplier of equal scales `(2^30, 1)`) for every element `v`
    of the tensor's type range `[lo, hi]`, every zero point and every alpha multiplier `(am, as)` of a real value below
    one (`0 ≤ am < 2^31`, `as ≤ 0` — what `QuantizeMultiplier` returns for `alpha < 1` with equal scales). -/
theorem lrelu_mulmax_direct_eq (v zp am as lo hi : Int) (hlo : lo ≤ v) (hhi : v ≤ hi)
    (hm0 : 0 ≤ am) (hm : am < 2147483648) (hs : as ≤ 0) :
    lreluMulMaxDirect v zp am as lo hi = lreluRef v zp zp 1073741824 1 am as lo hi := by
  unfold lreluMulMaxDirect lreluRef mulConst mulElem
  have e1 : (v + -zp) * (1 + -0) = v - zp := by omega
  rw [e1]
  simp only [mbqm_identity]
  have hlh : lo ≤ hi := by omega
  by_cases hx : v - zp ≥ 0
  · simp only [hx, if_true]
    have c := mbqm_contract_nonneg (v - zp) am as hx hm0 hm hs
    have e2 : zp + (v - zp) = v := by omega
    rw [e2, clamp_id v lo hi hlo hhi]
    have := clamp_mono (mbqm (v - zp) am as + zp) v lo hi hlh (by omega)
    rw [clamp_id v lo hi hlo hhi] at this
    omega
  · simp only [hx, if_false]
    have c := mbqm_contract_neg (v - zp) am as (by omega) hm0 hm hs
    have := clamp_mono v (mbqm (v - zp) am as + zp) lo hi hlh (by omega)
    rw [clamp_id v lo hi hlo hhi] at this
    have e3 : zp + mbqm (v - zp) am as = mbqm (v - zp) am as + zp := by omega
    rw [e3]
    omega

example : (List.range 40).map (fun (i : Nat) => lreluMulMaxDirect ((i : Int) - 20) 3 1717986918 (-3) (-128) 127) =
    (List.range 40).map (fun (i : Nat) => lreluRef ((i : Int) - 20) 3 3 1073741824 1 1717986918 (-3) (-128) 127) := by decide

/-- **Quantised, differing scalings** (`Maximum(Mul(x, alpha), Mul(x, 1))`): NOT bit-exact. The two multiplications
    round twice each (`SaturatingRoundingDoublingHighMul` to nearest-up, `RoundingDivideByPOT` away from zero), so for a
    negative element the identity branch can come out one above the alpha branch although `alpha < 1`:
    identity multiplier 1/2 = `(2^30, 0)`, alpha multiplier 0.499 = `(2143188680, -1)` (alpha = 0.998), `x = -5`:
    reference `-3`, Maximum form `-2`. Reproduced on the compiled model (known finding
    `int16-lrelu-mul-max-rounds-each-branch`). -/
theorem lrelu_mulmax_id_witness :
    lreluMulMaxId (-5) 0 0 1073741824 0 2143188680 (-1) (-32768) 32767 = -2 ∧
    lreluRef (-5) 0 0 1073741824 0 2143188680 (-1) (-32768) 32767 = -3 := by decide

/-! ### the inverse: `Maximum(x, Mul(x, c))` → LeakyRelu / Abs / Relu (`convert_mul_max_to_abs_or_lrelu`) -/

/-- **`Maximum(x, Mul(x, c))` is the LeakyRelu table** built from `alpha_scaling = (a, m, s)`, `a = q - zp_c ≥ 0`, when the
    real multiplier `a * m * 2^(s - 31)` is at most one (`s ≤ 0`): for every element of the type range. -/
theorem mulmax_lrelu_eq (v zp q zpC m s lo hi : Int) (hlo : lo ≤ v) (hhi : v ≤ hi)
    (ha : 0 ≤ q - zpC) (hm0 : 0 ≤ m) (hs : s ≤ 0)
    (hreal : (q - zpC) * m ≤ 2147483648 * (2 : Int) ^ (-s).toNat) :
    mulMaxOrig v zp q zpC m s lo hi = lreluLutEntry v zp (q - zpC) m s lo hi := by
  unfold mulMaxOrig lreluLutEntry mulConst mulElem
  have e1 : (v + -zp) * (q + -zpC) = (q - zpC) * (v - zp) := by
    rw [Int.mul_comm]; rfl
  rw [e1, mbqm_identity]
  have hlh : lo ≤ hi := by omega
  have e2 : zp + (v - zp) = v := by omega
  by_cases hx : v < zp
  · simp only [hx, if_true]
    have c := mbqm_scaled_neg (q - zpC) (v - zp) m s ha (by omega) hm0 hs hreal
    have := clamp_mono v (mbqm ((q - zpC) * (v - zp)) m s + zp) lo hi hlh (by omega)
    rw [clamp_id v lo hi hlo hhi] at this
    have e3 : zp + mbqm ((q - zpC) * (v - zp)) m s = mbqm ((q - zpC) * (v - zp)) m s + zp := by omega
    rw [e3]
    omega
  · simp only [hx, if_false]
    have c := mbqm_scaled_nonneg (q - zpC) (v - zp) m s ha (by omega) hm0 hs hreal
    rw [e2, clamp_id v lo hi hlo hhi]
    have := clamp_mono (mbqm ((q - zpC) * (v - zp)) m s + zp) v lo hi hlh (by omega)
    rw [clamp_id v lo hi hlo hhi] at this
    omega

/-- `c = 0` (`q = zp_c`): `Maximum(x, Mul(x, 0))` is RELU (zero point inside the type range) -/
theorem mulmax_relu_eq (v zp q m s lo hi : Int) (hlo : lo ≤ v) (hhi : v ≤ hi) (hz1 : lo ≤ zp) (hz2 : zp ≤ hi) :
    mulMaxOrig v zp q q m s lo hi = reluEntry v zp lo hi := by
  unfold mulMaxOrig reluEntry mulConst mulElem
  have e1 : (v + -zp) * (q + -q) = 0 := by
    have : q + -q = 0 := by omega
    rw [this, Int.mul_zero]
  have e0 : mbqm 0 m s = 0 := by
    unfold mbqm
    have hns : ¬ ((0 : Int) * (2 : Int) ^ (if s > 0 then s.toNat else 0) = INT32_MIN ∧ m = INT32_MIN) := by
      intro h; have := h.1; simp [INT32_MIN] at this
    simp only []
    rw [VelaVerif.Lemmas.Sem.srdhm_floor _ _ hns, VelaVerif.Lemmas.Sem.rdivpot_cases]
    simp only [Int.zero_mul]
    have hp := VelaVerif.Lemmas.Sem.two_pow_pos (if s > 0 then 0 else (-s).toNat)
    generalize (2 : Int) ^ (if s > 0 then 0 else (-s).toNat) = P at *
    have : ((0 : Int) + 1073741824) / 2147483648 = 0 := by decide
    rw [this]
    simp only [Int.zero_ediv, Int.zero_emod]
    split
    · omega
    · split
      · omega
      · rfl
  rw [e1, e0]
  unfold clamp
  repeat' split
  all_goals omega

/-- `c = -1` with scale one (`q - zp_c = -1`, multiplier `(2^30, 1)`): `Maximum(x, Mul(x, -1))` is ABS -/
theorem mulmax_abs_eq (v zp q zpC lo hi : Int) (hlo : lo ≤ v) (hhi : v ≤ hi) (ha : q - zpC = -1) :
    mulMaxOrig v zp q zpC 1073741824 1 lo hi = absEntry v zp lo hi := by
  unfold mulMaxOrig absEntry mulConst mulElem
  have e1 : (v + -zp) * (q + -zpC) = -(v - zp) := by
    have : q + -zpC = -1 := by omega
    rw [this]; omega
  rw [e1, mbqm_identity]
  have hlh : lo ≤ hi := by omega
  by_cases hx : v - zp ≥ 0
  · simp only [hx, if_true]
    have e2 : zp + (v - zp) = v := by omega
    rw [e2, clamp_id v lo hi hlo hhi]
    have := clamp_mono (-(v - zp) + zp) v lo hi hlh (by omega)
    rw [clamp_id v lo hi hlo hhi] at this
    omega
  · simp only [hx, if_false]
    have := clamp_mono v (-(v - zp) + zp) lo hi hlh (by omega)
    rw [clamp_id v lo hi hlo hhi] at this
    have e3 : zp + -(v - zp) = -(v - zp) + zp := by omega
    rw [e3]
    omega

/-- **The decision of the unrepaired code (on the quantised value `q`) is unsound**, three ways (all reproduced on
    compiled models; known findings `mul-max-to-lrelu-…`):
    * `c = 2 > 1` (`q = 2`, `zp_c = 0`, scale 1): taken for a LeakyRelu, `x = 10` gives 10 instead of 20;
    * `q = 0` with `zp_c = 10` (`c = -10`): `alpha = q = 0` makes it a RELU, `x = -1` gives 0 instead of 10;
    * `q = -1` with `zp_c = 1` (`c = -2`): taken for an ABS, `x = -3` gives 3 instead of 6. -/
theorem mulmax_old_decision_witness :
    mulMaxPlanEval (mulMaxPlanOld 2 0) 10 0 2 0 1073741824 1 (-128) 127 ≠ mulMaxOrig 10 0 2 0 1073741824 1 (-128) 127 ∧
    mulMaxPlanEval (mulMaxPlanOld 0 10) (-1) 0 0 10 1073741824 1 (-128) 127 ≠ mulMaxOrig (-1) 0 0 10 1073741824 1 (-128) 127 ∧
    mulMaxPlanEval (mulMaxPlanOld (-1) 1) (-3) 0 (-1) 1 1073741824 1 (-128) 127 ≠ mulMaxOrig (-3) 0 (-1) 1 1073741824 1 (-128) 127 := by
  decide

/-- the repaired decision (on the real value) leaves those three alone (scale 1.0 = 0x3F800000) -/
example : mulMaxPlan 2 0 1065353216 = some .keep ∧ mulMaxPlan 0 10 1065353216 = some .keep ∧
    mulMaxPlan (-1) 1 1065353216 = some .keep := by decide
/-- … and still rewrites the sound cases: `c = 127/254 = 1/2` (scale 2^-8·(1+…)), `c = 0`, `c = -1` -/
example : mulMaxPlan 127 (-128) 998244352 = some (.lrelu 255 false) ∧ mulMaxPlan 5 5 1065353216 = some (.lrelu 0 true) ∧
    mulMaxPlan (-1) 0 1065353216 = some .abs := by decide
example : (List.range 30).map (fun (i : Nat) => mulMaxOrig ((i : Int) - 15) 2 127 (-128) 1077952577 (-8) (-128) 127) =
    (List.range 30).map (fun (i : Nat) => lreluLutEntry ((i : Int) - 15) 2 255 1077952577 (-8) (-128) 127) := by decide

end VelaVerif.Props.C01Rewrites
