import VelaVerif.Lemmas.PyRt
import VelaVerif.Model.Constraints
import VelaVerif.Gen.SrcTfliteSupportedOperators
import VelaVerif.Gen.SrcOperation
/-!
# C16 (source tie) — the boolean part of the integer range constraints of `tflite_supported_operators.py`, translated
from the source text, equals the predicates `Sup.*` of `Model/Constraints.lean`

`Gen/SrcTfliteSupportedOperators.lean` / `Gen/SrcOperation.lean` are regenerated from /repo's source text on every run.
The constraint functions return `(valid, message)`; the translation is of `valid` (wrapper assumptions, stated in
`harness/tables/_src.py`: `docstring_format_args` only formats `__doc__`; the f-string has no effect;
`op.get_kernel_stride()` and `cls.<x>_range` are pairs of integers — the theorems quantify over them; `op.kernel.height`,
`op.kernel.area_height()`, … are integers — tied to the model's `Kern` by the `Kernel.*` theorems below).
The model reads the operator through `kernelStride d` / `kernel d` (which may raise: the theorems are about the
operators for which they return), and the ranges from `Params`.
-/
namespace VelaVerif.Props.C16Src
open VelaVerif VelaVerif.PyRt VelaVerif.Constraints
open VelaVerif.Gen.SrcTfliteSupportedOperators VelaVerif.Gen.SrcOperation

/-- `Kernel.elements_wh()` = `k.w * k.h` (what `Sup.filter_product_range` compares) -/
theorem src_kernel_elements_wh_eq_model (k : Kern) :
    Kernel__elements_wh (.py k.h) (.py k.w) = .ok (.py (k.w * k.h)) := by
  py_exec [Kernel__elements_wh]

/-- `Kernel.area_width()` = `Kern.areaW` -/
theorem src_kernel_area_width_eq_model (k : Kern) :
    Kernel__area_width (.py k.dx) (.py k.w) = .ok (.py k.areaW) := by
  py_exec [Kernel__area_width, Kern.areaW]

/-- `Kernel.area_height()` = `Kern.areaH` -/
theorem src_kernel_area_height_eq_model (k : Kern) :
    Kernel__area_height (.py k.dy) (.py k.h) = .ok (.py k.areaH) := by
  py_exec [Kernel__area_height, Kern.areaH]

/-- `constraint_stride_range`: for every operator whose stride the model can read and every range, the translated
    function and `Sup.stride_range` both return the same boolean -/
theorem src_constraint_stride_range_eq_model (P : Params) (d : OpDesc) (w h : Int)
    (hs : kernelStride d = .ok (w, h)) :
    ∃ b, TFLiteSupportedOperators__constraint_stride_range (.py w) (.py h) (.py P.stride.1) (.py P.stride.2) = .ok b ∧
      Sup.stride_range P d = .ok b := by
  refine ⟨inRange P.stride w && inRange P.stride h, ?_, ?_⟩
  · py_exec [TFLiteSupportedOperators__constraint_stride_range, inRange]
  · simp only [Sup.stride_range, hs]; rfl

/-- `constraint_dilated_height_range` (the attribute `op.kernel.area_height()` is `Kern.areaH`, see above) -/
theorem src_constraint_dilated_height_range_eq_model (P : Params) (d : OpDesc) (k : Kern) (hk : kernel d = .ok k) :
    ∃ b, TFLiteSupportedOperators__constraint_dilated_height_range (.py k.areaH) (.py P.dilH.1) (.py P.dilH.2) = .ok b ∧
      Sup.dilated_height_range P d = .ok b := by
  refine ⟨inRange P.dilH k.areaH, ?_, ?_⟩
  · py_exec [TFLiteSupportedOperators__constraint_dilated_height_range, inRange]
  · simp only [Sup.dilated_height_range, hk]; rfl

/-- `constraint_dilated_product_range` -/
theorem src_constraint_dilated_product_range_eq_model (P : Params) (d : OpDesc) (k : Kern) (hk : kernel d = .ok k) :
    ∃ b, TFLiteSupportedOperators__constraint_dilated_product_range (.py k.areaH) (.py k.areaW)
        (.py P.dilProd.1) (.py P.dilProd.2) = .ok b ∧
      Sup.dilated_product_range P d = .ok b := by
  refine ⟨inRange P.dilProd (k.areaW * k.areaH), ?_, ?_⟩
  · py_exec [TFLiteSupportedOperators__constraint_dilated_product_range, inRange]
  · simp only [Sup.dilated_product_range, hk]; rfl

/-- `constraint_filter_height_range` -/
theorem src_constraint_filter_height_range_eq_model (P : Params) (d : OpDesc) (k : Kern) (hk : kernel d = .ok k) :
    ∃ b, TFLiteSupportedOperators__constraint_filter_height_range (.py k.h) (.py P.filterH.1) (.py P.filterH.2) = .ok b ∧
      Sup.filter_height_range P d = .ok b := by
  refine ⟨inRange P.filterH k.h, ?_, ?_⟩
  · py_exec [TFLiteSupportedOperators__constraint_filter_height_range, inRange]
  · simp only [Sup.filter_height_range, hk]; rfl

/-- `constraint_filter_product_range` (`op.kernel.elements_wh()` is `k.w * k.h`, see above) -/
theorem src_constraint_filter_product_range_eq_model (P : Params) (d : OpDesc) (k : Kern) (hk : kernel d = .ok k) :
    ∃ b, TFLiteSupportedOperators__constraint_filter_product_range (.py (k.w * k.h))
        (.py P.filterProd.1) (.py P.filterProd.2) = .ok b ∧
      Sup.filter_product_range P d = .ok b := by
  refine ⟨inRange P.filterProd (k.w * k.h), ?_, ?_⟩
  · py_exec [TFLiteSupportedOperators__constraint_filter_product_range, inRange]
  · simp only [Sup.filter_product_range, hk]; rfl

/-- `constraint_filter_range`, SAME padding (`op.attrs["padding"] == Padding.SAME` is the model's `paddingIs d "SAME"`;
    the key is present: a missing key raises `KeyError` in Python and `exc` in the model) -/
theorem src_constraint_filter_range_same_eq_model (P : Params) (d : OpDesc) (k : Kern) (sw sh : Int)
    (hp : paddingIs d n!"SAME" = .ok true) (hs : kernelStride d = .ok (sw, sh)) (hk : kernel d = .ok k) :
    ∃ b, TFLiteSupportedOperators__constraint_filter_range (.py k.h) (.py k.w) true (.py sw)
        (.py P.filter.1) (.py P.filter.2) = .ok b ∧
      Sup.filter_range P d = .ok b := by
  refine ⟨(inRange P.filter k.w || sw == k.w) && inRange P.filter k.h, ?_, ?_⟩
  · py_exec [TFLiteSupportedOperators__constraint_filter_range, inRange]
    try rfl
  · simp only [Sup.filter_range, hp, hs, hk]; rfl

/-- `constraint_filter_range`, any other padding: `True` whatever the kernel -/
theorem src_constraint_filter_range_other_eq_model (P : Params) (d : OpDesc) (kh kw sw lo hi : Int)
    (hp : paddingIs d n!"SAME" = .ok false) :
    TFLiteSupportedOperators__constraint_filter_range (.py kh) (.py kw) false (.py sw) (.py lo) (.py hi) = .ok true ∧
      Sup.filter_range P d = .ok true := by
  refine ⟨?_, ?_⟩
  · py_exec [TFLiteSupportedOperators__constraint_filter_range]
  · simp only [Sup.filter_range, hp]; rfl

/-- non-vacuity: a stride of 4 is outside `[1, 3]`, a stride of 2 inside (translated source, evaluated) -/
example : TFLiteSupportedOperators__constraint_stride_range (.py 4) (.py 2) (.py 1) (.py 3) = .ok false ∧
    TFLiteSupportedOperators__constraint_stride_range (.py 2) (.py 2) (.py 1) (.py 3) = .ok true := by
  constructor <;> py_exec [TFLiteSupportedOperators__constraint_stride_range]

end VelaVerif.Props.C16Src
