import VelaVerif.Lemmas.TfliteRoundtrip
import VelaVerif.Lemmas.TfliteLoop
import VelaVerif.Model.TfliteDemo2
/-!
# C11 — the writer / reader round trip, assembled

`Reader.read` of the file `Writer.write d` produces is the normal form `normalise d` (Lemmas/TfliteRoundtrip.lean), for every
graph description `d` in the explicit domain `RoundtripDomain`. The layer theorems of Props/C11Writer.lean
(`read_write_roundtrip_tensors`, `_opcodes`, `_operands`, `written_operand_order`) are the ingredients; this file states the
assembly through the reader's graph surgery (Const / Placeholder producers, visibility of operators, de-duplicated inputs /
outputs and original output positions, renumbering of tensors across subgraphs, metadata).
-/
set_option linter.unusedSimpArgs false
namespace VelaVerif.Props.C11Roundtrip
open VelaVerif.Tflite VelaVerif.Tflite.Writer VelaVerif.Tflite.Roundtrip VelaVerif.OpIndices VelaVerif.Gen VelaVerif.Tflite.Demo

/-- **read_write_roundtrip_all.** For EVERY graph description: if the writer produces a file, reading that file is the same
computation as normalising the description — the same graph description, or the same failure. The failures left are exactly the
reader's own: an element type it does not know / constant data whose size is not that of the written shape (`checkData`, part of
`normTensor`), an original input with a producer (`Tensor.error`, part of `normSub`), and its cloning step on constant convolution
weights (e.g. weights that are not 4-dimensional, part of `normOps`). `normalise d` (Lemmas/TfliteRoundtrip.lean) is defined from
`d` without the file:

* tensors: for each written subgraph in order, its tensor list in the writer's order (`sgAll`: the tensor set sorted by
  (name, insertion index)), each tensor in the reader's normal form `normTensor` (name, written shape as both shapes, reader-side
  element type name, `readQuant ∘ quantT`, zero-length data dropped, variable flag, allocation attributes at their defaults, the
  full range of the element type when quantised); behind them the tensors the reader creates (below);
* a tensor reference `g` of subgraph `k` becomes `base_k + position of g in sgAll`, `base_k` = number of tensors before it;
* operators: the renumbered written operators `normROp` (type — `CustomNpuOp` as `Custom` with custom code "ethos-u" —, version,
  operands in the same order (the operand list after the writer's `src_tensor` restoration), the results / intermediates that are
  present, the option payload as written), put through the reader's own graph surgery at graph level (`normOps`:
  `Reader.virtualStep` for AssignVariable / CallOnce, `Reader.cloneStep` for constant convolution weights / bias), then listed as
  the reader lists them (`Reader.startupOps`: one Placeholder / Const per tensor without producer; `Reader.realOps`: the
  operators that still produce a tensor);
* `originalInputs` renumbered, `inputTensors = []`, `outputTensors` = de-duplicated renumbered outputs (after
  `original_output_positions` expansion) followed by the virtual outputs, `originalOutputPositions = some positions`,
  `cpu = true`;
* metadata: the writer's list (`metadataToWrite`: the graph's entries, `vela_version`, the offline plan) with names as bytes and
  zero-length data dropped; the version string passed to the reader.

So: read ∘ write = reader surgery ∘ renumbering ∘ (`src_tensor` restoration of `__init__`) ∘ tensor normal form. The serialisation
layer itself (tensor records, buffers, operator codes, operand indices, interface lists, metadata) is exact. Results that are
`None` and outputs that are not written tensors are dropped (`renResults`, `renList` are `filterMap`s); an operator none of whose
results survives vanishes (`Reader.realOps`); duplicate tensor names are fine (the order is by (name, insertion index)); virtual
outputs of the description are cut off by the writer (`sgOps`, `sgOuts`) and re-created by the reader. -/
theorem read_write_roundtrip_all (d : Desc) (m : ModelT) (h : Writer.write d = .ok m) :
    Reader.read d.version m = normalise d := by
  unfold Writer.write at h
  obtain ⟨enum, _, h⟩ := bind_ok h
  exact (read_writeWith d enum m h).1

/-- **The domain of the round-trip theorem** (decidable). For every subgraph the writer writes (Cpu placement, after `__init__` =
`prepSub`):

* `dataOk` for every written tensor: its element type is one the reader knows and its constant data has exactly the size of the
  written shape — the reader's own `buf.view(dtype).reshape(shape)` (cf. `C11Writer.read_write_roundtrip_tensors`); without it the
  reader raises ValueError on a file the writer produced (`roundtrip_dataOk_witness`);
* `inputsNotProduced`: no original input is a result of a written operator — otherwise the reader stops with `Tensor.error`
  (`roundtrip_inputsNotProduced_witness`);
* `opOk` for every written operator (no reader surgery): it is not AssignVariable / CallOnce (the reader would add a virtual
  output tensor), and if it is convolution-like its weights (operand 1) are present and not constant (the reader would put
  reshaped clones in place of weights / bias and add them to the tensor list). With surgery the theorem `read_write_roundtrip_all`
  still gives the result; only its success and its closed form are not proved in general (the clones' restoration by the writer is
  `C11Writer.reader_clones_never_written`). -/
def RoundtripDomain (d : Desc) : Prop := roundtripDomain d = true ∧ noSurgery d = true

instance (d : Desc) : Decidable (RoundtripDomain d) := inferInstanceAs (Decidable (_ ∧ _))

/-- **read_write_roundtrip.** On the domain: if the writer produces a file, the reader accepts it and builds exactly the normal
form of the description, in which the operators are just the renumbered written operators behind their Placeholder / Const
producers (`normal_form_without_surgery`) and no tensor is added. -/
theorem read_write_roundtrip (d : Desc) (m : ModelT) (hd : RoundtripDomain d) (h : Writer.write d = .ok m) :
    ∃ nd, normalise d = .ok nd ∧ Reader.read d.version m = .ok nd := by
  unfold Writer.write at h
  obtain ⟨enum, _, h⟩ := bind_ok h
  obtain ⟨h1, h2⟩ := read_writeWith d enum m h
  obtain ⟨nd, h3⟩ := h2 hd.1 hd.2
  exact ⟨nd, h3, by rw [h1, h3]⟩

/-- the same for any iteration order of the operator-code set (cf. `C11Writer.write_deterministic`) -/
theorem read_writeWith_roundtrip (d : Desc) (enum : List Code) (m : ModelT) (h : writeWith d enum = .ok m) :
    Reader.read d.version m = normalise d ∧ (RoundtripDomain d → ∃ nd, normalise d = .ok nd) :=
  ⟨(read_writeWith d enum m h).1, fun hd => (read_writeWith d enum m h).2 hd.1 hd.2⟩

/-- without surgery the operator part of the normal form is the renumbered operator list; tensor list and virtual outputs are
untouched -/
theorem normal_form_without_surgery (ci : OpInfo) (all : List Nat) (b : Nat) (T : List TensorD) (pl : List POp) (k : Nat)
    (h : ∀ p ∈ pl, OpSimple ci all b T p) : normOps ci all b pl k T = .ok (pl.map (normROp ci all b), T, []) :=
  normOps_simple ci all b T pl k h

/-- … and one subgraph of the normal form then has this closed form: its own normalised tensors behind the earlier ones; one
Placeholder / Const producer per tensor without producer, then the renumbered written operators that still produce a tensor;
renumbered original inputs; de-duplicated renumbered outputs with their positions; no virtual outputs -/
theorem normal_form_subgraph_without_surgery (ts : List TensorD) (ci : OpInfo) (prev own : List TensorD) (ps : PSub) (outs2 pos : List Nat)
    (ho1 : (sgAll ts ps).mapM (normTensorAt ts) = .ok own)
    (ho : outputList ps.sg.originalOutputPositions (sgOuts ps) = .ok outs2)
    (hpos : Reader.positionsOf (Reader.dedupNat (renList (sgAll ts ps) prev.length outs2)) (renList (sgAll ts ps) prev.length outs2) = .ok pos)
    (hinp : inputsNotProduced ps = true)
    (hs : ∀ p ∈ writtenOps ps, OpSimple ci (sgAll ts ps) prev.length (prev ++ own) p) :
    normSub ts ci prev ps = .ok (
      SubgraphD.mk ps.sg.name true
        (Reader.startupOps (prev ++ own) prev.length (sgAll ts ps).length ((writtenOps ps).map (normROp ci (sgAll ts ps) prev.length))
            (Reader.dedupNat (renList (sgAll ts ps) prev.length ps.sg.originalInputs)) ++
          Reader.realOps ((writtenOps ps).map (normROp ci (sgAll ts ps) prev.length)) [])
        (renList (sgAll ts ps) prev.length ps.sg.originalInputs) []
        (Reader.dedupNat (renList (sgAll ts ps) prev.length outs2)) (some pos) [], prev ++ own) :=
  normSub_simple ts ci prev own ps outs2 pos ho1 ho hpos hinp hs

/-! ## non-vacuity: a description in the domain -/

example : RoundtripDomain demo2 := by decide +kernel

/-- on `demo2` writing succeeds and both sides of the theorem evaluate to the same description -/
example : (write demo2).toOption.isSome = true ∧
    ((write demo2).toOption.bind fun m => (Reader.read demo2.version m).toOption) = (normalise demo2).toOption ∧
    (normalise demo2).toOption.isSome = true := by decide +kernel

/-- what the normal form looks like on `demo2`: tensors sorted by name, the reader-side element type names; Placeholder / Const
producers first, `CustomNpuOp` as `Custom`; renumbered interface with the repeated output de-duplicated -/
example : (normalise demo2).toOption.map (fun nd => (nd.tensors.map fun td => (td.name, td.dtype, td.values)))
    = some [(bytes "a_scratch", "uint8", none), (bytes "c", "int8", some (.raw [1, 2])), (bytes "unused", "float32", none),
            (bytes "v", "uint8", none), (bytes "x", "int8", none), (bytes "y", "int8", none), (bytes "z", "int8", none)] := by
  decide +kernel
/-- the scratch tensor and the constant get Const producers, the inputs Placeholder producers; `CustomNpuOp` reads back as
`Custom` "ethos-u" -/
example : (normalise demo2).toOption.map (fun nd => nd.subgraphs.flatMap fun s => s.ops.map fun o =>
      ((o.type, o.customCode), (o.inputs, o.outputs)))
    = some [(("Const", []), ([], [some 0])), (("Const", []), ([], [some 1])), (("Placeholder", []), ([], [some 2])),
            (("Placeholder", []), ([], [some 4])),
            (("Custom", ethosU), ([some 4, some 0], [some 5])), (("Add", []), ([some 5, some 1], [some 6])),
            (("Custom", bytes "Foo"), ([some 6, some 0], [some 3]))] := by
  decide +kernel
example : (normalise demo2).toOption.map (fun nd => nd.subgraphs.map fun s => (s.originalInputs, s.outputTensors, s.originalOutputPositions))
    = some [([4, 2], [3, 6], some [0, 1, 0])] := by
  decide +kernel
example : (normalise demo2).toOption.map (fun nd => nd.metadata.map fun md => (md.nameIsBytes, md.name, md.data.isSome))
    = some [(true, bytes "note", false), (true, velaVersionName, true), (true, omaName, true)] := by decide +kernel

example : RoundtripDomain demo4 ∧
    ((write demo4).toOption.bind fun m => (Reader.read demo4.version m).toOption) = (normalise demo4).toOption ∧
    (normalise demo4).toOption.isSome = true := by decide +kernel

/-! ## non-vacuity with surgery: constant convolution weights, a virtual output -/

/-- `Demo.demo` (a convolution whose weights `w` are constant; the description holds the reader's clone `w_reshape` with
`src_tensor = w`, which the writer replaces by `w` again) is in the domain, is not surgery-free, and both sides of the theorem are
the same successful result -/
example : roundtripDomain demo = true ∧ noSurgery demo = false ∧
    ((write demo).toOption.bind fun m => (Reader.read demo.version m).toOption) = (normalise demo).toOption ∧
    (normalise demo).toOption.isSome = true := by decide +kernel

/-- … in which the clone of `w` (tensor 3 of the file) is re-created behind the file's tensors and the convolution reads it -/
example : (normalise demo).toOption.map (fun nd => nd.tensors.map fun td => (td.name, td.src))
    = some [(bytes "a_scratch", none), (bytes "unused", none), (bytes "v", none), (bytes "w", none), (bytes "x", none),
            (bytes "y", none), (bytes "z", none), (bytes "w_reshape", some 3)] := by decide +kernel
example : (normalise demo).toOption.map (fun nd => nd.subgraphs.flatMap fun s => s.ops.map fun o => (o.type, (o.inputs, o.outputs)))
    = some [("Const", ([], [some 0])), ("Placeholder", ([], [some 1])), ("Const", ([], [some 3])), ("Placeholder", ([], [some 4])),
            ("Const", ([], [some 7])), ("Conv2DBias", ([some 4, some 7, none], [some 5])), ("Custom", ([some 5, some 0], [some 6])),
            ("Custom", ([some 6, some 0], [some 2]))] := by decide +kernel

example : roundtripDomain demo3 = true ∧ noSurgery demo3 = false ∧
    ((write demo3).toOption.bind fun m => (Reader.read demo3.version m).toOption) = (normalise demo3).toOption ∧
    (normalise demo3).toOption.isSome = true := by decide +kernel
example : (normalise demo3).toOption.map (fun nd => nd.tensors.map (·.name))
    = some [bytes "res", bytes "x", bytes "AssignVariable_0"] := by decide +kernel
example : (normalise demo3).toOption.map (fun nd => nd.subgraphs.map fun s => (s.outputTensors, s.virtualOutputs))
    = some [([2], [(2, some 2)])] := by decide +kernel

/-! ## the domain clauses are needed -/

/-- **roundtrip_dataOk_witness.** Outside `dataOk` the writer produces a file the reader rejects (ValueError of `reshape`; the
normal form fails the same way): the clause cannot be dropped. -/
theorem roundtrip_dataOk_witness : ¬ RoundtripDomain badData ∧ noSurgery badData = true ∧
    (write badData).toOption.map (fun m => errorOf (Reader.read badData.version m)) = some "value" ∧
    errorOf (normalise badData) = "value" := by decide +kernel

/-- **roundtrip_inputsNotProduced_witness.** An original input that a written operator produces: the writer writes it, the reader
stops with `Tensor.error` ("vela-error"). -/
theorem roundtrip_inputsNotProduced_witness : ¬ RoundtripDomain badInput ∧ noSurgery badInput = true ∧
    (write badInput).toOption.map (fun m => errorOf (Reader.read badInput.version m)) = some "vela-error" ∧
    errorOf (normalise badInput) = "vela-error" := by decide +kernel

/-- **roundtrip_noSurgery_witness.** With a constant-weight convolution (`Demo.demo`) the reader's checks pass but the closed form
of `read_write_roundtrip` fails: the graph read back has one tensor more than the file (the reshaped clone). -/
theorem roundtrip_noSurgery_witness : ¬ RoundtripDomain demo ∧ roundtripDomain demo = true ∧
    (write demo).toOption.map (fun m => (m.subgraphs.map fun s => s.tensors.length).sum) = some 7 ∧
    ((write demo).toOption.bind fun m => (Reader.read demo.version m).toOption).map (·.tensors.length) = some 8 := by decide +kernel

/-- with surgery the equation can be an equation between failures of the reader's cloning step: `demo` with
two-dimensional constant convolution weights — writing succeeds, reading and normalising both fail with "index" -/
example : roundtripDomain badWeights = true ∧
    (write badWeights).toOption.map (fun m => errorOf (Reader.read badWeights.version m)) = some "index" ∧
    errorOf (normalise badWeights) = "index" := by decide +kernel

/-! ## the two normal forms

`Spec.normalise` (Spec/TfliteRoundtrip.lean, import free: linked into the driver and compared with the REAL reader on the REAL
writer's files, request `wnorm`) and `Roundtrip.normalise` (here, with the decidable success domain and the closed form without
surgery) were written independently; on everything the writer accepts both are the reader's result on the written file. -/
theorem normal_forms_agree (d : Desc) (m : ModelT) (h : Writer.write d = .ok m) : Spec.normalise d = normalise d := by
  have h1 := read_write_roundtrip_all d m h
  cases hs : (subgraphsToWrite d).mapM (prepSub d.tensors) with
  | error e => rw [(write_err d e hs []).1] at h; exact absurd h (by simp)
  | ok subs =>
    rw [write_eq d subs hs] at h
    rw [← Spec.read_writeWith d subs hs _ m h, h1]

/-- so the decidable domain of `read_write_roundtrip` is also a success domain for `Spec.normalise` -/
theorem spec_normalise_ok (d : Desc) (m : ModelT) (hd : RoundtripDomain d) (h : Writer.write d = .ok m) :
    ∃ nd, Spec.normalise d = .ok nd ∧ Reader.read d.version m = .ok nd := by
  obtain ⟨nd, h1, h2⟩ := read_write_roundtrip d m hd h
  exact ⟨nd, by rw [normal_forms_agree d m h, h1], h2⟩

end VelaVerif.Props.C11Roundtrip
