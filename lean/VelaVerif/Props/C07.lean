import VelaVerif.Spec.Mlw
namespace VelaVerif.Props.C07
theorem placeholder : True := trivial
end VelaVerif.Props.C07
